import SSVerif.Props.C11Cache
open SSVerif.Lattice
#print axioms C11_cache_same_object_after_calls
#print axioms C11_cache_api_classes
