import SSVerif.Props.C05
open SSVerif.Jsgf
#print axioms C05_run_iff_der
#print axioms C05_explore_sound
#print axioms C05_table_represents
#print axioms C05_desugar_preserves
#print axioms C05_compiled_language
#print axioms C05_comparison_decides
#print axioms C05_expand_correct
#print axioms C05_compile_correct
#print axioms C05_parse_print
#print axioms C05_text_compile_correct
#print axioms C05_weights_normalised
