import SSVerif.Props.C01Hyp
open SSVerif.HypBuf
#print axioms C01_hyp_block_exact
#print axioms C01_hyp_no_store_out_of_bounds
#print axioms C01_hyp_null_iff
#print axioms C01_hyp_cstring
#print axioms C01_hyp_string_of_word_list
#print axioms C01_returned_c_string_is_sentence_of_loaded_grammar
#print axioms hypBuf_replicate
#print axioms fill_prefix
#print axioms C01_hyp_block_start_written_with_last_word_only
#print axioms visitWords_eq
