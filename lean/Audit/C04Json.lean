import SSVerif.Props.C04Json
open SSVerif.Align
#print axioms C04_json_affine_partition
#print axioms C04_json_time_iff
#print axioms C04_json_timeOKB_iff
#print axioms C04_json_hierarchy_in_time
#print axioms C04_json_recoverStart_sound
#print axioms C04_json_recoverDur_sound
#print axioms C04_json_recoverStart_iff
#print axioms C04_json_recoverDur_iff
