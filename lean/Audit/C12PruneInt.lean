import SSVerif.Props.C12PruneInt
open SSVerif.Lattice
#print axioms C12_prune_path_above_beam_survives
