import SSVerif.Props.C18Xlate4
open SSVerif
#print axioms C18_xlate_anytopo_run_invariant
#print axioms C18_xlate_clear_refines
#print axioms C18_xlate_anytopo_run_from_clear
