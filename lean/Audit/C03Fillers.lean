import SSVerif.Props.C03Fillers
open SSVerif.FsgVocab
#print axioms C03_filler_marks_follow_dictionary
