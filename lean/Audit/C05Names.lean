import SSVerif.Props.C05Names
open SSVerif.JsgfNames
#print axioms C05_generated_names_distinct
#print axioms C05_generated_names_not_user
#print axioms C05_rule_strings_injective
#print axioms C05_text_rule_strings_injective
#print axioms genNameBuf_collides
