import SSVerif.Props.C04Dead
open SSVerif.Align
#print axioms C04_dead_final_no_alignment
#print axioms C04_alignment_implies_final_alive
#print axioms C04_model_run_alignment_iff_alive
