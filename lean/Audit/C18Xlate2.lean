import SSVerif.Props.C18Xlate2
open SSVerif
#print axioms C18_xlate_anytopo_refines
#print axioms C18_xlate_anytopo_defined
#print axioms C18_xlate_anytopo_no_wrap
