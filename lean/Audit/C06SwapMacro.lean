import SSVerif.Props.C06SwapMacro
open SSVerif.FeSwap
#print axioms C06_swap_macro_int16_reverses
