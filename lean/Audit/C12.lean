import SSVerif.Props.C12
open SSVerif.Lattice
#print axioms C12_traverse_topological
#print axioms C12_bestpath_is_max
#print axioms C12_astar_nonincreasing
#print axioms C12_astar_paths_are_lattice_sentences
#print axioms C12_exact_forward_backward
#print axioms C12_int_bestpath_posterior_le_one
#print axioms C12_int_bestpath_posterior_dec
#print axioms C12_int_tables_eq
#print axioms C12_astar_first_is_max
#print axioms C12_int_link_posterior_le
#print axioms C12_int_link_posterior_dec
