import SSVerif.Props.C10
open SSVerif.TextIn
#print axioms C10_fsgRead_total
