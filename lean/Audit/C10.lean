import SSVerif.Props.C10
open SSVerif.TextIn
#print axioms C10_line_loop_bounded
#print axioms C10_nextLine_in_bounds
#print axioms C10_lines_tile_buffer
#print axioms C10_nextWord_in_bounds
#print axioms C10_words_in_line
#print axioms C10_json_tokens_in_bounds
#print axioms C10_int_conversions_in_range
#print axioms C10_fsg_wf
#print axioms C10_prob_test_exact
#print axioms C10_dict_wf
#print axioms C10_addWord_wf
#print axioms C10_align_wf
#print axioms C10_config_wf
