import SSVerif.Props.C10More
open SSVerif.TextIn
#print axioms C10_svspec_fuel_never_observed
#print axioms C10_svspec_pointer_in_string
#print axioms C10_svspec_wf
#print axioms C10_svspec_accepts_exactly_wf
#print axioms C10_svspec_range_expansion
#print axioms C10_svspec_projection_in_bounds
