import SSVerif.Props.C09Pred
open SSVerif.Protocol
#print axioms C09_pred_refines
#print axioms C09_pred_reachable_safe
#print axioms C09_pred_refused_is_noop
#print axioms C09_pred_refused_skippable
#print axioms C09_pred_results_consistent
#print axioms C09_pred_frames
#print axioms C09_pred_iterator_exhaustion
#print axioms C09_pred_next_flag_ignored
#print axioms C09_pred_count_recorded
#print axioms C09_pred_other_instance_untouched
#print axioms C09_pred_beliefs_match_protocol_state
