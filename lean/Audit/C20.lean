import SSVerif.Props.C20
open SSVerif.HashTable
#print axioms C20_run_refines
#print axioms C20_new_is_empty
#print axioms C20_iter_exact
#print axioms C20_modes_lawful
#print axioms C20_key_equality
