import SSVerif.Props.C11
open SSVerif.Lattice
#print axioms C11_latticeOKB_iff
#print axioms C11_lattice_acyclic
#print axioms C11_single_start_end
#print axioms C11_all_on_start_end_path
#print axioms C11_links_time_consistent
#print axioms C11_paths_are_grammar_paths
#print axioms C11_first_best_in_lattice
#print axioms C11_cache_same_object
#print axioms C11_first_best_decided
#print axioms C11_cache_new_utterance
