import SSVerif.Props.C11
open SSVerif.Lattice
#print axioms C11_latticeOKB_iff
