import SSVerif.Props.C10Dict
open SSVerif.DictLoad
#print axioms C10_dict_feeds_C16
#print axioms C10_dict_read_preserves_wf
#print axioms C10_dict_passes_wf
#print axioms C10_dict_loaded_found
#print axioms C10_dict_refused_is_noop
#print axioms C10_dict_loaded_appends
#print axioms C10_dict_alt_has_base
#print axioms C10_dict_special_words
