import SSVerif.Props.C06
open SSVerif.FeBuf
#print axioms C06_frames_canonical
#print axioms C06_count_only_N
#print axioms C06_consumed_once
#print axioms C06_dry_run_consistent
#print axioms C06_D25_witness
#print axioms C06_pinned_tree_deviation
#print axioms C06_frameCount_closed
#print axioms C06_frames_canonical_signal
#print axioms C06_chunking_independent
#print axioms C06_source_premises
