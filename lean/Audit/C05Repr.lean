import SSVerif.Props.C05Repr
open SSVerif.Jsgf
#print axioms C05_representable_fuel_stable
#print axioms C05_refusal_not_by_fuel
#print axioms C05_read_string
