import SSVerif.Props.C14Fmt
open SSVerif.Json
#print axioms C14_fmt3_is_json_number
#print axioms C14_fmtBits_json_iff_finite
#print axioms C14_fmt3_close
#print axioms C14_fmt3_monotone
#print axioms C14_fmt3_len
#print axioms C14_fmt3_len_finite
#print axioms C14_result_json_valid_fmt3
#print axioms C14_result_json_valid_fmt3_table
#print axioms C14_two_pass_agree_fmt3
#print axioms C14_null_iff_D80
#print axioms C14_result_json_valid_D80
#print axioms C14_args_finite
#print axioms C14_result_json_valid_every_offset
#print axioms C14_time_field_exact
#print axioms C14_duration_field_exact
#print axioms C14_begin_field_exact_zero_start
#print axioms C14_json_says_iterators_fmt3
#print axioms C14_duration_field_close
#print axioms C14_begin_fields_monotone
#print axioms C14_begin_field_error_budget
#print axioms C14_ulp_relative
