import SSVerif.Props.C08Query
open SSVerif.Props.C08Query
#print axioms noAlignSys_wf
#print axioms noAlignSys_flowClosed
#print axioms run_noAlign
#print axioms C08_queries_do_not_interfere
