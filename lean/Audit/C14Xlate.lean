import SSVerif.Props.C14Xlate
open SSVerif
#print axioms C14_json_escape_translated_eq_model
#print axioms C14_json_escape_translated_bytes
#print axioms C14_json_escape_defined
