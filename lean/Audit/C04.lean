import SSVerif.Props.C04
open SSVerif.Align
#print axioms C04_populate_structure
#print axioms C04_backtrace_partition
#print axioms C04_children_are_blocks
#print axioms C04_boundaries_preserved
#print axioms C04_scores_add_up
#print axioms C04_alignOKB_iff
#print axioms C04_step_constants
#print axioms C04_alignStep_tokens_local_partial
#print axioms C04_alignStep_inv_start
#print axioms C04_alignStep_WFTokens
#print axioms C04_alignStep_never_renormalises
#print axioms C04_model_run_wfTokens
#print axioms C04_model_run_hierarchy
#print axioms C04_alignScore_is_best_path
#print axioms C04_word_score_is_acoustic_part_partial
#print axioms C04_model_run_scores_optimal_partial
#print axioms C04_word_score_is_best_segment
