import SSVerif.Props.C04
open SSVerif.Align
#print axioms C04_populate_structure
#print axioms C04_backtrace_partition
#print axioms C04_boundaries_preserved
#print axioms C04_scores_add_up
#print axioms C04_alignOKB_iff
