import SSVerif.Props.C04Tree
open SSVerif.Align
#print axioms C04_model_tree_alignOK_partial
#print axioms C04_model_run_tree_alignOK_partial
