import SSVerif.Props.C06Swap
open SSVerif.FeSwap
#print axioms C06_swap_between_calls
#print axioms C06_swap_no_wrong_order_read
#print axioms C06_swap_call_refines
#print axioms C06_swap_frames_canonical
#print axioms C06_swap_flag_irrelevant
#print axioms C06_swap_run_refines
#print axioms C06_swap_process_refines
#print axioms C06_swap_sites_match_model
#print axioms C06_swap_after_schedule
#print axioms C06_swap_window_values
#print axioms C06_swap_mixed_encodings_canonical
#print axioms C06_swap_overflow_invariant_necessary
#print axioms C06_swap_carry_invariant_necessary
