import SSVerif.Props.C10DictSim
open SSVerif.DictLoad
#print axioms C10_dict_reader_is_projection
#print axioms C10_dict_wf_object_is_C16_wf
#print axioms C10_dict_both_invariants
#print axioms C10_dict_table_is_loaded_lines
