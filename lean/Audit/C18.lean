import SSVerif.Props.C18
open SSVerif.Ranges
#print axioms C18_hmm_no_wrap
#print axioms C18_hmm5_no_wrap
#print axioms C18_hmm_invariant
#print axioms C18_hmm5_invariant
#print axioms C18_clear_ok
#print axioms C18_topn_norm_range
#print axioms C18_topn_norm_best_zero
#print axioms C18_topn_sorted
#print axioms C18_frame_norm_range
#print axioms C18_senscr_range
#print axioms C18_path_score_bound
#print axioms C18_path_no_wrap
#print axioms C18_enter_no_wrap
#print axioms C18_null_seg_no_wrap
