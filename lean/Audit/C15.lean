import SSVerif.Props.C15
open SSVerif.Endpointer
#print axioms C15_ring_refines_fifo
#print axioms C15_excerpt_exact
#print axioms C15_trigger_rule
#print axioms C15_timestamps
#print axioms C15_end_stream
#print axioms C15_init_valid
#print axioms C15_D01_orig_leaves_array
