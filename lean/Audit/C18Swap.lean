import SSVerif.Props.C18Swap
open SSVerif.C18Swap
#print axioms C18_sample_paths_swap_exactly_once
#print axioms C18_sample_path_table_complete
