import SSVerif.Props.C18Swap
open SSVerif.FeSwap
#print axioms C18_sample_paths_swap_exactly_once
#print axioms C18_sample_path_table_complete
