import SSVerif.Props.C06Closed
open SSVerif.FeBuf
#print axioms C06_call_log_closed
#print axioms C06_quantities_fit_c_types
#print axioms C06_count_types_at_least_32_bits
