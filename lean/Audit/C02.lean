import SSVerif.Props.C02
open SSVerif
#print axioms C02_viterbi_is_max
#print axioms C02_viterbi_none_iff
#print axioms C02_driver_optimum
#print axioms C02_pruned_le_optimum
#print axioms C02_unpruned_is_dp
#print axioms C02_beam_search_is_masked_dp
#print axioms C02_wide_beams_prune_nothing
#print axioms C02_buildB_toNet
#print axioms C02_pathScore_sound
#print axioms C02_hmmStep_eq_ideal
#print axioms C02_hmmStep5_eq_ideal
#print axioms C02_inv_clear
#print axioms C02_hmmEdges_ideal
#print axioms C02_alignment_iff_labelled
#print axioms C02_alignment_sentence
#print axioms C02_build_labelsOK
#print axioms C02_build_optimum_over_sentences
#print axioms C02_hist_domination_exact
