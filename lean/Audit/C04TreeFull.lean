import SSVerif.Props.C04TreeFull
open SSVerif.Align
#print axioms C04_model_tree_alignOK
#print axioms C04_model_run_tree_alignOK
