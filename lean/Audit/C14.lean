import SSVerif.Props.C14
open SSVerif.Json
#print axioms C14_two_pass_agree
#print axioms C14_null_iff
#print axioms C14_strlen_is_alloc
#print axioms C14_json_valid
#print axioms C14_json_says_iterators
#print axioms C14_escape_fits
#print axioms C14_escape_roundtrip
#print axioms C14_escape_utf8
#print axioms resultJson_exact
#print axioms hypPieces_eq
