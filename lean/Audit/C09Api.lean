import SSVerif.Props.C09Api
open SSVerif.Protocol
#print axioms C09_api_total
#print axioms C09_api_ops_exist
#print axioms C09_api_signatures
#print axioms C09_api_reachable_wf
#print axioms C09_api_ledger_balanced
#print axioms C09_all_released_empty
#print axioms C09_error_is_noop
#print axioms C09_borrows_live_step
#print axioms C09_borrows_live
#print axioms C09_read_borrows_are_live
#print axioms C09_borrow_read_legal_iff
#print axioms C09_predicted_returns
#print axioms C09_predicted_not_echoed
#print axioms C09_api_oop_changes_nothing
#print axioms C09_api_step_total
#print axioms C09_dictionary_predicted
#print axioms C09_started_processing_unobservable
#print axioms C09_borrows_isolated
