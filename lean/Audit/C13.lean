import SSVerif.Props.C13
open SSVerif.Fsg
#print axioms C13_closure_preserves_lang
#print axioms C13_closure_preserves_best
#print axioms C13_closure_preserves_real
#print axioms C13_closure_never_lowers
#print axioms C13_noSat_of_total
#print axioms C13_satBest_unique
#print axioms C13_closure_terminates
#print axioms C13_closure_idempotent
#print axioms C13_closure_unique
#print axioms C13_addSilence_preserves_real
#print axioms C13_addSilence_idempotent
#print axioms C13_addAlt_preserves_base
#print axioms C13_nullWF_api
#print axioms C13_write_read_roundtrip
#print axioms C13_write_read_closed
#print axioms C13_accepts_iff_nfa
#print axioms C13_bestLogProb_sound
#print axioms C13_bestLogProb_total
#print axioms C13_bestLogProb_iff
#print axioms C13_read_wf
#print axioms C13_kwMatch_iff
#print axioms C13_wordAdd_spec
#print axioms C13_arcsOf_spec
