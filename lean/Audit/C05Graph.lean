import SSVerif.Props.C05Graph
open SSVerif.Jsgf
#print axioms C05_representable_iff_graph
#print axioms C05_compile_iff_graph
#print axioms C05_graph_decides
#print axioms C05_refused_iff_graph
#print axioms C05_expand_iff_graphB
#print axioms mem_reachList
#print axioms reachList_closed
