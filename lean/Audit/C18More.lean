import SSVerif.Props.C18More
open SSVerif.Ranges
#print axioms C18_hmm3mpx_no_wrap
#print axioms C18_hmm5mpx_no_wrap
#print axioms C18_hmm3mpx_invariant
#print axioms C18_hmm5mpx_invariant
#print axioms C18_mpx_init_ok
#print axioms C18_anytopo_no_wrap
#print axioms C18_anytopo_bounded
#print axioms C18_anytopo_invariant_floored
#print axioms C18_anytopo_clear_ok
#print axioms C18_anytopo_budget
#print axioms C18_normalize_no_wrap
#print axioms C18_renorm_not_before
#print axioms C18_renorm_budget
#print axioms C18_semi_norm_range
#print axioms C18_semi_range
#print axioms C18_ms_norm_range
#print axioms C18_semi_budget
#print axioms C18_add_index_bound
#print axioms C18_semi_frame_range
#print axioms C18_align_run_no_wrap
#print axioms C18_topn_length
#print axioms C18_frame_norm_range_of_input
#print axioms C18_semi_frame_range_of_input
