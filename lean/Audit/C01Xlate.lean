import SSVerif.Props.C01Xlate
open SSVerif
#print axioms C01_xlate_hmm3_refines
#print axioms C01_xlate_hmm3_eq
#print axioms C01_xlate_hmm3_eval_refines
