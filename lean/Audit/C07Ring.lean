import SSVerif.Props.C07Ring
open SSVerif.AcmodBuf
#print axioms C07_ring_last_slot
#print axioms C07_ring_last_slot_after_push
#print axioms C07_ring_end_padding
#print axioms C07_ring_last_frame_padded
#print axioms C07_ring_last_window
