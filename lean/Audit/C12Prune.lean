import SSVerif.Props.C12Prune
open SSVerif.Lattice
#print axioms C12_prune_return_value
#print axioms C12_prune_result_exact
#print axioms C12_prune_keeps_wellformed
#print axioms C12_prune_traversal_and_bestpath
#print axioms C12_prune_paths_are_original_paths
#print axioms C12_prune_bestpath_preserved
#print axioms C12_prune_all_paths_cut
#print axioms C12_prune_endmark_not_kept
#print axioms C12_prune_idempotent
#print axioms C12_prune_unlink_loop_is_closed_form
#print axioms C12_prune_latticeOK_iff
