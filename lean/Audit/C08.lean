import SSVerif.Props.C08
open SSVerif.Api
#print axioms C08_inventory_exhaustive
#print axioms C08_classification_total
#print axioms C08_classification_unique
#print axioms C08_globals_total
#print axioms C08_kinds_consistent
#print axioms C08_no_stale_read
#print axioms C08_finish_clears_search
#print axioms C08_cmn_is_the_only_carry
#print axioms C08_tainted_carries
#print axioms C08_persistent_not_written
#print axioms C08_start_resets
#print axioms C08_utterance_function
#print axioms C08_batch_no_reset
#print axioms C08_instances_disjoint
#print axioms C08_topn_rescan_independent
#print axioms C08_creation_order_irrelevant
