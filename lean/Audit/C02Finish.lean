import SSVerif.Props.C02Finish
open SSVerif
#print axioms C02_off_list_hmms_are_cleared
#print axioms C02_finish_clears_every_hmm
#print axioms C02_finish_restores_initial
#print axioms C02_kth_utterance_runs_as_first
