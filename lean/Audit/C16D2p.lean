import SSVerif.Props.C16D2p
open SSVerif.Dict
#print axioms C16_d2p_mdef_never_bad
#print axioms C16_d2p_macros_exact
#print axioms C16_d2p_compress_all_bad
#print axioms C16_d2p_rssid_dense
#print axioms C16_d2p_word_look
#print axioms C16_d2p_look_agree
#print axioms C16_d2p_macros_exact_api
#print axioms C16_d2p_lookB_holds
#print axioms C16_d2p_bitvec_index_inj
