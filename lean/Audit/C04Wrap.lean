import SSVerif.Props.C04Wrap
open SSVerif.Align.Wrap
#print axioms C04_wrapper_frames
#print axioms C04_wrapper_words_tile
#print axioms C04_wrapper_model_pass2_ok
#print axioms C04_wrapper_words_are_first_pass
#print axioms C04_wrapper_reuse
#print axioms C04_wrapper_repeated_call
#print axioms C04_wrapper_replaced_search_null
