import SSVerif.Props.C01Search
open SSVerif.Search
#print axioms C01_word_exit_meets_EntryOK
#print axioms C01_step_preserves_WFHist
#print axioms C01_start_establishes_SearchInv
#print axioms C01_reachable_WFHist
#print axioms C01_finish_clears_search
#print axioms C01_hmm_eval_3st_refines
#print axioms C01_search_checkers_sound
#print axioms C01_build_lexTreeOK
#print axioms C01_reachable_WFHist_built
#print axioms C01_build_chains_end
