import SSVerif.Props.C05Widths
open SSVerif.JsgfW
#print axioms C05_state_integer_widths
#print axioms C05_state_counter_is_32_bit
#print axioms C05_states_not_merged
