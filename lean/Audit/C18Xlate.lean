import SSVerif.Props.C18Xlate
open SSVerif
#print axioms C18_xlate_hmm3_trace_covers
#print axioms C18_xlate_hmm3_no_wrap
