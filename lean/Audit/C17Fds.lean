import SSVerif.Props.C17Fds
open SSVerif.S3file
#print axioms C17_open_is_closed
