import SSVerif.Props.C01
open SSVerif.Hist
#print axioms C01_hyp_is_sentence
#print axioms C01_partial_is_prefix_path
#print axioms C01_no_path_no_hyp
#print axioms C01_search_grammar_projects
#print axioms C01_reported_sentence_in_loaded_grammar
#print axioms C01_partial_in_loaded_grammar
#print axioms C01_null_prop_preserves_WFHist
#print axioms C01_start_establishes_WFHist
#print axioms C01_append_preserves_WFHist
#print axioms wfHistB_iff
#print axioms decidePrefix_sound
#print axioms SSVerif.Nfa.decideAccepts_sound
#print axioms SSVerif.Nfa.checkPath_sound
