import SSVerif.Props.C01
open SSVerif.Hist
#print axioms C01_hyp_is_sentence
#print axioms C01_partial_is_prefix_path
#print axioms C01_no_path_no_hyp
#print axioms C01_search_grammar_projects
#print axioms C01_reported_sentence_in_loaded_grammar
#print axioms C01_partial_in_loaded_grammar
#print axioms C01_null_prop_preserves_WFHist
#print axioms C01_start_establishes_WFHist
#print axioms C01_append_preserves_WFHist
#print axioms wfHistB_iff
#print axioms decidePrefix_sound
#print axioms SSVerif.Nfa.decideAccepts_sound
#print axioms SSVerif.Nfa.checkPath_sound
#print axioms C01_reachable_result_in_loaded_grammar
#print axioms SSVerif.Search.C01_word_exit_meets_EntryOK
#print axioms SSVerif.Search.C01_step_preserves_WFHist
#print axioms SSVerif.Search.C01_start_establishes_SearchInv
#print axioms SSVerif.Search.C01_reachable_WFHist
#print axioms SSVerif.Search.C01_finish_clears_search
#print axioms SSVerif.Search.C01_hmm_eval_3st_refines
#print axioms SSVerif.Search.C01_search_checkers_sound
#print axioms SSVerif.Search.C01_build_lexTreeOK
#print axioms SSVerif.Search.C01_reachable_WFHist_built
#print axioms SSVerif.Search.C01_build_chains_end
