import SSVerif.Props.C16Load
open SSVerif.DictLoad
#print axioms C16_wf_files_and_additions
#print axioms C16_wf_loaded_then_anything
