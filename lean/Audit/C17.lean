import SSVerif.Props.C17
open SSVerif.S3file
#print axioms C17_get_in_bounds
#print axioms C17_get_returns_min
#print axioms C17_plan_decides
#print axioms C17_header_in_bounds
#print axioms C17_sendump_rows_inside
#print axioms C17_mdef_decides
#print axioms C17_mdef_tables_aligned
#print axioms C17_assembly_decides
#print axioms C17_acmod_load_in_bounds
#print axioms Ledger.C17_reject_leaves_clean
