import SSVerif.Props.C09Blk
open SSVerif.BlkArray
#print axioms C09_blk_reset_restores
#print axioms C09_blk_history_safe
#print axioms C09_blk_reset_after_any_history
#print axioms C09_blk_append_returns
