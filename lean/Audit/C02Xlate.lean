import SSVerif.Props.C02Xlate
open SSVerif
#print axioms C02_xlate_hmm3_refines
#print axioms C02_xlate_hmm3_frame
#print axioms C02_xlate_hmm3_defined
#print axioms C02_xlate_hmm3_eq_ideal
#print axioms C02_xlate_hmm5_refines
#print axioms C02_xlate_hmm5_eq_ideal
#print axioms C02_xlate_hmm5_defined
