import SSVerif.Props.C20Xlate
open SSVerif
#print axioms C20_xlate_key2hash_at
#print axioms C20_xlate_key2hash_refines
#print axioms C20_xlate_key2hash_defined
#print axioms C20_xlate_prime_size_at
#print axioms C20_xlate_prime_size_refines
#print axioms C20_xlate_prime_size_defined
#print axioms C20_xlate_prime_size_table
#print axioms C20_xlate_bucket_index
#print axioms C20_xlate_run_refines
#print axioms C20_xlate_bucket_index_bin
