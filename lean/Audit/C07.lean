import SSVerif.Props.C07
import SSVerif.Props.C07Fe
open SSVerif.AcmodBuf SSVerif.AcmodFe
#print axioms C07_features_canonical
#print axioms C07_frames_searched_const
#print axioms C07_chunking_independent
#print axioms C07_alignment_canonical
#print axioms C07_ring_safe_open
#print axioms C07_ring_safe
#print axioms C07_consts_ok
#print axioms C07_full_features_canonical
#print axioms C07_full_equals_streaming_windows
#print axioms C07_runUttS_eq_runUtt
#print axioms C07_nextId_eq_frameCount
#print axioms C07_samples_to_windows_canonical
#print axioms C07_samples_chunking_independent
