import SSVerif.Props.C07
