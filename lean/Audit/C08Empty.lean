import SSVerif.Props.C08Empty
open SSVerif.Api
#print axioms C08_empty_utterances_leave_search_at_rest
