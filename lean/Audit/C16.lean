import SSVerif.Props.C16
open SSVerif.Dict
#print axioms C16_wf_reachable
#print axioms C16_wf_init
#print axioms C16_add_then_lookup
#print axioms C16_add_then_lookup_decoder
#print axioms C16_others_unchanged
#print axioms C16_known_words_persist
#print axioms C16_reject_is_noop
#print axioms C16_reject_is_noop_decoder
#print axioms C16_grow_transparent
#print axioms C16_grow_room
#print axioms C16_alt_chain
#print axioms C16_alt_basestr
#print axioms C16_basestr_spec
#print axioms C16_chain_persists
#print axioms C16_d2p_covers
#print axioms C16_key_equality
#print axioms C16_compress_lossless
#print axioms C16_d2p_tables_exact
#print axioms C16_d2p_internal_exact
#print axioms C16_nearest_backoff
