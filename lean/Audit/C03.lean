import SSVerif.Props.C03
open SSVerif.Hist
#print axioms C03_segs_tile
#print axioms C03_tile_consequences
#print axioms C03_hyp_eq_segs
#print axioms C03_no_segs_no_hyp
#print axioms C03_seg_scores_sum
#print axioms C03_checkers_sound
#print axioms C03_ends_within_frames
#print axioms C03_T0
#print axioms C03_T1
#print axioms C03_T2_T3
#print axioms C03_only_start_markers
#print axioms wfHistB_iff
