import SSVerif.Props.C03
import SSVerif.Props.C03Frames
open SSVerif.Hist
#print axioms C03_segs_tile
#print axioms C03_tile_consequences
#print axioms C03_hyp_eq_segs
#print axioms C03_no_segs_no_hyp
#print axioms C03_seg_scores_sum
#print axioms C03_checkers_sound
#print axioms C03_ends_within_frames
#print axioms C03_T0
#print axioms C03_T1
#print axioms C03_T2_T3
#print axioms C03_only_start_markers
#print axioms wfHistB_iff
#print axioms SSVerif.C03Frames.C03_frames_add_up_partial
#print axioms SSVerif.C03Frames.C03_frames_add_up_full
#print axioms SSVerif.C03Frames.C03_frames_match_front_end_partial
#print axioms SSVerif.C03Frames.C03_last_segment_within_M_partial
#print axioms SSVerif.C03Frames.search_frame_counts_steps
#print axioms SSVerif.C03Frames.C03_frames_equal_frameCount_partial
