import SSVerif.Props.C03Widths
open SSVerif.SegW
#print axioms C03_frame_integer_widths
#print axioms C03_frame_counter_is_32_bit
