import SSVerif.Props.C16Probe
open SSVerif.Dict
#print axioms C16_queries_transparent
#print axioms C16_answer_ignores_queries
#print axioms C16_lookup_add_lookup
#print axioms C16_wid_dadd_wid
