import SSVerif.Props.C20Iter
open SSVerif.HashTable
#print axioms C20_iter_enumerates
#print axioms C20_iter_next_step
#print axioms C20_iter_scan
#print axioms C20_tolist_enumerates
#print axioms C20_iter_walk_reachable
