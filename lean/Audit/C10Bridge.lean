import SSVerif.Props.C10Bridge
open SSVerif.TextIn
#print axioms C10_fsg_feeds_C13
#print axioms C10_fsg_bytes_feed_C13
