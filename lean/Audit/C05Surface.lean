import SSVerif.Props.C05Surface
open SSVerif.Jsgf
#print axioms C05_surface_graph_partial
#print axioms C05_compile_needs_surface_graph
