import SSVerif.Props.C04Xlate
open SSVerif
#print axioms xl_hmm3_best
#print axioms C04_xlate_eval3_refines
#print axioms C04_xlate_normalize_refines
#print axioms C04_xlate_normalize_defined
#print axioms C04_xlate_normalize_dead
