import SSVerif.Props.C19
open SSVerif.LogAdd
#print axioms C19_logAdd_comm
#print axioms C19_logAdd_zero_identity
#print axioms C19_logAdd_bounds
#print axioms C19_logAdd_mono
#print axioms C19_logAdd_accurate
#print axioms C19_tables_checked
#print axioms C19_width_boundary
#print axioms C19_logAdd_spec
#print axioms C19_logAdd_is_rounded_log_of_sum
#print axioms C19_t0_is_log2
#print axioms C19_log_loses_less_than_one_unit
#print axioms C19_log_exp_never_increases_partial
#print axioms C19_D20_witness
#print axioms C19_log_of_exp
