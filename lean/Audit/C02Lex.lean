import SSVerif.Props.C02Lex
open SSVerif.LexFlat
#print axioms C02_lextree_context_sets
