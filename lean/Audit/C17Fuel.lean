import SSVerif.Props.C17Fuel
open SSVerif.S3file
#print axioms C17_scan_fuel_enough
#print axioms C17_newline_scan_exact
#print axioms C17_short_read_stages_dead
