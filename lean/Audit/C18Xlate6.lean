import SSVerif.Props.C18Xlate6
open SSVerif
#print axioms C18_xlate_normalize_refines
#print axioms C18_xlate_normalize_trace_covers
#print axioms C18_xlate_normalize_no_wrap
