import SSVerif.Props.C12Round
open SSVerif.Lattice
#print axioms C12_int_passes_close
#print axioms C12_int_posterior_close
#print axioms C12_int_totals_close
#print axioms C12_int_passes_accurate_dec
#print axioms C12_int_posterior_accurate_dec
#print axioms C12_int_posterior_le_one_plus_budget
#print axioms C12_int_forward_backward_totals_agree
#print axioms C12_int_link_posterior_ge_path_posterior
#print axioms C12_round_checked
#print axioms C12_alphaInt_refines_exact
#print axioms C12_old_hyps_checked
#print axioms exL_roundHyps
