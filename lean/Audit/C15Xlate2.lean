import SSVerif.Props.C15Xlate2
open SSVerif
#print axioms C15_xlate_clock_count
#print axioms C15_xlate_push_sim
#print axioms C15_xlate_push_refines
#print axioms C15_xlate_push_defined
#print axioms C15_xlate_pop_sim
#print axioms C15_xlate_pop_refines
#print axioms C15_xlate_pop_defined
#print axioms C15_xlate_push_then_count_window
#print axioms C15_xlate_pop_fifo
#print axioms C15_xlate_process_sim
#print axioms C15_xlate_process_defined
#print axioms C15_xlate_process_trigger_rule
#print axioms C15_xlate_process_null
#print axioms C15_xlate_end_stream_loop_sim
#print axioms C15_xlate_end_stream_loop_defined
#print axioms C15_xlate_end_stream_loop_refines
#print axioms C15_xlate_end_stream_loop_fifo
