import SSVerif.Props.C18Cmn
open SSVerif.CmnRepr
#print axioms const_facts
#print axioms setRepr_eq
#print axioms C18_cmn_import_export
#print axioms C18_cmn_update_after_import_noop
#print axioms C18_cmn_import_update_export
#print axioms C18_cmn_import_forgets_history
#print axioms C18_cmn_import_forgets_history_cont
#print axioms C18_cmn_update_idempotent
#print axioms C18_cmn_update_idempotent_state
#print axioms C18_cmn_roundtrip
#print axioms C18_cmn_roundtrip_direct
#print axioms C18_cmn_import_lengths
#print axioms C18_cmn_batch_lengths
#print axioms C18_cmn_import_after_batch
#print axioms C18_cmn_frame_effect
