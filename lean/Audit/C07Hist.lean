import SSVerif.Props.C07Hist
open SSVerif.AcmodBuf
#print axioms wf0b_iff
#print axioms C07_end_state_WF0
#print axioms C07_end_state_WF0_named
#print axioms C07_end_state_WF0_full
#print axioms C07_event_WF0
#print axioms C07_history_WF0
#print axioms C07_any_history
#print axioms C07_features_canonical_any_history
#print axioms C07_chunking_independent_any_history
#print axioms C07_results_identical
#print axioms C07_alignment_reads_identical
#print axioms sh_runUtt
#print axioms C07_samples_results_identical
#print axioms C07_shape_unconditional
