import SSVerif.Props.C17Flags
open SSVerif.S3file
#print axioms C17_mdef_cionly_decides
#print axioms C17_mdef_cionly_same_reads
#print axioms C17_mdef_cionly_tables_aligned
#print axioms C17_unmap_is_map
