import SSVerif.Props.C18Xlate3
open SSVerif
#print axioms C18_xlate_hmm3mpx_trace_covers
#print axioms C18_xlate_hmm3mpx_no_wrap
