import SSVerif.Props.C11Widths
open SSVerif.Lattice
#print axioms C11_lattice_integer_widths
