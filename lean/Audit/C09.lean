import SSVerif.Props.C09
open SSVerif.Protocol
#print axioms C09_step_total
#print axioms C09_history_total
#print axioms C09_out_of_order_is_noop
#print axioms C09_stays_usable
#print axioms C09_usable_after_out_of_order
#print axioms C09_reachable_wf
#print axioms C09_ledger_balanced
#print axioms C09_used_iterators_are_live
#print axioms C09_sys_reachable_wf
#print axioms C09_sys_ledger_balanced
#print axioms C09_instances_disjoint_step
#print axioms C09_alignment_vector_in_bounds
#print axioms C09_built_alignments_in_bounds
