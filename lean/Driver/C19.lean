import SSVerif.Model.LogAdd
import SSVerif.Model.LogConfigs
import Driver.Util
/-! driver sub-command `c19`: runs the log-add model (`logAdd`, `logPost`, `expArg`, `zeroOf`,
`widthOf`) on the generated tables over the line protocol of `harness/h_c19.c` -/
namespace Driver.C19
open SSVerif.LogAdd Driver

structure St where
  cfg : Option Config
  lm : LogMath

def fnv (t : Array Nat) : UInt64 :=
  t.foldl (fun h v => (h ^^^ UInt64.ofNat v) * 0x100000001b3) 0xcbf29ce484222325

def sweepVals (lm : LogMath) (x y dx dy : Int) (n : Nat) : List Int :=
  (List.range n).map fun (i : Nat) => logAdd lm (x + (i : Int) * dx) (y + (i : Int) * dy)

def countBranches (lm : LogMath) (x y dx dy : Int) (n : Nat) : List (String × Nat) :=
  let names := ["x-zero", "y-zero", "overflow", "beyond", "table-x", "table-y"]
  let bs := (List.range n).map fun (i : Nat) => logAddBranch lm (x + (i : Int) * dx) (y + (i : Int) * dy)
  names.map fun nm => (nm, (bs.filter (· == nm)).length)

def parseRuns (t : String) : Option (List (Nat × Nat)) :=
  (t.splitOn ",").mapM fun p =>
    match p.splitOn ":" with
    | [v, n] => do let v ← parseNat v; let n ← parseNat n; pure (v, n)
    | _ => none

def step (s : St) (ws : List String) : St × String :=
  match ws with
  | ["cfg", name, _base, _shift] =>
    match configs.lookup name with
    | some c =>
      let lm := c.lm
      ({ cfg := some c, lm },
       s!"cfg {name} size {lm.table.size} width {widthOf (tval lm.table 0)} shift {lm.shift} zero {zeroOf lm.shift}")
    | none => (s, "unknown-cfg")
  | ["cfgnotab", name, shift] =>
    -- an object made with `use_table = 0`: only the conversions (`logPost`, `expArg`, `zeroOf`) are modelled
    match parseNat shift with
    | some sh =>
      let lm : LogMath := { table := #[], zero := zeroOf sh, shift := sh }
      ({ cfg := some ⟨0, 0, sh, 0, 0, 0, 0, lm.zero, []⟩, lm }, s!"cfg {name} size 0 width 0 shift {sh} zero {zeroOf sh}")
    | none => (s, "bad-op")
  | ["cfgdyn", name, shift, runs] =>
    -- a table dumped in this run for a base without a generated (kernel-checked) table:
    -- `runs` is `v:n,v:n,…`; zero and width are the model's
    match parseNat shift, parseRuns runs with
    | some sh, some rl =>
      let lm : LogMath := { table := tableOfRuns rl, zero := zeroOf sh, shift := sh }
      let c : Config := ⟨0, 0, sh, 0, 0, widthOf (tval lm.table 0), lm.table.size, lm.zero, rl⟩
      ({ cfg := some c, lm },
       s!"cfg {name} size {lm.table.size} width {widthOf (tval lm.table 0)} shift {lm.shift} zero {zeroOf lm.shift}")
    | _, _ => (s, "bad-op")
  | _ =>
    match s.cfg with
    | none => (s, "no-cfg")
    | some _ =>
      match ws with
      | ["tab"] => (s, s!"t {s.lm.table.size} {(fnv s.lm.table).toNat}")
      | ["add", x, y] =>
        match parseInt x, parseInt y with
        | some x, some y => (s, s!"r {logAdd s.lm x y}")
        | _, _ => (s, "bad-op")
      | ["sweep", x, y, dx, dy, n] =>
        match parseInt x, parseInt y, parseInt dx, parseInt dy, parseNat n with
        | some x, some y, some dx, some dy, some n =>
          (s, "s" ++ String.join ((sweepVals s.lm x y dx dy n).map fun v => s!" {v}"))
        | _, _, _, _, _ => (s, "bad-op")
      | ["branches", x, y, dx, dy, n] =>
        match parseInt x, parseInt y, parseInt dx, parseInt dy, parseNat n with
        | some x, some y, some dx, some dy, some n =>
          (s, "b" ++ String.join ((countBranches s.lm x y dx dy n).map fun (nm, k) => s!" {nm}:{k}"))
        | _, _, _, _, _ => (s, "bad-op")
      | ["logpost", ppos, num, den] =>
        match parseInt num, parseNat den with
        | some num, some den => (s, s!"l {logOf s.lm (ppos == "1") num den}")
        | _, _ => (s, "bad-op")
      | ["exparg", l] =>
        match parseInt l with
        | some l => (s, s!"e {expArg s.lm.shift l}")
        | none => (s, "bad-op")
      | _ => (s, "bad-op")

def main : IO Unit :=
  runLoop step { cfg := none, lm := { table := #[], zero := 0, shift := 0 } }

end Driver.C19
