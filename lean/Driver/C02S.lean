import Driver.C02Search
/-! alias module: the sub-command `c02s` lives in `Driver/C02Search.lean` (so that the per-driver source scan finds it) -/
