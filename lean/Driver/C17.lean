import SSVerif.Model.S3file
import SSVerif.Model.BinMdef
import SSVerif.Model.Assembly
import Driver.Util
/-! driver sub-command `c17`: runs the byte reader / read plans of `Model/S3file` on byte strings
(hex or a file with an edit list) — same line protocol as `harness/h_c17.c s3`. -/
namespace Driver.C17
open SSVerif.S3file Driver

structure Src where
  ba : ByteArray
  size : Nat
  ov : List (Nat × UInt8) := []

def Src.file (s : Src) : File :=
  let ba := s.ba; let ov := s.ov; let size := s.size
  { size, byte := fun i =>
      if i < size then
        match ov.find? (·.1 = i) with
        | some (_, b) => b
        | none => ba.get! i
      else 0xAA }

def parseHexNat (s : String) : Option Nat :=
  s.toList.foldl (fun acc c => match acc, hexVal c with
    | some a, some v => some (a * 16 + v)
    | _, _ => none) (some 0)

/-- `-` | `x` (missing: not used here) | comma list of `t<len>`, `w<off>:<hex32>`, `b<off>:<hex8>` -/
def applyEdits (s : Src) (edits : String) : Option Src :=
  if edits = "-" then some s else
  (edits.splitOn ",").foldl (fun acc e =>
    match acc with
    | none => none
    | some s =>
      match e.toList with
      | 't' :: r => match (String.ofList r).toNat? with
        | some n => some { s with size := min s.size n }
        | none => none
      | 'w' :: r =>
        match (String.ofList r).splitOn ":" with
        | [o, v] => match o.toNat?, parseHexNat v with
          | some o, some v =>
            if o + 4 ≤ s.size then
              some { s with ov := [(o, UInt8.ofNat (v % 256)), (o + 1, UInt8.ofNat (v / 256 % 256)),
                                   (o + 2, UInt8.ofNat (v / 65536 % 256)), (o + 3, UInt8.ofNat (v / 16777216 % 256))] ++ s.ov }
            else some s
          | _, _ => none
        | _ => none
      | 'b' :: r =>
        match (String.ofList r).splitOn ":" with
        | [o, v] => match o.toNat?, parseHexNat v with
          | some o, some v => if o < s.size then some { s with ov := (o, UInt8.ofNat v) :: s.ov } else some s
          | _, _ => none
        | _ => none
      | _ => none) (some s)

abbrev Cache := List (String × ByteArray)

def loadSrc (cache : IO.Ref Cache) (spec edits : String) : IO (Option Src) := do
  let ba? ← if spec.startsWith "@" then do
      let path := (spec.drop 1).toString
      match (← cache.get).find? (·.1 = path) with
      | some (_, ba) => pure (some ba)
      | none =>
        let ba ← IO.FS.readBinFile path
        cache.modify fun c => (path, ba) :: c.take 7
        pure (some ba)
    else pure ((parseHex spec).map fun l => ByteArray.mk l.toArray)
  match ba? with
  | none => pure none
  | some ba => pure (applyEdits { ba, size := ba.size } edits)

def showRes {α : Type} (r : Res α) (okStr : α → String) : String :=
  match r with
  | .ok a => okStr a
  | .reject _ => "rej"
  | .oob i => s!"OOB {i}"
  | .idx i n => s!"IDX {i} {n}"

def site {α : Type} : Res α → String
  | .reject s => s
  | _ => "-"

def b2s (b : Bool) : String := if b then "1" else "0"

/-- the `rd` script interpreter: stops at the first failing op -/
def runScript (f : File) (ops : List String) : String × String := Id.run do
  let mut s : S := S.init f
  let mut out : List String := []
  for op in ops do
    let cs := op.toList
    let r : Res (S × String) :=
      match cs with
      | ['H'] => do
        let s' ← parseHeader s
        let hs := sepBy ";" (s'.headers.map fun h => toHex h.name ++ "=" ++ toHex h.value)
        pure (s', s!"H:{s'.ptr}:{b2s s'.swap}:{b2s s'.chk}:{s'.headers.length}:{hs}")
      | ['V'] => do
        let s' ← verifyChksum s
        pure (s', s!"V:{s'.ptr}")
      | 'g' :: r =>
        match (String.ofList r).splitOn "x" with
        | [k, n] => match k.toNat?, n.toNat? with
          | some k, some n => do
            let (s', c) ← get s k n
            pure (s', s!"g:{c}:{s'.ptr}:{s'.sum.toNat}")
          | _, _ => .reject "bad-op"
        | _ => .reject "bad-op"
      | '1' :: 'd' :: r => match (String.ofList r).toNat? with
        | some k => do
          let (s', a) ← get1d s k
          pure (s', s!"1:{a.n}:{s'.ptr}:{s'.sum.toNat}")
        | none => .reject "bad-op"
      | '2' :: 'd' :: r => match (String.ofList r).toNat? with
        | some k => do
          let (s', d1, d2, a) ← get2d s k
          pure (s', s!"2:{d1}:{d2}:{a.n}:{s'.ptr}:{s'.sum.toNat}")
        | none => .reject "bad-op"
      | '3' :: 'd' :: r => match (String.ofList r).toNat? with
        | some k => do
          let (s', d1, d2, d3, a) ← get3d s k
          pure (s', s!"3:{d1}:{d2}:{d3}:{a.n}:{s'.ptr}:{s'.sum.toNat}")
        | none => .reject "bad-op"
      | _ => .reject "bad-op"
    match r with
    | .ok (s', str) => s := s'; out := str :: out
    | other => return (sepBy " " ((showRes other fun _ => "") :: out).reverse, site other)
  return (sepBy " " out.reverse, "-")

def natList (l : List Nat) : String := sepBy "," (l.map toString)

def runCase (cache : IO.Ref Cache) (ws : List String) : IO String := do
  match ws with
  | [id, "rd", src, ed, script] =>
    match ← loadSrc cache src ed with
    | some s =>
      let (o, st) := runScript s.file (script.splitOn ",")
      pure s!"{id} {o} | site={st}"
    | none => pure s!"{id} bad-src"
  | [id, "tmat", src, ed] =>
    match ← loadSrc cache src ed with
    | some s =>
      let r := tmatPlan s.file
      pure s!"{id} {showRes r fun o => s!"ok {o.nTmat} {o.nState}"} | site={site r}"
    | none => pure s!"{id} bad-src"
  | [id, "gau", srcm, edm, srcv, edv] =>
    match ← loadSrc cache srcm edm, ← loadSrc cache srcv edv with
    | some m, some v =>
      let r := gaudenPlan m.file v.file
      pure s!"{id} {showRes r fun o => s!"ok {o.nMgau} {o.nFeat} {o.nDensity} {natList o.veclen}"} | site={site r}"
    | _, _ => pure s!"{id} bad-src"
  | [id, "lda", src, ed, sl] =>
    match ← loadSrc cache src ed, sl.toNat? with
    | some s, some sl =>
      let r := ldaPlan s.file sl
      pure s!"{id} {showRes r fun o => s!"ok {o.nLda} {o.rows} {o.cols}"} | site={site r}"
    | _, _ => pure s!"{id} bad-src"
  | [id, "sd", src, ed, gf, gd, ms] =>
    match ← loadSrc cache src ed, gf.toNat?, gd.toNat?, ms.toNat? with
    | some s, some gf, some gd, some ms =>
      let r := sendumpPlan s.file gf gd ms
      pure s!"{id} {showRes r fun o => s!"ok {o.clust} {o.dataOff} {o.endPtr}"} | site={site r}"
    | _, _, _, _ => pure s!"{id} bad-src"
  | [id, "mixw", src, ed, gf, gd] =>
    match ← loadSrc cache src ed, gf.toNat?, gd.toNat? with
    | some s, some gf, some gd =>
      let r := mixwPlan s.file gf gd
      pure s!"{id} {showRes r fun o => s!"ok {o.nSen}"} | site={site r}"
    | _, _, _ => pure s!"{id} bad-src"
  | [id, "mdef", src, ed] =>
    match ← loadSrc cache src ed with
    | some s =>
      let r := mdefPlan s.file
      pure s!"{id} {showRes r fun o =>
        let h := o.hdr; let l := o.lay
        s!"ok {b2s h.swap} {h.nCiphone} {h.nPhone} {h.nEmit} {h.nCiSen} {h.nSen} {h.nTmat} {h.nSseq} {h.nCdTree} {o.sil} {l.treeOff - h.dataOff} {l.phoneOff - h.dataOff} {l.sseqOff - h.dataOff} {mapHash o.cd2cisen} {mapHash o.sen2cimap}"} | site={site r}"
    | none => pure s!"{id} bad-src"
  | [id, "sen", src, ed] =>
    match ← loadSrc cache src ed with
    | some s =>
      let r := senMixwPlan s.file
      pure s!"{id} {showRes r fun o => s!"ok {o.nSen} {o.nFeat} {o.nCw}"} | site={site r}"
    | none => pure s!"{id} bad-src"
  | [id, "am", ct, streams, ms, me, ts, te, mns, mne, vs, ve, kind, xs, xe] =>
    let sl := (streams.splitOn ",").filterMap String.toNat?
    match ← loadSrc cache ms me, ← loadSrc cache ts te, ← loadSrc cache mns mne, ← loadSrc cache vs ve, ← loadSrc cache xs xe with
    | some m, some t, some mn, some v, some x =>
      let src := if kind = "sd" then MixSrc.sendump x.file else MixSrc.mixw x.file
      let r := acmodLoadPlan m.file t.file mn.file v.file src sl (ct = "1")
      pure s!"{id} {showRes r fun o => match o with | .ptm => "ok ptm" | .s2 => "ok s2_semi" | .ms => "ok ms"} | site={site r}"
    | _, _, _, _, _ => pure s!"{id} bad-src"
  | id :: _ => pure s!"{id} bad-op"
  | [] => pure "bad-op"

partial def loop (cache : IO.Ref Cache) (h out : IO.FS.Stream) : IO Unit := do
  let line ← h.getLine
  if line.isEmpty then return ()
  let o ← runCase cache (words line)
  out.putStrLn o
  loop cache h out

def main : IO Unit := do
  let cache ← IO.mkRef ([] : Cache)
  let stdin ← IO.getStdin
  let stdout ← IO.getStdout
  loop cache stdin stdout
  stdout.flush

end Driver.C17
