import SSVerif.Model.S3file
import SSVerif.Model.BinMdef
import SSVerif.Model.Assembly
import SSVerif.Model.S3fileLedger
import SSVerif.Model.TmatTopo
import SSVerif.Model.ReadFlags
import Driver.Util
/-! driver sub-command `c17`: runs the byte reader / read plans of `Model/S3file` on byte strings
(hex or a file with an edit list) — same line protocol as `harness/h_c17.c s3`. -/
namespace Driver.C17
open SSVerif.S3file Driver

structure Src where
  ba : ByteArray
  size : Nat
  ov : List (Nat × UInt8) := []

def Src.file (s : Src) : File :=
  let ba := s.ba; let ov := s.ov; let size := s.size
  { size, byte := fun i =>
      if i < size then
        match ov.find? (·.1 = i) with
        | some (_, b) => b
        | none => ba.get! i
      else 0xAA }

def parseHexNat (s : String) : Option Nat :=
  s.toList.foldl (fun acc c => match acc, hexVal c with
    | some a, some v => some (a * 16 + v)
    | _, _ => none) (some 0)

/-- `-` | `x` (missing: not used here) | comma list of `t<len>`, `w<off>:<hex32>`, `b<off>:<hex8>` -/
def applyEdits (s : Src) (edits : String) : Option Src :=
  if edits = "-" then some s else
  (edits.splitOn ",").foldl (fun acc e =>
    match acc with
    | none => none
    | some s =>
      match e.toList with
      | 't' :: r => match (String.ofList r).toNat? with
        | some n => some { s with size := min s.size n }
        | none => none
      | 'w' :: r =>
        match (String.ofList r).splitOn ":" with
        | [o, v] => match o.toNat?, parseHexNat v with
          | some o, some v =>
            if o + 4 ≤ s.size then
              some { s with ov := [(o, UInt8.ofNat (v % 256)), (o + 1, UInt8.ofNat (v / 256 % 256)),
                                   (o + 2, UInt8.ofNat (v / 65536 % 256)), (o + 3, UInt8.ofNat (v / 16777216 % 256))] ++ s.ov }
            else some s
          | _, _ => none
        | _ => none
      | 'b' :: r =>
        match (String.ofList r).splitOn ":" with
        | [o, v] => match o.toNat?, parseHexNat v with
          | some o, some v => if o < s.size then some { s with ov := (o, UInt8.ofNat v) :: s.ov } else some s
          | _, _ => none
        | _ => none
      | _ => none) (some s)

abbrev Cache := List (String × ByteArray)

def loadSrc (cache : IO.Ref Cache) (spec edits : String) : IO (Option Src) := do
  let ba? ← if spec.startsWith "@" then do
      let path := (spec.drop 1).toString
      match (← cache.get).find? (·.1 = path) with
      | some (_, ba) => pure (some ba)
      | none =>
        let ba ← IO.FS.readBinFile path
        cache.modify fun c => (path, ba) :: c.take 7
        pure (some ba)
    else pure ((parseHex spec).map fun l => ByteArray.mk l.toArray)
  match ba? with
  | none => pure none
  | some ba => pure (applyEdits { ba, size := ba.size } edits)

def showRes {α : Type} (r : Res α) (okStr : α → String) : String :=
  match r with
  | .ok a => okStr a
  | .reject _ => "rej"
  | .oob i => s!"OOB {i}"
  | .idx i n => s!"IDX {i} {n}"

def site {α : Type} : Res α → String
  | .reject s => s
  | _ => "-"

/-! ### ledger stage reached by a case (for the allocation-trace tie) -/
open SSVerif.S3file.Ledger in
def showLedger (stage : String) (evs : List Ev) (name : Nat → String) : String :=
  let es := evs.map fun e => match e with
    | .alloc i => s!"a{i}"
    | .free i => s!"f{i}"
  let ids := (evs.filterMap fun e => match e with
    | .alloc i => some i
    | _ => none).eraseDups
  s!" ledger={stage}|{sepBy "," es}|{sepBy ";" (ids.map fun i => s!"{i}={name i}")}"

def isChk (s : String) : Bool := s = "get(chksum) failed" || s = "Checksum error"

open SSVerif.S3file.Ledger in
def arrStage {α : Type} (r : Res α) : ArrStage :=
  match r with
  | .ok _ => .ok
  | .reject s => if s = "get(arraydata) failed" then .data
                 else if s = "array size does not match dimensions" then .mismatch else .dims
  | _ => .dims

open SSVerif.S3file.Ledger in
def tmatStage (r : Res TmatOut) : TmatStage :=
  match r with
  | .ok _ => .ok
  | .reject s => if s = "Failed to read transition matrix" then .row else if isChk s then .chksum
                 else if s = "Tmat not upper triangular" || s = "Topology not Left-to-Right or Bakis" then .topology
                 else .header
  | _ => .header

open SSVerif.S3file.Ledger in
def paramStage (r : Res GauOut) : ParamStage :=
  match r with
  | .ok _ => .ok
  | .reject s =>
    if isChk s then .chksum else if s = "Failed to read density data" then .data
    else if s = "read (feature-lengths) failed" || s = "Bad feature length" || s = "Failed to read number of parameters"
      || s = "Number of parameters doesn't match dimensions" || s = "File truncated" then .veclen
    else .header
  | _ => .header

open SSVerif.S3file.Ledger in
def gauStage (means vars : File) : GauStage :=
  match gaudenParamPlan means with
  | .ok _ =>
    match gaudenParamPlan vars with
    | .ok _ => match gaudenPlan means vars with
      | .ok _ => .ok
      | _ => .mismatch
    | r => .vars (paramStage r)
  | r => .means (paramStage r)

open SSVerif.S3file.Ledger in
def ldaStage (r : Res LdaOut) : LdaStage :=
  match r with
  | .ok _ => .ok
  | .reject s =>
    if isChk s then .chksum
    else if s = "LDA matrix dimension doesn't match feature stream size" then .dims
    else if s = "get(arraydata) failed" then .array .data
    else if s = "array size does not match dimensions" then .array .mismatch
    else if s = "get(dimension1) failed" || s = "get(dimension2) failed" || s = "get(dimension3) failed"
      || s = "get(arraysize) failed" || s = "Bad arraysize" then .array .dims
    else .header
  | _ => .header

open SSVerif.S3file.Ledger in
def mdefStage (r : Res MdefOut) : MdefStage :=
  match r with
  | .ok _ => .ok
  | .reject s =>
    if s = "Phone refers to a nonexistent sseq, tmat or CI phone" || s = "senone >= n_sen" then .maps
    else if s = "sseq size does not match" || s = "sseq_len truncated!" || s = "sseq size does not match the sequence lengths" then .seqs
    else if s = "ciname truncated!" || s = "cd_tree truncated!" || s = "phone truncated!" || s = "sseq_size truncated!"
      || s = "sseq truncated!" then .tables
    else if s = "Inconsistent counts in header" || s.startsWith "Failed to read &m->" then .counts
    else .pre
  | _ => .pre

open SSVerif.S3file.Ledger in
def ptmStage (ctx : AcCtx) (means vars : File) (src : MixSrc) : PtmStage :=
  match gaudenPlan means vars with
  | .ok g =>
    if g.nMgau > 256 || g.nMgau ≠ ctx.nCiphone then .checks else
    match checkStreams ctx g with
    | .ok _ =>
      match src with
      | .sendump f => match sendumpPlan f g.nFeat g.nDensity ctx.nSen with
        | .ok _ => .okSd
        | .reject s => if s = "Mixture weights truncated" then .sdRows else .sdHead
        | _ => .sdHead
      | .mixw f => match mixwPlan f g.nFeat g.nDensity with
        | .ok m => if m.nSen ≠ ctx.nSen then .nsen else .okMx
        | _ => .mxHead
    | _ => .checks
  | _ => .gauden

def b2s (b : Bool) : String := if b then "1" else "0"

/-- the `rd` script interpreter: stops at the first failing op -/
def runScript (f : File) (ops : List String) : String × String := Id.run do
  let mut s : S := S.init f
  let mut out : List String := []
  for op in ops do
    let cs := op.toList
    let r : Res (S × String) :=
      match cs with
      | ['H'] => do
        let s' ← parseHeader s
        let hs := sepBy ";" (s'.headers.map fun h => toHex h.name ++ "=" ++ toHex h.value)
        pure (s', s!"H:{s'.ptr}:{b2s s'.swap}:{b2s s'.chk}:{s'.headers.length}:{hs}")
      | ['V'] => do
        let s' ← verifyChksum s
        pure (s', s!"V:{s'.ptr}")
      | 'g' :: r =>
        match (String.ofList r).splitOn "x" with
        | [k, n] => match k.toNat?, n.toNat? with
          | some k, some n => do
            let (s', c) ← get s k n
            pure (s', s!"g:{c}:{s'.ptr}:{s'.sum.toNat}")
          | _, _ => .reject "bad-op"
        | _ => .reject "bad-op"
      | '1' :: 'd' :: r => match (String.ofList r).toNat? with
        | some k => do
          let (s', a) ← get1d s k
          pure (s', s!"1:{a.n}:{s'.ptr}:{s'.sum.toNat}")
        | none => .reject "bad-op"
      | '2' :: 'd' :: r => match (String.ofList r).toNat? with
        | some k => do
          let (s', d1, d2, a) ← get2d s k
          pure (s', s!"2:{d1}:{d2}:{a.n}:{s'.ptr}:{s'.sum.toNat}")
        | none => .reject "bad-op"
      | '3' :: 'd' :: r => match (String.ofList r).toNat? with
        | some k => do
          let (s', d1, d2, d3, a) ← get3d s k
          pure (s', s!"3:{d1}:{d2}:{d3}:{a.n}:{s'.ptr}:{s'.sum.toNat}")
        | none => .reject "bad-op"
      | _ => .reject "bad-op"
    match r with
    | .ok (s', str) => s := s'; out := str :: out
    | other => return (sepBy " " ((showRes other fun _ => "") :: out).reverse, site other)
  return (sepBy " " out.reverse, "-")

/-- scripts `H,<n>d<k>[,V]`: the ledger stage of the one array read (nothing when the header is refused) -/
def arrLedger (f : File) (ops : List String) : String :=
  match ops with
  | "H" :: op :: rest =>
    if rest ≠ [] ∧ rest ≠ ["V"] then "" else
    match parseHeader (S.init f), op.toList with
    | .ok s, [d, 'd', k] =>
      let k := k.toNat - 48
      if d = '1' then let r := get1d s k; showLedger (reprStr (arrStage r)) (Ledger.get1d false (arrStage r)) Ledger.arrName
      else if d = '2' then let r := get2d s k; showLedger (reprStr (arrStage r)) (Ledger.get2d false (arrStage r)) Ledger.arrName
      else if d = '3' then let r := get3d s k; showLedger (reprStr (arrStage r)) (Ledger.get3d false (arrStage r)) Ledger.arrName
      else ""
    | _, _ => ""
  | _ => ""

def natList (l : List Nat) : String := sepBy "," (l.map toString)

def runCase (cache : IO.Ref Cache) (ws : List String) : IO String := do
  match ws with
  | [id, "rd", src, ed, script] =>
    match ← loadSrc cache src ed with
    | some s =>
      let (o, st) := runScript s.file (script.splitOn ",")
      pure (s!"{id} {o} | site={st}" ++ arrLedger s.file (script.splitOn ","))
    | none => pure s!"{id} bad-src"
  | [id, "tmat", src, ed] =>
    match ← loadSrc cache src ed with
    | some s =>
      let r := tmatPlanTopo s.file
      pure (s!"{id} {showRes r fun o => s!"ok {o.nTmat} {o.nState}"} | site={site r}"
        ++ showLedger (reprStr (tmatStage r)) (Ledger.tmat false (tmatStage r)) Ledger.tmatName)
    | none => pure s!"{id} bad-src"
  | [id, "gau", srcm, edm, srcv, edv] =>
    match ← loadSrc cache srcm edm, ← loadSrc cache srcv edv with
    | some m, some v =>
      let r := gaudenPlan m.file v.file
      let st := gauStage m.file v.file
      pure (s!"{id} {showRes r fun o => s!"ok {o.nMgau} {o.nFeat} {o.nDensity} {natList o.veclen}"} | site={site r}"
        ++ showLedger ((reprStr st).replace " " "_") (Ledger.gauden st) Ledger.gauName)
    | _, _ => pure s!"{id} bad-src"
  | [id, "lda", src, ed, sl] =>
    match ← loadSrc cache src ed, sl.toNat? with
    | some s, some sl =>
      let r := ldaPlan s.file sl
      pure (s!"{id} {showRes r fun o => s!"ok {o.nLda} {o.rows} {o.cols}"} | site={site r}"
        ++ showLedger ((reprStr (ldaStage r)).replace " " "_") (Ledger.lda false false (ldaStage r)).1 Ledger.ldaName)
    | _, _ => pure s!"{id} bad-src"
  -- a second `feat_read_lda_s3file` on a front end whose `feat->lda` was set by a first, successful one
  | [id, "lda2", srcOld, edOld, src, ed, sl] =>
    match ← loadSrc cache srcOld edOld, ← loadSrc cache src ed, sl.toNat? with
    | some so, some s, some sl =>
      match ldaPlan so.file sl with
      | .ok _ =>
        let r := ldaPlan s.file sl
        pure (s!"{id} {showRes r fun o => s!"ok {o.nLda} {o.rows} {o.cols}"} | site={site r}"
          ++ showLedger ((reprStr (ldaStage r)).replace " " "_") (Ledger.lda false true (ldaStage r)).1 Ledger.ldaName)
      | _ => pure s!"{id} bad-old"
    | _, _, _ => pure s!"{id} bad-src"
  | [id, "sd", src, ed, gf, gd, ms] =>
    match ← loadSrc cache src ed, gf.toNat?, gd.toNat?, ms.toNat? with
    | some s, some gf, some gd, some ms =>
      let r := sendumpPlan s.file gf gd ms
      -- last word: Σ (k+1) * offset of row pointer k (k = n * n_density + i), modulo 2^32 — every row pointer is tied
      let rowSum := fun (o : SdOut) => ((List.range (gf * gd)).foldl
        (fun acc k => (acc + (k + 1) * o.rowOff (k / gd) (k % gd)) % 4294967296) 0)
      pure s!"{id} {showRes r fun o => s!"ok {o.clust} {o.dataOff} {o.endPtr} {rowSum o}"} | site={site r}"
    | _, _, _, _ => pure s!"{id} bad-src"
  | [id, "mixw", src, ed, gf, gd] =>
    match ← loadSrc cache src ed, gf.toNat?, gd.toNat? with
    | some s, some gf, some gd =>
      let r := mixwPlan s.file gf gd
      pure s!"{id} {showRes r fun o => s!"ok {o.nSen}"} | site={site r}"
    | _, _, _ => pure s!"{id} bad-src"
  | [id, "mdef", src, ed] =>
    match ← loadSrc cache src ed with
    | some s =>
      let r := mdefPlan s.file
      pure (s!"{id} {showRes r fun o =>
        let h := o.hdr; let l := o.lay
        s!"ok {b2s h.swap} {h.nCiphone} {h.nPhone} {h.nEmit} {h.nCiSen} {h.nSen} {h.nTmat} {h.nSseq} {h.nCdTree} {o.sil} {l.treeOff - h.dataOff} {l.phoneOff - h.dataOff} {l.sseqOff - h.dataOff} {mapHash o.cd2cisen} {mapHash o.sen2cimap}"} | site={site r}"
        ++ (let sw := match mdefHeader s.file with
              | .ok h => h.swap
              | _ => false
            showLedger (reprStr (mdefStage r)) (Ledger.mdef sw (mdefStage r)) Ledger.mdefName))
    | none => pure s!"{id} bad-src"
  | [id, "mdefc", src, ed, ci] =>
    -- `bin_mdef_read_s3file(s, cionly)` (Model/ReadFlags.lean): the line of `mdef`, cd_tree offset -1 when NULL
    match ← loadSrc cache src ed with
    | some s =>
      let r := mdefPlanCi s.file (ci = "1")
      let rp := mdefPlan s.file
      pure (s!"{id} {showRes r fun oc =>
        let o := oc.out; let h := o.hdr; let l := o.lay
        let tree : Int := match oc.cdTree with | some t => ((t - h.dataOff : Nat) : Int) | none => -1
        s!"ok {b2s h.swap} {h.nCiphone} {h.nPhone} {h.nEmit} {h.nCiSen} {h.nSen} {h.nTmat} {h.nSseq} {h.nCdTree} {o.sil} {tree} {l.phoneOff - h.dataOff} {l.sseqOff - h.dataOff} {mapHash o.cd2cisen} {mapHash o.sen2cimap}"} | site={site r}"
        ++ (let sw := match mdefHeader s.file with
              | .ok h => h.swap
              | _ => false
            showLedger (reprStr (mdefStage rp)) (Ledger.mdef sw (mdefStage rp)) Ledger.mdefName))
    | none => pure s!"{id} bad-src"
  | [id, "maplen", size, page] =>
    -- the length bookkeeping of mmio.c: what munmap is given for a file of `size` bytes, pages mapped / unmapped
    match size.toNat?, page.toNat? with
    | some sz, some pg =>
      let m := mmioLife sz pg
      pure s!"{id} {m.mapped} {m.unmapped} {pagesOf m.mapped pg} {pagesOf m.unmapped pg}"
    | _, _ => pure s!"{id} bad-src"
  | [id, "sen", src, ed] =>
    match ← loadSrc cache src ed with
    | some s =>
      let r := senMixwPlan s.file
      pure s!"{id} {showRes r fun o => s!"ok {o.nSen} {o.nFeat} {o.nCw}"} | site={site r}"
    | none => pure s!"{id} bad-src"
  | [id, "am", ct, streams, ms, me, ts, te, mns, mne, vs, ve, kind, xs, xe] =>
    let sl := (streams.splitOn ",").filterMap String.toNat?
    match ← loadSrc cache ms me, ← loadSrc cache ts te, ← loadSrc cache mns mne, ← loadSrc cache vs ve, ← loadSrc cache xs xe with
    | some m, some t, some mn, some v, some x =>
      let src := if kind = "sd" then MixSrc.sendump x.file else MixSrc.mixw x.file
      if ct = "2" then
        -- the PTM loader alone (behind an accepted model definition and transition matrices), with its ledger stage
        match mdefPlan m.file, tmatPlan t.file with
        | .ok mo, .ok _ =>
          let ctx : AcCtx := { nCiphone := mo.hdr.nCiphone, nSen := mo.hdr.nSen, sen2cimap := mo.sen2cimap, streams := sl }
          let r := ptmPlan ctx mn.file v.file src
          let st := ptmStage ctx mn.file v.file src
          pure (s!"{id} {showRes r fun _ => "ok ptm"} | site={site r}" ++ showLedger (reprStr st) (Ledger.ptm st) Ledger.ptmName)
        | _, _ => pure s!"{id} rej | site=mdef/tmat"
      else
      let r := acmodLoadPlan m.file t.file mn.file v.file src sl (ct = "1")
      pure s!"{id} {showRes r fun o => match o with | .ptm => "ok ptm" | .s2 => "ok s2_semi" | .ms => "ok ms"} | site={site r}"
    | _, _, _, _, _ => pure s!"{id} bad-src"
  | id :: _ => pure s!"{id} bad-op"
  | [] => pure "bad-op"

partial def loop (cache : IO.Ref Cache) (h out : IO.FS.Stream) : IO Unit := do
  let line ← h.getLine
  if line.isEmpty then return ()
  let o ← runCase cache (words line)
  out.putStrLn o
  loop cache h out

def main : IO Unit := do
  let cache ← IO.mkRef ([] : Cache)
  let stdin ← IO.getStdin
  let stdout ← IO.getStdout
  loop cache stdin stdout
  stdout.flush

end Driver.C17
