import SSVerif.Model.Lattice
import SSVerif.Model.LatticeRound
import SSVerif.Model.LogConfigs
import Driver.Util
/-! driver sub-command `c12r` (serves C12, `Props/C12Round.lean`): reads a dumped lattice with the scaled link
scores, the entry list of the end node and the alphas/betas of the C code; evaluates the Boolean checkers
`roundHypsB` (with the potentials of `potsOf`) and `budOKB` (with the budgets of `budsOf`), recomputes the
normaliser and the backward total from the C alphas/betas with the model's `logAdd` (`normInt`, `bwdInt`),
and runs the exact instance `(+, *, 0, 1)` over ℕ of the generic passes `alphaGen`/`betaGen` (forward total,
backward total). -/
namespace Driver.C12R
open SSVerif.Lattice Driver

structure St where
  nframes : Nat := 0
  start : Nat := 0
  final : Nat := 0
  nodes : Array Node := #[]
  links : Array Link := #[]
  scaled : Array Int := #[]
  endEntries : Array Nat := #[]
  al : Array Int := #[]
  be : Array Int := #[]
  bad : Bool := false

def optNat (z : Int) : Option Nat := if z < 0 then none else some z.toNat
def ints (ws : List String) : Option (List Int) := ws.mapM parseInt
def b01 (b : Bool) : String := if b then "1" else "0"

/-- largest lattice on which the function-valued exact passes are run -/
def maxExact : Nat := 1500

def report (s : St) : List String := Id.run do
  let L : Lat := { nframes := s.nframes, nodes := s.nodes.toList, links := s.links.toList, start := s.start, final := s.final }
  let nl := L.links.length
  if s.scaled.size ≠ nl ∨ s.al.size ≠ nl ∨ s.be.size ≠ nl ∨ nl = 0 then return ["bad-input", "end"]
  -- link index by (src, dst) is not needed: values are looked up by position
  let idx : Link → Nat := fun l => L.links.idxOf l
  let sc : Link → Int := fun l => s.scaled.getD (idx l) 0
  -- the checkers run on score functions of the node pair (one link per ordered pair, C11): precompute per link
  let lm := SSVerif.LogAdd.cfgDec.lm
  let P : IntParams := { ladd := SSVerif.LogAdd.logAdd lm, lz := lm.zero, sc := sc }
  let pots := potsOf L sc
  let (ea, eb, en, ew) := budsOf L
  let kb := eb.foldl max ew
  let hyps := roundHypsB L sc lm.zero 6932 2147483648 kb pots
  let bok := budOKB L (fun v => ea.getD v 0) (fun v => eb.getD v 0) en ew kb
  let ents := s.endEntries.toList.map fun i => L.links.getD i default
  let alC : Link → Int := fun l => s.al.getD (idx l) 0
  let beC : Link → Int := fun l => s.be.getD (idx l) 0
  let mut out : List String :=
    [s!"hyps {b01 hyps}", s!"bud ok={b01 bok} n={en} w={ew} kb={kb}",
     "ea " ++ sepBy " " (ea.toList.map toString), "eb " ++ sepBy " " (eb.toList.map toString),
     s!"norm {normInt P alC ents}", s!"bwd {bwdInt P L beC}", s!"remok {b01 (remOKB L)}"]
  if nl ≤ maxExact then
    let w : Link → Nat := fun l => (l.src + 2 * l.dst + l.ef) % 3 + 1
    let Q := natGen w
    -- association-list passes (`alphaGenT_eq`, `betaGenT_eq`: they compute `alphaGen`, `betaGen`)
    let fwd := normGen Q (lookG (alphaGenInit Q L) (alphaGenT Q L)) ents
    let bwd := bwdGen Q L (lookG (fun _ => Q.zero) (betaGenT Q L))
    out := out ++ [s!"exact fwd={fwd} bwd={bwd}"]
  else out := out ++ ["exact skipped"]
  return out ++ ["end"]

def step (s : St) (ws : List String) : St × List String :=
  match ws with
  | "begin" :: rest =>
    match ints rest with
    | some [nf, st, fi] => ({ nframes := nf.toNat, start := st.toNat, final := fi.toNat, bad := nf < 0 || st < 0 || fi < 0 }, [])
    | _ => ({ bad := true }, [])
  | "n" :: rest =>
    match ints rest with
    | some [w, sf, fef, lef, state] =>
      ({ s with nodes := s.nodes.push ⟨w.toNat, sf.toNat, fef.toNat, lef.toNat, optNat state⟩,
                bad := s.bad || w < 0 || sf < 0 || fef < 0 || lef < 0 }, [])
    | _ => ({ s with bad := true }, [])
  | "l" :: rest =>
    match ints rest with
    | some [a, b, ef, ascr] =>
      ({ s with links := s.links.push ⟨a.toNat, b.toNat, ef.toNat, ascr⟩, bad := s.bad || a < 0 || b < 0 || ef < 0 }, [])
    | _ => ({ s with bad := true }, [])
  | "c" :: rest =>
    match ints rest with
    | some xs => ({ s with scaled := xs.toArray }, [])
    | none => ({ s with bad := true }, [])
  | "e" :: rest =>
    match ints rest with
    | some xs => ({ s with endEntries := (xs.map Int.toNat).toArray }, [])
    | none => ({ s with bad := true }, [])
  | "al" :: rest =>
    match ints rest with
    | some xs => ({ s with al := xs.toArray }, [])
    | none => ({ s with bad := true }, [])
  | "be" :: rest =>
    match ints rest with
    | some xs => ({ s with be := xs.toArray }, [])
    | none => ({ s with bad := true }, [])
  | ["run"] => if s.bad then ({}, ["bad-input", "end"]) else ({}, report s)
  | _ => (s, [])

partial def loop (h : IO.FS.Stream) (out : IO.FS.Stream) (s : St) : IO Unit := do
  let line ← h.getLine
  if line.isEmpty then return ()
  let (s', o) := step s (words line)
  for l in o do out.putStrLn l
  loop h out s'

def main : IO Unit := do
  let stdin ← IO.getStdin
  let stdout ← IO.getStdout
  loop stdin stdout {}
  stdout.flush

end Driver.C12R
