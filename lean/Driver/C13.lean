import SSVerif.Model.Fsg
import Driver.Util
/-! driver sub-command `c13`: replays FSG construction / transformation / write / read ops on the
model (`SSVerif.Fsg`), and evaluates the verified oracles (`nfaEquiv`, max-plus best
log-probability) on grammars given explicitly on the line (these come from the C harness). -/
namespace Driver.C13
open SSVerif.Fsg Driver

structure St where
  g : Fsg
  /-- token ↦ result of the C expression `(int32)(logmath_log(lmath, (float32)atof(tok)) * lw)`,
  `none` when the C code refuses the probability; filled by `ptab` -/
  ptab : List (String × Option Int)
  text : List (List String)
  /-- `logmath_get_zero` of the harness's `logmath_t` (reported by the harness at `new`) -/
  zero : Int := -536870912

def hexStr (s : String) : String := toHex s.toUTF8.toList

def unhexStr (s : String) : Option String :=
  match parseHex s with
  | some bs => String.fromUTF8? (ByteArray.mk bs.toArray)
  | none => none

/-- model of `strtol(tok, &end, 10)` at token level: optional sign, at least one digit, trailing
garbage ignored -/
def strtolTok (s : String) : Option Int :=
  let cs := s.toList
  let (neg, ds) := match cs with
    | '-' :: r => (true, r)
    | '+' :: r => (false, r)
    | r => (false, r)
  let digs := ds.takeWhile Char.isDigit
  if digs.isEmpty then none else
  let n : Nat := digs.foldl (fun a c => 10 * a + (c.toNat - '0'.toNat)) 0
  some (if neg then -(n : Int) else n)

def codec (s : St) : Codec :=
  { showN := toString
    parseN := strtolTok
    printP := fun lp => s!"P{lp}"
    parseP := fun tok => match s.ptab.find? (·.1 == tok) with
      | some (_, r) => r
      | none => none
    zero := s.zero }

def sortStr (l : List String) : List String := (l.toArray.qsort (· < ·)).toList
def sortNat (l : List Nat) : List Nat := (l.toArray.qsort (· < ·)).toList

def showLink (l : Link) : String :=
  s!"{l.src}:{l.dst}:{l.logp}:" ++ (match l.wid with | none => "-1" | some w => toString w)

def showList (l : List String) : String := if l.isEmpty then "-" else sepBy "," l

def dump (g : Fsg) : String :=
  s!"fsg {g.nState} {g.start} {g.final} | arcs " ++ showList (sortStr (g.links.map showLink)) ++
  " | vocab " ++ showList (g.vocab.map hexStr) ++
  " | sil " ++ showList ((sortNat g.sil).map toString) ++
  " | alt " ++ showList ((sortNat g.alt).map toString)

def showLines (ls : List (List String)) : String :=
  showList (ls.map fun toks => "/".intercalate (toks.map hexStr))

def parseLines (s : String) : Option (List (List String)) :=
  if s = "-" then some [] else
  (s.splitOn ",").mapM fun line =>
    if line = "" then some [] else (line.splitOn "/").mapM unhexStr

/-- `a:c:lp:wid,…` with `wid = -1` for null -/
def parseLinks (s : String) : Option (List Link) :=
  if s = "-" then some [] else
  (s.splitOn ",").mapM fun t =>
    match t.splitOn ":" with
    | [a, c, lp, w] =>
      match parseNat a, parseNat c, parseInt lp, parseInt w with
      | some a, some c, some lp, some w => some ⟨a, c, lp, if w < 0 then none else some w.toNat⟩
      | _, _, _, _ => none
    | _ => none

def parseNats (s : String) : Option (List Nat) :=
  if s = "-" then some [] else (s.splitOn ",").mapM parseNat

def parsePairs (s : String) : Option (List (Nat × Nat)) :=
  if s = "-" then some [] else
  (s.splitOn ",").mapM fun t =>
    match t.splitOn ":" with
    | [a, b] => match parseNat a, parseNat b with
      | some a, some b => some (a, b)
      | _, _ => none
    | _ => none

def parseGraph (n s f links : String) : Option Fsg :=
  match parseNat n, parseNat s, parseNat f, parseLinks links with
  | some n, some s, some f, some ls => some { nState := n, start := s, final := f, links := ls }
  | _, _, _, _ => none

def projWith (fillers : List Nat) (bases : List (Nat × Nat)) (g : Fsg) : Fsg :=
  project (fun w => fillers.contains w)
    (fun w => match bases.find? (·.1 == w) with | some (_, b) => b | none => w) g

def showOptInt : Option Int → String
  | none => "none"
  | some v => toString v

/-- all sentences of length ≤ `len` over `sigma`, shortest first -/
def sentences (sigma : List Nat) : Nat → List (List Nat)
  | 0 => [[]]
  | n + 1 =>
    let prev := sentences sigma n
    prev ++ (prev.filter (·.length == n)).flatMap fun s => sigma.map fun a => s ++ [a]

def symsOf (g : Fsg) : List Nat := SSVerif.Nfa.dedup (g.links.filterMap (·.wid))

inductive BestCmp where
  | same
  | differ (w : List Nat) (a b : Option Int)
  | gaveUp (w : List Nat)

/-- depth-first comparison of the best log-probabilities of all sentences of length ≤ `len`.  The
vectors of common prefixes are shared: along each branch the calls are exactly those of
`dpVec g sentence` (`dpInit`, then `dpStep` per word), so the value compared at a node is
`bestLogProb? g sentence` (`bestLogProb_sound`).  Returns the first difference (or a give-up), the
number of sentences compared and how many of them are accepted. -/
def bestDiff (g1 g2 : Fsg) (sigma : List Nat) (len : Nat) : BestCmp × Nat × Nat :=
  let n1 := stateBound g1
  let n2 := stateBound g2
  let rec go (fuel : Nat) (pre : List Nat) (a b : Vec) (cnt acc : Nat) : BestCmp × Nat × Nat :=
    let x := a.get g1.final
    let y := b.get g2.final
    if x != y then (.differ pre.reverse x y, cnt + 1, acc) else
    let cnt := cnt + 1
    let acc := if x.isSome then acc + 1 else acc
    match fuel with
    | 0 => (.same, cnt, acc)
    | fuel + 1 =>
      sigma.foldl (fun (r : BestCmp × Nat × Nat) w =>
        match r with
        | (.same, c, k) =>
          match dpStep g1 n1 a w, dpStep g2 n2 b w with
          | some a', some b' => go fuel (w :: pre) a' b' c k
          | _, _ => (.gaveUp (w :: pre).reverse, c, k)
        | other => other)
        (.same, cnt, acc)
  match dpInit g1 n1, dpInit g2 n2 with
  | some v1, some v2 => go len [] v1 v2 0 0
  | _, _ => (.gaveUp [], 0, 0)

def step (s : St) (ws : List String) : St × String :=
  match ws with
  | ["new", n, st, fi, name, zero] =>
    match parseNat n, parseNat st, parseNat fi, (if name = "-" then some "" else unhexStr name), parseInt zero with
    | some n, some st, some fi, some name, some z => ({ s with g := Fsg.init name n st fi z, zero := z }, s!"ok {z}")
    | _, _, _, _, _ => (s, "bad-op")
  | ["word", w] =>
    match unhexStr w with
    | some w => let r := wordAdd s.g w; ({ s with g := r.1 }, s!"v {r.2}")
    | none => (s, "bad-op")
  | ["trans", a, c, lp, w] =>
    match parseNat a, parseNat c, parseInt lp, parseNat w with
    | some a, some c, some lp, some w => ({ s with g := transAdd s.g a c lp w }, "ok")
    | _, _, _, _ => (s, "bad-op")
  | ["null", a, c, lp] =>
    match parseNat a, parseNat c, parseInt lp with
    | some a, some c, some lp => let r := nullAdd s.g a c lp; ({ s with g := r.1 }, s!"v {r.2}")
    | _, _, _ => (s, "bad-op")
  | ["closure"] =>
    let r := closureRun s.g
    ({ s with g := r.1 }, s!"v {r.2.1.length} {if r.2.2 then 1 else 0}")
  | ["silence", w, state, lp] =>
    match unhexStr w, parseInt state, parseInt lp with
    | some w, some state, some lp =>
      let r := addSilence s.g w (if state < 0 then none else some state.toNat) lp
      ({ s with g := r.1 }, s!"v {r.2} {lp}")
    | _, _, _ => (s, "bad-op")
  | ["alt", b, a] =>
    match unhexStr b, unhexStr a with
    | some b, some a => let r := addAlt s.g b a; ({ s with g := r.1 }, s!"v {r.2}")
    | _, _ => (s, "bad-op")
  | ["dump"] => (s, dump s.g)
  | ["addsilences", lpSil, lpFill, fillers] =>
    match parseInt lpSil, parseInt lpFill, (if fillers = "-" then some [] else (fillers.splitOn ",").mapM unhexStr) with
    | some a, some b, some fl => ({ s with g := addSilences s.g fl a b }, s!"v {fl.length} {a} {b}")
    | _, _, _ => (s, "bad-op")
  | ["addaltpron", spec] =>
    -- spec: word=alt/alt;word=alt…  (hex tokens)
    let entries : Option (List (String × List String)) := if spec = "-" then some [] else
      (spec.splitOn ";").mapM fun e =>
        match e.splitOn "=" with
        | [k, v] => match unhexStr k, (v.splitOn "/").mapM unhexStr with
          | some k, some v => some (k, v)
          | _, _ => none
        | _ => none
    match entries with
    | some es =>
      let r := addAltpron s.g fun w => match es.find? (·.1 == w) with | some (_, a) => a | none => []
      ({ s with g := r.1 }, s!"v {r.2}")
    | none => (s, "bad-op")
  | ["ptab", tab] =>
    let entries := if tab = "-" then some [] else
      (tab.splitOn ",").mapM fun t =>
        match t.splitOn "=" with
        | [k, v] => match unhexStr k with
          | some k => if v = "err" then some (k, none) else (parseInt v).map fun i => (k, some i)
          | none => none
        | _ => none
    match entries with
    | some e => ({ s with ptab := e }, "ok")
    | none => (s, "bad-op")
  | ["write"] =>
    let t := write (codec s) s.g
    ({ s with text := t }, "text " ++ showLines t)
  | ["read", lines] =>
    match parseLines lines with
    | some ls =>
      match read (codec s) ls with
      | .ok g => ({ s with g := g }, "ok")
      | .error e => (s, "err " ++ e.str)
    | none => (s, "bad-op")
  -- oracles on explicit grammars -------------------------------------------------------------
  | ["nfaeq", fillers, bases, n1, s1, f1, l1, n2, s2, f2, l2] =>
    match parseNats fillers, parsePairs bases, parseGraph n1 s1 f1 l1, parseGraph n2 s2 f2 l2 with
    | some fl, some bs, some g1, some g2 =>
      match SSVerif.Nfa.nfaEquiv (projWith fl bs g1).toNfa (projWith fl bs g2).toNfa with
      | .ok none => (s, "equal")
      | .ok (some w) => (s, "differ " ++ showList (w.map toString))
      | .error e => (s, "error " ++ e.replace " " "_")
    | _, _, _, _ => (s, "bad-op")
  | ["besteq", len, fillers, bases, n1, s1, f1, l1, n2, s2, f2, l2] =>
    match parseNat len, parseNats fillers, parsePairs bases, parseGraph n1 s1 f1 l1, parseGraph n2 s2 f2 l2 with
    | some len, some fl, some bs, some g1, some g2 =>
      let p1 := projWith fl bs g1
      let p2 := projWith fl bs g2
      let sigma := SSVerif.Nfa.dedup (symsOf p1 ++ symsOf p2)
      match bestDiff p1 p2 sigma len with
      | (.same, cnt, acc) => (s, s!"same {cnt} {acc}")
      | (.differ w a b, _, _) => (s, "differ " ++ showList (w.map toString) ++ " " ++ showOptInt a ++ " " ++ showOptInt b)
      | (.gaveUp w, _, _) => (s, "error gave_up_at " ++ showList (w.map toString))
    | _, _, _, _, _ => (s, "bad-op")
  | ["best", n1, s1, f1, l1, sent] =>
    match parseGraph n1 s1 f1 l1, parseNats sent with
    | some g1, some w => (s, match bestLogProb? g1 w with
        | some r => "v " ++ showOptInt r
        | none => "error gave_up")
    | _, _ => (s, "bad-op")
  | _ => (s, "bad-op")

def main : IO Unit :=
  runLoop step { g := Fsg.init "" 0 0 0, ptab := [], text := [] }

end Driver.C13
