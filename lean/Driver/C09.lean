import SSVerif.Model.Protocol
import Driver.Util
/-! driver sub-command `c09`: replays a transcript of API calls (call + the data-dependent part of what
the implementation returned) on the protocol automaton; prints return class and state summary -/
namespace Driver.C09
open SSVerif.Protocol Driver

def pBool (s : String) : Option Bool := if s = "1" then some true else if s = "0" then some false else none

def pGram (s : String) : Option Gram :=
  match s with
  | "none" => some .none | "good" => some .good | "bad" => some .bad | _ => none

def parseCall (ws : List String) : Option Call :=
  match ws with
  | ["freenull"] => some .freeNull
  | ["init", j, g, f] => do some (.init (← pBool j) (← pGram g) (← pBool f))
  | ["reinit", "keep"] => some (.reinit none)
  | ["reinit", "new", j, g] => do some (.reinit (some ((← pBool j), (← pGram g))))
  | ["retain"] => some .retain
  | ["free"] => some .free
  | ["cfggram", j, g] => do some (.cfgGram (← pBool j) (← pGram g))
  | ["cfgother", k] => do some (.cfgOther (← pBool k))
  | ["start"] => some .start
  | ["proc", f, a] => do some (.proc (← pBool f) (← pBool a))
  | ["end", a] => do some (.endUtt (← pBool a))
  | ["hyp", e] => do some (.hyp (← pBool e))
  | ["prob"] => some .prob
  | ["nframes"] => some .nframes
  | ["times"] => some .times
  | ["getcmn"] => some .getCmn
  | ["setcmn"] => some .setCmn
  | ["seg", i, e] => do some (.seg (← parseNat i) (← pBool e))
  | ["segnext", i, l] => do some (.segNext (← parseNat i) (← pBool l))
  | ["segfree", i] => do some (.segFree (← parseNat i))
  | ["nbest", i, d, h] => do some (.nbest (← parseNat i) (← pBool d) (← pBool h))
  | ["hypnext", i, l] => do some (.hypNext (← parseNat i) (← pBool l))
  | ["hypfree", i] => do some (.hypFree (← parseNat i))
  | ["hypseg", d, s, e] => do some (.hypSeg (← parseNat d) (← parseNat s) (← pBool e))
  | ["lattice", e] => do some (.lattice (← pBool e))
  | ["latbest", e, b] => do some (.latBest (← pBool e) (← pBool b))
  | ["latretain", k, e] => do some (.latRetain (← parseNat k) (← pBool e))
  | ["latwalk", k] => do some (.latWalk (← parseNat k))
  | ["latfree", k] => do some (.latFree (← parseNat k))
  | ["align", u, r, a] => do some (.align (← pBool u) (← pBool r) (← pBool a))
  | ["alretain", k, u, r, a] => do some (.alRetain (← parseNat k) (← pBool u) (← pBool r) (← pBool a))
  | ["alfree", k] => do some (.alFree (← parseNat k))
  | ["aliter", i, "dec", u, r, a, e] => do some (.alIter (← parseNat i) .dec (← pBool u) (← pBool r) (← pBool a) (← pBool e))
  | ["aliter", i, k, u, r, a, e] => do some (.alIter (← parseNat i) (.user (← parseNat k)) (← pBool u) (← pBool r) (← pBool a) (← pBool e))
  | ["alinext", i, l] => do some (.aliNext (← parseNat i) (← pBool l))
  | ["alichild", d, s, e] => do some (.aliChild (← parseNat d) (← parseNat s) (← pBool e))
  | ["aligoto", i, g] => do some (.aliGoto (← parseNat i) (← pBool g))
  | ["alifree", i] => do some (.aliFree (← parseNat i))
  | ["json", l, u, r, a] => do some (.json (← parseNat l) (← pBool u) (← pBool r) (← pBool a))
  | ["lookup", f] => do some (.lookup (← pBool f))
  | ["addword", u, o] => do some (.addWord (← pBool u) (← pBool o))
  | ["setgrammar", g] => do some (.setGrammar (← pBool g))
  | _ => none

def showRet : Ret → String
  | .ok => "ok" | .err => "err" | .null => "null" | .ptr => "ptr" | .count => "count"
  | .rc n => s!"rc={n}" | .void => "void" | .oop => "oop"

def b01 (b : Bool) : String := if b then "1" else "0"

def countKind (p : IterKind → Bool) (l : List Iter) : Nat := (l.filter fun it => p it.kind).length

def showState (s : ApiState) : String :=
  let its := s!" it={countKind isSeg s.iters},{countKind isHyp s.iters},{countKind isAli s.iters} lr={s.lats.length} ar={s.alns.length}"
  if s.refs = 0 then "D=0" ++ its
  else
    let u := match s.utt with | .idle => "i" | .inUtt => "s" | .ended => "e"
    s!"D={s.refs} u={u} s={b01 (s.search != .none)} a={b01 s.align} j={b01 s.json} g={b01 s.dag}" ++ its

/-- classification printed with every call: `ooo` = listed out-of-order, `oop` = out-of-protocol -/
def classify (s : ApiState) (c : Call) (r : Ret) : String :=
  if r = .oop then "oop"
  else
    let ooo : Bool := match c with
      | .proc _ _ => s.utt != .inUtt
      | .start => s.utt == .inUtt || s.search == .none
      | .endUtt _ => s.utt != .inUtt || s.search == .none
      | .hyp _ | .prob | .seg _ _ | .lattice _ | .latBest _ _ | .latRetain _ _ | .nbest _ _ _ => s.search == .none
      | _ => false
    if ooo then "ooo" else "in"

def stepLine (s : ApiState) (ws : List String) : ApiState × String :=
  match ws with
  | ["reset"] => (init0, "reset")
  | _ =>
    match parseCall ws with
    | none => (s, "bad-op")
    | some c =>
      let r := step s c
      let fresh := match s.search with | .fresh => "f" | .used => "u" | .none => "n"
      (r.1, s!"{showRet r.2} | {showState r.1} | {classify s c r.2} {fresh}")

def main : IO Unit := runLoop stepLine init0

end Driver.C09
