import SSVerif.Model.ProtocolSys
import Driver.Util
/-! driver sub-command `c09`: replays a transcript of API calls (call + the data-dependent part of what
the implementation returned) on the protocol automaton; prints return class and state summary -/
namespace Driver.C09
open SSVerif.Protocol Driver

def pBool (s : String) : Option Bool := if s = "1" then some true else if s = "0" then some false else none

def pGram (s : String) : Option Gram :=
  match s with
  | "none" => some .none | "good" => some .good | "bad" => some .bad | _ => none

def pSrc (s : String) : Option LatSrc :=
  if s = "dec" then some .dec else (parseNat s).map .user

def pInst (s : String) : Option Inst := if s = "a" then some .a else if s = "b" then some .b else none

def pKind (s : String) : Option SubKind :=
  match s with | "lmath" => some .lmath | "fe" => some .fe | "feat" => some .feat | _ => none

def pKeyType (s : String) : Option KeyType :=
  match s with
  | "unknown" => some .unknown | "int" => some .int | "float" => some .float | "bool" => some .bool
  | "str" => some .str | _ => none

def pStrVal (s : String) : Option StrVal :=
  match s with
  | "null" => some .null | "empty" => some .empty | "num" => some .num | "numbool" => some .numBool
  | "boolword" => some .boolWord | "junk" => some .junk | _ => none

def pOp (ws : List String) : Option CfgOp :=
  match ws with
  | ["setstr", v] => (pStrVal v).map .setStr
  | ["setint"] => some .setInt | ["setfloat"] => some .setFloat | ["setbool"] => some .setBool
  | ["unset"] => some .unset | ["setnull"] => some .setNull | ["same"] => some .same | ["get"] => some .get
  | ["typeof"] => some .typeof | ["json"] => some .json
  | ["parse", e] => (pBool e).map .parse
  | _ => none

def pTarget (a b : String) : Option CfgTarget :=
  if a = "dec" then (pInst b).map .dec else if a = "held" then (parseNat b).map .held else none

def parseCall (ws : List String) : Option Call :=
  match ws with
  | ["freenull"] => some .freeNull
  | ["reinitfeat"] => some .reinitFeat
  | ["touch"] => some .touch
  | ["logfile", "null"] => some (.logfile .null)
  | ["logfile", "file"] => some (.logfile .file)
  | ["logfile", "bad"] => some (.logfile .bad)
  | ["retain"] => some .retain
  | ["free"] => some .free
  | ["start"] => some .start
  | ["proc", f, a] => do some (.proc (← pBool f) (← pBool a))
  | ["end", a] => do some (.endUtt (← pBool a))
  | ["hyp", e] => do some (.hyp (← pBool e))
  | ["prob"] => some .prob
  | ["nframes"] => some .nframes
  | ["times"] => some .times
  | ["getcmn"] => some .getCmn
  | ["setcmn"] => some .setCmn
  | ["seg", i, e] => do some (.seg (← parseNat i) (← pBool e))
  | ["segnext", i, l] => do some (.segNext (← parseNat i) (← pBool l))
  | ["segfree", i] => do some (.segFree (← parseNat i))
  | ["nbest", i, d, h] => do some (.nbest (← parseNat i) (← pBool d) (← pBool h))
  | ["hypnext", i, l] => do some (.hypNext (← parseNat i) (← pBool l))
  | ["hypfree", i] => do some (.hypFree (← parseNat i))
  | ["hypseg", d, s, e] => do some (.hypSeg (← parseNat d) (← parseNat s) (← pBool e))
  | ["lattice", e] => do some (.lattice (← pBool e))
  | ["latbest", src, e, b] => do some (.latBest (← pSrc src) (← pBool e) (← pBool b))
  | ["latprune", src, e, b] => do some (.latPrune (← pSrc src) (← pBool e) (← pBool b))
  | ["lattrav", src, e] => do some (.latTrav (← pSrc src) (← pBool e))
  | ["lnode", i, src, e, ei] => do some (.lnode (← parseNat i) (← pSrc src) (← pBool e) (← pBool ei))
  | ["lnodenext", i, l] => do some (.lnodeNext (← parseNat i) (← pBool l))
  | ["lnodefree", i] => do some (.lnodeFree (← parseNat i))
  | ["llink", d, s, e] => do some (.llink (← parseNat d) (← parseNat s) (← pBool e))
  | ["llinknext", i, l] => do some (.llinkNext (← parseNat i) (← pBool l))
  | ["llinkfree", i] => do some (.llinkFree (← parseNat i))
  | ["latretain", k, e] => do some (.latRetain (← parseNat k) (← pBool e))
  | ["latwalk", k] => do some (.latWalk (← parseNat k))
  | ["latfree", k] => do some (.latFree (← parseNat k))
  | ["align", u, r, a] => do some (.align (← pBool u) (← pBool r) (← pBool a))
  | ["alretain", k, u, r, a] => do some (.alRetain (← parseNat k) (← pBool u) (← pBool r) (← pBool a))
  | ["alfree", k] => do some (.alFree (← parseNat k))
  | ["albuild", k] => do some (.alBuild (← parseNat k))
  | ["aladd", k, n, p] => do some (.alAdd (← parseNat k) (← parseNat n) (← parseNat p))
  | ["alpop", k, e] => do some (.alPop (← parseNat k) (← parseNat e))
  | ["aliter", i, "dec", u, r, a, e] => do some (.alIter (← parseNat i) .dec (← pBool u) (← pBool r) (← pBool a) (← pBool e))
  | ["aliter", i, k, u, r, a, e] => do some (.alIter (← parseNat i) (.user (← parseNat k)) (← pBool u) (← pBool r) (← pBool a) (← pBool e))
  | ["alinext", i, l] => do some (.aliNext (← parseNat i) (← pBool l))
  | ["alichild", d, s, e] => do some (.aliChild (← parseNat d) (← parseNat s) (← pBool e))
  | ["aligoto", i, g] => do some (.aliGoto (← parseNat i) (← pBool g))
  | ["alifree", i] => do some (.aliFree (← parseNat i))
  | ["json", l, u, r, a] => do some (.json (← parseNat l) (← pBool u) (← pBool r) (← pBool a))
  | ["lookup", f] => do some (.lookup (← pBool f))
  | ["addword", u, o] => do some (.addWord (← pBool u) (← pBool o))
  | ["setgrammar", g] => do some (.setGrammar (← pBool g))
  | _ => none

def showRet : Ret → String
  | .ok => "ok" | .err => "err" | .null => "null" | .ptr => "ptr" | .count => "count"
  | .rc n => s!"rc={n}" | .void => "void" | .oop => "oop"

def b01 (b : Bool) : String := if b then "1" else "0"

def countKind (p : IterKind → Bool) (l : List Iter) : Nat := (l.filter fun it => p it.kind).length

/-- sizes of the three levels of the user-built alignments, by slot -/
def showBuilt (l : List (Nat × SSVerif.AlignVec.UAlign)) : String :=
  if l.isEmpty then "-" else
  let sorted := (l.toArray.qsort (fun a b => a.1 < b.1)).toList
  sepBy "," (sorted.map fun p => s!"{p.1}:{p.2.word.n}/{p.2.sseq.n}/{p.2.state.n}")

def showInst (s : ApiState) : String :=
  let its := s!" it={countKind isSeg s.iters},{countKind isHyp s.iters},{countKind isAli s.iters} lr={s.lats.length} ar={s.alns.length} ln={countKind isLatN s.iters},{countKind isLatL s.iters} ub={showBuilt s.built}"
  if s.refs = 0 then "D=0" ++ its
  else
    let u := match s.utt with | .idle => "i" | .inUtt => "s" | .ended => "e"
    s!"D={s.refs} u={u} s={b01 (s.search != .none)} a={b01 s.align} j={b01 s.json} g={b01 s.dag}" ++ its

def countSub (k : SubKind) (l : List (SubKind × Nat)) : Nat := (l.filter fun p => p.1 == k).length

def showState (s : Sys) : String :=
  s!"{showInst s.da} || {showInst s.db} || cf={s.cfgSlots.length} lm={countSub .lmath s.subs} fe={countSub .fe s.subs} ft={countSub .feat s.subs} ml={s.mllrs.length}"

/-- classification printed with every call: `ooo` = listed out-of-order, `oop` = out-of-protocol -/
def classify (s : ApiState) (c : Call) (r : Ret) : String :=
  if r = .oop then "oop"
  else
    let ooo : Bool := match c with
      | .proc _ _ => s.utt != .inUtt
      | .start => s.utt == .inUtt || s.search == .none
      | .endUtt _ => s.utt != .inUtt || s.search == .none
      | .hyp _ | .prob | .seg _ _ | .lattice _ | .latRetain _ _ | .nbest _ _ _ => s.search == .none
      | .latBest .dec _ _ | .latTrav .dec _ | .latPrune .dec _ _ => s.search == .none
      | _ => false
    if ooo then "ooo" else "in"

def parseSys (ws : List String) : Option SysCall :=
  match ws with
  | ["init", i, "new", j, g, f] => do some (.initNew (← pInst i) (← pBool j) (← pGram g) (← pBool f))
  | ["init", i, "held", k] => do some (.initHeld (← pInst i) (← parseNat k))
  | ["reinit", i, "keep"] => do some (.reinitKeep (← pInst i))
  | ["reinit", i, "new", j, g] => do some (.reinitNew (← pInst i) (← pBool j) (← pGram g))
  | ["reinit", i, "held", k] => do some (.reinitHeld (← pInst i) (← parseNat k))
  | ["cfggram", a, b, j, g] => do some (.cfgGram (← pTarget a b) (← pBool j) (← pGram g))
  | "cfgcall" :: a :: b :: kt :: safe :: op => do some (.cfgCall (← pTarget a b) (← pKeyType kt) (← pOp op) (← pBool safe))
  | ["cfgnew", k, j, g] => do some (.cfgNew (← parseNat k) (← pBool j) (← pGram g))
  | ["cfgretaindec", i, k] => do some (.cfgRetainDec (← pInst i) (← parseNat k))
  | ["cfgretainheld", k, j] => do some (.cfgRetainHeld (← parseNat k) (← parseNat j))
  | ["cfguse", k] => do some (.cfgUse (← parseNat k))
  | ["cfgfree", k] => do some (.cfgFree (← parseNat k))
  | ["subretain", i, kd, k] => do some (.subRetain (← pInst i) (← pKind kd) (← parseNat k))
  | ["subuse", kd, k] => do some (.subUse (← pKind kd) (← parseNat k))
  | ["subfree", kd, k] => do some (.subFree (← pKind kd) (← parseNat k))
  | ["mllrread", k, ok] => do some (.mllrRead (← parseNat k) (← pBool ok))
  | ["mllrapply", i, k, keep] => do some (.mllrApply (← pInst i) (← parseNat k) (← pBool keep))
  | ["mllrapplynull", i] => do some (.mllrApplyNull (← pInst i))
  | ["mllrfree", k] => do some (.mllrFree (← parseNat k))
  | "dec" :: i :: rest => do some (.dec (← pInst i) (← parseCall rest))
  | _ => none

def stepLine (s : Sys) (ws : List String) : Sys × String :=
  match ws with
  | ["reset"] => (sys0, "reset")
  | _ =>
    match parseSys ws with
    | none => (s, "bad-op")
    | some c =>
      let r := sysStep s c
      let cls := match c with
        | .dec i dc =>
          let x := s.inst i
          let fresh := match x.search with | .fresh => "f" | .used => "u" | .none => "n"
          s!"{classify x dc r.2} {fresh}"
        | _ => if r.2 == Ret.oop then "oop -" else "in -"
      (r.1, s!"{showRet r.2} | {showState r.1} | {cls}")

def main : IO Unit := runLoop stepLine sys0

end Driver.C09
