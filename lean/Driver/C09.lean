import SSVerif.Model.ProtocolPred
import Driver.Util
/-! driver sub-command `c09`: replays a transcript of API calls (call + the data-dependent part of what
the implementation returned) on the protocol automaton; prints return class and state summary -/
namespace Driver.C09
open SSVerif.Protocol Driver

def pBool (s : String) : Option Bool := if s = "1" then some true else if s = "0" then some false else none

def pGram (s : String) : Option Gram :=
  match s with
  | "none" => some .none | "good" => some .good | "bad" => some .bad | _ => none

def pSrc (s : String) : Option LatSrc :=
  if s = "dec" then some .dec else (parseNat s).map .user

def pInst (s : String) : Option Inst := if s = "a" then some .a else if s = "b" then some .b else none

def pKind (s : String) : Option SubKind :=
  match s with | "lmath" => some .lmath | "fe" => some .fe | "feat" => some .feat | _ => none

def pKeyType (s : String) : Option KeyType :=
  match s with
  | "unknown" => some .unknown | "int" => some .int | "float" => some .float | "bool" => some .bool
  | "str" => some .str | _ => none

def pStrVal (s : String) : Option StrVal :=
  match s with
  | "null" => some .null | "empty" => some .empty | "num" => some .num | "numbool" => some .numBool
  | "boolword" => some .boolWord | "junk" => some .junk | _ => none

def pOp (ws : List String) : Option CfgOp :=
  match ws with
  | ["setstr", v] => (pStrVal v).map .setStr
  | ["setint"] => some .setInt | ["setfloat"] => some .setFloat | ["setbool"] => some .setBool
  | ["unset"] => some .unset | ["setnull"] => some .setNull | ["same"] => some .same | ["get"] => some .get
  | ["typeof"] => some .typeof | ["json"] => some .json
  | ["parse", e] => (pBool e).map .parse
  | _ => none

def pTarget (a b : String) : Option CfgTarget :=
  if a = "dec" then (pInst b).map .dec else if a = "held" then (parseNat b).map .held else none

def parseCall (ws : List String) : Option Call :=
  match ws with
  | ["freenull"] => some .freeNull
  | ["reinitfeat"] => some .reinitFeat
  | ["touch"] => some .touch
  | ["logfile", "null"] => some (.logfile .null)
  | ["logfile", "file"] => some (.logfile .file)
  | ["logfile", "bad"] => some (.logfile .bad)
  | ["retain"] => some .retain
  | ["free"] => some .free
  | ["start"] => some .start
  | ["proc", f, a] => do some (.proc (← pBool f) (← pBool a))
  | ["end", a] => do some (.endUtt (← pBool a))
  | ["hyp", e] => do some (.hyp (← pBool e))
  | ["prob"] => some .prob
  | ["nframes"] => some .nframes
  | ["times"] => some .times
  | ["getcmn"] => some .getCmn
  | ["setcmn"] => some .setCmn
  | ["seg", i, e] => do some (.seg (← parseNat i) (← pBool e))
  | ["segnext", i, l] => do some (.segNext (← parseNat i) (← pBool l))
  | ["segfree", i] => do some (.segFree (← parseNat i))
  | ["nbest", i, d, h] => do some (.nbest (← parseNat i) (← pBool d) (← pBool h))
  | ["hypnext", i, l] => do some (.hypNext (← parseNat i) (← pBool l))
  | ["hypfree", i] => do some (.hypFree (← parseNat i))
  | ["hypseg", d, s, e] => do some (.hypSeg (← parseNat d) (← parseNat s) (← pBool e))
  | ["lattice", e] => do some (.lattice (← pBool e))
  | ["latbest", src, e, b] => do some (.latBest (← pSrc src) (← pBool e) (← pBool b))
  | ["latprune", src, e, b] => do some (.latPrune (← pSrc src) (← pBool e) (← pBool b))
  | ["lattrav", src, e] => do some (.latTrav (← pSrc src) (← pBool e))
  | ["lnode", i, src, e, ei] => do some (.lnode (← parseNat i) (← pSrc src) (← pBool e) (← pBool ei))
  | ["lnodenext", i, l] => do some (.lnodeNext (← parseNat i) (← pBool l))
  | ["lnodefree", i] => do some (.lnodeFree (← parseNat i))
  | ["llink", d, s, e] => do some (.llink (← parseNat d) (← parseNat s) (← pBool e))
  | ["llinknext", i, l] => do some (.llinkNext (← parseNat i) (← pBool l))
  | ["llinkfree", i] => do some (.llinkFree (← parseNat i))
  | ["latretain", k, e] => do some (.latRetain (← parseNat k) (← pBool e))
  | ["latwalk", k] => do some (.latWalk (← parseNat k))
  | ["latfree", k] => do some (.latFree (← parseNat k))
  | ["align", u, r, a] => do some (.align (← pBool u) (← pBool r) (← pBool a))
  | ["alretain", k, u, r, a] => do some (.alRetain (← parseNat k) (← pBool u) (← pBool r) (← pBool a))
  | ["alfree", k] => do some (.alFree (← parseNat k))
  | ["albuild", k] => do some (.alBuild (← parseNat k))
  | ["aladd", k, n, p] => do some (.alAdd (← parseNat k) (← parseNat n) (← parseNat p))
  | ["alpop", k, e] => do some (.alPop (← parseNat k) (← parseNat e))
  | ["aliter", i, "dec", u, r, a, e] => do some (.alIter (← parseNat i) .dec (← pBool u) (← pBool r) (← pBool a) (← pBool e))
  | ["aliter", i, k, u, r, a, e] => do some (.alIter (← parseNat i) (.user (← parseNat k)) (← pBool u) (← pBool r) (← pBool a) (← pBool e))
  | ["alinext", i, l] => do some (.aliNext (← parseNat i) (← pBool l))
  | ["alichild", d, s, e] => do some (.aliChild (← parseNat d) (← parseNat s) (← pBool e))
  | ["aligoto", i, g] => do some (.aliGoto (← parseNat i) (← pBool g))
  | ["alifree", i] => do some (.aliFree (← parseNat i))
  | ["json", l, u, r, a] => do some (.json (← parseNat l) (← pBool u) (← pBool r) (← pBool a))
  | ["lookup", f] => do some (.lookup (← pBool f))
  | ["addword", u, o] => do some (.addWord (← pBool u) (← pBool o))
  | ["setgrammar", g] => do some (.setGrammar (← pBool g))
  | _ => none

def showRet : Ret → String
  | .ok => "ok" | .err => "err" | .null => "null" | .ptr => "ptr" | .count => "count"
  | .rc n => s!"rc={n}" | .void => "void" | .oop => "oop"

def b01 (b : Bool) : String := if b then "1" else "0"

def countKind (p : IterKind → Bool) (l : List Iter) : Nat := (l.filter fun it => p it.kind).length

/-- sizes of the three levels of the user-built alignments, by slot -/
def showBuilt (l : List (Nat × SSVerif.AlignVec.UAlign)) : String :=
  if l.isEmpty then "-" else
  let sorted := (l.toArray.qsort (fun a b => a.1 < b.1)).toList
  sepBy "," (sorted.map fun p => s!"{p.1}:{p.2.word.n}/{p.2.sseq.n}/{p.2.state.n}")

def showInst (s : ApiState) (created processing : Bool) (fr : Nat) : String :=
  let its := s!" it={countKind isSeg s.iters},{countKind isHyp s.iters},{countKind isAli s.iters} lr={s.lats.length} ar={s.alns.length} ln={countKind isLatN s.iters},{countKind isLatL s.iters} ub={showBuilt s.built}"
  if s.refs = 0 then "D=0" ++ its
  else
    let u := if created then "c" else match s.utt with | .idle => "i" | .inUtt => (if processing then "p" else "s") | .ended => "e"
    s!"D={s.refs} u={u} s={b01 (s.search != .none)} a={b01 s.align} j={b01 s.json} g={b01 s.dag} fr={if created then 0 else fr}" ++ its

def countSub (k : SubKind) (l : List (SubKind × Nat)) : Nat := (l.filter fun p => p.1 == k).length

/-- the model state of the driver is the predicted state `PState` of `Model/ProtocolPred.lean` -/
abbrev DState := PState

def showState (d : DState) : String :=
  let x := d.x
  let s := x.sys
  s!"{showInst s.da x.crA x.prA (d.sa.frames.getD 0)} || {showInst s.db x.crB x.prB (d.sb.frames.getD 0)} || cf={s.cfgSlots.length} lm={countSub .lmath s.subs} fe={countSub .fe s.subs} ft={countSub .feat s.subs} ml={s.mllrs.length} so={x.strs.length}"

/-- classification printed with every call: `ooo` = listed out-of-order, `oop` = out-of-protocol -/
def classify (s : ApiState) (c : Call) (r : Ret) : String :=
  if r = .oop then "oop"
  else
    let ooo : Bool := match c with
      | .proc _ _ => s.utt != .inUtt
      | .start => s.utt == .inUtt || s.search == .none
      | .endUtt _ => s.utt != .inUtt || s.search == .none
      | .hyp _ | .prob | .seg _ _ | .lattice _ | .latRetain _ _ | .nbest _ _ _ => s.search == .none
      | .latBest .dec _ _ | .latTrav .dec _ | .latPrune .dec _ _ => s.search == .none
      | _ => false
    if ooo then "ooo" else "in"

def parseSys (ws : List String) : Option SysCall :=
  match ws with
  | ["init", i, "new", j, g, f] => do some (.initNew (← pInst i) (← pBool j) (← pGram g) (← pBool f))
  | ["init", i, "held", k] => do some (.initHeld (← pInst i) (← parseNat k))
  | ["reinit", i, "keep"] => do some (.reinitKeep (← pInst i))
  | ["reinit", i, "new", j, g] => do some (.reinitNew (← pInst i) (← pBool j) (← pGram g))
  | ["reinit", i, "held", k] => do some (.reinitHeld (← pInst i) (← parseNat k))
  | ["cfggram", a, b, j, g] => do some (.cfgGram (← pTarget a b) (← pBool j) (← pGram g))
  | "cfgcall" :: a :: b :: kt :: safe :: op => do some (.cfgCall (← pTarget a b) (← pKeyType kt) (← pOp op) (← pBool safe))
  | ["cfgnew", k, j, g] => do some (.cfgNew (← parseNat k) (← pBool j) (← pGram g))
  | ["cfgretaindec", i, k] => do some (.cfgRetainDec (← pInst i) (← parseNat k))
  | ["cfgretainheld", k, j] => do some (.cfgRetainHeld (← parseNat k) (← parseNat j))
  | ["cfguse", k] => do some (.cfgUse (← parseNat k))
  | ["cfgfree", k] => do some (.cfgFree (← parseNat k))
  | ["subretain", i, kd, k] => do some (.subRetain (← pInst i) (← pKind kd) (← parseNat k))
  | ["subuse", kd, k] => do some (.subUse (← pKind kd) (← parseNat k))
  | ["subfree", kd, k] => do some (.subFree (← pKind kd) (← parseNat k))
  | ["mllrread", k, ok] => do some (.mllrRead (← parseNat k) (← pBool ok))
  | ["mllrapply", i, k, keep] => do some (.mllrApply (← pInst i) (← parseNat k) (← pBool keep))
  | ["mllrapplynull", i] => do some (.mllrApplyNull (← pInst i))
  | ["mllrfree", k] => do some (.mllrFree (← parseNat k))
  | "dec" :: i :: rest => do some (.dec (← pInst i) (← parseCall rest))
  | _ => none

def pAny (ws : List String) : Option AnyTy :=
  match ws with
  | ["str", v] => (pStrVal v).map .str
  | ["int"] => some .int | ["bool"] => some .bool | ["float"] => some .float
  | _ => none

/-- API-level calls: `x <op> …`; a base call may be preceded by `c1` (the audio block consumed a cepstral frame) -/
def parseX (ws : List String) : Option XCall :=
  match ws with
  | ["x", "create", i, "new", j, g] => do some (.createNew (← pInst i) (← pBool j) (← pGram g))
  | ["x", "create", i, "null"] => do some (.createNull (← pInst i))
  | ["x", "hyphold", i, k, e] => do some (.hypHold (← pInst i) (← parseNat k) (← pBool e))
  | ["x", "jsonhold", i, k, l, u, r, a] =>
    do some (.jsonHold (← pInst i) (← parseNat k) (← parseNat l) (← pBool u) (← pBool r) (← pBool a))
  | ["x", "cmnhold", i, k] => do some (.cmnHold (← pInst i) (← parseNat k))
  | ["x", "iterhold", i, id, k, e] => do some (.iterHold (← pInst i) (← parseNat id) (← parseNat k) (← pBool e))
  | ["x", "buse", k] => do some (.borrowUse (← parseNat k))
  | ["x", "lookuphold", i, k, f] => do some (.lookupHold (← pInst i) (← parseNat k) (← pBool f))
  | ["x", "struse", k] => do some (.strUse (← parseNat k))
  | ["x", "strfree", k] => do some (.strFree (← parseNat k))
  | ["x", "alprop", i, k] => do some (.alProp (← pInst i) (← parseNat k))
  | ["x", "cfgvalidate", a, b, e] => do some (.cfgValidate (← pTarget a b) (← pBool e))
  | ["x", "cfgexpand", a, b] => do some (.cfgExpand (← pTarget a b))
  | ["x", "cfglog", a, b] => do some (.cfgLog (← pTarget a b))
  | ["x", "cfgparsenew", k, ok] => do some (.cfgParseNew (← parseNat k) (← pBool ok))
  | "x" :: "cfgsetany" :: a :: b :: kt :: safe :: ty =>
    do some (.cfgSetAny (← pTarget a b) (← pKeyType kt) (← pAny ty) (← pBool safe))
  | "c1" :: rest => do some (.base (← parseSys rest) true)
  | "c0" :: rest => do some (.base (← parseSys rest) false)
  | _ => do some (.base (← parseSys ws) false)

/-- the table `executes` / `excluded` for the check: `kind=f,f,…;…|f:reason;…` -/
def apiMapLine : String :=
  let ks := OpKind.all.map fun k => s!"{k.name}=" ++ sepBy "," ((executes k).map (·.str))
  let ex := SSVerif.Generated.ApiSurface.ApiName.all.filterMap fun f =>
    (excluded f).map fun r => s!"{f.str}:{r}"
  sepBy ";" ks ++ "|" ++ sepBy ";" ex

/-- observations that come with a call -/
structure Obs where
  fa : Nat := 0
  fb : Nat := 0
  nret : Nat := 0
  w : WordInfo := .echo
  p : PhoneInfo := .echo
  k : Option Nat := none

/-- leading observation tokens of a line: `F <a> <b>` = frame counters the implementation shows after the call,
`N <n>` = count returned by an audio block, `W <class> <id> <base>` = what is known about the word of an add / lookup
call, `P <class>` = about its phones -/
def pObs : List String → Obs × List String
  | "F" :: a :: b :: rest =>
    let r := pObs rest
    ({ r.1 with fa := (parseNat a).getD 0, fb := (parseNat b).getD 0 }, r.2)
  | "N" :: n :: rest =>
    let r := pObs rest
    ({ r.1 with nret := (parseNat n).getD 0 }, r.2)
  | "W" :: cls :: id :: base :: rest =>
    let r := pObs rest
    let w : WordInfo := match cls with
      | "fresh" => .fresh id | "altof" => .altOf base id | "present" => .present | "absent" => .absent | _ => .echo
    ({ r.1 with w := w }, r.2)
  | "K" :: n :: rest =>
    let r := pObs rest
    ({ r.1 with k := parseNat n }, r.2)
  | "P" :: cls :: rest =>
    let r := pObs rest
    ({ r.1 with p := match cls with | "valid" => .valid | "invalid" => .invalid | _ => .echo }, r.2)
  | ws => ({}, ws)

def stepLine (d : DState) (ws0 : List String) : DState × String :=
  let (o, ws) := pObs ws0
  match ws with
  | ["reset"] => (p0, "reset")
  | ["apimap"] => (d, apiMapLine)
  | _ =>
    match parseX ws with
    | none => (d, "bad-op")
    | some c0 =>
      let x := d.x
      let fed := match instOfX c0 with | some .a => o.fa | some .b => o.fb | none => 0
      let pc : PCall := { call := c0, obs := { fed := fed, nret := o.nret, w := o.w, p := o.p, k := o.k } }
      -- the model steps its own prediction of the data-dependent flags where it has one: all of that is `pStep`
      let c := pPredict d pc
      let r := pStep d pc
      let lab := if r.2 == Ret.oop then "oop" else if decide (outOfOrderX x c) then "ooo" else "in"
      let cls := match c with
        | .base (.dec i _) _ =>
          let s := x.sys.inst i
          let fresh := match s.search with | .fresh => "f" | .used => "u" | .none => "n"
          s!"{lab} {fresh}"
        | _ => s!"{lab} -"
      -- `L`: the `last` flag of this `…_next` call was predicted from the remaining-element table, not taken from the transcript
      let mark := match nextId c0, instOfX c0 with
        | some id, some i => if (remOf (d.rem i) id).isSome then " L" else ""
        | _, _ => ""
      (r.1, s!"{showRet r.2} | {showState r.1} | {cls} {c.kind.name}{mark}")

def main : IO Unit := runLoop stepLine p0

end Driver.C09
