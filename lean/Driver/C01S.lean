import SSVerif.Model.SearchLex
import SSVerif.Model.SearchLater
import SSVerif.Model.LexFlatHyps
import SSVerif.Generated.HistConsts
import Std.Data.HashMap
import Driver.Util
/-! driver sub-command `c01s` (C01, growth stage M10): reads the per-frame dumps of `harness/h_c01s.c`
(search FSG `SA…`, lextree `P…`/`R…`, and the search state before `fsg_search_start`, after it, after every
`fsg_search_step` and after `fsg_search_finish`) and evaluates the model's own decidable predicates:

* `R lt`      `LexTreeOK` on the dumped lextree (+ every sibling chain ends),
* `R lexhyps` `lexHypsB M li` (Model/LexFlatHyps.lean): the decidable hypotheses of the C02 lextree = flat-network theorems, with `li` the
  dumped `dict2pid` tables and `M` the flat model from the DIRECT model-definition lookups (`D*` lines) for the same triphones,
* `R pre`     `AllCleared` on the state before `fsg_search_start`,
* `R start`   `startRelB` (pre-state → state after start) and `searchInvB`,
* `R step k`  `stepRelB` (state after k−1 frames → state after k frames), `searchInvB` and (last field, also of `R start`)
              `Later.laterInvB` (Model/SearchLater.lean: word entries ≥ 2 frames after their predecessors, live inner/exit
              states hold entries ≥ 2 frames old — proved for every reachable state in Props/C01Later.lean); and, for the exact
              model of `hmm_vit_eval_3st_lr` with history indices (`evalHist3`), whether every HMM that
              was evaluated and stayed active holds exactly what the model computes from the dumped
              emission scores and transition matrix,
* `R finish`  the dumped state after `fsg_search_finish` = the model's `finish` of the last state,
* `R table`   the table accumulated from the per-frame entries = the whole table dumped at the end,
* `R cov`     diagnostic counts of which clauses of the relation the utterance exercised.
-/
namespace Driver.C01S
open SSVerif.Hist SSVerif.Search Driver

structure Dump where
  what : String := ""
  frame : Int := 0
  nentries : Nat := 0
  actNext : Bool := false
  pending : Nat := 0
  active : List Nat := []
  ms : List (Nat × Hmm) := []
  ents : Array Entry := #[]
  entIdx : List Nat := []
  /-- per evaluated pnode: tmat id, emission scores -/
  vs : List (Nat × Nat × List Int) := []
  /-- `B` line: `fsgs->bestscore`, `beam`, `pbeam`, `wbeam` after the step -/
  beams : Option (Int × Int × Int × Int) := none

structure Cov where
  steps : Nat := 0
  exits : Nat := 0
  nulls : Nat := 0
  startNulls : Nat := 0
  kept : Nat := 0
  dropped : Nat := 0
  newly : Nat := 0
  reentered : Nat := 0        -- was active, on the new list, state 0 overwritten by an enter
  self0 : Nat := 0
  fromParent : Nat := 0
  fromEntry : Nat := 0
  outKept : Nat := 0          -- exit state history unchanged
  outFrom : Nat := 0
  innerSelf : Nat := 0
  innerPrev : Nat := 0        -- history taken from a lower state
  liveStates : Nat := 0
  deadStates : Nat := 0
  maxActive : Nat := 0
  evalExact : Nat := 0        -- HMMs compared with evalHist3
  evalSkipped : Nat := 0
  guardJudged : Nat := 0      -- frames on which fsgs->bestscore was compared with frameBest of evalBest3
  guardExits : Nat := 0       -- word entries whose score was checked against bestscore + wbeam

structure Utt where
  tag : String := ""
  nst : Nat := 0
  worst : Int := 0
  shift : Nat := 0
  tmatWorst : Int := 0
  start : Nat := 0
  arcs : Array Link := #[]
  nodes : Array PNode := #[]
  tmatOf : Array Nat := #[]
  mpxOrOdd : Bool := false          -- a pnode with mpx ≠ 0 or n_emit_state ≠ ctx->n_emit_state
  roots : Array (Option Nat) := #[]
  tmats : List (Nat × List Nat) := []
  -- inputs of the lextree construction
  nCi : Nat := 0
  sil : Nat := 0
  wip : Int := 0
  pip : Int := 0
  nState : Nat := 0
  words : Array WordInfo := #[]
  ciTab : Array (Nat × Nat) := #[]
  lrTab : Std.HashMap Nat (Array Nat) := {}
  ldTab : Std.HashMap Nat (Array Nat) := {}
  lnTab : Std.HashMap (Nat × Nat) Nat := {}
  lsTab : Std.HashMap Nat (Array Nat × Array Nat) := {}
  -- the DIRECT model-definition lookups (bin_mdef_phone_id_nearest + pid2ssid) for the same triphones: the flat model of C02
  drTab : Std.HashMap Nat (Array Nat) := {}
  ddTab : Std.HashMap Nat (Array Nat) := {}
  dnTab : Std.HashMap (Nat × Nat × Nat) Nat := {}
  dsTab : Std.HashMap Nat (Array Nat) := {}
  noDictWord : Bool := false
  cur : Option Dump := none
  prev : Option SState := none
  table : Hist := #[]
  full : Array Entry := #[]
  fullIdx : List Nat := []
  ltDone : Bool := false
  cov : Cov := {}
  bad : List String := []
  out : List String := []

def b01 (x : Bool) : String := if x then "1" else "0"

def optId (x : Int) : Option Nat := if x = -1 then none else if x < 0 then some 1000000000 else some x.toNat

def parseRc (s : String) : List Nat :=
  let cs := s.toList
  let rec go : Nat → List Char → List Nat → List Nat
    | 0, _, acc => acc.reverse
    | fuel + 1, cs, acc =>
      if cs.isEmpty then acc.reverse else
      let w := cs.take 8
      go fuel (cs.drop 8) ((w.foldl (fun a c => 16 * a + (hexVal c).getD 0) 0) :: acc)
  go (cs.length + 1) cs []

def parseEntry (ws : List String) : Option (Nat × Entry) :=
  match ws with
  | [i, li, fr, sc, pr, lc, rc] =>
    match parseNat i, parseInt li, parseInt fr, parseInt sc, parseInt pr, parseInt lc with
    | some i, some li, some fr, some sc, some pr, some lc =>
      let link : Option Nat := if li = -1 then none else if li < 0 then some 1000000000 else some li.toNat
      some (i, { link, frame := fr, score := sc, pred := pr, lc, rc := parseRc rc })
    | _, _, _, _, _, _ => none
  | _ => none

def lexTree (u : Utt) : LexTree := { nst := u.nst, nodes := u.nodes, root := u.roots }

/-- the inputs of the lextree construction as dumped (lookups outside the dumped tables give an ssid no
pnode has, so a model that asks for more than the code does cannot pass by accident) -/
def lexIn (u : Utt) : LexIn :=
  let miss := 999999
  { nCi := u.nCi, sil := u.sil, wip := u.wip, pip := u.pip, shift := u.shift, nst := u.nst, nState := u.nState,
    word := fun w => u.words.getD w { pron := [] },
    lrdiph := fun ci lc => match u.lrTab[ci]? with | some a => a.getD lc miss | none => miss,
    ldiph := fun ci rc lc => match u.ldTab[ci * u.nCi + rc]? with | some a => a.getD lc miss | none => miss,
    internal := fun dw p => (u.lnTab[(dw, p)]?).getD miss,
    rcMap := fun ci lc rc => match u.lsTab[ci * u.nCi + lc]? with | some (m, _) => m.getD rc miss | none => miss,
    rcSsid := fun ci lc j => match u.lsTab[ci * u.nCi + lc]? with | some (_, s) => s.getD j miss | none => miss,
    ciSsid := fun ci => (u.ciTab.getD ci (miss, miss)).1,
    tmat := fun ci => (u.ciTab.getD ci (miss, miss)).2 }

/-- `buildLexTree` on the dumped inputs against the dumped lextree, node by node -/
def buildCompare (u : Utt) (g : Fsg) : String :=
  let m := buildLexTree (lexIn u) g
  let lt := lexTree u
  -- `sil < nCi` is the hypothesis of `C01_build_lexTreeOK`
  if !(decide (u.sil < u.nCi)) || u.noDictWord then s!"0 silence phone {u.sil} of {u.nCi} CI phones / FSG word missing in the dictionary"
  else if m.nodes == lt.nodes && m.root == lt.root && m.nst == lt.nst then s!"1 {m.nodes.size}"
  else
    let i := ((List.range (max m.nodes.size lt.nodes.size)).find? fun i => m.nodes[i]? != lt.nodes[i]?).getD 0
    let sh (n : Option PNode) : String := match n with
      | none => "none"
      | some n => s!"(owner={n.owner},leaf={n.leaf},link={n.link},succ={n.succ},sib={n.sibling},ci={n.ciExt},ssid={n.ssid},tmat={n.tmatid},ppos={n.ppos},ctxt={n.ctxt},lp={n.logs2prob})"
    s!"0 sizes={m.nodes.size}/{lt.nodes.size} roots={b01 (m.root == lt.root)} first-diff={i} model={sh m.nodes[i]?} real={sh lt.nodes[i]?}"
/-- the flat model of C02 (`FlatNet.Model`) for this case: the arcs and words of the search FSG, and the DIRECT
model-definition lookups (`D*` lines; `none` outside the dumped rows, so nothing is assumed about them) -/
def flatModel (u : Utt) : SSVerif.FlatNet.Model :=
  let row (t : Std.HashMap Nat (Array Nat)) (k i : Nat) : Option Nat := match t[k]? with | some a => a[i]? | none => none
  { sil := u.sil, start := u.start, final := 0,
    arcs := u.arcs.toList.map fun l =>
      ({ src := l.src, dst := l.dst, logp := l.logp, wid := (if l.wid < (0 : Int) then none else some (Int.toNat l.wid)) } : SSVerif.FlatNet.Arc),
    word := fun w => (u.words[w]?).map fun wi => { filler := wi.dictFiller, pron := wi.pron },
    ssid := fun ci lc rc wpos =>
      if wpos = SSVerif.Generated.Search.wposSingle then (if rc = u.sil then row u.drTab ci lc else none)
      else if wpos = SSVerif.Generated.Search.wposBegin then row u.ddTab (ci * u.nCi + rc) lc
      else if wpos = SSVerif.Generated.Search.wposEnd then row u.dsTab (ci * u.nCi + lc) rc
      else if wpos = SSVerif.Generated.Search.wposInternal then u.dnTab[(ci, lc, rc)]?
      else none,
    ciSsid := fun p => (u.ciTab[p]?).map (·.1), ciTmat := fun p => (u.ciTab[p]?).map (·.2), wip := u.wip, pip := u.pip }

/-- `R lexhyps`: the decidable hypotheses of the C02 lextree / flat-network theorems (`lexHypsB`, Model/LexFlatHyps.lean) on
this case; `fsgOf M = g` needs every null arc to carry wid −1 (reported as the second number); then which clauses hold, the
number of word arcs and of word-internal (ssid, tmat) pairs, and on failure the first offending arc / conflicting pair -/
def lexHypsReport (u : Utt) : String :=
  let M := flatModel u
  let li := lexIn u
  let ok := SSVerif.LexFlat.lexHypsB M li
  let nullOk := u.arcs.all fun l => l.wid ≥ -1
  let which := String.join ((SSVerif.LexFlat.lexHypsWhich M li).map b01)
  let pairs := SSVerif.LexFlat.intPairs M li
  let nWordArcs := (M.arcs.filter fun a => a.wid.isSome).length
  let detail :=
    if ok then "-" else
    let badArc := M.arcs.find? fun a => !(decide (SSVerif.LexFlat.arcWordP M li a))
    let arcS := match badArc with
      | none => "-"
      | some a =>
        match a.wid with
        | none => "-"
        | some wid =>
          match M.word wid with
          | none => s!"wid{wid}:unknown"
          | some wd =>
            let fields : List Bool :=
              [decide ((li.word wid).pron = wd.pron), decide ((li.word wid).fsgFiller = wd.filler), decide (wd.pron ≠ []),
               decide (∀ p ∈ wd.pron, p < li.nCi), decide ((li.word wid).dictFiller = wd.filler),
               decide (∀ k, k < wd.pron.length → SSVerif.LexFlat.optIs (M.ciTmat (wd.pron.getD k 0)) (li.tmat (wd.pron.getD k 0))),
               decide (wd.pron.length = 1 → SSVerif.LexFlat.optIs (M.ciSsid (wd.pron.getD 0 0)) (li.ciSsid (wd.pron.getD 0 0))),
               decide (wd.pron.length = 1 → ∀ l, l < li.nCi →
                 SSVerif.LexFlat.optIs (M.ssid (wd.pron.getD 0 0) l M.sil SSVerif.Generated.Search.wposSingle) (li.lrdiph (wd.pron.getD 0 0) l)),
               decide (2 ≤ wd.pron.length → ∀ l, l < li.nCi →
                 SSVerif.LexFlat.optIs (M.ssid (wd.pron.getD 0 0) l (wd.pron.getD 1 0) SSVerif.Generated.Search.wposBegin)
                   (li.ldiph (wd.pron.getD 0 0) (wd.pron.getD 1 0) l)),
               decide (∀ k, k < wd.pron.length - 2 →
                 SSVerif.LexFlat.optIs (M.ssid (wd.pron.getD (k + 1) 0) (wd.pron.getD k 0) (wd.pron.getD (k + 2) 0) SSVerif.Generated.Search.wposInternal)
                   (li.internal (li.word wid).dictWid (k + 1))),
               decide (2 ≤ wd.pron.length → ∀ r, r < li.nCi →
                 SSVerif.LexFlat.optIs (M.ssid (wd.pron.getD (wd.pron.length - 1) 0) (wd.pron.getD (wd.pron.length - 2) 0) r SSVerif.Generated.Search.wposEnd)
                   (li.rcSsid (wd.pron.getD (wd.pron.length - 1) 0) (wd.pron.getD (wd.pron.length - 2) 0)
                     (li.rcMap (wd.pron.getD (wd.pron.length - 1) 0) (wd.pron.getD (wd.pron.length - 2) 0) r)))]
            s!"wid{wid}:pron={wd.pron}:" ++ String.join (fields.map b01)
    let badPair := pairs.find? fun pr => SSVerif.LexFlat.tmOf M li pr.1 != pr.2
    let pairS := match badPair with
      | none => "-"
      | some pr => s!"ssid{pr.1}:tmat{pr.2}/first{SSVerif.LexFlat.tmOf M li pr.1}"
    s!"arc={arcS};pair={pairS}"
  s!"{b01 ok} {b01 nullOk} {which} {nWordArcs} {pairs.length} {detail}"

def fsg (u : Utt) : Fsg := { links := u.arcs, start := u.start, final := 0, filler := [] }

def mkState (u : Utt) (d : Dump) : SState :=
  let base : Array Hmm := Array.replicate u.nodes.size (Hmm.clear u.nst)
  let hmms := d.ms.foldl (fun a (p, h) => if p < a.size then a.set! p h else a) base
  { frame := d.frame, hist := u.table ++ d.ents, hmms, active := d.active }

/-- diagnostic only: first pnode whose `PNodeStep` fails, and the clause -/
def diagStep (lt : LexTree) (g : Fsg) (shift : Nat) (s s' : SState) : String := Id.run do
  if s'.frame ≠ s.frame + 1 then return "frame"
  if !tableStepB shift lt g s s' then
    let new := s'.hist.toList.drop s.hist.size
    let exits := new.takeWhile fun e => !isNullEntry g e
    let nulls := new.dropWhile fun e => !isNullEntry g e
    let h1 := exits.foldl Array.push s.hist
    if s'.hist ≠ nulls.foldl Array.push h1 then return "table:not-an-extension"
    match exits.find? fun e => !decide (ExitOK lt s s' e) with
    | some e => return s!"table:exit link={e.link} frame={e.frame} score={e.score} pred={e.pred} lc={e.lc}"
    | none => pure ()
    match nulls.find? fun e => !decide (NullOK shift g h1 s.hist.size e) with
    | some e => return s!"table:null link={e.link} frame={e.frame} score={e.score} pred={e.pred} lc={e.lc}"
    | none => pure ()
    return "table:?"
  if s'.hmms.size ≠ s.hmms.size then return "hmms:size"
  if !decide s'.active.Nodup then return "hmms:active-list-has-duplicates"
  match s'.active.find? fun p => !decide (p < lt.nodes.size) with
  | some p => return s!"hmms:active-id {p}"
  | none => pure ()
  match (List.range lt.nodes.size).find? fun p => !decide (PNodeStep lt g s s' p) with
  | some p =>
    let h := s.hmm p
    let h' := s'.hmm p
    let a := decide (p ∈ s.active)
    let a' := decide (p ∈ s'.active)
    let why :=
      if !a' then "dropped-not-cleared-or-touched"
      else if h'.frame ≠ s.frame + 1 then "frame"
      else if !((List.range lt.nst).all fun j => j == 0 ||
          (if a then decide (EvalState h h' j) else decide (h'.hi j = h.hi j ∧ h'.sc j = h.sc j))) then "inner"
      else if !(if a then decide (EvalOut lt.nst h h') else decide (h'.outHist = h.outHist ∧ h'.outScore = h.outScore)) then "out"
      else "state0"
    return s!"pnode {p} active={b01 a} active'={b01 a'} {why} before=({h.frame};{h.score};{h.hist};{h.outScore};{h.outHist}) after=({h'.frame};{h'.score};{h'.hist};{h'.outScore};{h'.outHist})"
  | none => return "?"

/-- diagnostic only: which clauses of the relation this step exercised -/
def covStep (lt : LexTree) (g : Fsg) (s s' : SState) (c : Cov) : Cov := Id.run do
  let mut c := { c with steps := c.steps + 1, maxActive := max c.maxActive s.active.length }
  let new := s'.hist.toList.drop s.hist.size
  let nn := (new.filter (isNullEntry g)).length
  c := { c with exits := c.exits + (new.length - nn), nulls := c.nulls + nn }
  for p in s.active do
    if !(s'.active.contains p) then c := { c with dropped := c.dropped + 1 }
  for p in s'.active do
    let a := s.active.contains p
    let h := s.hmm p
    let h' := s'.hmm p
    if a then c := { c with kept := c.kept + 1 } else c := { c with newly := c.newly + 1 }
    let selfOk := a && decide (h'.hi 0 = h.hi 0 ∧ (live (h'.sc 0) → live (h.sc 0)))
    if selfOk then c := { c with self0 := c.self0 + 1 }
    else
      if a then c := { c with reentered := c.reentered + 1 }
      if decide (EnteredFromParent lt s s' p) then c := { c with fromParent := c.fromParent + 1 }
      else if decide (EnteredFromEntry lt g s s' p) then c := { c with fromEntry := c.fromEntry + 1 }
    if a then
      if h'.outHist = h.outHist then c := { c with outKept := c.outKept + 1 } else c := { c with outFrom := c.outFrom + 1 }
      for j in List.range lt.nst do
        if j > 0 then
          if h'.hi j = h.hi j then c := { c with innerSelf := c.innerSelf + 1 } else c := { c with innerPrev := c.innerPrev + 1 }
    for j in List.range lt.nst do
      if decide (live (h'.sc j)) then c := { c with liveStates := c.liveStates + 1 } else c := { c with deadStates := c.deadStates + 1 }
  return c

/-- exact model of `hmm_vit_eval_3st_lr` with histories against the dump: every pnode that was evaluated in
this frame and is on the new active list must hold, in the states `≥ 1` and in the exit state, exactly what
`evalHist3` computes from its state before the frame (state 0 too unless it was entered afterwards) -/
def evalExact (u : Utt) (s s' : SState) (d : Dump) : (Bool × Nat × Nat × String) := Id.run do
  let mut ok := true
  let mut n := 0
  let mut skipped := 0
  let mut why := ""
  for (p, tm, es) in d.vs do
    if !(s'.active.contains p) || u.nst ≠ 3 || u.mpxOrOdd then
      skipped := skipped + 1
    else
      match u.tmats.find? (·.1 == tm) with
      | none => skipped := skipped + 1
      | some (_, tp) =>
        let h := s.hmm p
        let h' := s'.hmm p
        let m := evalHist3 tp (fun k => es.getD k 0) h
        n := n + 1
        -- the hypotheses of `C01_hmm_eval_3st_refines`: emission scores ≤ 0, no skip 1→3 without skip 0→2
        let hypOk := es.all (fun x => decide (x ≤ 0)) &&
          (!decide (SSVerif.Hmm.tprob tp 1 3 > SSVerif.Generated.Search.tmatWorstScore) ||
            decide (SSVerif.Hmm.tprob tp 0 2 > SSVerif.Generated.Search.tmatWorstScore)) && tp.length == 12
        if !hypOk then
          if ok then why := s!"pnode {p} tmat {tm} e={es} tp={tp}: emission score > 0 or a skip 1→3 without the skip 0→2"
          ok := false
        let inner := m.sc 1 == h'.sc 1 && m.sc 2 == h'.sc 2 && m.hi 1 == h'.hi 1 && m.hi 2 == h'.hi 2 &&
          m.outScore == h'.outScore && m.outHist == h'.outHist
        -- state 0: the evaluated value, unless an enter overwrote it (then the entered score is better)
        let st0 := (m.sc 0 == h'.sc 0 && m.hi 0 == h'.hi 0) || decide (m.sc 0 < h'.sc 0)
        if !(inner && st0) then
          if ok then
            why := s!"pnode {p} tmat {tm} e={es} before=({h.score};{h.hist};{h.outScore};{h.outHist}) model=({m.score};{m.hist};{m.outScore};{m.outHist}) after=({h'.score};{h'.hist};{h'.outScore};{h'.outHist})"
          ok := false
  return (ok, n, skipped, why)

/-- the score guard of a word exit (Model/SearchLater.lean, Props/C01Later.lean), on the `B` line of the dump:
* `fsgs->bestscore` = `frameBest` of the values `evalBest3` gives for every HMM evaluated in this frame,
* `ThreshLive bestscore wbeam` (the word threshold lies above `WORST_SCORE`),
* `Fires bestscore wbeam e.score` for every word entry `e` made in this frame.
`(bestOk, threshOk, firesOk, evaluated?)`; a frame without active HMMs or with HMMs the exact model does not cover
leaves `bestOk` unjudged (true) -/
def guardCheck (u : Utt) (g : Fsg) (s s' : SState) (d : Dump) : Bool × Bool × Bool × Bool :=
  match d.beams with
  | none => (false, false, false, false)
  | some (best, _, _, wbeam) =>
    let new := s'.hist.toList.drop s.hist.size
    let exits := new.filter fun e => !isNullEntry g e
    let fires := exits.all fun e => decide (Fires best wbeam e.score)
    let covered := u.nst == 3 && !u.mpxOrOdd && d.vs.all fun (_, tm, _) => (u.tmats.find? (·.1 == tm)).isSome
    if s.active.isEmpty then (true, true, fires && exits.isEmpty, false)
    else
      let bs := d.vs.map fun (p, tm, es) =>
        match u.tmats.find? (·.1 == tm) with
        | some (_, tp) => evalBest3 tp (fun k => es.getD k 0) (s.hmm p)
        | none => 0
      let bestOk := !covered || (frameBest bs == best && d.vs.length == s.active.length)
      (bestOk, decide (ThreshLive best wbeam), fires, covered)

def finishDump (u : Utt) (d : Dump) : Utt := Id.run do
  let lt := lexTree u
  let g := fsg u
  let mut u := u
  let mut out : List String := []
  if !u.ltDone then
    out := out ++ [s!"R lt {b01 (decide (LexTreeOK lt g))} {b01 lt.chainsEndB} {lt.nodes.size} {b01 (!u.mpxOrOdd)} {b01 (decide (LaterTopo lt.nst))}"]
    out := out ++ [s!"R build {buildCompare u g}"]
    out := out ++ [s!"R lexhyps {lexHypsReport u}"]
    out := out ++ [s!"R consts {b01 (u.worst == SSVerif.Generated.Search.worstScore && u.shift == SSVerif.Generated.senscrShift && u.tmatWorst == SSVerif.Generated.Search.tmatWorstScore)}"]
    u := { u with ltDone := true }
  let s' := mkState u d
  -- entry indices in the dump continue the accumulated table; the reported size matches
  let idxOk := d.entIdx == (List.range d.ents.size).map (· + u.table.size)
  let quiet := !d.actNext && d.pending == 0
  match d.what with
  | "pre" =>
    out := out ++ [s!"R pre {b01 (decide (AllCleared lt s'))} {b01 quiet}"]
    u := { u with prev := some { s' with hist := #[] }, table := #[] }
  | "start" =>
    let s0 := u.prev.getD s'
    let r := startRelB u.shift lt g s0 s'
    out := out ++ [s!"R start {b01 r} {b01 (searchInvB lt g s')} {b01 (idxOk && s'.hist.size == d.nentries)} {b01 quiet} {s'.hist.size} {s'.active.length} {b01 (Later.laterInvB lt g s')}"]
    u := { u with prev := some s', table := s'.hist, cov := { u.cov with startNulls := u.cov.startNulls + (s'.hist.size - 1) } }
  | "step" =>
    let s := u.prev.getD s'
    let r := stepRelB u.shift lt g s s'
    let (ex, nEx, nSk, whyEx) := evalExact u s s' d
    let diag := if r then "-" else diagStep lt g u.shift s s'
    let (gBest, gThresh, gFires, gJudged) := guardCheck u g s s' d
    let nWordNew := ((s'.hist.toList.drop s.hist.size).filter fun e => !isNullEntry g e).length
    out := out ++ [s!"R step {s'.frame} {b01 r} {b01 (searchInvB lt g s')} {b01 (idxOk && s'.hist.size == d.nentries)} {b01 quiet} {b01 ex} {s'.hist.size} {s'.active.length} {b01 (Later.laterInvB lt g s')} {b01 gBest} {b01 gThresh} {b01 gFires}"]
    if !(gBest && gThresh && gFires) then out := out ++ [s!"R why guard beams={d.beams} exits={((s'.hist.toList.drop s.hist.size).filter fun e => !isNullEntry g e).map (·.score)} evaluated={d.vs.length} active={s.active.length}"]
    if !r then out := out ++ [s!"R why {diag}"]
    if !ex then out := out ++ [s!"R whyeval {whyEx}"]
    let cov1 := covStep lt g s s' u.cov
    let covG : Cov := { cov1 with evalExact := u.cov.evalExact + nEx, evalSkipped := u.cov.evalSkipped + nSk,
                                  guardJudged := u.cov.guardJudged + (if gJudged then 1 else 0),
                                  guardExits := u.cov.guardExits + (if d.beams.isSome then nWordNew else 0) }
    u := { u with prev := some s', table := s'.hist, cov := covG }
  | "finish" =>
    let s := u.prev.getD s'
    let m := finish lt s
    let same := m.hmms == s'.hmms && m.active == s'.active && m.hist == s'.hist && m.frame == s'.frame
    out := out ++ [s!"R finish {b01 same} {b01 (decide (AllCleared lt s'))} {b01 quiet}"]
    u := { u with prev := some s', table := s'.hist }
  | w => u := { u with bad := s!"S-{w}" :: u.bad }
  return { u with out := u.out ++ out, cur := none }

def parseHmm (ws : List String) : Option (Nat × Hmm) :=
  match ws with
  | p :: fr :: n :: rest =>
    match parseNat p, parseInt fr, parseNat n with
    | some p, some fr, some n =>
      let vals := rest.filterMap parseInt
      if vals.length ≠ 2 * n + 2 || rest.length ≠ 2 * n + 2 then none else
      some (p, { frame := fr, score := vals.take n, outScore := vals.getD n 0, hist := (vals.drop (n + 1)).take n,
                 outHist := vals.getD (2 * n + 1) 0 })
    | _, _, _ => none
  | _ => none

def feed (u : Utt) (ws : List String) : Utt :=
  match ws with
  | ["K", nst, worst, shift, tw] =>
    { u with nst := (parseNat nst).getD 0, worst := (parseInt worst).getD 0, shift := (parseNat shift).getD 0,
             tmatWorst := (parseInt tw).getD 0 }
  | "SF" :: s :: _ => { u with start := (parseNat s).getD 0 }
  | ["SA", _, f, t, lp, w] =>
    match parseNat f, parseNat t, parseInt lp, parseInt w with
    | some f, some t, some lp, some w => { u with arcs := u.arcs.push ⟨f, t, lp, w⟩ }
    | _, _, _, _ => { u with bad := "SA" :: u.bad }
  | "LT" :: _ :: ns :: _ => { u with roots := Array.replicate ((parseNat ns).getD 0) none }
  | ["P", id, owner, leaf, link, succ, sib, ci, ppos, tm, ctxt, mpx, nemit, ssid, lp] =>
    match parseNat id, parseNat owner, parseInt link, parseInt succ, parseInt sib, parseNat ci, parseInt tm with
    | some id, some owner, some link, some succ, some sib, some ci, some tm =>
      if id ≠ u.nodes.size then { u with bad := "P-order" :: u.bad } else
      { u with nodes := u.nodes.push { owner, leaf := leaf = "1", link := (optId link).getD 0, succ := optId succ,
                                       sibling := optId sib, ciExt := ci, ssid := (parseNat ssid).getD 0, tmatid := tm.toNat,
                                       ppos := (parseNat ppos).getD 0,
                                       ctxt := ctxt.toList.foldl (fun a c => 16 * a + (hexVal c).getD 0) 0,
                                       logs2prob := (parseInt lp).getD 0 },
               tmatOf := u.tmatOf.push tm.toNat,
               mpxOrOdd := u.mpxOrOdd || mpx ≠ "0" || (parseNat nemit).getD 0 ≠ u.nst ||
                 (leaf = "1" && link < 0) }
    | _, _, _, _, _, _, _ => { u with bad := "P" :: u.bad }
  | ["R", s, r] =>
    match parseNat s, parseInt r with
    | some s, some r => if s < u.roots.size then { u with roots := u.roots.set! s (optId r) } else { u with bad := "R-range" :: u.bad }
    | _, _ => { u with bad := "R" :: u.bad }
  | ["LI", nci, sil, wip, pip, ns, _nw] =>
    { u with nCi := (parseNat nci).getD 0, sil := (parseNat sil).getD 0, wip := (parseInt wip).getD 0,
             pip := (parseInt pip).getD 0, nState := (parseNat ns).getD 0 }
  | ["LC", _, ssid, tm] => { u with ciTab := u.ciTab.push ((parseNat ssid).getD 0, (parseNat tm).getD 0) }
  | "LW" :: _wid :: dw :: ff :: df :: _n :: pron =>
    let d := (parseInt dw).getD (-1)
    { u with words := u.words.push { pron := pron.filterMap parseNat, fsgFiller := ff = "1", dictFiller := df = "1", dictWid := d.toNat },
             noDictWord := u.noDictWord || d < 0 }
  | "LR" :: ci :: rest => { u with lrTab := u.lrTab.insert ((parseNat ci).getD 0) (rest.filterMap parseNat).toArray }
  | "LD" :: ci :: rc :: rest =>
    { u with ldTab := u.ldTab.insert ((parseNat ci).getD 0 * u.nCi + (parseNat rc).getD 0) (rest.filterMap parseNat).toArray }
  | ["LN", dw, k, ssid] => { u with lnTab := u.lnTab.insert ((parseNat dw).getD 0, (parseNat k).getD 0) ((parseNat ssid).getD 0) }
  | "LS" :: ci :: lc :: _n :: rest =>
    let v := (rest.filterMap parseNat).toArray
    { u with lsTab := u.lsTab.insert ((parseNat ci).getD 0 * u.nCi + (parseNat lc).getD 0) (v.extract 0 u.nCi, v.extract u.nCi v.size) }
  | "DR" :: ci :: rest => { u with drTab := u.drTab.insert ((parseNat ci).getD 0) (rest.filterMap parseNat).toArray }
  | "DD" :: ci :: rc :: rest =>
    { u with ddTab := u.ddTab.insert ((parseNat ci).getD 0 * u.nCi + (parseNat rc).getD 0) (rest.filterMap parseNat).toArray }
  | ["DN", ci, lc, rc, ssid] =>
    { u with dnTab := u.dnTab.insert ((parseNat ci).getD 0, (parseNat lc).getD 0, (parseNat rc).getD 0) ((parseNat ssid).getD 0) }
  | "DS" :: ci :: lc :: rest =>
    { u with dsTab := u.dsTab.insert ((parseNat ci).getD 0 * u.nCi + (parseNat lc).getD 0) (rest.filterMap parseNat).toArray }
  | "T" :: id :: rest =>
    { u with tmats := ((parseNat id).getD 0, rest.filterMap parseNat) :: u.tmats }
  | ["S", "end"] =>
    match u.cur with
    | some d => finishDump u d
    | none => { u with bad := "S-end" :: u.bad }
  | ["S", what, fr, ne, an, pend] =>
    { u with cur := some { what, frame := (parseInt fr).getD 0, nentries := (parseNat ne).getD 0, actNext := an ≠ "0",
                           pending := (parseNat pend).getD 1 } }
  | ["B", b, bm, pb, wb] =>
    match u.cur, parseInt b, parseInt bm, parseInt pb, parseInt wb with
    | some d, some b, some bm, some pb, some wb => { u with cur := some { d with beams := some (b, bm, pb, wb) } }
    | _, _, _, _, _ => { u with bad := "B" :: u.bad }
  | "A" :: rest =>
    match u.cur with
    | some d => { u with cur := some { d with active := rest.map fun x => (optId ((parseInt x).getD (-2))).getD 1000000000 } }
    | none => { u with bad := "A" :: u.bad }
  | "M" :: rest =>
    match u.cur, parseHmm rest with
    | some d, some m => { u with cur := some { d with ms := m :: d.ms } }
    | _, _ => { u with bad := "M" :: u.bad }
  | "E" :: rest =>
    match u.cur, parseEntry rest with
    | some d, some (i, e) => { u with cur := some { d with ents := d.ents.push e, entIdx := d.entIdx ++ [i] } }
    | _, _ => { u with bad := "E" :: u.bad }
  | "X" :: rest =>
    match parseEntry rest with
    | some (i, e) => { u with full := u.full.push e, fullIdx := i :: u.fullIdx }
    | none => { u with bad := "X" :: u.bad }
  | "V" :: p :: tm :: rest =>
    -- emission scores of the step whose dump follows: kept until the next `S step`
    match parseNat p, parseNat tm with
    | some p, some tm =>
      let v := (p, tm, rest.filterMap parseInt)
      match u.cur with
      | some d => { u with cur := some { d with vs := v :: d.vs } }
      | none => { u with cur := some { what := "pending-V", vs := [v] } }
    | _, _ => { u with bad := "V" :: u.bad }
  | _ => { u with bad := (ws.headD "?") :: u.bad }

/-- `S <what> …` after `V` lines: keep the collected emission scores -/
def feed' (u : Utt) (ws : List String) : Utt :=
  match ws, u.cur with
  | ["S", what, fr, ne, an, pend], some d =>
    if d.what == "pending-V" then
      { u with cur := some { what, frame := (parseInt fr).getD 0, nentries := (parseNat ne).getD 0, actNext := an ≠ "0",
                             pending := (parseNat pend).getD 1, vs := d.vs } }
    else feed u ws
  | _, _ => feed u ws

def covLine (c : Cov) : String :=
  s!"R cov steps={c.steps} exits={c.exits} nulls={c.nulls} startNulls={c.startNulls} kept={c.kept} dropped={c.dropped} newly={c.newly} reentered={c.reentered} self0={c.self0} fromParent={c.fromParent} fromEntry={c.fromEntry} outKept={c.outKept} outFrom={c.outFrom} innerSelf={c.innerSelf} innerPrev={c.innerPrev} liveStates={c.liveStates} deadStates={c.deadStates} maxActive={c.maxActive} evalExact={c.evalExact} evalSkipped={c.evalSkipped} guardJudged={c.guardJudged} guardExits={c.guardExits}"

partial def loop (hin : IO.FS.Stream) (hout : IO.FS.Stream) (u : Utt) : IO Unit := do
  let line ← hin.getLine
  if line.isEmpty then return ()
  let ws := words line
  match ws with
  | "U" :: "begin" :: tag :: _ =>
    hout.putStrLn s!"R begin {tag}"
    loop hin hout { tag }
  | "U" :: "end" :: _ =>
    for l in u.out do hout.putStrLn l
    let tableOk := u.full == u.table && u.fullIdx.reverse == List.range u.full.size
    hout.putStrLn s!"R table {b01 tableOk} {u.table.size}"
    hout.putStrLn (covLine u.cov)
    if !u.bad.isEmpty then hout.putStrLn s!"R bad {sepBy "," u.bad.reverse}"
    hout.putStrLn "R end"
    hout.flush
    loop hin hout {}
  | "U" :: "fail" :: rest =>
    loop hin hout { u with bad := s!"U-fail-{sepBy "-" rest}" :: u.bad }
  | [] => loop hin hout u
  | ">" :: _ => loop hin hout u
  | w :: _ =>
    if ["K", "SF", "SA", "LT", "P", "R", "T", "S", "A", "B", "M", "E", "X", "V", "LI", "LC", "LW", "LR", "LD", "LN", "LS", "DR", "DD", "DN", "DS"].contains w then loop hin hout (feed' u ws)
    else loop hin hout u      -- replies of the other harness commands

def main : IO Unit := do
  let stdin ← IO.getStdin
  let stdout ← IO.getStdout
  loop stdin stdout {}
  stdout.flush

end Driver.C01S
