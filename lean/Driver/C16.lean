import SSVerif.Model.Dict
import SSVerif.Model.Dict2pid
import SSVerif.Model.Dict2pidBuild
import Driver.Util
/-! driver sub-command `c16`: replays a dictionary op file on the model (same line format as harness/h_c16.c) -/
namespace Driver.C16
open SSVerif.Dict SSVerif.Dict2pid Driver
open SSVerif.HashTable (Key)

structure St where
  m : Mdef := { ciphones := [], sil := 0 }
  dec : Bool := false
  nocase : Bool := false
  lines : List (Key × Key) := []      -- reversed
  flines : List (Key × Key) := []     -- reversed
  d : Option Dict := none
  t : D2P := { ldiph := [], rdiph := [], single := [] }
  bm : BinMdef := default
  tabs : Tabs := Tabs.empty
  grammar : Option (List Key) := none

def showOptNat : Option Nat → String
  | none => "-1"
  | some v => toString v

def showPron (p : List Nat) : String := if p.isEmpty then "-" else ".".intercalate (p.map toString)

def showEntry (i : Nat) (e : Entry) : String :=
  s!"{i}:{toHex e.word}:{showPron e.pron}:{e.basewid}:{showOptNat e.alt}"

def showEntries (ws : List Entry) : String :=
  let rec go : List Entry → Nat → List String → List String
    | [], _, acc => acc.reverse
    | e :: es, i, acc => go es (i + 1) (showEntry i e :: acc)
  " ".intercalate (go ws 0 [])

def showInit : Option Dict → String
  | none => "init fail"
  | some d => s!"init n={d.words.length} max={d.maxWords} fs={d.fillerStart} fe={d.fillerEnd} s={showOptNat d.startwid} f={showOptNat d.finishwid} sil={showOptNat d.silwid}"

def parseHexAll (l : List String) : Option (List Key) := l.mapM parseHex

/-- `nextword(ptr, " \t\n\r", …)` tokens of an alignment text -/
def alignTokens (s : Key) : List Key :=
  let rec go : List UInt8 → Key → List Key
    | [], cur => if cur = [] then [] else [cur.reverse]
    | c :: cs, cur =>
      if c = 32 ∨ c = 9 ∨ c = 10 ∨ c = 13 then (if cur = [] then go cs [] else cur.reverse :: go cs [])
      else go cs (c :: cur)
  go s []

def qsortStr (l : List String) : List String := (l.toArray.qsort (· < ·)).toList

def dots (l : List Nat) : String := ".".intercalate (l.map toString)

def insertSorted {α : Type} (lt : α → α → Bool) (x : α) : List α → List α
  | [] => [x]
  | y :: ys => if lt x y then x :: y :: ys else y :: insertSorted lt x ys

def sortBy {α : Type} (lt : α → α → Bool) (l : List α) : List α := l.foldl (fun acc x => insertSorted lt x acc) []

def ltPair (a b : Nat × Nat) : Bool := a.1 < b.1 || (a.1 == b.1 && a.2 < b.2)

/-- every written row, in key order (same text as the harness `tabs` op) -/
def showTabs (_m : BinMdef) (t : Tabs) : String :=
  let lk := sortBy ltPair (keysOf t.ldiph)
  let sk := sortBy (· < ·) (keysOf t.lrdiph)
  let rk := sortBy ltPair (keysOf t.rssid)
  let ls := lk.filterMap fun k => (t.ldiph.lookup k).bind fun row =>
    if row.all (· == bad) then none else some s!" L{k.1},{k.2}:{dots row}"
  let ss := sk.filterMap fun b => (t.lrdiph.lookup b).bind fun blk =>
    if blk.all (fun r => r.all (· == bad)) then none else some s!" S{b}:{dots blk.flatten}"
  let rs := rk.filterMap fun k => (t.rssid.lookup k).bind fun x =>
    if x.ssid.isEmpty then none else some s!" R{k.1},{k.2}:{dots x.ssid}/{dots x.cimap}"
  String.join (ls ++ ss ++ rs)

/-- the entries a search reads for a word with pronunciation `p` equal the direct lookup (the flag-dependent
silence rows are compared with what `populate_lrdiph` stores) -/
def wordExact (m : BinMdef) (t : Tabs) (p : List Nat) : Bool :=
  match p with
  | [] => true
  | [b] => (List.range m.nCi).all fun l => (List.range m.nCi).all fun r => t.lrdiphRc b l r == m.ssidOf b l r posSingle
  | b :: r :: _ =>
    let e := p.getD (p.length - 1) 0
    let l2 := p.getD (p.length - 2) 0
    ((List.range m.nCi).all fun l =>
      t.ldiphLc b r l == m.ssidOf b l r posBegin ||
      (silRowsL m && r == m.sil.toNat && t.ldiphLc b r l == m.ssidOf b l r posSingle)) &&
    ((List.range m.nCi).all fun rc =>
      (t.rssidAt e l2).get rc == m.ssidOf e l2 rc posEnd ||
      (silRowsR m && l2 == m.sil.toNat && (t.rssidAt e l2).get rc == m.ssidOf e l2 rc posSingle))

def parseNode (s : String) : CdNode :=
  match s.splitOn "," with
  | [a, b, c] => { ctx := a.toInt?.getD 0, nDown := b.toNat?.getD 0, c := c.toInt?.getD 0 }
  | _ => default

def loadMdef (path : String) : IO BinMdef := do
  let txt ← IO.FS.readFile path
  let mut m : BinMdef := default
  for line in txt.splitOn "\n" do
    match line.splitOn " " with
    | "hdr" :: nci :: sil :: _ => m := { m with nCi := nci.toNat?.getD 0, sil := sil.toInt?.getD (-1) }
    | "filler" :: fs => m := { m with filler := (fs.map (· == "1")).toArray }
    | "tree" :: ns => m := { m with tree := (ns.map parseNode).toArray }
    | "ssid" :: ss => m := { m with ssid := (ss.map fun x => x.toNat?.getD bad).toArray }
    | _ => pure ()
  return m

def step (s : St) (ws : List String) : St × String :=
  match ws with
  | "mdef" :: sil :: names =>
    match parseNat sil, parseHexAll names with
    | some sil, some ns => ({ s with m := { ciphones := ns, sil } }, "mdef ok")
    | _, _ => (s, "bad-op")
  | "mdefx" :: sil :: names =>
    match parseNat sil, parseHexAll names with
    | some sil, some ns => ({ s with m := { ciphones := ns, sil } }, "mdef ok")
    | _, _ => (s, "bad-op")
  | ["begin", kind, nc] =>
    ({ s with dec := kind = "dec", nocase := nc = "1", lines := [], flines := [], d := none, grammar := none }, "ok")
  | ["load", w, p] =>
    match parseHex w, parseHex p with
    | some w, some p => ({ s with lines := (w, p) :: s.lines }, "ok")
    | _, _ => (s, "bad-op")
  | ["fload", w, p] =>
    match parseHex w, parseHex p with
    | some w, some p => ({ s with flines := (w, p) :: s.flines }, "ok")
    | _, _ => (s, "bad-op")
  | ["init"] =>
    let d := dictInit s.m s.nocase s.lines.reverse s.flines.reverse
    let t := match d with
      | some d => D2P.build s.m.sil d
      | none => s.t
    let tabs := match d with
      | some d => if s.dec then build s.bm d else Tabs.empty
      | none => Tabs.empty
    ({ s with d, t, tabs }, showInit d)
  | ["nearrow", b, pos] =>
    match parseNat b, parseNat pos with
    | some b, some pos =>
      (s, "n" ++ String.join ((List.range s.bm.nCi).flatMap fun l => (List.range s.bm.nCi).map fun r =>
            s!" {nearest s.bm b l r pos}"))
    | _, _ => (s, "bad-op")
  | ["mgood"] =>
    -- the decidable hypothesis of `C16_d2p_macros_exact` / `C16_d2p_mdef_never_bad` on the dumped real model definition
    -- and of `C16_d2p_macros_exact_api`: the phone table of the `mdef` line has `n_ci` entries
    (s, s!"mg {if mdefGood s.bm && s.m.ciphones.length == s.bm.nCi then 1 else 0}")
  | ["near", b, l, r, pos] =>
    match parseNat b, parseNat l, parseNat r, parseNat pos with
    | some b, some l, some r, some pos =>
      let p := nearest s.bm b l r pos
      (s, s!"n {p} {s.bm.pid2ssid p}")
    | _, _, _, _ => (s, "bad-op")
  | _ =>
  match s.d with
  | none => (s, "bad-op")
  | some d =>
  match ws with
  | ["add", w, p, _] =>
    if !s.dec then (s, "bad-op") else
    match parseHex w, parseHex p with
    | some w, some p =>
      let r := decoderAddWord2 s.m (d, s.t) w p
      let r2 := decoderAddWordT s.m s.bm (d, s.tabs) w p
      ({ s with d := some r.1.1, t := r.1.2, tabs := r2.1.2 }, s!"r {showOptNat r.2}")
    | _, _ => (s, "bad-op")
  | "dadd" :: w :: np :: ids =>
    if s.dec then (s, "bad-op") else
    match parseHex w, parseNat np, ids.mapM parseNat with
    | some w, some np, some ids =>
      let r := dictAddWord d w (ids.take np)
      ({ s with d := some r.1 }, s!"r {showOptNat r.2}")
    | _, _, _ => (s, "bad-op")
  | ["lookup", w] =>
    if !s.dec then (s, "bad-op") else
    match parseHex w with
    | some w =>
      (s, match decoderLookup s.m d w with
          | none => "p none"
          | some k => s!"p {toHex k}")
    | none => (s, "bad-op")
  | ["wid", w] =>
    match parseHex w with
    | some w =>
      (s, match d.wordid w with
          | none => "w -1 0 0"
          | some i =>
            let fil := d.isFiller i
            -- dict_real_word: not <s>/</s> and not in the filler range
            let bw := (d.words[i]?).map (·.basewid)
            let special := bw = d.startwid ∨ bw = d.finishwid
            let real := !decide special && !fil
            s!"w {i} {if fil then 1 else 0} {if real then 1 else 0}")
    | none => (s, "bad-op")
  | ["chain", w] =>
    match parseHex w with
    | some w =>
      (s, match d.wordid w with
          | none => "c none"
          | some i =>
            let ch := d.altChain i
            let cs := if ch.isEmpty then "-" else ",".intercalate (ch.map toString)
            let b := match d.basestr i with
              | some b => toHex b
              | none => "!bad"
            s!"c {cs} b={b}")
    | none => (s, "bad-op")
  | ["base", w] =>
    match parseHex w with
    | some w =>
      (s, match word2basestr w with
          | none => s!"b -1 {toHex w}"
          | some b => s!"b {b.length} {toHex b}")
    | none => (s, "bad-op")
  | ["tabs"] =>
    if !s.dec then (s, "bad-op") else (s, "t" ++ showTabs s.bm s.tabs)
  | ["intern", w] =>
    match parseHex w with
    | some w =>
      (s, match d.wordid w with
          | none => "i"
          | some i =>
            let p := (d.words[i]?).map (·.pron) |>.getD []
            "i" ++ String.join ((List.range (p.length - 2)).map fun k => s!" {internal s.bm p (k + 1)}"))
    | none => (s, "bad-op")
  | ["dump"] =>
    (s, s!"d n={d.words.length} max={d.maxWords} fs={d.fillerStart} fe={d.fillerEnd} | {showEntries d.words}")
  | ["d2p"] =>
    if !s.dec then (s, "bad-op") else
    (s, if d.words.all (fun e => e.pron ≠ [] && s.t.covers e.pron && wordExact s.bm s.tabs e.pron) &&
           -- hypothesis of `C16_d2p_macros_exact`: the phones of every word are CI phones of the model definition
           d.words.all (fun e => e.pron.all (· < s.bm.nCi)) &&
           -- the `dict2pid` clauses of C02's `WordLook`, read through the macros on the model-built tables
           (List.range d.words.length).all (fun dw => d2pLookB s.bm d s.tabs s.bm.sil.toNat dw) then "d2p ok"
        else "d2p bad (model)")
  | "fsg" :: wsx =>
    if !s.dec then (s, "bad-op") else
    match parseHexAll wsx with
    | some l =>
      if l.all (fun w => (d.wordid w).isSome) then ({ s with grammar := some l }, "g 0") else (s, "g -1")
    | none => (s, "bad-op")
  | ["alts", w] =>
    if !s.dec then (s, "bad-op") else
    match parseHex w with
    | some w =>
      match d.wordid w with
      | none => (s, "g -1 -")
      | some i =>
        let names := qsortStr ((d.altChain i).map fun j => toHex ((d.words[j]?).map (·.word) |>.getD []))
        ({ s with grammar := some [w] }, s!"g 0 {if names.isEmpty then "-" else ",".intercalate names}")
    | none => (s, "bad-op")
  | ["align", t] =>
    if !s.dec then (s, "bad-op") else
    match parseHex t with
    | some t =>
      let l := alignTokens t
      if l.all (fun w => (d.wordid w).isSome) then ({ s with grammar := some l }, "g 0") else (s, "g -1")
    | none => (s, "bad-op")
  | "jsgf" :: _ :: wsx =>
    if !s.dec then (s, "bad-op") else
    match parseHexAll wsx with
    | some l =>
      if l.all (fun w => (d.wordid w).isSome) then ({ s with grammar := some l }, "g 0") else (s, "g -1")
    | none => (s, "bad-op")
  | ["decode", _] =>
    if !s.dec then (s, "bad-op") else
    match s.grammar with
    | none => (s, "h !nosearch")
    | some l =>
      -- the hypothesis of a linear grammar: base spellings of its non-filler words
      let bs := l.filterMap fun w =>
        match d.wordid w with
        | none => none
        | some i => if d.isFiller i then none else d.basestr i
      (s, s!"h {toHex (joinSp bs)}")
  | _ => (s, "bad-op")

partial def loopIO (h out : IO.FS.Stream) (s : St) : IO Unit := do
  let line ← h.getLine
  if line.isEmpty then return ()
  match words line with
  | ["mdeffile", path] =>
    let bm ← loadMdef path
    out.putStrLn "mdef2 ok"
    loopIO h out { s with bm }
  | ws =>
    let (s', o) := step s ws
    out.putStrLn o
    loopIO h out s'

def main : IO Unit := do
  let stdin ← IO.getStdin
  let stdout ← IO.getStdout
  -- the dump of the acoustic model's triphone tree (written by `h_c16 mdefdump`) may also come through the environment
  let bm ← match (← IO.getEnv "C16_MDEF") with
    | some path => loadMdef path
    | none => pure default
  loopIO stdin stdout { bm }
  stdout.flush

end Driver.C16
