import SSVerif.Model.Dict
import Driver.Util
/-! driver sub-command `c16`: replays a dictionary op file on the model (same line format as harness/h_c16.c) -/
namespace Driver.C16
open SSVerif.Dict Driver
open SSVerif.HashTable (Key)

structure St where
  m : Mdef := { ciphones := [], sil := 0 }
  dec : Bool := false
  nocase : Bool := false
  lines : List (Key × Key) := []      -- reversed
  flines : List (Key × Key) := []     -- reversed
  d : Option Dict := none
  t : D2P := { ldiph := [], rdiph := [], single := [] }
  grammar : Option (List Key) := none

def showOptNat : Option Nat → String
  | none => "-1"
  | some v => toString v

def showPron (p : List Nat) : String := if p.isEmpty then "-" else ".".intercalate (p.map toString)

def showEntry (i : Nat) (e : Entry) : String :=
  s!"{i}:{toHex e.word}:{showPron e.pron}:{e.basewid}:{showOptNat e.alt}"

def showEntries (ws : List Entry) : String :=
  let rec go : List Entry → Nat → List String → List String
    | [], _, acc => acc.reverse
    | e :: es, i, acc => go es (i + 1) (showEntry i e :: acc)
  " ".intercalate (go ws 0 [])

def showInit : Option Dict → String
  | none => "init fail"
  | some d => s!"init n={d.words.length} max={d.maxWords} fs={d.fillerStart} fe={d.fillerEnd} s={showOptNat d.startwid} f={showOptNat d.finishwid} sil={showOptNat d.silwid}"

def parseHexAll (l : List String) : Option (List Key) := l.mapM parseHex

/-- `nextword(ptr, " \t\n\r", …)` tokens of an alignment text -/
def alignTokens (s : Key) : List Key :=
  let rec go : List UInt8 → Key → List Key
    | [], cur => if cur = [] then [] else [cur.reverse]
    | c :: cs, cur =>
      if c = 32 ∨ c = 9 ∨ c = 10 ∨ c = 13 then (if cur = [] then go cs [] else cur.reverse :: go cs [])
      else go cs (c :: cur)
  go s []

def qsortStr (l : List String) : List String := (l.toArray.qsort (· < ·)).toList

def step (s : St) (ws : List String) : St × String :=
  match ws with
  | "mdef" :: sil :: names =>
    match parseNat sil, parseHexAll names with
    | some sil, some ns => ({ s with m := { ciphones := ns, sil } }, "mdef ok")
    | _, _ => (s, "bad-op")
  | ["begin", kind, nc] =>
    ({ s with dec := kind = "dec", nocase := nc = "1", lines := [], flines := [], d := none, grammar := none }, "ok")
  | ["load", w, p] =>
    match parseHex w, parseHex p with
    | some w, some p => ({ s with lines := (w, p) :: s.lines }, "ok")
    | _, _ => (s, "bad-op")
  | ["fload", w, p] =>
    match parseHex w, parseHex p with
    | some w, some p => ({ s with flines := (w, p) :: s.flines }, "ok")
    | _, _ => (s, "bad-op")
  | ["init"] =>
    let d := dictInit s.m s.nocase s.lines.reverse s.flines.reverse
    let t := match d with
      | some d => D2P.build s.m.sil d
      | none => s.t
    ({ s with d, t }, showInit d)
  | _ =>
  match s.d with
  | none => (s, "bad-op")
  | some d =>
  match ws with
  | ["add", w, p, _] =>
    if !s.dec then (s, "bad-op") else
    match parseHex w, parseHex p with
    | some w, some p =>
      let r := decoderAddWord2 s.m (d, s.t) w p
      ({ s with d := some r.1.1, t := r.1.2 }, s!"r {showOptNat r.2}")
    | _, _ => (s, "bad-op")
  | "dadd" :: w :: np :: ids =>
    if s.dec then (s, "bad-op") else
    match parseHex w, parseNat np, ids.mapM parseNat with
    | some w, some np, some ids =>
      let r := dictAddWord d w (ids.take np)
      ({ s with d := some r.1 }, s!"r {showOptNat r.2}")
    | _, _, _ => (s, "bad-op")
  | ["lookup", w] =>
    if !s.dec then (s, "bad-op") else
    match parseHex w with
    | some w =>
      (s, match decoderLookup s.m d w with
          | none => "p none"
          | some k => s!"p {toHex k}")
    | none => (s, "bad-op")
  | ["wid", w] =>
    match parseHex w with
    | some w =>
      (s, match d.wordid w with
          | none => "w -1 0 0"
          | some i =>
            let fil := d.isFiller i
            -- dict_real_word: not <s>/</s> and not in the filler range
            let bw := (d.words[i]?).map (·.basewid)
            let special := bw = d.startwid ∨ bw = d.finishwid
            let real := !decide special && !fil
            s!"w {i} {if fil then 1 else 0} {if real then 1 else 0}")
    | none => (s, "bad-op")
  | ["chain", w] =>
    match parseHex w with
    | some w =>
      (s, match d.wordid w with
          | none => "c none"
          | some i =>
            let ch := d.altChain i
            let cs := if ch.isEmpty then "-" else ",".intercalate (ch.map toString)
            let b := match d.basestr i with
              | some b => toHex b
              | none => "!bad"
            s!"c {cs} b={b}")
    | none => (s, "bad-op")
  | ["base", w] =>
    match parseHex w with
    | some w =>
      (s, match word2basestr w with
          | none => s!"b -1 {toHex w}"
          | some b => s!"b {b.length} {toHex b}")
    | none => (s, "bad-op")
  | ["dump"] =>
    (s, s!"d n={d.words.length} max={d.maxWords} fs={d.fillerStart} fe={d.fillerEnd} | {showEntries d.words}")
  | ["d2p"] =>
    if !s.dec then (s, "bad-op") else
    (s, if d.words.all (fun e => e.pron ≠ [] && s.t.covers e.pron) then "d2p ok" else "d2p bad (model)")
  | "fsg" :: wsx =>
    if !s.dec then (s, "bad-op") else
    match parseHexAll wsx with
    | some l =>
      if l.all (fun w => (d.wordid w).isSome) then ({ s with grammar := some l }, "g 0") else (s, "g -1")
    | none => (s, "bad-op")
  | ["alts", w] =>
    if !s.dec then (s, "bad-op") else
    match parseHex w with
    | some w =>
      match d.wordid w with
      | none => (s, "g -1 -")
      | some i =>
        let names := qsortStr ((d.altChain i).map fun j => toHex ((d.words[j]?).map (·.word) |>.getD []))
        ({ s with grammar := some [w] }, s!"g 0 {if names.isEmpty then "-" else ",".intercalate names}")
    | none => (s, "bad-op")
  | ["align", t] =>
    if !s.dec then (s, "bad-op") else
    match parseHex t with
    | some t =>
      let l := alignTokens t
      if l.all (fun w => (d.wordid w).isSome) then ({ s with grammar := some l }, "g 0") else (s, "g -1")
    | none => (s, "bad-op")
  | "jsgf" :: _ :: wsx =>
    if !s.dec then (s, "bad-op") else
    match parseHexAll wsx with
    | some l =>
      if l.all (fun w => (d.wordid w).isSome) then ({ s with grammar := some l }, "g 0") else (s, "g -1")
    | none => (s, "bad-op")
  | ["decode", _] =>
    if !s.dec then (s, "bad-op") else
    match s.grammar with
    | none => (s, "h !nosearch")
    | some l =>
      -- the hypothesis of a linear grammar: base spellings of its non-filler words
      let bs := l.filterMap fun w =>
        match d.wordid w with
        | none => none
        | some i => if d.isFiller i then none else d.basestr i
      (s, s!"h {toHex (joinSp bs)}")
  | _ => (s, "bad-op")

def main : IO Unit := runLoop step {}

end Driver.C16
