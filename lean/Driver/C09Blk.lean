import SSVerif.Model.BlkArray
import Driver.Util
/-! driver sub-command `c09blk`: replays a `blkarray_list` op file (new / app n / reset / free) on the model
`Model/BlkArray.lean`; same line format as harness/h_c09blk.c -/
namespace Driver.C09Blk
open SSVerif.BlkArray Driver

def bits (b : Blk) : String :=
  String.ofList ((List.range (min b.maxblks 48)).map fun i => if (b.rows i).isSome then '1' else '0')

def showSt (b : Blk) : String :=
  s!"nv={b.nValid} cr={(b.used : Int) - 1} cf={b.free} ra={rowsAllocated b b.maxblks} live={liveElems b b.maxblks} rows={bits b}" ++
    (if b.bad then " MODEL-BAD" else "")

def appendN : Nat → Blk → String → Blk × String
  | 0, b, last => (b, last)
  | n + 1, b, _ =>
    let r := append b
    appendN n r.1 (match r.2 with | .id k => s!"{k}" | .full => "-1")

def step (s : Option Blk) (ws : List String) : Option Blk × String :=
  match s, ws with
  | _, ["new", m, k] =>
    match parseNat m, parseNat k with
    | some m, some k => if m = 0 ∨ k = 0 then (s, "bad-op") else (some (init m k), "ok " ++ showSt (init m k))
    | _, _ => (s, "bad-op")
  | some b, ["app", n] =>
    match parseNat n with
    | some n => let r := appendN n b "none"; (some r.1, s!"ret={r.2} " ++ showSt r.1)
    | none => (s, "bad-op")
  | some b, ["reset"] => let b' := reset b; (some b', "ok " ++ showSt b')
  | some _, ["free"] => (none, "ok -")
  | _, _ => (s, "bad-op")

def main : IO Unit := runLoop step (none : Option Blk)

end Driver.C09Blk
