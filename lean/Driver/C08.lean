import SSVerif.Model.Api
import Driver.Util
/-! `ssdriver c08`: runs the C08 dataflow model's own definitions.

* `table`                      → `C <struct>.<field> <kind> <group> [canon]` per inventoried field,
                                 `GC <object>:<symbol> <group>` per writable global, `END`
* `op <call> [arg]`            → one line `op=<model op> phase=<phase after> state=<acmod state code> stale=<cell|-> writes=<groups>`
  calls: `startUtt`, `process <new cepstral frames>`, `processFull batch|live`, `endUtt <samples fed>`,
  `query`, `queryAlign`, `setGrammar`, `setCmn`, `getCmn`, `getCmnUpdate`, `new` (fresh decoder)
-/
namespace Driver.C08
open SSVerif.Api SSVerif.Isolation SSVerif.Generated

abbrev St := Phase × State Group Unit

def initState : St := (.idle, fun g => if always g then some () else none)

def tableLines : List String :=
  (allFields.map fun f =>
    let g := classify f
    let base := s!"C {f.struct}.{f.cname} {g.kind.name} {g.name}"
    match canonTable.lookup f with
    | some c => base ++ " " ++ c
    | none => base) ++
  (allGlobals.map fun g =>
    s!"GC {g.cname} {match classifyGlobal? g with | some k => k.name | none => "UNCLASSIFIED"}") ++
  ["END"]

/-- which model operation a real call is, given the model's phase and the sample bookkeeping -/
def pickOp (ph : Phase) : List String → Option Op
  | ["startUtt"] => some .startUtt
  | ["process", n] =>
    match ph, n.toNat? with
    | .started, some 0 => some .processNoFrame
    | .started, some _ => some .processFirst
    | _, some _ => some .processMore
    | _, none => none
  | ["processFull", "batch"] => some .processFull
  | ["processFull", "live"] => some .processFullLive
  | ["endUtt", n] =>
    match n.toNat? with
    | some 0 => some .endUttEmpty
    | some _ => some .endUtt
    | none => none
  | ["query"] => some .query
  | ["queryAlign"] => some .queryAlign
  | ["setGrammar"] => some .setGrammar
  | ["setCmn"] => some .setCmn
  | ["getCmn"] => some .getCmn
  | ["getCmnUpdate"] => some .getCmnUpdate
  | _ => none

def stepLine (st : St) (w : List String) : St × String :=
  match w with
  | ["table"] => (st, "\n".intercalate tableLines)
  | ["new"] =>
    -- a fresh decoder: `fe_init` has run (writes the process-wide warp statics and the instance's configuration)
    match step decoderSys (fun _ => ()) (fun _ (_ : Unit) _ _ => ()) initState .initFe () with
    | .ok st' => (st', s!"op=initFe phase={st'.1.name} state={st'.1.code} stale=- writes=cfg,ginit,log")
    | .error _ => (initState, "op=initFe error=protocol phase=idle state=0")
  | "op" :: call =>
    match pickOp st.1 call with
    | none => (st, "error=unknown-call")
    | some op =>
      match step decoderSys (fun _ => ()) (fun _ (_ : Unit) _ _ => ()) st op () with
      | .error .protocol => (st, s!"op={op.name} error=protocol phase={st.1.name} state={st.1.code}")
      | .error (.stale c) => (st, s!"op={op.name} phase={st.1.name} state={st.1.code} stale={c.name} writes=-")
      | .ok st' =>
        let ws := ((spec st.1 op).writes.map (·.1.name))
        -- tabulate the new state (a chain of closures would be re-evaluated exponentially often)
        let tbl := allGroups.map fun g => (g, st'.2 g)
        let frozen : State Group Unit := fun g => (tbl.lookup g).getD none
        ((st'.1, frozen), s!"op={op.name} phase={st'.1.name} state={st'.1.code} stale=- writes={if ws.isEmpty then "-" else ",".intercalate ws}")
  | _ => (st, "error=bad-line")

def main : IO Unit := Driver.runLoop stepLine initState

end Driver.C08
