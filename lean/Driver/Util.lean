/-! line-protocol helpers shared by the driver sub-commands (core Lean only) -/
namespace Driver

def hexVal (c : Char) : Option Nat :=
  if '0' ≤ c ∧ c ≤ '9' then some (c.toNat - '0'.toNat)
  else if 'a' ≤ c ∧ c ≤ 'f' then some (c.toNat - 'a'.toNat + 10)
  else if 'A' ≤ c ∧ c ≤ 'F' then some (c.toNat - 'A'.toNat + 10)
  else none

/-- `-` is the empty byte string; otherwise two hex digits per byte -/
def parseHex (s : String) : Option (List UInt8) :=
  if s = "-" then some [] else
  let rec go : List Char → List UInt8 → Option (List UInt8)
    | [], acc => some acc.reverse
    | [_], _ => none
    | a :: b :: rest, acc =>
      match hexVal a, hexVal b with
      | some x, some y => go rest (UInt8.ofNat (16 * x + y) :: acc)
      | _, _ => none
  go s.toList []

def hexDigit (n : Nat) : Char := if n < 10 then Char.ofNat (48 + n) else Char.ofNat (87 + n)

def toHex (l : List UInt8) : String :=
  if l.isEmpty then "-" else
  String.ofList (l.flatMap fun b => [hexDigit (b.toNat / 16), hexDigit (b.toNat % 16)])

def words (line : String) : List String :=
  (line.trimAscii.toString.splitOn " ").filter (· ≠ "")

/-- read all lines of stdin, apply a stateful step, print one output line per input line -/
partial def loop {σ : Type} (h : IO.FS.Stream) (out : IO.FS.Stream) (step : σ → List String → σ × String) (s : σ) : IO Unit := do
  let line ← h.getLine
  if line.isEmpty then return ()
  let (s', o) := step s (words line)
  out.putStrLn o
  loop h out step s'

def runLoop {σ : Type} (step : σ → List String → σ × String) (init : σ) : IO Unit := do
  let stdin ← IO.getStdin
  let stdout ← IO.getStdout
  loop stdin stdout step init
  stdout.flush

def parseInt (s : String) : Option Int := s.toInt?
def parseNat (s : String) : Option Nat := s.toNat?

def sepBy (sep : String) (l : List String) : String := sep.intercalate l

end Driver
