import SSVerif.Model.Jsgf
import SSVerif.Model.JsgfText
import SSVerif.Model.JsgfNames
import SSVerif.Model.JsgfGraph
import Driver.Util
/-! driver sub-command `c05`: desugaring, accept/refuse decision, exploration and verified
language comparison for JSGF grammars (line protocol, see tools/props/c05.py) -/
namespace Driver.C05
open SSVerif.Jsgf SSVerif.JsgfText SSVerif.JsgfNames SSVerif.Nfa Driver

/-! ### reading a surface grammar (prefix token stream) -/

abbrev P (α : Type) := List String → Option (α × List String)

def pNat : P Nat
  | t :: rest => (parseNat t).map fun n => (n, rest)
  | [] => none

def mkSeq : List (Rat × Nat × Exp) → Option Seq
  | [] => none
  | [(w, t, e)] => some (.one w t e)
  | (w, t, e) :: rest => (mkSeq rest).map fun s => .cons w t e s

def mkAlts : List Seq → Option Alts
  | [] => none
  | [s] => some (.one s)
  | s :: rest => (mkAlts rest).map fun a => .cons s a

mutual
  partial def pExp : P Exp
    | "t" :: w :: rest => (parseNat w).map fun n => (.tok n, rest)
    | "r" :: w :: rest => (parseNat w).map fun n => (.ref n, rest)
    | "n" :: rest => some (.null, rest)
    | "v" :: rest => some (.void, rest)
    | "G" :: rest => (pAlts rest).map fun (a, r) => (.group a, r)
    | "O" :: rest => (pAlts rest).map fun (a, r) => (.opt a, r)
    | "S" :: rest => (pExp rest).map fun (e, r) => (.star e, r)
    | "P" :: rest => (pExp rest).map fun (e, r) => (.plus e, r)
    | _ => none
  partial def pItems : Nat → List (Rat × Nat × Exp) → P (List (Rat × Nat × Exp))
    | 0, acc, ts => some (acc.reverse, ts)
    | k + 1, acc, ts => do
      let (num, ts) ← pNat ts
      let (den, ts) ← pNat ts
      let (tags, ts) ← pNat ts
      let (e, ts) ← pExp ts
      pItems k (((num : Rat) / (den : Rat), tags, e) :: acc) ts
  partial def pSeq : P Seq := fun ts => do
    let (m, ts) ← pNat ts
    let (items, ts) ← pItems m [] ts
    let s ← mkSeq items
    pure (s, ts)
  partial def pSeqs : Nat → List Seq → P (List Seq)
    | 0, acc, ts => some (acc.reverse, ts)
    | k + 1, acc, ts => do
      let (s, ts) ← pSeq ts
      pSeqs k (s :: acc) ts
  partial def pAlts : P Alts := fun ts => do
    let (k, ts) ← pNat ts
    let (seqs, ts) ← pSeqs k [] ts
    let a ← mkAlts seqs
    pure (a, ts)
end

partial def pRules : Nat → List SRule → P Grammar
  | 0, acc, ts => some (acc.reverse, ts)
  | k + 1, acc, ts => do
    let (name, ts) ← pNat ts
    let (pub, ts) ← pNat ts
    let (body, ts) ← pAlts ts
    pRules k ({ name, pub := pub != 0, body } :: acc) ts

def pGrammar (ts : List String) : Option Grammar := do
  let (n, ts) ← pNat ts
  let (g, rest) ← pRules n [] ts
  if rest.isEmpty then pure g else none

/-! ### printing rule tables -/

def showName : RName → String
  | .user n => s!"u{n}"
  | .gen k => s!"g{k}"

def showAtom : Atom → String
  | .tok w => s!"t{w}"
  | .ref r => showName r
  | .null => "n"
  | .void => "v"

def showRat (q : Rat) : String := s!"{q.num}/{q.den}"

def showWAtom (a : WAtom) : String := s!"{showAtom a.atom}:{showRat a.wt}:{a.tags}"

def showRule (rl : Rule) : String :=
  let alts := rl.alts.map fun alt => if alt.isEmpty then "-" else sepBy "," (alt.map showWAtom)
  s!"{showName rl.name} {if rl.pub then 1 else 0} {if alts.isEmpty then "-" else sepBy ";" alts}"

def showTable (T : Table) : String := sepBy " | " (T.map showRule)

def parseName (s : String) : Option RName :=
  match s.toList with
  | 'u' :: ds => (String.ofList ds).toNat?.map .user
  | 'g' :: ds => (String.ofList ds).toNat?.map .gen
  | _ => none

/-! ### reading an FSG dump -/

def parseArc (s : String) : Option (Nat × Option Nat × Nat) :=
  match s.splitOn ":" with
  | [f, t, w] =>
    match parseNat f, parseNat t with
    | some f, some t =>
      if w = "-" then some (f, none, t) else (parseNat w).map fun w => (f, some w, t)
    | _, _ => none
  | _ => none

def parseWords (s : String) : Option (List Nat) :=
  if s = "-" then some [] else (s.splitOn ",").mapM parseNat

def showWords (w : List Nat) : String := if w.isEmpty then "-" else sepBy "," (w.map toString)

structure St where
  g : Grammar := []
  T : Table := []
  /-- cache of the last exploration: (top, fuel, result) -/
  ex : Option (RName × Nat × Option Nfa) := none

def getExplore (s : St) (top : RName) (fuel : Nat) : St × Option Nfa :=
  match s.ex with
  | some (t, f, r) => if t = top ∧ f = fuel then (s, r) else
    let r := explore s.T.rules top fuel
    ({ s with ex := some (top, fuel, r) }, r)
  | none =>
    let r := explore s.T.rules top fuel
    ({ s with ex := some (top, fuel, r) }, r)

def showB (b : Bool) : String := if b then "1" else "0"

def showOB : Option Bool → String
  | some b => showB b
  | none => "?"

def step (s : St) (ws : List String) : St × String :=
  match ws with
  | "gram" :: toks =>
    match pGrammar toks with
    | some g =>
      let T := desugar g
      ({ g, T, ex := none }, s!"table {showB (tableMatches T g)} {showB (namesDistinct g)} | {showTable T}")
    | none => (s, "bad-grammar")
  | ["text", hex] =>
    -- the text front end of the model on a byte string
    match parseHex hex with
    | none => (s, "bad-op")
    | some bytes =>
      let cs := bytes.map fun b => Char.ofNat b.toNat
      match parseText cs with
      | none => ({ g := [], T := [], ex := none }, "reject")
      | some tg =>
        let (g, N) := resolve tg
        let T := desugar g
        let hx := fun (l : List Char) => toHex (l.map fun c => UInt8.ofNat c.toNat)
        ({ g, T, ex := none },
         s!"tparse {hx tg.name} R={sepBy "," (N.rules.map hx)} W={sepBy "," (N.words.map hx)} I={tg.imports.length} K={showB (userNamesOK tg.name N)} | {showTable T}")
  | ["names", hex, ks] =>
    -- the table keys `jsgf_define_rule` formats for internal rules number k1,k2,… of a grammar of that name
    -- (`genName`, the object of C05_generated_names_distinct), and the shape test on a list of user names
    match parseHex hex, (ks.splitOn ",").mapM parseNat with
    | some bytes, some ks =>
      let gname := bytes.map fun b => Char.ofNat b.toNat
      let hx := fun (l : List Char) => toHex (l.map fun c => UInt8.ofNat c.toNat)
      (s, s!"names {sepBy "," (ks.map fun k => hx (genName gname k))}")
    | _, _ => (s, "bad-op")
  | ["readtop", ord] =>
    -- `jsgf_read_string`: first public rule in the given iteration order of the table, and whether it builds
    match (ord.splitOn ",").mapM parseName with
    | some ord =>
      let top := match readTop s.T ord with
        | some r => showName r
        | none => "none"
      (s, s!"readtop {top} {showB (readString s.T ord).isSome}")
    | none => (s, "bad-op")
  | ["usernames", hex, names] =>
    -- `userNamesOK` on full rule names given as hex (structural family: the names the generator chose)
    match parseHex hex, (names.splitOn ",").mapM parseHex with
    | some bytes, some ns =>
      let gname := bytes.map fun b => Char.ofNat b.toNat
      let N : Names := { rules := ns.map fun n => n.map fun b => Char.ofNat b.toNat }
      (s, s!"usernames {showB (userNamesOK gname N)}")
    | _, _ => (s, "bad-op")
  | "print" :: toks =>
    -- the Lean pretty-printer on a generated grammar (conventional spellings w<n>, <r<n>>, tags {t})
    match pGrammar toks with
    | some g =>
      let tg := textG g
      let txt := printG tg
      let back := match parseText txt with
        | some tg' => toksG tg' == toksG tg
        | none => false
      (s, s!"printed {showB tg.ok} {showB back} {toHex (txt.map fun c => UInt8.ofNat c.toNat)}")
    | none => (s, "bad-grammar")
  | ["lex", hex] =>
    match parseHex hex with
    | none => (s, "bad-op")
    | some bytes =>
      let cs := bytes.map fun b => Char.ofNat b.toNat
      (s, s!"lex {repr (lex cs)}".replace "\n" " ")
  | ["norm"] => (s, s!"ntable | {showTable (s.T.map normaliseRule)}")
  | ["rep", top, fuel] =>
    match parseName top, parseNat fuel with
    | some top, some fuel =>
      if !(buildRaw s.T top).isSome then
        (s, s!"rep 0 {showB (s.T.defined top)} forms skipped lasthop {showB (representableLastHop s.T top && !representable s.T top)}") else
      let (s', r) := getExplore s top fuel
      let forms := match r with
        | some A => toString ((A.arcs.map fun (a : Nat × Option Nat × Nat) => a.1) ++
            (A.arcs.map fun (a : Nat × Option Nat × Nat) => a.2.2) ++ [A.start, A.final]).eraseDups.length
        | none => "none"
      (s', s!"rep 1 {showB (s.T.defined top)} forms {forms} lasthop 1")
    | _, _ => (s, "bad-op")
  | "cmp" :: top :: fuel :: maxp :: nst :: st :: fin :: arcs =>
    match parseName top, parseNat fuel, parseNat maxp, parseNat nst, parseNat st, parseNat fin, arcs.mapM parseArc with
    | some top, some fuel, some maxp, some _, some st, some fin, some arcs =>
      if !(buildRaw s.T top).isSome then (s, "notrep") else
      let (s', r) := getExplore s top fuel
      match r with
      | none => (s', "noexplore")
      | some A =>
        let F : Nfa := { start := st, final := fin, arcs }
        match nfaEquiv F A maxp with
        | .ok none => (s', "equal")
        | .ok (some w) => (s', s!"differ {showWords w} impl={showOB (decideAccepts F w)} spec={showOB (decideAccepts A w)}")
        | .error e => (s', s!"error {e.replace " " "_"}")
    | _, _, _, _, _, _, _ => (s, "bad-op")
  | ["graph", top] =>
    -- the graph reading of "the compiler accepts" (Model/JsgfGraph.lean, C05_representable_iff_graph):
    -- graph <representableGB> <representable (okRule)> <reachClosed for every rule> <refused for a weight only>
    --       <undefined reachable> <user rule on a cycle> <non-last reference on a cycle> <that reference is first in
    --       its alternative> <cycle through two user rules> <cycle through an internal rule> <bad rule not reachable>
    match parseName top with
    | some top =>
      let T := s.T
      let (fU, fC, fN, fM, fG) := graphFeatures T top
      let R := reachList T top
      let closedAll := reachClosed T top && T.all fun rl => reachClosed T rl.name
      let wref := (expandTop T top).isSome && !(buildRaw T top).isSome
      -- position of a non-last reference on a cycle: first atom of its alternative (left recursion)?
      let left := R.any fun r => (T.rules r).any fun alt =>
        match alt with
        | .ref x :: _ :: _ => (reachList T x).contains r
        | _ => false
      let unreachBad := T.any fun rl => !R.contains rl.name && !representableGB T rl.name
      (s, s!"graph {showB (representableGB T top)} {showB (representable T top)} {showB closedAll} {showB wref} {showB fU} {showB fC} {showB fN} {showB left} {showB fM} {showB fG} {showB unreachBad}")
    | none => (s, "bad-op")
  | ["expand", top] =>
    match parseName top with
    | some top =>
      match buildRaw s.T top with
      | none => (s, "xnone")
      | some st =>
        let arcs := st.links.map fun l =>
          s!"{l.src}:{l.dst}:{match l.label with | some w => toString w | none => "-"}:{showRat l.wt}"
        (s, s!"xfsg {st.nstate} {arcs.length} {sepBy " " arcs}")
    | none => (s, "bad-op")
  | ["acc", top, fuel, w] =>
    match parseName top, parseNat fuel, parseWords w with
    | some top, some fuel, some w =>
      let (s', r) := getExplore s top fuel
      match r with
      | none => (s', "noexplore")
      | some A => (s', s!"acc {showOB (decideAccepts A w)}")
    | _, _, _ => (s, "bad-op")
  | "facc" :: w :: st :: fin :: arcs =>
    -- membership of a sentence in a dumped FSG, by the verified decision
    match parseWords w, parseNat st, parseNat fin, arcs.mapM parseArc with
    | some w, some st, some fin, some arcs =>
      (s, s!"facc {showOB (decideAccepts { start := st, final := fin, arcs } w)}")
    | _, _, _, _ => (s, "bad-op")
  | _ => (s, "bad-op")

def main : IO Unit := runLoop step {}

end Driver.C05
