import Driver.C20
import Driver.C19
import Driver.C02
import Driver.C06
import Driver.C15
import Driver.C13
import Driver.C01
import Driver.C16
import Driver.C05
import Driver.C10
import Driver.C04
import Driver.C18
import Driver.C07
import Driver.C09
import Driver.C09Blk
import Driver.C17
import Driver.C11
import Driver.C12R
import Driver.C12P
import Driver.C14
import Driver.C14F
import Driver.C08
import Driver.C01S
import Driver.C01G
import Driver.C02Search

def main (args : List String) : IO UInt32 := do
  match args with
  | "c20" :: _ => Driver.C20.main; return 0
  | "c19" :: _ => Driver.C19.main; return 0
  | "c02" :: _ => Driver.C02.main; return 0
  | "c06" :: rest => Driver.C06.main rest; return 0
  | "c15" :: _ => Driver.C15.main; return 0
  | "c13" :: _ => Driver.C13.main; return 0
  | "c01" :: _ => Driver.C01.main; return 0
  | "c16" :: _ => Driver.C16.main; return 0
  | "c05" :: _ => Driver.C05.main; return 0
  | "c10" :: _ => Driver.C10.main; return 0
  | "c04" :: _ => Driver.C04.main; return 0
  | "c18" :: _ => Driver.C18.main; return 0
  | "c07" :: _ => Driver.C07.main; return 0
  | "c09" :: _ => Driver.C09.main; return 0
  | "c09blk" :: _ => Driver.C09Blk.main; return 0
  | "c17" :: _ => Driver.C17.main; return 0
  | "c11" :: _ => Driver.C11.main; return 0
  | "c12r" :: _ => Driver.C12R.main; return 0
  | "c12p" :: _ => Driver.C12P.main; return 0
  | "c14" :: _ => Driver.C14.main; return 0
  | "c14f" :: _ => Driver.C14F.main; return 0
  | "c08" :: _ => Driver.C08.main; return 0
  | "c01s" :: _ => Driver.C01S.main; return 0
  | "c01g" :: _ => Driver.C01G.main; return 0
  | "c02s" :: _ => Driver.C02Search.main; return 0
  | _ => IO.eprintln "usage: ssdriver <model> < ops"; return 2
