import Driver.C20

def main (args : List String) : IO UInt32 := do
  match args with
  | "c20" :: _ => Driver.C20.main; return 0
  | _ => IO.eprintln "usage: ssdriver <model> < ops"; return 2
