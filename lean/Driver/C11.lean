import SSVerif.Model.Lattice
import SSVerif.Model.LatticeHist
import SSVerif.Model.LatticeCache
import SSVerif.Model.LogConfigs
import Driver.Util
/-! driver sub-command `c11` (serves C11 and C12): reads dumped lattices (plus the search FSG, the
first-best segmentation and the history table), runs the verified checker `latticeOKB`, validates a
first-best witness path with `checkFirstBest`, and evaluates the model's own `traverseEdges`,
`bestpath`, `remScore`, `nbest` and `buildLattice`. -/
namespace Driver.C11
open SSVerif.Lattice SSVerif.Nfa Driver

structure St where
  nframes : Nat := 0
  start : Nat := 0
  final : Nat := 0
  nodes : Array Node := #[]
  links : Array Link := #[]
  gstart : Nat := 0
  arcs : Array (Nat × Option Nat × Nat) := #[]
  segs : Array Seg := #[]
  haveSegs : Bool := false
  hist : Array HEntry := #[]
  build : Option (Nat × Nat × Nat × Nat × Int × Int × List Nat) := none
  scaled : Array Int := #[]
  endEntries : Array Nat := #[]
  bad : Bool := false
  /-- call trace of the harness (cache clause), `none` = an API name `Call.ofApi` does not know -/
  trace : Array (Option Call) := #[]

def optNat (z : Int) : Option Nat := if z < 0 then none else some z.toNat

def ints (ws : List String) : Option (List Int) := ws.mapM parseInt

def showOptNat : Option Nat → String
  | none => "-1"
  | some n => toString n

def report (s : St) (k : Nat) (light : Bool := false) : List String := Id.run do
  let L : Lat := { nframes := s.nframes, nodes := s.nodes.toList, links := s.links.toList, start := s.start, final := s.final }
  let G : Nfa := { start := s.gstart, final := 0, arcs := s.arcs.toList }
  let mut out : List String := []
  let cl := clauseResults G L
  let ok := latticeOKB G L
  out := out ++ ["clauses " ++ sepBy " " (cl.map fun (n, b) => s!"{n}={if b then 1 else 0}") ++ s!" ok={if ok then 1 else 0}"]
  -- first best
  if s.haveSegs then
    match findSegPath L (L.nframes + 3) L.start s.segs.toList with
    | none => out := out ++ ["firstbest none"]
    | some ls =>
      let c := checkFirstBest L s.segs.toList ls
      out := out ++ [s!"firstbest found checked={if c then 1 else 0} " ++ sepBy " " (ls.map fun l => toString (L.links.idxOf l))]
  else out := out ++ ["firstbest skipped"]
  if ok && !light then
    let tr := traverseEdges L
    out := out ++ ["traverse " ++ sepBy " " (tr.map fun l => toString (L.links.idxOf l))]
    match bestpath L with
    | none => out := out ++ ["best none"]
    | some (x, sc, chain) =>
      out := out ++ [s!"best {L.links.idxOf x} {sc} " ++ sepBy " " (chain.map fun l => toString (L.links.idxOf l))]
    let T := remLevel L (L.nframes + 2)
    let rem := fun v => T.getD v worstScore
    out := out ++ ["rem " ++ sepBy " " ((List.range L.n).map fun v => toString (rem v))]
    let nb := nbest L k
    out := out ++ [s!"nbest {nb.length}"]
    for p in nb do
      out := out ++ [s!"p {p.score} " ++ sepBy " " (p.nodes.reverse.map toString)]
    -- integer forward/backward with the decoder's log-add table
    if s.scaled.size = L.links.length ∧ L.links.length > 0 then
      let lm := SSVerif.LogAdd.cfgDec.lm
      let sc : Link → Int := fun l => s.scaled.getD (L.links.idxOf l) 0
      let P : IntParams := { ladd := SSVerif.LogAdd.logAdd lm, lz := lm.zero, sc := sc }
      let alT := alphaIntT P L
      let beT := betaIntT P L
      let al := look (alphaInit P L) alT
      let be := look (fun _ => P.lz) beT
      let ents := s.endEntries.toList.map fun i => L.links.getD i default
      out := out ++ ["alpha " ++ sepBy " " (L.links.map fun l => toString (al l)),
                     "beta " ++ sepBy " " (L.links.map fun l => toString (be l)),
                     s!"norm {normInt P al ents}"]
  else out := out ++ ["traverse skipped"]
  match s.build with
  | none => out := out ++ ["built skipped"]
  | some (frame, wS, wE, silWord, silpen, fillpen, fillers) =>
    -- hypothesis of `C11_build_latticeOK`, evaluated on the dumped history table of the implementation
    let wf := histWFB G s.hist frame
    let badIdx := if wf then [] else ((List.range s.hist.size).filter fun i => !decide (EntryWF G s.hist frame i)).take 3
    -- hypothesis of `C11_build_first_best`: the first-best segmentation is a complete backtrace of the table
    if s.haveSegs then
      match findChain s.hist s.segs.toList with
      | some c => out := out ++ [s!"chain found len={c.length} ok={if chainOKB s.hist c && segsOf s.hist c == s.segs.toList then 1 else 0}"]
      | none => out := out ++ ["chain none"]
    out := out ++ [s!"histwf {if wf then 1 else 0} entries={s.hist.size} word={nWordEntries s.hist} extra={if extraB s.hist then 1 else 0} wframe={if wordFrameB s.hist then 1 else 0} bad=" ++ sepBy "," (badIdx.map toString)]
    match buildLattice G s.hist frame wS wE (fun w => fillers.contains w) silWord silpen fillpen with
    | none => out := out ++ ["built none"]
    | some B =>
      out := out ++ [s!"built {B.nframes} {B.start} {B.final} {B.nodes.length} {B.links.length} ok={if latticeOKB G B then 1 else 0}"]
      for a in B.nodes do
        out := out ++ [s!"bn {a.word} {a.sf} {a.fef} {a.lef} {showOptNat a.state}"]
      for l in B.links do
        out := out ++ [s!"bl {l.src} {l.dst} {l.ef} {l.ascr}"]
  return out ++ ["end"]

def step (s : St) (ws : List String) : St × List String :=
  match ws with
  | "begin" :: rest =>
    match ints rest with
    | some [nf, st, fi] => ({ nframes := nf.toNat, start := st.toNat, final := fi.toNat, bad := nf < 0 || st < 0 || fi < 0 }, [])
    | _ => ({ bad := true }, [])
  | "n" :: rest =>
    match ints rest with
    | some [w, sf, fef, lef, state] =>
      ({ s with nodes := s.nodes.push ⟨w.toNat, sf.toNat, fef.toNat, lef.toNat, optNat state⟩,
                bad := s.bad || w < 0 || sf < 0 || fef < 0 || lef < 0 }, [])
    | _ => ({ s with bad := true }, [])
  | "l" :: rest =>
    match ints rest with
    | some [a, b, ef, ascr] =>
      ({ s with links := s.links.push ⟨a.toNat, b.toNat, ef.toNat, ascr⟩, bad := s.bad || a < 0 || b < 0 || ef < 0 }, [])
    | _ => ({ s with bad := true }, [])
  | ["g", q] => match parseNat q with
    | some q => ({ s with gstart := q }, [])
    | none => ({ s with bad := true }, [])
  | "a" :: rest =>
    match ints rest with
    | some [f, w, t] => ({ s with arcs := s.arcs.push (f.toNat, optNat w, t.toNat) }, [])
    | _ => ({ s with bad := true }, [])
  | ["nosegs"] => ({ s with haveSegs := false }, [])
  | ["segs"] => ({ s with haveSegs := true }, [])
  | "s" :: rest =>
    match ints rest with
    | some [w, sf, ef] => ({ s with segs := s.segs.push ⟨w.toNat, sf.toNat, ef.toNat⟩, haveSegs := true, bad := s.bad || sf < 0 || ef < 0 }, [])
    | _ => ({ s with bad := true }, [])
  | "h" :: rest =>
    match ints rest with
    | some [f, w, t, frame, score, pred] =>
      let arc := if f < 0 then none else some (f.toNat, optNat w, t.toNat)
      ({ s with hist := s.hist.push ⟨arc, frame, score, pred⟩ }, [])
    | _ => ({ s with bad := true }, [])
  | "b" :: rest =>
    match ints rest with
    | some (frame :: wS :: wE :: silWord :: silpen :: fillpen :: fillers) =>
      ({ s with build := some (frame.toNat, wS.toNat, wE.toNat, silWord.toNat, silpen, fillpen, fillers.map Int.toNat) }, [])
    | _ => ({ s with bad := true }, [])
  | "c" :: rest =>
    match ints rest with
    | some xs => ({ s with scaled := xs.toArray }, [])
    | none => ({ s with bad := true }, [])
  | "e" :: rest =>
    match ints rest with
    | some xs => ({ s with endEntries := (xs.map Int.toNat).toArray }, [])
    | none => ({ s with bad := true }, [])
  | ["z", name, arg] =>
    -- one public call the harness made (cache clause): classified by the model's `Call.ofApi`
    ({ s with trace := s.trace.push ((parseNat arg).bind (Call.ofApi name)) }, [])
  | ["zrun"] =>
    match s.trace.toList.mapM id with
    | none => ({}, ["cachetrace unknown-call", "end"])
    | some cs =>
      ({}, ["cachetrace " ++ sepBy " " ((Sess.init.outputs cs).map showOptNat),
            "quiet " ++ sepBy " " ((quietFlags true cs).map fun b => if b then "1" else "0"), "end"])
  | ["run", k] =>
    if s.bad then ({}, ["bad-input", "end"]) else ({}, report s ((parseNat k).getD 0))
  | ["runlight", k] =>
    -- very large lattices: verified checker and first-best validation only
    if s.bad then ({}, ["bad-input", "end"]) else ({}, report s ((parseNat k).getD 0) true)
  | _ => (s, [])

partial def loop (h : IO.FS.Stream) (out : IO.FS.Stream) (s : St) : IO Unit := do
  let line ← h.getLine
  if line.isEmpty then return ()
  let (s', o) := step s (words line)
  for l in o do out.putStrLn l
  loop h out s'

def main : IO Unit := do
  let stdin ← IO.getStdin
  let stdout ← IO.getStdout
  loop stdin stdout {}
  stdout.flush

end Driver.C11
