import SSVerif.Model.JsonFmt3
import Driver.C14
/-! driver sub-command `c14f`: the exact `%.3f` rendering (`Model/Fmt3.lean`) and the model of
`decoder_result_json` instantiated with it (`Model/JsonFmt3.lean`).

* `f <16 hex digits>` — a double's bit pattern; answer `f len=<lenBits> text=<hex of fmtBits>`: what
  `snprintf(NULL, 0, "%.3f", x)` returns and what `snprintf(buf, n, "%.3f", x)` writes.
* `case …` — same line as for `c14`, but the `fmt` table maps the symbolic arguments (`S`, `T:<f>:<frate>`,
  `R:<n>:<frate>`, `P:<logp>`) to the **bit patterns** (16 hex digits) of the doubles passed to `%.3f`, not to
  rendered text.  Answer as for `c14` plus `fin=` (the hypothesis of `C14_result_json_valid_D80`: every double in
  `args r level` is finite), `argok=` (the hypothesis of `C14_result_json_valid_every_offset`), `mvalid=` (the recogniser accepts the model's own line) and `arith=` (every `T:`/`R:`
  entry of the table is the double `Model/Dbl.lean` computes from `S` and the integers; `arithbad=` the first that
  is not).  The model is `resultJsonD` (repair D80: `NULL` for a non-finite start), its line is rendered from `valOf`
  (start, computed times and ratios, `P:` entries).
* `a <16 hex digits> <f> <frate>` — answer `a d=<bits of (double)f / frate> t=<bits of start + (double)f / frate>`. -/
namespace Driver.C14F
open SSVerif.Json SSVerif.Fmt3 Driver

def beNat (b : List UInt8) : Nat := b.foldl (fun acc c => acc * 256 + c.toNat) 0

def hex16 (n : Nat) : String :=
  String.ofList ((List.range 16).reverse.map fun i => hexDigit (n / 16 ^ i % 16))

def b01 (b : Bool) : String := if b then "1" else "0"

def stepCase (ws : List String) : String :=
  match Driver.C14.parseCase.run ws with
  | none => "bad-case"
  | some (c, _) =>
    let table : List (Num × Nat) := c.table.map fun kv => (kv.1, beNat kv.2)
    let start := valOfTable table .start
    let val := valOf start (fun p => valOfTable table (.prob p))
    -- the hypothesis of `C14_result_json_valid_D80`, evaluated: every argument that occurs in this result is finite
    let fin := (args c.r c.level).all fun a => isFiniteBits (val a)
    -- the hypothesis of `C14_result_json_valid_every_offset`, evaluated
    let argok := (args c.r c.level).all (argOK fun p => valOfTable table (.prob p))
    let bad := table.find? fun kv => val kv.1 != kv.2
    let arith := match bad with
      | none => "arith=1"
      | some kv => s!"arith=0 arithbad={reprStr kv.1 |>.replace " " "_"}:{hex16 (val kv.1)}"
    let fmt := fmtOf val
    let expected := tree fmt c.r c.level
    let (cvalid, ctree) := match c.text with
      | none => (false, false)
      | some t =>
        match parseLine t with
        | none => (false, false)
        | some v => (true, printV v == printV expected)
    match resultJsonD start (fun p => valOfTable table (.prob p)) c.r c.level with
    | none => s!"model ret=null alloc=0 ok=1 dry=1 text=null cvalid={b01 cvalid} ctree={b01 ctree} fin={b01 fin} mvalid=0 argok={b01 argok} {arith}"
    | some o =>
      let line := cstr o.mem.bytes
      s!"model ret=ok alloc={o.alloc} ok={b01 o.mem.ok} dry={b01 o.dryOk} text={toHex line} " ++
        s!"cvalid={b01 cvalid} ctree={b01 ctree} fin={b01 fin} mvalid={b01 (parseLine line).isSome} argok={b01 argok} {arith}"

def step (_ : Unit) (ws : List String) : Unit × String :=
  match ws with
  | ["f", h] =>
    match parseHex h with
    | some b => if b.length = 8 then ((), s!"f len={lenBits (beNat b)} text={toHex (fmtBits (beNat b))}") else ((), "bad-f")
    | none => ((), "bad-f")
  | ["a", h, f, fr] =>
    match parseHex h, parseInt f, parseInt fr with
    | some b, some f, some fr =>
      ((), s!"a d={hex16 (SSVerif.Dbl.divInt f fr)} t={hex16 (SSVerif.Dbl.timeBits (beNat b) f fr)}")
    | _, _, _ => ((), "bad-a")
  | "case" :: _ => ((), stepCase ws)
  | _ => ((), "bad-op")

def main : IO Unit := runLoop step ()

end Driver.C14F
