import SSVerif.Model.AcmodBuf
import SSVerif.Model.AcmodFe
import SSVerif.Model.AcmodWF
import SSVerif.Model.DecRet
import Driver.Util
/-! driver sub-command `c07`: replays a decoder call pattern on the acmod / live-feature index model and prints the
    counters and the windows handed to the searches in the format of `harness/h_c07.c`.  Two ways of standing in for
    the front end: `p` / `pfull` / `end` take the responses the real run met (M5 alone, `Model/AcmodBuf.lean`); `ps` /
    `ends` take only the number of samples of the call and run c06's front-end model inside the decoder-level step
    (`Model/AcmodFe.lean`), printing per front-end call the room offered, the frames yielded and the samples left -/
namespace Driver.C07
open SSVerif.AcmodBuf Driver

structure D where
  s : St
  win : Nat
  fix : Bool
  cfg : SSVerif.FeBuf.Cfg
  fe : SSVerif.FeBuf.Fe Nat
  pos : Nat
  nS : Nat   -- searched entries already printed
  nA : Nat   -- alignment passes already printed

def showCep : Option Cep → String
  | none => "_"
  | some c => toString c.id ++ (if c.ncmn = 1 then "" else s!"n{c.ncmn}") ++ (if c.moved then "m" else "")

def showFeat : Option Feat → String
  | none => "?"
  | some f => ".".intercalate (f.map showCep)

def showEntries (tag : String) (l : List (Nat × Option Feat)) : List String :=
  l.map fun e => s!"{tag}{e.1}:{showFeat e.2}"

def stNum : UState → Nat
  | .idle => 0 | .started => 1 | .processing => 2 | .ended => 3

def showSt (s : St) : String :=
  s!"st={stNum s.state} nmfc={s.nMfcFrame} mfco={s.mfcOutidx} nfeat={s.nFeatFrame} fo={s.featOutidx} of={s.outputFrame} alloc={s.nFeatAlloc} grow={if s.growFeat then 1 else 0} bp={s.bufpos} cp={s.curpos} malloc={s.nMfcAlloc}" ++
  (match s.fault with | none => "" | some m => " FAULT=" ++ m.replace " " "_")

/-- print what was handed to the searches since the last line, then the counters -/
def emit (d : D) (s : St) : D × String :=
  let newS := showEntries "s" (s.searched.drop d.nS)
  let newA := (s.aligned.drop d.nA).flatMap (showEntries "a")
  let all := newS ++ newA
  ({ d with s := s, nS := s.searched.length, nA := s.aligned.length },
   "sc=" ++ (if all.isEmpty then "-" else ",".intercalate all) ++ " | " ++ showSt s ++ s!" n={s.nextId} cmnframes={s.cmnFrames} moved={if s.cmnMoved then 1 else 0}")

def parseResps (w : String) : Option (List FeResp) :=
  if w = "-" then some [] else
  (w.splitOn ",").mapM fun t =>
    match t.splitOn ":" with
    | [a, b] => match a.toNat?, b.toNat? with
      | some n, some m => some ⟨n, m != 0⟩
      | _, _ => none
    | _ => none

def parseFull (w : String) : Option (List FullResp) :=
  if w = "-" then some [] else
  (w.splitOn ",").mapM fun t =>
    match (t.splitOn ":").map String.toNat? with
    | [some e, some n, some m, some tl] => some ⟨e, n, m != 0, tl != 0⟩
    | _ => none

def noSkip : Nat → Bool := fun _ => false

def showCalls (l : List (Nat × Nat × Nat)) : String :=
  if l.isEmpty then "fe=-" else "fe=" ++ ",".intercalate (l.reverse.map fun c => s!"{c.1}:{c.2.1}:{c.2.2}")

/-- after a step of the composed model: the new acoustic-model and front-end state, the front-end calls of the step -/
def emitS (d : D) (x : SSVerif.AcmodFe.FS) : D × String :=
  let r := emit { d with fe := x.fe, pos := x.pos } x.st
  (r.1, showCalls x.calls ++ (if x.feBad then " FEBAD=1 " else " ") ++ r.2)

/-- what the call returns and by how much `d->n_frame` grows, from the model of the C counters
    (`Model/DecRet.lean`; C03's frame accounting) -/
def showRv (r : St × Nat × Option Int) : String :=
  (match r.2.2 with | some v => s!"rv={v}" | none => "rv=-") ++ s!" cnt={r.2.1} "

def showEndRv (r : SSVerif.DecRet.Ret) : String := s!"rv={r.rv} cnt={r.cnt} "

def withRv (rv : String) (r : D × String) : D × String := (r.1, rv ++ r.2)

/-! ### `ring`: the model function `featLive` at a chosen position of the live feature ring (tie of `Props/C07Ring.lean`
    and of the streaming theorems' index arithmetic against `harness/h_c07r.c`, which calls the real
    `feat_s2mfc2feat_live` on the same state) -/

/-- the marker `harness/h_c07r.c` stores for frame id `id` -/
def ringMarker (id : Nat) : Int := ((id * id * 7 + id * 13 + 5) % 100003 : Nat)

/-- ring slot `i` holds id `1000 + i`, input frame `k` (in `mfc_buf[k]`) id `k`; `pending` frames between the read and
    the write position -/
def ringState (cp nb : Nat) : St :=
  { St.init 0 with
      cepbuf := (List.range SSVerif.Generated.livebuf).map fun i => some ⟨1000 + i, 1, false⟩,
      curpos := cp, bufpos := (cp + nb) % SSVerif.Generated.livebuf,
      mfcBuf := (List.range 300).map fun k => some ⟨k, 0, false⟩, nMfcAlloc := 300,
      featBuf := List.replicate 308 none, nFeatAlloc := 308, cmnBatch := false }

/-- coefficient 0, delta 0 and delta-delta 0 of the `1s_c_d_dd` feature vector computed from a window of markers
    (feat.c `feat_1s_c_d_dd_cep2feat`: c = w[0], d = w[2] - w[-2], dd = (w[3] - w[-1]) - (w[1] - w[-3])) -/
def showRingFeat (win : Nat) : Option Feat → String
  | none => "?"
  | some f =>
    let g : Nat → Int := fun j => match f.getD j none with | some c => ringMarker c.id | none => -1000000
    s!"{g win}:{g (win + 2) - g (win - 2)}:{(g (win + 3) - g (win - 1)) - (g (win + 1) - g (win - 3))}"

def ringLine (win cp nb ncep : Nat) (b e : Bool) : String :=
  let r := featLive win noSkip (ringState cp nb) 0 ncep b e 0
  let changed := (List.range SSVerif.Generated.livebuf).filterMap fun i =>
    match r.st.cepbuf.getD i none with
    | some c => if c.id = 1000 + i then none else some s!"{i}:{c.id}"
    | none => some s!"{i}:_"
  let feats := (List.range r.nfeat).map fun i => showRingFeat win (r.st.featBuf.getD i none)
  s!"ring rv={r.nfeat} used={r.used} bp={r.st.bufpos} cp={r.st.curpos} w={if changed.isEmpty then "-" else ",".intercalate changed} f={if feats.isEmpty then "-" else ",".intercalate feats}" ++
  (match r.st.fault with | none => "" | some m => " FAULT=" ++ m.replace " " "_")

def step (d : D) (ws : List String) : D × String :=
  match ws with
  | ["ring", cp, nb, ncep, b, e] =>
    match cp.toNat?, nb.toNat?, ncep.toNat? with
    | some cp, some nb, some ncep => (d, ringLine d.win cp nb ncep (b != "0") (e != "0"))
    | _, _, _ => (d, "bad-op")
  | ["init", w, c, f] =>
    match w.toNat?, c.toNat? with
    | some w, some c =>
      let d' : D := { d with s := St.init c, win := w, fix := f != "0", nS := 0, nA := 0 }
      emit d' d'.s
    | _, _ => (d, "bad-op")
  | ["start", c] =>
    match c.toNat? with
    | some c =>
      -- `wf0`: the structural facts `WF0` (Boolean form, `Model/AcmodWF.lean`; `wf0b_iff` in `Props/C07Hist.lean`) on the
      -- state the history so far has left behind, i.e. the "prior decoder state" of this utterance
      let r := emit { d with nS := 0, nA := 0, fe := SSVerif.FeBuf.start, pos := 0 } (startUtt { d.s with cmnFrames := c, cmnMoved := false })
      (r.1, r.2 ++ s!" wf0={if wf0b d.s then 1 else 0}")
    | none => (d, "bad-op")
  | ["cfg", a, b] =>
    match a.toNat?, b.toNat? with
    | some a, some b => ({ d with cfg := ⟨a, b, true⟩ }, "cfg ok")
    | _, _ => (d, "bad-op")
  | ["ps", ns, n] =>
    match n.toNat? with
    | some n =>
      -- the composed model computes the front-end responses; the value returned is the one the counter model
      -- computes on the response-level call they amount to
      let r := SSVerif.AcmodFe.stepS d.cfg d.fix d.win noSkip ⟨d.s, d.fe, [], d.pos, false, []⟩ (.process (ns != "0") n)
      withRv (showRv (SSVerif.DecRet.stepRv d.fix d.win noSkip d.s r.2)) (emitS d r.1)
    | none => (d, "bad-op")
  | ["ends"] =>
    let r := SSVerif.AcmodFe.decEndS d.cfg d.fix d.win noSkip ⟨d.s, d.fe, [], d.pos, false, []⟩
    withRv (showEndRv (SSVerif.DecRet.decEndRv d.fix d.win noSkip d.s r.2)) (emitS d r.1)
  | ["p", ns, rs] =>
    match parseResps rs with
    | some rs =>
      withRv (showRv (SSVerif.DecRet.stepRv d.fix d.win noSkip d.s (.process (ns != "0") rs)))
        (emit d (SSVerif.AcmodBuf.step d.fix d.win noSkip d.s (.process (ns != "0") rs)))
    | none => (d, "bad-op")
  | ["pfull", ns, rs] =>
    match parseFull rs with
    | some rs =>
      withRv (showRv (SSVerif.DecRet.stepRv d.fix d.win noSkip d.s (.processFull (ns != "0") rs)))
        (emit d (SSVerif.AcmodBuf.step d.fix d.win noSkip d.s (.processFull (ns != "0") rs)))
    | none => (d, "bad-op")
  | ["q"] => emit d (SSVerif.AcmodBuf.step d.fix d.win noSkip d.s .query)
  | ["align", r, n] =>
    match n.toNat? with
    | some n => emit d (SSVerif.AcmodBuf.step d.fix d.win noSkip d.s (.align (if r != "0" then some n else none)))
    | none => (d, "bad-op")
  | ["end", t] =>
    withRv (showEndRv (SSVerif.DecRet.decEndRv d.fix d.win noSkip d.s (t != "0"))) (emit d (decEnd d.fix d.win noSkip d.s (t != "0")))
  | _ => (d, "bad-op")

def main : IO Unit :=
  runLoop step { s := St.init 0, win := 3, fix := true, cfg := ⟨410, 160, true⟩, fe := SSVerif.FeBuf.start, pos := 0, nS := 0, nA := 0 }

end Driver.C07
