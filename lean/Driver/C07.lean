import SSVerif.Model.AcmodBuf
import Driver.Util
/-! driver sub-command `c07`: replays a decoder call pattern (with the front-end responses the real run
    met) on the acmod / live-feature index model and prints the counters and the windows handed to the
    searches in the format of `harness/h_c07.c` -/
namespace Driver.C07
open SSVerif.AcmodBuf Driver

structure D where
  s : St
  win : Nat
  fix : Bool
  nS : Nat   -- searched entries already printed
  nA : Nat   -- alignment passes already printed

def showCep : Option Cep → String
  | none => "_"
  | some c => toString c.id ++ (if c.ncmn = 1 then "" else s!"n{c.ncmn}") ++ (if c.moved then "m" else "")

def showFeat : Option Feat → String
  | none => "?"
  | some f => ".".intercalate (f.map showCep)

def showEntries (tag : String) (l : List (Nat × Option Feat)) : List String :=
  l.map fun e => s!"{tag}{e.1}:{showFeat e.2}"

def stNum : UState → Nat
  | .idle => 0 | .started => 1 | .processing => 2 | .ended => 3

def showSt (s : St) : String :=
  s!"st={stNum s.state} nmfc={s.nMfcFrame} mfco={s.mfcOutidx} nfeat={s.nFeatFrame} fo={s.featOutidx} of={s.outputFrame} alloc={s.nFeatAlloc} grow={if s.growFeat then 1 else 0} bp={s.bufpos} cp={s.curpos} malloc={s.nMfcAlloc}" ++
  (match s.fault with | none => "" | some m => " FAULT=" ++ m.replace " " "_")

/-- print what was handed to the searches since the last line, then the counters -/
def emit (d : D) (s : St) : D × String :=
  let newS := showEntries "s" (s.searched.drop d.nS)
  let newA := (s.aligned.drop d.nA).flatMap (showEntries "a")
  let all := newS ++ newA
  ({ d with s := s, nS := s.searched.length, nA := s.aligned.length },
   "sc=" ++ (if all.isEmpty then "-" else ",".intercalate all) ++ " | " ++ showSt s ++ s!" n={s.nextId} cmnframes={s.cmnFrames} moved={if s.cmnMoved then 1 else 0}")

def parseResps (w : String) : Option (List FeResp) :=
  if w = "-" then some [] else
  (w.splitOn ",").mapM fun t =>
    match t.splitOn ":" with
    | [a, b] => match a.toNat?, b.toNat? with
      | some n, some m => some ⟨n, m != 0⟩
      | _, _ => none
    | _ => none

def parseFull (w : String) : Option (List FullResp) :=
  if w = "-" then some [] else
  (w.splitOn ",").mapM fun t =>
    match (t.splitOn ":").map String.toNat? with
    | [some e, some n, some m, some tl] => some ⟨e, n, m != 0, tl != 0⟩
    | _ => none

def noSkip : Nat → Bool := fun _ => false

def step (d : D) (ws : List String) : D × String :=
  match ws with
  | ["init", w, c, f] =>
    match w.toNat?, c.toNat? with
    | some w, some c =>
      let d' : D := { s := St.init c, win := w, fix := f != "0", nS := 0, nA := 0 }
      emit d' d'.s
    | _, _ => (d, "bad-op")
  | ["start", c] =>
    match c.toNat? with
    | some c => emit { d with nS := 0, nA := 0 } (startUtt { d.s with cmnFrames := c, cmnMoved := false })
    | none => (d, "bad-op")
  | ["p", ns, rs] =>
    match parseResps rs with
    | some rs => emit d (SSVerif.AcmodBuf.step d.fix d.win noSkip d.s (.process (ns != "0") rs))
    | none => (d, "bad-op")
  | ["pfull", ns, rs] =>
    match parseFull rs with
    | some rs => emit d (SSVerif.AcmodBuf.step d.fix d.win noSkip d.s (.processFull (ns != "0") rs))
    | none => (d, "bad-op")
  | ["q"] => emit d (SSVerif.AcmodBuf.step d.fix d.win noSkip d.s .query)
  | ["align", r, n] =>
    match n.toNat? with
    | some n => emit d (SSVerif.AcmodBuf.step d.fix d.win noSkip d.s (.align (if r != "0" then some n else none)))
    | none => (d, "bad-op")
  | ["end", t] => emit d (decEnd d.fix d.win noSkip d.s (t != "0"))
  | _ => (d, "bad-op")

def main : IO Unit :=
  runLoop step { s := St.init 0, win := 3, fix := true, nS := 0, nA := 0 }

end Driver.C07
