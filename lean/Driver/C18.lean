import SSVerif.Model.Ranges
import Driver.Util
/-! driver sub-command `c18`: replays the integer ops of harness/h_c18.c (`int` mode) on the model -/
namespace Driver.C18
open SSVerif.Ranges Driver

inductive HSt where
  | none
  | h3 (tp : List (List Int)) (ids : List Int) (h : H3)
  | h5 (tp : List (List Int)) (ids : List Int) (h : H5)

structure St where
  tab : List Nat := []
  hmm : HSt := .none
  cov : List String := []

def addCov (s : St) (tags : List String) : St :=
  { s with cov := tags.foldl (fun acc t => if acc.contains t then acc else t :: acc) s.cov }

/-- which branches of `hmm3Step` an input takes (re-evaluates the model's own block functions; coverage only) -/
def tags3 (tp : Nat → Nat → Nat) (c0 c1 c2 : Int) (h : H3) : List String :=
  let s2 := h.s2 + -c2
  let s1 := h.s1 + -c1
  let s0 := h.s0 + -c0
  let a := exit3 tp s1 s2 h
  let t0 := s2 + tprob tp 2 2
  let t1 := s1 + tprob tp 1 2
  let t2 := if tprob tp 0 2 > SSVerif.Generated.Ranges.tmatWorstScore then s0 + tprob tp 0 2 else a.t2
  let p := pick3 t0 t1 t2 0 1 2
  [ if s1 > WORST then "hmm3.exit.evaluated" else "hmm3.exit.skipped(s1<=WORST)",
    if tprob tp 1 3 > SSVerif.Generated.Ranges.tmatWorstScore then "hmm3.skip1->3.present" else "hmm3.skip1->3.absent",
    if tprob tp 0 2 > SSVerif.Generated.Ranges.tmatWorstScore then "hmm3.skip0->2.present" else
      (if a.t2 = SSVerif.Generated.Ranges.intMin then "hmm3.skip0->2.absent(t2=INT_MIN)" else "hmm3.skip0->2.absent(t2 stale from exit block)"),
    if s1 > WORST ∧ a.out = WORST then "hmm3.exit.clamped" else "hmm3.exit.not-clamped",
    if p.2 = 0 then "hmm3.s2.from-self" else if p.2 = 1 then "hmm3.s2.from-prev" else "hmm3.s2.from-skip",
    if p.1 < WORST then "hmm3.s2.clamped" else "hmm3.s2.not-clamped",
    if s1 + tprob tp 1 1 > s0 + tprob tp 0 1 then "hmm3.s1.from-self" else "hmm3.s1.from-prev",
    if (into1 tp s0 s1 0 0).s = WORST then "hmm3.s1.clamped-or-at-WORST" else "hmm3.s1.above-WORST",
    if s0 + tprob tp 0 0 < WORST then "hmm3.s0.clamped" else "hmm3.s0.not-clamped" ]

def tags5 (tp : Nat → Nat → Nat) (c0 c1 c2 c3 c4 : Int) (h : H5) : List String :=
  let s4 := h.s4 + -c4
  let s3 := h.s3 + -c3
  let s2 := h.s2 + -c2
  let s1 := h.s1 + -c1
  let s0 := h.s0 + -c0
  let p4 := pick3 (s4 + tprob tp 4 4) (s3 + tprob tp 3 4) (s2 + tprob tp 2 4) 0 1 2
  let p3 := pick3 (s3 + tprob tp 3 3) (s2 + tprob tp 2 3) (s1 + tprob tp 1 3) 0 1 2
  let p2 := pick3 (s2 + tprob tp 2 2) (s1 + tprob tp 1 2) (s0 + tprob tp 0 2) 0 1 2
  [ if s3 > WORST then "hmm5.exit.evaluated" else "hmm5.exit.skipped(s3<=WORST)",
    if s3 > WORST ∧ (exit5 tp s3 s4 h).out = WORST then "hmm5.exit.clamped" else "hmm5.exit.not-clamped",
    if s2 > WORST then s!"hmm5.s4.evaluated.from-{p4.2}" else "hmm5.s4.skipped(s2<=WORST)",
    if s2 > WORST ∧ p4.1 < WORST then "hmm5.s4.clamped" else "hmm5.s4.not-clamped",
    if s1 > WORST then s!"hmm5.s3.evaluated.from-{p3.2}" else "hmm5.s3.skipped(s1<=WORST)",
    if s1 > WORST ∧ p3.1 < WORST then "hmm5.s3.clamped" else "hmm5.s3.not-clamped",
    s!"hmm5.s2.from-{p2.2}",
    if p2.1 < WORST then "hmm5.s2.clamped" else "hmm5.s2.not-clamped",
    if s1 + tprob tp 1 1 > s0 + tprob tp 0 1 then "hmm5.s1.from-self" else "hmm5.s1.from-prev",
    if s0 + tprob tp 0 0 < WORST then "hmm5.s0.clamped" else "hmm5.s0.not-clamped" ]

/-- branches of the normalisation / evaluation of one PTM case -/
def tagsPtm (active : List Bool) (t t1 : TopTab) (r : PtmOut) (m : Mixw) (compall : Bool) : List String :=
  let raw := (active.zip t).flatMap fun p => if p.1 then p.2.flatMap (fun l => l.map (·.score)) else []
  let nrm := (active.zip t1).flatMap fun p => if p.1 then p.2.flatMap (fun l => l.map (·.score)) else []
  [ if nrm.any (· = SSVerif.Generated.Ranges.maxNegAscr) then "ptm.norm.clamped-at-MAX_NEG_ASCR" else "ptm.norm.no-clamp",
    if nrm.any (fun v => 0 < v ∧ v < SSVerif.Generated.Ranges.maxNegAscr) then "ptm.norm.strictly-inside" else "ptm.norm.only-0-or-clamp",
    if raw.any (· = SSVerif.Generated.Ranges.int32Min) then "ptm.raw.MAX_NEG_INT32-density" else "ptm.raw.ordinary",
    if r.topn != t1 then "ptm.eval.knock-out-of-inactive-codebook" else "ptm.eval.no-knock-out",
    if m.cb.isSome then "ptm.mixw.4bit" else "ptm.mixw.8bit",
    if compall then "ptm.all-senones" else "ptm.delta-list",
    if r.best = SSVerif.Generated.Ranges.int32Max then "ptm.eval.nothing-evaluated(best=MAX_INT32)" else
      (if r.best < 0 then "ptm.eval.best<0" else if r.best = 0 then "ptm.eval.best=0" else "ptm.eval.best>0") ]


def tabFn (s : St) : Nat → Nat := fun d => s.tab.getD d 0

def ints (ws : List String) : Option (List Int) := ws.mapM parseInt

def showInts (l : List Int) : String := sepBy " " (l.map toString)

/-- split `n` numbers off the front -/
def cut (n : Nat) (l : List Int) : Option (List Int × List Int) :=
  if l.length < n then none else some (l.take n, l.drop n)

def chunks (k : Nat) : Nat → List Int → List (List Int)
  | 0, _ => []
  | n + 1, l => l.take k :: chunks k n (l.drop k)

def fn2 (rows : List (List Int)) : Nat → Nat → Nat := fun i j => ((rows.getD i []).getD j 0).toNat

def show3 (r : H3) : String :=
  s!"r {r.s0} {r.s1} {r.s2} {r.out} {r.best} | {r.h0} {r.h1} {r.h2} {r.hout}"
def show5 (r : H5) : String :=
  s!"r {r.s0} {r.s1} {r.s2} {r.s3} {r.s4} {r.out} {r.best} | {r.h0} {r.h1} {r.h2} {r.h3} {r.h4} {r.hout}"

def opHmm (a : List Int) : Option (HSt × String) := do
  let n := (a.getD 0 0).toNat
  let mpx := a.getD 1 0
  let nsen := (a.getD 2 0).toNat
  let a := a.drop 3
  if mpx ≠ 0 then none
  let (tpl, a) ← cut (n * (n + 1)) a
  let (ids, a) ← cut n a
  let (sens, a) ← cut nsen a
  let (sc, a) ← cut n a
  let (outv, a) ← cut 1 a
  let (hi, a) ← cut n a
  let (ho, a) ← cut 1 a
  if !a.isEmpty then none
  let rows := chunks (n + 1) n tpl
  let c := fun (i : Nat) => sens.getD (ids.getD i 0).toNat 0
  let g := fun (l : List Int) (i : Nat) => l.getD i 0
  if n = 3 then
    let h : H3 := { s0 := g sc 0, s1 := g sc 1, s2 := g sc 2, out := g outv 0,
                    h0 := g hi 0, h1 := g hi 1, h2 := g hi 2, hout := g ho 0, best := 0 }
    let r := (hmm3Step (fn2 rows) (c 0) (c 1) (c 2) h).1
    some (.h3 rows ids r, show3 r ++ " #" ++ sepBy "," (tags3 (fn2 rows) (c 0) (c 1) (c 2) h))
  else if n = 5 then
    let h : H5 := { s0 := g sc 0, s1 := g sc 1, s2 := g sc 2, s3 := g sc 3, s4 := g sc 4, out := g outv 0,
                    h0 := g hi 0, h1 := g hi 1, h2 := g hi 2, h3 := g hi 3, h4 := g hi 4, hout := g ho 0, best := 0 }
    let r := (hmm5Step (fn2 rows) (c 0) (c 1) (c 2) (c 3) (c 4) h).1
    some (.h5 rows ids r, show5 r ++ " #" ++ sepBy "," (tags5 (fn2 rows) (c 0) (c 1) (c 2) (c 3) (c 4) h))
  else none

/-- `hmmc enter score hist senscores…`: next frame via the model's own `Frame3.apply` / `Frame5.apply` -/
def opHmmc (st : HSt) (a : List Int) : Option (HSt × String) := do
  let ent := if a.getD 0 0 ≠ 0 then some (a.getD 1 0, a.getD 2 0) else none
  let sens := a.drop 3
  match st with
  | .none => none
  | .h3 rows ids h =>
    let c := fun (i : Nat) => sens.getD (ids.getD i 0).toNat 0
    let r := (Frame3.apply (fn2 rows) h { enter := ent, c0 := c 0, c1 := c 1, c2 := c 2 }).1
    let h' := match ent with | some (sc, hi) => h.enter sc hi | none => h
    some (.h3 rows ids r, show3 r ++ " #" ++ sepBy "," (tags3 (fn2 rows) (c 0) (c 1) (c 2) h'))
  | .h5 rows ids h =>
    let c := fun (i : Nat) => sens.getD (ids.getD i 0).toNat 0
    let r := (Frame5.apply (fn2 rows) h { enter := ent, c0 := c 0, c1 := c 1, c2 := c 2, c3 := c 3, c4 := c 4 }).1
    let h' := match ent with | some (sc, hi) => h.enter sc hi | none => h
    some (.h5 rows ids r, show5 r ++ " #" ++ sepBy "," (tags5 (fn2 rows) (c 0) (c 1) (c 2) (c 3) (c 4) h'))

def mkTop (l : List Int) : List TopN :=
  (chunks 2 (l.length / 2) l).map fun p => { cw := (p.getD 0 0).toNat, score := p.getD 1 0 }

/-- reads `mixw` (8-bit or 4-bit clustered) for `nfeat × nden × width` -/
def readMixw (use4b : Bool) (nfeat nden nsen : Nat) (a : List Int) : Option (Mixw × List Int) := do
  if use4b then
    let (cb, a) ← cut 16 a
    let half := (nsen + 1) / 2
    let (w, a) ← cut (nfeat * nden * half) a
    let rows := chunks (nden * half) nfeat w
    some ({ cb := some (cb.map Int.toNat), w := rows.map fun r => (chunks half nden r).map (·.map Int.toNat) }, a)
  else
    let (w, a) ← cut (nfeat * nden * nsen) a
    let rows := chunks (nden * nsen) nfeat w
    some ({ cb := none, w := rows.map fun r => (chunks nsen nden r).map (·.map Int.toNat) }, a)

def opPtm (s : St) (a : List Int) : Option String := do
  let g := fun (i : Nat) => (a.getD i 0).toNat
  let (ngau, nfeat, topn, nsen, nden) := (g 0, g 1, g 2, g 3, g 4)
  let compall := a.getD 5 0 ≠ 0
  let use4b := a.getD 6 0 ≠ 0
  let a := a.drop 7
  let (s2c, a) ← cut nsen a
  let (act, a) ← cut ngau a
  let (tt, a) ← cut (ngau * nfeat * topn * 2) a
  let (m, a) ← readMixw use4b nfeat nden nsen a
  let (na, a) ← cut 1 a
  let (deltas, a) ← cut (na.getD 0 0).toNat a
  if !a.isEmpty then none
  let t : TopTab := (chunks (nfeat * topn * 2) ngau tt).map fun cbl => (chunks (topn * 2) nfeat cbl).map mkTop
  let active : List Bool := act.map fun x => decide (x ≠ 0)
  let t1 := ptmNorm active t
  let r := ptmSenoneEval (tabFn s) m (s2c.map Int.toNat) active t1 compall (deltas.map Int.toNat)
  let flat := r.topn.flatMap fun cbl => cbl.flatMap fun l => l.map (·.score)
  some (s!"s {showInts r.scores} | t {showInts flat}" ++ " #" ++ sepBy "," (tagsPtm active t t1 r m compall))

/-- `top topn nden | (cw score)×topn | density×nden` : eval_topn then eval_cb on one codebook / stream -/
def opTop (a : List Int) : Option String := do
  let topn := (a.getD 0 0).toNat
  let nden := (a.getD 1 0).toNat
  let a := a.drop 2
  let (tt, a) ← cut (topn * 2) a
  let (dens, a) ← cut nden a
  if !a.isEmpty then none
  let score := fun (cw : Nat) => densInt (dens.getD cw 0)
  let l1 := evalTopn score (mkTop tt)
  let l2 := evalCb (fun cw => dens.getD cw 0) nden l1
  let tags := [ if l1 != (mkTop tt).map (fun e => { e with score := score e.cw }) then "top.eval_topn.reordered" else "top.eval_topn.order-kept",
                if l2 != l1 then "top.eval_cb.inserted" else "top.eval_cb.nothing-inserted",
                if (l1.map (·.score)).eraseDups.length < l1.length then "top.ties" else "top.no-ties" ]
  some ("p " ++ showInts (l2.flatMap fun e => [(e.cw : Int), e.score]) ++ " #" ++ sepBy "," tags)

def opSemi (s : St) (a : List Int) : Option String := do
  let g := fun (i : Nat) => (a.getD i 0).toNat
  let (nfeat, topn, nsen, nden) := (g 0, g 1, g 2, g 3)
  let compall := a.getD 4 0 ≠ 0
  let use4b := a.getD 5 0 ≠ 0
  let a := a.drop 6
  let (beams, a) ← cut nfeat a
  let (tt, a) ← cut (nfeat * topn * 2) a
  let (m, a) ← readMixw use4b nfeat nden nsen a
  let (na, a) ← cut 1 a
  let (deltas, a) ← cut (na.getD 0 0).toNat a
  if !a.isEmpty then none
  let t := (chunks (topn * 2) nfeat tt).map mkTop
  let r := semiEval (tabFn s) m nsen beams t compall (deltas.map Int.toNat)
  let flat := r.topn.flatMap fun l => l.map (·.score)
  let u8 := m.cb.isSome && !compall
  let tags := [ if r.counts.any (· < topn) then "semi.norm.beam-break" else "semi.norm.full",
                if m.cb.isSome then "semi.mixw.4bit" else "semi.mixw.8bit",
                if compall then "semi.all-senones" else "semi.delta-list",
                if r.counts.any (· > 6) then "semi.generic-variant(topn>6)" else "semi.unrolled-variant",
                if u8 && r.counts.any (fun n => 1 ≤ n ∧ n ≤ 6) then "semi.4bit-unrolled(uint8 w_den)" else "semi.int-w_den",
                if r.scores.any (· < 0) then "semi.score<0" else "semi.score>=0" ]
  some (s!"s {showInts r.scores} | n {showInts (r.counts.map Int.ofNat)} | t {showInts flat}" ++ " #" ++ sepBy "," tags)

def step (s : St) (ws : List String) : St × String :=
  match ws with
  | [] => (s, "")
  | "tab" :: rest =>
    match ints rest with
    | some l => ({ s with tab := l.map Int.toNat }, "tab ok")
    | none => (s, "bad-op")
  | "hmm" :: rest =>
    match (ints rest).bind opHmm with
    | some (h, o) => ({ s with hmm := h }, o)
    | none => (s, "bad-op")
  | "hmmc" :: rest =>
    match (ints rest).bind (opHmmc s.hmm) with
    | some (h, o) => ({ s with hmm := h }, o)
    | none => (s, "bad-op")
  | "ptm" :: rest => (s, ((ints rest).bind (opPtm s)).getD "bad-op")
  | "semi" :: rest => (s, ((ints rest).bind (opSemi s)).getD "bad-op")
  | "top" :: rest => (s, ((ints rest).bind opTop).getD "bad-op")
  | _ => (s, "bad-op")

def main : IO Unit := runLoop step {}

end Driver.C18
