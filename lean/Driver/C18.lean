import SSVerif.Model.Ranges
import SSVerif.Model.RangesHmm
import SSVerif.Model.RangesSemi
import SSVerif.Model.CmnRepr
import Driver.Util
/-! driver sub-command `c18`: replays the integer ops of harness/h_c18.c (`int` mode) on the model -/
namespace Driver.C18
open SSVerif.Ranges Driver

inductive HSt where
  | none
  | h3 (tp : List (List Int)) (ids : List Int) (h : H3)
  | h5 (tp : List (List Int)) (ids : List Int) (h : H5)

/-- the HMM of the last `hmmx` op: transition rows, senone-sequence table, multiplex flag, state -/
inductive XSt where
  | none
  | m3 (tp : List (List Int)) (sseq : List (List Int)) (m : M3)
  | m5 (tp : List (List Int)) (sseq : List (List Int)) (m : M5)
  | any (tp : List (List Int)) (sseq : List (List Int)) (mpx : Bool) (h : HA)

structure St where
  tab : List Nat := []
  hmm : HSt := .none
  xhmm : XSt := .none
  cov : List String := []

def addCov (s : St) (tags : List String) : St :=
  { s with cov := tags.foldl (fun acc t => if acc.contains t then acc else t :: acc) s.cov }

/-- which branches of `hmm3Step` an input takes (re-evaluates the model's own block functions; coverage only) -/
def tags3 (tp : Nat → Nat → Nat) (c0 c1 c2 : Int) (h : H3) : List String :=
  let s2 := h.s2 + -c2
  let s1 := h.s1 + -c1
  let s0 := h.s0 + -c0
  let a := exit3 tp s1 s2 h
  let t0 := s2 + tprob tp 2 2
  let t1 := s1 + tprob tp 1 2
  let t2 := if tprob tp 0 2 > SSVerif.Generated.Ranges.tmatWorstScore then s0 + tprob tp 0 2 else a.t2
  let p := pick3 t0 t1 t2 0 1 2
  [ if s1 > WORST then "hmm3.exit.evaluated" else "hmm3.exit.skipped(s1<=WORST)",
    if tprob tp 1 3 > SSVerif.Generated.Ranges.tmatWorstScore then "hmm3.skip1->3.present" else "hmm3.skip1->3.absent",
    if tprob tp 0 2 > SSVerif.Generated.Ranges.tmatWorstScore then "hmm3.skip0->2.present" else
      (if a.t2 = SSVerif.Generated.Ranges.intMin then "hmm3.skip0->2.absent(t2=INT_MIN)" else "hmm3.skip0->2.absent(t2 stale from exit block)"),
    if s1 > WORST ∧ a.out = WORST then "hmm3.exit.clamped" else "hmm3.exit.not-clamped",
    if p.2 = 0 then "hmm3.s2.from-self" else if p.2 = 1 then "hmm3.s2.from-prev" else "hmm3.s2.from-skip",
    if p.1 < WORST then "hmm3.s2.clamped" else "hmm3.s2.not-clamped",
    if s1 + tprob tp 1 1 > s0 + tprob tp 0 1 then "hmm3.s1.from-self" else "hmm3.s1.from-prev",
    if (into1 tp s0 s1 0 0).s = WORST then "hmm3.s1.clamped-or-at-WORST" else "hmm3.s1.above-WORST",
    if s0 + tprob tp 0 0 < WORST then "hmm3.s0.clamped" else "hmm3.s0.not-clamped" ]

def tags5 (tp : Nat → Nat → Nat) (c0 c1 c2 c3 c4 : Int) (h : H5) : List String :=
  let s4 := h.s4 + -c4
  let s3 := h.s3 + -c3
  let s2 := h.s2 + -c2
  let s1 := h.s1 + -c1
  let s0 := h.s0 + -c0
  let p4 := pick3 (s4 + tprob tp 4 4) (s3 + tprob tp 3 4) (s2 + tprob tp 2 4) 0 1 2
  let p3 := pick3 (s3 + tprob tp 3 3) (s2 + tprob tp 2 3) (s1 + tprob tp 1 3) 0 1 2
  let p2 := pick3 (s2 + tprob tp 2 2) (s1 + tprob tp 1 2) (s0 + tprob tp 0 2) 0 1 2
  [ if s3 > WORST then "hmm5.exit.evaluated" else "hmm5.exit.skipped(s3<=WORST)",
    if s3 > WORST ∧ (exit5 tp s3 s4 h).out = WORST then "hmm5.exit.clamped" else "hmm5.exit.not-clamped",
    if s2 > WORST then s!"hmm5.s4.evaluated.from-{p4.2}" else "hmm5.s4.skipped(s2<=WORST)",
    if s2 > WORST ∧ p4.1 < WORST then "hmm5.s4.clamped" else "hmm5.s4.not-clamped",
    if s1 > WORST then s!"hmm5.s3.evaluated.from-{p3.2}" else "hmm5.s3.skipped(s1<=WORST)",
    if s1 > WORST ∧ p3.1 < WORST then "hmm5.s3.clamped" else "hmm5.s3.not-clamped",
    s!"hmm5.s2.from-{p2.2}",
    if p2.1 < WORST then "hmm5.s2.clamped" else "hmm5.s2.not-clamped",
    if s1 + tprob tp 1 1 > s0 + tprob tp 0 1 then "hmm5.s1.from-self" else "hmm5.s1.from-prev",
    if s0 + tprob tp 0 0 < WORST then "hmm5.s0.clamped" else "hmm5.s0.not-clamped" ]

/-- branches of the normalisation / evaluation of one PTM case -/
def tagsPtm (active : List Bool) (t t1 : TopTab) (r : PtmOut) (m : Mixw) (compall : Bool) : List String :=
  let raw := (active.zip t).flatMap fun p => if p.1 then p.2.flatMap (fun l => l.map (·.score)) else []
  let nrm := (active.zip t1).flatMap fun p => if p.1 then p.2.flatMap (fun l => l.map (·.score)) else []
  [ if nrm.any (· = SSVerif.Generated.Ranges.maxNegAscr) then "ptm.norm.clamped-at-MAX_NEG_ASCR" else "ptm.norm.no-clamp",
    if nrm.any (fun v => 0 < v ∧ v < SSVerif.Generated.Ranges.maxNegAscr) then "ptm.norm.strictly-inside" else "ptm.norm.only-0-or-clamp",
    if raw.any (· = SSVerif.Generated.Ranges.int32Min) then "ptm.raw.MAX_NEG_INT32-density" else "ptm.raw.ordinary",
    if r.topn != t1 then "ptm.eval.knock-out-of-inactive-codebook" else "ptm.eval.no-knock-out",
    if m.cb.isSome then "ptm.mixw.4bit" else "ptm.mixw.8bit",
    if compall then "ptm.all-senones" else "ptm.delta-list",
    if r.best = SSVerif.Generated.Ranges.int32Max then "ptm.eval.nothing-evaluated(best=MAX_INT32)" else
      (if r.best < 0 then "ptm.eval.best<0" else if r.best = 0 then "ptm.eval.best=0" else "ptm.eval.best>0") ]


def tabFn (s : St) : Nat → Nat := fun d => s.tab.getD d 0

def ints (ws : List String) : Option (List Int) := ws.mapM parseInt

def showInts (l : List Int) : String := sepBy " " (l.map toString)

/-- split `n` numbers off the front -/
def cut (n : Nat) (l : List Int) : Option (List Int × List Int) :=
  if l.length < n then none else some (l.take n, l.drop n)

def chunks (k : Nat) : Nat → List Int → List (List Int)
  | 0, _ => []
  | n + 1, l => l.take k :: chunks k n (l.drop k)

def fn2 (rows : List (List Int)) : Nat → Nat → Nat := fun i j => ((rows.getD i []).getD j 0).toNat

def show3 (r : H3) : String :=
  s!"r {r.s0} {r.s1} {r.s2} {r.out} {r.best} | {r.h0} {r.h1} {r.h2} {r.hout}"
def show5 (r : H5) : String :=
  s!"r {r.s0} {r.s1} {r.s2} {r.s3} {r.s4} {r.out} {r.best} | {r.h0} {r.h1} {r.h2} {r.h3} {r.h4} {r.hout}"

def opHmm (a : List Int) : Option (HSt × String) := do
  let n := (a.getD 0 0).toNat
  let mpx := a.getD 1 0
  let nsen := (a.getD 2 0).toNat
  let a := a.drop 3
  if mpx ≠ 0 then none
  let (tpl, a) ← cut (n * (n + 1)) a
  let (ids, a) ← cut n a
  let (sens, a) ← cut nsen a
  let (sc, a) ← cut n a
  let (outv, a) ← cut 1 a
  let (hi, a) ← cut n a
  let (ho, a) ← cut 1 a
  if !a.isEmpty then none
  let rows := chunks (n + 1) n tpl
  let c := fun (i : Nat) => sens.getD (ids.getD i 0).toNat 0
  let g := fun (l : List Int) (i : Nat) => l.getD i 0
  if n = 3 then
    let h : H3 := { s0 := g sc 0, s1 := g sc 1, s2 := g sc 2, out := g outv 0,
                    h0 := g hi 0, h1 := g hi 1, h2 := g hi 2, hout := g ho 0, best := 0 }
    let r := (hmm3Step (fn2 rows) (c 0) (c 1) (c 2) h).1
    some (.h3 rows ids r, show3 r ++ " #" ++ sepBy "," (tags3 (fn2 rows) (c 0) (c 1) (c 2) h))
  else if n = 5 then
    let h : H5 := { s0 := g sc 0, s1 := g sc 1, s2 := g sc 2, s3 := g sc 3, s4 := g sc 4, out := g outv 0,
                    h0 := g hi 0, h1 := g hi 1, h2 := g hi 2, h3 := g hi 3, h4 := g hi 4, hout := g ho 0, best := 0 }
    let r := (hmm5Step (fn2 rows) (c 0) (c 1) (c 2) (c 3) (c 4) h).1
    some (.h5 rows ids r, show5 r ++ " #" ++ sepBy "," (tags5 (fn2 rows) (c 0) (c 1) (c 2) (c 3) (c 4) h))
  else none

/-- `hmmc enter score hist senscores…`: next frame via the model's own `Frame3.apply` / `Frame5.apply` -/
def opHmmc (st : HSt) (a : List Int) : Option (HSt × String) := do
  let ent := if a.getD 0 0 ≠ 0 then some (a.getD 1 0, a.getD 2 0) else none
  let sens := a.drop 3
  match st with
  | .none => none
  | .h3 rows ids h =>
    let c := fun (i : Nat) => sens.getD (ids.getD i 0).toNat 0
    let r := (Frame3.apply (fn2 rows) h { enter := ent, c0 := c 0, c1 := c 1, c2 := c 2 }).1
    let h' := match ent with | some (sc, hi) => h.enter sc hi | none => h
    some (.h3 rows ids r, show3 r ++ " #" ++ sepBy "," (tags3 (fn2 rows) (c 0) (c 1) (c 2) h'))
  | .h5 rows ids h =>
    let c := fun (i : Nat) => sens.getD (ids.getD i 0).toNat 0
    let r := (Frame5.apply (fn2 rows) h { enter := ent, c0 := c 0, c1 := c 1, c2 := c 2, c3 := c 3, c4 := c 4 }).1
    let h' := match ent with | some (sc, hi) => h.enter sc hi | none => h
    some (.h5 rows ids r, show5 r ++ " #" ++ sepBy "," (tags5 (fn2 rows) (c 0) (c 1) (c 2) (c 3) (c 4) h'))

def mkTop (l : List Int) : List TopN :=
  (chunks 2 (l.length / 2) l).map fun p => { cw := (p.getD 0 0).toNat, score := p.getD 1 0 }

/-- reads `mixw` (8-bit or 4-bit clustered) for `nfeat × nden × width` -/
def readMixw (use4b : Bool) (nfeat nden nsen : Nat) (a : List Int) : Option (Mixw × List Int) := do
  if use4b then
    let (cb, a) ← cut 16 a
    let half := (nsen + 1) / 2
    let (w, a) ← cut (nfeat * nden * half) a
    let rows := chunks (nden * half) nfeat w
    some ({ cb := some (cb.map Int.toNat), w := rows.map fun r => (chunks half nden r).map (·.map Int.toNat) }, a)
  else
    let (w, a) ← cut (nfeat * nden * nsen) a
    let rows := chunks (nden * nsen) nfeat w
    some ({ cb := none, w := rows.map fun r => (chunks nsen nden r).map (·.map Int.toNat) }, a)

def opPtm (s : St) (a : List Int) : Option String := do
  let g := fun (i : Nat) => (a.getD i 0).toNat
  let (ngau, nfeat, topn, nsen, nden) := (g 0, g 1, g 2, g 3, g 4)
  let compall := a.getD 5 0 ≠ 0
  let use4b := a.getD 6 0 ≠ 0
  let a := a.drop 7
  let (s2c, a) ← cut nsen a
  let (act, a) ← cut ngau a
  let (tt, a) ← cut (ngau * nfeat * topn * 2) a
  let (m, a) ← readMixw use4b nfeat nden nsen a
  let (na, a) ← cut 1 a
  let (deltas, a) ← cut (na.getD 0 0).toNat a
  if !a.isEmpty then none
  let t : TopTab := (chunks (nfeat * topn * 2) ngau tt).map fun cbl => (chunks (topn * 2) nfeat cbl).map mkTop
  let active : List Bool := act.map fun x => decide (x ≠ 0)
  let t1 := ptmNorm active t
  let r := ptmSenoneEval (tabFn s) m (s2c.map Int.toNat) active t1 compall (deltas.map Int.toNat)
  let flat := r.topn.flatMap fun cbl => cbl.flatMap fun l => l.map (·.score)
  some (s!"s {showInts r.scores} | t {showInts flat}" ++ " #" ++ sepBy "," (tagsPtm active t t1 r m compall))

/-- `top topn nden | (cw score)×topn | density×nden` : eval_topn then eval_cb on one codebook / stream -/
def opTop (a : List Int) : Option String := do
  let topn := (a.getD 0 0).toNat
  let nden := (a.getD 1 0).toNat
  let a := a.drop 2
  let (tt, a) ← cut (topn * 2) a
  let (dens, a) ← cut nden a
  if !a.isEmpty then none
  let score := fun (cw : Nat) => densInt (dens.getD cw 0)
  let l1 := evalTopn score (mkTop tt)
  let l2 := evalCb (fun cw => dens.getD cw 0) nden l1
  let tags := [ if l1 != (mkTop tt).map (fun e => { e with score := score e.cw }) then "top.eval_topn.reordered" else "top.eval_topn.order-kept",
                if l2 != l1 then "top.eval_cb.inserted" else "top.eval_cb.nothing-inserted",
                if (l1.map (·.score)).eraseDups.length < l1.length then "top.ties" else "top.no-ties" ]
  some ("p " ++ showInts (l2.flatMap fun e => [(e.cw : Int), e.score]) ++ " #" ++ sepBy "," tags)

def opSemi (s : St) (a : List Int) : Option String := do
  let g := fun (i : Nat) => (a.getD i 0).toNat
  let (nfeat, topn, nsen, nden) := (g 0, g 1, g 2, g 3)
  let compall := a.getD 4 0 ≠ 0
  let use4b := a.getD 5 0 ≠ 0
  let a := a.drop 6
  let (beams, a) ← cut nfeat a
  let (tt, a) ← cut (nfeat * topn * 2) a
  let (m, a) ← readMixw use4b nfeat nden nsen a
  let (na, a) ← cut 1 a
  let (deltas, a) ← cut (na.getD 0 0).toNat a
  if !a.isEmpty then none
  let t := (chunks (topn * 2) nfeat tt).map mkTop
  let r := semiEval (tabFn s) m nsen beams t compall (deltas.map Int.toNat)
  let flat := r.topn.flatMap fun l => l.map (·.score)
  let u8 := m.cb.isSome && !compall
  let tags := [ if r.counts.any (· < topn) then "semi.norm.beam-break" else "semi.norm.full",
                if m.cb.isSome then "semi.mixw.4bit" else "semi.mixw.8bit",
                if compall then "semi.all-senones" else "semi.delta-list",
                if r.counts.any (· > 6) then "semi.generic-variant(topn>6)" else "semi.unrolled-variant",
                if u8 && r.counts.any (fun n => 1 ≤ n ∧ n ≤ 6) then "semi.4bit-unrolled(uint8 w_den)" else "semi.int-w_den",
                if r.scores.any (· < 0) then "semi.score<0" else "semi.score>=0" ]
  some (s!"s {showInts r.scores} | n {showInts (r.counts.map Int.ofNat)} | t {showInts flat}" ++ " #" ++ sepBy "," tags)

/-! ### C18More: multiplex / any-topology evaluators, renormalisation -/

/-- `senscore[sseq[id][st]]` (raw) for the multiplex 3/5-state evaluators -/
def senMpx (sseq : List (List Int)) (sens : List Int) : Int → Nat → Int :=
  fun id st => sens.getD ((sseq.getD id.toNat []).getD st 0).toNat 0

/-- `hmm_senscr(hmm, st)` for the id held in `senid[st]` (hmm.h:200-209): the value that is ADDED -/
def senAny (mpx : Bool) (sseq : List (List Int)) (sens : List Int) : Int → Nat → Int :=
  fun id st =>
    if id = BAD then WORST
    else
      let sid := if mpx then (sseq.getD id.toNat []).getD st 0 else id
      if sid = BAD then WORST else -(sens.getD sid.toNat 0)

def showX (sc : List Int) (out best : Int) (hist : List Int) (hout : Int) (ids : List Int) : String :=
  s!"r {showInts sc} {out} {best} | {showInts hist} {hout} | {showInts ids}"

def showM3 (m : M3) : String :=
  showX [m.h.s0, m.h.s1, m.h.s2] m.h.out m.h.best [m.h.h0, m.h.h1, m.h.h2] m.h.hout [m.i0, m.i1, m.i2]
def showM5 (m : M5) : String :=
  showX [m.h.s0, m.h.s1, m.h.s2, m.h.s3, m.h.s4] m.h.out m.h.best [m.h.h0, m.h.h1, m.h.h2, m.h.h3, m.h.h4] m.h.hout
    [m.i0, m.i1, m.i2, m.i3, m.i4]
def showA (h : HA) : String := showX h.sc h.out h.best h.hist h.hout h.ids

def tagsM (n : Nat) (ids ids' : List Int) (sc sc' : List Int) : List String :=
  [ s!"mpx{n}." ++ (if ids.any (· = BAD) then "some-state-BAD_SSID" else "all-states-have-ssid"),
    s!"mpx{n}." ++ (if ids' != ids then "ssid-propagated" else "ssid-unchanged"),
    s!"mpx{n}." ++ (if sc'.any (· = WORST) then "some-score-at-WORST" else "all-scores-live"),
    s!"mpx{n}." ++ (if sc.any (fun x => x ≠ WORST ∧ x < WORST + 40000) then "score-near-WORST" else "scores-far-from-WORST") ]

def tagsA (mpx : Bool) (h h' : HA) (c : Int → Nat → Int) : List String :=
  let n := h.sc.length
  [ s!"any{n}." ++ (if mpx then "mpx" else "non-mpx"),
    "any." ++ (if h'.sc.getD 0 0 < WORST then "entry-state-below-WORST" else "entry-state>=WORST"),
    "any." ++ (if (h'.sc.drop 1).any (· < WORST) then "other-state-below-WORST(by<=254)" else "other-states>=WORST"),
    "any." ++ (if (List.range n).any (fun i => c (h.ids.getD i 0) i = WORST) then "BAD_SENID" else "all-senids-valid"),
    "any." ++ (if h'.hist != h.hist then "history-moved" else "history-kept"),
    "any." ++ (if h'.ids != h.ids then "senid-propagated" else "senid-kept"),
    "any." ++ (if h'.out = WORST then "exit-at-WORST" else "exit-live") ]

def opHmmx (a : List Int) : Option (XSt × String) := do
  let n := (a.getD 0 0).toNat
  let mpx := a.getD 1 0 ≠ 0
  let nsen := (a.getD 2 0).toNat
  let nss := (a.getD 3 0).toNat
  let a := a.drop 4
  let (tpl, a) ← cut (n * (n + 1)) a
  let (sq, a) ← cut (nss * n) a
  let (ids, a) ← cut n a
  let (sens, a) ← cut nsen a
  let (sc, a) ← cut n a
  let (outv, a) ← cut 1 a
  let (hi, a) ← cut n a
  let (ho, a) ← cut 1 a
  if !a.isEmpty then none
  let rows := chunks (n + 1) n tpl
  let sseq := chunks n nss sq
  let g := fun (l : List Int) (i : Nat) => l.getD i 0
  if mpx ∧ n = 3 then
    let m : M3 := { h := { s0 := g sc 0, s1 := g sc 1, s2 := g sc 2, out := g outv 0,
                           h0 := g hi 0, h1 := g hi 1, h2 := g hi 2, hout := g ho 0, best := 0 },
                    i0 := g ids 0, i1 := g ids 1, i2 := g ids 2 }
    let r := (hmm3MpxStep (fn2 rows) (senMpx sseq sens) m).1
    some (.m3 rows sseq r, showM3 r ++ " #" ++ sepBy "," (tagsM 3 ids [r.i0, r.i1, r.i2] sc [r.h.s0, r.h.s1, r.h.s2]))
  else if mpx ∧ n = 5 then
    let m : M5 := { h := { s0 := g sc 0, s1 := g sc 1, s2 := g sc 2, s3 := g sc 3, s4 := g sc 4, out := g outv 0,
                           h0 := g hi 0, h1 := g hi 1, h2 := g hi 2, h3 := g hi 3, h4 := g hi 4, hout := g ho 0, best := 0 },
                    i0 := g ids 0, i1 := g ids 1, i2 := g ids 2, i3 := g ids 3, i4 := g ids 4 }
    let r := (hmm5MpxStep (fn2 rows) (senMpx sseq sens) m).1
    some (.m5 rows sseq r, showM5 r ++ " #" ++ sepBy "," (tagsM 5 ids [r.i0, r.i1, r.i2, r.i3, r.i4] sc
      [r.h.s0, r.h.s1, r.h.s2, r.h.s3, r.h.s4]))
  else if n = 3 ∨ n = 5 then none     -- non-multiplex 3/5 states: the `hmm` op
  else
    let h : HA := { sc := sc, hist := hi, out := g outv 0, hout := g ho 0, ids := ids, best := 0 }
    let c := senAny mpx sseq sens
    let r := (anytopoStep SSVerif.Generated.Ranges.anytopoClamp0 mpx (fn2 rows) c h).1
    some (.any rows sseq mpx r, showA r ++ " #" ++ sepBy "," (tagsA mpx h r c))

def opHmmxc (st : XSt) (a : List Int) : Option (XSt × String) := do
  let ent := if a.getD 0 0 ≠ 0 then some (a.getD 1 0, a.getD 2 0) else none
  let sens := a.drop 3
  match st with
  | .none => none
  | .m3 rows sseq m =>
    let r := (FrameM.apply3 (fn2 rows) m { enter := ent, sen := senMpx sseq sens }).1
    some (.m3 rows sseq r, showM3 r ++ " #" ++ sepBy "," (tagsM 3 [m.i0, m.i1, m.i2] [r.i0, r.i1, r.i2]
      [m.h.s0, m.h.s1, m.h.s2] [r.h.s0, r.h.s1, r.h.s2]))
  | .m5 rows sseq m =>
    let r := (FrameM.apply5 (fn2 rows) m { enter := ent, sen := senMpx sseq sens }).1
    some (.m5 rows sseq r, showM5 r ++ " #" ++ sepBy "," (tagsM 5 [m.i0, m.i1, m.i2, m.i3, m.i4] [r.i0, r.i1, r.i2, r.i3, r.i4]
      [m.h.s0, m.h.s1, m.h.s2, m.h.s3, m.h.s4] [r.h.s0, r.h.s1, r.h.s2, r.h.s3, r.h.s4]))
  | .any rows sseq mpx h =>
    let c := senAny mpx sseq sens
    let r := (FrameA.apply SSVerif.Generated.Ranges.anytopoClamp0 mpx (fn2 rows) h { enter := ent, c := c }).1
    let h' := match ent with | some (s, hi) => h.enter s hi | none => h
    some (.any rows sseq mpx r, showA r ++ " #" ++ sepBy "," (tagsA mpx h' r c))

/-- `hmmxrun n T sen tpself tpnext`: `T` frames of the model's own `anytopoStep` / `hmm3Step` / `hmm5Step` -/
def opHmmxrun (a : List Int) : Option String := do
  if a.length ≠ 5 then none
  let n := (a.getD 0 0).toNat
  let T := (a.getD 1 0).toNat
  let sen := a.getD 2 0
  let tps := (a.getD 3 0).toNat
  let tpn := (a.getD 4 0).toNat
  let tp : Nat → Nat → Nat := fun i j => if j = i then tps else if j = i + 1 then tpn else 255
  if n = 3 then
    let step := fun (p : H3 × Int) (_ : Nat) =>
      let r := (hmm3Step tp sen sen sen p.1).1
      (r, if r.s0 < p.2 then r.s0 else p.2)
    let r := (List.range T).foldl step (H3.clear.enter 0 1, 0)
    some s!"x {r.1.s0} {r.1.s1} {r.1.s2} {r.1.out} {if T = 0 then 0 else r.1.best} | {r.2}"
  else if n = 5 then
    let step := fun (p : H5 × Int) (_ : Nat) =>
      let r := (hmm5Step tp sen sen sen sen sen p.1).1
      (r, if r.s0 < p.2 then r.s0 else p.2)
    let r := (List.range T).foldl step (H5.clear.enter 0 1, 0)
    some s!"x {r.1.s0} {r.1.s1} {r.1.s2} {r.1.s3} {r.1.s4} {r.1.out} {if T = 0 then 0 else r.1.best} | {r.2}"
  else
    let c : Int → Nat → Int := fun _ _ => -sen
    let step := fun (p : HA × Int) (_ : Nat) =>
      let r := (anytopoStep SSVerif.Generated.Ranges.anytopoClamp0 false tp c p.1).1
      (r, if r.sc.getD 0 0 < p.2 then r.sc.getD 0 0 else p.2)
    let r := (List.range T).foldl step ((HA.clear n ((List.range n).map Int.ofNat)).enter 0 1, 0)
    some s!"x {showInts r.1.sc} {r.1.out} {if T = 0 then 0 else r.1.best} | {r.2}"

/-- `norm best n score.. out` -/
def opNorm (a : List Int) : Option String := do
  let b := a.getD 0 0
  let n := (a.getD 1 0).toNat
  let a := a.drop 2
  let (sc, a) ← cut n a
  let (outv, a) ← cut 1 a
  if !a.isEmpty then none
  let fired := renormFires b
  let f := fun x => if fired then normOne b x else x
  let tags := [ if fired then "norm.fired" else (if b > WORST then "norm.not-fired(best-above-margin)" else "norm.not-fired(best<=WORST)"),
                if fired ∧ (sc ++ outv).any (· ≤ WORST) then "norm.dead-score-kept" else "norm.no-dead-score",
                if fired ∧ (sc ++ outv).any (· > b) then "norm.stale-score-above-best(goes-positive)" else "norm.all-scores<=best" ]
  some (s!"n {if fired then 1 else 0} {showInts (sc.map f)} {f (outv.getD 0 0)}" ++ " #" ++ sepBy "," tags)

/-- `semif nfeat topn nsen nden compall use4b ds nframes | beams | mixw | nact deltas | per frame nfeat*nden densities`:
consecutive frames of the model's own `semiFrame`, starting from `semiInit` -/
def opSemif (s : St) (a : List Int) : Option String := do
  let g := fun (i : Nat) => (a.getD i 0).toNat
  let (nfeat, topn, nsen, nden) := (g 0, g 1, g 2, g 3)
  let compall := a.getD 4 0 ≠ 0
  let use4b := a.getD 5 0 ≠ 0
  let ds := g 6
  let nfr := g 7
  let a := a.drop 8
  let (beams, a) ← cut nfeat a
  let (m, a) ← readMixw use4b nfeat nden nsen a
  let (na, a) ← cut 1 a
  let (deltas, a) ← cut (na.getD 0 0).toNat a
  if a.length ≠ nfr * nfeat * nden ∨ ds = 0 then none
  let frames := chunks (nfeat * nden) nfr a
  let step := fun (p : List (List TopN) × List String × Nat × List String) (fr : List Int) =>
    let t := p.1
    let idx := p.2.2.1
    let rows := chunks nden nfeat fr
    let dens : Nat → Nat → Int := fun f cw => (rows.getD f []).getD cw 0
    let skip := idx % ds ≠ 0
    let r := semiFrame (tabFn s) m nsen beams dens nden skip t compall (deltas.map Int.toNat)
    let flat := r.topn.flatMap fun l => l.flatMap fun e => [(e.cw : Int), e.score]
    let dist := t.mapIdx fun f l => semiDist (dens f) nden skip l
    let tags := [ if skip then "semif.frame-skipped(eval_topn only)" else "semif.full-frame",
                  if dist.any (fun l => l.any (fun e => e.score = SSVerif.Generated.Ranges.int32Min)) then "semif.MAX_NEG_INT32-density" else "semif.ordinary-densities",
                  if r.counts.any (· < topn) then "semif.beam-break" else "semif.no-beam-break",
                  if (dist.zip t).any (fun q => q.1.map (·.cw) != q.2.map (·.cw)) then "semif.top-N-changed" else "semif.top-N-kept",
                  if r.scores.any (· < 0) then "semif.score<0" else "semif.score>=0" ]
    (r.topn, p.2.1 ++ [s!"f {showInts r.scores} | n {showInts (r.counts.map Int.ofNat)} | t {showInts flat}"], idx + 1,
     tags.foldl (fun acc x => if acc.contains x then acc else acc ++ [x]) p.2.2.2)
  let r := frames.foldl step (semiInit nfeat topn, [], 0, [])
  some (sepBy " ; " r.2.1 ++ " #" ++ sepBy "," r.2.2.2)

/-- `enter src lp best beam childIn childFrame frame`: the model's `enterScore` (fsg_search_pnode_trans) -/
def opEnter (a : List Int) : Option String := do
  if a.length ≠ 7 then none
  let g := fun (i : Nat) => a.getD i 0
  let r := enterScore (g 0) (g 1) (g 2) (g 3) (g 4)
  let thresh := r.2.getD 0 0
  let ns := r.2.getD 1 0
  let entered := decide (ns > thresh ∧ ns > g 4)
  let nf := g 6 + 1
  let tags := [ if entered then "enter.entered" else (if ns > thresh then "enter.not-better-than-child" else "enter.below-beam"),
                if entered ∧ g 5 < nf then "enter.child-activated" else "enter.child-not-activated" ]
  some (s!"e {r.1} {if entered then nf else g 5} {if entered ∧ g 5 < nf then 1 else 0}" ++ " #" ++ sepBy "," tags)

/-- `arun N T best0 | tp 12 | per HMM: frame s0 s1 s2 out h0 h1 h2 hout | per frame 3N senone scores`: the aligner's
frame loop through the model's own `alignFrame` (renormalisation of EVERY HMM, evaluation of the active ones); which HMMs
are active and which are entered (`prune_hmms`, `phone_transition` with sf = 0, ef = INT_MAX) is bookkeeping done here:
an HMM is evaluated in frame `t` iff its frame stamp is `≥ t`; afterwards it is stamped `t + 1`; then, left to right, an
HMM stamped `t + 1` hands its exit score to its successor if that one is inactive (stamp `< t`) or has a worse entry
score — applied as the `enter` of the successor's next `Frame3`. -/
structure ASt where
  hs : List H3
  fr : List Int
  best : Int
  nren : Nat
  bests : List Int

def arunTrans (t : Int) : Nat → Option (H3 × Int) → List (H3 × Int) → List (H3 × Int)
  | _, _, [] => []
  | i, none, p :: rest => p :: arunTrans t (i + 1) (some p) rest
  | i, some q, p :: rest =>
    let p' : H3 × Int :=
      if q.2 ≠ t + 1 then p
      else if p.2 < t ∨ q.1.out > p.1.s0 then (p.1.enter q.1.out q.1.hout, t + 1)
      else p
    p' :: arunTrans t (i + 1) (some p') rest

def opArun (a : List Int) : Option String := do
  let N := (a.getD 0 0).toNat
  let T := (a.getD 1 0).toNat
  let best0 := a.getD 2 0
  let a := a.drop 3
  let (tpl, a) ← cut 12 a
  let (init, a) ← cut (9 * N) a
  if a.length ≠ 3 * N * T then none
  let rows := chunks 4 3 tpl
  let tp := fn2 rows
  let hm := (chunks 9 N init).map fun r =>
    let g := fun (i : Nat) => r.getD i 0
    (({ s0 := g 1, s1 := g 2, s2 := g 3, out := g 4, h0 := g 5, h1 := g 6, h2 := g 7, hout := g 8, best := 0 } : H3), g 0)
  let frames := chunks (3 * N) T a
  let step := fun (p : ASt × Nat) (sen : List Int) =>
    let st := p.1
    let t : Int := (p.2 : Int)
    let fires := renormFires st.best
    let evals : List (Option Frame3) := st.fr.mapIdx fun i f =>
      if f < t then none else some { enter := none, c0 := sen.getD (3 * i) 0, c1 := sen.getD (3 * i + 1) 0, c2 := sen.getD (3 * i + 2) 0 }
    let r := alignFrame (fun _ => tp) st.hs { renorm := if fires then some st.best else none, evals := evals }
    let best := (r.1.zip evals).foldl (fun b q => match q.2 with | some _ => (if q.1.best > b then q.1.best else b) | none => b) WORST
    let fr1 := st.fr.map fun f => if f < t then f else t + 1
    let tr := arunTrans t 0 none (r.1.zip fr1)
    (({ hs := tr.map (·.1), fr := tr.map (·.2), best := best, nren := st.nren + (if fires then 1 else 0),
        bests := st.bests ++ [best] } : ASt), p.2 + 1)
  let fin := (frames.foldl step (({ hs := hm.map (·.1), fr := hm.map (·.2), best := best0, nren := 0, bests := [] } : ASt), 0)).1
  let per := (fin.hs.zip fin.fr).flatMap fun q => [q.2, q.1.s0, q.1.s1, q.1.s2, q.1.out, q.1.h0, q.1.h1, q.1.h2, q.1.hout]
  let tags := [ if fin.nren > 0 then "arun.renormalised" else "arun.no-renormalisation",
                if fin.nren > 0 ∧ (hm.any fun q => q.2 < 0 ∧ (q.1.s0 > WORST ∨ q.1.s1 > WORST ∨ q.1.s2 > WORST ∨ q.1.out > WORST))
                  then "arun.stale-HMM-renormalised" else "arun.no-stale-HMM-touched",
                if fin.hs.any (fun h => h.s0 > 0 ∨ h.s1 > 0 ∨ h.s2 > 0 ∨ h.out > 0) then "arun.positive-score-after" else "arun.all-scores<=0",
                if fin.fr != hm.map (·.2) ∧ (fin.fr.zip (hm.map (·.2))).any (fun q => q.2 < 0 ∧ q.1 ≥ 0) then "arun.phone-entered" else "arun.no-new-phone" ]
  some (s!"A {fin.nren} | {showInts per} | {showInts fin.bests}" ++ " #" ++ sepBy "," tags)

/-! ### `cmnr`: CMN accumulator state machine (`SSVerif.CmnRepr`, exact rationals) -/
namespace Cmnr
open SSVerif.CmnRepr

/-- lowest terms; `num` when the denominator is 1, else `num/den` (den > 0) -/
def showRat (r : Rat) : String := if r.den = 1 then toString r.num else s!"{r.num}/{r.den}"

def showSt (s : SSVerif.CmnRepr.St) : String :=
  s!"{s.nframe} | {sepBy " " (s.mean.map showRat)} | {sepBy " " (s.sum.map showRat)}"

/-- split `n` integers off the front of the word list -/
def takeInts (n : Nat) (ws : List String) : Option (List Int × List String) :=
  if ws.length < n then none else (ints (ws.take n)).map fun l => (l, ws.drop n)

def takeNat (ws : List String) : Option (Nat × List String) :=
  match ws with
  | w :: rest => (parseInt w).bind fun i => if i < 0 then none else some (i.toNat, rest)
  | [] => none

def toRats (l : List Int) : List Rat := l.map fun (i : Int) => ((i : Int) : Rat)

def addTags (acc : List String) (tags : List String) : List String :=
  tags.foldl (fun a t => if a.contains t then a else a ++ [t]) acc

structure Acc where
  st : SSVerif.CmnRepr.St
  prev : String := ""
  outs : List String := []
  tags : List String := []

def Acc.push (a : Acc) (tok : String) (s : SSVerif.CmnRepr.St) (tags : List String) : Acc :=
  { st := s, prev := tok, outs := a.outs ++ [showSt s], tags := addTags a.tags tags }

/-- token loop (`fuel` ≥ number of words: every token consumes at least one word) -/
def run (n : Nat) : Nat → Acc → List String → Option Acc
  | _, a, [] => some a
  | 0, _, _ :: _ => none
  | fuel + 1, a, "A" :: rest => do
    if n = 0 then none
    let (x, rest) ← takeInts n rest
    let xr := toRats x
    let s' := accFrame a.st xr
    let tags :=
      if skipped xr then ["cmnr.frame-skipped(c0<0)"]
      else "cmnr.frame-accumulated" :: (if a.st.nframe + 1 > (cmnWinHwm : Int) then ["cmnr.frame-shiftwin"] else [])
    run n fuel (a.push "A" s' tags) rest
  | fuel + 1, a, "S" :: rest => do
    let (k, rest) ← takeNat rest
    let (v, rest) ← takeInts k rest
    let s' := setRepr a.st (toRats v)
    let tags :=
      [ if k < n then "cmnr.short-import" else if k = n then "cmnr.full-import" else "cmnr.over-long-import" ]
      ++ (if k = 0 then ["cmnr.empty-import"] else [])
      ++ (if a.st.sum.any (· ≠ 0) then ["cmnr.import-after-audio"]
          else if a.st = init n then ["cmnr.import-on-fresh-state"] else [])
    run n fuel (a.push "S" s' tags) rest
  | fuel + 1, a, "U" :: rest =>
    let s' := update a.st
    let tags :=
      if a.st.nframe ≤ 0 then ["cmnr.update-nframe<=0"]
      else (if a.prev = "S" then "cmnr.update-right-after-import" else "cmnr.update-after-audio")
        :: (if a.st.nframe > (cmnWinHwm : Int) then ["cmnr.update-decay"] else [])
    run n fuel (a.push "U" s' tags) rest
  | fuel + 1, a, "B" :: rest => do
    let (m, rest) ← takeNat rest
    if n = 0 ∧ m > 0 then none
    let (v, rest) ← takeInts (m * n) rest
    let frames := (chunks n m v).map toRats
    let s' := batch a.st frames
    let tags :=
      if m = 0 then ["cmnr.batch-empty"]
      else "cmnr.batch" :: (if frames.all skipped then ["cmnr.batch-all-frames-skipped"] else [])
    run n fuel (a.push "B" s' tags) rest
  | _, _, _ :: _ => none

/-- `cmnr <veclen> <tok>*` from `init veclen`; tokens `A x_0 … x_{veclen-1}` (one `cmn_live` frame), `S k v_1 … v_k`
(`cmn_set_repr` with k values), `U` (`cmn_live_update`), `B n` + n·veclen ints (batch `cmn()`, varnorm 0).  One line:
`c` then ` ; nframe | mean… | sum…` after every token, then the branch tags. -/
def op (ws : List String) : Option String := do
  let (n, rest) ← takeNat ws
  let a ← run n (rest.length + 1) { st := init n } rest
  some ("c" ++ String.join (a.outs.map (" ; " ++ ·)) ++ " #" ++ sepBy "," a.tags)

end Cmnr

def step (s : St) (ws : List String) : St × String :=
  match ws with
  | [] => (s, "")
  | "tab" :: rest =>
    match ints rest with
    | some l => ({ s with tab := l.map Int.toNat }, "tab ok")
    | none => (s, "bad-op")
  | "hmm" :: rest =>
    match (ints rest).bind opHmm with
    | some (h, o) => ({ s with hmm := h }, o)
    | none => (s, "bad-op")
  | "hmmc" :: rest =>
    match (ints rest).bind (opHmmc s.hmm) with
    | some (h, o) => ({ s with hmm := h }, o)
    | none => (s, "bad-op")
  | "ptm" :: rest => (s, ((ints rest).bind (opPtm s)).getD "bad-op")
  | "semi" :: rest => (s, ((ints rest).bind (opSemi s)).getD "bad-op")
  | "top" :: rest => (s, ((ints rest).bind opTop).getD "bad-op")
  | "hmmx" :: rest =>
    match (ints rest).bind opHmmx with
    | some (h, o) => ({ s with xhmm := h }, o)
    | none => (s, "bad-op")
  | "hmmxc" :: rest =>
    match (ints rest).bind (opHmmxc s.xhmm) with
    | some (h, o) => ({ s with xhmm := h }, o)
    | none => (s, "bad-op")
  | "hmmxrun" :: rest => (s, ((ints rest).bind opHmmxrun).getD "bad-op")
  | "norm" :: rest => (s, ((ints rest).bind opNorm).getD "bad-op")
  | ["addidx"] => (s, "a")
  | "enter" :: rest => (s, ((ints rest).bind opEnter).getD "bad-op")
  | "arun" :: rest => (s, ((ints rest).bind opArun).getD "bad-op")
  | "semif" :: rest => (s, ((ints rest).bind (opSemif s)).getD "bad-op")
  | "cmnr" :: rest => (s, (Cmnr.op rest).getD "bad-op")
  | _ => (s, "bad-op")

def main : IO Unit := runLoop step {}

end Driver.C18
