import SSVerif.Model.Ranges
import Driver.Util
/-! driver sub-command `c18`: replays the integer ops of harness/h_c18.c (`int` mode) on the model -/
namespace Driver.C18
open SSVerif.Ranges Driver

inductive HSt where
  | none
  | h3 (tp : List (List Int)) (ids : List Int) (h : H3)
  | h5 (tp : List (List Int)) (ids : List Int) (h : H5)

structure St where
  tab : List Nat := []
  hmm : HSt := .none

def tabFn (s : St) : Nat → Nat := fun d => s.tab.getD d 0

def ints (ws : List String) : Option (List Int) := ws.mapM parseInt

def showInts (l : List Int) : String := sepBy " " (l.map toString)

/-- split `n` numbers off the front -/
def cut (n : Nat) (l : List Int) : Option (List Int × List Int) :=
  if l.length < n then none else some (l.take n, l.drop n)

def chunks (k : Nat) : Nat → List Int → List (List Int)
  | 0, _ => []
  | n + 1, l => l.take k :: chunks k n (l.drop k)

def fn2 (rows : List (List Int)) : Nat → Nat → Nat := fun i j => ((rows.getD i []).getD j 0).toNat

def show3 (r : H3) : String :=
  s!"r {r.s0} {r.s1} {r.s2} {r.out} {r.best} | {r.h0} {r.h1} {r.h2} {r.hout}"
def show5 (r : H5) : String :=
  s!"r {r.s0} {r.s1} {r.s2} {r.s3} {r.s4} {r.out} {r.best} | {r.h0} {r.h1} {r.h2} {r.h3} {r.h4} {r.hout}"

def opHmm (a : List Int) : Option (HSt × String) := do
  let n := (a.getD 0 0).toNat
  let mpx := a.getD 1 0
  let nsen := (a.getD 2 0).toNat
  let a := a.drop 3
  if mpx ≠ 0 then none
  let (tpl, a) ← cut (n * (n + 1)) a
  let (ids, a) ← cut n a
  let (sens, a) ← cut nsen a
  let (sc, a) ← cut n a
  let (outv, a) ← cut 1 a
  let (hi, a) ← cut n a
  let (ho, a) ← cut 1 a
  if !a.isEmpty then none
  let rows := chunks (n + 1) n tpl
  let c := fun (i : Nat) => sens.getD (ids.getD i 0).toNat 0
  let g := fun (l : List Int) (i : Nat) => l.getD i 0
  if n = 3 then
    let h : H3 := { s0 := g sc 0, s1 := g sc 1, s2 := g sc 2, out := g outv 0,
                    h0 := g hi 0, h1 := g hi 1, h2 := g hi 2, hout := g ho 0, best := 0 }
    let r := (hmm3Step (fn2 rows) (c 0) (c 1) (c 2) h).1
    some (.h3 rows ids r, show3 r)
  else if n = 5 then
    let h : H5 := { s0 := g sc 0, s1 := g sc 1, s2 := g sc 2, s3 := g sc 3, s4 := g sc 4, out := g outv 0,
                    h0 := g hi 0, h1 := g hi 1, h2 := g hi 2, h3 := g hi 3, h4 := g hi 4, hout := g ho 0, best := 0 }
    let r := (hmm5Step (fn2 rows) (c 0) (c 1) (c 2) (c 3) (c 4) h).1
    some (.h5 rows ids r, show5 r)
  else none

/-- `hmmc enter score hist senscores…`: next frame via the model's own `Frame3.apply` / `Frame5.apply` -/
def opHmmc (st : HSt) (a : List Int) : Option (HSt × String) := do
  let ent := if a.getD 0 0 ≠ 0 then some (a.getD 1 0, a.getD 2 0) else none
  let sens := a.drop 3
  match st with
  | .none => none
  | .h3 rows ids h =>
    let c := fun (i : Nat) => sens.getD (ids.getD i 0).toNat 0
    let r := (Frame3.apply (fn2 rows) h { enter := ent, c0 := c 0, c1 := c 1, c2 := c 2 }).1
    some (.h3 rows ids r, show3 r)
  | .h5 rows ids h =>
    let c := fun (i : Nat) => sens.getD (ids.getD i 0).toNat 0
    let r := (Frame5.apply (fn2 rows) h { enter := ent, c0 := c 0, c1 := c 1, c2 := c 2, c3 := c 3, c4 := c 4 }).1
    some (.h5 rows ids r, show5 r)

def mkTop (l : List Int) : List TopN :=
  (chunks 2 (l.length / 2) l).map fun p => { cw := (p.getD 0 0).toNat, score := p.getD 1 0 }

/-- reads `mixw` (8-bit or 4-bit clustered) for `nfeat × nden × width` -/
def readMixw (use4b : Bool) (nfeat nden nsen : Nat) (a : List Int) : Option (Mixw × List Int) := do
  if use4b then
    let (cb, a) ← cut 16 a
    let half := (nsen + 1) / 2
    let (w, a) ← cut (nfeat * nden * half) a
    let rows := chunks (nden * half) nfeat w
    some ({ cb := some (cb.map Int.toNat), w := rows.map fun r => (chunks half nden r).map (·.map Int.toNat) }, a)
  else
    let (w, a) ← cut (nfeat * nden * nsen) a
    let rows := chunks (nden * nsen) nfeat w
    some ({ cb := none, w := rows.map fun r => (chunks nsen nden r).map (·.map Int.toNat) }, a)

def opPtm (s : St) (a : List Int) : Option String := do
  let g := fun (i : Nat) => (a.getD i 0).toNat
  let (ngau, nfeat, topn, nsen, nden) := (g 0, g 1, g 2, g 3, g 4)
  let compall := a.getD 5 0 ≠ 0
  let use4b := a.getD 6 0 ≠ 0
  let a := a.drop 7
  let (s2c, a) ← cut nsen a
  let (act, a) ← cut ngau a
  let (tt, a) ← cut (ngau * nfeat * topn * 2) a
  let (m, a) ← readMixw use4b nfeat nden nsen a
  let (na, a) ← cut 1 a
  let (deltas, a) ← cut (na.getD 0 0).toNat a
  if !a.isEmpty then none
  let t : TopTab := (chunks (nfeat * topn * 2) ngau tt).map fun cbl => (chunks (topn * 2) nfeat cbl).map mkTop
  let active : List Bool := act.map fun x => decide (x ≠ 0)
  let t1 := ptmNorm active t
  let r := ptmSenoneEval (tabFn s) m (s2c.map Int.toNat) active t1 compall (deltas.map Int.toNat)
  let flat := r.topn.flatMap fun cbl => cbl.flatMap fun l => l.map (·.score)
  some s!"s {showInts r.scores} | t {showInts flat}"

def opSemi (s : St) (a : List Int) : Option String := do
  let g := fun (i : Nat) => (a.getD i 0).toNat
  let (nfeat, topn, nsen, nden) := (g 0, g 1, g 2, g 3)
  let compall := a.getD 4 0 ≠ 0
  let use4b := a.getD 5 0 ≠ 0
  let a := a.drop 6
  let (beams, a) ← cut nfeat a
  let (tt, a) ← cut (nfeat * topn * 2) a
  let (m, a) ← readMixw use4b nfeat nden nsen a
  let (na, a) ← cut 1 a
  let (deltas, a) ← cut (na.getD 0 0).toNat a
  if !a.isEmpty then none
  let t := (chunks (topn * 2) nfeat tt).map mkTop
  let r := semiEval (tabFn s) m nsen beams t compall (deltas.map Int.toNat)
  let flat := r.topn.flatMap fun l => l.map (·.score)
  some s!"s {showInts r.scores} | n {showInts (r.counts.map Int.ofNat)} | t {showInts flat}"

def step (s : St) (ws : List String) : St × String :=
  match ws with
  | [] => (s, "")
  | "tab" :: rest =>
    match ints rest with
    | some l => ({ s with tab := l.map Int.toNat }, "tab ok")
    | none => (s, "bad-op")
  | "hmm" :: rest =>
    match (ints rest).bind opHmm with
    | some (h, o) => ({ s with hmm := h }, o)
    | none => (s, "bad-op")
  | "hmmc" :: rest =>
    match (ints rest).bind (opHmmc s.hmm) with
    | some (h, o) => ({ s with hmm := h }, o)
    | none => (s, "bad-op")
  | "ptm" :: rest => (s, ((ints rest).bind (opPtm s)).getD "bad-op")
  | "semi" :: rest => (s, ((ints rest).bind (opSemi s)).getD "bad-op")
  | _ => (s, "bad-op")

def main : IO Unit := runLoop step {}

end Driver.C18
