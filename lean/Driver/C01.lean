import SSVerif.Model.Hist
import SSVerif.Model.HypBuf
import SSVerif.Model.Jsgf
import SSVerif.Model.JsgfText
import SSVerif.Generated.HistConsts
import Driver.Util
/-! driver sub-command `c01` (serves C01 and C03): reads the dump blocks of `harness/h_c01.c`
(grammar as loaded `G…`, search FSG `S…`, history table `E…`, reported hypothesis `H`, reported
segments `X…`) and answers, per block,

* `R wf`      `wfHistB` on the dumped table,
* `R exit`, `R H`, `R X…`, `R nseg`   the model's own `findExit` / `hyp` / `segs` on the dump,
* `R tile`, `R sum`, `R hypseg`      the verified checkers on the **reported** segments,
* `R proj`    `projB` search grammar → loaded grammar,
* `R acc`     verified acceptance (final) / prefix-path (partial) decision of the loaded grammar
              on the **reported** hypothesis and on the reported segment words,
* `R path`    `checkPath` of the model's backtrace on the search grammar (final results).
-/
namespace Driver.C01
open SSVerif.Hist SSVerif.Nfa Driver

abbrev Bytes := List UInt8

structure Word where
  str : Bytes
  filler : Bool
  alt : Bool
  base : Option Bytes

structure RSeg where
  word : Option Bytes      -- none = NULL pointer
  sf : Int
  ef : Int
  ascr : Int
  lscr : Int
  prob : Int

structure Blk where
  tag : String := ""
  final : Bool := false
  cur : Int := 0
  nframesApi : Int := 0
  gStart : Nat := 0
  gFinal : Nat := 0
  gWords : Array Word := #[]
  gArcs : Array Link := #[]
  hasG : Bool := false
  sStart : Nat := 0
  sFinal : Nat := 0
  sWords : Array Word := #[]
  sArcs : Array Link := #[]
  ents : Array Entry := #[]
  hyp : Option Bytes := none
  hypScore : Int := 0
  rsegs : Array RSeg := #[]
  /-- the JSGF text that was installed (string, file or configuration) and the configured `toprule` -/
  jsgfText : Option Bytes := none
  toprule : Option Bytes := none
  /-- `SD <i> <0|1>`: search-FSG word `i` is a filler word BY THE DICTIONARY (`dict_filler_word`), printed by the harness
  independently of the grammar's own filler marks (`fsg_model_is_filler`, the flag of the `SW` lines) -/
  dictFiller : Array (Nat × Bool) := #[]
  bad : List String := []

def splitOn20 (b : Bytes) : List Bytes :=
  let rec go : Bytes → Bytes → List Bytes → List Bytes
    | [], cur, acc => (cur.reverse :: acc).reverse
    | c :: rest, cur, acc => if c = 0x20 then go rest [] (cur.reverse :: acc) else go rest (c :: cur) acc
  go b [] []

def joinSp (ws : List Bytes) : Bytes :=
  match ws with
  | [] => []
  | w :: rest => rest.foldl (fun acc x => acc ++ [0x20] ++ x) w

def parseWord (ws : List String) : Option (Nat × Word) :=
  match ws with
  | [i, w, f, a, b] =>
    match parseNat i, parseHex w with
    | some i, some w => some (i, { str := w, filler := f = "1", alt := a = "1", base := if b = "null" then none else parseHex b })
    | _, _ => none
  | _ => none

def parseArc (ws : List String) : Option Link :=
  match ws with
  | [_, f, t, lp, w] =>
    match parseNat f, parseNat t, parseInt lp, parseInt w with
    | some f, some t, some lp, some w => some ⟨f, t, lp, w⟩
    | _, _, _, _ => none
  | _ => none

def parseRc (s : String) : List Nat :=
  -- 8 hex digits per 32-bit word
  let cs := s.toList
  let rec go : Nat → List Char → List Nat → List Nat
    | 0, _, acc => acc.reverse
    | fuel + 1, cs, acc =>
      if cs.isEmpty then acc.reverse else
      let w := cs.take 8
      go fuel (cs.drop 8) ((w.foldl (fun a c => 16 * a + (hexVal c).getD 0) 0) :: acc)
  go (cs.length + 1) cs []

def feed (b : Blk) (ws : List String) : Blk :=
  match ws with
  | "GF" :: s :: f :: _ =>
    { b with gStart := (parseNat s).getD 0, gFinal := (parseNat f).getD 0, hasG := true }
  | "SF" :: s :: f :: _ => { b with sStart := (parseNat s).getD 0, sFinal := (parseNat f).getD 0 }
  | "GW" :: rest =>
    match parseWord rest with
    | some (_, w) => { b with gWords := b.gWords.push w }
    | none => { b with bad := "GW" :: b.bad }
  | "SW" :: rest =>
    match parseWord rest with
    | some (_, w) => { b with sWords := b.sWords.push w }
    | none => { b with bad := "SW" :: b.bad }
  | "GA" :: rest =>
    match parseArc rest with
    | some l => { b with gArcs := b.gArcs.push l }
    | none => { b with bad := "GA" :: b.bad }
  | "SA" :: rest =>
    match parseArc rest with
    | some l => { b with sArcs := b.sArcs.push l }
    | none => { b with bad := "SA" :: b.bad }
  | ["E", _, li, fr, sc, pr, lc, rc] =>
    match parseInt li, parseInt fr, parseInt sc, parseInt pr, parseInt lc with
    | some li, some fr, some sc, some pr, some lc =>
      -- link id −1 = NULL pointer; −2 (pointer not among the FSG's arcs) becomes an out-of-range id
      let link : Option Nat := if li = -1 then none else if li < 0 then some 1000000000 else some li.toNat
      { b with ents := b.ents.push { link, frame := fr, score := sc, pred := pr, lc, rc := parseRc rc } }
    | _, _, _, _, _ => { b with bad := "E" :: b.bad }
  | ["SD", i, f] =>
    match parseNat i with
    | some i => { b with dictFiller := b.dictFiller.push (i, f = "1") }
    | none => { b with bad := "SD" :: b.bad }
  -- `SR …`: hypotheses of Props/C03Fillers evaluated by the harness on the decoder's dictionary (judged by tools/props/c01.py)
  | "SR" :: _ => b
  | ["J", t] => { b with jsgfText := parseHex t }
  | ["JT", t] => { b with toprule := if t = "-" then none else parseHex t }
  | ["H", w, sc] =>
    { b with hyp := if w = "null" then none else parseHex w, hypScore := (parseInt sc).getD 0 }
  | "HB" :: _ => b     -- allocation size / strlen / whole block of the returned string: compared by tools/props/c01.py with `R HB`
  | ["X", _, w, sf, ef, a, l, p] =>
    match parseInt sf, parseInt ef, parseInt a, parseInt l, parseInt p with
    | some sf, some ef, some a, some l, some p =>
      { b with rsegs := b.rsegs.push { word := if w = "null" then none else parseHex w, sf, ef, ascr := a, lscr := l, prob := p } }
    | _, _, _, _, _ => { b with bad := "X" :: b.bad }
  | _ => { b with bad := (ws.headD "?") :: b.bad }

def nullWord : Bytes := "(NULL)".toUTF8.toList

def b01 (x : Bool) : String := if x then "1" else "0"

/-- id of a base string in the table of all base strings of the block -/
def idOf (tbl : Array Bytes) (s : Bytes) : Nat := (tbl.findIdx? (· == s)).getD tbl.size

/-- diagnostic only (evidence of which branches of `findExit` a dump exercised): replays the second
loop of `findExit` and names the branch taken at every entry visited -/
def exitBranches (g : Fsg) (h : Hist) (cur : Int) (final : Bool) : String := Id.run do
  if h.size = 0 then return (if cur = -1 then "minus1,empty" else "empty")
  let frameIdx := if cur = -1 then cur - 1 else cur
  let k := scanBack h frameIdx (h.size - 1)
  if k = 0 then return (if cur = -1 then "minus1,noscan" else "noscan")
  let lastFrm := (ent h k).frame
  let mut best : Best := ⟨intMin, -1⟩
  let mut tags : List String := if cur = -1 then ["minus1"] else []
  let mut i := k
  let mut go := true
  while go do
    let e := ent h i
    if e.frame ≠ lastFrm then
      tags := "stop_frame" :: tags; go := false
    else match e.link with
      | none => tags := "stop_nolink" :: tags; go := false
      | some lid =>
        let l := g.link lid
        let t := if e.score = best.score ∧ l.dst = g.final then "eq_final"
          else if e.score > best.score then (if !final ∨ l.dst = g.final then "better_taken" else "better_nonfinal_rejected")
          else "not_better"
        if !(tags.contains t) then tags := t :: tags
        best := exitStep g final best i l e.score
        if i = 0 then
          tags := "stop_index0" :: tags; go := false
        else i := i - 1
  if best.hist = -1 then tags := "no_exit" :: tags
  return sepBy "," tags.reverse

/-! ### reference grammar from the JSGF TEXT through the Lean model of C05 (not through the library) -/

open SSVerif.Jsgf SSVerif.JsgfText in
/-- For the installed JSGF text: parse with the model's text front end, resolve names, desugar; for the rule the
configuration names (`toprule`, looked up like `jsgf_get_rule`: `<` name `>` among the full rule names) — or,
with no `toprule`, for every public rule — build the automaton of the rule by exploration (checked closed) and
run the verified acceptance (final) / prefix-path (partial) decision on the reported words.
Lines: `R jsgf <parsed> <toprule found | ->`, `R jrule <idx> <hexname> <pub> <explored> <acc hyp> <acc seg>`. -/
def jsgfAnswer (text : Bytes) (toprule : Option Bytes) (final : Bool) (hypW segW : List Bytes) : List String :=
  let cs := text.map fun b => Char.ofNat b.toNat
  match parseText cs with
  | none => ["R jsgf 0 -"]
  | some tg =>
    let (g, N) := resolve tg
    let T := desugar g
    let toB (l : List Char) : Bytes := l.map fun c => UInt8.ofNat c.toNat
    let wordIdx (w : Bytes) : Nat := (N.words.findIdx? fun x => toB x == w).getD (N.words.length + 1)
    let show3 (o : Option Bool) : String := match o with | none => "none" | some x => if x then "1" else "0"
    let judge (idx : Nat) (pub : Bool) : String :=
      let name := toHex (toB (N.rules.getD idx []))
      match explore T.rules (.user idx) 3000 with
      | none => s!"R jrule {idx} {name} {if pub then 1 else 0} 0 - -"
      | some A =>
        let dec (ws : List Bytes) : Option Bool :=
          if final then decideAccepts A (ws.map wordIdx) else SSVerif.Hist.decidePrefix A (ws.map wordIdx)
        s!"R jrule {idx} {name} {if pub then 1 else 0} 1 {show3 (dec hypW)} {show3 (dec segW)}"
    match toprule with
    | some t =>
      let full : List Char := '<' :: ((t.map fun b => Char.ofNat b.toNat) ++ ['>'])
      match g.find? fun rl => N.rules.getD rl.name [] == full with
      | some rl => ["R jsgf 1 1", judge rl.name rl.pub]
      | none => ["R jsgf 1 0"]
    | none =>
      "R jsgf 1 -" :: (g.filter (·.pub)).map fun rl => judge rl.name rl.pub

def answer (b : Blk) : List String := Id.run do
  let shift := SSVerif.Generated.senscrShift
  let fillerIds := (List.range b.sWords.size).filter fun i => (b.sWords.getD i ⟨[], false, false, none⟩).filler
  let g : Fsg := { links := b.sArcs, start := b.sStart, final := b.sFinal, filler := fillerIds }
  let h : Hist := b.ents
  let baseOf (w : Nat) : Bytes :=
    match b.sWords[w]? with
    | some x => x.base.getD x.str
    | none => []
  let mut out : List String := []
  -- diagnostic only: first index at which a clause of the invariant fails
  let firstBad : Option Nat := (List.range h.size).find? fun i =>
    (i != 0 && !wfStepB g h i) || (decide (i + 1 < h.size) && !decide ((ent h i).frame ≤ (ent h (i + 1)).frame)) ||
    !decide ((ent h i).frame < b.cur)
  out := out ++ [s!"R wf {b01 (wfHistB g h b.cur)} {match firstBad with | none => "-" | some i => toString i}"]
  let x := findExit g h b.cur b.cur b.final
  out := out ++ [s!"R exit {x.bp} {x.score}"]
  out := out ++ [s!"R br {exitBranches g h b.cur b.final}"]
  -- the model's hypothesis and segments
  let (mh, msc) := hyp baseOf g h b.cur b.final
  out := out ++ [s!"R H {match mh with | none => "null" | some ws => toHex (joinSp ws)} {msc}"]
  -- byte level (Model/HypBuf.lean, Props/C01Hyp.lean): the block `fsg_search_hyp` sizes, allocates and fills from the back,
  -- run on the dumped backtrace; `R HB ok <len> <block> <final c> <#stores> <each of 0..len-2 stored once> <no NUL in a word>
  -- <C string of the block = the list-level words joined>`
  out := out ++ [match (SSVerif.HypBuf.hypRet baseOf g h b.cur b.final).1 with
    | .null => "R HB null"
    | .fail e => s!"R HB fail {repr e}"
    | .ok len buf c log =>
      let cnt : Array Nat := log.foldl (fun a i => a.modify i (· + 1)) (Array.replicate (len - 1) 0)
      let once := decide (log.length = len - 1) && log.all (· < len - 1) && cnt.all (· == 1)
      let ws := (mh.getD [])
      s!"R HB ok {len} {toHex buf} {c} {log.length} {b01 once} {b01 (decide (SSVerif.HypBuf.NoNul ws))} {b01 (SSVerif.HypBuf.cstr buf == joinSp ws && SSVerif.HypBuf.join1 ws == joinSp ws)}"]
  match segs shift g h b.cur b.final with
  | none => out := out ++ ["R nseg null"]
  | some ss =>
    let mut k := 0
    for s in ss do
      let w : Bytes := if s.wid < 0 then nullWord else (match b.sWords[s.wid.toNat]? with | some x => x.str | none => [])
      out := out ++ [s!"R X {k} {toHex w} {s.sf} {s.ef} {s.ascr} {s.lscr} {s.prob}"]
      k := k + 1
    out := out ++ [s!"R nseg {ss.length}"]
  -- verified checkers on the reported segments
  let widOf (w : Option Bytes) : Option Int :=
    match w with
    | none => none
    | some w => if w == nullWord then some (-1) else
      match b.sWords.findIdx? (·.str == w) with
      | some i => some (Int.ofNat i)
      | none => none
  let rs := b.rsegs.toList
  let known := rs.all fun s => (widOf s.word).isSome
  let rsegs : List Seg := rs.map fun s => { wid := (widOf s.word).getD (-1), sf := s.sf, ef := s.ef, ascr := s.ascr, lscr := s.lscr, prob := s.prob }
  out := out ++ [s!"R known {b01 known}"]
  out := out ++ [s!"R tile {b01 (segsTileB b.cur rsegs)}"]
  out := out ++ [s!"R sum {b01 (scoresSumB rsegs b.hypScore)}"]
  let segW : List Bytes := segWords baseOf g rsegs
  let hypW : List Bytes := match b.hyp with | none => [] | some s => if s.isEmpty then [] else splitOn20 s
  out := out ++ [s!"R hypseg {b01 (segW == hypW)}"]
  -- the same clause with "filler" read from the DICTIONARY (lines `SD`), and the tie grammar marks = dictionary marks
  if !b.dictFiller.isEmpty then
    let dictIds := b.dictFiller.toList.filterMap fun (i, f) => if f then some i else none
    let gd : Fsg := { g with filler := dictIds }
    -- … on every word that labels a transition of the search FSG (only those can occur in a segmentation; building a
    -- lattice appends the sentence markers `<s>`, `</s>` to the vocabulary, marked, on no transition)
    let onArc (i : Nat) : Bool := b.sArcs.any fun l => l.wid == Int.ofNat i
    let tie := decide (b.dictFiller.size = b.sWords.size) && (List.range b.sWords.size).all fun i =>
      !onArc i || fillerIds.contains i == dictIds.contains i
    out := out ++ [s!"R hypsegd {b01 (segWords baseOf gd rsegs == hypW)} {b01 tie}"]
  -- projection onto the loaded grammar, acceptance of what was reported
  if b.hasG then
    let tbl : Array Bytes := Id.run do
      let mut t : Array Bytes := #[]
      for w in b.sWords ++ b.gWords do
        let s := w.base.getD w.str
        if !(t.contains s) then t := t.push s
      return t
    let isFillerStr (s : Bytes) : Bool := b.sWords.any fun w => w.filler && w.str == s
    let π (w : Nat) : Option Nat :=
      match b.sWords[w]? with
      | some x => if x.filler then none else some (idOf tbl (x.base.getD x.str))
      | none => some (tbl.size + 1 + w)
    let gLabel (l : Link) : Option Nat :=
      if l.wid < 0 then none else
      match b.gWords[l.wid.toNat]? with
      | some x => if isFillerStr x.str then none else some (idOf tbl (x.base.getD x.str))
      | none => some (tbl.size + 1)
    let G : Nfa := { start := b.gStart, final := b.gFinal, arcs := b.gArcs.toList.map fun l => (l.src, gLabel l, l.dst) }
    let S : Nfa := g.toNfa
    out := out ++ [s!"R proj {b01 (projB S G π)}"]
    let show3 (o : Option Bool) : String := match o with | none => "none" | some x => b01 x
    let dec (ws : List Bytes) : Option Bool :=
      let ids := ws.map (idOf tbl)
      if b.final then decideAccepts G ids else decidePrefix G ids
    out := out ++ [s!"R acc {show3 (dec hypW)} {show3 (dec segW)}"]
    -- the model's backtrace is a checked accepting path of the search grammar (final results)
    if b.final && x.bp > 0 then
      let ch := chain h x.bp
      let path := ch.map fun i => let l := linkOf g (ent h i); (l.src, l.label, l.dst)
      let labels := ch.filterMap fun i => (linkOf g (ent h i)).label
      out := out ++ [s!"R path {b01 (checkPath S S.start path labels)}"]
    else
      out := out ++ ["R path -"]
  else
    out := out ++ ["R proj -", "R acc - -", "R path -"]
  match b.jsgfText with
  | some t => out := out ++ jsgfAnswer t b.toprule b.final hypW segW
  | none => pure ()
  if !b.bad.isEmpty then out := out ++ [s!"R bad {sepBy "," b.bad}"]
  return out ++ ["R end"]

partial def loop (hin : IO.FS.Stream) (hout : IO.FS.Stream) (b : Blk) : IO Unit := do
  let line ← hin.getLine
  if line.isEmpty then return ()
  let ws := words line
  match ws with
  | "D" :: "begin" :: tag :: fin :: cur :: nfr :: _ =>
    hout.putStrLn s!"R begin {tag}"
    loop hin hout { tag, final := fin = "1", cur := (parseInt cur).getD 0, nframesApi := (parseInt nfr).getD 0 }
  | "D" :: "end" :: _ =>
    for l in answer b do hout.putStrLn l
    hout.flush
    loop hin hout {}
  | [] => loop hin hout b
  | _ => loop hin hout (feed b ws)

def main : IO Unit := do
  let stdin ← IO.getStdin
  let stdout ← IO.getStdout
  loop stdin stdout {}
  stdout.flush

end Driver.C01
