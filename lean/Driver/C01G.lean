import SSVerif.Model.GrammarSet
import Driver.Util
/-! driver sub-command `c01g`: replays the grammar-setting calls of a session on `Model/GrammarSet`.

  lines in:  `reset` | `K <hexword>` (a dictionary word) | `A <hextext> <initok>` (decoder_set_align_text) |
             `F <id> <initok>` (decoder_set_fsg with the opaque grammar `id`) |
             `J <parsed> <rule> <id or -> <initok>` (decoder_set_jsgf_string/_file)
  lines out: `ok` | `R <rv> <active>` with `<active>` = `none` | `id <n>` (opaque) | `chain <nstate> <start> <final> <from:to:hexword,…>` -/
namespace Driver.C01G
open SSVerif.GrammarSet Driver

structure St where
  known : List Word
  d : Dec

/-- an opaque grammar (FSG file / JSGF rule): only its identity matters here -/
def opaqueG (id : Nat) : Fsg := { nstate := id, start := 0, final := 0, arcs := [] }

def showActive (d : Dec) : String :=
  match d.active with
  | none => "none"
  | some g =>
    if g.arcs.isEmpty && g.final = 0 && g.nstate ≠ 1 then s!"id {g.nstate}"
    else s!"chain {g.nstate} {g.start} {g.final} " ++
      (if g.arcs.isEmpty then "-" else sepBy "," (g.arcs.map fun (a, b, w) => s!"{a}:{b}:{toHex w}"))

def step (s : St) (ws : List String) : St × String :=
  let kn : Word → Bool := fun w => s.known.contains w
  let fin (r : Int × Dec) : St × String := ({ s with d := r.2 }, s!"R {r.1} {showActive r.2}")
  match ws with
  | ["reset"] => ({ known := [], d := { active := none } }, "ok")
  | ["K", w] =>
    match parseHex w with
    | some w => ({ s with known := w :: s.known }, "ok")
    | none => (s, "bad-op")
  | ["A", t, ok] =>
    match parseHex t with
    | some t => fin (call kn (fun _ => ok = "1") s.d (.align t))
    | none => (s, "bad-op")
  | ["F", id, ok] =>
    match parseNat id with
    | some id => fin (call kn (fun _ => ok = "1") s.d (.fsg (opaqueG id)))
    | none => (s, "bad-op")
  | ["J", p, r, id, ok] =>
    fin (call kn (fun _ => ok = "1") s.d (.jsgf (p = "1") (r = "1") ((parseNat id).map opaqueG)))
  | _ => (s, "bad-op")

def main : IO Unit :=
  runLoop step { known := [], d := { active := none } }

end Driver.C01G
