import SSVerif.Model.Lattice
import SSVerif.Model.LatticePrune
import Driver.Util
/-! driver sub-command `c12p` (serves C12, `Props/C12Prune.lean`): reads a lattice dumped by `harness/h_c12p.c` before
`lattice_posterior_prune` (nodes, links with the value `alpha + beta - norm` the C code tests, search FSG) and a beam;
evaluates the model's own `posteriorPrune` (return value, surviving nodes `keepOrder`, links `keptLinks` with old and new
numbers), the clauses of `latticeOKB` and `bestpath` on the pruned lattice, and a second `posteriorPrune` on the result
(posterior of a renumbered link = posterior of its original).

    begin <nframes> <start> <final>
    n <word> <sf> <fef> <lef> <state|-1>
    l <src> <dst> <ef> <ascr> <post>
    g <fsg start>       a <from> <word|-1> <to>
    run <beam>          (may be repeated: same lattice, another beam)      reset

Output per `run`:
    before <name>=<0|1> ... ok=<0|1>      (clauses of latticeOKB on the lattice before pruning)
    ret <n>
    nodes <old positions of the surviving nodes, in order>
    ends <start id> <final id>
    k <old src> <old dst> <new src> <new dst> <ef> <ascr>        (one per link of the pruned lattice, in order)
    clauses <name>=<0|1> ...
    best <score|none>
    second same=<0|1> nodes=<0|1> links=<0|1> start=<0|1> final=<0|1> ret=<n>
    model first=<0|1> second=<0|1>      (the parts of prunePartsFast printed above make up the lattice of posteriorPruneFast)
    direct first=<0|1> second=<0|1> loop=<0|1>  |  direct skipped     (small lattices: the proof-side definitions posteriorPrune,
                                                                        keepOrder, keptLinks give the same; exitsLoop = exitsCut)
    end -/
namespace Driver.C12P
open SSVerif.Lattice SSVerif.Nfa Driver

structure St where
  nframes : Nat := 0
  start : Nat := 0
  final : Nat := 0
  nodes : Array Node := #[]
  links : Array Link := #[]
  posts : Array Int := #[]
  gstart : Nat := 0
  arcs : Array (Nat × Option Nat × Nat) := #[]
  bad : Bool := false

def optNat (z : Int) : Option Nat := if z < 0 then none else some z.toNat
def ints (ws : List String) : Option (List Int) := ws.mapM parseInt
def b01 (b : Bool) : String := if b then "1" else "0"

def sameLat (A B : Lat) : Bool :=
  decide (A.nodes = B.nodes) && decide (A.links = B.links) && decide (A.start = B.start) && decide (A.final = B.final) &&
    decide (A.nframes = B.nframes)

/-- largest lattice (links) on which the model's definitions themselves are also run -/
def maxDirect : Nat := 40

def report (s : St) (beam : Int) : List String := Id.run do
  let L : Lat := { nframes := s.nframes, nodes := s.nodes.toList, links := s.links.toList, start := s.start, final := s.final }
  let G : Nfa := { start := s.gstart, final := 0, arcs := s.arcs.toList }
  if s.posts.size ≠ L.links.length then return ["bad-input", "end"]
  let post : Link → Int := fun l => s.posts.getD (L.links.idxOf l) 0
  -- the model's own functions: `posteriorPruneFast = posteriorPrune` (`posteriorPruneFast_eq`) and `prunePartsFast` =
  -- (`keepOrder`, `keptLinks`, `nPruned`) (`prunePartsFast_eq`), which gives the OLD numbers of what was kept
  let (L', ret) := posteriorPruneFast L post beam
  let parts := prunePartsFast L post beam
  let order := parts.1
  let kept := parts.2.1
  let m1 := decide (L'.nodes = order.map L.node) && decide (L'.links = kept.map (renumLink order)) && decide (parts.2.2 = ret)
  let mut out : List String :=
    ["before " ++ sepBy " " ((clauseResults G L).map fun (n, b) => s!"{n}={b01 b}") ++ s!" ok={b01 (latticeOKB G L)}",
     s!"ret {ret}", "nodes " ++ sepBy " " (order.map toString), s!"ends {L'.start} {L'.final}"]
  for (l, l') in kept.zip L'.links do
    out := out ++ [s!"k {l.src} {l.dst} {l'.src} {l'.dst} {l'.ef} {l'.ascr}"]
  let cl := clauseResults G L'
  out := out ++ ["clauses " ++ sepBy " " (cl.map fun (n, b) => s!"{n}={b01 b}")]
  match bestpath L' with
  | none => out := out ++ ["best none"]
  | some (_, sc, _) => out := out ++ [s!"best {sc}"]
  -- second prune: the posterior of a renumbered link is the one of its original
  let posts' : Array Int := (kept.map post).toArray
  let post' : Link → Int := fun l => posts'.getD (L'.links.idxOf l) 0
  let (L'', ret2) := posteriorPruneFast L' post' beam
  let parts2 := prunePartsFast L' post' beam
  let m2 := decide (L''.nodes = parts2.1.map L'.node) && decide (L''.links = parts2.2.1.map (renumLink parts2.1)) && decide (parts2.2.2 = ret2)
  let sn := decide (L''.nodes = L'.nodes)
  let sl := decide (L''.links = L'.links)
  let ss := decide (L''.start = L'.start)
  let sf := decide (L''.final = L'.final)
  let same := sameLat L'' L' && decide (ret2 = 0)
  out := out ++ [s!"second same={b01 same} nodes={b01 sn} links={b01 sl} start={b01 ss} final={b01 sf} ret={ret2}",
                 s!"model first={b01 m1} second={b01 m2}"]
  -- the model's proof-side definitions themselves (small lattices): posteriorPrune, keepOrder, keptLinks, exitsLoop = exitsCut
  if L.links.length ≤ maxDirect then
    let (M, r) := posteriorPrune L post beam
    let d1 := sameLat M L' && decide (r = ret) && decide (keepOrder L post beam = order) && decide (keptLinks L post beam = kept)
    let (M2, r2) := posteriorPrune L' post' beam
    let d2 := sameLat M2 L'' && decide (r2 = ret2)
    let lp := (List.range L.n).all fun v => decide (exitsLoop L post beam v = exitsCut L post beam v)
    out := out ++ [s!"direct first={b01 d1} second={b01 d2} loop={b01 lp}"]
  else out := out ++ ["direct skipped"]
  return out ++ ["end"]

def step (s : St) (ws : List String) : St × List String :=
  match ws with
  | "begin" :: rest =>
    match ints rest with
    | some [nf, st, fi] => ({ nframes := nf.toNat, start := st.toNat, final := fi.toNat, bad := nf < 0 || st < 0 || fi < 0 }, [])
    | _ => ({ bad := true }, [])
  | "n" :: rest =>
    match ints rest with
    | some [w, sf, fef, lef, state] =>
      ({ s with nodes := s.nodes.push ⟨w.toNat, sf.toNat, fef.toNat, lef.toNat, optNat state⟩,
                bad := s.bad || w < 0 || sf < 0 || fef < 0 || lef < 0 }, [])
    | _ => ({ s with bad := true }, [])
  | "l" :: rest =>
    match ints rest with
    | some [a, b, ef, ascr, p] =>
      ({ s with links := s.links.push ⟨a.toNat, b.toNat, ef.toNat, ascr⟩, posts := s.posts.push p,
                bad := s.bad || a < 0 || b < 0 || ef < 0 }, [])
    | _ => ({ s with bad := true }, [])
  | ["g", q] => match parseNat q with
    | some q => ({ s with gstart := q }, [])
    | none => ({ s with bad := true }, [])
  | "a" :: rest =>
    match ints rest with
    | some [f, w, t] => ({ s with arcs := s.arcs.push (f.toNat, optNat w, t.toNat) }, [])
    | _ => ({ s with bad := true }, [])
  | ["run", b] =>
    match parseInt b with
    | some beam => if s.bad then (s, ["bad-input", "end"]) else (s, report s beam)
    | none => (s, ["bad-input", "end"])
  | ["reset"] => ({}, [])
  | _ => (s, [])

partial def loop (h : IO.FS.Stream) (out : IO.FS.Stream) (s : St) : IO Unit := do
  let line ← h.getLine
  if line.isEmpty then return ()
  let (s', o) := step s (words line)
  for l in o do out.putStrLn l
  out.flush
  loop h out s'

def main : IO Unit := do
  let stdin ← IO.getStdin
  let stdout ← IO.getStdout
  loop stdin stdout {}
  stdout.flush

end Driver.C12P
