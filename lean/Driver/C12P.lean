import SSVerif.Model.Lattice
import SSVerif.Model.LatticePrune
import Driver.Util
/-! driver sub-command `c12p` (serves C12, `Props/C12Prune.lean`): reads a lattice dumped by `harness/h_c12p.c` before
`lattice_posterior_prune` (nodes, links with the value `alpha + beta - norm` the C code tests, search FSG) and a beam;
evaluates the model's own `posteriorPrune` (return value, surviving nodes `keepOrder`, links `keptLinks` with old and new
numbers), the clauses of `latticeOKB` and `bestpath` on the pruned lattice, and a second `posteriorPrune` on the result
(posterior of a renumbered link = posterior of its original).

    begin <nframes> <start> <final>
    n <word> <sf> <fef> <lef> <state|-1>
    l <src> <dst> <ef> <ascr> <post>
    g <fsg start>       a <from> <word|-1> <to>
    run <beam>          (may be repeated: same lattice, another beam)      reset

Output per `run`:
    before <name>=<0|1> ... ok=<0|1>      (clauses of latticeOKB on the lattice before pruning)
    ret <n>
    nodes <old positions of the surviving nodes, in order>
    ends <start id> <final id>
    k <old src> <old dst> <new src> <new dst> <ef> <ascr>        (one per link of the pruned lattice, in order)
    clauses <name>=<0|1> ...
    best <score|none>
    second same=<0|1> nodes=<0|1> links=<0|1> start=<0|1> final=<0|1> ret=<n>
    model first=<0|1> second=<0|1>      (the old numbers printed above reproduce the lattice of the model's posteriorPruneFast)
    direct first=<0|1> second=<0|1> loop=<0|1>  |  direct skipped     (fastPrune = the model's posteriorPrune, see below)
    end -/
namespace Driver.C12P
open SSVerif.Lattice SSVerif.Nfa Driver

structure St where
  nframes : Nat := 0
  start : Nat := 0
  final : Nat := 0
  nodes : Array Node := #[]
  links : Array Link := #[]
  posts : Array Int := #[]
  gstart : Nat := 0
  arcs : Array (Nat × Option Nat × Nat) := #[]
  bad : Bool := false

def optNat (z : Int) : Option Nat := if z < 0 then none else some z.toNat
def ints (ws : List String) : Option (List Int) := ws.mapM parseInt
def b01 (b : Bool) : String := if b then "1" else "0"

/-- result of `fastPrune` -/
structure Fast where
  order : List Nat
  kept : List Link
  lat : Lat
  ret : Nat

/-- the parts of `posteriorPruneFast` (same shape: the traversal `vis`, the survivors `S`, the stale flags and the two
sweeps computed once with the model's own `cutB`, `reachGo`, `sweepFuel`, `renumNode`, `renumLink`), keeping also the
OLD numbers of what survives: `order = keepOrder`, `kept = keptLinks`.  Every run compares `(lat, ret)` with the
model's `posteriorPruneFast`, and on lattices of at most `maxDirect` links everything with the model's (cubic)
definitions `posteriorPrune`, `keepOrder`, `keptLinks` themselves. -/
def fastPrune (L : Lat) (post : Link → Int) (beam : Int) : Fast :=
  let vis := traverseEdges L
  let cut := cutB vis post beam
  let S := L.links.filter fun l => !cut l
  let st : Nat → Bool := staleV vis
  let fs := reachGo S (·.src) (·.dst) (fun _ => false) (sweepFuel L) [L.start]
  let te := reachGo S (·.dst) (·.src) st (sweepFuel L) [L.final]
  let keep : Nat → Bool := fun v => v == L.start || v == L.final || (fs.contains v && (st v || te.contains v))
  let order := (List.range L.n).filter keep
  let exitsCutF : Nat → List Link := fun v =>
    let xs := (exits L v).filter fun l => !cut l
    if ((exits L v).filter cut).length % 2 = 1 then xs.reverse else xs
  let kept := order.flatMap fun v => (exitsCutF v).filter fun l => keep l.dst
  { order := order, kept := kept,
    lat := { nframes := L.nframes, nodes := order.map L.node, links := kept.map (renumLink order),
             start := renumNode order L.start, final := renumNode order L.final },
    ret := (vis.filter fun l => decide (post l < beam)).length }

def sameLat (A B : Lat) : Bool :=
  decide (A.nodes = B.nodes) && decide (A.links = B.links) && decide (A.start = B.start) && decide (A.final = B.final) &&
    decide (A.nframes = B.nframes)

/-- largest lattice (links) on which the model's definitions themselves are also run -/
def maxDirect : Nat := 40

def report (s : St) (beam : Int) : List String := Id.run do
  let L : Lat := { nframes := s.nframes, nodes := s.nodes.toList, links := s.links.toList, start := s.start, final := s.final }
  let G : Nfa := { start := s.gstart, final := 0, arcs := s.arcs.toList }
  if s.posts.size ≠ L.links.length then return ["bad-input", "end"]
  let post : Link → Int := fun l => s.posts.getD (L.links.idxOf l) 0
  -- the model's own function (`posteriorPruneFast = posteriorPrune` by `posteriorPruneFast_eq`); `fastPrune` of this
  -- driver only supplies the old numbers of what was kept, and must reproduce the model's lattice
  let (L', ret) := posteriorPruneFast L post beam
  let F := fastPrune L post beam
  let m1 := sameLat F.lat L' && decide (F.ret = ret)
  let mut out : List String :=
    ["before " ++ sepBy " " ((clauseResults G L).map fun (n, b) => s!"{n}={b01 b}") ++ s!" ok={b01 (latticeOKB G L)}",
     s!"ret {ret}", "nodes " ++ sepBy " " (F.order.map toString), s!"ends {L'.start} {L'.final}"]
  for (l, l') in F.kept.zip L'.links do
    out := out ++ [s!"k {l.src} {l.dst} {l'.src} {l'.dst} {l'.ef} {l'.ascr}"]
  let cl := clauseResults G L'
  out := out ++ ["clauses " ++ sepBy " " (cl.map fun (n, b) => s!"{n}={b01 b}")]
  match bestpath L' with
  | none => out := out ++ ["best none"]
  | some (_, sc, _) => out := out ++ [s!"best {sc}"]
  -- second prune: the posterior of a renumbered link is the one of its original
  let posts' : Array Int := (F.kept.map post).toArray
  let post' : Link → Int := fun l => posts'.getD (L'.links.idxOf l) 0
  let (L'', ret2) := posteriorPruneFast L' post' beam
  let F2 := fastPrune L' post' beam
  let m2 := sameLat F2.lat L'' && decide (F2.ret = ret2)
  let sn := decide (L''.nodes = L'.nodes)
  let sl := decide (L''.links = L'.links)
  let ss := decide (L''.start = L'.start)
  let sf := decide (L''.final = L'.final)
  let same := sameLat L'' L' && decide (ret2 = 0)
  out := out ++ [s!"second same={b01 same} nodes={b01 sn} links={b01 sl} start={b01 ss} final={b01 sf} ret={ret2}",
                 s!"model first={b01 m1} second={b01 m2}"]
  -- the model's proof-side definitions themselves (small lattices): posteriorPrune, keepOrder, keptLinks, exitsLoop = exitsCut
  if L.links.length ≤ maxDirect then
    let (M, r) := posteriorPrune L post beam
    let d1 := sameLat M L' && decide (r = F.ret) && decide (keepOrder L post beam = F.order) && decide (keptLinks L post beam = F.kept)
    let (M2, r2) := posteriorPrune L' post' beam
    let d2 := sameLat M2 L'' && decide (r2 = F2.ret)
    let lp := (List.range L.n).all fun v => decide (exitsLoop L post beam v = exitsCut L post beam v)
    out := out ++ [s!"direct first={b01 d1} second={b01 d2} loop={b01 lp}"]
  else out := out ++ ["direct skipped"]
  return out ++ ["end"]

def step (s : St) (ws : List String) : St × List String :=
  match ws with
  | "begin" :: rest =>
    match ints rest with
    | some [nf, st, fi] => ({ nframes := nf.toNat, start := st.toNat, final := fi.toNat, bad := nf < 0 || st < 0 || fi < 0 }, [])
    | _ => ({ bad := true }, [])
  | "n" :: rest =>
    match ints rest with
    | some [w, sf, fef, lef, state] =>
      ({ s with nodes := s.nodes.push ⟨w.toNat, sf.toNat, fef.toNat, lef.toNat, optNat state⟩,
                bad := s.bad || w < 0 || sf < 0 || fef < 0 || lef < 0 }, [])
    | _ => ({ s with bad := true }, [])
  | "l" :: rest =>
    match ints rest with
    | some [a, b, ef, ascr, p] =>
      ({ s with links := s.links.push ⟨a.toNat, b.toNat, ef.toNat, ascr⟩, posts := s.posts.push p,
                bad := s.bad || a < 0 || b < 0 || ef < 0 }, [])
    | _ => ({ s with bad := true }, [])
  | ["g", q] => match parseNat q with
    | some q => ({ s with gstart := q }, [])
    | none => ({ s with bad := true }, [])
  | "a" :: rest =>
    match ints rest with
    | some [f, w, t] => ({ s with arcs := s.arcs.push (f.toNat, optNat w, t.toNat) }, [])
    | _ => ({ s with bad := true }, [])
  | ["run", b] =>
    match parseInt b with
    | some beam => if s.bad then (s, ["bad-input", "end"]) else (s, report s beam)
    | none => (s, ["bad-input", "end"])
  | ["reset"] => ({}, [])
  | _ => (s, [])

partial def loop (h : IO.FS.Stream) (out : IO.FS.Stream) (s : St) : IO Unit := do
  let line ← h.getLine
  if line.isEmpty then return ()
  let (s', o) := step s (words line)
  for l in o do out.putStrLn l
  out.flush
  loop h out s'

def main : IO Unit := do
  let stdin ← IO.getStdin
  let stdout ← IO.getStdout
  loop stdin stdout {}
  stdout.flush

end Driver.C12P
