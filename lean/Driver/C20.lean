import SSVerif.Model.HashTableIter
import SSVerif.Generated.HashPrimes
import Driver.Util
/-! driver sub-command `c20`: replays a hash-table op file on the model -/
namespace Driver.C20
open SSVerif.HashTable Driver

structure St where
  P : Params
  h : HT

def showEntries (l : List Entry) : String :=
  let raw := l.map fun e => s!"{toHex e.key}:{e.val}"
  let sorted := raw.toArray.qsort (· < ·) |>.toList
  sepBy "," sorted ++ " | " ++ sepBy "," raw

def showOpt : Option Int → String
  | none => "o none"
  | some v => s!"o {v}"

def step (s : St) (ws : List String) : St × String :=
  match ws with
  | ["new", sz, nocase, bin] =>
    match parseNat sz with
    | some n =>
      let size := primeSize SSVerif.Generated.hashPrimes (n + n / 2)
      let P := if bin = "1" then binParams size else strParams size (nocase = "1")
      ({ P, h := HT.new size }, s!"size {size}")
    | none => (s, "bad-op")
  | ["enter", k, v] =>
    match parseHex k, parseInt v with
    | some k, some v => let r := enter s.P s.h k v false; ({ s with h := r.1 }, s!"v {r.2}")
    | _, _ => (s, "bad-op")
  | ["replace", k, v] =>
    match parseHex k, parseInt v with
    | some k, some v => let r := enter s.P s.h k v true; ({ s with h := r.1 }, s!"v {r.2}")
    | _, _ => (s, "bad-op")
  | ["delete", k] =>
    match parseHex k with
    | some k => let r := delete s.P s.h k; ({ s with h := r.1 }, showOpt r.2)
    | none => (s, "bad-op")
  | ["lookup", k] =>
    match parseHex k with
    | some k => (s, showOpt (lookup s.P s.h k))
    | none => (s, "bad-op")
  | ["empty"] => ({ s with h := empty s.h }, "ok")
  | ["inuse"] => (s, s!"v {s.h.inuse}")
  -- the cursor walk of hash_table_iter / hash_table_iter_next (Model/HashTableIter), not `flatten`
  | ["iter"] =>
    match iterWalk s.h with
    | some l => (s, "it " ++ showEntries l)
    | none => (s, "it-overrun")
  -- the nested loop of hash_table_tolist and its `*count`
  | ["tolist"] =>
    let (l, cnt) := tolistWalk s.h
    (s, (if l.length = cnt then "" else s!"count-mismatch {l.length} {cnt} ") ++ "it " ++ showEntries l)
  | _ => (s, "bad-op")

def main : IO Unit :=
  runLoop step { P := strParams 101 false, h := HT.new 101 }

end Driver.C20
