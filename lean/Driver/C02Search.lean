import SSVerif.Model.SearchScore
import SSVerif.Model.LexCoverHyps
import Driver.C02
/-! driver sub-command `c02s`: reads the dumps written by `harness/h_c02` (the same stream `c02` reads), builds the
real lextree (`XN`/`XR`/`XC` lines) as a `Search.LexTree`, runs the model's own unpruned scoring search
(`SearchScore.searchStart` / `searchFrame` / `findExit`) on the recorded senone scores and prints, per frame, the
same fingerprint line `Y …` the harness prints for the real search, then the result `findExit` reads, the optimum of
the lextree network (`viterbiArr (treeNet …)`) and the optimum of the flat network. -/
namespace Driver.C02Search
open SSVerif.Viterbi SSVerif.FlatNet SSVerif.Hmm SSVerif.Search SSVerif.Hist SSVerif.SearchScore
open SSVerif.Generated.Search Driver Driver.C02
open SSVerif.NetCover (Cert coverB)

structure XCase where
  c : Case := {}
  /-- `XR` lines with their state -/
  xr : Array (Nat × List Nat) := #[]
  /-- frames after which the harness asked for a partial result (`PH` lines; -1 = after the last frame) -/
  ph : Array Int := #[]
  /-- frame whose full state is wanted (`YDEND` marker of the harness) -/
  detail : Option Int := none
  /-- `OPT fillerallrc 0`: the code under test has fix D110 (a filler leaves to every right context only when it has one phone);
  inserted into the stream by tools/props/c02.py when `fsg_search_pnode_exit` no longer tests `fsg_model_is_filler` -/
  fillerAllRc : Bool := true

def feedX (x : XCase) (ws : List String) : XCase :=
  match ws with
  | "XR" :: s :: ids =>
    match parseNat s, natsOf ids with
    | some s, some ids => { x with xr := x.xr.push (s, ids) }
    | _, _ => { x with c := { x.c with bad := "XR" :: x.c.bad } }
  | ["YDEND", t] => { x with detail := parseInt t }
  | ["OPT", "fillerallrc", v] => { x with fillerAllRc := v != "0" }
  | "PH" :: t :: _ =>
    match parseInt t with
    | some t => { x with ph := x.ph.push t }
    | none => x
  | _ => { x with c := feed x.c ws }

/-! fingerprints (same arithmetic as `dump_Y` of the harness) -/
def HM : Int := 2147483629
def nrm (x : Int) : Int := x % HM
def mix (xs : List Int) : Int := xs.foldl (fun h x => (h * 1000003 + nrm x) % HM) 7

def oi (o : Option Int) : Int := o.getD worstScore

def hmmHash (s : SS) : Nat × Int := Id.run do
  let mut n := 0
  let mut h : Int := 0
  for p in [0:s.hmm.size] do
    let x := hget s.hmm p
    if x.s0.isSome || x.s1.isSome || x.s2.isSome then
      n := n + 1
      h := (h + mix [(p : Int), oi x.s0, oi x.s1, oi x.s2, oi (s.out.getD p none)]) % HM
  return (n, h)

/-- canonical hash of the entries of one kind made in a frame -/
def tokHash (nci : Nat) (toks : Array Tok) : Int := Id.run do
  let mut h : Int := 0
  for i in [0:toks.size] do
    let e := toks[i]!
    for r in e.rc do
      if r < nci then
        let mut win := true
        for j in [0:toks.size] do
          let e2 := toks[j]!
          if j != i && e2.dst == e.dst && e2.lc == e.lc && e2.rc.contains r &&
              (e2.score > e.score || (e2.score == e.score && j < i)) then
            win := false
        if win then h := (h + mix [(e.dst : Int), (e.lc : Int), (r : Int), e.score]) % HM
  return h

def hmmHashB (sb : SSB) : Nat × Int := Id.run do
  let mut n := 0
  let mut h : Int := 0
  for p in [0:sb.s.hmm.size] do
    if sb.act.getD p false then
      let x := hget sb.s.hmm p
      n := n + 1
      h := (h + mix [(p : Int), oi x.s0, oi x.s1, oi x.s2, oi (sb.s.out.getD p none)]) % HM
  return (n, h)

def yLine (id : String) (g : Fsg) (nci : Nat) (t : Int) (s : SS) : String :=
  let (n, hh) := hmmHash s
  let isNull (e : Tok) : Bool := match e.link with | some l => decide ((g.link l).wid < 0) | none => false
  let ex := (s.cur.filter fun e => e.link.isSome && !isNull e).toArray
  let nu := (s.cur.filter fun e => isNull e).toArray
  s!"Y {id} {t} {oi s.best} {n} {hh} {tokHash nci ex} {tokHash nci nu}"

def yLineB (id : String) (g : Fsg) (nci : Nat) (t : Int) (sb : SSB) : String :=
  let s := sb.s
  let (n, hh) := hmmHashB sb
  let isNull (e : Tok) : Bool := match e.link with | some l => decide ((g.link l).wid < 0) | none => false
  let ex := (s.cur.filter fun e => e.link.isSome && !isNull e).toArray
  let nu := (s.cur.filter fun e => isNull e).toArray
  s!"YB {id} {t} {oi s.best} {n} {hh} {tokHash nci ex} {tokHash nci nu}"

def ctxtMask : Option (List Nat) → Nat
  | none => ctxtAll
  | some l => l.foldl (fun m i => m ||| (1 <<< i)) 0

/-- the dumped lextree as the model's `LexTree` -/
def mkLexTree (x : XCase) : LexTree :=
  let c := x.c
  let nodes0 : Array PNode := c.xn.map fun (_, n) =>
    { owner := 0, leaf := n.leaf, link := n.arc.toNat, ciExt := n.ciExt, ssid := n.ssid, tmatid := n.tmat, ppos := n.ppos,
      ctxt := ctxtMask n.ctxt, logs2prob := n.logp }
  let rec chainSib (a : Array PNode) : List Nat → Array PNode
    | p :: q :: rest => chainSib (setSibling a p (some q)) (q :: rest)
    | _ => a
  let a1 := c.xc.foldl (fun a (p, kids) => chainSib (setSucc a p kids.head?) kids) nodes0
  let a2 := x.xr.foldl (fun a (_, ids) => chainSib a ids) a1
  let root : Array (Option Nat) := x.xr.foldl (fun r (s, ids) =>
    let r := if r.size ≤ s then r ++ Array.replicate (s + 1 - r.size) none else r
    r.set! s ids.head?) (Array.replicate c.nstate none)
  { nst := 3, nodes := a2, root := root }


/-! ### certificate that the model's flat network covers the lextree network (untrusted search; `coverB` / `emAgreeB`
are the model's own decidable checks, `C02_unpruned_search_is_dp_partial`) -/

partial def treePaths (E : Env) (fuel : Nat) (p : Nat) (pre : List Nat) : List (List Nat) :=
  if (E.node p).leaf then [(p :: pre).reverse]
  else if fuel == 0 then []
  else (E.lt.children p).flatMap fun c => treePaths E (fuel - 1) c (p :: pre)

def bitOK (ctxt : Nat) : Option Nat → Bool
  | none => true
  | some x => ctxt.testBit x

/-- pnode of every flat instance (`none`: no matching root-to-leaf path) -/
def instNode (E : Env) (paths : List (List Nat)) (h : Inst) : Option Nat :=
  let ok (P : List Nat) : Bool :=
    match P.getLast?, P[h.pos]? with
    | some lf, some nd =>
      (E.node lf).link == h.arc && (E.node nd).ssid == h.ssid &&
      (!h.isRoot || bitOK (E.node nd).ctxt h.lc) &&
      (!h.isLeaf || (nd == lf && (h.isRoot || bitOK (E.node nd).ctxt h.rc)))
      && (h.isLeaf || nd != lf)
    | _, _ => false
  (paths.find? ok).bind fun P => P[h.pos]?

def mkCert (E : Env) (insts : Array Inst) : Option Cert :=
  let roots := (List.range E.lt.root.size).flatMap fun d => E.lt.roots d
  let paths := roots.flatMap fun r => treePaths E 64 r []
  match insts.toList.mapM (instNode E paths) with
  | none => none
  | some nodes =>
    let nodeA := nodes.toArray
    let keyOf (hi : Nat) : Nat × Option Nat := (nodeA.getD hi 0, if (insts.getD hi default).isRoot then (insts.getD hi default).lc else none)
    let rep : Array Nat := ((List.range insts.size).map fun hi =>
      ((List.range insts.size).find? fun hj => keyOf hj == keyOf hi).getD hi).toArray
    some { n2 := 3 * insts.size, f := fun s => 3 * nodeA.getD (s / 3) 0 + s % 3, cls := fun s => 3 * rep.getD (s / 3) 0 + s % 3 }

def showO : Option Int → String
  | none => "none"
  | some v => toString v

def finishX (x : XCase) : List String := Id.run do
  let c := x.c
  if !c.bad.isEmpty then return [s!"case {c.id} error {sepBy ";" c.bad.reverse}"]
  let idsOK := (c.xn.toList.zipIdx.all fun ((id, _), i) => id == i)
  if !idsOK then return [s!"case {c.id} error lextree-ids"]
  let tmatT := tableOf c.tmat
  let sseqT := tableOf c.sseq
  let tmatF : Nat → List Nat := fun t => (look tmatT t).getD []
  let sseqF : Nat → List Nat := fun s => (look sseqT s).getD []
  let lt := mkLexTree x
  let g : Fsg := { links := c.arcs.map (fun a => ⟨a.src, a.dst, a.logp, match a.wid with | some w => (w : Int) | none => -1⟩),
                   start := c.start, final := c.final, filler := [] }
  let anyRc : Nat → Bool := fun w => match look c.words w with | some wd => (x.fillerAllRc && wd.filler) || wd.pron.length == 1 | none => false
  let E : Env := { lt, g, tmat := tmatF, sil := c.sil, anyRc }
  let T := c.frames.size
  if T == 0 then return [s!"case {c.id} error no-frames"]
  let maxSen := c.sens.foldl max 0
  let col : Array Nat := Id.run do
    let mut a := Array.replicate (maxSen + 1) 0
    for h : i in [0:c.sens.size] do a := a.set! c.sens[i] i
    return a
  let frames := c.frames
  let e : Nat → Nat → Nat → Int := fun t ss k => - ((frames.getD t #[]).getD (col.getD ((sseqF ss).getD k 0) 0) 0)
  let dataOK := lt.nodes.all fun n =>
    (sseqF n.ssid).length == 3 && (sseqF n.ssid).all (fun s => c.sens.contains s) && (tmatF n.tmatid).length == 12
  let mut out : Array String := #[]
  let mut s := searchStart E
  out := out.push (yLine c.id g c.nci (-1) s)
  for t in [0:T] do
    s := searchFrame E (e t) s
    out := out.push (yLine c.id g c.nci t s)
  -- the same with the beams the real search holds
  let mut sb := searchStartBeam E c.beams.beam c.beams.wbeam
  out := out.push (yLineB c.id g c.nci (-1) sb)
  let detailLines (sb : SSB) : Array String := Id.run do
    let mut o : Array String := #[]
    for p in [0:sb.s.hmm.size] do
      if sb.act.getD p false then
        let h := hget sb.s.hmm p
        o := o.push s!"YM {c.id} H {p} {oi h.s0} {oi h.s1} {oi h.s2} {oi (sb.s.out.getD p none)}"
    for tk in sb.s.cur do
      match tk.link with
      | none => pure ()
      | some l =>
        let rc := tk.rc.filter (· < c.nci)
        o := o.push s!"YM {c.id} E {if (g.link l).wid < 0 then 1 else 0} {tk.dst} {tk.lc} {tk.score} {if rc.isEmpty then "-" else sepBy "," (rc.map toString)}"
    return o
  if x.detail == some (-1) then out := out ++ detailLines sb
  let phLine (t : Int) (sb : SSB) : String :=
    match findExitPartial sb.s.table with
    | some (_, some v) => s!"PH {c.id} {t} {v}"
    | _ => s!"PH {c.id} {t} none"
  for t in [0:T] do
    sb := searchFrameBeam E c.beams.beam c.beams.pbeam c.beams.wbeam (e t) sb
    out := out.push (yLineB c.id g c.nci t sb)
    if x.ph.contains (t : Int) then out := out.push (phLine t sb)
    if x.detail == some (t : Int) then out := out ++ detailLines sb
  if x.ph.contains (-1) then out := out.push (phLine (-1) sb)
  let feB := findExit g.final sb.s.table
  let (efB, scB) : Int × Option Int := match feB with | some (f, v) => (f, v) | none => (-2, none)
  let fe := findExit g.final s.table
  let (ef, sc) : Int × Option Int := match fe with | some (f, v) => (f, v) | none => (-2, none)
  -- the lextree read as a network, and the model's flat network: their optima
  let N := treeNet E
  let nT := 3 * E.n
  let treeOpt := if N.wf nT then showO (viterbiArr N nT (treeEm E e) T) else "illformed"
  -- the model's flat network and the cover certificate
  let ssidT := tableOf c.ssid
  let ciS := tableOf c.ciSsid
  let ciT := tableOf c.ciTmat
  let nci := c.nci
  let M : Model := {
    sil := c.sil, start := c.start, final := c.final, arcs := c.arcs.toList,
    word := fun w => look c.words w,
    ssid := fun ci lc rc wpos => look ssidT (key nci ci lc rc wpos),
    ciSsid := look ciS, ciTmat := look ciT, wip := c.wip, pip := c.pip }
  let (cover, emag, flatOpt) : String × String × String := match build M tmatF with
    | none => ("nobuild", "nobuild", "none")
    | some (L, insts) =>
      let fo := showO (viterbiArr L.toNet L.n (flatEm insts e) T)
      match mkCert E insts with
      | none => ("nocert", "nocert", fo)
      | some C => (toString (coverB N L.toNet C), toString (emAgreeB E insts C), fo)
  return (out.push s!"case {c.id} search {showO sc} exitframe {ef} T {T} pnodes {E.n} entries {s.table.length} data {dataOK} chains {lt.chainsEndB} tree {treeOpt} treeedges {N.edges.length} cover {cover} emagree {emag} flat {flatOpt} beamsearch {showO scB} beamexit {efB} tablesagree {decide (sb.s.table = s.table)} leafctx {SSVerif.LexCover.leafCtxB lt} fillersingle {!x.fillerAllRc || SSVerif.LexCover.fillerSingleB M} ctxrange {SSVerif.LexCover.ctxRangeB M}").toList

partial def loop (h : IO.FS.Stream) (out : IO.FS.Stream) (x : XCase) : IO Unit := do
  let line ← h.getLine
  if line.isEmpty then return ()
  let ws := words line
  match ws with
  | ["case", id] => loop h out { c := { id := id } }
  | "end" :: _ =>
    for l in finishX x do out.putStrLn l
    out.flush
    loop h out {}
  | _ => loop h out (feedX x ws)

def main : IO Unit := do
  let stdin ← IO.getStdin
  let stdout ← IO.getStdout
  loop stdin stdout {}
  stdout.flush

end Driver.C02Search
