import SSVerif.Model.Endpointer
import Driver.Util
/-! driver sub-command `c15`: replays an endpointer op file on the model (`SSVerif.Endpointer`).
Frames are represented by their ids (process frames 0,1,2,…; trailing frames 10^9 + k). -/
namespace Driver.C15
open SSVerif.Endpointer Driver

structure St where
  c : Option Cfg
  e : Ep Nat
  nextId : Nat
  nextTrail : Nat
  dead : Bool

def trailBase : Nat := 1000000000

def samples (c : Cfg) (t : Time) : Nat := t.frames * c.frameSize + t.samples

def tail (c : Cfg) (e : Ep Nat) (err : Bool) : String :=
  s!" insp={if e.inSpeech then 1 else 0} start={e.speechStart * c.frameSize} end={samples c e.speechEnd}" ++
  s!" q={e.qstart * c.frameSize} ts={e.tsFrames * c.frameSize + e.tsSamples} n={e.n} err={if err then 1 else 0} | pos={e.pos}"

def showIds (l : List String) : String := if l.isEmpty then "-" else sepBy "," l

def step (s : St) (ws : List String) : St × String :=
  match ws with
  | ["init", m, st, en, fs] =>
    match parseInt m, parseInt st, parseInt en, parseNat fs with
    | some m, some st, some en, some fs =>
      match initCfg m st en fs with
      | some c =>
        ({ c := some c, e := Ep.init c 0, nextId := 0, nextTrail := 0, dead := false },
         s!"init ok maxlen={c.maxlen} start={c.startFrames} end={c.endFrames} fs={c.frameSize}")
      | none => ({ s with c := none }, "init fail")
    | _, _, _, _ => (s, "bad-op")
  | ["initfail"] => ({ s with c := none }, "init fail")
  | ["p", d] =>
    match s.c with
    | none => (s, "noep")
    | some c =>
      if s.dead then (s, "crash") else
      match process c s.e (d != "0") s.nextId with
      | none => ({ s with dead := true }, "crash")
      | some (e, o) =>
        let r := match o.ret with | none => "none" | some i => toString i
        ({ s with e := e, nextId := s.nextId + 1 }, s!"p ret={r}" ++ tail c e o.overflow)
  | ["e", ns] =>
    match s.c, parseNat ns with
    | some c, some nsamp =>
      if s.dead then (s, "crash") else
      let tid := trailBase + s.nextTrail
      match endStream c s.e nsamp tid with
      | none => ({ s with dead := true }, "crash")
      | some (e, o) =>
        let s' := { s with e := e, nextTrail := s.nextTrail + 1 }
        match o with
        | .tooLong => (s', "e ret=null out=untouched" ++ tail c e true)
        | .notInSpeech => (s', "e ret=null out=0" ++ tail c e false)
        | .data frames trail ovf =>
          let ids := frames.map toString
          let (tl, extra) := match trail with
            | none => ([], 0)
            | some (t, k) => ((if k = 0 then [] else if t = tid then [s!"T{k}"] else [s!"corrupt@{frames.length * c.frameSize}"]), k)
          (s', s!"e ret={showIds (ids ++ tl)} out={frames.length * c.frameSize + extra}" ++ tail c e ovf)
    | none, _ => (s, "noep")
    | _, _ => (s, "bad-op")
  | _ => (s, "bad-op")

def main : IO Unit :=
  runLoop step { c := none, e := Ep.init ⟨0, 0, 0, 0⟩ 0, nextId := 0, nextTrail := 0, dead := false }

end Driver.C15
