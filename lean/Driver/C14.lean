import SSVerif.Model.Json
import Driver.Util
/-! driver sub-command `c14`: runs the model of `decoder_result_json` (and the JSON recogniser) on dumped results.

One input line per case (tokens separated by blanks; byte strings in hex, `-` = empty, `null` = NULL):

`case level <int> frate <int> nfr <int> prob <int> hyp <hex> text <hex> segs <n> (<word> <sf> <ef> <prob>)*
 al (null | <nw> (<name> <start> <dur> <score> <np> (<name> <start> <dur> <score> <ns> (<name> <start> <dur> <score>)*)*)*)
 fmt <k> (<key> <hex>)*`

`text` is what the C function returned; `fmt` maps the symbolic `%.3f` arguments (`S`, `T:<f>:<frate>`,
`R:<n>:<frate>`, `P:<logp>`) to the text the C code rendered for them.  Output: the model's return kind, allocation,
flags and line, whether the recogniser accepts the C line as one object + newline, and whether the value it denotes
is the tree the property prescribes (compared through the compact print, which the recogniser inverts). -/
namespace Driver.C14
open SSVerif.Json Driver

abbrev P := StateT (List String) Option

def tok : P String := do
  match (← get) with
  | [] => failure
  | t :: r => set r; pure t

def expect (s : String) : P Unit := do
  let t ← tok
  if t = s then pure () else failure

def int : P Int := do
  match parseInt (← tok) with
  | some i => pure i
  | none => failure

def nat : P Nat := do
  match parseNat (← tok) with
  | some i => pure i
  | none => failure

def optBytes : P (Option Bytes) := do
  let t ← tok
  if t = "null" then pure none else
  match parseHex t with
  | some b => pure (some b)
  | none => failure

def rep {α : Type} (p : P α) : Nat → P (List α)
  | 0 => pure []
  | n + 1 => do
    let a ← p
    let r ← rep p n
    pure (a :: r)

def aent : P AEnt := do
  let name ← optBytes
  let start ← int
  let dur ← int
  let score ← int
  pure { name, start, dur, score }

def seg : P Seg := do
  let word ← optBytes
  let sf ← int
  let ef ← int
  let prob ← int
  pure { word, sf, ef, prob }

def phone : P APhone := do
  let e ← aent
  let ns ← nat
  let states ← rep aent ns
  pure { e, states }

def word : P AWord := do
  let e ← aent
  let np ← nat
  let phones ← rep phone np
  pure { e, phones }

def numKey (s : String) : Option Num :=
  match s.splitOn ":" with
  | ["S"] => some .start
  | ["T", f, fr] => do some (.time (← parseInt f) (← parseInt fr))
  | ["R", n, fr] => do some (.ratio (← parseInt n) (← parseInt fr))
  | ["P", p] => do some (.prob (← parseInt p))
  | _ => none

def fmtEntry : P (Num × Bytes) := do
  let k ← tok
  let v ← optBytes
  match numKey k, v with
  | some n, some b => pure (n, b)
  | _, _ => failure

structure Case where
  level : Int
  r : Result
  text : Option Bytes
  table : List (Num × Bytes)

def parseCase : P Case := do
  expect "case"
  expect "level"; let level ← int
  expect "frate"; let frate ← int
  expect "nfr"; let nframes ← int
  expect "prob"; let prob ← int
  expect "hyp"; let hyp ← optBytes
  expect "text"; let text ← optBytes
  expect "segs"; let n ← nat
  let segs ← rep seg n
  expect "al"
  let t ← tok
  let align ← if t = "null" then pure none else
    match parseNat t with
    | some nw => do pure (some (← rep word nw))
    | none => failure
  expect "fmt"; let k ← nat
  let table ← rep fmtEntry k
  pure { level, r := { hyp, prob, nframes, frate, segs, align }, text, table }

def lookup (table : List (Num × Bytes)) (a : Num) : Option Bytes :=
  (table.find? (fun kv => kv.1 = a)).map (·.2)

/-- the rendering reported by the harness; a missing entry renders as `?` (never a JSON number, so it shows) -/
def mkFmt (table : List (Num × Bytes)) : Fmt :=
  { num := fun a => (lookup table a).getD [63], numLen := fun a => ((lookup table a).getD [63]).length,
    numLen_eq := fun _ => rfl }

def b01 (b : Bool) : String := if b then "1" else "0"

def step (_ : Unit) (ws : List String) : Unit × String :=
  match parseCase.run ws with
  | none => ((), "bad-case")
  | some (c, _) =>
    let fmt := mkFmt c.table
    let expected := tree fmt c.r c.level
    let (cvalid, ctree) := match c.text with
      | none => (false, false)
      | some t =>
        match parseLine t with
        | none => (false, false)
        | some v => (true, printV v == printV expected)
    match resultJson fmt c.r c.level with
    | none => ((), s!"model ret=null alloc=0 ok=1 dry=1 text=null cvalid={b01 cvalid} ctree={b01 ctree}")
    | some o =>
      ((), s!"model ret=ok alloc={o.alloc} ok={b01 o.mem.ok} dry={b01 o.dryOk} text={toHex (cstr o.mem.bytes)} " ++
           s!"cvalid={b01 cvalid} ctree={b01 ctree}")

def main : IO Unit := runLoop step ()

end Driver.C14
