import SSVerif.Model.TextFsg
import SSVerif.Model.TextDict
import SSVerif.Model.TextJson
import SSVerif.Model.TextSvspec
import SSVerif.Model.DictLoad
import Driver.Util
/-! driver sub-command `c10`: runs the text-input models on the cases of `harness/h_c10.c`.
Input lines: `- <fact> …` (facts printed by the harness: phone names, base dictionary, …) and
`<id> <kind> <hex1> <hex2|.> <flag|.>`; output lines start with the case id. -/
namespace Driver.C10
open SSVerif.TextIn Driver

def showLit : FloatLit → String
  | .nan => "n"
  | .inf neg => if neg then "i-" else "i+"
  | .fin neg m ten e => s!"f{if neg then "-" else "+"}{m}:{if ten then 10 else 2}:{e}"

def errName : FsgErr → String
  | .beginMissing => "beginMissing" | .nStatesMissing => "nStatesMissing"
  | .nStatesMalformed => "nStatesMalformed" | .allocFail => "allocFail"
  | .startMissing => "startMissing" | .startMalformed => "startMalformed"
  | .finalMissing => "finalMissing" | .finalMalformed => "finalMalformed"
  | .fromMissing => "fromMissing" | .fromInvalid => "fromInvalid"
  | .toMissing => "toMissing" | .toInvalid => "toInvalid"
  | .probMissing => "probMissing" | .probMalformed => "probMalformed"

def caseFsg (id : String) (b : List UInt8) : List String :=
  match fsgRead b.toArray with
  | .error e => [s!"{id} rej {errName e}"]
  | .ok f =>
    [s!"{id} ok {f.nState} {f.start} {f.final} {f.vocab.length}",
     s!"{id} vocab" ++ String.join (f.vocab.map fun w => " " ++ toHex w),
     s!"{id} trans" ++ String.join (f.trans.map fun (i, j, w, p) => s!" {i},{j},{w},{showLit p}"),
     s!"{id} nulls" ++ String.join (f.nulls.map fun (i, j, p) => s!" {i},{j},{showLit p}")]

structure Facts where
  phones : List (List UInt8) := []
  sil : Nat := 0
  baseDict : List (List UInt8) := []
  veclen : Nat := 13
  defs : List CfgDef := []
deriving Inhabited

def showNats (l : List Nat) : String := ",".intercalate (l.map toString)

def showEntries (ws : List DictWord) : String :=
  String.join (ws.map fun e =>
    s!" {toHex e.word}:{showNats e.pron}:{e.basewid}:{match e.alt with | some a => toString a | none => "-1"}")

def showOptNat : Option Nat → String
  | some a => toString a
  | none => "-1"

def loadErrName : SSVerif.DictLoad.LoadErr → String
  | .tooMany => "tooMany" | .startInMain => "startInMain" | .finishInMain => "finishInMain"
  | .silInMain => "silInMain" | .silNotFiller => "silNotFiller"

/-- counts of the report entries: comment, blank, noPron, badPhone, duplicate, missing base, loaded -/
def repCounts (rep : List SSVerif.DictLoad.LineRes) : List Nat :=
  rep.foldl (fun acc r =>
    let k := match r with
      | .comment => 0 | .blank => 1 | .noPron => 2 | .badPhone => 3
      | .refused _ false => 4 | .refused _ true => 5 | .loaded .. => 6
    acc.modify k (· + 1)) (List.replicate 7 0)

/-- the loaded lines of a report must be exactly the entries `[start, …)` of the final word table, in
order, with their spelling and phones (the statement of `C10_dict_loaded_found`, re-evaluated) -/
def repMatches (rep : List SSVerif.DictLoad.LineRes) (d : SSVerif.Dict.Dict) : Bool :=
  rep.all fun r => match r with
    | .loaded i w p => d.wordid w == some i &&
        (match d.words[i]? with | some e => e.word == w && e.pron == p | none => false)
    | _ => true

/-- `dict` case: the C10 reader model (`TextIn.dictInit`, case-sensitive) and the bridge
`DictLoad.loadDict` (C10 tokeniser feeding C16's `dict_add_word`; lines prefixed `L`).  With flag
`nocase` (`dictcase` set) only the bridge exists; its result is printed under the plain keys too. -/
def caseDict (s : Facts) (id : String) (b1 : List UInt8) (b2 : Option (List UInt8)) (nocase : Bool) : List String :=
  let mdef : SSVerif.Dict.Mdef := { ciphones := s.phones, sil := s.sil }
  let t := dictInit s.phones s.sil (some b1.toArray) (b2.map (·.toArray))
  let tl : List String := match t with
    | .error e => [s!"{id} rej {repr e}"]
    | .ok d =>
      [s!"{id} ok {d.size} {d.fillerStart} {(d.size : Int) - 1}", s!"{id} words" ++ showEntries d.words]
  match SSVerif.DictLoad.loadDict mdef nocase (some b1.toArray) (b2.map (·.toArray)) with
  | .error e =>
    let sim := match t with | .error _ => true | .ok _ => false
    (if nocase then [s!"{id} rej {loadErrName e}"] else tl ++ [s!"{id} Lsim {if sim then 1 else 0}"]) ++
    [s!"{id} Lrej {loadErrName e}"]
  | .ok r =>
    let d := r.dict
    let p := SSVerif.DictLoad.proj d
    let hdr := s!"{d.words.length} {d.fillerStart} {d.fillerEnd}"
    let sim := match t with
      | .error _ => false
      | .ok dT => dT.words == p.words && dT.fillerStart == p.fillerStart
    (if nocase then [s!"{id} ok {hdr}", s!"{id} words" ++ showEntries p.words]
     else tl ++ [s!"{id} Lsim {if sim then 1 else 0}"]) ++
    [s!"{id} Lok {hdr}", s!"{id} Lwords" ++ showEntries p.words,
     s!"{id} Lwids" ++ String.join (d.words.map fun e => " " ++ showOptNat (d.wordid e.word)),
     s!"{id} Lspecial {showOptNat d.startwid} {showOptNat d.finishwid} {showOptNat d.silwid}",
     s!"{id} Lrep" ++ String.join ((repCounts (r.mainRep ++ r.fillerRep)).map fun n => s!" {n}"),
     s!"{id} Lfound {if repMatches (r.mainRep ++ r.fillerRep) d then 1 else 0}",
     s!"{id} Lmaxwid {SSVerif.DictLoad.maxS3wid}"] ++
    -- run-time additions after the load (`C16_wf_loaded_then_anything`): alternate of word 0, duplicate, alternate without base
    (let w0 : List UInt8 := ((d.words[0]?).map (·.word)).getD []
     let s1 := SSVerif.Dict.dictAddWord d (w0 ++ "(77)".toUTF8.data.toList) [mdef.sil]
     let s2 := SSVerif.Dict.dictAddWord s1.1 w0 [mdef.sil]
     let s3 := SSVerif.Dict.dictAddWord s2.1 "zz-nobase(2)".toUTF8.data.toList [mdef.sil]
     let d' := s3.1
     [s!"{id} Ladds {showOptNat s1.2} {showOptNat s2.2} {showOptNat s3.2}",
      s!"{id} Lwords2" ++ showEntries (SSVerif.DictLoad.proj d').words,
      s!"{id} Lwids2" ++ String.join (d'.words.map fun e => " " ++ showOptNat (d'.wordid e.word))])

def showVal : CfgVal → String
  | .int v => s!"i:{v}"
  | .flt v => s!"f:{showLit v}"
  | .str none => "s:null"
  | .str (some b) => s!"s:{toHex b}"
  | .bool b => if b then "b:1" else "b:0"

def showCfg (c : Config) (only : Option (List UInt8)) : String :=
  String.join ((c.filter fun (d, _) => match only with | some k => d.name == k | none => true).map
    fun (d, v) => s!" {String.fromUTF8! (ByteArray.mk d.name.toArray)}={showVal v}")

def jsonErrName : JsonErr → String
  | .inval => "inval" | .part => "part" | .empty => "empty" | .badKey => "badKey"
  | .missingValue => "missingValue" | .badParam => "badParam"

def caseJson (s : Facts) (id : String) (b : List UInt8) : List String :=
  match configParseJson s.defs b with
  | .error e => [s!"{id} rej {jsonErrName e}"]
  | .ok c => [s!"{id} ok", s!"{id} cfg" ++ showCfg c none]

def cstr (b : List UInt8) : List UInt8 := b.takeWhile (· != 0)

def caseSetStr (s : Facts) (id : String) (k v : List UInt8) : List String :=
  match configSetStr (configInit s.defs) (cstr k) (cstr v) with
  | none => [s!"{id} rej"]
  | some c => [s!"{id} ok", s!"{id} cfg" ++ showCfg c (some (cstr k))]

/-- the decoder's dictionary as far as the text models need it: the word strings in id order -/
def baseDictOf (s : Facts) : Dict :=
  { words := s.baseDict.map fun w => { word := w, pron := [], basewid := 0, alt := none } }

def caseAlign (s : Facts) (id : String) (b : List UInt8) : List String :=
  match alignWords (baseDictOf s) (cstr b) with
  | .error w => [s!"{id} rc -1 {toHex w}"]
  | .ok ws =>
    [s!"{id} rc 0", s!"{id} seq" ++ String.join (ws.map fun w => " " ++ toHex w),
     s!"{id} shape {ws.length + 1} 0 {ws.length}"]

def caseAddWord (s : Facts) (id : String) (w p : List UInt8) : List String :=
  let d := baseDictOf s
  match addWord s.phones d (cstr w) (cstr p) with
  | .error e => [s!"{id} wid -1 nword {d.size} {repr e}"]
  | .ok (d', wid) =>
    [s!"{id} wid {wid} nword {d'.size}",
     s!"{id} pron" ++ String.join ((match d'.words[wid]? with | some e => e.pron | none => []).map fun i => s!" {i}")]

def caseCmn (s : Facts) (id : String) (b : List UInt8) : List String :=
  match cmnSet s.veclen (cstr b) with
  | none => [s!"{id} rc -1"]
  | some ms => [s!"{id} rc 0", s!"{id} means" ++ String.join (ms.map fun l => " " ++ showLit l)]

def svErrName : SvErr → String
  | .noInt => "noInt" | .badRange => "badRange" | .dup => "dup" | .badDelim => "badDelim"

def svSetErrName : SvSetErr → String
  | .multiStream => "multiStream" | .dimOutside => "dimOutside" | .tooMany => "tooMany"

/-- `svspec`: `parse_subvecs`, then `feat_set_subvecs` on the default feature (1 stream, 39 dimensions:
the harness prints what it used and the check compares), then `feat_subvec_project` on the frame whose
component `d` is the number `d` — `svProject` is parametric in the frame, so this determines it -/
def caseSvspec (id : String) (b : List UInt8) : List String :=
  match parseSubvecs (cstr b) with
  | .error e => [s!"{id} rej {svErrName e}"]
  | .ok vs =>
    let dump := s!"{id} ok" ++ String.join (vs.map fun v => " " ++ showNats v)
    let nStream := 1
    let dim := 39
    match svSet nStream dim vs with
    | .error e => [dump, s!"{id} set -1 {svSetErrName e}"]
    | .ok (nsv, svdim) =>
      let frame : Array Int := (Array.range dim).map fun (d : Nat) => (d : Int)
      let proj : List Int :=
        if h : ∀ v ∈ vs, ∀ d ∈ v, d < frame.size then svProject frame vs h else []
      [dump, s!"{id} set 0 {nsv} {svdim}", s!"{id} idx" ++ String.join (proj.map fun x => s!" {x}")]

def parseDef (t : String) : Option CfgDef :=
  match t.splitOn ":" with
  | [n, ty, d] =>
    match parseNat ty with
    | some ty => some { name := n.toUTF8.toList, ty, deflt := if d == "null" then none else parseHex d }
    | none => none
  | _ => none

def step (s : Facts) (ws : List String) : Facts × List String :=
  match ws with
  | "-" :: "phones" :: r => ({ s with phones := r.filterMap parseHex }, [])
  | "-" :: "sil" :: [n] => ({ s with sil := (parseNat n).getD 0 }, [])
  | "-" :: "basedict" :: r => ({ s with baseDict := r.filterMap parseHex }, [])
  | "-" :: "veclen" :: [n] => ({ s with veclen := (parseNat n).getD 13 }, [])
  | "-" :: "defs" :: r => ({ s with defs := r.filterMap parseDef }, [])
  | "-" :: _ => (s, [])
  | [id, kind, h1, h2, flag] =>
    match parseHex h1 with
    | none => (s, [s!"{id} bad-hex"])
    | some b1 =>
      let b2 : Option (List UInt8) := if h2 == "." then none else parseHex h2
      let out := match kind with
        | "fsg" => caseFsg id b1
        | "dict" => caseDict s id b1 b2 (flag == "nocase")
        | "json" => caseJson s id b1
        | "setstr" => caseSetStr s id b1 (b2.getD [])
        | "align" => caseAlign s id b1
        | "addword" => caseAddWord s id b1 (b2.getD [])
        | "cmn" => caseCmn s id b1
        | "svspec" => caseSvspec id b1
        | _ => [s!"{id} unmodelled"]
      (s, out)
  | _ => (s, [])

partial def loop (h out : IO.FS.Stream) (s : Facts) : IO Unit := do
  let line ← h.getLine
  if line.isEmpty then return ()
  let (s', o) := step s (words line)
  for l in o do out.putStrLn l
  loop h out s'

def main : IO Unit := do
  let stdin ← IO.getStdin
  let stdout ← IO.getStdout
  loop stdin stdout {}
  stdout.flush

end Driver.C10
