import SSVerif.Model.TextFsg
import SSVerif.Model.TextDict
import SSVerif.Model.TextJson
import SSVerif.Model.TextSvspec
import Driver.Util
/-! driver sub-command `c10`: runs the text-input models on the cases of `harness/h_c10.c`.
Input lines: `- <fact> …` (facts printed by the harness: phone names, base dictionary, …) and
`<id> <kind> <hex1> <hex2|.> <flag|.>`; output lines start with the case id. -/
namespace Driver.C10
open SSVerif.TextIn Driver

def showLit : FloatLit → String
  | .nan => "n"
  | .inf neg => if neg then "i-" else "i+"
  | .fin neg m ten e => s!"f{if neg then "-" else "+"}{m}:{if ten then 10 else 2}:{e}"

def errName : FsgErr → String
  | .beginMissing => "beginMissing" | .nStatesMissing => "nStatesMissing"
  | .nStatesMalformed => "nStatesMalformed" | .allocFail => "allocFail"
  | .startMissing => "startMissing" | .startMalformed => "startMalformed"
  | .finalMissing => "finalMissing" | .finalMalformed => "finalMalformed"
  | .fromMissing => "fromMissing" | .fromInvalid => "fromInvalid"
  | .toMissing => "toMissing" | .toInvalid => "toInvalid"
  | .probMissing => "probMissing" | .probMalformed => "probMalformed"

def caseFsg (id : String) (b : List UInt8) : List String :=
  match fsgRead b.toArray with
  | .error e => [s!"{id} rej {errName e}"]
  | .ok f =>
    [s!"{id} ok {f.nState} {f.start} {f.final} {f.vocab.length}",
     s!"{id} vocab" ++ String.join (f.vocab.map fun w => " " ++ toHex w),
     s!"{id} trans" ++ String.join (f.trans.map fun (i, j, w, p) => s!" {i},{j},{w},{showLit p}"),
     s!"{id} nulls" ++ String.join (f.nulls.map fun (i, j, p) => s!" {i},{j},{showLit p}")]

structure Facts where
  phones : List (List UInt8) := []
  sil : Nat := 0
  baseDict : List (List UInt8) := []
  veclen : Nat := 13
  defs : List CfgDef := []
deriving Inhabited

def showNats (l : List Nat) : String := ",".intercalate (l.map toString)

def caseDict (s : Facts) (id : String) (b1 : List UInt8) (b2 : Option (List UInt8)) : List String :=
  match dictInit s.phones s.sil (some b1.toArray) (b2.map (·.toArray)) with
  | .error e => [s!"{id} rej {repr e}"]
  | .ok d =>
    [s!"{id} ok {d.size} {d.fillerStart} {(d.size : Int) - 1}",
     s!"{id} words" ++ String.join (d.words.map fun e =>
        s!" {toHex e.word}:{showNats e.pron}:{e.basewid}:{match e.alt with | some a => toString a | none => "-1"}")]

def showVal : CfgVal → String
  | .int v => s!"i:{v}"
  | .flt v => s!"f:{showLit v}"
  | .str none => "s:null"
  | .str (some b) => s!"s:{toHex b}"
  | .bool b => if b then "b:1" else "b:0"

def showCfg (c : Config) (only : Option (List UInt8)) : String :=
  String.join ((c.filter fun (d, _) => match only with | some k => d.name == k | none => true).map
    fun (d, v) => s!" {String.fromUTF8! (ByteArray.mk d.name.toArray)}={showVal v}")

def jsonErrName : JsonErr → String
  | .inval => "inval" | .part => "part" | .empty => "empty" | .badKey => "badKey"
  | .missingValue => "missingValue" | .badParam => "badParam"

def caseJson (s : Facts) (id : String) (b : List UInt8) : List String :=
  match configParseJson s.defs b with
  | .error e => [s!"{id} rej {jsonErrName e}"]
  | .ok c => [s!"{id} ok", s!"{id} cfg" ++ showCfg c none]

def cstr (b : List UInt8) : List UInt8 := b.takeWhile (· != 0)

def caseSetStr (s : Facts) (id : String) (k v : List UInt8) : List String :=
  match configSetStr (configInit s.defs) (cstr k) (cstr v) with
  | none => [s!"{id} rej"]
  | some c => [s!"{id} ok", s!"{id} cfg" ++ showCfg c (some (cstr k))]

/-- the decoder's dictionary as far as the text models need it: the word strings in id order -/
def baseDictOf (s : Facts) : Dict :=
  { words := s.baseDict.map fun w => { word := w, pron := [], basewid := 0, alt := none } }

def caseAlign (s : Facts) (id : String) (b : List UInt8) : List String :=
  match alignWords (baseDictOf s) (cstr b) with
  | .error w => [s!"{id} rc -1 {toHex w}"]
  | .ok ws =>
    [s!"{id} rc 0", s!"{id} seq" ++ String.join (ws.map fun w => " " ++ toHex w),
     s!"{id} shape {ws.length + 1} 0 {ws.length}"]

def caseAddWord (s : Facts) (id : String) (w p : List UInt8) : List String :=
  let d := baseDictOf s
  match addWord s.phones d (cstr w) (cstr p) with
  | .error e => [s!"{id} wid -1 nword {d.size} {repr e}"]
  | .ok (d', wid) =>
    [s!"{id} wid {wid} nword {d'.size}",
     s!"{id} pron" ++ String.join ((match d'.words[wid]? with | some e => e.pron | none => []).map fun i => s!" {i}")]

def caseCmn (s : Facts) (id : String) (b : List UInt8) : List String :=
  match cmnSet s.veclen (cstr b) with
  | none => [s!"{id} rc -1"]
  | some ms => [s!"{id} rc 0", s!"{id} means" ++ String.join (ms.map fun l => " " ++ showLit l)]

def svErrName : SvErr → String
  | .noInt => "noInt" | .badRange => "badRange" | .dup => "dup" | .badDelim => "badDelim"

def svSetErrName : SvSetErr → String
  | .multiStream => "multiStream" | .dimOutside => "dimOutside" | .tooMany => "tooMany"

/-- `svspec`: `parse_subvecs`, then `feat_set_subvecs` on the default feature (1 stream, 39 dimensions:
the harness prints what it used and the check compares), then `feat_subvec_project` on the frame whose
component `d` is the number `d` — `svProject` is parametric in the frame, so this determines it -/
def caseSvspec (id : String) (b : List UInt8) : List String :=
  match parseSubvecs (cstr b) with
  | .error e => [s!"{id} rej {svErrName e}"]
  | .ok vs =>
    let dump := s!"{id} ok" ++ String.join (vs.map fun v => " " ++ showNats v)
    let nStream := 1
    let dim := 39
    match svSet nStream dim vs with
    | .error e => [dump, s!"{id} set -1 {svSetErrName e}"]
    | .ok (nsv, svdim) =>
      let frame : Array Int := (Array.range dim).map fun (d : Nat) => (d : Int)
      let proj : List Int :=
        if h : ∀ v ∈ vs, ∀ d ∈ v, d < frame.size then svProject frame vs h else []
      [dump, s!"{id} set 0 {nsv} {svdim}", s!"{id} idx" ++ String.join (proj.map fun x => s!" {x}")]

def parseDef (t : String) : Option CfgDef :=
  match t.splitOn ":" with
  | [n, ty, d] =>
    match parseNat ty with
    | some ty => some { name := n.toUTF8.toList, ty, deflt := if d == "null" then none else parseHex d }
    | none => none
  | _ => none

def step (s : Facts) (ws : List String) : Facts × List String :=
  match ws with
  | "-" :: "phones" :: r => ({ s with phones := r.filterMap parseHex }, [])
  | "-" :: "sil" :: [n] => ({ s with sil := (parseNat n).getD 0 }, [])
  | "-" :: "basedict" :: r => ({ s with baseDict := r.filterMap parseHex }, [])
  | "-" :: "veclen" :: [n] => ({ s with veclen := (parseNat n).getD 13 }, [])
  | "-" :: "defs" :: r => ({ s with defs := r.filterMap parseDef }, [])
  | "-" :: _ => (s, [])
  | [id, kind, h1, h2, _flag] =>
    match parseHex h1 with
    | none => (s, [s!"{id} bad-hex"])
    | some b1 =>
      let b2 : Option (List UInt8) := if h2 == "." then none else parseHex h2
      let out := match kind with
        | "fsg" => caseFsg id b1
        | "dict" => caseDict s id b1 b2
        | "json" => caseJson s id b1
        | "setstr" => caseSetStr s id b1 (b2.getD [])
        | "align" => caseAlign s id b1
        | "addword" => caseAddWord s id b1 (b2.getD [])
        | "cmn" => caseCmn s id b1
        | "svspec" => caseSvspec id b1
        | _ => [s!"{id} unmodelled"]
      (s, out)
  | _ => (s, [])

partial def loop (h out : IO.FS.Stream) (s : Facts) : IO Unit := do
  let line ← h.getLine
  if line.isEmpty then return ()
  let (s', o) := step s (words line)
  for l in o do out.putStrLn l
  loop h out s'

def main : IO Unit := do
  let stdin ← IO.getStdin
  let stdout ← IO.getStdout
  loop stdin stdout {}
  stdout.flush

end Driver.C10
