import SSVerif.Model.FeBuf
import Driver.Util
/-! driver sub-command `c06`: runs the front-end index model (M4) on the call schedules the
harness `h_c06` runs on the real `fe_process_*`/`fe_end`.

    cfg <id> <size> <shift> [key=value …]      -> cfg <id> size <size> shift <shift>
    sig <N> <seed> <kind>                      -> sig <N>
    run <enc> <endroom> <len>:<l,l,…|-> …      -> run c=<dry>/<limit>/<consumed>/<frames>/<novf> … end=<n>/<total>/<left> canon=<0|1>

`ssdriver c06 legacy` runs the model of the pinned tree (without the D25 repair). -/
namespace Driver.C06
open SSVerif.FeBuf Driver

structure St where
  cfg : Cfg
  n : Nat

def parseSpec (s : String) : Option (Nat × List Nat) :=
  match s.splitOn ":" with
  | [len, ls] =>
    match parseNat len with
    | some n =>
      if ls = "-" then some (n, [])
      else (ls.splitOn ",").foldr (fun w acc => match acc, parseNat w with
                                               | some l, some v => some (v :: l)
                                               | _, _ => none) (some []) |>.map fun l => (n, l)
    | none => none
  | _ => none

def showCall (l : CallLog) : String :=
  s!"c={l.dry}/{l.limit}/{l.consumed}/{l.frames}/{l.novf}"

def step (s : St) (ws : List String) : St × String :=
  match ws with
  | "cfg" :: id :: size :: shift :: _ =>
    match parseNat size, parseNat shift with
    | some a, some b => ({ s with cfg := { s.cfg with size := a, shift := b } }, s!"cfg {id} size {a} shift {b}")
    | _, _ => (s, "bad-op")
  | ["sig", n, _, _] =>
    match parseNat n with
    | some n => ({ s with n := n }, s!"sig {n}")
    | none => (s, "bad-op")
  | "run" :: _enc :: endroom :: specs =>
    match parseNat endroom, specs.mapM parseSpec with
    | some e, some sp =>
      if (sp.map (·.1)).sum ≠ s.n then (s, "bad-op partition does not sum to N") else
      match run s.cfg (chunksFrom 0 sp) e with
      | none => (s, "run error")
      | some (r, nend) =>
        let canon := decide (r.fe.out = canonical s.cfg.size s.cfg.shift s.n)
        (s, "run " ++ sepBy " " (r.calls.map showCall) ++ (if r.calls.isEmpty then "" else " ")
            ++ s!"end={nend}/{r.fe.out.length}/{r.left} canon={if canon then 1 else 0}")
    | _, _ => (s, "bad-op")
  | _ => (s, "bad-op")

def main (args : List String) : IO Unit :=
  runLoop step { cfg := { size := 410, shift := 160, fixed := !(args.contains "legacy") }, n := 0 }

end Driver.C06
