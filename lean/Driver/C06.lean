import SSVerif.Model.FeBuf
import SSVerif.Model.FeBufClosed
import Driver.Util
/-! driver sub-command `c06`: runs the front-end index model (M4) on the call schedules the
harness `h_c06` runs on the real `fe_process_*`/`fe_end`.

    cfg <id> <size> <shift> [key=value …]      -> cfg <id> size <size> shift <shift>
    sig <N> <seed> <kind>                      -> sig <N>
    run <enc> <endroom> <len>:<l,l,…|-> …      -> run c=<dry>/<limit>/<consumed>/<frames>/<novf> … end=<n>/<total>/<left> canon=<0|1>

`ssdriver c06 legacy` runs the model of the pinned tree (without the D25 repair).

Signals longer than `closedAbove` samples (the size-relation family of the check: chunk lengths around
2^15, 2^16, k·2^16 …) are evaluated with the closed form `runClosed` (`Model/FeBufClosed.lean`) instead
of the list model, which is quadratic in the chunk length: `C06_call_log_closed` proves that the call
log, the `fe_end` count, the total frame count and `left = 0` are the same for every schedule, and
`C06_frames_canonical` that the list model's frames are the canonical ones (`canon=1`).  Only for the
repaired variant; `legacy` always runs the list model. -/
namespace Driver.C06
open SSVerif.FeBuf Driver

structure St where
  cfg : Cfg
  n : Nat

def parseSpec (s : String) : Option (Nat × List Nat) :=
  match s.splitOn ":" with
  | [len, ls] =>
    match parseNat len with
    | some n =>
      if ls = "-" then some (n, [])
      else (ls.splitOn ",").foldr (fun w acc => match acc, parseNat w with
                                               | some l, some v => some (v :: l)
                                               | _, _ => none) (some []) |>.map fun l => (n, l)
    | none => none
  | _ => none

/-- signals longer than this are evaluated with the closed form -/
def closedAbove : Nat := 20000

def showCall (l : CallLog) : String :=
  s!"c={l.dry}/{l.limit}/{l.consumed}/{l.frames}/{l.novf}"

def step (s : St) (ws : List String) : St × String :=
  match ws with
  | "cfg" :: id :: size :: shift :: _ =>
    match parseNat size, parseNat shift with
    | some a, some b => ({ s with cfg := { s.cfg with size := a, shift := b } }, s!"cfg {id} size {a} shift {b}")
    | _, _ => (s, "bad-op")
  | ["sig", n, _, _] =>
    match parseNat n with
    | some n => ({ s with n := n }, s!"sig {n}")
    | none => (s, "bad-op")
  | "run" :: _enc :: endroom :: specs =>
    match parseNat endroom, specs.mapM parseSpec with
    | some e, some sp =>
      if (sp.map (·.1)).sum ≠ s.n then (s, "bad-op partition does not sum to N") else
      if s.cfg.fixed ∧ closedAbove < s.n ∧ 0 < e ∧ 0 < s.cfg.shift ∧ s.cfg.shift ≤ s.cfg.size then
        let r := runClosed s.cfg sp
        (s, "run " ++ sepBy " " (r.1.map showCall) ++ (if r.1.isEmpty then "" else " ")
            ++ s!"end={r.2.1}/{r.2.2}/0 canon=1")
      else
      match run s.cfg (chunksFrom 0 sp) e with
      | none => (s, "run error")
      | some (r, nend) =>
        let canon := decide (r.fe.out = canonical s.cfg.size s.cfg.shift s.n)
        (s, "run " ++ sepBy " " (r.calls.map showCall) ++ (if r.calls.isEmpty then "" else " ")
            ++ s!"end={nend}/{r.fe.out.length}/{r.left} canon={if canon then 1 else 0}")
    | _, _ => (s, "bad-op")
  | _ => (s, "bad-op")

def main (args : List String) : IO Unit :=
  runLoop step { cfg := { size := 410, shift := 160, fixed := !(args.contains "legacy") }, n := 0 }

end Driver.C06
