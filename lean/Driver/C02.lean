import SSVerif.Model.FlatNet
import SSVerif.Model.HistDom
import Driver.Util
/-! driver sub-command `c02`: reads the dumps written by `harness/h_c02`, builds the flat network with the
model's own `FlatNet.build`, runs the model's own `Viterbi.viterbiArr` and prints the optimum, the
side conditions it checked, and an optimal alignment validated by `Viterbi.pathScore`. -/
namespace Driver.C02
open SSVerif.Viterbi SSVerif.FlatNet SSVerif.Hmm SSVerif.Generated.Search Driver

/-- a node of the real lextree as dumped by the harness -/
structure XNode where
  ssid : Nat
  tmat : Nat
  logp : Int
  ciExt : Nat
  ppos : Nat
  leaf : Bool
  arc : Int
  /-- `none` = all contexts -/
  ctxt : Option (List Nat)
deriving Inhabited

structure Case where
  id : String := ""
  nci : Nat := 0
  sil : Nat := 0
  constsOK : Bool := false
  wip : Int := 0
  pip : Int := 0
  beam : Int := 0
  beams : SSVerif.Beam.Beams := ⟨0, 0, 0⟩
  nstate : Nat := 0
  start : Nat := 0
  final : Nat := 0
  arcs : Array Arc := #[]
  words : Array (Option Word) := #[]
  wordStr : Array String := #[]
  fillerMismatch : Bool := false
  ssid : Array (Nat × Nat) := #[]      -- (key, ssid)
  ciSsid : Array (Nat × Nat) := #[]
  ciTmat : Array (Nat × Nat) := #[]
  sseq : Array (Nat × List Nat) := #[]
  tmat : Array (Nat × List Nat) := #[]
  sens : Array Nat := #[]
  frames : Array (Array Int) := #[]
  exitFrame : Int := -1
  xn : Array (Nat × XNode) := #[]
  xr : Array (List Nat) := #[]
  xc : Array (Nat × List Nat) := #[]
  bad : List String := []

def natsOf (ws : List String) : Option (List Nat) := ws.mapM parseNat
def intsOf (ws : List String) : Option (List Int) := ws.mapM parseInt

def setAt {α} (a : Array (Option α)) (i : Nat) (x : α) : Array (Option α) :=
  let a := if a.size ≤ i then a ++ Array.replicate (i + 1 - a.size) none else a
  a.set! i (some x)

def key (nci ci lc rc wpos : Nat) : Nat := ((ci * nci + lc) * nci + rc) * 4 + wpos

def feed (c : Case) (ws : List String) : Case :=
  let err (m : String) : Case := { c with bad := m :: c.bad }
  match ws with
  | ["K", "nci", nci, "sil", sil, "nsen", _, "nemit", nemit, "worst", w, "shift", sh, "tmatworst", tw] =>
    match parseNat nci, parseNat sil, parseInt w, parseNat sh, parseInt tw with
    | some nci, some sil, some w, some sh, some tw =>
      { c with nci, sil, constsOK := w == worstScore && sh == senscrShift && tw == tmatWorstScore && nemit == "3" }
    | _, _, _, _, _ => err "K"
  | ["P", "wip", wip, "pip", pip, "beam", beam, "pbeam", pb, "wbeam", wb, "compallsen", _] =>
    match parseInt wip, parseInt pip, parseInt beam, parseInt pb, parseInt wb with
    | some wip, some pip, some b, some pb, some wb => { c with wip, pip, beam := max b (max pb wb), beams := ⟨b, pb, wb⟩ }
    | _, _, _, _, _ => err "P"
  | ["G", n, s, f] =>
    match parseNat n, parseNat s, parseNat f with
    | some n, some s, some f => { c with nstate := n, start := s, final := f }
    | _, _, _ => err "G"
  | ["A", s, d, lp, wid] =>
    match parseNat s, parseNat d, parseInt lp, parseInt wid with
    | some s, some d, some lp, some wid =>
      { c with arcs := c.arcs.push { src := s, dst := d, logp := lp, wid := if wid < 0 then none else some wid.toNat } }
    | _, _, _, _ => err "A"
  | "W" :: wid :: str :: _dw :: fil :: dfil :: _n :: pron =>
    match parseNat wid, natsOf pron with
    | some wid, some pron =>
      { c with words := setAt c.words wid { filler := fil == "1", pron },
               wordStr := (if c.wordStr.size ≤ wid then c.wordStr ++ Array.replicate (wid + 1 - c.wordStr.size) "" else c.wordStr).set! wid str,
               fillerMismatch := c.fillerMismatch || fil != dfil }
    | _, _ => err "W"
  | ["C", ci, _name, ss, tm, _fil] =>
    match parseNat ci, parseNat ss, parseNat tm with
    | some ci, some ss, some tm => { c with ciSsid := c.ciSsid.push (ci, ss), ciTmat := c.ciTmat.push (ci, tm) }
    | _, _, _ => err "C"
  | ["S", ci, lc, rc, wpos, ss] =>
    match parseNat ci, parseNat lc, parseNat rc, parseNat wpos, parseNat ss with
    | some ci, some lc, some rc, some wpos, some ss => { c with ssid := c.ssid.push (key c.nci ci lc rc wpos, ss) }
    | _, _, _, _, _ => err "S"
  | "Q" :: ss :: sens =>
    match parseNat ss, natsOf sens with
    | some ss, some sens => { c with sseq := c.sseq.push (ss, sens) }
    | _, _ => err "Q"
  | "T" :: tm :: vals =>
    match parseNat tm, natsOf vals with
    | some tm, some vals => { c with tmat := c.tmat.push (tm, vals) }
    | _, _ => err "T"
  | "N" :: sens =>
    match natsOf sens with
    | some sens => { c with sens := sens.toArray }
    | none => err "N"
  | "F" :: _t :: vals =>
    match intsOf vals with
    | some vals => { c with frames := c.frames.push vals.toArray }
    | none => err "F"
  | ["R", _T, _score, ef, _hyp] =>
    match parseInt ef with
    | some ef => { c with exitFrame := ef }
    | none => err "R"
  | ["XN", id, ss, tm, lp, ci, pp, lf, arc, ctxt] =>
    match parseNat id, parseNat ss, parseNat tm, parseInt lp, parseNat ci, parseNat pp, parseInt arc,
          (if ctxt == "ALL" then some none else if ctxt == "-" then some (some []) else (natsOf (ctxt.splitOn ",")).map some) with
    | some id, some ss, some tm, some lp, some ci, some pp, some arc, some cx =>
      { c with xn := c.xn.push (id, { ssid := ss, tmat := tm, logp := lp, ciExt := ci, ppos := pp, leaf := lf == "1", arc := arc, ctxt := cx }) }
    | _, _, _, _, _, _, _, _ => err "XN"
  | "XR" :: _s :: ids =>
    match natsOf ids with
    | some ids => { c with xr := c.xr.push ids }
    | none => err "XR"
  | "XC" :: id :: ids =>
    match parseNat id, natsOf ids with
    | some id, some ids => { c with xc := c.xc.push (id, ids) }
    | _, _ => err "XC"
  | "error" :: rest => err ("harness:" ++ sepBy "_" rest)
  | _ => c

/-- table `Nat → Option α` from (key, value) pairs -/
def tableOf {α} (kv : Array (Nat × α)) : Array (Option α) :=
  kv.foldl (fun a (k, v) => setAt a k v) #[]

def look {α} (t : Array (Option α)) (k : Nat) : Option α := (t[k]?).join

def omin (a : Option Int) (b : Int) : Option Int := match a with | none => some b | some x => some (min x b)

structure Res where
  opt : Option Int
  spread : Int
  minval : Option Int
  path : Option (Nat × Int × List (Nat × Int) × Int)   -- s0, c0, steps, exit cost

/-- untrusted helper: runs the same `stepArr`, keeps every frame's vector, measures the score spread per
frame (for the no-pruning regime test) and back-traces one optimal path -/
def analyse (N : Net) (n : Nat) (em : Nat → Nat → Int) (T : Nat) : Res := Id.run do
  let mut vs : Array Vec := #[v0Arr N n]
  let mut spread : Int := 0
  let mut minval : Option Int := none
  -- frame -1: entries against bestscore 0
  for (_, c) in N.init do
    minval := omin minval c
    spread := max spread (0 - c)
  for t in [0:T] do
    let v := vs[t]!
    let mut lo : Option Int := none
    let mut hi : Option Int := none
    for (i, _, c) in N.edges do
      match vget v i with
      | none => pure ()
      | some x =>
        let y := x + em t i + c
        lo := omin lo y
        hi := omax hi (some y)
        -- the value before the (non-positive) edge cost is what the HMM itself holds
        hi := omax hi (some (x + em t i))
    if t + 1 == T then
      for (i, c) in N.exits do
        match vget v i with
        | none => pure ()
        | some x => lo := omin lo (x + em t i + c); hi := omax hi (some (x + em t i))
    match lo, hi with
    | some l, some h => spread := max spread (h - l); minval := omin minval l
    | _, _ => pure ()
    if t + 1 < T then vs := vs.push (stepArr N.edges n (em t) v)
  let opt := finishArr N (em (T-1)) (vs[T-1]!)
  -- backtrace
  let mut path : Option (Nat × Int × List (Nat × Int) × Int) := none
  match opt with
  | none => pure ()
  | some o =>
    let vl := vs[T-1]!
    match N.exits.find? (fun (i, c) => (vget vl i).map (· + em (T-1) i + c) == some o) with
    | none => pure ()
    | some (i, cx) =>
      let mut cur := i
      let mut steps : List (Nat × Int) := []
      let mut ok := true
      for k in [0:T-1] do
        let t := T - 1 - k       -- find the edge into `cur` at frame t from frame t-1
        let vprev := vs[t-1]!
        match N.edges.find? (fun (a, b, c) => b == cur && (vget vprev a).map (· + em (t-1) a + c) == vget (vs[t]!) cur) with
        | none => ok := false
        | some (a, _, c) => steps := (cur, c) :: steps; cur := a
      match N.init.find? (fun (s, c) => s == cur && some c == vget (vs[0]!) cur) with
      | none => pure ()
      | some (s, c0) => if ok then path := some (s, c0, steps, cx)
  return { opt, spread, minval, path }

/-- null arcs are transitively closed with costs at least the shifted sums (so "one hop" loses nothing) -/
def nullClosed (M : Model) : Bool :=
  let ns := nullArcs M
  ns.all fun a => ns.all fun b =>
    !(a.dst == b.src) || a.src == b.dst ||
      ns.any fun c => c.src == a.src && c.dst == b.dst && decide (shiftS a.logp + shiftS b.logp ≤ shiftS c.logp)

def segments (insts : Array Inst) (wordStr : Array String) (arcs : Array Arc) (states : List Nat) : String :=
  -- a new word starts at frame 0 and whenever state 0 of a root instance is entered from another state
  let name (s : Nat) : String :=
    match (arcs.getD (insts.getD (s / 3) default).arc default).wid with
    | some w => wordStr.getD w "?"
    | none => "?"
  let rec go (l : List Nat) (t : Nat) (prev : Nat) (sf : Nat) (acc : List String) : List String :=
    match l with
    | [] => (s!"{name prev}:{sf}-{t-1}" :: acc).reverse
    | s :: rest =>
      if s % 3 == 0 && (insts.getD (s / 3) default).isRoot && s != prev then
        go rest (t+1) s t (s!"{name prev}:{sf}-{t-1}" :: acc)
      else go rest (t+1) s sf acc
  match states with
  | [] => "-"
  | s :: rest => sepBy "," (go rest 1 s 0 [])

/-! ### structural correspondence with the real lextree (untrusted driver code)

Both sides are expanded to *unshared word paths*: (arc, left context, right context, phones presented to the
neighbours, per-position (ssid, tmat, entry penalty)).  The lextree side enumerates every root-to-leaf path of
the dumped tree and one copy per context phone of the root's / leaf's context set; the model side takes the
instances of `FlatNet.build`. -/

def showCtx : Option Nat → String
  | none => "*"
  | some x => toString x

def pathKey (arc : Nat) (lc rc : Option Nat) (extR extL : Nat) (nodes : List (Nat × Nat × Int)) : String :=
  s!"arc{arc}/lc{showCtx lc}/rc{showCtx rc}/ext{extR}.{extL}/" ++
    sepBy "," (nodes.map fun (ss, tm, e) => s!"{ss}:{tm}:{e}")

partial def lexPaths (nodes : Array (Option XNode)) (kids : Array (Option (List Nat))) (fuel : Nat) (id : Nat)
    (pre : List XNode) : List (List XNode) :=
  match look nodes id with
  | none => []
  | some n =>
    if n.leaf then [(n :: pre).reverse]
    else if fuel == 0 then []
    else ((look kids id).getD []).flatMap fun k => lexPaths nodes kids (fuel - 1) k (n :: pre)

def lexKeys (c : Case) : List String :=
  let nodes := tableOf c.xn
  let kids := tableOf c.xc
  let paths := c.xr.toList.flatMap fun roots => roots.flatMap fun r => lexPaths nodes kids 64 r []
  paths.flatMap fun p =>
    match p.head?, p.getLast? with
    | some r, some l =>
      let lcs : List (Option Nat) := match r.ctxt with | none => [none] | some cs => cs.map some
      -- a single-phone word / filler leaves to every right context (fsg_search_pnode_exit)
      let rcs : List (Option Nat) := if p.length == 1 then [none] else match l.ctxt with | none => [none] | some cs => cs.map some
      lcs.flatMap fun lc => rcs.map fun rc =>
        pathKey l.arc.toNat lc rc r.ciExt l.ciExt (p.map fun n => (n.ssid, n.tmat, n.logp))
    | _, _ => []

def flatKeys (insts : Array Inst) : List String :=
  let l := insts.toList
  let arcs := l.foldl (fun acc h => insertNat h.arc acc) []
  arcs.flatMap fun a =>
    let mine := l.filter (·.arc == a)
    let roots := mine.filter (·.isRoot)
    let leaves := mine.filter (·.isLeaf)
    let inner := (mine.filter fun h => !h.isRoot && !h.isLeaf).toArray.qsort (fun x y => x.pos < y.pos) |>.toList
    let nd (h : Inst) : Nat × Nat × Int := (h.ssid, h.tmat, h.entry)
    roots.flatMap fun r =>
      if r.isLeaf then [pathKey a r.lc r.rc r.ciExt r.ciExt [nd r]]
      else leaves.filter (fun f => !f.isRoot) |>.map fun f =>
        pathKey a r.lc f.rc r.ciExt f.ciExt ((nd r :: inner.map nd) ++ [nd f])

def sortStr (l : List String) : List String := (l.toArray.qsort (· < ·)).toList

/-- (equal?, first key only in the lextree, first key only in the model) -/
def lexCompare (c : Case) (insts : Array Inst) : Bool × String × String :=
  let a := sortStr (lexKeys c)
  let b := sortStr (flatKeys insts)
  let onlyA := a.filter fun k => !b.contains k
  let onlyB := b.filter fun k => !a.contains k
  (a == b, onlyA.headD "-", onlyB.headD "-")

def finish (c : Case) : String := Id.run do
  if !c.bad.isEmpty then return s!"case {c.id} error {sepBy ";" c.bad.reverse}"
  let ssidT := tableOf c.ssid
  let ciS := tableOf c.ciSsid
  let ciT := tableOf c.ciTmat
  let sseqT := tableOf c.sseq
  let tmatT := tableOf c.tmat
  let nci := c.nci
  let M : Model := {
    sil := c.sil, start := c.start, final := c.final, arcs := c.arcs.toList,
    word := fun w => look c.words w,
    ssid := fun ci lc rc wpos => look ssidT (key nci ci lc rc wpos),
    ciSsid := look ciS, ciTmat := look ciT, wip := c.wip, pip := c.pip }
  let tmatF : Nat → List Nat := fun t => (look tmatT t).getD []
  match build M tmatF with
  | none => return s!"case {c.id} error model-data-missing"
  | some (L, insts) =>
    let N := L.toNet
    let T := c.frames.size
    if T == 0 then return s!"case {c.id} error no-frames"
    -- column of each senone in the frame vectors
    let maxSen := c.sens.foldl max 0
    let col : Array Nat := Id.run do
      let mut a := Array.replicate (maxSen + 1) 0
      for h : i in [0:c.sens.size] do a := a.set! c.sens[i] i
      return a
    let sseqF : Nat → List Nat := fun s => (look sseqT s).getD []
    let frames := c.frames
    let em : Nat → Nat → Int := fun t s => emission insts sseqF (fun sen => (frames.getD t #[]).getD (col.getD sen 0) 0) s
    -- data sanity: every instance has a 3-senone sequence with dumped scores and a 3x4 tmat
    let dataOK := insts.all fun h =>
      (sseqF h.ssid).length == 3 && (sseqF h.ssid).all (fun s => c.sens.contains s) && (tmatF h.tmat).length == 12
        && (tmatF h.tmat).all (· ≤ 255)
    let wf := N.wf L.n
    if !wf then return s!"case {c.id} error net-not-wellformed"
    -- the oracle: the model's own DP
    let opt := viterbiArr N L.n em T
    -- the same DP over the prefix the implementation's result actually covers (when it stopped early)
    let optEf := if 0 ≤ c.exitFrame && c.exitFrame.toNat + 1 < T then viterbiArr N L.n em (c.exitFrame.toNat + 1) else opt
    let r := analyse N L.n em T
    let monotone := insts.all (fun h => h.entry ≤ 0) && (nullArcs M).all (fun a => shiftS a.logp ≤ 0)
    let skipCons := insts.all fun h => !(skipOK (tmatF h.tmat) 1 3) || skipOK (tmatF h.tmat) 0 2
    let (pathok, segs) := match r.path with
      | none => (opt.isNone, "-")
      | some (s0, c0, steps, cx) =>
        (pathScore N em T s0 c0 steps cx == opt && opt.isSome, segments insts c.wordStr c.arcs (s0 :: steps.map (fun (e : Nat × Int) => e.1)))
    -- the proved no-pruning condition (`C02_wide_beams_prune_nothing`), on the beam-annotated network
    let B := buildB M tmatF insts
    let regimeOK := SSVerif.Beam.regime B c.beams L.n em T
    let (lexOK, lexA, lexB) := if c.xn.isEmpty then (true, "-", "-") else lexCompare c insts
    let showO : Option Int → String := fun o => match o with | none => "none" | some v => toString v
    return s!"case {c.id} opt {showO opt} optef {showO optEf} empty {showO (best ((hops M M.start M.final).map some))} T {T} states {L.n} edges {N.edges.length} consts {c.constsOK} data {dataOK} " ++
      s!"fillerflags {!c.fillerMismatch} labels {labelsOK M L} closed {nullClosed M} monotone {monotone} skipcons {skipCons} agree {r.opt == opt} " ++
      s!"regime {regimeOK} lextree {lexOK} lexonly {lexA} flatonly {lexB} spread {r.spread} minval {showO r.minval} beam {c.beam} pathok {pathok} align {segs}"

/-- unit ops: `hmm …` runs the model's `hmmStep`, `hist …` folds the model's `HistDom.add` -/
def unitOp (ws : List String) : Option String :=
  match ws with
  | "hmm" :: rest =>
    match intsOf rest with
    | some vals =>
      if vals.length != 19 then some "bad-op" else
      let tp := (vals.take 12).map Int.toNat
      let sen := (vals.drop 12).take 3
      let stv := vals.drop 15
      let e : Nat → Int := fun k => - sen.getD k 0
      let h : St := ⟨stv.getD 0 0, stv.getD 1 0, stv.getD 2 0, stv.getD 3 0, worstScore⟩
      let r := hmmStep tp e h
      some s!"hmm {r.s0} {r.s1} {r.s2} {r.out} {r.best}"
    | none => some "bad-op"
  | "hmm5" :: rest =>
    match intsOf rest with
    | some vals =>
      if vals.length != 41 then some "bad-op" else
      let tp := (vals.take 30).map Int.toNat
      let sen := (vals.drop 30).take 5
      let stv := vals.drop 35
      let e : Nat → Int := fun k => - sen.getD k 0
      let h : St5 := ⟨stv.getD 0 0, stv.getD 1 0, stv.getD 2 0, stv.getD 3 0, stv.getD 4 0, stv.getD 5 0, worstScore⟩
      let r := hmmStep5 tp e h
      some s!"hmm5 {r.s0} {r.s1} {r.s2} {r.s3} {r.s4} {r.out} {r.best}"
    | none => some "bad-op"
  | "hist" :: _k :: rest =>
    let rec parse (l : List String) (acc : List SSVerif.HistDom.Entry) : Option (List SSVerif.HistDom.Entry) :=
      match l with
      | [] => some acc.reverse
      | sc :: rc :: tag :: more =>
        match parseInt sc, (if rc == "-" then some [] else natsOf (rc.splitOn ",")), parseNat tag with
        | some sc, some rc, some tag => parse more (⟨sc, rc, tag⟩ :: acc)
        | _, _, _ => none
      | _ => none
    match parse rest [] with
    | none => some "bad-op"
    | some es =>
      let l := es.foldl SSVerif.HistDom.add []
      let showRc (rc : List Nat) : String := if rc.isEmpty then "-" else sepBy "," (rc.map toString)
      some (sepBy " " ("hist" :: l.map fun e => s!"{e.score}:{showRc e.rc}:{e.tag}"))
  | _ => none

partial def loop (h : IO.FS.Stream) (out : IO.FS.Stream) (c : Case) : IO Unit := do
  let line ← h.getLine
  if line.isEmpty then return ()
  let ws := words line
  match ws with
  | ["case", id] => loop h out { id := id }
  | "end" :: _ =>
    out.putStrLn (finish c)
    out.flush
    loop h out {}
  | _ =>
    match unitOp ws with
    | some o => out.putStrLn o; loop h out c
    | none => loop h out (feed c ws)

def main : IO Unit := do
  let stdin ← IO.getStdin
  let stdout ← IO.getStdout
  loop stdin stdout {}
  stdout.flush

end Driver.C02
