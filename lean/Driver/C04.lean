import SSVerif.Model.Align
import SSVerif.Model.AlignJson
import SSVerif.Model.AlignWrap
import Driver.Util
/-! driver sub-command `c04`: reads the dumps written by `harness/h_c04` (MODEL block, then one REQ block per
alignment request) and, per request,
* recomputes `populate`, the activity windows, `backtrace` and `propagate` with the model's own definitions
  from the first-pass segmentation, the dictionary tables and the dumped token stack, and prints the result in
  the format of the harness' flat dump (lines `A`, `W`, `P`, `S`, `SF`, `EF`);
* evaluates the verified checker `alignOKB` on what the C code returned through the iterator API (`OK` line),
  together with the side conditions of the theorems on the dumped data (`wf` = `wfTokens`, `noskip`);
* for every `J` line (what `decoder_result_json(d, start, level)` returned in the same request) parses the line with
  the JSON recogniser of C14, reads the words > phones (> states) tree back (`JsonObs.obsOf`: frames recovered from
  the rendered times in exact integer arithmetic, tolerance `tolNano`), and prints one `JS` line: whether the tree
  lists exactly the entries of the flat iterators (name, start frame, duration) and satisfies the time clauses
  (`JsonObs.timeOKB`: children partition parents, levels contiguous from frame 0 = time `start`). -/
namespace Driver.C04
open SSVerif.Align Driver
open SSVerif.Align.JsonObs (Clock)

def intsOf (ws : List String) : Option (List Int) := ws.mapM parseInt
def natsOf (ws : List String) : Option (List Nat) := ws.mapM parseNat

/-- acoustic-model tables (MODEL block) -/
structure Mdl where
  nci : Nat := 0
  nEmit : Nat := 0
  sil : Int := 0
  ciTmat : Array Int := #[]
  sseq : Array (Array Int) := #[]
  sen2ci : Array Int := #[]
  /-- bit j set: the senone occurs at position j of some senone sequence -/
  senPos : Array Nat := #[]
  tp : Array (Array Int) := #[]
  bad : List String := []

def Mdl.feed (m : Mdl) (ws : List String) : Mdl :=
  let err (s : String) : Mdl := { m with bad := s :: m.bad }
  match ws with
  | ["MODEL", nci, nemit, _nsseq, nsen, _ntmat, sil] =>
    match parseNat nci, parseNat nemit, parseNat nsen, parseInt sil with
    | some nci, some ne, some nsen, some sil =>
      { m with nci, nEmit := ne, sil, ciTmat := Array.replicate nci 0, senPos := Array.replicate nsen 0 }
    | _, _, _, _ => err "MODEL"
  | ["CI", i, _name, tm] =>
    match parseNat i, parseInt tm with
    | some i, some tm => { m with ciTmat := m.ciTmat.set! i tm }
    | _, _ => err "CI"
  | "SQ" :: _i :: sens =>
    match intsOf sens with
    | some sens =>
      let sp := Id.run do
        let mut sp := m.senPos
        let mut j := 0
        for s in sens do
          if s ≥ 0 ∧ s.toNat < sp.size then sp := sp.set! s.toNat (sp[s.toNat]! ||| (1 <<< j))
          j := j + 1
        return sp
      { m with sseq := m.sseq.push sens.toArray, senPos := sp }
    | none => err "SQ"
  | "SC" :: cis =>
    match intsOf cis with
    | some cis => { m with sen2ci := cis.toArray }
    | none => err "SC"
  | "TP" :: _i :: vals =>
    match intsOf vals with
    | some v => { m with tp := m.tp.push v.toArray }
    | none => err "TP"
  | _ => err ("model line " ++ " ".intercalate ws)

/-- tables of one dictionary word -/
structure WTab where
  wid : Int
  pron : List Int
  lr : Array Int := #[]
  ld : Array Int := #[]
  inn : Array Int := #[]
  rs : Array Int := #[]

/-- one request block -/
structure Req where
  head : String := ""
  /-- the request line: case id, tag, `acmod->output_frame`, `acmod->n_feat_alloc` -/
  caseId : String := ""
  tag : String := ""
  outFrame : Nat := 0
  nAlloc : Nat := 0
  fp : Array (Int × Int × Int) := #[]          -- wid sf ef  (all segments)
  tabs : Array WTab := #[]
  aOk : Bool := false
  cW : Array Entry := #[]
  cP : Array Entry := #[]
  cS : Array Entry := #[]
  expSen : Array (List Int) := #[]
  cw : Array (Nat × List Nat) := #[]
  cp : Array (Nat × List Nat) := #[]
  sf : List Int := []
  ef : List Int := []
  haveTok : Bool := false
  final : Tok := ⟨-1, 0⟩
  nframe : Nat := 0
  rows : Array (List Tok) := #[]
  nstates : Nat := 0
  tpx : Array (Array Int) := #[]
  sen : Array (Array Int) := #[]
  mfinal : Option Tok := none
  mrows : Array (List Tok) := #[]
  /-- renormalisation probe: entry score, senone scores and token stack of the hand-stepped pass started there -/
  roff : Int := 0
  rsen : Array (Array Int) := #[]
  rfinal : Option Tok := none
  rrows : Array (List Tok) := #[]
  /-- dead-final-state probe: number of frames of the truncated pass, its exit (history, score), token stack and the
  return value of `state_align_search_finish` on it -/
  dcut : Nat := 0
  dfinal : Option Tok := none
  drows : Array (List Tok) := #[]
  dfin : Option Int := none
  /-- `decoder_result_json` calls: level, position of the utterance + frame rate, returned bytes (`none` = NULL) -/
  js : Array (Nat × Clock × Option (List UInt8)) := #[]
  /-- names through `alignment_iter_name`, level by level -/
  nW : Array String := #[]
  nP : Array String := #[]
  nS : Array String := #[]
  bad : List String := []

def denseRow (n : Nat) (cells : List (Nat × Tok)) : List Tok :=
  let a := cells.foldl (fun (a : Array Tok) (c : Nat × Tok) => if c.1 < a.size then a.set! c.1 c.2 else a)
    (Array.replicate n ⟨-1, -1⟩)
  a.toList

def parseCell (s : String) : Option (Nat × Tok) :=
  match s.splitOn ":" with
  | [k, id, sc] =>
    match parseNat k, parseInt id, parseInt sc with
    | some k, some id, some sc => some (k, ⟨id, sc⟩)
    | _, _, _ => none
  | _ => none

def updTab (r : Req) (wid : Int) (f : WTab → WTab) : Req :=
  { r with tabs := r.tabs.map fun t => if t.wid = wid then f t else t }

def Req.feed (r : Req) (ws : List String) : Req :=
  let err (s : String) : Req := { r with bad := s :: r.bad }
  match ws with
  | ["FP", wid, _name, sf, ef, _ascr, _lscr] =>
    match parseInt wid, parseInt sf, parseInt ef with
    | some wid, some sf, some ef => { r with fp := r.fp.push (wid, sf, ef) }
    | _, _, _ => err "FP"
  | "D" :: wid :: _name :: _base :: _fil :: _len :: pron =>
    match parseInt wid, intsOf pron with
    | some wid, some pron => { r with tabs := r.tabs.push { wid, pron } }
    | _, _ => err "D"
  | "LR" :: wid :: v =>
    match parseInt wid, intsOf v with
    | some wid, some v => updTab r wid fun t => { t with lr := v.toArray }
    | _, _ => err "LR"
  | "LD" :: wid :: v =>
    match parseInt wid, intsOf v with
    | some wid, some v => updTab r wid fun t => { t with ld := v.toArray }
    | _, _ => err "LD"
  | "IN" :: wid :: v =>
    match parseInt wid, intsOf v with
    | some wid, some v => updTab r wid fun t => { t with inn := v.toArray }
    | _, _ => err "IN"
  | "RS" :: wid :: v =>
    match parseInt wid, intsOf v with
    | some wid, some v => updTab r wid fun t => { t with rs := v.toArray }
    | _, _ => err "RS"
  | "A" :: "ok" :: _ => { r with aOk := true }
  | "A" :: "null" :: _ => r
  | "REUSE" :: _ => r
  | ["W", _idx, wid, name, st, du, sc, _par, ch] =>
    match parseInt wid, parseInt st, parseInt du, parseInt sc, parseInt ch with
    | some wid, some st, some du, some sc, some ch =>
      { r with nW := r.nW.push name, cW := r.cW.push { start := st, duration := du, score := sc, parent := 0, child := ch.toNat, id := wid } }
    | _, _, _, _, _ => err "W"
  | ["P", _idx, ci, name, st, du, sc, par, ch, ssid, tm] =>
    match parseInt ci, parseInt st, parseInt du, parseInt sc, parseInt par, parseInt ch, parseInt ssid, parseInt tm with
    | some ci, some st, some du, some sc, some par, some ch, some ssid, some tm =>
      { r with nP := r.nP.push name,
               cP := r.cP.push { start := st, duration := du, score := sc, parent := par.toNat, child := ch.toNat,
                                 id := ci, ssid, tmatid := tm } }
    | _, _, _, _, _, _, _, _ => err "P"
  | ["S", _idx, sen, name, st, du, sc, par] =>
    match parseInt sen, parseInt st, parseInt du, parseInt sc, parseInt par with
    | some sen, some st, some du, some sc, some par =>
      { r with nS := r.nS.push name, cS := r.cS.push { start := st, duration := du, score := sc, parent := par.toNat, child := 0, id := sen } }
    | _, _, _, _, _ => err "S"
  | "X" :: _i :: _ci :: _lc :: _rc :: _pos :: _ssid :: sens =>
    match intsOf sens with
    | some v => { r with expSen := r.expSen.push v }
    | none => err "X"
  | "CW" :: i :: l =>
    match parseNat i, natsOf l with
    | some i, some l => { r with cw := r.cw.push (i, l) }
    | _, _ => err "CW"
  | "CP" :: i :: l =>
    match parseNat i, natsOf l with
    | some i, some l => { r with cp := r.cp.push (i, l) }
    | _, _ => err "CP"
  | ["NSTATES", n] => match parseNat n with | some n => { r with nstates := n } | none => err "NSTATES"
  | "SF" :: v => match intsOf v with | some v => { r with sf := v } | none => err "SF"
  | "EF" :: v => match intsOf v with | some v => { r with ef := v } | none => err "EF"
  | ["FINAL", id, sc, nf] =>
    match parseInt id, parseInt sc, parseNat nf with
    | some id, some sc, some nf =>
      { r with final := ⟨id, sc⟩, nframe := nf, haveTok := true, nstates := if r.nstates > 0 then r.nstates else r.cS.size }
    | _, _, _ => err "FINAL"
  | "TOK" :: _f :: cells =>
    match cells.mapM parseCell with
    | some cs => { r with rows := r.rows.push (denseRow r.nstates cs) }
    | none => err "TOK"
  | ["J", lvl, _a, mi, ex, frate, payload] =>
    match parseNat lvl, parseInt mi, parseInt ex, parseInt frate with
    | some lvl, some mi, some ex, some frate =>
      let c : Clock := if ex ≥ 0 then { sn := mi * 2 ^ ex.toNat, sd := 1, frate } else { sn := mi, sd := 2 ^ (-ex).toNat, frate }
      if payload == "null" then { r with js := r.js.push (lvl, c, none) }
      else match parseHex payload with
        | some bs => { r with js := r.js.push (lvl, c, some bs) }
        | none => err "J"
    | _, _, _, _ => err "J"
  | "TPX" :: _i :: v =>
    match intsOf v with
    | some v => { r with tpx := r.tpx.push v.toArray }
    | none => err "TPX"
  | "SEN" :: _f :: v =>
    match intsOf v with
    | some v => { r with sen := r.sen.push v.toArray }
    | none => err "SEN"
  | ["ROFF", v] => match parseInt v with | some v => { r with roff := v } | none => err "ROFF"
  | "RSEN" :: _f :: v =>
    match intsOf v with
    | some v => { r with rsen := r.rsen.push v.toArray }
    | none => err "RSEN"
  | ["RFINAL", id, sc, _nf] =>
    match parseInt id, parseInt sc with
    | some id, some sc => { r with rfinal := some ⟨id, sc⟩ }
    | _, _ => err "RFINAL"
  | "RTOK" :: _f :: cells =>
    match cells.mapM parseCell with
    | some cs => { r with rrows := r.rrows.push (denseRow r.nstates cs) }
    | none => err "RTOK"
  | ["DCUT", v] => match parseNat v with | some v => { r with dcut := v } | none => err "DCUT"
  | ["DFINAL", id, sc, _nf] =>
    match parseInt id, parseInt sc with
    | some id, some sc => { r with dfinal := some ⟨id, sc⟩ }
    | _, _ => err "DFINAL"
  | "DTOK" :: _f :: cells =>
    match cells.mapM parseCell with
    | some cs => { r with drows := r.drows.push (denseRow r.nstates cs) }
    | none => err "DTOK"
  | ["DFIN", _c, rv] => match parseInt rv with | some v => { r with dfin := some v } | none => err "DFIN"
  | ["MFINAL", id, sc, _nf] =>
    match parseInt id, parseInt sc with
    | some id, some sc => { r with mfinal := some ⟨id, sc⟩ }
    | _, _ => err "MFINAL"
  | "MTOK" :: _f :: cells =>
    match cells.mapM parseCell with
    | some cs => { r with mrows := r.mrows.push (denseRow r.nstates cs) }
    | none => err "MTOK"
  | _ => r

def getI (a : Array Int) (i : Int) : Int := if i < 0 then -1 else a.getD i.toNat (-1)

def mkDict (m : Mdl) (r : Req) : Dict :=
  let find (wid : Int) : Option WTab := r.tabs.find? (·.wid = wid)
  { nEmit := m.nEmit, sil := m.sil,
    pron := fun w => match find w with | some t => t.pron | none => [],
    tmat := fun ci => getI m.ciTmat ci,
    lrdiph := fun b l rr =>
      -- the LR row of the (single-phone) word whose phone is b
      match r.tabs.find? (fun t => t.pron = [b]) with
      | some t => getI t.lr (l * m.nci + rr)
      | none => -1,
    ldiph := fun b s l =>
      match r.tabs.find? (fun t => t.pron.length ≥ 2 ∧ t.pron.head? = some b ∧ t.pron.getD 1 0 = s) with
      | some t => getI t.ld l
      | none => -1,
    internal := fun w j => match find w with | some t => getI t.inn ((j : Int) - 1) | none => -1,
    rssid := fun ci lc rc =>
      match r.tabs.find? (fun t => t.pron.length ≥ 2 ∧ t.pron.getLast? = some ci ∧ t.pron.getD (t.pron.length - 2) 0 = lc) with
      | some t => getI t.rs rc
      | none => -1,
    sen := fun ssid j => if ssid < 0 then -1 else getI (m.sseq.getD ssid.toNat #[]) j }

def showW (i : Nat) (e : Entry) : String := s!"W {i} {e.id} {e.start} {e.duration} {e.score} {e.child}"
def showP (i : Nat) (e : Entry) : String :=
  s!"P {i} {e.id} {e.start} {e.duration} {e.score} {e.parent} {e.child} {e.ssid} {e.tmatid}"
def showS (i : Nat) (e : Entry) : String := s!"S {i} {e.id} {e.start} {e.duration} {e.score} {e.parent}"

def enum {α} (l : List α) : List (Nat × α) := (List.range l.length).zip l

/-- `NoSkip`: the transition matrix has no transition that jumps over a state
(`tp[i][j] = 255 = -TMAT_WORST_SCORE` for `j > i + 1`) -/
def noSkipB (n : Nat) (tp : Array Int) : Bool :=
  (List.range n).all fun i => (List.range (n + 1)).all fun j => if j > i + 1 then tp.getD (i * (n + 1) + j) 0 == 255 else true

def buildTree (r : Req) : Option (List WNode) :=
  r.cw.toList.mapM fun (wi, pl) => do
    let we ← r.cW[wi]?
    let pns ← pl.mapM fun pi => do
      let pe ← r.cP[pi]?
      let sl ← (r.cp.find? (·.1 = pi)).map (·.2)
      let ss ← sl.mapM fun si => r.cS[si]?
      pure ({ e := pe, states := ss } : PNode)
    pure ({ e := we, phones := pns } : WNode)

/-- state of the wrapper model carried from request to request of a harness case -/
structure WSt where
  dec : SSVerif.Align.Wrap.Dec := {}
  caseId : String := ""
  utt : Nat := 0

/-- utterance number of a request tag (`u<k>…` = utterance k, everything else utterance 0) -/
def uttOf (tag : String) : Nat :=
  match tag.toList with
  | 'u' :: rest => (parseNat (String.ofList (rest.takeWhile Char.isDigit))).getD 0
  | _ => 0

open SSVerif.Align.Wrap in
/-- the wrapper model (`Wrap.request`) on this request: the events between the previous request and this one are read
off the tag (new case: fresh decoder state; new utterance: `decoder_start_utt`; `…final`: `decoder_end_utt`;
`…swapped`: the search was replaced or re-initialised — `replaceSearch`), the
acoustic model's frame counters off the request line; the harness calls `decoder_alignment` twice, then once per
`decoder_result_json` call with a level > 0.  The second pass is the model's `populate`/`finish` on the token stack
dumped in this block. -/
def wrapStep (_m : Mdl) (r : Req) (D : Dict) (w : WSt) (out : IO.FS.Stream) : IO WSt := do
  let d0 : Dec := if r.caseId != w.caseId then {} else w.dec
  let u := uttOf r.tag
  let d1 := if r.caseId == w.caseId && u != w.utt then startUtt d0 else d0
  let d2 := if r.tag.endsWith "final" then endUtt d1 else d1
  -- `…swapped`: an accepted grammar-setting call / add_word(update) since the previous request (D130); `…refused`: no event
  let d2 := if r.tag.endsWith "swapped" then replaceSearch d2 else d2
  let d3 := advance d2 r.outFrame r.nAlloc
  let segsL : List FSeg := r.fp.toList.map fun (wid, sf, ef) => { wid, sf, ef }
  let segs : Option (List FSeg) := if segsL.isEmpty then none else some segsL
  let pass2 : List Entry → Nat → Option Alignment := fun ws T =>
    if r.haveTok && T == r.nframe then finish r.rows.toList T r.final (populate D ws) else none
  let (r1, e1) := request pass2 d3 segs
  let (r2, e2) := request pass2 e1 segs
  let njs := (r.js.toList.filter fun (lvl, _, _) => lvl > 0).length
  let e3 := (List.range njs).foldl (fun e _ => (request pass2 e segs).2) e2
  let kind : Res → String
    | .null => "null"
    | .assertFail => "assert"
    | .al _ true _ => "reuse"
    | .al _ false _ => "new"
  let ser : Res → Int
    | .al s _ _ => s
    | _ => -1
  let wordsS : String := match r1 with
    | .al _ _ (some a) => ";".intercalate (a.words.map fun e => s!"{e.id}:{e.start}:{e.duration}")
    | .al _ _ none => "halfbuilt"
    | _ => "-"
  let wordsOut : String := if wordsS.isEmpty then "-" else wordsS
  let T : Int := match e1.align with | some al => al.frame | none => -1
  let pe := scan (-1) segsL
  let b (x : Bool) : String := if x then "1" else "0"
  let pos := (keep segsL).all fun s => s.sf ≤ s.ef
  let cov := match pe with | some p => decide (p + 1 ≤ (r.outFrame : Int)) | none => true
  let pron := (keep segsL).all fun s => !(D.pron s.wid).isEmpty
  out.putStrLn s!"WRAP c1={kind r1} c2={kind r2} same12={b (ser r1 == ser r2 && ser r1 ≥ 0)} T={T} of={e1.outFrame} pos={b pos} cov={b cov} pron={b pron} nkeep={(keep segsL).length} nseg={segsL.length} serial={e3.serial} words={wordsOut}"
  pure ({ dec := e3, caseId := r.caseId, utt := u } : WSt)

def process (m : Mdl) (r : Req) (out : IO.FS.Stream) (w : WSt) : IO WSt := do
  out.putStrLn r.head
  let D := mkDict m r
  let w' ← if r.tag == "synth" then pure w else wrapStep m r D w out
  let fpw := r.fp.toList.filter (fun s => s.1 ≥ 0)
  let words := fpw.map fun (w, sf, ef) => mkWord w sf (ef - sf + 1)
  let a0 := populate D words
  -- model side: windows, backtrace, propagate
  if r.haveTok then
    out.putStrLn ("SF " ++ " ".intercalate (a0.phones.map fun e => toString (sfOf e)))
    out.putStrLn ("EF " ++ " ".intercalate (a0.phones.map fun e => toString (efOf e)))
    match finish r.rows.toList r.nframe r.final a0 with
    | none => out.putStrLn "A null"
    | some a1 =>
      out.putStrLn s!"A ok {a1.words.length} {a1.phones.length} {a1.states.length}"
      for (i, e) in enum a1.words do out.putStrLn (showW i e)
      for (i, e) in enum a1.phones do out.putStrLn (showP i e)
      for (i, e) in enum a1.states do out.putStrLn (showS i e)
  else
    -- no token stack (alignment failed before the search, or no alignment): only the populated structure
    out.putStrLn s!"POP {a0.words.length} {a0.phones.length} {a0.states.length}"
  -- implementation side: the property on what the C code returned
  if r.cW.size > 0 then
    let T : Int := match fpw.getLast? with | some (_, _, ef) => ef + 1 | none => 0
    let senOK : Int → Nat → Int → Bool := fun ci j s =>
      s ≥ 0 && getI m.sen2ci s == ci && ((m.senPos.getD s.toNat 0) >>> j) % 2 == 1
    let fp : List Seg := fpw.map fun (w, sf, ef) => { wid := w, sf, ef }
    match buildTree r with
    | none => out.putStrLn "OK tree=0"
    | some t =>
      let ok := alignOKB D.pron m.nEmit senOK r.expSen.toList fp T t
      let cx := decide ((t.flatMap (·.phones)).map (fun p => p.states.map (·.id)) = r.expSen.toList)
      -- which clause fails (diagnostics only; `ok` is the verdict)
      let c1 := decide (t.map (fun w => (w.e.id, w.e.start, w.e.duration)) = fp.map (fun s => (s.wid, s.sf, s.ef - s.sf + 1)))
      let c2 := decide (∀ w ∈ t, w.phones.map (·.e.id) = D.pron w.e.id)
      let c3 := decide (∀ w ∈ t, ∀ p ∈ w.phones, p.states.length = m.nEmit ∧
          ∀ j, (h : j < p.states.length) → senOK p.e.id j (p.states[j]).id = true)
      let c4 := decide (∀ w ∈ t, Contig (w.phones.map (·.e)) w.e.start (w.e.start + w.e.duration))
          && decide (∀ w ∈ t, ∀ p ∈ w.phones, Contig p.states p.e.start (p.e.start + p.e.duration))
      let c5 := decide (Contig (t.map (·.e)) 0 T) && decide (Contig ((t.flatMap (·.phones)).map (·.e)) 0 T)
          && decide (Contig ((t.flatMap (·.phones)).flatMap (·.states)) 0 T)
      let c6 := decide (∀ w ∈ t, w.e.score = sumScore (w.phones.map (·.e)))
          && decide (∀ w ∈ t, ∀ p ∈ w.phones, p.e.score = sumScore p.states)
      -- the flat iterators list the same entries as the tree, in order
      let flat := t.map (·.e) == r.cW.toList && (t.flatMap (·.phones)).map (·.e) == r.cP.toList
          && (t.flatMap (·.phones)).flatMap (·.states) == r.cS.toList
      -- the iterator model on the C vectors gives the children the API gave
      let iterW := r.cw.toList.all fun (wi, pl) =>
        match r.cW[wi]? with
        | some we => childrenOf r.cP.toList wi we.child == pl.filterMap (fun pi => r.cP[pi]?)
        | none => false
      let iterP := r.cp.toList.all fun (pi, sl) =>
        match r.cP[pi]? with
        | some pe => childrenOf r.cS.toList pi pe.child == sl.filterMap (fun si => r.cS[si]?)
        | none => false
      let b (x : Bool) : String := if x then "1" else "0"
      out.putStrLn s!"OK tree=1 alignOK={b ok} words={b c1} phones={b c2} states={b c3} ctx={b cx} partition={b c4} contiguous={b c5} scores={b c6} flat={b flat} iter={b (iterW && iterP)} T={T}"
  -- hypotheses of C04_model_tree_alignOK on this request: the driver's senOK accepts the senones of the populated phones
  -- (`hsen`), and the model's expectation `modelExpSen` is the harness' independent `expSen` (lines X)
  if r.cW.size > 0 then
    let senOK : Int → Nat → Int → Bool := fun ci j s =>
      s ≥ 0 && getI m.sen2ci s == ci && ((m.senPos.getD s.toNat 0) >>> j) % 2 == 1
    let hsen := a0.phones.all fun e => (List.range D.nEmit).all fun j => senOK e.id j (D.sen e.ssid j)
    let mexp := (a0.phones.map fun e => (List.range D.nEmit).map (D.sen e.ssid)) == r.expSen.toList
    out.putStrLn s!"TREE hsen={if hsen then 1 else 0} mexp={if mexp then 1 else 0}"
  if r.haveTok then
    let ne := m.nEmit
    let sfA := r.sf.toArray
    let efA := r.ef.toArray
    let win : Nat → Int × Int := fun k => (sfA.getD (k / ne) 0, efA.getD (k / ne) 0)
    let S := r.nstates
    let wf := wfTokens r.rows.toList win r.nframe S r.final
    let tms := (r.cP.toList.map (·.tmatid)).eraseDups
    let tpTab := if r.tpx.isEmpty then m.tp else r.tpx
    let noskip := tms.all fun t => t ≥ 0 && noSkipB ne (tpTab.getD t.toNat #[])
    let b (x : Bool) : String := if x then "1" else "0"
    -- hypotheses of C04_alignStep_WFTokens on the dumped window arrays (then `wf` is a consequence for the step model)
    let mono := (List.range (efA.size - 1)).all fun i => efA.getD i 0 ≤ efA.getD (i + 1) 0
    let sf0 := sfA.getD 0 0 ≤ 0
    let tend := (r.nframe : Int) ≤ efA.getD (sfA.size - 1) 0
    let tbound := (r.nframe : Int) * 33022 ≤ 533000000
    let alive := r.final.score > SSVerif.Align.Step.worst
    out.putStrLn s!"HYP wf={b wf} noskip={b noskip} nframe={r.nframe} nstates={S} mono={b mono} sf0={b sf0} tend={b tend} tbound={b tbound} alive={b alive}"
  -- the constrained Viterbi step model on the senone scores the hand-stepped second pass saw
  match r.mfinal with
  | none => pure ()
  | some mf =>
    if m.nEmit != 3 then out.putStrLn "STEP na=1" else
    let tpTab := if r.tpx.isEmpty then m.tp else r.tpx
    let tps : Array (Array Int) := r.cP.map fun e => if e.tmatid < 0 then #[] else tpTab.getD e.tmatid.toNat #[]
    let (rows, fin, renorm) := SSVerif.Align.Step.run tps r.sf.toArray r.ef.toArray r.sen.toList
    -- hypotheses of C04_alignStep_tokens_local_partial on the dumped data: value ranges, no renormalisation
    let ranges := r.sen.all (fun row => row.all fun v => 0 ≤ v && v ≤ 32767)
        && tps.all (fun tp => tp.all fun v => 0 ≤ v && v ≤ 255)
    let same := rows == r.mrows.toList && fin == mf
    let firstDiff := ((List.range rows.length).find? fun f => rows[f]? != r.mrows.toList[f]?).getD rows.length
    let asDec := r.mrows == r.rows && mf == r.final
    let b (x : Bool) : String := if x then "1" else "0"
    out.putStrLn s!"STEP eq={b same} frames={rows.length} firstdiff={firstDiff} manual_eq_decoder={b asDec} ranges={b ranges} renorm={b renorm}"
  -- renormalisation probe: the step model started from the same entry score on the senone scores that pass saw
  match r.rfinal with
  | none => pure ()
  | some rf =>
    if m.nEmit != 3 then out.putStrLn "RSTEP na=1" else
    let tpTab := if r.tpx.isEmpty then m.tp else r.tpx
    let tps : Array (Array Int) := r.cP.map fun e => if e.tmatid < 0 then #[] else tpTab.getD e.tmatid.toNat #[]
    let (rows, fin, renorm) := SSVerif.Align.Step.runWith r.roff tps r.sf.toArray r.ef.toArray r.rsen.toList
    let same := rows == r.rrows.toList && fin == rf
    let firstDiff := ((List.range rows.length).find? fun f => rows[f]? != r.rrows.toList[f]?).getD rows.length
    let b (x : Bool) : String := if x then "1" else "0"
    out.putStrLn s!"RSTEP eq={b same} frames={rows.length} firstdiff={firstDiff} renorm={b renorm} off={r.roff} final={fin.score} alive={b (fin.score > SSVerif.Align.Step.worst)}"
  -- dead-final-state probe: the step model over the first `dcut` frames of the dumped senone scores, then `finish`
  match r.dfinal, r.dfin with
  | some df, some rv =>
    if m.nEmit != 3 then out.putStrLn "DSTEP na=1" else
    let tpTab := if r.tpx.isEmpty then m.tp else r.tpx
    let tps : Array (Array Int) := r.cP.map fun e => if e.tmatid < 0 then #[] else tpTab.getD e.tmatid.toNat #[]
    let frames := r.sen.toList.take r.dcut
    let (rows, fin, renorm) := SSVerif.Align.Step.run tps r.sf.toArray r.ef.toArray frames
    let same := rows == r.drows.toList && fin == df && frames.length == r.dcut
    let alive := fin.score > SSVerif.Align.Step.worst
    let fpw := r.fp.toList.filter (fun s => s.1 ≥ 0)
    let a0 := populate D (fpw.map fun (w, sf, ef) => mkWord w sf (ef - sf + 1))
    let mfin := (finish rows r.dcut fin a0).isSome
    -- hypotheses of C04_dead_final_no_alignment on the dumped arrays
    let sfA := r.sf.toArray
    let efA := r.ef.toArray
    let mono := (List.range (efA.size - 1)).all fun i => efA.getD i 0 ≤ efA.getD (i + 1) 0
    let hyp := mono && decide (sfA.getD 0 0 ≤ 0) && decide ((r.dcut : Int) ≤ efA.getD (sfA.size - 1) 0)
        && decide ((r.dcut : Int) * 33022 ≤ 533000000)
        && frames.all (fun row => row.all fun v => 0 ≤ v && v ≤ 32767) && tps.all (fun tp => tp.all fun v => 0 ≤ v && v ≤ 255)
    let b (x : Bool) : String := if x then "1" else "0"
    out.putStrLn s!"DSTEP eq={b same} frames={r.dcut} alive={b alive} outh={fin.id} finish={b mfin} cfinish={b (rv ≥ 0)} hyp={b hyp} renorm={b renorm}"
  | _, _ => pure ()
  -- the hierarchy as reported by decoder_result_json(d, start, level)
  for (k, (lvl, c, payload)) in enum r.js.toList do
    let b (x : Bool) : String := if x then "1" else "0"
    match payload with
    | none => out.putStrLn s!"JS {k} level={lvl} null=1"
    | some bs =>
      match SSVerif.Json.parseLine bs with
      | none => out.putStrLn s!"JS {k} level={lvl} null=0 parse=0"
      | some top =>
        if lvl = 0 then out.putStrLn s!"JS {k} level={lvl} null=0 parse=1" else
        let lvl2 := lvl ≥ 2
        match JsonObs.obsOf c lvl2 top with
        | none => out.putStrLn s!"JS {k} level={lvl} null=0 parse=1 clock={b (JsonObs.clockOK c)} tree=0"
        | some o =>
          let T : Int := match (r.fp.toList.filter (fun s => s.1 ≥ 0)).getLast? with | some (_, _, ef) => ef + 1 | none => 0
          let flatW := o.tree.map (·.e)
          let flatP := (o.tree.flatMap (·.phones)).map (·.e)
          let flatS := (o.tree.flatMap (·.phones)).flatMap (·.states)
          let same := JsonObs.spans flatW == JsonObs.spans r.cW.toList && JsonObs.spans flatP == JsonObs.spans r.cP.toList
              && (!lvl2 || JsonObs.spans flatS == JsonObs.spans r.cS.toList)
          let names := o.wNames == r.nW.toList.map (·.toUTF8.toList) && o.pNames == r.nP.toList.map (·.toUTF8.toList)
              && (!lvl2 || o.sNames == r.nS.toList.map (·.toUTF8.toList))
          let tok := JsonObs.timeOKB lvl2 T o.tree
          out.putStrLn s!"JS {k} level={lvl} null=0 parse=1 clock={b (JsonObs.clockOK c)} tree=1 top={o.top} same={b same} names={b names} timeOK={b tok} nW={flatW.length} nP={flatP.length} nS={flatS.length}"
  if !r.bad.isEmpty then out.putStrLn ("BAD " ++ " ".intercalate r.bad)
  out.putStrLn "ENDREQ"
  pure w'

partial def loop (h out : IO.FS.Stream) (m : Mdl) (inModel : Bool) (cur : Option Req) (w : WSt) : IO Unit := do
  let line ← h.getLine
  if line.isEmpty then return ()
  let ws := words line
  match ws with
  | "MODEL" :: _ => loop h out (({} : Mdl).feed ws) true none w
  | ["ENDMODEL"] =>
    if !m.bad.isEmpty then out.putStrLn ("BADMODEL " ++ " ".intercalate m.bad)
    loop h out m false none w
  | "REQ" :: _ =>
    loop h out m false (some { head := " ".intercalate (ws.take 3), caseId := ws.getD 1 "", tag := ws.getD 2 "",
                               outFrame := (parseNat (ws.getD 3 "")).getD 0, nAlloc := (parseNat (ws.getD 4 "")).getD 0 }) w
  | ["ENDREQ"] =>
    match cur with
    | some r => let w' ← process m r out w; out.flush; loop h out m false none w'
    | none => loop h out m false none w
  | _ =>
    if inModel then loop h out (m.feed ws) true none w
    else match cur with
      | some r => loop h out m false (some (r.feed ws)) w
      | none => loop h out m false none w

def main : IO Unit := do
  let stdin ← IO.getStdin
  let stdout ← IO.getStdout
  loop stdin stdout {} false none {}
  stdout.flush

end Driver.C04
