/-!
# Library of the C → Lean translator (`tools/c2lean.py`)

Core Lean only.  The translator emits definitions over `Int`; every C integer value is an `Int`
lying in the range of its C type.  This file holds the helpers the emitted text refers to
(wrap-around of unsigned arithmetic and of conversions, functional update of a memory family) and
their basic lemmas.  The literal-width forms (`wrapU32 z = z % 4294967296`) are what `omega` digests.
-/
namespace SSVerif.Translated

/-- reduction to `unsigned char` -/
@[simp] def wrapU8 (z : Int) : Int := z % 256
/-- reduction to `unsigned short` -/
@[simp] def wrapU16 (z : Int) : Int := z % 65536
/-- reduction to `unsigned int` (C unsigned arithmetic is arithmetic modulo 2^32) -/
@[simp] def wrapU32 (z : Int) : Int := z % 4294967296
/-- reduction to `unsigned long` / `size_t` (LP64) -/
@[simp] def wrapU64 (z : Int) : Int := z % 18446744073709551616
/-- two's-complement reinterpretation as `signed char` -/
@[simp] def wrapS8 (z : Int) : Int := (z + 128) % 256 - 128
/-- two's-complement reinterpretation as `short` -/
@[simp] def wrapS16 (z : Int) : Int := (z + 32768) % 65536 - 32768
/-- two's-complement reinterpretation as `int` -/
@[simp] def wrapS32 (z : Int) : Int := (z + 2147483648) % 4294967296 - 2147483648
/-- two's-complement reinterpretation as `long` -/
@[simp] def wrapS64 (z : Int) : Int := (z + 9223372036854775808) % 18446744073709551616 - 9223372036854775808

/-- store into a one-index memory family -/
def upd1 (f : Int → Int) (i v : Int) : Int → Int := fun j => if j = i then v else f j
/-- store into a two-index memory family -/
def upd2 (f : Int → Int → Int) (i j v : Int) : Int → Int → Int :=
  fun a b => if a = i ∧ b = j then v else f a b
/-- store into a three-index memory family -/
def upd3 (f : Int → Int → Int → Int) (i j k v : Int) : Int → Int → Int → Int :=
  fun a b c => if a = i ∧ b = j ∧ c = k then v else f a b c

@[simp] theorem upd1_same (f : Int → Int) (i v : Int) : upd1 f i v i = v := by simp [upd1]
theorem upd1_other (f : Int → Int) {i j : Int} (v : Int) (h : j ≠ i) : upd1 f i v j = f j := by simp [upd1, h]
@[simp] theorem upd1_apply (f : Int → Int) (i v j : Int) : upd1 f i v j = if j = i then v else f j := rfl

theorem wrapU32_range (z : Int) : 0 ≤ wrapU32 z ∧ wrapU32 z ≤ 4294967295 := by simp only [wrapU32]; omega
theorem wrapS32_range (z : Int) : -2147483648 ≤ wrapS32 z ∧ wrapS32 z ≤ 2147483647 := by simp only [wrapS32]; omega
theorem wrapU8_range (z : Int) : 0 ≤ wrapU8 z ∧ wrapU8 z ≤ 255 := by simp only [wrapU8]; omega
theorem wrapU16_range (z : Int) : 0 ≤ wrapU16 z ∧ wrapU16 z ≤ 65535 := by simp only [wrapU16]; omega
theorem wrapS16_range (z : Int) : -32768 ≤ wrapS16 z ∧ wrapS16 z ≤ 32767 := by simp only [wrapS16]; omega

/-- a value already in range is not changed by the conversion -/
theorem wrapS32_id {z : Int} (h : -2147483648 ≤ z ∧ z ≤ 2147483647) : wrapS32 z = z := by simp only [wrapS32]; omega
theorem wrapU32_id {z : Int} (h : 0 ≤ z ∧ z ≤ 4294967295) : wrapU32 z = z := by simp only [wrapU32]; omega
theorem wrapU8_id {z : Int} (h : 0 ≤ z ∧ z ≤ 255) : wrapU8 z = z := by simp only [wrapU8]; omega

/-- `(unsigned)(int) x` of a wrapped product is the product modulo 2^32: the detour through the signed type
(what `hash += c << s` does) is invisible -/
theorem wrapU32_wrapS32 (z : Int) : wrapU32 (wrapS32 z) = wrapU32 z := by simp only [wrapU32, wrapS32]; omega

/-- `unsigned char` of a `char`: the byte value -/
theorem wrapU8_of_char {z : Int} (h : -128 ≤ z ∧ z ≤ 127) : wrapU8 z = if z < 0 then z + 256 else z := by
  simp only [wrapU8]; split <;> omega

/-- an `if` between pairs is the pair of the `if`s (normal form used by the refinement proofs: the
translator merges the variables assigned in the branches of an `if` statement through a tuple) -/
theorem ite_pair {α β : Type} (c : Prop) [Decidable c] (a a' : α) (b b' : β) :
    (if c then (a, b) else (a', b')) = ((if c then a else a'), (if c then b else b')) := by
  split <;> rfl

/-- applying an `if` between memory families (the translator merges a family written in one branch of an `if`
statement through an `if` between functions) -/
theorem ite_fam_apply {α β : Type} (c : Prop) [Decidable c] (f g : α → β) (a : α) :
    (if c then f else g) a = if c then f a else g a := by
  split <;> rfl

/-- C `%` (`Int.tmod`, truncating) of two non-negative values is the remainder on `Nat`: the form a ring index
`i % maxlen` takes once `i` and `maxlen` are known to be natural numbers -/
theorem tmod_natCast (a b : Nat) : Int.tmod (a : Int) (b : Int) = ((a % b : Nat) : Int) :=
  (Int.ofNat_tmod a b).symm

/-- `(i + 1) % maxlen` of a ring walk (`i++; i = i % maxlen`) -/
theorem tmod_natCast_succ (a b : Nat) : Int.tmod ((a : Int) + 1) (b : Int) = (((a + 1) % b : Nat) : Int) := by
  rw [← tmod_natCast]; rfl

/-- C `%` of a non-negative value by a positive one lies in `[0, b)` -/
theorem tmod_range {a b : Int} (ha : 0 ≤ a) (hb : 0 < b) : 0 ≤ Int.tmod a b ∧ Int.tmod a b < b :=
  ⟨Int.tmod_nonneg _ ha, Int.tmod_lt_of_pos _ hb⟩

/-- C `&` on `w`-bit operands: the bitwise and of the two's-complement bit patterns, as a value in `[0, 2^w)`
(a signed result is re-read with `wrapS<w>`) -/
def bitAnd (w : Nat) (a b : Int) : Int := (((a % 2 ^ w).toNat &&& (b % 2 ^ w).toNat : Nat) : Int)
/-- C `|` on `w`-bit operands -/
def bitOr (w : Nat) (a b : Int) : Int := (((a % 2 ^ w).toNat ||| (b % 2 ^ w).toNat : Nat) : Int)
/-- C `^` on `w`-bit operands -/
def bitXor (w : Nat) (a b : Int) : Int := (((a % 2 ^ w).toNat ^^^ (b % 2 ^ w).toNat : Nat) : Int)

/-- the C idiom `r = a % n; if (r < 0) r += n;` (truncated remainder, then fixed up) is the Euclidean remainder -/
theorem tmod_fixup (a : Int) {n : Int} (hn : 0 < n) :
    (if Int.tmod a n < 0 then Int.tmod a n + n else Int.tmod a n) = a % n := by
  have h1 : 0 ≤ a % n := Int.emod_nonneg a (by omega)
  have h2 : a % n < n := Int.emod_lt_of_pos a hn
  rw [Int.tmod_eq_emod]
  have hab : ((n.natAbs : Nat) : Int) = n := by omega
  by_cases h : 0 ≤ a ∨ n ∣ a
  · rw [if_pos h]
    have e : a % n - ((0 : Nat) : Int) = a % n := by omega
    rw [e, if_neg (by omega)]
  · rw [if_neg h, hab]
    have hne : a % n ≠ 0 := by
      intro h0
      exact h (Or.inr (Int.dvd_of_emod_eq_zero h0))
    rw [if_pos (by omega)]
    omega

/-- C unsigned division `a / b` of a non-negative value by a value known to be a natural number is the division
of natural numbers (division by a *variable* is outside `omega`: rewrite with this, then `generalize` the `Nat`
quotient together with `Nat.div_mul_le_self` / `Nat.lt_div_mul_add`) -/
theorem ediv_natCast_of_nonneg {a : Int} (h : 0 ≤ a) (b : Nat) : a / (b : Int) = ((a.toNat / b : Nat) : Int) := by
  rw [Int.natCast_ediv, Int.toNat_of_nonneg h]

end SSVerif.Translated
