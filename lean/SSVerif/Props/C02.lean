import SSVerif.Proofs.Viterbi
import SSVerif.Proofs.Hmm
import SSVerif.Proofs.Hmm5
import SSVerif.Proofs.FlatNet
import SSVerif.Proofs.FlatNetBuild
import SSVerif.Proofs.HistDom
/-!
# C02 — With pruning disabled the search returns the true Viterbi optimum

Property theorems only.  Layers (DESIGN §4/C02):

1. `Viterbi.Net` / `viterbi` / `Alignment`: the frame-synchronous max-plus DP over any network of emitting
   states and its frame-by-frame paths.  `C02_viterbi_is_max` holds for **every** network, score function and
   utterance length.  `C02_driver_optimum` transfers it to the array DP that `ssdriver c02` actually runs.
2. `Hmm.hmmStep` mirrors `hmm_vit_eval_3st_lr` on `Int`; `C02_hmmStep_eq_ideal` shows it is the max-plus step
   when nothing underflows; `C02_hmmEdges_ideal` shows the edges the flat network emits for an HMM realise
   exactly that step.
3. `FlatNet.build` (the flat context-dependent network of a dumped search FSG) is the *definition* of the legal
   alignments; `C02_alignment_sentence` shows that the word arcs of any alignment of a network whose labels
   pass the (driver-evaluated) check `labelsOK` form a sentence of the FSG.
4. `HistDom.add` mirrors the domination rule of `fsg_history_entry_add`; `C02_hist_domination_exact` shows the
   pruning of the per-frame history lists is lossless for every right-context phone.

The tie of layers 1-3 to the C code is the correspondence run of `tools/props/c02.py` (the reported score must
equal `viterbiArr` of the built network).
-/
namespace SSVerif
open Viterbi Hmm FlatNet HistDom Beam

/-- **C02, core.** For every network `N`, every emission-score function `em` (frame → state → score) and
every utterance length `T`: no alignment of the `T` frames scores higher than the DP value, and when the DP
value is finite it is the score of an alignment (achievable). `ole` is `≤` on `Option Int`, `none` = −∞. -/
theorem C02_viterbi_is_max (N : Net) (em : Nat → Nat → Int) (T : Nat) :
    (∀ sc, Alignment N em T sc → ole (some sc) (viterbi N em T)) ∧
    (∀ v, viterbi N em T = some v → Alignment N em T v) :=
  Viterbi.viterbi_is_max N em T

/-- no alignment at all ⇔ the DP value is −∞ -/
theorem C02_viterbi_none_iff (N : Net) (em : Nat → Nat → Int) (T : Nat) :
    viterbi N em T = none ↔ ¬ ∃ sc, Alignment N em T sc := by
  obtain ⟨h1, h2⟩ := Viterbi.viterbi_is_max N em T
  constructor
  · rintro hn ⟨sc, ha⟩
    have := h1 sc ha
    rw [hn] at this
    exact this
  · intro hne
    cases hv : viterbi N em T with
    | none => rfl
    | some v => exact absurd ⟨v, h2 v hv⟩ hne

/-- **C02, executable oracle.** The array DP the driver runs (`viterbiArr`, `n` states) has the same two
properties on every well-formed net (`Net.wf` is evaluated by the driver before it answers). -/
theorem C02_driver_optimum (N : Net) (n : Nat) (em : Nat → Nat → Int) (T : Nat) (h : N.wf n = true) :
    (∀ sc, Alignment N em T sc → ole (some sc) (viterbiArr N n em T)) ∧
    (∀ v, viterbiArr N n em T = some v → Alignment N em T v) := by
  rw [Viterbi.viterbiArr_eq N n em T h]
  exact Viterbi.viterbi_is_max N em T

/-- **C02, default beams.** A search that drops candidates — any `Mask` over (frame, edge), initial entries
and exits; beam pruning of states, whole HMMs, phone/word transitions and history entries are instances —
reports, when it reports a value at all, the score of an alignment of all `T` frames, hence a value that does
not exceed the optimum. -/
theorem C02_pruned_le_optimum (N : Net) (K : Mask) (em : Nat → Nat → Int) (T : Nat) (v : Int)
    (hv : viterbiK N K em T = some v) : Alignment N em T v ∧ ole (some v) (viterbi N em T) :=
  Viterbi.pruned_le_optimum N K em T v hv

/-- with nothing masked out the pruned DP is the DP (the mask model is not vacuous) -/
theorem C02_unpruned_is_dp (N : Net) (em : Nat → Nat → Int) (T : Nat) :
    viterbiK N ⟨fun _ _ => true, fun _ => true, fun _ => true⟩ em T = viterbi N em T :=
  Viterbi.viterbiK_all N em T

/-- **C02, the beam search is a masked DP.** `Beam.viterbiBeam` — the frame-synchronous DP with the tests of
`fsg_search_hmm_prune_prop` / `pnode_trans` / `pnode_exit` / `null_prop` / `word_trans` (thresholds
`bestscore + beam/pbeam/wbeam`, `>=` resp. `>` as in the code) applied to its own pruned vectors — is `viterbiK` with
the mask `beamMask`, for **any** beams; so whatever it reports is the score of an alignment and at most the optimum. -/
theorem C02_beam_search_is_masked_dp (B : BNet) (bm : Beams) (em : Nat → Nat → Int) (T : Nat) :
    viterbiBeam B bm em T = viterbiK B.toNet (beamMask B bm em T) em T ∧
    (∀ v, viterbiBeam B bm em T = some v → Alignment B.toNet em T v ∧ ole (some v) (viterbi B.toNet em T)) := by
  refine ⟨Beam.viterbiBeam_eq_mask B bm em T, fun v hv => ?_⟩
  rw [Beam.viterbiBeam_eq_mask] at hv
  exact Viterbi.pruned_le_optimum B.toNet _ em T v hv

/-- **C02, the no-pruning regime, proved.** `Beam.regime B bm n em T` is the executable condition the driver
evaluates on the unpruned array DP: the net is well-formed, every initial entry passes the start tests, and in every
frame every finite partial sum of every candidate (after leaving the HMM, after the null hop, after the entry
penalty; in the last frame also the exits) is above `bestscore + (narrowest beam)`.  When it holds (and `T ≥ 1`) the
beam tests remove nothing: the beam search, the masked DP and the array DP all equal the optimum `viterbi`. -/
theorem C02_wide_beams_prune_nothing (B : BNet) (bm : Beams) (n : Nat) (em : Nat → Nat → Int) (T : Nat) (hT : 0 < T)
    (hr : regime B bm n em T = true) :
    viterbiK B.toNet (beamMask B bm em T) em T = viterbi B.toNet em T ∧
    viterbiBeam B bm em T = viterbi B.toNet em T ∧
    viterbiArr B.toNet n em T = viterbi B.toNet em T :=
  Beam.beam_identity B bm n em T hT hr

/-- the beam-annotated network `FlatNet.buildB` (edge components kept apart) is the network `FlatNet.buildFrom` -/
theorem C02_buildB_toNet (M : Model) (tmat : Nat → List Nat) (insts : Array Inst) :
    (buildB M tmat insts).toNet = (buildFrom M tmat insts).toNet :=
  FlatNet.buildB_toNet M tmat insts

/-- an explicit path accepted by `pathScore` (used to print the optimal alignment of a replay) is an
alignment with exactly that score -/
theorem C02_pathScore_sound (N : Net) (em : Nat → Nat → Int) (T s0 : Nat) (c0 : Int) (steps : List (Nat × Int))
    (cx v : Int) (h : pathScore N em T s0 c0 steps cx = some v) : Alignment N em T v :=
  Viterbi.pathScore_sound N em T s0 c0 steps cx v h

/-- **C02, HMM update.** `hmmStep` (= `hmm_vit_eval_3st_lr` with its comparison order, `WORST_SCORE` clamps, the
`s1 > WORST_SCORE` guard on the exit score and the `TMAT_WORST_SCORE` skip tests) coincides with the max-plus
step over the transition matrix, for the new state scores and for the exit score, and preserves the invariant
`Inv`, provided: matrix entries are bytes, emissions are negated `int16`, every state score is `WORST_SCORE` or
more than `32768+255` above it (no underflow in this frame), and the 1→3 skip is not enabled without the 0→2
skip (otherwise the C code's temporary `t2` leaks from the exit block into the state-2 block). -/
theorem C02_hmmStep_eq_ideal (tp : List Nat) (e : Nat → Int) (h : St) (H : StepHyp tp e h) (hI : Inv h) :
    (hmmStep tp e h).rep = (hmmStepIdeal tp e h.rep).1 ∧
    Hmm.rep (hmmStep tp e h).out = (hmmStepIdeal tp e h.rep).2 ∧
    Inv (hmmStep tp e h) :=
  Hmm.hmmStep_eq_ideal tp e h H hI

/-- **C02, 5-state HMM update.** `hmmStep5` (= `hmm_vit_eval_5st_lr`: all `k→k`, `k→k+1`, `k→k+2` transitions,
`WORST_SCORE` clamps, and the guards that leave the exit state / state 4 / state 3 untouched while `s3` / `s2` /
`s1` are not better than `WORST_SCORE`) coincides with the 5-state max-plus step for the new state scores and the
exit score, and preserves the left-to-right activity invariant `Inv5`, provided matrix entries are bytes,
emissions are negated `int16` and no state underflows in this frame. -/
theorem C02_hmmStep5_eq_ideal (tp : List Nat) (e : Nat → Int) (h : St5) (H : StepHyp5 tp e h) (hI : Inv5 h) :
    (hmmStep5 tp e h).rep = (hmmStepIdeal5 tp e h.rep).1 ∧
    Hmm.rep (hmmStep5 tp e h).out = (hmmStepIdeal5 tp e h.rep).2 ∧
    Inv5 (hmmStep5 tp e h) :=
  Hmm.hmmStep5_eq_ideal H hI

/-- a cleared HMM (`hmm_clear`), also after `hmm_enter`, satisfies the invariant -/
theorem C02_inv_clear (score : Int) : Inv (St.clear.enter score) := by
  constructor <;> intro _ <;> rfl

/-- **C02, network = HMM.** The edges `FlatNet.hmmEdges` / exits `FlatNet.hmmExits` emitted for one HMM make
the generic DP step (`stepV`) on its three states, and the exit candidates, equal to `hmmStepIdeal`. -/
theorem C02_hmmEdges_ideal (tp : List Nat) (e : Nat → Int) (a0 a1 a2 : Option Int) :
    let N : Net := ⟨hmmEdges tp 0, [], []⟩
    let v := vec3 a0 a1 a2
    let I := hmmStepIdeal tp e ⟨a0, a1, a2⟩
    stepV N e v 0 = I.1.s0 ∧ stepV N e v 1 = I.1.s1 ∧ stepV N e v 2 = I.1.s2 ∧
    best ((hmmExits tp).map fun (k, c) => (v k).map (· + e k + c)) = I.2 :=
  FlatNet.hmmEdges_ideal tp e a0 a1 a2

/-- alignments of the plain network are exactly the labelled alignments with the labels forgotten -/
theorem C02_alignment_iff_labelled (L : LNet) (em : Nat → Nat → Int) (T : Nat) (sc : Int) :
    Alignment L.toNet em T sc ↔ ∃ ws, LAlignment L em T sc ws :=
  FlatNet.alignment_iff_labelled L em T sc

/-- **C02, alignments are sentences.** If the labels of a network pass `labelsOK` against the model's FSG
(evaluated by the driver on every network it builds), the word arcs `ws` any alignment goes through spell a
sentence of the FSG: its word ids are accepted by the FSG read as an ε-NFA (`Nfa.Accepts`, the language C01
is stated in). -/
theorem C02_alignment_sentence {M : Model} {L : LNet} (hL : labelsOK M L = true) {em : Nat → Nat → Int} {T : Nat}
    {sc : Int} {ws : List Nat} (h : LAlignment L em T sc ws) :
    Nfa.Accepts (fsgNfa M) (ws.map (widOf M)) :=
  FlatNet.alignment_sentence hL h

/-- **C02, every built network is consistent with its grammar.** For every model `M` (search FSG, dictionary,
triphone map, penalties — any, not only dumped ones) and transition matrices, the network `FlatNet.build`
produces passes `labelsOK` and is well-formed: no run-time check is needed for `C02_alignment_sentence` and
`C02_driver_optimum` to apply. -/
theorem C02_build_labelsOK (M : Model) (tmat : Nat → List Nat) (L : LNet) (insts : Array Inst)
    (hb : build M tmat = some (L, insts)) : labelsOK M L = true ∧ L.toNet.wf L.n = true :=
  FlatNet.build_labelsOK M tmat L insts hb

/-- **C02, the optimum is over sentences of the grammar.** For the flat network of any model: every alignment's
word arcs spell a sentence of the FSG; no alignment scores above the value the driver's DP computes; and a finite
DP value is the score of an alignment whose words are accepted by the FSG. -/
theorem C02_build_optimum_over_sentences (M : Model) (tmat : Nat → List Nat) (L : LNet) (insts : Array Inst)
    (hb : build M tmat = some (L, insts)) (em : Nat → Nat → Int) (T : Nat) :
    (∀ sc ws, LAlignment L em T sc ws → Nfa.Accepts (fsgNfa M) (ws.map (widOf M))) ∧
    (∀ sc, Alignment L.toNet em T sc → ole (some sc) (viterbiArr L.toNet L.n em T)) ∧
    (∀ v, viterbiArr L.toNet L.n em T = some v →
      ∃ ws, LAlignment L em T v ws ∧ Nfa.Accepts (fsgNfa M) (ws.map (widOf M))) := by
  obtain ⟨hl, hw⟩ := FlatNet.build_labelsOK M tmat L insts hb
  obtain ⟨h1, h2⟩ := C02_driver_optimum L.toNet L.n em T hw
  refine ⟨fun sc ws h => FlatNet.alignment_sentence hl h, h1, ?_⟩
  intro v hv
  obtain ⟨ws, hws⟩ := (FlatNet.alignment_iff_labelled L em T v).mp (h2 v hv)
  exact ⟨ws, hws, FlatNet.alignment_sentence hl hws⟩

/-- **C02, history pruning is lossless.** Inserting an entry into a score-sorted list `frame_entries[s][lc]`
with the score / right-context-set domination rule of `fsg_history_entry_add` leaves, for **every**
right-context phone `r`, the best score available to `r` equal to the best of the old list and the new entry;
the list stays sorted; and every resulting entry is an old entry or the new one (same score and payload) with a
possibly smaller right-context set. -/
theorem C02_hist_domination_exact (l : List Entry) (new : Entry) (hs : Sorted l) :
    (∀ r, bestFor r (add l new) = omax (bestFor r l) (cand r new)) ∧
    Sorted (add l new) ∧
    (∀ x ∈ add l new, ∃ y ∈ new :: l, x.score = y.score ∧ x.tag = y.tag ∧ ∀ r ∈ x.rc, r ∈ y.rc) := by
  have spec := addGo_spec l new hs
  unfold add
  cases hgo : addGo new l with
  | none =>
    rw [hgo] at spec
    simp only [Option.getD_none]
    refine ⟨?_, hs, fun x hx => ⟨x, List.mem_cons_of_mem _ hx, rfl, rfl, fun r hr => hr⟩⟩
    intro r
    unfold HistDom.cand
    split
    · rename_i hr
      exact (omax_absorb (spec r hr)).symm
    · rw [omax_none_right]
  | some l' =>
    rw [hgo] at spec
    simp only [Option.getD_some]
    obtain ⟨h1, h2⟩ := addGo_sorted l new hs l' hgo
    exact ⟨spec, h1, h2⟩

/-! ### non-vacuity -/

/-- a 2-state left-to-right net, 3 frames: the DP value is the best of the two alignments -/
example :
    let N : Net := ⟨[(0, 0, -1), (0, 1, -2), (1, 1, -1)], [(0, 0)], [(1, -3)]⟩
    let em : Nat → Nat → Int := fun t s => if s = 0 then -(t : Int) - 5 else -10 + 4 * (t : Int)
    viterbi N em 3 = some (-19) ∧ viterbiArr N 2 em 3 = some (-19) ∧ N.wf 2 = true := by decide

/-- pruning the only edge into state 1 at frame 0 loses one of the two alignments of the net above -/
example :
    let N : Net := ⟨[(0, 0, -1), (0, 1, -2), (1, 1, -1)], [(0, 0)], [(1, -3)]⟩
    let em : Nat → Nat → Int := fun t s => if s = 0 then -(t : Int) - 5 else -7 + 4 * (t : Int)
    viterbi N em 3 = some (-13) ∧
    viterbiK N ⟨fun t e => !(t == 0 && e == (0, 1, -2)), fun _ => true, fun _ => true⟩ em 3 = some (-16) := by decide

def exBNet : BNet :=
  { edges := [⟨0, 0, -1, none, none⟩, ⟨0, 1, -2, none, some (-3)⟩, ⟨1, 1, -1, none, none⟩],
    init := [⟨0, 0, -4⟩], exits := [⟨1, -2, 0⟩], outs := [(0, -2), (1, -2)], hmm := fun s => s }

/-- a two-HMM chain, 3 frames: beams of −1000 are in the regime, beams of −3 are not and lose the alignment -/
example :
    let em : Nat → Nat → Int := fun t s => -(t : Int) - 5 - 2 * (s : Int)
    regime exBNet ⟨-1000, -1000, -1000⟩ 2 em 3 = true ∧ viterbiBeam exBNet ⟨-1000, -1000, -1000⟩ em 3 = some (-32) ∧
    regime exBNet ⟨-3, -3, -3⟩ 2 em 3 = false ∧ viterbiBeam exBNet ⟨-3, -3, -3⟩ em 3 = none := by decide

/-- one frame of an active HMM: state scores and exit score, real code values of the `G` matrix -/
example :
    hmmStep [3, 12, 255, 255, 255, 5, 8, 255, 255, 255, 5, 8] (fun k => -(10 * ((k % 3 : Nat) : Int) + 7)) ⟨-100, -200, -300, -536870912, -100⟩
      = ⟨-110, -119, -225, -335, -110⟩ := by decide

/-- …and the hypotheses of `C02_hmmStep_eq_ideal` are satisfiable by it -/
example : StepHyp [3, 12, 255, 255, 255, 5, 8, 255, 255, 255, 5, 8] (fun k => -(10 * ((k % 3 : Nat) : Int) + 7))
    ⟨-100, -200, -300, -536870912, -100⟩ where
  tpByte := by decide
  em := by intro k; constructor <;> omega
  s0 := Or.inr (by decide)
  s1 := Or.inr (by decide)
  s2 := Or.inr (by decide)
  skip := by decide

/-- one frame of a 5-state HMM with states 0-2 active: state 3 is entered from 2 and 1, state 4 from 2 -/
example :
    hmmStep5 [2, 9, 14, 255, 255, 255, 255, 3, 8, 12, 255, 255, 255, 255, 4, 7, 11, 255, 255, 255, 255, 5, 6, 10,
              255, 255, 255, 255, 6, 5] (fun k => -(10 * ((k % 5 : Nat) : Int) + 7))
      ⟨-100, -200, -300, -536870912, -536870912, -536870912, -100⟩
      = ⟨-109, -116, -121, -229, -338, -536870912, -109⟩ := by decide

/-- domination: the new entry (score −7, contexts {2,3}) loses context 2 to the better entry and takes
context 3 from the worse one, which disappears -/
example : add [⟨-5, [1, 2], 0⟩, ⟨-9, [3], 1⟩] ⟨-7, [2, 3], 2⟩ = [⟨-5, [1, 2], 0⟩, ⟨-7, [3], 2⟩] := by decide

/-- a dominated new entry is dropped -/
example : add [⟨-5, [1, 2], 0⟩] ⟨-7, [2], 2⟩ = [⟨-5, [1, 2], 0⟩] := by decide

def exModel : Model :=
  { sil := 0, start := 0, final := 3, arcs := [⟨0, 1, 0, some 7⟩, ⟨1, 2, 0, none⟩, ⟨2, 3, 0, some 9⟩],
    word := fun _ => none, ssid := fun _ _ _ _ => none, ciSsid := fun _ => none, ciTmat := fun _ => none,
    wip := 0, pip := 0 }

def exLNet : LNet :=
  { inner := [(0, 0, -1), (1, 1, -1)], cross := [(0, 1, -4)], init := [(0, 0)], exits := [(1, -2)],
    lab := fun s => if s = 0 then 0 else 2, n := 2 }

/-- labels of a two-word network over the FSG `0 -w7-> 1 -ε-> 2 -w9-> 3` pass the check -/
example : labelsOK exModel exLNet = true := by decide

end SSVerif
