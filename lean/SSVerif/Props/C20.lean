import SSVerif.Proofs.HashTableModes
/-!
# C20 — The hash table behaves as a map under any operation history

Property theorems only.  `P` is any table mode satisfying `Lawful` (the key comparison is an
equivalence respected by the hash function); the three modes of `hash_table.c` are instances
(`lawful_str_case`, `lawful_str_nocase`, `lawful_bin`).
-/
namespace SSVerif.HashTable

variable {P : Params}

/-- **C20, refinement.** For every operation history on a fresh table, the values the table
returns are the values an abstract map (a function from keys modulo the mode's key equality to
values, plus a counter) returns, and the table state abstracts to the map state. -/
theorem C20_run_refines (size : Nat) (L : Lawful P size) (ops : List Op) :
    (run P (HT.new size) ops).2 = (specRun P (abs P (HT.new size)) ops).2 ∧
    abs P (run P (HT.new size) ops).1 = (specRun P (abs P (HT.new size)) ops).1 ∧
    Inv P (run P (HT.new size) ops).1 := by
  suffices H : ∀ (h : HT), h.size = size → Inv P h →
      (run P h ops).2 = (specRun P (abs P h) ops).2 ∧
      abs P (run P h ops).1 = (specRun P (abs P h) ops).1 ∧ Inv P (run P h ops).1 from
    H _ rfl (inv_new size)
  induction ops with
  | nil => intro h _ hI; exact ⟨rfl, rfl, hI⟩
  | cons op ops ih =>
    intro h hs hI
    have L' : Lawful P h.size := hs ▸ L
    obtain ⟨h1, h2⟩ := step_refines L' hI op
    have hI' := inv_step L' hI op
    obtain ⟨i1, i2, i3⟩ := ih (step P h op).1 ((size_step h op).trans hs) hI'
    simp only [run, specRun]
    rw [← h1, ← h2]
    exact ⟨by rw [i1], i2, i3⟩

/-- the abstract map of a fresh table is empty -/
theorem C20_new_is_empty (size : Nat) (k : Key) : (abs P (HT.new size)).m k = none ∧ (abs P (HT.new size)).n = 0 := by
  refine ⟨?_, rfl⟩
  show lookup P (HT.new size) k = none
  unfold lookup; rw [bucket_new]; rfl

/-- **C20, count and iteration.** In every reachable state the entry count is the length of the
iteration order, the iteration order contains no two equal keys, and a key is live with value `v`
exactly when iteration visits an entry with an equal key and value `v`: iteration visits every
live entry exactly once and `inuse` is the number of distinct live keys.  `tolist` is a
permutation (the reverse) of the same list. -/
theorem C20_iter_exact (size : Nat) (L : Lawful P size) (ops : List Op) :
    let h := (run P (HT.new size) ops).1
    h.inuse = ((iter h).length : Int) ∧ NoDup P (iter h) ∧
    (∀ k v, lookup P h k = some v ↔ ∃ e ∈ iter h, P.keq e.key k = true ∧ e.val = v) ∧
    (tolist h).Perm (iter h) := by
  intro h
  have hI : Inv P h := (C20_run_refines size L ops).2.2
  have hsz : h.size = size := size_run (HT.new size) ops
  have L' : Lawful P h.size := hsz ▸ L
  exact ⟨hI.count, iter_noDup L' hI, fun k v => lookup_eq_some_iff L' hI k v, List.reverse_perm _⟩

/-- the modes of the C code are lawful, so the theorems above apply to them -/
theorem C20_modes_lawful (size : Nat) (hs : 0 < size) :
    Lawful (strParams size false) size ∧ Lawful (strParams size true) size ∧ Lawful (binParams size) size :=
  ⟨lawful_str_case size hs, lawful_str_nocase size hs, lawful_bin size hs⟩

/-- key equality of the modes is what the property says: byte equality, resp. equality after
ASCII upper-casing -/
theorem C20_key_equality (a b : Key) :
    (keycmp false a b = true ↔ a = b) ∧ (keycmp true a b = true ↔ a.map upper = b.map upper) :=
  ⟨keycmp_false_iff a b, keycmp_true_iff a b⟩

/-! ### non-vacuity: concrete colliding histories -/

-- "ab" and "AB" in a case-insensitive table of 101 buckets, then a delete of the head with a chain behind it
example :
    let P := strParams 101 true
    let ops := [Op.enter [97, 98] 1, .enter [65, 66] 2, .enter [97, 98, 0x20] 3, .lookup [65, 66],
                .delete [97, 98], .lookup [65, 66], .inuse]
    (run P (HT.new 101) ops).2 = [.val 1, .val 1, .val 3, .opt (some 1), .opt (some 1), .opt none, .val 1] := by
  decide

-- two different keys in the same bucket (size 1 forces the collision): head deletion promotes the chain
example :
    let P := strParams 1 false
    let ops := [Op.enter [1] 10, .enter [2] 20, .enter [3] 30, .delete [1], .lookup [2], .lookup [3], .inuse]
    (run P (HT.new 1) ops).2 = [.val 10, .val 20, .val 30, .opt (some 10), .opt (some 20), .opt (some 30), .val 2] := by
  decide

end SSVerif.HashTable
