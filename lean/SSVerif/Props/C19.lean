import SSVerif.Proofs.LogAdd
import SSVerif.Proofs.LogConv
import SSVerif.Proofs.LogTablesChecked
import SSVerif.Proofs.LogTableReal
/-!
# C19 — Log-domain addition is accurate, commutative and monotone

Property theorems only.  `lm : LogMath` is the model of a `logmath_t` with a table
(`SSVerif/Model/LogAdd.lean`); `logAdd lm x y` mirrors `logmath_add`.  Arguments range over all of
`int32` (`IsInt32`); `lm.zero` is the log-zero value.

* Generic theorems hold for **every** table with `TableOK` (fits the index range; non-increasing
  and dropping by at most one per step when read as `0` beyond its end).
* For each configuration the code base instantiates (`cfgDec`, `cfgS8b`, `cfgTst`, `cfgW1`, `cfgWb`,
  tables dumped from the running `logmath_init`) `TableOK` and the exact accuracy `AccAt` of every
  entry — and of the implicit `0` at every distance beyond the table — are established by kernel
  computation (`C19_tables_checked`).
* `AccAt P Q D d k` (`SSVerif/Proofs/LogTable.lean`) is, cross-multiplied into ℕ,
  `B^(2k−1)(1−δ)² ≤ (1 + B^(−d))² ≤ B^(2k+1)(1+δ)²` with `B = P/Q`, `δ = 1/D`, i.e.
  `|k − log_B(1 + B^(−d))| ≤ ½ + log_B(1+δ)`.  For a configuration, `B = base^(2^shift)` is the
  base of the shifted log domain and `δ = 2⁻²⁰` (`log_B(1+δ) < 0.0096` at base 1.0001, shift 0).
* `C19_logAdd_is_rounded_log_of_sum` restates the accuracy with Mathlib's real logarithm:
  `|logAdd x y − log_B(B^x + B^y)| ≤ ½ + ε`.
* The integer side of `logmath_log`/`logmath_exp` is `logPost`/`expArg`; the floating-point
  `log`/`pow` are outside the model.  "Never increases" does **not** hold for the code as it is
  (`(int)` truncates toward zero — defect D20, a known finding); what holds is stated.
-/
namespace SSVerif.LogAdd

/-- **Symmetry.** For log-probabilities (`zero ≤ x, y`) the log-add does not depend on the order
of its arguments.  (Below `zero` it does: `logmath_add` returns its *other* argument, so two
different values `≤ zero` are not interchangeable; such values are not log-probabilities.) -/
theorem C19_logAdd_comm (lm : LogMath) {x y : Int} (hx : lm.zero ≤ x) (hy : lm.zero ≤ y) :
    logAdd lm x y = logAdd lm y x :=
  logAdd_comm lm hx hy

/-- **Log-zero is the identity**, on either side: anything `≤ zero` on the left returns the right
argument unchanged; for a log-probability `x`, `zero` on either side returns `x`. -/
theorem C19_logAdd_zero_identity (lm : LogMath) :
    (∀ x y, x ≤ lm.zero → logAdd lm x y = y) ∧
    (∀ x y, lm.zero < x → y ≤ lm.zero → logAdd lm x y = x) ∧
    (∀ x, lm.zero ≤ x → logAdd lm lm.zero x = x ∧ logAdd lm x lm.zero = x) :=
  ⟨fun _ y hx => logAdd_zero_left lm y hx, fun _ _ hx hy => logAdd_zero_right lm hx hy,
   fun _ hx => ⟨logAdd_zero_left lm _ (Int.le_refl _), logAdd_zero_right' lm hx⟩⟩

/-- **Bounds.** The result is never smaller than the larger argument and never larger than it by
more than the first table entry (which is `log_B 2` rounded, see `C19_t0_is_log2`). -/
theorem C19_logAdd_bounds {lm : LogMath} (ok : TableOK lm.table) {x y : Int}
    (hx : lm.zero ≤ x) (hy : lm.zero ≤ y) (ix : IsInt32 x) (iy : IsInt32 y) :
    max x y ≤ logAdd lm x y ∧ logAdd lm x y ≤ max x y + (tval lm.table 0 : Nat) :=
  ⟨max_le_logAdd lm hx hy, logAdd_le_max_add_t0 ok hx hy ix iy⟩

/-- **Monotone in each argument**, over the whole `int32` range (including values at or below
`zero` and differences that overflow `int`). -/
theorem C19_logAdd_mono {lm : LogMath} (ok : TableOK lm.table) {x x' y y' : Int}
    (hx : x ≤ x') (hy : y ≤ y') (ix : IsInt32 x) (ix' : IsInt32 x') (iy : IsInt32 y) (iy' : IsInt32 y') :
    logAdd lm x y ≤ logAdd lm x' y' :=
  Int.le_trans (logAdd_mono_left ok y hx ix ix' iy) (logAdd_mono_right ok x' hy ix' iy iy')

/-- **Accuracy, generic.** If every entry of the table — and the implicit `0` beyond it — is
accurate for the base `P/Q` with tolerance `1/D`, then for all log-probabilities above `zero` the
log-add returns the larger argument plus a `k` that is the rounded `log_B(1 + B^(−|x−y|))`, i.e.
`B^result ≈ B^x + B^y` to within half a unit plus the tolerance. -/
theorem C19_logAdd_accurate {lm : LogMath} {P Q D : Nat} (hs : lm.table.size ≤ 2147483648)
    (hacc : ∀ d, AccAt P Q D d (tval lm.table d)) {x y : Int}
    (hx : lm.zero < x) (hy : lm.zero < y) (ix : IsInt32 x) (iy : IsInt32 y) :
    ∃ k : Nat, logAdd lm x y = max x y + k ∧ AccAt P Q D (x - y).natAbs k :=
  ⟨tval lm.table (x - y).natAbs, logAdd_eq_G hs hx hy ix iy, hacc _⟩

/-- **The generated tables.** For each configuration of the code base, the table dumped from
`logmath_init` satisfies `TableOK`, has the reported size, ends in `0`, the reported `zero` and
element width are the ones the model computes, and every entry at every distance `d : ℕ` (inside
and beyond the table) is accurate for the base `baseNum/baseDen` raised to `2^shift`, tolerance
`2⁻²⁰`. -/
theorem C19_tables_checked :
    cfgDec.Checked ∧ cfgS8b.Checked ∧ cfgTst.Checked ∧ cfgW1.Checked ∧ cfgWb.Checked :=
  ⟨checked_dec, checked_s8b, checked_tst, checked_w1, checked_wb⟩

/-- the width-boundary configuration is a real boundary case: its first entry is `256`, which
does not fit the 1-byte element that `⌊log_b 2⌋ = 255` would suggest, and the width is 2 -/
theorem C19_width_boundary : tval cfgWb.lm.table 0 = 256 ∧ cfgWb.width = 2 ∧ widthOf 255 = 1 := by
  decide +kernel

/-- **Everything together for a checked configuration** (in particular for the four of
`C19_tables_checked`): for all log-probabilities above `zero` the result is symmetric, lies
between `max` and `max + t[0]`, and is `max` plus the accurately rounded correction. -/
theorem C19_logAdd_spec {c : Config} (h : c.Checked) {x y : Int}
    (hx : c.lm.zero < x) (hy : c.lm.zero < y) (ix : IsInt32 x) (iy : IsInt32 y) :
    logAdd c.lm x y = logAdd c.lm y x ∧
    max x y ≤ logAdd c.lm x y ∧ logAdd c.lm x y ≤ max x y + (tval c.lm.table 0 : Nat) ∧
    ∃ k : Nat, logAdd c.lm x y = max x y + k ∧
      AccAt (c.baseNum ^ 2 ^ c.shift) (c.baseDen ^ 2 ^ c.shift) (2 ^ 20) (x - y).natAbs k :=
  ⟨logAdd_comm _ (Int.le_of_lt hx) (Int.le_of_lt hy), max_le_logAdd _ (Int.le_of_lt hx) (Int.le_of_lt hy),
   logAdd_le_max_add_t0 h.ok (Int.le_of_lt hx) (Int.le_of_lt hy) ix iy,
   C19_logAdd_accurate h.ok.size_le h.acc hx hy ix iy⟩

/-- **Accuracy, in terms of real logarithms.**  For a checked configuration with base
`b = baseNum/baseDen` and shift `s`, let `B = b^(2^s)` be the base of the shifted log domain (one
unit of a shifted log value is `2^s` units of base `b`).  For all log-probabilities above `zero`,
the value `logmath_add` returns is the logarithm to base `B` of the sum of the two probabilities
`B^x + B^y`, to within half a unit plus `ε = log_B(2^20/(2^20−1))` (`ε < 0.0096` for base 1.0001 at
shift 0, smaller for larger `B`). -/
theorem C19_logAdd_is_rounded_log_of_sum {c : Config} (h : c.Checked) {x y : Int}
    (hx : c.lm.zero < x) (hy : c.lm.zero < y) (ix : IsInt32 x) (iy : IsInt32 y) :
    let B : ℝ := ((c.baseNum : ℝ) / c.baseDen) ^ (2 ^ c.shift)
    |((logAdd c.lm x y : Int) : ℝ) - Real.logb B (B ^ x + B ^ y)| ≤
      1 / 2 + Real.logb B ((2 ^ 20 : ℝ) / (2 ^ 20 - 1)) := by
  intro B
  obtain ⟨k, hk, hacc⟩ := C19_logAdd_accurate h.ok.size_le h.acc hx hy ix iy
  have hQ : 0 < c.baseDen ^ 2 ^ c.shift := Nat.pow_pos h.den_pos
  have hPQ : c.baseDen ^ 2 ^ c.shift < c.baseNum ^ 2 ^ c.shift :=
    Nat.pow_lt_pow_left h.base_gt (Nat.ne_of_gt (Nat.pow_pos (by decide)))
  have := rounded_log_of_sum hQ hPQ (by decide : 1 < 2 ^ 20) hacc
  have eB : ((c.baseNum ^ 2 ^ c.shift : ℕ) : ℝ) / ((c.baseDen ^ 2 ^ c.shift : ℕ) : ℝ) = B := by
    push_cast; rw [← div_pow]
  rw [eB] at this
  rw [hk]
  have e20 : ((2 ^ 20 : ℕ) : ℝ) = (2 ^ 20 : ℝ) := by norm_num
  rw [e20] at this
  exact this

/-- **`t[0]` is `log_B 2` rounded**: `B^(2k−1)(1−δ)² ≤ 4 ≤ B^(2k+1)(1+δ)²` for `k = t[0]`
(so "not larger than the larger argument by more than log 2" up to rounding). -/
theorem C19_t0_is_log2 {c : Config} (h : c.Checked) :
    let P := c.baseNum ^ 2 ^ c.shift; let Q := c.baseDen ^ 2 ^ c.shift; let k := tval c.lm.table 0
    (1 ≤ k → P ^ (2 * k - 1) * (2 ^ 20 - 1) ^ 2 ≤ 4 * Q ^ (2 * k - 1) * (2 ^ 20) ^ 2) ∧
    4 * Q ^ (2 * k + 1) * (2 ^ 20) ^ 2 ≤ P ^ (2 * k + 1) * (2 ^ 20 + 1) ^ 2 := by
  intro P Q k
  have := h.acc 0
  simp only [AccAt, Nat.pow_zero, Nat.one_pow, Nat.mul_one] at this
  exact this

/-- **Conversion to the log domain loses less than one unit** (every `p > 0`, every shift):
with `v = num/den` the exact value `logmath_log` converts and `L` its result,
`v < (L + 1)·2^shift`, i.e. `exp(L)·B > p`. -/
theorem C19_log_loses_less_than_one_unit (shift : Nat) (num : Int) {den : Nat} (hd : 0 < den) :
    num < (logPost shift num den + 1) * ((2 ^ shift : Nat) : Int) * den :=
  lt_logPost_succ shift num hd

/-- **Conversion to the log domain and back never increases — partial: only for `p ≥ 1`.**
For `v ≥ 0`: `L·2^shift ≤ v`, i.e. `exp(log p) ≤ p`.  For `p < 1` the C code truncates toward
zero and the statement is false (D20, `C19_D20_witness`); there the result exceeds `v` by less
than one unit of the unshifted base: `L·2^shift < v + 1` (second conjunct, all `v`).
Full statement that the property text asks for and that does not hold for the code as it is:
`∀ num den, 0 < den → logPost shift num den * 2^shift * den ≤ num`. -/
theorem C19_log_exp_never_increases_partial (shift : Nat) (num : Int) {den : Nat} (hd : 0 < den) :
    (0 ≤ num → logPost shift num den * ((2 ^ shift : Nat) : Int) * den ≤ num) ∧
    logPost shift num den * ((2 ^ shift : Nat) : Int) * den < num + den :=
  ⟨logPost_le_of_nonneg shift hd, logPost_lt_add_one shift num hd⟩

/-- **D20, witness in the model**: `p = 0.5` at base 1.0001, shift 0 has `v ≈ −6931.8`;
`(int)` gives `−6931 > v`, so `exp(log p) > p`. -/
theorem C19_D20_witness : ¬ (logPost 0 (-69318) 10 * ((2 ^ 0 : Nat) : Int) * (10 : Nat) ≤ -69318) := by decide

/-- **`log(exp l) = l`** on the integer side, for every shift. -/
theorem C19_log_of_exp (shift : Nat) (l : Int) : logPost shift (expArg shift l) 1 = l :=
  logPost_expArg shift l

/-! ### non-vacuity -/

/-- the hypotheses of the generic theorems are met by a small hand-made table … -/
example : TableOK #[3, 2, 2, 1, 1, 0] :=
  tableOK_of_runs (runs := [(3, 1), (2, 2), (1, 2), (0, 1)]) (by decide) (by decide)

/-- … on which `logAdd` takes every branch with non-trivial values -/
example : let lm : LogMath := ⟨#[3, 2, 2, 1, 1, 0], -100, 0⟩
    logAdd lm (-10) (-12) = -8 ∧ logAdd lm (-12) (-10) = -8 ∧ logAdd lm (-10) (-10) = -7 ∧
    logAdd lm (-10) (-40) = -10 ∧ logAdd lm (-100) (-7) = -7 ∧ logAdd lm (-7) (-100) = -7 ∧
    logAdd lm 2147483647 (-99) = 2147483647 := by decide

/-- generated tables: `log(0.5) ⊕ log(0.5) = log(1)` in base 1.003 (`-231 ⊕ -231 = 0`), and a
lookup in the 8-bit senone-score table (`t[2] = 6`) -/
example : logAdd cfgW1.lm (-231) (-231) = 0 ∧ logAdd cfgS8b.lm (-7) (-9) = -1 := by decide +kernel

/-- an accuracy instance that is not trivially true: the entry `6932` at distance 0 is accepted,
`6931` and `6933` are rejected by the exact statement -/
example : AccAt 10001 10000 (2 ^ 20) 0 6932 ∧ ¬ AccAt 10001 10000 (2 ^ 20) 0 6931 ∧
    ¬ AccAt 10001 10000 (2 ^ 20) 0 6933 := by
  unfold AccAt; decide +kernel

/-- conversions: `(int)(-6931.8) >> 0 = -6931`, `(int)(-6931.8) >> 8 = -28` (floor of −27.07),
`(int)(37376.4) >> 8 = 146` as in `test_log_shifted.c` -/
example : logPost 0 (-69318) 10 = -6931 ∧ logPost 8 (-69318) 10 = -28 ∧ logPost 8 373764 10 = 146 := by decide

end SSVerif.LogAdd
