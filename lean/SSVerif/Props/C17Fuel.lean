import SSVerif.Proofs.S3fileFuel
/-!
# C17 — the fuel of the scanning loops is enough

The loops of the reader model (`Model/S3file.lean`, `Model/BinMdef.lean`) take a `fuel` argument to be
structurally recursive and return a regular-looking value at fuel 0 (`.ok p`, `.ok none`, or the end-of-file
reject).  The callers pass the loop variant.  `C17_scan_fuel_enough` states that for every loop the result with
ANY fuel at or above the variant equals the result with the variant itself — the loops never stop because the
fuel ran out, and the model's results are those of the unbounded C loops.  (Safety — no `oob`/`idx` — holds for
every fuel and is `C17_get_in_bounds` / `C17_plan_decides`; this file is about fidelity.)
-/
namespace SSVerif.S3file

/-- **C17, fuel is enough.**  For every file and every loop of the reader model, in the form the callers use it:
* `s3file_nextline` (`scanNl`, fuel `size - p`), the blank/word scans of `s3file_nextword` (`skipSp`, `skipNon`,
  fuel `lim - p`), `memchr` of the phone names (`findNul`, fuel `lim - p`);
* the two header passes and the old-format comment loop (`pass1`, `pass2`, `oldFmt`, fuel `size - p + 1`: every
  line consumes at least one byte, and one more turn sees the end of file);
* the header strings of a sendump (`sdStrings`, fuel `avail / 4 + 1`: every string consumes its 4-byte length);
* the phone/state loops and the binary search for `SIL` of the binary mdef (`mapPhones`, `mapStates`,
  `findCiphone`, fuel `n_phone - i`, `len - j`, `high - low`);
any larger fuel gives the same result. -/
theorem C17_scan_fuel_enough (f : File) :
    (∀ p fuel, f.size - p ≤ fuel → scanNl f fuel p = scanNl f (f.size - p) p) ∧
    (∀ lim p fuel, lim - p ≤ fuel → skipSp f lim fuel p = skipSp f lim (lim - p) p) ∧
    (∀ lim p fuel, lim - p ≤ fuel → skipNon f lim fuel p = skipNon f lim (lim - p) p) ∧
    (∀ lim p fuel, lim - p ≤ fuel → findNul f lim fuel p = findNul f lim (lim - p) p) ∧
    (∀ p cnt fuel, p ≤ f.size → f.size - p + 1 ≤ fuel → pass1 f fuel p cnt = pass1 f (f.size - p + 1) p cnt) ∧
    (∀ nhdr p acc chk fuel, p ≤ f.size → f.size - p + 1 ≤ fuel →
      pass2 f nhdr fuel p acc chk = pass2 f nhdr (f.size - p + 1) p acc chk) ∧
    (∀ p fuel, p ≤ f.size → f.size - p + 1 ≤ fuel → oldFmt f fuel p = oldFmt f (f.size - p + 1) p) ∧
    (∀ (s : S) (h : SdHdr) fuel, s.f = f → s.ptr ≤ f.size → s.avail / 4 + 1 ≤ fuel →
      sdStrings fuel s h = sdStrings (s.avail / 4 + 1) s h) ∧
    (∀ h l i c2c s2c fuel, h.nPhone - i ≤ fuel →
      mapPhones f h l fuel i c2c s2c = mapPhones f h l (h.nPhone - i) i c2c s2c) ∧
    (∀ h l ssid ci j c2c s2c fuel, l.topo.len ssid - j ≤ fuel →
      mapStates f h l ssid ci (fuel + 1) j c2c s2c = mapStates f h l ssid ci fuel j c2c s2c) ∧
    (∀ names name low high fuel, high - low ≤ fuel →
      findCiphone f names name fuel low high = findCiphone f names name (high - low) low high) :=
  ⟨fun p fuel h => scanNl_fuel f p fuel h, fun lim p fuel h => skipSp_fuel f lim p fuel h,
   fun lim p fuel h => skipNon_fuel f lim p fuel h, fun lim p fuel h => findNul_fuel f lim p fuel h,
   fun p cnt fuel hp h => pass1_fuel f p cnt fuel hp h,
   fun nhdr p acc chk fuel hp h => pass2_fuel f nhdr p acc chk fuel hp h,
   fun p fuel hp h => oldFmt_fuel f p fuel hp h,
   fun s h fuel h1 h2 h3 => sdStrings_fuel s h ⟨h1, h2⟩ fuel h3,
   fun h l i c2c s2c fuel hf => mapPhones_fuel f h l i c2c s2c fuel hf,
   fun h l ssid ci j c2c s2c fuel hf => mapStates_step f h l ssid ci fuel j c2c s2c hf,
   fun names name low high fuel hf => findCiphone_fuel f names name low high fuel hf⟩

/-- **C17, the newline scan is exact.**  `s3file_nextline`'s scan from `p ≤ size` with the fuel the model gives it
completes at the first newline at or after `p`, or at the end of the file when there is none. -/
theorem C17_newline_scan_exact (f : File) (p : Nat) (hp : p ≤ f.size) :
    ∃ e, scanNl f (f.size - p) p = .ok e ∧ p ≤ e ∧ e ≤ f.size ∧ (e = f.size ∨ f.byte e = 10) ∧
      ∀ q, p ≤ q → q < e → f.byte q ≠ 10 := by
  have h := scanNl_exact f (f.size - p) p (Nat.le_refl _) hp
  cases hs : scanNl f (f.size - p) p with
  | ok e => rw [hs] at h; exact ⟨e, rfl, h⟩
  | reject s =>
    exfalso
    have : ∀ fuel q, scanNl f fuel q ≠ .reject s := by
      intro fuel
      induction fuel with
      | zero => intro q hq; simp [scanNl] at hq
      | succ n ih =>
        intro q hq
        rw [scanNl] at hq
        by_cases hlt : q < f.size
        · rw [if_pos hlt] at hq
          have hr : rd f q = .ok (f.byte q) := by unfold rd; rw [if_pos hlt]
          rw [hr] at hq
          change (if f.byte q = 10 then _ else _) = _ at hq
          by_cases hb : f.byte q = 10
          · rw [if_pos hb] at hq; cases hq
          · rw [if_neg hb] at hq; exact ih _ hq
        · rw [if_neg hlt] at hq; cases hq
    exact this _ _ hs
  | oob i => rw [hs] at h; exact h.elim
  | idx i n => rw [hs] at h; exact h.elim

/-- **C17, the short-read stages are dead code.**  In the repaired readers every bulk read sits behind a length
pre-check, so the error branch after it cannot be taken by any file: a `s3file_get` of `n ≤ avail / k` elements
returns all `n`; `s3file_get_1d` never fails with `get(arraydata) failed` (ledger stage `ArrStage.data`, hence
also `LdaStage.array .data`); the row loop of `tmat_init_s3file` / `read_mixw` behind `rows * per ≤ avail / 4`
completes (`TmatStage.row`; `ParamStage.data` of `gauden_param_read` is the first statement with
`n ≤ avail / 4`).  This is why no generated case reaches those ledger stages. -/
theorem C17_short_read_stages_dead :
    (∀ (s : S) k n, 0 < k → s.ptr ≤ s.f.size → n ≤ s.avail / k → ∃ s', get s k n = .ok (s', n)) ∧
    (∀ (s : S) k, 0 < k → s.ptr ≤ s.f.size → get1d s k ≠ .reject "get(arraydata) failed") ∧
    (∀ site per n (s : S), s.ptr ≤ s.f.size → n * per ≤ s.avail / 4 → ∃ s', getRows site per n s = .ok s') :=
  ⟨fun s k n hk hs hn => (get_full (f := s.f) k n hk ⟨rfl, hs⟩ hn).imp fun _ h => h.1,
   fun s k hk hs => get1d_data_dead (f := s.f) k hk ⟨rfl, hs⟩,
   fun site per n s hs h => (getRows_complete (f := s.f) site per n s ⟨rfl, hs⟩ h).imp fun _ h => h.1⟩

/-! ### non-vacuity: more fuel, same answer; too little fuel, a different (wrong) one -/

example : ((match scanNl (File.ofList [97, 98, 10, 99]) 4 0 with | .ok e => e == 2 | _ => false) &&
    (match scanNl (File.ofList [97, 98, 10, 99]) 100 0 with | .ok e => e == 2 | _ => false) &&
    (match scanNl (File.ofList [97, 98, 10, 99]) 1 0 with | .ok e => e == 1 | _ => false)) = true := by decide
example : (match pass1 (File.ofList [97, 10]) 1 0 0 with | .reject _ => true | _ => false) = true := by decide

end SSVerif.S3file
