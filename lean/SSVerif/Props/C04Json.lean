import SSVerif.Model.AlignJson
import Mathlib.Tactic.Linarith
import Mathlib.Tactic.FieldSimp
import Mathlib.Tactic.Ring
import Mathlib.Algebra.Order.Field.Rat
import Mathlib.Algebra.Order.Field.Basic
import Mathlib.Data.Rat.Cast.Order
/-!
# C04 at the observation point `decoder_result_json(d, start, 1|2)`

`format_align_iter` (decoder.c:1454-1469) reports an alignment entry with start frame `f` and duration `n` as the
times `b = start + f/frate`, `d = n/frate`, printed with `%.3f`.  The property's clauses "children exactly partition
their parent's frames with positive durations, every level is contiguous from frame 0" are stated on frames
(`AlignOK`, `Contig`).  This file proves that the affine map `f ↦ start + f/frate` (exact rationals, `frate > 0`)
**preserves and reflects** them: a tree of frames satisfies the time clauses iff its image tiles in time from `start`
to `start + T/frate` — so the only numeric step of the JSON check is the comparison of the rendered decimals with
that exact image, done by `JsonObs.recoverStart/recoverDur` in integer arithmetic, proved sound and unambiguous
below (tolerance `0.0005 + 10⁻⁹`, frame rates up to 500).

What is evaluated on the real code (tools/props/c04.py, every alignment request, `align_level` 1 and 2, starts
zero / positive / negative / fractional / large): the line parses (`Json.parseLine`), `JsonObs.obsOf` recovers a tree
(every printed `b`, `d` passes the tolerance test), the tree lists exactly the entries of
`alignment_words/phones/states` (name, start frame, duration) — `same`, `names` —, `JsonObs.timeOKB` holds, the
enclosing object begins at frame 0 (`top`), and `clockOK`.
-/
namespace SSVerif.Align
open JsonObs

/-- exact time of frame `f` of an utterance that begins at `start` -/
def timeOf (start : ℚ) (frate : Int) (f : Int) : ℚ := start + (f : ℚ) / (frate : ℚ)

/-- what `format_align_iter` computes for an entry, before rendering: `(b, d)` -/
def img (start : ℚ) (frate : Int) (e : Entry) : ℚ × ℚ := (timeOf start frate e.start, (e.duration : ℚ) / (frate : ℚ))

/-- segments `(b, d)` tile `[a, b)` in time, in order, each with positive duration -/
def ContigT : List (ℚ × ℚ) → ℚ → ℚ → Prop
  | [], a, b => a = b
  | s :: r, a, b => s.1 = a ∧ 0 < s.2 ∧ ContigT r (a + s.2) b

theorem timeOf_add (start : ℚ) (frate : Int) (a d : Int) :
    timeOf start frate a + (d : ℚ) / (frate : ℚ) = timeOf start frate (a + d) := by
  simp only [timeOf]; push_cast; ring

theorem timeOf_inj (start : ℚ) (frate : Int) (hf : 0 < frate) (a b : Int) :
    timeOf start frate a = timeOf start frate b ↔ a = b := by
  have h : (0:ℚ) < (frate : ℚ) := by exact_mod_cast hf
  constructor
  · intro e
    simp only [timeOf] at e
    have h1 : (a : ℚ) / frate = (b : ℚ) / frate := by linarith
    have h2 : (a : ℚ) = b := by field_simp at h1; exact h1
    exact_mod_cast h2
  · rintro rfl; rfl

theorem dur_pos_iff (frate : Int) (hf : 0 < frate) (d : Int) : (0:ℚ) < (d : ℚ) / (frate : ℚ) ↔ 0 < d := by
  have h : (0:ℚ) < (frate : ℚ) := by exact_mod_cast hf
  rw [div_pos_iff_of_pos_right h]; exact_mod_cast Iff.rfl

/-- **C04 (JSON), the affine map preserves and reflects tilings.**  For every frame rate `frate > 0`, utterance
position `start` and list of entries: the entries tile the frames `[a, b)` in order with positive durations iff the
`(begin, duration)` pairs `format_align_iter` computes for them tile the time interval
`[start + a/frate, start + b/frate)`. -/
theorem C04_json_affine_partition (start : ℚ) (frate : Int) (hf : 0 < frate) (l : List Entry) (a b : Int) :
    Contig l a b ↔ ContigT (l.map (img start frate)) (timeOf start frate a) (timeOf start frate b) := by
  induction l generalizing a with
  | nil => simp only [Contig, List.map_nil, ContigT]; exact (timeOf_inj start frate hf a b).symm
  | cons e r ih =>
    simp only [Contig, List.map_cons, ContigT, img]
    rw [timeOf_inj start frate hf, dur_pos_iff frate hf, timeOf_add, ← ih]

/-- the time clauses of C04 on what `decoder_result_json(d, start, level)` reports, in exact time: the phones of a
word tile the word's interval `[b, b + d)`, (level 2) the states of a phone tile the phone's interval, and every
level tiles `[start, start + T/frate)` -/
structure TimeOKT (lvl2 : Bool) (start : ℚ) (frate : Int) (T : Int) (t : List WNode) : Prop where
  partW : ∀ w ∈ t, ContigT ((w.phones.map (·.e)).map (img start frate)) (img start frate w.e).1
            ((img start frate w.e).1 + (img start frate w.e).2)
  contW : ContigT ((t.map (·.e)).map (img start frate)) start (start + (T : ℚ) / (frate : ℚ))
  contP : ContigT (((t.flatMap (·.phones)).map (·.e)).map (img start frate)) start (start + (T : ℚ) / (frate : ℚ))
  partP : lvl2 = true → ∀ w ∈ t, ∀ p ∈ w.phones, ContigT (p.states.map (img start frate)) (img start frate p.e).1
            ((img start frate p.e).1 + (img start frate p.e).2)
  contS : lvl2 = true → ContigT (((t.flatMap (·.phones)).flatMap (·.states)).map (img start frate)) start
            (start + (T : ℚ) / (frate : ℚ))

theorem timeOf_zero (start : ℚ) (frate : Int) : timeOf start frate 0 = start := by simp [timeOf]

/-- **C04 (JSON), the hierarchy in time.**  A tree of frames satisfies the partition/contiguity clauses iff the tree
of exact times `format_seg_align` computes from it does, for every `start` and `frate > 0`. -/
theorem C04_json_time_iff (lvl2 : Bool) (start : ℚ) (frate : Int) (hf : 0 < frate) (T : Int) (t : List WNode) :
    TimeOK lvl2 T t ↔ TimeOKT lvl2 start frate T t := by
  have e0 : start = timeOf start frate 0 := (timeOf_zero start frate).symm
  have eT : start + (T : ℚ) / (frate : ℚ) = timeOf start frate T := by simp [timeOf]
  have key : ∀ (l : List Entry) (a d : Int),
      Contig l a (a + d) ↔ ContigT (l.map (img start frate)) (timeOf start frate a)
        (timeOf start frate a + (d : ℚ) / (frate : ℚ)) := fun l a d => by
    rw [timeOf_add]; exact C04_json_affine_partition start frate hf l a (a + d)
  have key0 : ∀ (l : List Entry), Contig l 0 T ↔ ContigT (l.map (img start frate)) start
      (start + (T : ℚ) / (frate : ℚ)) := fun l => by
    rw [eT]; conv => rhs; arg 2; rw [e0]
    exact C04_json_affine_partition start frate hf l 0 T
  constructor
  · intro h
    refine ⟨fun w hw => ?_, ?_, ?_, fun h2 w hw p hp => ?_, fun h2 => ?_⟩
    · exact (key _ _ _).1 (h.partW w hw)
    · exact (key0 _).1 h.contW
    · exact (key0 _).1 h.contP
    · exact (key _ _ _).1 (h.partP h2 w hw p hp)
    · exact (key0 _).1 (h.contS h2)
  · intro h
    refine ⟨fun w hw => ?_, ?_, ?_, fun h2 w hw p hp => ?_, fun h2 => ?_⟩
    · exact (key _ _ _).2 (h.partW w hw)
    · exact (key0 _).2 h.contW
    · exact (key0 _).2 h.contP
    · exact (key _ _ _).2 (h.partP h2 w hw p hp)
    · exact (key0 _).2 (h.contS h2)

/-- `timeOKB` (run by the driver on the tree recovered from the JSON line) decides `TimeOK` -/
theorem C04_json_timeOKB_iff (lvl2 : Bool) (T : Int) (t : List WNode) : timeOKB lvl2 T t = true ↔ TimeOK lvl2 T t := by
  cases lvl2 <;> simp only [timeOKB, Bool.and_eq_true, decide_eq_true_eq, Bool.not_true, Bool.not_false,
    Bool.false_or, Bool.true_or, Bool.and_true]
  · constructor
    · rintro ⟨⟨h1, h2⟩, h3⟩; exact ⟨h1, h2, h3, fun h => (nomatch h), fun h => (nomatch h)⟩
    · rintro ⟨h1, h2, h3, _, _⟩; exact ⟨⟨h1, h2⟩, h3⟩
  · constructor
    · rintro ⟨⟨⟨h1, h2⟩, h3⟩, h4, h5⟩; exact ⟨h1, h2, h3, fun _ => h4, fun _ => h5⟩
    · rintro ⟨h1, h2, h3, h4, h5⟩; exact ⟨⟨⟨h1, h2⟩, h3⟩, h4 rfl, h5 rfl⟩

theorem contig_dropStates (t : List WNode) :
    (dropStates t).map (·.e) = t.map (·.e) ∧
    ((dropStates t).flatMap (·.phones)).map (·.e) = (t.flatMap (·.phones)).map (·.e) := by
  induction t with
  | nil => simp [dropStates]
  | cons w r ih =>
    simp only [dropStates, List.map_cons, List.flatMap_cons, List.map_append, List.map_map] at ih ⊢
    refine ⟨by simpa using ih.1, ?_⟩
    rw [ih.2]; simp [Function.comp_def]

/-- **C04 (JSON), from the hierarchy predicate to the reported times.**  If the alignment tree the iterator API
hands out satisfies `AlignOK` (the verified checker `alignOKB` is run on it for every request), then for every
`start` and every `frate > 0` the tree of exact times that `decoder_result_json(d, start, 2)` computes from it
(`format_seg_align` with the state level) has children that exactly partition their parents and levels contiguous
from `start` to `start + T/frate`; and so has the level-1 tree (states not printed). -/
theorem C04_json_hierarchy_in_time (pron : Int → List Int) (nEmit : Nat) (senOK : Int → Nat → Int → Bool)
    (expSen : List (List Int)) (fp : List Seg) (T : Int) (t : List WNode)
    (h : AlignOK pron nEmit senOK expSen fp T t) (start : ℚ) (frate : Int) (hf : 0 < frate) :
    TimeOKT true start frate T t ∧ TimeOKT false start frate T (dropStates t) := by
  constructor
  · exact (C04_json_time_iff true start frate hf T t).1
      ⟨h.partW, h.contW, h.contP, fun _ => h.partP, fun _ => h.contS⟩
  · refine (C04_json_time_iff false start frate hf T _).1 ⟨?_, ?_, ?_, fun h => (nomatch h), fun h => (nomatch h)⟩
    · intro w hw
      simp only [dropStates, List.mem_map] at hw
      obtain ⟨w0, hw0, rfl⟩ := hw
      simpa [List.map_map, Function.comp_def] using h.partW w0 hw0
    · rw [(contig_dropStates t).1]; exact h.contW
    · rw [(contig_dropStates t).2]; exact h.contP

/-! ### the numeric step: rendered decimals → frames -/

/-- `start` of a clock as an exact rational -/
def JsonObs.Clock.start (c : Clock) : ℚ := (c.sn : ℚ) / (c.sd : ℚ)

/-- the stated tolerance: half a thousandth + 10⁻⁹ -/
def tol : ℚ := 500001 / 1000000000

theorem within_iff (e b : Int) : within e b = true ↔ -b ≤ e ∧ e ≤ b := by simp [within]

theorem startErr_eq (c : Clock) (hsd : 0 < c.sd) (hf : 0 < c.frate) (bm f : Int) :
    (bm : ℚ) / 1000 - timeOf c.start c.frate f = (startErr c bm f : ℚ) / (1000 * c.sd * c.frate) := by
  have h1 : (c.sd : ℚ) ≠ 0 := by exact_mod_cast hsd.ne'
  have h2 : (c.frate : ℚ) ≠ 0 := by exact_mod_cast hf.ne'
  simp only [timeOf, JsonObs.Clock.start, startErr]; push_cast; field_simp; ring

/-- a frame number passes the tolerance test iff the rendered time is within `tol` of its exact time -/
theorem startErr_within (c : Clock) (hsd : 0 < c.sd) (hf : 0 < c.frate) (bm f : Int) :
    within (1000000 * startErr c bm f) (tolNano * c.sd * c.frate) = true ↔
      |(bm : ℚ) / 1000 - timeOf c.start c.frate f| ≤ tol := by
  have h1 : (0:ℚ) < (c.sd : ℚ) := by exact_mod_cast hsd
  have h2 : (0:ℚ) < (c.frate : ℚ) := by exact_mod_cast hf
  have hD : (0:ℚ) < 1000 * c.sd * c.frate := by positivity
  rw [within_iff, startErr_eq c hsd hf, abs_le, le_div_iff₀ hD, div_le_iff₀ hD]
  simp only [tol, tolNano]
  constructor
  · rintro ⟨ha, hb⟩
    have ha' : (-(500001 * c.sd * c.frate) : ℚ) ≤ 1000000 * (startErr c bm f : ℚ) := by exact_mod_cast ha
    have hb' : (1000000 * (startErr c bm f : ℚ)) ≤ 500001 * c.sd * c.frate := by exact_mod_cast hb
    constructor <;> nlinarith
  · rintro ⟨ha, hb⟩
    have ha' : (-(500001 * c.sd * c.frate) : ℚ) ≤ 1000000 * (startErr c bm f : ℚ) := by nlinarith
    have hb' : (1000000 * (startErr c bm f : ℚ)) ≤ 500001 * c.sd * c.frate := by nlinarith
    exact ⟨by exact_mod_cast ha', by exact_mod_cast hb'⟩

/-- **C04 (JSON), frame recovery is sound and unambiguous.**  For a clock with `sd > 0` and `0 < frate ≤ 500`
(`clockOK`, evaluated per call): if `recoverStart` accepts the rendered begin time `bm/1000` as frame `f`, then
`|bm/1000 − (start + f/frate)| ≤ 0.0005 + 10⁻⁹`, and `f` is the **only** frame number within that tolerance. -/
theorem C04_json_recoverStart_sound (c : Clock) (hc : clockOK c = true) (bm f : Int)
    (h : recoverStart c bm = some f) :
    |(bm : ℚ) / 1000 - timeOf c.start c.frate f| ≤ tol ∧
    ∀ f' : Int, |(bm : ℚ) / 1000 - timeOf c.start c.frate f'| ≤ tol → f' = f := by
  simp only [clockOK, Bool.and_eq_true, decide_eq_true_eq] at hc
  obtain ⟨⟨hsd, hf⟩, h500⟩ := hc
  have hb : |(bm : ℚ) / 1000 - timeOf c.start c.frate f| ≤ tol := by
    simp only [recoverStart] at h
    split at h
    · rename_i hw
      cases h
      exact (startErr_within c hsd hf bm _).1 hw
    · cases h
  refine ⟨hb, fun f' hb' => ?_⟩
  -- |f − f'| / frate ≤ 2 tol < 1/frate
  have h2 : (0:ℚ) < (c.frate : ℚ) := by exact_mod_cast hf
  have h5 : (c.frate : ℚ) ≤ 500 := by exact_mod_cast h500
  rw [abs_le] at hb hb'
  simp only [timeOf, tol] at hb hb'
  have e1 : ((f' : ℚ) - f) / c.frate ≤ 2 * (500001 / 1000000000) := by
    have : ((f' : ℚ) - f) / c.frate = (f' : ℚ) / c.frate - (f : ℚ) / c.frate := by ring
    rw [this]; linarith [hb.1, hb.2, hb'.1, hb'.2]
  have e2 : ((f : ℚ) - f') / c.frate ≤ 2 * (500001 / 1000000000) := by
    have : ((f : ℚ) - f') / c.frate = (f : ℚ) / c.frate - (f' : ℚ) / c.frate := by ring
    rw [this]; linarith [hb.1, hb.2, hb'.1, hb'.2]
  rw [div_le_iff₀ h2] at e1 e2
  have l1 : (f' : ℚ) - f < 1 := by nlinarith
  have l2 : (f : ℚ) - f' < 1 := by nlinarith
  have l1' : f' - f < 1 := by exact_mod_cast l1
  have l2' : f - f' < 1 := by exact_mod_cast l2
  omega

theorem durErr_within (c : Clock) (hf : 0 < c.frate) (dm n : Int) :
    within (1000000 * durErr c dm n) (tolNano * c.frate) = true ↔ |(dm : ℚ) / 1000 - (n : ℚ) / c.frate| ≤ tol := by
  have h2 : (0:ℚ) < (c.frate : ℚ) := by exact_mod_cast hf
  have hD : (0:ℚ) < 1000 * c.frate := by positivity
  have e : (dm : ℚ) / 1000 - (n : ℚ) / c.frate = (durErr c dm n : ℚ) / (1000 * c.frate) := by
    simp only [durErr]; push_cast; field_simp
  rw [within_iff, e, abs_le, le_div_iff₀ hD, div_le_iff₀ hD]
  simp only [tol, tolNano]
  constructor
  · rintro ⟨ha, hb⟩
    have ha' : (-(500001 * c.frate) : ℚ) ≤ 1000000 * (durErr c dm n : ℚ) := by exact_mod_cast ha
    have hb' : (1000000 * (durErr c dm n : ℚ)) ≤ 500001 * c.frate := by exact_mod_cast hb
    constructor <;> nlinarith
  · rintro ⟨ha, hb⟩
    have ha' : (-(500001 * c.frate) : ℚ) ≤ 1000000 * (durErr c dm n : ℚ) := by nlinarith
    have hb' : (1000000 * (durErr c dm n : ℚ)) ≤ 500001 * c.frate := by nlinarith
    exact ⟨by exact_mod_cast ha', by exact_mod_cast hb'⟩

/-- the same for durations: an accepted rendered duration `dm/1000` is within the tolerance of `n/frate` and `n` is
the only such number of frames -/
theorem C04_json_recoverDur_sound (c : Clock) (hc : clockOK c = true) (dm n : Int)
    (h : recoverDur c dm = some n) :
    |(dm : ℚ) / 1000 - (n : ℚ) / c.frate| ≤ tol ∧
    ∀ n' : Int, |(dm : ℚ) / 1000 - (n' : ℚ) / c.frate| ≤ tol → n' = n := by
  simp only [clockOK, Bool.and_eq_true, decide_eq_true_eq] at hc
  obtain ⟨⟨_, hf⟩, h500⟩ := hc
  have hb : |(dm : ℚ) / 1000 - (n : ℚ) / c.frate| ≤ tol := by
    simp only [recoverDur] at h
    split at h
    · rename_i hw
      cases h
      exact (durErr_within c hf dm _).1 hw
    · cases h
  refine ⟨hb, fun n' hb' => ?_⟩
  have h2 : (0:ℚ) < (c.frate : ℚ) := by exact_mod_cast hf
  have h5 : (c.frate : ℚ) ≤ 500 := by exact_mod_cast h500
  rw [abs_le] at hb hb'
  simp only [tol] at hb hb'
  have e1 : ((n' : ℚ) - n) / c.frate ≤ 2 * (500001 / 1000000000) := by
    have : ((n' : ℚ) - n) / c.frate = (n' : ℚ) / c.frate - (n : ℚ) / c.frate := by ring
    rw [this]; linarith [hb.1, hb.2, hb'.1, hb'.2]
  have e2 : ((n : ℚ) - n') / c.frate ≤ 2 * (500001 / 1000000000) := by
    have : ((n : ℚ) - n') / c.frate = (n : ℚ) / c.frate - (n' : ℚ) / c.frate := by ring
    rw [this]; linarith [hb.1, hb.2, hb'.1, hb'.2]
  rw [div_le_iff₀ h2] at e1 e2
  have l1 : (n' : ℚ) - n < 1 := by nlinarith
  have l2 : (n : ℚ) - n' < 1 := by nlinarith
  have l1' : n' - n < 1 := by exact_mod_cast l1
  have l2' : n - n' < 1 := by exact_mod_cast l2
  omega

theorem roundDiv_eq (n d f : Int) (hd : 0 < d) (h1 : 0 ≤ 2 * (n - d * f) + d) (h2 : 2 * (n - d * f) < d) :
    roundDiv n d = f := by
  unfold roundDiv
  rw [Int.ediv_eq_iff_of_pos (by omega)]
  constructor <;> nlinarith

/-- **C04 (JSON), frame recovery is exact**: under `clockOK`, `recoverStart` accepts a rendered begin time as frame `f`
**iff** it is within the tolerance of the exact time of frame `f` — the reader refuses exactly the renderings that are
no frame's time (no false alarm on a correct rendering, no acceptance of a wrong one). -/
theorem C04_json_recoverStart_iff (c : Clock) (hc : clockOK c = true) (bm f : Int) :
    recoverStart c bm = some f ↔ |(bm : ℚ) / 1000 - timeOf c.start c.frate f| ≤ tol := by
  constructor
  · exact fun h => (C04_json_recoverStart_sound c hc bm f h).1
  · intro hb
    have hc' := hc
    simp only [clockOK, Bool.and_eq_true, decide_eq_true_eq] at hc'
    obtain ⟨⟨hsd, hf⟩, h500⟩ := hc'
    have hw := (startErr_within c hsd hf bm f).2 hb
    have hw' := (within_iff _ _).1 hw
    simp only [tolNano] at hw'
    have hB : 500001 * c.sd * c.frate ≤ 250000500 * c.sd := by nlinarith
    have hr : roundDiv ((bm * c.sd - 1000 * c.sn) * c.frate) (1000 * c.sd) = f := by
      apply roundDiv_eq _ _ _ (by omega)
      · have : (bm * c.sd - 1000 * c.sn) * c.frate - 1000 * c.sd * f = startErr c bm f := by
          simp only [startErr]; ring
        rw [this]; omega
      · have : (bm * c.sd - 1000 * c.sn) * c.frate - 1000 * c.sd * f = startErr c bm f := by
          simp only [startErr]; ring
        rw [this]; omega
    simp only [recoverStart]
    rw [hr, if_pos hw]

/-- the same for durations -/
theorem C04_json_recoverDur_iff (c : Clock) (hc : clockOK c = true) (dm n : Int) :
    recoverDur c dm = some n ↔ |(dm : ℚ) / 1000 - (n : ℚ) / c.frate| ≤ tol := by
  constructor
  · exact fun h => (C04_json_recoverDur_sound c hc dm n h).1
  · intro hb
    have hc' := hc
    simp only [clockOK, Bool.and_eq_true, decide_eq_true_eq] at hc'
    obtain ⟨⟨_, hf⟩, h500⟩ := hc'
    have hw := (durErr_within c hf dm n).2 hb
    have hw' := (within_iff _ _).1 hw
    simp only [tolNano] at hw'
    have hr : roundDiv (dm * c.frate) 1000 = n := by
      apply roundDiv_eq _ _ _ (by omega)
      · have : dm * c.frate - 1000 * n = durErr c dm n := by simp only [durErr]
        rw [this]; omega
      · have : dm * c.frate - 1000 * n = durErr c dm n := by simp only [durErr]
        rw [this]; omega
    simp only [recoverDur]
    rw [hr, if_pos hw]

/-! ### non-vacuity -/

/-- a two-word tree: word 0 = frames [0,5) with phones [0,3),[3,5); word 1 = [5,9) with one phone -/
def exJsonTree : List WNode :=
  let st (a b c d : Int) : List Entry :=
    [{ start := a, duration := b - a, score := 0, parent := 0, child := 0, id := 1 },
     { start := b, duration := c - b, score := 0, parent := 0, child := 0, id := 2 },
     { start := c, duration := d - c, score := 0, parent := 0, child := 0, id := 3 }]
  let ph (a d : Int) (s : List Entry) : PNode :=
    { e := { start := a, duration := d - a, score := 0, parent := 0, child := 0, id := 7 }, states := s }
  [{ e := { start := 0, duration := 5, score := 0, parent := 0, child := 0, id := 10 },
     phones := [ph 0 3 (st 0 1 2 3), ph 3 5 [{ start := 3, duration := 2, score := 0, parent := 0, child := 0, id := 4 }]] },
   { e := { start := 5, duration := 4, score := 0, parent := 0, child := 0, id := 11 }, phones := [ph 5 9 (st 5 6 8 9)] }]

example : timeOKB true 9 exJsonTree = true := by decide
example : timeOKB false 9 (dropStates exJsonTree) = true := by decide
/-- the hierarchy holds in time for start = 12.5 s at 100 frames/s -/
example : TimeOKT true (25 / 2) 100 9 exJsonTree :=
  (C04_json_time_iff true (25 / 2) 100 (by decide) 9 exJsonTree).1 ((C04_json_timeOKB_iff _ _ _).1 (by decide))
/-- rendered "12.630" with start = 12.5 (= 25/2) at 100 frames/s is frame 13; "0.255" is refused (no frame within the
tolerance: it is (12.5 + 13)/100, what the seeded change C04-dm1 prints) -/
example : recoverStart { sn := 25, sd := 2, frate := 100 } 12630 = some 13 := by decide
example : recoverStart { sn := 25, sd := 2, frate := 100 } 255 = none := by decide
example : recoverDur { sn := 25, sd := 2, frate := 100 } 120 = some 12 := by decide
/-- "-3.250" ↦ −3250 thousandths; "1e3" is not a `%.3f` rendering -/
example : milliOf [45, 51, 46, 50, 53, 48] = some (-3250) := by decide
example : milliOf [49, 101, 51] = none := by decide
/-- a tie of the rendering (start = 1/16 = 0.0625 prints as 0.062 or 0.063) is inside the tolerance -/
example : recoverStart { sn := 1, sd := 16, frate := 100 } 62 = some 0 ∧
          recoverStart { sn := 1, sd := 16, frate := 100 } 63 = some 0 := by decide

end SSVerif.Align
