import SSVerif.Props.C04
import SSVerif.Props.C04Json
import SSVerif.Proofs.AlignTree
/-!
# C04 — the model's alignment satisfies the tree predicate that is checked on the C output

`AlignOK` (decided by `alignOKB`, run on what `decoder_alignment` returned through the iterator API) is a predicate
on the tree `List WNode`; the model theorems (`C04_backtrace_partition`, …) speak about the three flat vectors and
their blocks.  `blockTree` is the tree of the blocks — by `C04_children_are_blocks` exactly what
`alignment_iter_children` / `alignment_iter_next` hand out.  This file proves that the tree of the model's result
satisfies the clauses `words`, `phones`, `partW`, `partP`, `contW`, `contP`, `contS`, `scoreW`, `scoreP` of `AlignOK`
(9 of 11; the two senone-label clauses `states`/`ctxStates` are stated against tables that are parameters of the
checker, not of the model dictionary; `C04_populate_structure` gives the states of a phone as `sen ssid 0 … nEmit-1`),
and hence the time clauses at the JSON observation point for every `start` and frame rate.
-/
namespace SSVerif.Align
open JsonObs

/-- **C04, the model's result as a tree satisfies the hierarchy predicate.**  For every dictionary (`nEmit > 0`,
non-empty pronunciations), first-pass words tiling `[0,T)` and token stack satisfying `wfTokens`: the second pass
succeeds, and the tree `t` of its result (word `i` with block `i` of the phones, each phone with its block of states)
has: the first-pass words with their ids, start frames and durations; under every word the phones of its dictionary
pronunciation in order; children exactly partitioning their parents at both levels and all three levels contiguous
from frame 0 to `T` (`TimeOK`); every parent's score the sum of its children's — and therefore, for every utterance
position `start` and frame rate `frate > 0`, the times `decoder_result_json` computes from it tile in time
(`TimeOKT`). -/
theorem C04_model_tree_alignOK_partial (D : Dict) (words : List Entry) (tokens : List (List Tok)) (T : Nat) (final : Tok)
    (hE : 0 < D.nEmit) (hP : ∀ w ∈ words, D.pron w.id ≠ [])
    (hwf : wfTokens tokens (winOf (populate D words).states) T (populate D words).states.length final = true)
    (hfp : Contig words 0 T) :
    ∃ a', finish tokens T final (populate D words) = some a' ∧
      let t := blockTree a'.words (words.map (plen D)) a'.phones
        (splitLens (List.replicate a'.phones.length D.nEmit) a'.states)
      t.map (fun w => (w.e.id, w.e.start, w.e.duration)) = words.map (fun e => (e.id, e.start, e.duration)) ∧
      (∀ w ∈ t, w.phones.map (·.e.id) = D.pron w.e.id) ∧
      TimeOK true T t ∧
      (∀ w ∈ t, w.e.score = sumScore (w.phones.map (·.e))) ∧
      (∀ w ∈ t, ∀ p ∈ w.phones, p.e.score = sumScore p.states) ∧
      ∀ (start : ℚ) (frate : Int), 0 < frate → TimeOKT true start frate T t := by
  obtain ⟨a1, f1, c1, c2, c3, pa1, pa2, ks, kp, kw, _, _⟩ := C04_backtrace_partition D words tokens T final hE hP hwf
  obtain ⟨a2, f2, i1, i2⟩ := C04_boundaries_preserved D words tokens T final hE hP hwf hfp
  have e2 : a2 = a1 := by rw [f1] at f2; exact (Option.some.inj f2).symm
  subst e2
  obtain ⟨_, _, _, p4, p5, _, _, _, _, p10, _⟩ := C04_populate_structure D words
  have hs : (words.map (plen D)).sum = a2.phones.length := by rw [keys_length kp]; exact p5.symm
  have hm : a2.states.length = (List.replicate a2.phones.length D.nEmit).sum := by
    rw [keys_length ks, keys_length kp]; exact p10
  obtain ⟨tok, te, sw, sp⟩ := blockTree_timeOK a2.words a2.phones a2.states (words.map (plen D))
    (List.replicate a2.phones.length D.nEmit) T c3 c2 c1 pa2 pa1 hs hm
  have hb := blockTree_blocks a2.words (words.map (plen D)) a2.phones
    (splitLens (List.replicate a2.phones.length D.nEmit) a2.states) pa2 pa1
  refine ⟨a2, f1, ?_⟩
  intro t
  have tok' : TimeOK true T t := tok
  have te' : t.map (·.e) = a2.words := te
  have hb' : t.map (fun w => w.phones.map (·.e)) = splitLens (words.map (plen D)) a2.phones := hb
  have sw' : ∀ w ∈ t, w.e.score = sumScore (w.phones.map (·.e)) := sw
  have sp' : ∀ w ∈ t, ∀ p ∈ w.phones, p.e.score = sumScore p.states := sp
  clear_value t
  refine ⟨?_, ?_, tok', sw', sp', fun start frate hf => (C04_json_time_iff true start frate hf T t).1 tok'⟩
  · -- words
    have h1 : t.map (fun w => (w.e.id, w.e.start, w.e.duration)) = a2.words.map (fun e => (e.id, e.start, e.duration)) := by
      rw [← te', List.map_map]; rfl
    rw [h1]
    have hz : ∀ (l1 l2 : List Entry), l1.map (·.id) = l2.map (·.id) →
        l1.map (fun e => (e.start, e.duration)) = l2.map (fun e => (e.start, e.duration)) →
        l1.map (fun e => (e.id, e.start, e.duration)) = l2.map (fun e => (e.id, e.start, e.duration)) := by
      intro l1
      induction l1 with
      | nil => intro l2 h _; cases l2 <;> simp_all
      | cons x xs ih =>
        intro l2 h h'
        cases l2 with
        | nil => simp at h
        | cons y ys =>
          simp only [List.map_cons, List.cons.injEq, Prod.mk.injEq] at h h' ⊢
          exact ⟨⟨h.1, h'.1.1, h'.1.2⟩, ih ys h.2 h'.2⟩
    exact hz _ _ i1 i2
  · -- phones of a word = its pronunciation
    have hid : t.map (fun w => w.phones.map (·.e.id)) = t.map (fun w => D.pron w.e.id) := by
      have l1 : t.map (fun w => w.phones.map (·.e.id)) = (splitLens (words.map (plen D)) a2.phones).map (·.map (·.id)) := by
        rw [← hb', List.map_map]; simp [Function.comp_def, List.map_map]
      have l2 : t.map (fun w => D.pron w.e.id) = (a2.words.map (·.id)).map D.pron := by
        rw [← te', List.map_map, List.map_map]; rfl
      rw [l1, l2, i1, List.map_map]
      have hsplit : (splitLens (words.map (plen D)) a2.phones).map (·.map (·.id)) =
          (splitLens (words.map (plen D)) (populate D words).phones).map (·.map (·.id)) :=
        splitLens_map_id _ _ _ (keys_id kp)
      rw [hsplit]; exact p4
    exact fun w hw => (List.map_inj_left.1 hid) w hw

/-- **C04, the same for model runs, without a hypothesis on the token stack** (three states per phone, skip-free
matrices, in-range data, `T ≤ 16 140`, final score alive — the hypotheses of `C04_model_run_hierarchy`): the tree of
the result of populate → constrained Viterbi (`Step.run`) → finish satisfies the nine clauses above. -/
theorem C04_model_run_tree_alignOK_partial (D : Dict) (words : List Entry) (tps : Array (Array Int))
    (frames : List (Array Int)) (h3 : D.nEmit = 3) (hP : ∀ w ∈ words, D.pron w.id ≠ [])
    (hfp : Contig words 0 frames.length) (hok : ∀ sen ∈ frames, Step.FrameOK tps sen)
    (hT : (frames.length : Int) * 33022 ≤ 533000000)
    (halive : (Step.run tps ((populate D words).phones.map sfOf).toArray ((populate D words).phones.map efOf).toArray
      frames).2.1.score > Step.worst) :
    let r := Step.run tps ((populate D words).phones.map sfOf).toArray ((populate D words).phones.map efOf).toArray frames
    ∃ a', finish r.1 frames.length r.2.1 (populate D words) = some a' ∧
      let t := blockTree a'.words (words.map (plen D)) a'.phones
        (splitLens (List.replicate a'.phones.length D.nEmit) a'.states)
      t.map (fun w => (w.e.id, w.e.start, w.e.duration)) = words.map (fun e => (e.id, e.start, e.duration)) ∧
      (∀ w ∈ t, w.phones.map (·.e.id) = D.pron w.e.id) ∧
      TimeOK true frames.length t ∧
      (∀ w ∈ t, w.e.score = sumScore (w.phones.map (·.e))) ∧
      (∀ w ∈ t, ∀ p ∈ w.phones, p.e.score = sumScore p.states) ∧
      ∀ (start : ℚ) (frate : Int), 0 < frate → TimeOKT true start frate frames.length t :=
  C04_model_tree_alignOK_partial D words _ frames.length _ (by omega) hP
    (C04_model_run_wfTokens D words tps frames h3 hP hfp hok hT halive) hfp

/-- non-vacuity: the two-word run of `Props/C04.lean` (`exDict3`, `exWords3`, 7 frames) meets the hypotheses; its tree
has two words -/
example : ∃ a', finish (Step.run #[exTp, exTp] ((populate exDict3 exWords3).phones.map sfOf).toArray
      ((populate exDict3 exWords3).phones.map efOf).toArray (List.replicate 7 #[5, 6, 7, 8, 9, 10])).1 7
      (Step.run #[exTp, exTp] ((populate exDict3 exWords3).phones.map sfOf).toArray
        ((populate exDict3 exWords3).phones.map efOf).toArray (List.replicate 7 #[5, 6, 7, 8, 9, 10])).2.1
      (populate exDict3 exWords3) = some a' ∧
    TimeOK true 7 (blockTree a'.words (exWords3.map (plen exDict3)) a'.phones
      (splitLens (List.replicate a'.phones.length exDict3.nEmit) a'.states)) := by
  obtain ⟨h1, _, _, _, _, _⟩ := exRun_hyps
  obtain ⟨a', f, _, _, tok, _⟩ := C04_model_run_tree_alignOK_partial exDict3 exWords3 #[exTp, exTp]
    (List.replicate 7 #[5, 6, 7, 8, 9, 10]) rfl (by decide) (by decide) h1 (by decide) (by decide)
  exact ⟨a', f, tok⟩

end SSVerif.Align
