import SSVerif.Props.C01
import SSVerif.Proofs.Fsg
/-!
# C01 ∘ C13 — the reported sentence in the real-word language of the shared FSG model

Optional bridge (not needed by the C01 check): reads a grammar of the shared FSG model
(`SSVerif.Fsg.Fsg`, M6, owned by C13) as the minimal FSG record of the history model and restates
`C01_hyp_is_sentence` with C13's `acceptsReal` (accepting path whose labels, fillers dropped and
alternates mapped to base words, are the reported words).  With `C13_addSilence_preserves_real`,
`C13_addAlt_preserves_base`, `C13_closure_preserves_real` the search grammar can then be replaced
by the grammar the user loaded.
-/
namespace SSVerif.Hist
open SSVerif.Nfa

/-- a grammar of the shared model as the record the backtrace reads (`wid = none` ↦ −1) -/
def ofFsg (g : SSVerif.Fsg.Fsg) : Fsg :=
  { links := (g.links.map fun l =>
      ({ src := l.src, dst := l.dst, logp := l.logp,
         wid := match l.wid with | none => -1 | some w => (w : Int) } : Link)).toArray,
    start := g.start, final := g.final, filler := g.sil }

theorem ofFsg_toNfa (g : SSVerif.Fsg.Fsg) : (ofFsg g).toNfa = g.toNfa := by
  unfold ofFsg Fsg.toNfa SSVerif.Fsg.Fsg.toNfa
  simp only [List.map_map, Nfa.mk.injEq, true_and]
  apply List.map_congr_left
  intro l _
  obtain ⟨s, d, lp, w⟩ := l
  cases w with
  | none => simp [Link.label]
  | some w =>
    have : ¬ ((w : Int) < 0) := by omega
    simp [Link.label, this]

theorem realWords_eq_filterMap (F : Nat → Bool) (B : Nat → Nat) (ws : List Nat) :
    SSVerif.Fsg.realWords F B ws = ws.filterMap fun w => if F w then none else some (B w) := by
  unfold SSVerif.Fsg.realWords
  induction ws with
  | nil => rfl
  | cons w rest ih =>
    by_cases hw : F w
    · simp [hw]; simpa using ih
    · simp [hw]; simpa using ih

/-- **C01 over the shared FSG model.**  For a well-formed history table over the search grammar `g`,
what `fsg_search_hyp` returns for a final result is a real-word sentence of `g` in the sense of C13
(fillers = the grammar's `silwords`, `base` = the dictionary's base-word map). -/
theorem C01_hyp_acceptsReal (g : SSVerif.Fsg.Fsg) {h : Hist} {cur : Int} (wf : WFHist (ofFsg g) h cur)
    (base : Nat → Nat) (ws : List Nat) (hws : (hyp base (ofFsg g) h cur true).1 = some ws) :
    SSVerif.Fsg.acceptsReal (fun w => g.sil.contains w) base g ws := by
  unfold hyp at hws
  simp only at hws
  split at hws
  · cases hws
  · rename_i hx
    split at hws
    · cases hws
    · cases hws
      obtain ⟨ha, he⟩ := C01_hyp_is_sentence wf cur base (by omega)
      rw [ofFsg_toNfa] at ha
      refine ⟨_, (SSVerif.Fsg.accepts_iff_nfa g _).2 ha, ?_⟩
      rw [he, realWords_eq_filterMap]
      rfl

end SSVerif.Hist
