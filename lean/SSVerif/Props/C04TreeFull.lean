import SSVerif.Props.C04Tree
/-!
# C04 — the model's alignment tree satisfies ALL clauses of `AlignOK`

`C04_model_tree_alignOK_partial` proved 9 of the 11 clauses.  The two senone-label clauses are stated against
parameters of the checker (`senOK`, `expSen`); here they are proved for the model tree with

* `expSen := modelExpSen D words` — phone by phone, `sen ssid 0 … sen ssid (nEmit-1)` of the populated alignment
  (`bin_mdef_sseq2sen` of the senone-sequence id `alignment_populate` chose through `dict2pid`).  The check compares
  the states of the real alignment with an `expSen` obtained on a different route (`bin_mdef_phone_id_nearest`, harness
  lines `X`), and the model's populated states with the real ones (lines `S`); so on every request
  `modelExpSen D words` = the harness' `expSen` is an evaluated fact, not an assumption;
* any `senOK` that accepts those senones for the phone's base phone (`hsen`, a decidable condition on the dictionary
  tables and the words; the driver's `senOK` — senone `s` belongs to base phone `ci` and occurs at position `j` of some
  senone sequence — is evaluated on the real alignment's states, which are diffed against the model's).
-/
namespace SSVerif.Align
open JsonObs

/-- what the model expects under each phone: the senones of the senone sequence chosen by `alignment_populate` -/
def modelExpSen (D : Dict) (words : List Entry) : List (List Int) :=
  (populate D words).phones.map fun e => (List.range D.nEmit).map (D.sen e.ssid)

theorem pnodes_states : ∀ (ps : List Entry) (bs : List (List Entry)), Parts ps bs → (pnodes ps bs).map (·.states) = bs
  | [], [], _ => by simp [pnodes]
  | [], _ :: _, h => h.elim
  | _ :: _, [], h => h.elim
  | p :: ps, b :: bs, h => by
    simp only [pnodes, List.map_cons]
    rw [pnodes_states ps bs h.2.2.2]

/-- the states under the phones of the tree, in utterance order, are the blocks -/
theorem blockTree_states : ∀ (ws : List Entry) (ns : List Nat) (ph : List Entry) (sb : List (List Entry)),
    Parts ws (splitLens ns ph) → Parts ph sb → ns.sum = ph.length →
    ((blockTree ws ns ph sb).flatMap (·.phones)).map (·.states) = sb
  | [], [], ph, sb, _, hP, hs => by
    have hph : ph = [] := by simpa using hs.symm
    subst hph
    have hsb : sb = [] := by have := parts_length _ _ hP; simpa using this.symm
    subst hsb
    simp [blockTree]
  | [], _ :: _, _, _, hW, _, _ => by simp only [splitLens] at hW; exact hW.elim
  | _ :: _, [], _, _, hW, _, _ => by simp only [splitLens] at hW; exact hW.elim
  | w :: ws, n :: ns, ph, sb, hW, hP, hs => by
    simp only [splitLens] at hW
    obtain ⟨_, _, _, c4⟩ := hW
    have hs' : ns.sum = (ph.drop n).length := by simp only [List.sum_cons] at hs; simp only [List.length_drop]; omega
    have ih := blockTree_states ws ns (ph.drop n) (sb.drop n) c4 (parts_drop n ph sb hP) hs'
    simp only [blockTree, List.flatMap_cons, List.map_append]
    rw [pnodes_states _ _ (parts_take n ph sb hP), ih, List.take_append_drop]

theorem map_pair {α β γ δ : Type} (f : α → γ) (g : α → δ) (f' : β → γ) (g' : β → δ) :
    ∀ (l : List α) (m : List β), l.map f = m.map f' → l.map g = m.map g' →
    l.map (fun x => (f x, g x)) = m.map (fun y => (f' y, g' y))
  | [], [], _, _ => rfl
  | [], _ :: _, h, _ => by simp at h
  | _ :: _, [], h, _ => by simp at h
  | x :: l, y :: m, h1, h2 => by
    simp only [List.map_cons, List.cons.injEq] at h1 h2 ⊢
    exact ⟨by rw [h1.1, h2.1], map_pair f g f' g' l m h1.2 h2.2⟩

/-- **C04, the model's result as a tree satisfies the whole hierarchy predicate `AlignOK`** (all 11 clauses).  For every
dictionary (`nEmit > 0`, non-empty pronunciations), first-pass words tiling `[0,T)`, token stack satisfying `wfTokens`,
and every `senOK` that accepts the senones of the populated phones (`hsen`): the second pass succeeds and the tree of its
result — word `i` with block `i` of the phones, each phone with its block of states; by `C04_children_are_blocks` what
the iterator API hands out — satisfies `AlignOK D.pron D.nEmit senOK (modelExpSen D words) fp T`, where `fp` are the
first-pass segments `(wid, sf, ef)` with `ef = sf + duration - 1`. -/
theorem C04_model_tree_alignOK (D : Dict) (words : List Entry) (tokens : List (List Tok)) (T : Nat) (final : Tok)
    (senOK : Int → Nat → Int → Bool)
    (hE : 0 < D.nEmit) (hP : ∀ w ∈ words, D.pron w.id ≠ [])
    (hwf : wfTokens tokens (winOf (populate D words).states) T (populate D words).states.length final = true)
    (hfp : Contig words 0 T)
    (hsen : ∀ e ∈ (populate D words).phones, ∀ j, j < D.nEmit → senOK e.id j (D.sen e.ssid j) = true) :
    ∃ a', finish tokens T final (populate D words) = some a' ∧
      AlignOK D.pron D.nEmit senOK (modelExpSen D words)
        (words.map fun e => ({ wid := e.id, sf := e.start, ef := e.start + e.duration - 1 } : Seg)) T
        (blockTree a'.words (words.map (plen D)) a'.phones
          (splitLens (List.replicate a'.phones.length D.nEmit) a'.states)) := by
  obtain ⟨a1, f1, hw, hph, tok, sw, sp, _⟩ := C04_model_tree_alignOK_partial D words tokens T final hE hP hwf hfp
  obtain ⟨a2, f2, c1, c2, c3, pa1, pa2, ks, kp, kw, _, _⟩ := C04_backtrace_partition D words tokens T final hE hP hwf
  have e2 : a2 = a1 := by rw [f1] at f2; exact (Option.some.inj f2).symm
  subst e2
  obtain ⟨_, _, _, _, p5, _, _, _, p9, p10, _⟩ := C04_populate_structure D words
  have hs : (words.map (plen D)).sum = a2.phones.length := by rw [keys_length kp]; exact p5.symm
  refine ⟨a2, f1, ?_⟩
  generalize ht : blockTree a2.words (words.map (plen D)) a2.phones
      (splitLens (List.replicate a2.phones.length D.nEmit) a2.states) = t at *
  -- the flat phone list and the state blocks of the tree
  obtain ⟨_, i2, _, _, _⟩ := blockTree_facts a2.words (words.map (plen D)) a2.phones
    (splitLens (List.replicate a2.phones.length D.nEmit) a2.states) pa2 pa1 hs
  have i6 := blockTree_states a2.words (words.map (plen D)) a2.phones
    (splitLens (List.replicate a2.phones.length D.nEmit) a2.states) pa2 pa1 hs
  rw [ht] at i2 i6
  have hctx : (t.flatMap (·.phones)).map (fun p => p.states.map (·.id)) = modelExpSen D words := by
    have : (t.flatMap (·.phones)).map (fun p => p.states.map (·.id)) =
        ((t.flatMap (·.phones)).map (·.states)).map (·.map (·.id)) := by rw [List.map_map]; rfl
    rw [this, i6, splitLens_map_id _ a2.states (populate D words).states (keys_id ks), keys_length kp, p9]
    rfl
  have hpid : (t.flatMap (·.phones)).map (fun p => p.e.id) = (populate D words).phones.map (·.id) := by
    have : (t.flatMap (·.phones)).map (fun p => p.e.id) = ((t.flatMap (·.phones)).map (·.e)).map (·.id) := by
      rw [List.map_map]; rfl
    rw [this, i2]; exact keys_id kp
  have hboth := map_pair (fun p : PNode => p.e.id) (fun p : PNode => p.states.map (·.id))
    (fun e : Entry => e.id) (fun e : Entry => (List.range D.nEmit).map (D.sen e.ssid))
    (t.flatMap (·.phones)) (populate D words).phones hpid hctx
  obtain ⟨tpw, tcw, tcp, tpp, tcs⟩ := tok
  refine ⟨?_, hph, ?_, hctx, tpw, tpp rfl, tcw, tcp, tcs rfl, sw, sp⟩
  · rw [hw, List.map_map]
    apply List.map_congr_left
    intro e _
    simp only [Function.comp_apply, Prod.mk.injEq, true_and]
    omega
  · intro w hw' p hp'
    have hmem : p ∈ t.flatMap (·.phones) := List.mem_flatMap.2 ⟨w, hw', hp'⟩
    have : (p.e.id, p.states.map (·.id)) ∈ (t.flatMap (·.phones)).map (fun p => (p.e.id, p.states.map (·.id))) :=
      List.mem_map.2 ⟨p, hmem, rfl⟩
    rw [hboth] at this
    obtain ⟨e, he, hpe⟩ := List.mem_map.1 this
    simp only [Prod.mk.injEq] at hpe
    obtain ⟨q1, q2⟩ := hpe
    have hl : p.states.length = D.nEmit := by
      have := congrArg List.length q2
      simpa using this.symm
    refine ⟨hl, fun j hj => ?_⟩
    have hj' : j < D.nEmit := by omega
    have : (p.states.map (·.id))[j]? = some (D.sen e.ssid j) := by
      rw [← q2]; simp [List.getElem?_map, List.getElem?_range hj']
    rw [List.getElem?_map, List.getElem?_eq_getElem hj] at this
    simp only [Option.map_some, Option.some.injEq] at this
    rw [this, ← q1]
    exact hsen e he j hj'

/-- **C04, the same for model runs, without a hypothesis on the token stack**: three states per phone, skip-free
matrices, in-range data, `T ≤ 16 140`, final score alive (by `C04_model_run_alignment_iff_alive` exactly the runs in
which `finish` returns an alignment at all). -/
theorem C04_model_run_tree_alignOK (D : Dict) (words : List Entry) (tps : Array (Array Int))
    (frames : List (Array Int)) (senOK : Int → Nat → Int → Bool)
    (h3 : D.nEmit = 3) (hP : ∀ w ∈ words, D.pron w.id ≠ [])
    (hfp : Contig words 0 frames.length) (hok : ∀ sen ∈ frames, Step.FrameOK tps sen)
    (hT : (frames.length : Int) * 33022 ≤ 533000000)
    (hsen : ∀ e ∈ (populate D words).phones, ∀ j, j < D.nEmit → senOK e.id j (D.sen e.ssid j) = true)
    (halive : (Step.run tps ((populate D words).phones.map sfOf).toArray ((populate D words).phones.map efOf).toArray
      frames).2.1.score > Step.worst) :
    let r := Step.run tps ((populate D words).phones.map sfOf).toArray ((populate D words).phones.map efOf).toArray frames
    ∃ a', finish r.1 frames.length r.2.1 (populate D words) = some a' ∧
      AlignOK D.pron D.nEmit senOK (modelExpSen D words)
        (words.map fun e => ({ wid := e.id, sf := e.start, ef := e.start + e.duration - 1 } : Seg)) frames.length
        (blockTree a'.words (words.map (plen D)) a'.phones
          (splitLens (List.replicate a'.phones.length D.nEmit) a'.states)) :=
  C04_model_tree_alignOK D words _ frames.length _ senOK (by omega) hP
    (C04_model_run_wfTokens D words tps frames h3 hP hfp hok hT halive) hfp hsen

/-- non-vacuity: the two-word run of `Props/C04.lean` meets the hypotheses; and the Boolean checker the driver runs on
the C output accepts the model's tree for it (`alignOKB_iff`) -/
example : ∃ a', finish (Step.run #[exTp, exTp] ((populate exDict3 exWords3).phones.map sfOf).toArray
      ((populate exDict3 exWords3).phones.map efOf).toArray (List.replicate 7 #[5, 6, 7, 8, 9, 10])).1 7
      (Step.run #[exTp, exTp] ((populate exDict3 exWords3).phones.map sfOf).toArray
        ((populate exDict3 exWords3).phones.map efOf).toArray (List.replicate 7 #[5, 6, 7, 8, 9, 10])).2.1
      (populate exDict3 exWords3) = some a' ∧
    alignOKB exDict3.pron 3 (fun _ _ s => s ≥ 0) (modelExpSen exDict3 exWords3) [⟨0, 0, 2⟩, ⟨1, 3, 6⟩] 7
      (blockTree a'.words (exWords3.map (plen exDict3)) a'.phones
        (splitLens (List.replicate a'.phones.length exDict3.nEmit) a'.states)) = true := by
  obtain ⟨h1, _, _, _, _, _⟩ := exRun_hyps
  obtain ⟨a', f, ok⟩ := C04_model_run_tree_alignOK exDict3 exWords3 #[exTp, exTp]
    (List.replicate 7 #[5, 6, 7, 8, 9, 10]) (fun _ _ s => s ≥ 0) rfl (by decide) (by decide) h1 (by decide) (by decide)
    (by decide)
  exact ⟨a', f, (alignOKB_iff _ _ _ _ _ _ _).2 ok⟩

example : modelExpSen exDict3 exWords3 = [[1050, 1051, 1052], [1060, 1061, 1062]] := by decide

end SSVerif.Align
