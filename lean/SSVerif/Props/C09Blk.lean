import SSVerif.Model.BlkArray
/-!
# C09 — the block-wise growing history table is released completely, at every size (model `Model/BlkArray.lean`)

Clause of C09: "after the last reference is released every allocation has been freed" and "none ... fails an internal
assertion", for the container whose size depends on the length of the audio and the shape of the grammar: the FSG search
history (`blkarray_list`, rows of `blksize` = 16380 entries).  The theorems are about ALL sequences of appends and resets
and all table shapes (`maxblks`, `blksize > 0`): in particular about tables that have crossed one or several block
boundaries, that stand exactly on a boundary, and that are exhausted.

Correspondence with the C code: `tools/props/c09.py` (`blk_probe_family`) drives the real `_blkarray_list_init` /
`blkarray_list_append` / `blkarray_list_reset` (harness/h_c09blk.c) and this model (driver `c09blk`) with the same
operation sequences around the block boundaries and compares counters and row pointers after every operation.
-/
namespace SSVerif.BlkArray

/-- what row `i` must look like given the counters: full rows below the current one, the current row holds
`cur_row_free` elements, NULL above -/
def rowSpec (b : Blk) (i : Nat) : Row :=
  if i + 1 < b.used then some b.blksize else if i + 1 = b.used then some b.free else none

/-- the representation invariant of `blkarray_list_t` -/
structure Inv (b : Blk) : Prop where
  pos : 0 < b.blksize
  used_le : b.used ≤ b.maxblks
  free_le : b.free ≤ b.blksize
  free0 : b.used = 0 → b.free = b.blksize
  free1 : 0 < b.used → 0 < b.free
  rows : ∀ i, b.rows i = rowSpec b i
  good : b.bad = false
  nv : b.nValid = (b.used - 1) * b.blksize + (if b.used = 0 then 0 else b.free)

theorem inv_init (m k : Nat) (hk : 0 < k) : Inv (init m k) := by
  refine ⟨hk, Nat.zero_le _, Nat.le_refl _, fun _ => rfl, fun h => absurd h (by simp [init]), ?_, rfl, by simp [init]⟩
  intro i
  simp [init, rowSpec]

theorem inv_append (b : Blk) (h : Inv b) : Inv (append b).1 := by
  unfold append
  by_cases h1 : b.free ≥ b.blksize
  · by_cases h2 : b.used ≥ b.maxblks
    · simpa [h1, h2] using h
    · simp only [h1, h2, if_true, if_false]
      have hf : b.free = b.blksize := Nat.le_antisymm h.free_le h1
      have hr := h.rows b.used
      have hpos := h.pos
      refine ⟨h.pos, by simp; omega, by simp; omega, by simp, by simp, ?_, ?_, ?_⟩
      · intro i
        have hi := h.rows i
        simp only [upd, rowSpec] at *
        by_cases e : i = b.used
        · subst e; simp
        · simp only [e, if_false]
          rw [hi]
          by_cases a : i + 1 < b.used
          · have : i + 1 < b.used + 1 := by omega
            simp [a, this]
          · by_cases a2 : i + 1 = b.used
            · have : i + 1 < b.used + 1 := by omega
              simp [a2, this, hf]
            · have n1 : ¬ i + 1 < b.used + 1 := by omega
              simp [a, a2, n1, e]
      · simp only [rowSpec] at hr
        have n1 : ¬ b.used + 1 < b.used := by omega
        have n2 : ¬ b.used + 1 = b.used := by omega
        simp [h.good, hr, n1, n2]
      · have hnv := h.nv
        simp only [Nat.add_sub_cancel]
        by_cases u0 : b.used = 0
        · simp [u0] at hnv ⊢; omega
        · have : b.used - 1 + 1 = b.used := by omega
          simp only [u0, if_false] at hnv
          have e : b.used * b.blksize = (b.used - 1) * b.blksize + b.blksize := by
            conv => lhs; rw [← this, Nat.add_mul, Nat.one_mul]
          simp; omega
  · simp only [h1, if_false]
    have hu : 0 < b.used := by
      rcases Nat.eq_zero_or_pos b.used with e | e
      · exact absurd (h.free0 e) (by omega)
      · exact e
    have hr := h.rows (b.used - 1)
    have hcur : b.rows (b.used - 1) = some b.free := by
      rw [hr]; simp only [rowSpec]
      have n1 : ¬ b.used - 1 + 1 < b.used := by omega
      have e2 : b.used - 1 + 1 = b.used := by omega
      simp [n1, e2]
    refine ⟨h.pos, h.used_le, by simp; omega, by simp; omega, by simp, ?_, ?_, ?_⟩
    · intro i
      have hi := h.rows i
      simp only [upd, rowSpec] at *
      by_cases e : i = b.used - 1
      · have n1 : ¬ i + 1 < b.used := by omega
        have e2 : i + 1 = b.used := by omega
        subst e
        simp [n1, e2, hcur]
      · simp only [e, if_false]
        rw [hi]
        have n2 : ¬ i + 1 = b.used := by omega
        simp [n2]
    · have : b.used ≠ 0 := by omega
      simp [h.good, this, hcur]
    · have hnv := h.nv
      have : b.used ≠ 0 := by omega
      simp only [this, if_false] at hnv ⊢
      omega

theorem freeFullRows_spec (rows : Nat → Row) (k : Nat) :
    ∀ n, (∀ i, i < n → rows i = some k) →
      freeFullRows (rows, false) k n = (fun j => if j < n then none else rows j, false) := by
  intro n
  induction n with
  | zero => intro _; simp [freeFullRows]
  | succ n ih =>
    intro hall
    have ih' := ih (fun i hi => hall i (Nat.lt_succ_of_lt hi))
    simp only [freeFullRows, ih', freeRow]
    have hn := hall n (Nat.lt_succ_self n)
    refine Prod.ext ?_ ?_
    · funext j
      simp only [upd]
      by_cases e : j = n
      · subst e; simp
      · by_cases a : j < n
        · have : j < n + 1 := by omega
          simp [e, a, this]
        · have : ¬ j < n + 1 := by omega
          simp [e, a, this]
    · simp [hn]

/-- **C09, `blkarray_list_reset` releases everything and restores the initial state, whatever the table has grown to.**
For every table that satisfies the representation invariant - any number of rows in use, the current row partly or
completely filled, the table exhausted or empty - the reset releases from every row exactly the elements it holds, frees
every row, never touches a NULL row (`bad` stays false), and leaves exactly the state `_blkarray_list_init` creates: all row
pointers NULL, `cur_row = -1`, `cur_row_free = blksize`, `n_valid = 0`. -/
theorem C09_blk_reset_restores (b : Blk) (h : Inv b) : reset b = init b.maxblks b.blksize := by
  have hfull : ∀ i, i < b.used - 1 → b.rows i = some b.blksize := by
    intro i hi
    rw [h.rows i]; simp only [rowSpec]
    have : i + 1 < b.used := by omega
    simp [this]
  have key := freeFullRows_spec b.rows b.blksize (b.used - 1) hfull
  unfold reset init
  rw [h.good, key]
  by_cases hu : b.used ≥ 1
  · have hcur : b.rows (b.used - 1) = some b.free := by
      rw [h.rows]; simp only [rowSpec]
      have n1 : ¬ b.used - 1 + 1 < b.used := by omega
      have e2 : b.used - 1 + 1 = b.used := by omega
      simp [n1, e2]
    simp only [hu, if_true, freeRow]
    congr 1
    · funext j
      simp only [upd]
      by_cases e : j = b.used - 1
      · simp [e]
      · by_cases a : j < b.used - 1
        · simp [e, a]
        · simp only [e, a, if_false]
          rw [h.rows j]; simp only [rowSpec]
          have n1 : ¬ j + 1 < b.used := by omega
          have n2 : ¬ j + 1 = b.used := by omega
          simp [n1, n2]
    · simp [hcur]
  · have u0 : b.used = 0 := by omega
    simp only [hu, if_false]
    congr 1
    funext j
    have := h.rows j
    simp only [rowSpec, u0] at this
    simp [u0, this]

theorem inv_step (b : Blk) (o : Op) (h : Inv b) : Inv (step b o) := by
  cases o with
  | append => exact inv_append b h
  | reset =>
    show Inv (reset b)
    rw [C09_blk_reset_restores b h]
    exact inv_init _ _ h.pos

theorem step_shape (b : Blk) (o : Op) : (step b o).maxblks = b.maxblks ∧ (step b o).blksize = b.blksize := by
  cases o with
  | append =>
    show (append b).1.maxblks = _ ∧ (append b).1.blksize = _
    unfold append
    by_cases h1 : b.free ≥ b.blksize
    · by_cases h2 : b.used ≥ b.maxblks <;> simp [h1, h2]
    · simp [h1]
  | reset => exact ⟨rfl, rfl⟩

theorem inv_run (ops : List Op) : ∀ b, Inv b → Inv (run b ops) ∧ (run b ops).maxblks = b.maxblks ∧ (run b ops).blksize = b.blksize := by
  induction ops with
  | nil => intro b h; exact ⟨h, rfl, rfl⟩
  | cons o os ih =>
    intro b h
    have := ih (step b o) (inv_step b o h)
    have s := step_shape b o
    exact ⟨this.1, this.2.1.trans s.1, this.2.2.trans s.2⟩

theorem rowsAllocated_init (m k : Nat) : ∀ n, rowsAllocated (init m k) n = 0
  | 0 => rfl
  | n + 1 => by
    have ih := rowsAllocated_init m k n
    simp only [rowsAllocated, ih]
    simp [init]

theorem liveElems_init (m k : Nat) : ∀ n, liveElems (init m k) n = 0
  | 0 => rfl
  | n + 1 => by
    have ih := liveElems_init m k n
    simp only [liveElems, ih]
    simp [init]

/-- **C09, no history of appends and resets makes the table misbehave.**  Starting from `_blkarray_list_init(m, k)` with
`k > 0`, after ANY sequence of `blkarray_list_append` and `blkarray_list_reset` calls - across any number of block
boundaries, with resets at any fill level, with appends refused because all `m` rows are full - the representation
invariant holds and nothing wrong has happened: `assert(bl->ptr[bl->cur_row] == NULL)` never failed, no NULL row was
written through, no reset released more or fewer elements than a row held. -/
theorem C09_blk_history_safe (m k : Nat) (hk : 0 < k) (ops : List Op) :
    Inv (run (init m k) ops) ∧ (run (init m k) ops).bad = false :=
  ⟨(inv_run ops _ (inv_init m k hk)).1, (inv_run ops _ (inv_init m k hk)).1.good⟩

/-- **C09, after any history the next reset leaves nothing allocated.**  Whatever sequence of appends and resets came
before, `blkarray_list_reset` (called by the start of the next utterance, by re-initialisation and by the release of the
search) brings the table back to its initial state: no row pointer is left non-NULL and no stored element is left
unreleased, so nothing of the table's contents can leak and the table can be refilled from row 0. -/
theorem C09_blk_reset_after_any_history (m k : Nat) (hk : 0 < k) (ops : List Op) :
    reset (run (init m k) ops) = init m k ∧
    rowsAllocated (reset (run (init m k) ops)) m = 0 ∧ liveElems (reset (run (init m k) ops)) m = 0 := by
  have h := inv_run ops _ (inv_init m k hk)
  have e : reset (run (init m k) ops) = init m k := by
    rw [C09_blk_reset_restores _ h.1, h.2.1, h.2.2]; rfl
  exact ⟨e, by rw [e]; exact rowsAllocated_init m k m, by rw [e]; exact liveElems_init m k m⟩

/-- **C09, what `blkarray_list_append` returns and when a new block is taken.**  In a table satisfying the invariant an
append is refused (-1) exactly when all `maxblks` rows are full - the table is then unchanged -, and otherwise returns the
number of elements stored before it (ids are consecutive from 0); the number of stored elements never exceeds
`maxblks * blksize`, and a new row is allocated exactly when the element count is a multiple of `blksize`. -/
theorem C09_blk_append_returns (b : Blk) (h : Inv b) :
    ((append b).2 = .full ↔ b.nValid = b.maxblks * b.blksize) ∧
    ((append b).2 = .full → (append b).1 = b) ∧
    ((append b).2 ≠ .full → (append b).2 = .id b.nValid ∧ (append b).1.nValid = b.nValid + 1) ∧
    b.nValid = b.used * b.blksize - (b.blksize - b.free) ∧
    ((append b).1.used = b.used + 1 ↔ (b.nValid % b.blksize = 0 ∧ b.nValid < b.maxblks * b.blksize)) := by
  have hnv := h.nv
  have hpos := h.pos
  have hfl := h.free_le
  have hul := h.used_le
  -- n_valid in closed form
  have closed : b.nValid = b.used * b.blksize - (b.blksize - b.free) := by
    by_cases u0 : b.used = 0
    · have := h.free0 u0; simp [u0] at hnv ⊢; omega
    · have e1 : b.used - 1 + 1 = b.used := by omega
      have e : b.used * b.blksize = (b.used - 1) * b.blksize + b.blksize := by
        conv => lhs; rw [← e1, Nat.add_mul, Nat.one_mul]
      simp only [u0, if_false] at hnv
      omega
  have hmono : b.used * b.blksize ≤ b.maxblks * b.blksize := Nat.mul_le_mul_right _ hul
  unfold append
  by_cases h1 : b.free ≥ b.blksize
  · have hf : b.free = b.blksize := Nat.le_antisymm hfl h1
    have nvu : b.nValid = b.used * b.blksize := by rw [closed, hf]; simp
    by_cases h2 : b.used ≥ b.maxblks
    · have hu : b.used = b.maxblks := Nat.le_antisymm hul h2
      simp only [h1, h2, if_true]
      refine ⟨by simp [nvu, hu], by simp, by simp, closed, ?_⟩
      constructor
      · intro a; omega
      · intro a; rw [nvu, hu] at a; omega
    · simp only [h1, h2, if_true, if_false]
      have lt : b.used + 1 ≤ b.maxblks := by omega
      have : (b.used + 1) * b.blksize ≤ b.maxblks * b.blksize := Nat.mul_le_mul_right _ lt
      rw [Nat.add_mul, Nat.one_mul] at this
      refine ⟨?_, by simp, by simp, closed, ?_⟩
      · constructor
        · intro a; cases a
        · intro a; omega
      · constructor
        · intro _; exact ⟨by rw [nvu]; exact Nat.mul_mod_left _ _, by omega⟩
        · intro _; simp
  · simp only [h1, if_false]
    have hu : 0 < b.used := by
      rcases Nat.eq_zero_or_pos b.used with e | e
      · exact absurd (h.free0 e) (by omega)
      · exact e
    have hf1 := h.free1 hu
    have h4 : b.blksize ≤ b.used * b.blksize := Nat.le_mul_of_pos_left _ hu
    refine ⟨?_, by simp, by simp, closed, ?_⟩
    · constructor
      · intro a; cases a
      · intro a; omega
    · constructor
      · intro a; simp at a
      · intro a
        exfalso
        -- 0 < free < blksize: n_valid = (used-1)*blksize + free is not a multiple of blksize
        have u0 : b.used ≠ 0 := by omega
        simp only [u0, if_false] at hnv
        have : b.nValid % b.blksize = b.free := by
          rw [hnv, Nat.add_comm, Nat.add_mul_mod_self_right]
          exact Nat.mod_eq_of_lt (by omega)
        omega

/-! ## Non-vacuity: a table of 3 rows of 2 elements, taken across both boundaries, exhausted, reset, refilled -/

example : (run (init 3 2) [.append, .append, .append]).used = 2 ∧ (run (init 3 2) [.append, .append, .append]).free = 1 := by decide
example : (append (run (init 3 2) (List.replicate 6 .append))).2 = .full := by decide
example : (append (run (init 3 2) (List.replicate 5 .append))).2 = .id 5 := by decide
example : rowsAllocated (run (init 3 2) (List.replicate 5 .append)) 3 = 3 ∧ liveElems (run (init 3 2) (List.replicate 5 .append)) 3 = 5 := by decide
example : rowsAllocated (reset (run (init 3 2) (List.replicate 5 .append))) 3 = 0 := by decide
/-- the loop `for (i = cur_row - 1; i > 0; i--)` of a careless rewrite would leave row 0 of this table allocated: the
specification distinguishes it (row 0 of the three-row table is a full row that `reset` must release) -/
example : (run (init 3 2) (List.replicate 5 .append)).rows 0 = some 2 ∧ (reset (run (init 3 2) (List.replicate 5 .append))).rows 0 = none := by decide

end SSVerif.BlkArray
