import SSVerif.Props.C04Dead
import SSVerif.Model.AlignWrap
/-!
# C04 — the wrapper `decoder_alignment` (audit item B6(c))

Model: `SSVerif/Model/AlignWrap.lean` (`Wrap.request`: reuse shortcut, segment loop with the dictionary filter and the
contiguity assertion, rewind, replay loop with the D29 guard, finish).  The driver runs `Wrap.request` over the request
sequence of every harness case (state carried from request to request, `startUtt`/`endUtt`/`advance` between them) and
the check diffs its predictions with what `decoder_alignment` did: NULL / non-NULL, the word list (id, start, duration),
the number of frames the aligner saw (`sas->frame`), and whether a repeated call handed out the same object.
-/
namespace SSVerif.Align.Wrap
open SSVerif.Align

/-! ### the replay loop -/

theorem filter_le_range (pe : Int) : ∀ n : Nat,
    (List.range n).filter (fun (f : Nat) => decide ((f : Int) ≤ pe)) = List.range (min n (pe + 1).toNat)
  | 0 => by simp
  | n + 1 => by
    rw [List.range_succ, List.filter_append, filter_le_range pe n]
    by_cases c : (n : Int) ≤ pe
    · have e1 : min n (pe + 1).toNat = n := by omega
      have e2 : min (n + 1) (pe + 1).toNat = n + 1 := by omega
      rw [e1, e2, List.range_succ]
      simp [c]
    · have e1 : min (n + 1) (pe + 1).toNat = min n (pe + 1).toNat := by omega
      rw [e1]
      simp [c]

theorem replay_spec (saved : Nat) (pe : Int) : ∀ (fuel of : Nat) (steps : List Nat), of ≤ saved → saved - of ≤ fuel →
    replay saved pe fuel of steps =
      (saved, steps ++ (List.range' of (saved - of)).filter (fun (f : Nat) => decide ((f : Int) ≤ pe)))
  | 0, of, steps, h1, h2 => by
    have e : of = saved := by omega
    subst e
    simp [replay]
  | fuel + 1, of, steps, h1, h2 => by
    unfold replay
    by_cases c : of < saved
    · rw [if_pos c, replay_spec saved pe fuel (of + 1) _ (by omega) (by omega)]
      have e : saved - of = (saved - (of + 1)) + 1 := by omega
      rw [e, List.range'_succ, List.filter_cons]
      by_cases c2 : (of : Int) ≤ pe
      · simp [c2]
      · simp [c2]
    · rw [if_neg c]
      have e : of = saved := by omega
      subst e
      simp

/-- **C04 wrapper, the frames of the second pass.**  The replay loop of `decoder_alignment` started after the rewind
(`output_frame = 0`) with the saved frame count `saved` and the end `prevEf` of the last dictionary word passes exactly
the frames `0, 1, …, T-1` to `search_module_step`, in order, with `T = min(saved, prevEf + 1)` — nothing is aligned past
the end of the hypothesis (D29), no frame is skipped or repeated (so `sas->frame` equals the frame index at every
step) — and leaves `acmod->output_frame` at the saved value: the first pass continues where it was. -/
theorem C04_wrapper_frames (saved : Nat) (prevEf : Int) :
    replay saved prevEf saved 0 [] = (saved, List.range (nSteps saved prevEf)) := by
  rw [replay_spec saved prevEf saved 0 [] (by omega) (by omega)]
  simp only [Nat.sub_zero, List.nil_append, nSteps]
  rw [← List.range_eq_range', filter_le_range]

/-! ### the segment loop -/

theorem wordsOf_cons_drop (s : FSeg) (r : List FSeg) (h : s.wid = -1) : wordsOf (s :: r) = wordsOf r := by
  simp [wordsOf, keep, List.filter_cons, h]

theorem wordsOf_cons_keep (s : FSeg) (r : List FSeg) (h : ¬ s.wid = -1) :
    wordsOf (s :: r) = mkWord s.wid s.sf (s.ef - s.sf + 1) :: wordsOf r := by
  simp [wordsOf, keep, List.filter_cons, h]

theorem scan_contig : ∀ (segs : List FSeg) (pe pe' : Int), (∀ s ∈ keep segs, s.sf ≤ s.ef) →
    scan pe segs = some pe' → Contig (wordsOf segs) (pe + 1) (pe' + 1)
  | [], pe, pe', _, h => by
    simp only [scan, Option.some.injEq] at h
    subst h
    show pe + 1 = pe + 1
    rfl
  | s :: r, pe, pe', hp, h => by
    unfold scan at h
    by_cases c : s.wid = -1
    · rw [if_pos c] at h
      rw [wordsOf_cons_drop s r c]
      exact scan_contig r pe pe' (fun x hx => hp x (by simp [keep, List.filter_cons, c] at hx ⊢; exact hx)) h
    · rw [if_neg c] at h
      by_cases c2 : s.sf = pe + 1
      · rw [if_pos c2] at h
        rw [wordsOf_cons_keep s r c]
        have hs : s.sf ≤ s.ef := hp s (by simp [keep, List.filter_cons, c])
        have ih := scan_contig r s.ef pe' (fun x hx => hp x (by
          simp only [keep, List.filter_cons] at hx ⊢
          simp only [ne_eq, c, not_false_eq_true, decide_true, if_true]
          exact List.mem_cons_of_mem _ hx)) h
        refine ⟨c2, ?_, ?_⟩
        · show 0 < s.ef - s.sf + 1
          omega
        · show Contig (wordsOf r) (pe + 1 + (s.ef - s.sf + 1)) (pe' + 1)
          have e : pe + 1 + (s.ef - s.sf + 1) = s.ef + 1 := by omega
          rw [e]; exact ih
      · rw [if_neg c2] at h; cases h

/-- **C04 wrapper, the words handed to the second pass tile the hypothesis.**  When the contiguity assertion of the
segment loop holds (`scan` succeeds) and every kept segment has `sf ≤ ef`, the arguments of `alignment_add_word` — the
first-pass segments whose word is in the dictionary, fillers included; `(wid, sf, ef - sf + 1)` — tile `[0, prev_ef + 1)`
with positive durations: the hypothesis `Contig words 0 T` of the second-pass theorems. -/
theorem C04_wrapper_words_tile (segs : List FSeg) (pe : Int) (hpos : ∀ s ∈ keep segs, s.sf ≤ s.ef)
    (hscan : scan (-1) segs = some pe) : Contig (wordsOf segs) 0 (pe + 1) := by
  have := scan_contig segs (-1) pe hpos hscan
  simpa using this

/-! ### the whole request -/

/-- what the wrapper theorem needs from one call of the second pass: an alignment it returns lists the given words
with their start frames and durations, and every level tiles `[0, T)` -/
def Pass2Ok (pass2 : List Entry → Nat → Option Alignment) (ws : List Entry) (T : Nat) : Prop :=
  ∀ a, pass2 ws T = some a →
    a.words.map (fun e => (e.id, e.start, e.duration)) = ws.map (fun e => (e.id, e.start, e.duration)) ∧
    Contig a.states 0 T ∧ Contig a.phones 0 T ∧ Contig a.words 0 T

/-- the second pass of the model: `alignment_populate`, the constrained Viterbi over the first `T` frames of senone
scores, `state_align_search_finish` -/
def modelPass2 (D : Dict) (tps : Array (Array Int)) (frames : List (Array Int)) (ws : List Entry) (T : Nat) :
    Option Alignment :=
  let a0 := populate D ws
  let r := Step.run tps (a0.phones.map sfOf).toArray (a0.phones.map efOf).toArray (frames.take T)
  finish r.1 T r.2.1 a0

/-- **C04 wrapper, the model's second pass meets `Pass2Ok`** (composition with `C04_model_run_alignment_iff_alive`):
three emitting states per phone, non-empty pronunciations, words tiling `[0,T)`, at least `T ≤ 16 140` frames of
in-range senone scores, skip-free matrices. -/
theorem C04_wrapper_model_pass2_ok (D : Dict) (tps : Array (Array Int)) (frames : List (Array Int)) (ws : List Entry)
    (T : Nat) (h3 : D.nEmit = 3) (hP : ∀ w ∈ ws, D.pron w.id ≠ []) (hfp : Contig ws 0 T)
    (hok : ∀ sen ∈ frames, Step.FrameOK tps sen) (hlen : T ≤ frames.length) (hT : (T : Int) * 33022 ≤ 533000000) :
    Pass2Ok (modelPass2 D tps frames) ws T := by
  intro a ha
  have hl : (frames.take T).length = T := by simp [List.length_take]; omega
  have h := C04_model_run_alignment_iff_alive D ws tps (frames.take T) h3 hP (by rw [hl]; exact hfp)
    (fun s hs => hok s (List.mem_of_mem_take hs)) (by rw [hl]; exact hT)
  simp only [hl] at h
  exact h.2 a ha

theorem requestFresh_al (pass2 : List Entry → Nat → Option Alignment) (d d' : Dec) (segs : Option (List FSeg))
    (ser : Nat) (re : Bool) (c : Option Alignment) (h : requestFresh pass2 d segs = (.al ser re c, d')) :
    ∃ sg pe a, segs = some sg ∧ scan (-1) sg = some pe ∧ wordsOf sg ≠ [] ∧ d.outFrame ≤ d.nAlloc ∧
      pass2 (wordsOf sg) (nSteps d.outFrame pe) = some a ∧ re = false ∧ c = some a ∧ ser = d.serial + 1 ∧
      d' = { d with align := some ⟨d.serial + 1, nSteps d.outFrame pe, wordsOf sg, some a⟩, serial := d.serial + 1 } := by
  unfold requestFresh at h
  cases segs with
  | none => simp at h
  | some sg =>
    simp only at h
    cases hs : scan (-1) sg with
    | none => rw [hs] at h; simp at h
    | some pe =>
      rw [hs] at h
      simp only at h
      by_cases c1 : (wordsOf sg).isEmpty = true
      · rw [if_pos c1] at h; simp at h
      · rw [if_neg c1] at h
        by_cases c2 : d.outFrame > d.nAlloc
        · rw [if_pos c2] at h; simp at h
        · rw [if_neg c2] at h
          rw [C04_wrapper_frames] at h
          simp only [List.length_range] at h
          cases hp : pass2 (wordsOf sg) (nSteps d.outFrame pe) with
          | none => rw [hp] at h; simp at h
          | some a =>
            rw [hp] at h
            simp only [Prod.mk.injEq, Res.al.injEq] at h
            obtain ⟨⟨e1, e2, e3⟩, e4⟩ := h
            refine ⟨sg, pe, a, rfl, hs, ?_, by omega, hp, e2.symm, e3.symm, e1.symm, ?_⟩
            · intro e; rw [e] at c1; simp at c1
            · rw [← e4]

/-- **C04 wrapper, `decoder_alignment` lists exactly the dictionary words of the first pass.**  Whenever a request
returns an alignment that is not the reused one, for a second pass that meets `Pass2Ok` on the words of this request
(`C04_wrapper_model_pass2_ok` for the model's pass), kept segments with `sf ≤ ef`, and a hypothesis that does not reach
past the current output frame (`prev_ef + 1 ≤ output_frame`; both evaluated by the driver on the `FP` lines of every
request): the word list of the result, as (id, start, duration), is the list of first-pass segments whose word is in the
dictionary, as (wid, sf, ef - sf + 1), in order; words, phones and states tile `[0, prev_ef + 1)`; the aligner left in
`d->align` has seen `T = prev_ef + 1` frames; `acmod->output_frame` and `n_feat_alloc` are unchanged; and the object is
new (`serial`). -/
theorem C04_wrapper_words_are_first_pass (pass2 : List Entry → Nat → Option Alignment) (d d' : Dec) (segs : List FSeg)
    (ser : Nat) (a : Alignment)
    (hpos : ∀ s ∈ keep segs, s.sf ≤ s.ef)
    (hcov : ∀ pe, scan (-1) segs = some pe → pe + 1 ≤ (d.outFrame : Int))
    (hspec : ∀ T : Nat, Contig (wordsOf segs) 0 T → Pass2Ok pass2 (wordsOf segs) T)
    (hreq : request pass2 d (some segs) = (.al ser false (some a), d')) :
    a.words.map (fun e => (e.id, e.start, e.duration)) = (keep segs).map (fun s => (s.wid, s.sf, s.ef - s.sf + 1)) ∧
    ∃ pe, scan (-1) segs = some pe ∧ 0 ≤ pe + 1 ∧
      Contig a.words 0 (pe + 1) ∧ Contig a.phones 0 (pe + 1) ∧ Contig a.states 0 (pe + 1) ∧
      d'.align = some ⟨ser, (pe + 1).toNat, wordsOf segs, some a⟩ ∧ d'.outFrame = d.outFrame ∧ d'.nAlloc = d.nAlloc ∧
      ser = d.serial + 1 := by
  have hf : requestFresh pass2 d (some segs) = (.al ser false (some a), d') := by
    unfold request at hreq
    cases hal : d.align with
    | none => rw [hal] at hreq; exact hreq
    | some al =>
      rw [hal] at hreq
      simp only at hreq
      by_cases c : al.frame = d.outFrame
      · rw [if_pos c] at hreq; simp at hreq
      · rw [if_neg c] at hreq; exact hreq
  obtain ⟨sg, pe, a1, e1, hs, hne, _, hp, _, e2, e3, e4⟩ := requestFresh_al pass2 d d' (some segs) ser false (some a) hf
  cases e1
  cases e2
  have hc := C04_wrapper_words_tile segs pe hpos hs
  have hcv := hcov pe hs
  have hnn : 0 ≤ pe + 1 := by
    -- a non-empty tiling has a positive right end
    cases hw : wordsOf segs with
    | nil => exact absurd hw hne
    | cons w r =>
      rw [hw] at hc
      obtain ⟨c1, c2, c3⟩ := hc
      have : ∀ (l : List Entry) (x y : Int), Contig l x y → x ≤ y := by
        intro l
        induction l with
        | nil => intro x y h; have : x = y := h; omega
        | cons e l ih => intro x y h; obtain ⟨_, h2, h3⟩ := h; have := ih _ _ h3; omega
      have := this r _ _ c3
      omega
  have eT : nSteps d.outFrame pe = (pe + 1).toNat := by unfold nSteps; omega
  rw [eT] at hp e4
  have hcT : Contig (wordsOf segs) 0 ((pe + 1).toNat : Nat) := by
    have : (((pe + 1).toNat : Nat) : Int) = pe + 1 := by omega
    rw [this]; exact hc
  obtain ⟨w1, w2, w3, w4⟩ := hspec (pe + 1).toNat hcT a hp
  have hcast : (((pe + 1).toNat : Nat) : Int) = pe + 1 := by omega
  rw [hcast] at w2 w3 w4
  refine ⟨?_, pe, hs, hnn, w4, w3, w2, ?_, ?_, ?_, e3⟩
  · rw [w1]
    simp [wordsOf, mkWord, List.map_map, Function.comp_def]
  · rw [e4, e3]
  · rw [e4]
  · rw [e4]

/-- **C04 wrapper, the reuse shortcut.**  A request is answered with the object of an earlier request exactly when an
aligner exists whose frame count equals the current `acmod->output_frame`; then the decoder state is unchanged and the
answer is that aligner's object (whatever it holds — a half-built object if its `finish` had failed).  Consequences:
right after a successful request the repeated call returns the identical object iff the hypothesis ended at the current
frame (`T = output_frame`: final results); after `decoder_start_utt`, `decoder_end_utt` or a call that replaced or
re-initialised the search (`replaceSearch`: an accepted `decoder_set_fsg` / `_jsgf_string` / `_jsgf_file` /
`_align_text`, `decoder_add_word` with `update`; D130) no request is answered by the shortcut; after the acoustic model
moved to another frame the old object is not handed out. -/
theorem C04_wrapper_reuse (pass2 : List Entry → Nat → Option Alignment) (d : Dec) (segs : Option (List FSeg)) :
    (∀ al, d.align = some al → al.frame = d.outFrame →
      request pass2 d segs = (.al al.serial true al.result, d)) ∧
    (∀ ser c d', request pass2 d segs = (.al ser true c, d') →
      ∃ al, d.align = some al ∧ al.frame = d.outFrame ∧ ser = al.serial ∧ c = al.result ∧ d' = d) ∧
    (∀ ser c, (request pass2 (startUtt d) segs).1 ≠ .al ser true c) ∧
    (∀ ser c, (request pass2 (endUtt d) segs).1 ≠ .al ser true c) ∧
    (∀ ser c, (request pass2 (replaceSearch d) segs).1 ≠ .al ser true c) ∧
    (∀ al of na, d.align = some al → al.frame ≠ of → ∀ ser c, (request pass2 (advance d of na) segs).1 ≠ .al ser true c) := by
  have key : ∀ (d : Dec) ser c d', request pass2 d segs = (.al ser true c, d') →
      ∃ al, d.align = some al ∧ al.frame = d.outFrame ∧ ser = al.serial ∧ c = al.result ∧ d' = d := by
    intro d ser c d' h
    unfold request at h
    cases hal : d.align with
    | none =>
      rw [hal] at h
      obtain ⟨_, _, _, _, _, _, _, _, e, _⟩ := requestFresh_al pass2 d d' segs ser true c h
      cases e
    | some al =>
      rw [hal] at h
      simp only at h
      by_cases c1 : al.frame = d.outFrame
      · rw [if_pos c1] at h
        simp only [Prod.mk.injEq, Res.al.injEq] at h
        exact ⟨al, rfl, c1, h.1.1.symm, h.1.2.2.symm, h.2.symm⟩
      · rw [if_neg c1] at h
        obtain ⟨_, _, _, _, _, _, _, _, e, _⟩ := requestFresh_al pass2 d d' segs ser true c h
        cases e
  refine ⟨?_, key d, ?_, ?_, ?_, ?_⟩
  · intro al h1 h2
    unfold request
    rw [h1]
    simp only
    rw [if_pos h2]
  · intro ser c h
    obtain ⟨al, h1, _⟩ := key (startUtt d) ser c (request pass2 (startUtt d) segs).2 (by rw [← h])
    simp [startUtt] at h1
  · intro ser c h
    obtain ⟨al, h1, _⟩ := key (endUtt d) ser c (request pass2 (endUtt d) segs).2 (by rw [← h])
    simp [endUtt] at h1
  · intro ser c h
    obtain ⟨al, h1, _⟩ := key (replaceSearch d) ser c (request pass2 (replaceSearch d) segs).2 (by rw [← h])
    simp [replaceSearch] at h1
  · intro al of na h1 h2 ser c h
    obtain ⟨al', h3, h4, _⟩ := key (advance d of na) ser c (request pass2 (advance d of na) segs).2 (by rw [← h])
    have e1 : (advance d of na).align = d.align := rfl
    have e2 : (advance d of na).outFrame = of := rfl
    rw [e1, h1] at h3
    cases h3
    rw [e2] at h4
    exact h2 h4

/-- **C04 wrapper, the repeated call.**  After a request that built a new alignment over `T` frames, the same request
again (nothing happened in between) returns the identical object with the identical contents when `T = output_frame`,
and otherwise (a partial hypothesis that ends before the current frame) builds a new object (`serial + 1`) from the same
words over the same `T` frames. -/
theorem C04_wrapper_repeated_call (pass2 : List Entry → Nat → Option Alignment) (d d' : Dec) (segs : List FSeg)
    (ser : Nat) (a : Alignment) (hreq : request pass2 d (some segs) = (.al ser false (some a), d')) :
    ∃ T, d'.align = some ⟨ser, T, wordsOf segs, some a⟩ ∧
      (T = d'.outFrame → request pass2 d' (some segs) = (.al ser true (some a), d')) ∧
      (T ≠ d'.outFrame → request pass2 d' (some segs) = requestFresh pass2 d' (some segs) ∧
        ∀ s2 r2 c2 d2, requestFresh pass2 d' (some segs) = (.al s2 r2 c2, d2) → s2 = ser + 1 ∧ c2 = some a ∧
          d2.align = some ⟨ser + 1, T, wordsOf segs, some a⟩) := by
  have hf : requestFresh pass2 d (some segs) = (.al ser false (some a), d') := by
    unfold request at hreq
    cases hal : d.align with
    | none => rw [hal] at hreq; exact hreq
    | some al =>
      rw [hal] at hreq
      simp only at hreq
      by_cases c : al.frame = d.outFrame
      · rw [if_pos c] at hreq; simp at hreq
      · rw [if_neg c] at hreq; exact hreq
  obtain ⟨sg, pe, a1, e1, hs, hne, hna, hp, _, e2, e3, e4⟩ := requestFresh_al pass2 d d' (some segs) ser false (some a) hf
  cases e1
  cases e2
  have hal' : d'.align = some ⟨ser, nSteps d.outFrame pe, wordsOf segs, some a⟩ := by rw [e4, e3]
  have hof : d'.outFrame = d.outFrame := by rw [e4]
  have hna' : d'.nAlloc = d.nAlloc := by rw [e4]
  have hser : d'.serial = ser := by rw [e4, e3]
  refine ⟨nSteps d.outFrame pe, hal', fun hT => ?_, fun hT => ⟨?_, ?_⟩⟩
  · exact (C04_wrapper_reuse pass2 d' (some segs)).1 _ hal' hT
  · unfold request
    rw [hal']
    simp only
    rw [if_neg hT]
  · intro s2 r2 c2 d2 h2
    obtain ⟨sg2, pe2, a2, g1, g2, _, _, g5, _, g7, g8, g9⟩ := requestFresh_al pass2 d' d2 (some segs) s2 r2 c2 h2
    cases g1
    rw [hs] at g2
    cases g2
    rw [hof, hp] at g5
    cases g5
    refine ⟨by rw [g8, hser], g7, ?_⟩
    rw [g9, hser, hof]

/-! ### non-vacuity -/

/-- a second pass for the examples: succeeds on exactly the words `[0,5)`,`[5,8)` over 8 frames -/
def exPass2 : List Entry → Nat → Option Alignment := fun ws T =>
  if T = 8 ∧ ws = [mkWord 0 0 5, mkWord 1 5 3] then finish exTokens 8 ⟨2, -80⟩ (populate exDict ws) else none

/-- a final result with a null transition in the middle and a trailing one: the filter drops them, `T = 8 =
output_frame`, the repeated call is answered by the shortcut with the same object -/
example :
    let d0 : Dec := { outFrame := 8, nAlloc := 100 }
    let segs := [⟨0, 0, 4⟩, ⟨-1, 5, 4⟩, ⟨1, 5, 7⟩, ⟨-1, 8, 7⟩]
    let r1 := request exPass2 d0 (some segs)
    let r2 := request exPass2 r1.2 (some segs)
    (∃ a, r1.1 = .al 1 false (some a) ∧ r2.1 = .al 1 true (some a) ∧
      a.words.map (fun e => (e.id, e.start, e.duration)) = [(0, 0, 5), (1, 5, 3)]) ∧ r1.2.outFrame = 8 := by
  refine ⟨⟨_, rfl, ?_, ?_⟩, ?_⟩ <;> decide

/-- a partial result whose hypothesis ends before the current frame (output frame 11): the second pass sees 8 frames,
the repeated call builds a new object; after `advance` to frame 8 … the shortcut would answer — `T = output_frame` -/
example :
    let d0 : Dec := { outFrame := 11, nAlloc := 100 }
    let segs := [⟨0, 0, 4⟩, ⟨1, 5, 7⟩]
    let r1 := request exPass2 d0 (some segs)
    let r2 := request exPass2 r1.2 (some segs)
    (r1.2.align.map (·.frame)) = some 8 ∧ r1.2.outFrame = 11 ∧
    ∃ a, r1.1 = .al 1 false (some a) ∧ r2.1 = .al 2 false (some a) := by
  refine ⟨by decide, by decide, _, rfl, ?_⟩
  decide

/-- no dictionary word / no hypothesis / a gap between dictionary words / a buffer that cannot be rewound -/
example : (request exPass2 { outFrame := 8, nAlloc := 100 } (some [⟨-1, 0, 7⟩])).1 = .null ∧
    (request exPass2 { outFrame := 8, nAlloc := 100 } none).1 = .null ∧
    (request exPass2 { outFrame := 8, nAlloc := 100 } (some [⟨0, 0, 4⟩, ⟨1, 6, 7⟩])).1 = .assertFail ∧
    (request exPass2 { outFrame := 8, nAlloc := 5 } (some [⟨0, 0, 4⟩, ⟨1, 5, 7⟩])).1 = .null := by
  decide

/-- the stale-object hazard the D70 repair removes: without `endUtt`/`startUtt` an aligner over 8 frames answers any
request at output frame 8, whatever the segments are; after `startUtt` it does not -/
example :
    let d1 := (request exPass2 { outFrame := 8, nAlloc := 100 } (some [⟨0, 0, 4⟩, ⟨1, 5, 7⟩])).2
    (∃ c, (request exPass2 d1 (some [⟨7, 0, 7⟩])).1 = .al 1 true c) ∧
    (request exPass2 (advance (startUtt d1) 8 100) (some [⟨7, 0, 7⟩])).1 = .null := by
  refine ⟨⟨_, rfl⟩, ?_⟩
  decide

/-- **C04 wrapper, no alignment for a result that is gone.**  After the search was replaced or re-initialised the new
search has no hypothesis until it has decoded something (`decoder_seg_iter` = NULL, `segs = none`): the request returns
NULL and leaves no aligner behind — whatever aligner an earlier request had left (D130). -/
theorem C04_wrapper_replaced_search_null (pass2 : List Entry → Nat → Option Alignment) (d : Dec) :
    request pass2 (replaceSearch d) none = (.null, replaceSearch d) ∧ (replaceSearch d).align = none ∧
    (replaceSearch d).outFrame = d.outFrame ∧ (replaceSearch d).nAlloc = d.nAlloc ∧ (replaceSearch d).serial = d.serial :=
  ⟨rfl, rfl, rfl, rfl, rfl⟩

/-- the hazard the D130 repair removes: the aligner of the final result over 8 frames would answer a request made after
the grammar was switched (no hypothesis: `segs = none`) with the old words; after `replaceSearch` the answer is NULL,
and a grammar switch that was REFUSED (no event) keeps the old object valid -/
example :
    let d1 := (request exPass2 { outFrame := 8, nAlloc := 100 } (some [⟨0, 0, 4⟩, ⟨1, 5, 7⟩])).2
    (∃ c, (request exPass2 d1 none).1 = .al 1 true c) ∧
    (request exPass2 (replaceSearch d1) none).1 = .null ∧
    (∃ c, (request exPass2 d1 (some [⟨0, 0, 4⟩, ⟨1, 5, 7⟩])).1 = .al 1 true c) := by
  refine ⟨⟨_, rfl⟩, ?_, ⟨_, rfl⟩⟩
  decide

example : replay 11 7 11 0 [] = (11, [0, 1, 2, 3, 4, 5, 6, 7]) := by decide

end SSVerif.Align.Wrap
