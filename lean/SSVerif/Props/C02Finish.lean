import SSVerif.Proofs.SearchFinish
import SSVerif.Props.C02Search
/-!
# C02 — the k-th utterance on a search object is searched like the first (`fsg_search_finish` restores the initial state)

The theorems of `Props/C02Search.lean` / `Props/C02Cover.lean` are about ONE utterance started from an all-cleared HMM
array (`searchStart`, `searchStartBeam`).  The lextree HMMs live across utterances and `fsg_search_start` does not clear
them: `Model/SearchFinish.lean` models the carry-over (`searchFinish` = `hmm_clear` on the listed pnodes only,
`searchStartBeamOn` = start on the array as it is, `afterHistory` = any sequence of finished utterances).  Here: whatever
the history, the search object is all-cleared after every `fsg_search_finish`, so every utterance of a decoder history
runs exactly as `runSearchBeam` — and the single-utterance theorems apply to it.

Tie (tools/props/c02.py, `finish_tie` + history family): after the `fsg_search_finish` of every utterance the check runs
(1-3 earlier utterances of adversarial lengths on the same search object, then the judged one) every pnode HMM of the real
lextree is inspected (all scores `WORST_SCORE`, frame stamp negative, both lists `NULL`) — the conclusion `Clean` evaluated
on the real object —, and the judged utterance is compared frame by frame with `runSearchBeam` and with the optimum.

Property theorems only.
-/
namespace SSVerif
open Viterbi SearchScore

/-- **C02, reachable states.**  In every state the search with beams can reach (any lextree, grammar, beams, scores,
number of frames — also 0) an HMM that is not on the active list is in the cleared state and holds no exit score: the
lists `fsg_search_finish` walks contain every HMM `fsg_search_start` / `fsg_search_step` have left a score in — those that
were evaluated and those that were only ENTERED for the next frame. -/
theorem C02_off_list_hmms_are_cleared (E : Env) (beam pbeam wbeam : Int) (e : Nat → Nat → Nat → Int) (T : Nat) :
    ∀ p, p < E.n → (runSearchBeam E beam pbeam wbeam e T).act.getD p false = false →
      hget (runSearchBeam E beam pbeam wbeam e T).s.hmm p = inact ∧
      (runSearchBeam E beam pbeam wbeam e T).s.out.getD p none = none :=
  runSearchBeam_offList E beam pbeam wbeam e T

/-- **C02, `fsg_search_finish`.**  After the clean-up at the end of an utterance of any length every HMM of the lextree
is cleared, every exit score is cleared and the active list is empty — the state of a freshly built search object. -/
theorem C02_finish_clears_every_hmm (E : Env) (beam pbeam wbeam : Int) (e : Nat → Nat → Nat → Int) (T : Nat) :
    (searchFinish E (runSearchBeam E beam pbeam wbeam e T)).s.hmm = (List.replicate E.n inact).toArray ∧
    (searchFinish E (runSearchBeam E beam pbeam wbeam e T)).s.out = (List.replicate E.n none).toArray ∧
    (searchFinish E (runSearchBeam E beam pbeam wbeam e T)).act = (List.replicate E.n false).toArray :=
  let h := searchFinish_clean E _ (runSearchBeam_offList E beam pbeam wbeam e T)
  ⟨h.hmm, h.out, h.act⟩

/-- **C02, the next utterance.**  `fsg_search_start` on the search object a finished utterance left behind gives exactly
the state it gives on a fresh object; so do all the frames that follow. -/
theorem C02_finish_restores_initial (E : Env) (beam pbeam wbeam : Int) (e₁ e₂ : Nat → Nat → Nat → Int) (T₁ T₂ : Nat) :
    searchStartBeamOn E beam wbeam (searchFinish E (runSearchBeam E beam pbeam wbeam e₁ T₁)) = searchStartBeam E beam wbeam ∧
    runUttOn E beam pbeam wbeam (searchFinish E (runSearchBeam E beam pbeam wbeam e₁ T₁)) e₂ T₂ =
      runSearchBeam E beam pbeam wbeam e₂ T₂ :=
  let h := searchFinish_clean E _ (runSearchBeam_offList E beam pbeam wbeam e₁ T₁)
  ⟨searchStartBeamOn_clean E beam wbeam _ h, runUttOn_clean E beam pbeam wbeam _ h e₂ T₂⟩

/-- **C02, every utterance of a decoder history.**  After ANY history of finished utterances on the same search object
(any number, any lengths including 0 frames, any scores) the next utterance runs frame for frame as on a fresh object;
in particular what `fsg_search_find_exit` reads from its history table is what the single-utterance theorems
(`C02_unpruned_search_is_dp`, `C02_search_with_beams_is_dp_partial`, `C02_pruned_search_le_optimum`) are about. -/
theorem C02_kth_utterance_runs_as_first (E : Env) (beam pbeam wbeam : Int)
    (hist : List ((Nat → Nat → Nat → Int) × Nat)) (e : Nat → Nat → Nat → Int) (T : Nat) :
    runUttOn E beam pbeam wbeam (afterHistory E beam pbeam wbeam hist) e T = runSearchBeam E beam pbeam wbeam e T ∧
    findExit E.g.final (runUttOn E beam pbeam wbeam (afterHistory E beam pbeam wbeam hist) e T).s.table =
      findExit E.g.final (runSearchBeam E beam pbeam wbeam e T).s.table := by
  have h := runUttOn_clean E beam pbeam wbeam _ (afterHistory_clean E beam pbeam wbeam hist) e T
  exact ⟨h, by rw [h]⟩

/-! ### non-vacuity and separation (the two-word example of `Props/C02Search.lean`) -/

def exScores1 : Nat → Nat → Nat → Int := fun t ss k => exScores t ss k + 1

/-- after 3 frames pnode 0 has been evaluated and pnode 1 has only been entered (for frame 3): both are on the list, both
hold scores, and `searchFinish` clears both -/
example : (runSearchBeam exEnv (-1000) (-1000) (-1000) exScores1 3).s.hmm.toList =
      [⟨some (-19), some (-28), some (-34)⟩, ⟨some (-52), none, none⟩] ∧
    (runSearchBeam exEnv (-1000) (-1000) (-1000) exScores1 3).act.toList = [true, true] ∧
    (searchFinish exEnv (runSearchBeam exEnv (-1000) (-1000) (-1000) exScores1 3)).s.hmm.toList = [inact, inact] := by
  decide +kernel

/-- a history of a 3-frame and a 0-frame utterance, then the 6-frame utterance: the optimum −72 as on a fresh object -/
example : findExit exEnv.g.final (runUttOn exEnv (-1000) (-1000) (-1000)
      (afterHistory exEnv (-1000) (-1000) (-1000) [(exScores1, 3), (exScores1, 0)]) exScores 6).s.table = some (5, some (-72)) := by
  decide +kernel

/-- separation: a clean-up that skips the listed HMMs that were only entered (`searchFinishEvaluatedOnly` — NOT the code)
leaves the root entered by a 0-frame utterance behind; the next utterance's equal entry score does not beat it, the root
is not listed again, and the optimum −72 is lost -/
example : (searchFinishEvaluatedOnly exEnv (runSearchBeam exEnv (-1000) (-1000) (-1000) exScores1 0)).s.hmm.toList ≠ [inact, inact] ∧
    findExit exEnv.g.final (runUttOn exEnv (-1000) (-1000) (-1000)
      (searchFinishEvaluatedOnly exEnv (runSearchBeam exEnv (-1000) (-1000) (-1000) exScores1 0)) exScores 6).s.table = none := by
  decide +kernel

end SSVerif
