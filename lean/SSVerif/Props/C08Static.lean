import SSVerif.Model.ApiStatic
/-!
# C08 — static tie of the model's write sets to the C text

`Generated/WriteSets.lean` is regenerated on every run from the clang AST of every `src/*.c` of the tree under test:
for each API phase the set of struct fields / globals that code reachable from the phase's public entry points MAY
write (assignment targets, `++`/`--`, address-taken members, buffers whose pointer reaches a pointer that is written
through — closed over the call graph with the vtables resolved).  `Generated/Reach.lean` is the set of structs
reachable from `decoder_s`.  The theorems below compare those generated lists with the hand classification of
`Model/Api` / `Model/ApiStatic` by evaluation (`decide`): when the C code gains a write that the model does not
allow — a configuration field assigned in `acmod_process_*`, a static counter bumped per frame, a per-utterance
field that `decoder_start_utt` no longer re-initialises, a query that writes search state — the regenerated list
changes and the corresponding theorem stops checking.

What this does NOT prove: that the analysis is sound (clang's AST and the over-approximation rules of
`tools/gen_writesets.py` are trusted; writes through `void *`/casts to unrelated types, pointer arithmetic from one
member into the next, and pointers that were stored in memory and reloaded escape it), and nothing about READ
sets (still validated by poisoning and by the fresh-decoder comparison).
-/
namespace SSVerif.Props.C08Static
open SSVerif.Generated SSVerif.Generated.Reach SSVerif.Generated.WriteSets SSVerif.Api SSVerif.ApiStatic

set_option maxRecDepth 100000 in
/-- The generator resolved every entry point it names; every public function `decoder_*` / `seg_iter_*` /
`hyp_iter_*` that decoder.c defines is assigned to a phase (a new API function has to be placed); every global it saw
written is one that `nm` lists as writable data (so it is classified by `C08_globals_total`); every struct of the
field inventory is reachable from `decoder_s`. -/
theorem C08_static_inputs_resolved :
    missingEntries = [] ∧ unassignedApiFunctions = [] ∧ unknownWrittenGlobals = [] ∧ tier1Unreachable = [] := by
  decide +kernel

set_option maxRecDepth 100000 in
/-- (i) Configuration-constant cells are never written while utterances are decoded or queried: no field that code
reachable from `decoder_start_utt`, `decoder_process_*`, `decoder_end_utt` or a result query may write is classified
persistent (`cfg`, `gram`), except the listed, justified fields. -/
theorem C08_static_constants_not_written :
    ∀ ph ∈ utterancePhases, ∀ f ∈ mayWrite ph, f ∉ exceptFields → (classify f).kind ≠ .persistent := by decide +kernel

set_option maxRecDepth 100000 in
/-- (ii) Every field that utterance-time code may write is classified as per-utterance state that is re-initialised
(`reset`: then the static analysis sees the re-initialising write in `decoder_start_utt` — for the HMM cells in
`fsg_search_finish` and in lextree construction), as dead-on-start scratch, as the CMN carry, as a declared
result-neutral carry (`tainted`: ring capacity / phase, log counters, s2_semi history) or as an embedded aggregate.
The static side is a NECESSARY condition for "re-initialised"; that the value written is the canonical one is the
dynamic read-back (obligation (a) of the check). -/
theorem C08_static_utterance_writes_classified :
    ∀ ph ∈ utterancePhases, ∀ f ∈ mayWrite ph, f ∉ exceptFields →
      (classify f).kind ∈ [Kind.reset, .dead, .cmn, .tainted, .derived] ∧
      ((classify f).kind = .reset → resetWitness f = true) := by decide +kernel

set_option maxRecDepth 100000 in
/-- (ii, converse direction for the reset cells) every cell the model says is reset at utterance start and that the
harness reads back (`canonTable`) is, statically, written by `decoder_start_utt` (HMM cells: by finish + construction). -/
theorem C08_static_reset_cells_are_written_at_start :
    ∀ p ∈ canonTable, resetWitness p.1 = true := by decide +kernel

set_option maxRecDepth 100000 in
/-- (iii) Result queries write only caches: `decoder_hyp` / `seg_iter` / `lattice` / `nbest` / `n_frames` … may write
only `res` (hyp_str, dag, last_link, post, align, json_result), log counters and aggregates; `decoder_alignment` and
`decoder_result_json` additionally rewind the feature ring counters (`cnt`) and re-score into scratch (`sen`, `sel`). -/
theorem C08_static_queries_write_caches :
    ∀ ph ∈ queryPhases, ∀ f ∈ mayWrite ph, f ∉ exceptFields → classify f ∈ queryGroups ph := by decide +kernel

set_option maxRecDepth 100000 in
/-- (iv) No writable global is written at utterance time except the ones excluded by configuration
(error callback / log level of err.c, dither PRNG of genrand.c). -/
theorem C08_static_globals_not_written :
    ∀ ph ∈ utterancePhases, ∀ g ∈ mayWriteGlobals ph, classifyGlobal? g = some .gexcl := by decide +kernel

set_option maxRecDepth 100000 in
/-- (iv') Globals classified constant are written by NO phase of the API, construction included; and the process-wide
mutable statics of the frequency-warping modules (`ginit`: params, is_neutral, p_str, nyquist_frequency, final_piece
of fe_warp_*.c) are not even MENTIONED (read, written, address taken) by code reachable from any entry point other
than decoder construction / re-initialisation: outside `initFe` two decoder instances share no mutable global except
the ones excluded by configuration.  This is the static side of the hypothesis "no `initFe` in the interleaving" of
`C08_instances_disjoint`. -/
theorem C08_static_shared_globals_only_at_init :
    (∀ ph ∈ allApiPhases, ∀ g ∈ mayWriteGlobals ph, classifyGlobal? g ≠ some .gconst) ∧
    (∀ ph ∈ allApiPhases, ph ≠ .init → ∀ g ∈ mayRefGlobals ph,
      classifyGlobal? g = some .gconst ∨ classifyGlobal? g = some .gexcl) := by decide +kernel

set_option maxRecDepth 100000 in
/-- (v) Model ⊆ code: every cell group that an operation of the model declares as written (the sets the
non-interference theorems of `Props/C08` are proved from) contains a field that the C entry points realising the
operation may write — the model does not invent writes. -/
theorem C08_static_declared_writes_exist :
    ∀ op ∈ allOps, ∀ g ∈ declaredWrites op, isGlobal g = false →
      ∃ f ∈ mayWrite (phaseOf op), classify f = g := by decide +kernel

set_option maxRecDepth 100000 in
/-- (vi) Code ⊆ model: every field that the C entry points realising a model operation may write lies in a cell
group that the operation declares as written (or killed) in some protocol phase, or is an embedded aggregate.  This
is the static over-approximation of obligation (e) of the check (per call: changed cells ⊆ declared write set). -/
theorem C08_static_writes_declared :
    ∀ p ∈ modelledPhases, ∀ f ∈ mayWrite p, f ∉ exceptFields →
      classify f = .agg ∨ classify f ∈ declaredWritesOf p := by decide +kernel

set_option maxRecDepth 100000 in
/-- (vii) The struct inventory is total over pointer reachability: every struct of the tree reachable from
`decoder_s` has a class; the structs inventoried field by field are exactly those classified `inventoried`; every
classified struct is reachable, classified once, and has as many members as when it was classified (a struct that is
classified as a whole stops checking when it gains or loses a member, like the field-by-field inventory does). -/
theorem C08_reach_structs_classified :
    (∀ s ∈ allRStructs, sclass? s ≠ none) ∧
    (∀ s ∈ allRStructs, (sclass? s = some .inventoried ↔ s ∈ tier1Structs)) ∧
    (∀ p ∈ structTable, p.1 ∈ allRStructs ∧ p.2.2 = p.1.nfields) ∧
    (structTable.map (·.1)).Nodup ∧ (fieldOverride.map (·.1)).Nodup := by decide +kernel

set_option maxRecDepth 100000 in
/-- (viii) No field of a reachable struct classified constant (configuration, acoustic model, dictionary, grammar,
vtables) is written at utterance time, except the listed, justified fields. -/
theorem C08_static_reach_constants_not_written :
    ∀ ph ∈ utterancePhases, ∀ f ∈ mayWriteR ph, f ∉ rexceptFields → rclass f ∉ constantClasses := by decide +kernel

set_option maxRecDepth 100000 in
/-- (ix) Result queries write, outside the field inventory, only caches (lattice, alignment), containers, reference
counters, timers and the neutral vocabulary growth; the alignment queries also the aligner's own state and scratch. -/
theorem C08_static_reach_queries_write_caches :
    ∀ ph ∈ queryPhases, ∀ f ∈ mayWriteR ph, f ∉ rexceptFields → rclass f ∈ queryClasses ph := by decide +kernel

set_option maxRecDepth 100000 in
/-- The machine-checkable parts of the exception reasons: every `hmm_init` call passes the literal 0 for `mpx`
(so the multiplex branch that writes `hmm_s.senid` is dead), and every exception names a field that the analysis
does report (no stale entries). -/
theorem C08_static_exceptions_justified :
    hmmInitMpxArgs.all (· == "0") = true ∧ hmmInitMpxArgs ≠ [] ∧
    (∀ f ∈ exceptFields, ∃ ph ∈ utterancePhases, f ∈ mayWrite ph) ∧
    (∀ f ∈ rexceptFields, ∃ ph ∈ utterancePhases, f ∈ mayWriteR ph) := by decide +kernel

/-! ## non-vacuity -/

set_option maxRecDepth 100000 in
-- the utterance-time sets are not empty, and contain cells of every kind the statements talk about
example : Field.acmod_s__state ∈ mayWrite .process ∧ Field.cmn_t__sum ∈ mayWrite .process ∧
    Field.fsg_search_s__frame ∈ mayWrite .startUtt ∧ Field.search_module_s__dag ∈ mayWrite .query := by decide +kernel
example : (mayWrite .process).length ≥ 40 ∧ (mayWrite .startUtt).length ≥ 30 := by decide +kernel
set_option maxRecDepth 100000 in
-- a configuration field IS written by construction, and not at utterance time
example : Field.acmod_s__mdef ∈ mayWrite .init ∧ Field.acmod_s__mdef ∉ mayWrite .process := by decide +kernel
set_option maxRecDepth 100000 in
-- the statements discriminate: a persistent field in a write set falsifies (i)
example : ¬ (∀ f ∈ Field.acmod_s__lmath :: mayWrite .process, f ∉ exceptFields → (classify f).kind ≠ .persistent) := by decide +kernel
-- the warp statics are written by construction only
example : Global.fe_warp_affine__params ∈ mayWriteGlobals .init ∧ mayWriteGlobals .startUtt = [] := by decide +kernel
set_option maxRecDepth 100000 in
-- the warp statics ARE mentioned by construction
example : Global.fe_warp_affine__params ∈ mayRefGlobals .init ∧ Global.fe_warp_affine__params ∉ mayRefGlobals .process := by decide +kernel
set_option maxRecDepth 100000 in
-- tier 2: the lattice is written by queries, the dictionary by decoder_add_word, neither by decoder_process_*
example : RField.lattice_s__nodes ∈ mayWriteR .query ∧ RField.dict_s__n_word ∈ mayWriteR .addWord ∧
    RField.dict_s__n_word ∉ mayWriteR .process ∧ RField.lattice_s__nodes ∉ mayWriteR .process := by decide +kernel

end SSVerif.Props.C08Static
