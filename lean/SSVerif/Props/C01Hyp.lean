import SSVerif.Model.HypBuf
import SSVerif.Props.C01
/-!
# C01 — the C string `fsg_search_hyp` returns (byte level)

`Props/C01.lean` proves that the WORD LIST of the backtrace (`hyp`, base forms of the non-filler words) is a
sentence of the loaded grammar.  The C function does not return a list: it sizes, allocates and fills a byte
block (two passes over the back-pointer chain, the second writing from the END of the block towards its
start).  `Model/HypBuf.lean` models exactly that, every store bounds-checked and logged.  Here:

* for EVERY list of words (any number — no 256-entry limit —, any bytes, empty words allowed) no store is out
  of bounds and the pointer never leaves the block; the block has `Σ (strlen w + 1)` bytes; `c` ends at offset 0;
  the offsets stored to are a permutation of `0 … len-2` (each byte written exactly once, the last byte is the
  NUL `calloc` left); the block is the words in utterance order joined by single spaces, then NUL;
* when no word contains a NUL byte (C strings), the C string in the block is that text and `strlen = len - 1`;
* composed with `C01_reported_sentence_in_loaded_grammar`: the returned C string is `" ".join` of the spellings
  of a sentence of the loaded grammar.
-/
namespace SSVerif.HypBuf
/-- total size pass 1 arrives at -/
def lenSum : List Bytes → Nat
  | [] => 0
  | w :: rest => w.length + 1 + lenSum rest

theorem lenPass_eq (ws : List Bytes) (acc : Nat) : lenPass ws acc = acc + lenSum ws := by
  induction ws generalizing acc with
  | nil => simp [lenPass, lenSum]
  | cons w rest ih => simp [lenPass, lenSum, ih]; omega

theorem lenSum_pos {ws : List Bytes} (h : ws ≠ []) : 0 < lenSum ws := by
  cases ws with
  | nil => contradiction
  | cons w r => simp [lenSum]; omega

theorem store_spec (A T : Bytes) (z b : UInt8) (log : List Nat) (i : Nat) (hi : i = A.length) :
    store (A ++ z :: T) log i b = .ok (A ++ b :: T, i :: log) := by
  subst hi
  unfold store
  have : A.length < (A ++ z :: T).length := by simp
  rw [if_pos this]
  simp

theorem memcpy_spec (w : Bytes) (A Z T : Bytes) (log : List Nat) (i : Nat) (hi : i = A.length) (hz : Z.length = w.length) :
    memcpy (A ++ (Z ++ T)) log i w = .ok (A ++ (w ++ T), (List.range' i w.length).reverse ++ log) := by
  induction w generalizing A Z log i with
  | nil => cases Z <;> simp_all [memcpy]
  | cons b bs ih =>
    cases Z with
    | nil => simp at hz
    | cons z Z' =>
      unfold memcpy
      rw [show A ++ (z :: Z' ++ T) = A ++ z :: (Z' ++ T) by simp, store_spec A (Z' ++ T) z b log i hi]
      simp only
      have := ih (A ++ [b]) Z' (i :: log) (i + 1) (by simp [hi]) (by simpa using hz)
      simp only [List.append_assoc, List.singleton_append] at this
      rw [this]
      simp [List.range'_succ]
/-- the block contents in visiting order: each later-visited word goes IN FRONT, separated by one space -/
def joinV : List Bytes → Bytes
  | [] => []
  | [w] => w
  | w :: w2 :: rest => joinV (w2 :: rest) ++ 0x20 :: w

theorem fill_spec (ws : List Bytes) (hne : ws ≠ []) (T : Bytes) (log : List Nat) :
    ∃ lg, fill ws ⟨List.replicate (lenSum ws - 1) 0 ++ T, lenSum ws - 1, log⟩ = .ok ⟨joinV ws ++ T, 0, lg ++ log⟩ ∧
      lg.Perm (List.range' 0 (lenSum ws - 1)) := by
  induction ws generalizing T log with
  | nil => contradiction
  | cons w rest ih =>
    cases rest with
    | nil =>
      refine ⟨(List.range' 0 w.length).reverse, ?_, List.reverse_perm _⟩
      have hm := memcpy_spec w [] (List.replicate w.length 0) T log 0 rfl (by simp)
      simp only [List.nil_append] at hm
      simp [fill, lenSum, joinV, hm]
    | cons w2 r =>
      have hpos : 0 < lenSum (w2 :: r) := lenSum_pos (by simp)
      generalize hL : lenSum (w2 :: r) = L' at hpos ih
      obtain ⟨lg', hf, hp⟩ := ih (by simp) (0x20 :: (w ++ T)) ((L' - 1) :: ((List.range' L' w.length).reverse ++ log))
      refine ⟨lg' ++ (L' - 1) :: (List.range' L' w.length).reverse, ?_, ?_⟩
      · have e1 : lenSum (w :: w2 :: r) - 1 = L' + w.length := by simp [lenSum] at hL ⊢; omega
        have hm := memcpy_spec w (List.replicate L' 0) (List.replicate w.length 0) T log L' (by simp) (by simp)
        have hs := store_spec (List.replicate (L' - 1) 0) (w ++ T) 0 0x20 ((List.range' L' w.length).reverse ++ log) (L' - 1) (by simp)
        have e2 : List.replicate (L' + w.length) (0 : UInt8) ++ T = List.replicate L' 0 ++ (List.replicate w.length 0 ++ T) := by
          rw [← List.append_assoc, List.replicate_append_replicate]
        have e3 : List.replicate L' (0 : UInt8) ++ (w ++ T) = List.replicate (L' - 1) 0 ++ 0 :: (w ++ T) := by
          have : L' = (L' - 1) + 1 := by omega
          conv => lhs; rw [this, List.replicate_succ']
          simp
        unfold fill
        rw [e1, e2]
        have hc : ¬ (w.length > L' + w.length) := by omega
        simp only [hc, if_false, Nat.add_sub_cancel, hm]
        rw [if_pos hpos, e3, hs]
        simp only
        rw [hf]
        simp [joinV]
      · have e1 : lenSum (w :: w2 :: r) - 1 = (L' - 1) + (1 + w.length) := by simp [lenSum] at hL ⊢; omega
        rw [e1, ← List.range'_append_1]
        refine List.Perm.append hp ?_
        have e4 : List.range' (0 + (L' - 1)) (1 + w.length) = (L' - 1) :: List.range' L' w.length := by
          rw [Nat.add_comm 1, List.range'_succ]
          congr 2 <;> omega
        rw [e4]
        exact List.Perm.cons _ (List.reverse_perm _)

theorem join1_snoc (xs : List Bytes) (w : Bytes) (hne : xs ≠ []) : join1 (xs ++ [w]) = join1 xs ++ 0x20 :: w := by
  induction xs with
  | nil => contradiction
  | cons x rest ih =>
    cases rest with
    | nil => simp [join1]
    | cons y r =>
      have := ih (by simp)
      simp only [List.cons_append] at this ⊢
      simp [join1, this]

theorem joinV_eq (ws : List Bytes) : joinV ws = join1 ws.reverse := by
  induction ws with
  | nil => rfl
  | cons w rest ih =>
    cases rest with
    | nil => rfl
    | cons w2 r =>
      rw [joinV, ih, List.reverse_cons (a := w), join1_snoc _ _ (by simp)]

theorem joinV_length (ws : List Bytes) (hne : ws ≠ []) : (joinV ws).length + 1 = lenSum ws := by
  induction ws with
  | nil => contradiction
  | cons w rest ih =>
    cases rest with
    | nil => simp [joinV, lenSum]
    | cons w2 r =>
      have := ih (by simp)
      simp only [joinV, lenSum, List.length_append, List.length_cons] at this ⊢
      omega

theorem joinV_nonul (ws : List Bytes) (h : NoNul ws) : ∀ b ∈ joinV ws, b ≠ (0 : UInt8) := by
  induction ws with
  | nil => simp [joinV]
  | cons w rest ih =>
    cases rest with
    | nil => simpa [joinV, NoNul] using h
    | cons w2 r =>
      have h1 : NoNul (w2 :: r) := fun x hx => h x (List.mem_cons_of_mem _ hx)
      have h2 := h w (by simp)
      intro b hb
      simp only [joinV, List.mem_append, List.mem_cons] at hb
      rcases hb with hb | hb | hb
      · exact ih h1 b hb
      · subst hb; decide
      · exact h2 b hb

theorem cstr_spec (s T : Bytes) (h : ∀ b ∈ s, b ≠ (0 : UInt8)) : cstr (s ++ 0 :: T) = s := by
  induction s with
  | nil => simp [cstr]
  | cons a r ih =>
    have ha : a ≠ 0 := h a (by simp)
    have := ih (fun b hb => h b (List.mem_cons_of_mem _ hb))
    unfold cstr at this ⊢
    simp [ha, this]

theorem hypBuf_nil : hypBuf [] = .null := rfl

/-- **the block `fsg_search_hyp` builds, for every word list.**  `ws` = the words in visiting order (last word
of the utterance first), not empty.  No failure outcome; the block has `lenSum ws = Σ (strlen w + 1)` bytes;
its contents are the words in utterance order joined by single spaces followed by one NUL; `c` ends at the
start of the block; the offsets stored to are a permutation of `0 … len-2` (every byte but the last written
exactly once; the last is the zero `calloc` left); the text has `len - 1` bytes. -/
theorem C01_hyp_block_exact (ws : List Bytes) (hne : ws ≠ []) :
    ∃ log, hypBuf ws = .ok (lenSum ws) (join1 ws.reverse ++ [0]) 0 log ∧
      log.Perm (List.range (lenSum ws - 1)) ∧ (join1 ws.reverse).length = lenSum ws - 1 := by
  have hpos := lenSum_pos hne
  obtain ⟨lg, hf, hp⟩ := fill_spec ws hne [0] []
  refine ⟨lg, ?_, ?_, ?_⟩
  · unfold hypBuf
    simp only [lenPass_eq, Nat.zero_add]
    rw [if_neg (by omega)]
    have e : List.replicate (lenSum ws) (0 : UInt8) = List.replicate (lenSum ws - 1) 0 ++ [0] := by
      conv => lhs; rw [show lenSum ws = (lenSum ws - 1) + 1 by omega, List.replicate_succ']
    rw [e, hf]
    simp [joinV_eq]
  · rw [List.range_eq_range']; exact hp
  · have := joinV_length ws hne
    rw [joinV_eq] at this; omega

/-- no store is out of bounds and `c` never moves below the block, whatever the words (0, 1, 257, … of them) -/
theorem C01_hyp_no_store_out_of_bounds (ws : List Bytes) : ∀ e, hypBuf ws ≠ .fail e := by
  intro e
  cases ws with
  | nil => simp [hypBuf_nil]
  | cons w r =>
    obtain ⟨log, h, _⟩ := C01_hyp_block_exact (w :: r) (by simp)
    rw [h]; simp

/-- `NULL` is returned exactly when there is no word -/
theorem C01_hyp_null_iff (ws : List Bytes) : hypBuf ws = .null ↔ ws = [] := by
  constructor
  · intro h
    cases ws with
    | nil => rfl
    | cons w r =>
      obtain ⟨log, h', _⟩ := C01_hyp_block_exact (w :: r) (by simp)
      rw [h'] at h; cases h
  · intro h; subst h; rfl

/-- **the C string in the block** (bytes before the first NUL) is the words in utterance order joined by single
spaces, its `strlen` is `len - 1` = allocation size − 1 (the terminator is the LAST byte of the block: nothing
is allocated beyond it, nothing of an earlier string can follow). -/
theorem C01_hyp_cstring (ws : List Bytes) (hne : ws ≠ []) (hnn : NoNul ws) :
    ∃ len buf c log, hypBuf ws = .ok len buf c log ∧ buf.length = len ∧ len = lenSum ws ∧
      cstr buf = join1 ws.reverse ∧ (cstr buf).length = len - 1 := by
  obtain ⟨log, h, _, hl⟩ := C01_hyp_block_exact ws hne
  have hc : cstr (join1 ws.reverse ++ [0]) = join1 ws.reverse :=
    cstr_spec _ [] (by rw [← joinV_eq]; exact joinV_nonul ws hnn)
  refine ⟨_, _, _, _, h, ?_, rfl, hc, ?_⟩
  · have := lenSum_pos hne
    simp [hl]; omega
  · rw [hc, hl]

end SSVerif.HypBuf

namespace SSVerif.HypBuf
open SSVerif.Hist SSVerif.Nfa

theorem lenSum_append (xs ys : List Bytes) : lenSum (xs ++ ys) = lenSum xs + lenSum ys := by
  induction xs with
  | nil => simp [lenSum]
  | cons x r ih => simp [lenSum, ih]; omega

theorem lenSum_reverse (xs : List Bytes) : lenSum xs.reverse = lenSum xs := by
  induction xs with
  | nil => rfl
  | cons x r ih => simp [lenSum_append, lenSum, ih]; omega

theorem hypWords_map (base : Nat → Nat) (str : Nat → Bytes) (g : Fsg) (h : Hist) (bp : Int) :
    hypWords (fun w => str (base w)) g h bp = (hypWords base g h bp).map str := by
  unfold hypWords
  rw [List.map_filterMap]
  congr 1
  funext i
  simp only
  split <;> simp

theorem chainGo_filterMap {β : Type} (base : Nat → β) (g : Fsg) (h : Hist) (f : Nat) (bp : Int) (acc : List Nat) :
    (chainGo h f bp acc).filterMap (fun i =>
        let l := linkOf g (ent h i)
        if l.wid < 0 ∨ g.isFiller l.wid then none else some (base l.wid.toNat)) =
      (visitGo base g h f bp).reverse ++ acc.filterMap (fun i =>
        let l := linkOf g (ent h i)
        if l.wid < 0 ∨ g.isFiller l.wid then none else some (base l.wid.toNat)) := by
  induction f generalizing bp acc with
  | zero => simp [chainGo, visitGo]
  | succ k ih =>
    unfold chainGo visitGo
    by_cases hb : bp > 0
    · simp only [hb, if_true]
      rw [ih]
      by_cases hc : (linkOf g (ent h bp.toNat)).wid < 0 ∨ g.isFiller (linkOf g (ent h bp.toNat)).wid = true
      · simp [hc]
      · simp [hc]
    · simp [hb]

/-- the C loops visit the hypothesis words in the reverse of utterance order -/
theorem visitWords_eq {β : Type} (base : Nat → β) (g : Fsg) (h : Hist) (bp : Int) :
    visitWords base g h bp = (hypWords base g h bp).reverse := by
  unfold visitWords hypWords chain
  rw [chainGo_filterMap]
  simp

/-- the byte-level model and the list-level model `hyp` agree on WHEN there is a result, and the block is built
from the list `hyp` returns -/
theorem hypRet_eq (base : Nat → Nat) (str : Nat → Bytes) (g : Fsg) (h : Hist) (cur : Int) (final : Bool) :
    hypRet (fun w => str (base w)) g h cur final =
      (match (hyp base g h cur final).1 with
       | none => .null
       | some ws => hypBuf (ws.map str).reverse, (hyp base g h cur final).2) := by
  unfold hypRet hyp
  simp only
  split
  · rfl
  · rw [visitWords_eq, hypWords_map]
    generalize hypWords base g h _ = ws
    cases ws with
    | nil => simp [hypBuf_nil]
    | cons w r => simp

theorem hyp_some_ne_nil {β : Type} (base : Nat → β) (g : Fsg) (h : Hist) (cur : Int) (final : Bool) (ws : List β)
    (hw : (hyp base g h cur final).1 = some ws) : ws ≠ [] := by
  unfold hyp at hw
  simp only at hw
  split at hw
  · cases hw
  · split at hw
    · cases hw
    · rename_i hne
      cases hw
      intro h0; simp [h0] at hne

/-- **C01 at byte level, any query (partial or final).**  `base` maps a word id of the search FSG to its base-form id,
`str` an id to its spelling.  When the list-level model returns no hypothesis the C function returns `NULL`;
when it returns the word list `ws`, the C function returns a block of exactly `Σ (|str w| + 1)` bytes holding
`" ".join(str w)` and one NUL, built without any out-of-bounds store, each byte but the last stored exactly once. -/
theorem C01_hyp_string_of_word_list (base : Nat → Nat) (str : Nat → Bytes) (g : Fsg) (h : Hist) (cur : Int) (final : Bool) :
    ((hyp base g h cur final).1 = none → (hypRet (fun w => str (base w)) g h cur final).1 = .null) ∧
    (∀ ws, (hyp base g h cur final).1 = some ws →
      ∃ log, (hypRet (fun w => str (base w)) g h cur final).1 =
          .ok (lenSum (ws.map str)) (join1 (ws.map str) ++ [0]) 0 log ∧
        log.Perm (List.range (lenSum (ws.map str) - 1)) ∧ (join1 (ws.map str)).length = lenSum (ws.map str) - 1 ∧
        (NoNul (ws.map str) → cstr (join1 (ws.map str) ++ [0]) = join1 (ws.map str))) := by
  rw [hypRet_eq]
  constructor
  · intro hn; simp [hn]
  · intro ws hw
    have hne : (ws.map str).reverse ≠ [] := by
      have := hyp_some_ne_nil base g h cur final ws hw
      simpa using this
    obtain ⟨log, hb, hp, hl⟩ := C01_hyp_block_exact _ hne
    simp only [List.reverse_reverse, lenSum_reverse] at hb hp hl
    refine ⟨log, by simp [hw, hb], hp, hl, fun hnn => cstr_spec _ [] ?_⟩
    have : NoNul (ws.map str).reverse := fun w hw' => hnn w (List.mem_reverse.1 hw')
    have := joinV_nonul _ this
    rwa [joinV_eq, List.reverse_reverse] at this

/-- **C01, composed down to the returned C string.**  After the utterance ended, `fsg_search_hyp` returns either
`NULL` or a C string that is `" ".join` of the spellings of a SENTENCE OF THE GRAMMAR AS LOADED (in base forms);
the string occupies its allocation exactly (`strlen + 1` = allocated size). -/
theorem C01_returned_c_string_is_sentence_of_loaded_grammar {g : Fsg} {h : Hist} {cur : Int}
    (wf : WFHist g h cur) (base : Nat → Nat) (str : Nat → Bytes) (hstr : ∀ w, ∀ b ∈ str w, b ≠ (0 : UInt8)) {G : Nfa}
    (hp : projB g.toNfa G (proj g base) = true) :
    (hypRet (fun w => str (base w)) g h cur true).1 = .null ∨
    ∃ ws len buf c log, Accepts G ws ∧ (hypRet (fun w => str (base w)) g h cur true).1 = .ok len buf c log ∧
      buf.length = len ∧ cstr buf = join1 (ws.map str) ∧ (cstr buf).length + 1 = len := by
  obtain ⟨hn, hs⟩ := C01_hyp_string_of_word_list base str g h cur true
  cases hw : (hyp base g h cur true).1 with
  | none => exact .inl (hn hw)
  | some ws =>
    right
    obtain ⟨log, hb, _, hl, hc⟩ := hs ws hw
    have hacc := (C01_reported_sentence_in_loaded_grammar wf 0 base hp).1 ws hw
    have hnn : NoNul (ws.map str) := by
      intro w hw' b hb'
      obtain ⟨i, _, rfl⟩ := List.mem_map.1 hw'
      exact hstr i b hb'
    have hpos : 0 < lenSum (ws.map str) := lenSum_pos (by simpa using hyp_some_ne_nil base g h cur true ws hw)
    refine ⟨ws, _, _, _, log, hacc, hb, ?_, hc hnn, ?_⟩
    · simp [hl]; omega
    · rw [hc hnn, hl]; omega

/-! ### non-vacuity -/

/-- "b" visited first (last word), then "a": block `a b\0`, stores at 2, 1 (space), 0 -/
example : hypBuf [[0x62], [0x61]] = .ok 4 [0x61, 0x20, 0x62, 0] 0 [0, 1, 2] := by decide
/-- an empty word still gets its separating space (`strlen + 1` was counted for it) -/
example : hypBuf [[], [0x61]] = .ok 3 [0x61, 0x20, 0] 0 [0, 1] := by decide
example : hypBuf [[0x61], []] = .ok 3 [0x20, 0x61, 0] 0 [0, 1] := by decide
example : hypBuf [[]] = .ok 1 [0] 0 [] := by decide
example : cstr [0x61, 0x20, 0x62, 0] = [0x61, 0x20, 0x62] := by decide
/-- the failure outcomes are real: a block one byte too small (off-by-one in `len`) makes `c` leave the block, … -/
example : fill [[0x62], [0x61]] ⟨List.replicate 3 0, 2, []⟩ = .error (.underflow 0 1) := rfl
/-- … a pointer beyond the block is an out-of-bounds store, -/
example : fill [[0x62]] ⟨List.replicate 1 0, 2, []⟩ = .error (.oob 1 1) := rfl
/-- … and a block that is NOT zero-filled (a kept old buffer) would keep its stale tail: the model's `calloc` matters -/
example : (fill [[0x62]] ⟨[0, 0x7a, 0x7a, 0], 1, []⟩).toOption.map (fun s => cstr s.buf) = some [0x62, 0x7a, 0x7a] := by decide

theorem lenSum_replicate (n : Nat) (w : Bytes) : lenSum (List.replicate n w) = n * (w.length + 1) := by
  induction n with
  | zero => simp [lenSum]
  | succ k ih => simp [List.replicate_succ, lenSum, ih, Nat.succ_mul]; omega

/-- `n` copies of one word, any `n > 0`: one block of `n * (strlen + 1)` bytes -/
theorem hypBuf_replicate (n : Nat) (hn : 0 < n) (w : Bytes) :
    ∃ log, hypBuf (List.replicate n w) = .ok (n * (w.length + 1)) (join1 (List.replicate n w) ++ [0]) 0 log ∧
      log.Perm (List.range (n * (w.length + 1) - 1)) ∧ (join1 (List.replicate n w)).length = n * (w.length + 1) - 1 := by
  have hne : List.replicate n w ≠ [] := by
    cases n with
    | zero => omega
    | succ k => simp [List.replicate_succ]
  have h := C01_hyp_block_exact (List.replicate n w) hne
  simp only [List.reverse_replicate, lenSum_replicate] at h
  exact h

/-- 300 words (more than any fixed 256-entry array): one block of 900 bytes, 899 of text, by the general theorem -/
example : ∃ log, hypBuf (List.replicate 300 [0x61, 0x62]) =
      .ok 900 (join1 (List.replicate 300 [0x61, 0x62]) ++ [0]) 0 log ∧ log.Perm (List.range 899) ∧
      (join1 (List.replicate 300 [0x61, 0x62])).length = 899 :=
  hypBuf_replicate 300 (by decide) [0x61, 0x62]

example : hypRet (fun w => [0x61 + UInt8.ofNat (exBase w)]) exG exH 6 true = (.ok 4 [0x61, 0x20, 0x62, 0] 0 [0, 1, 2], -60) := by decide
example : hypRet (fun w => [0x61 + UInt8.ofNat (exBase w)]) exG exHdead 4 true = (.null, 0) := by decide

end SSVerif.HypBuf

/-! ### intermediate states of pass 2 -/

namespace SSVerif.HypBuf

/-- one iteration of pass 2 when `k > 0` bytes remain in front of the word: the word is copied, a space put before it -/
theorem fill_step (w : Bytes) (rest : List Bytes) (k : Nat) (hk : 0 < k) (T : Bytes) (log : List Nat) :
    fill (w :: rest) ⟨List.replicate (w.length + k) 0 ++ T, w.length + k, log⟩ =
      fill rest ⟨List.replicate (k - 1) 0 ++ 0x20 :: (w ++ T), k - 1, (k - 1) :: ((List.range' k w.length).reverse ++ log)⟩ := by
  have hm := memcpy_spec w (List.replicate k 0) (List.replicate w.length 0) T log k (by simp) (by simp)
  have hs := store_spec (List.replicate (k - 1) 0) (w ++ T) 0 0x20 ((List.range' k w.length).reverse ++ log) (k - 1) (by simp)
  have e2 : List.replicate (w.length + k) (0 : UInt8) ++ T = List.replicate k 0 ++ (List.replicate w.length 0 ++ T) := by
    rw [← List.append_assoc, List.replicate_append_replicate, Nat.add_comm]
  have e3 : List.replicate k (0 : UInt8) ++ (w ++ T) = List.replicate (k - 1) 0 ++ 0 :: (w ++ T) := by
    have : k = (k - 1) + 1 := by omega
    conv => lhs; rw [this, List.replicate_succ']
    simp
  conv => lhs; unfold fill
  rw [e2]
  have hc : ¬ (w.length > w.length + k) := by omega
  simp only [hc, if_false, Nat.add_sub_cancel_left, hm]
  rw [if_pos hk, e3, hs]

/-- **intermediate states of pass 2.**  After the words `xs` (visited first) have been placed and `k > 0` bytes remain for
the words still to come, `c` is at offset `k - 1 `, the `k - 1` bytes in front of it are still the zeros of `calloc`, byte `k - 1`
is the separating space, and the stores so far covered exactly the offsets `k-1 … k-1+lenSum xs-1`. -/
theorem fill_prefix (xs : List Bytes) (hne : xs ≠ []) (k : Nat) (hk : 0 < k) (T : Bytes) (log : List Nat) :
    ∃ lg, fill xs ⟨List.replicate (lenSum xs + k - 1) 0 ++ T, lenSum xs + k - 1, log⟩ =
        .ok ⟨List.replicate (k - 1) 0 ++ 0x20 :: (joinV xs ++ T), k - 1, lg ++ log⟩ ∧
      lg.Perm (List.range' (k - 1) (lenSum xs)) := by
  induction xs generalizing T log k with
  | nil => contradiction
  | cons w rest ih =>
    cases rest with
    | nil =>
      refine ⟨(k - 1) :: (List.range' k w.length).reverse, ?_, ?_⟩
      · have e : lenSum [w] + k - 1 = w.length + k := by simp only [lenSum]; omega
        rw [e, fill_step w [] k hk]
        simp [fill, joinV]
      · have e4 : List.range' (k - 1) (lenSum [w]) = (k - 1) :: List.range' k w.length := by
          simp only [lenSum]
          rw [Nat.add_zero, List.range'_succ]
          congr 2; omega
        rw [e4]
        exact List.Perm.cons _ (List.reverse_perm _)
    | cons w2 r =>
      have hpos : 0 < lenSum (w2 :: r) := lenSum_pos (by simp)
      generalize hL : lenSum (w2 :: r) = L' at hpos ih
      have e : lenSum (w :: w2 :: r) + k - 1 = w.length + (L' + k) := by simp [lenSum] at hL ⊢; omega
      obtain ⟨lg', hf, hp⟩ := ih (by simp) k hk (0x20 :: (w ++ T)) ((L' + k - 1) :: ((List.range' (L' + k) w.length).reverse ++ log))
      refine ⟨lg' ++ (L' + k - 1) :: (List.range' (L' + k) w.length).reverse, ?_, ?_⟩
      · rw [e, fill_step w (w2 :: r) (L' + k) (by omega), hf]
        simp [joinV]
      · have e1 : lenSum (w :: w2 :: r) = L' + (1 + w.length) := by simp [lenSum] at hL ⊢; omega
        rw [e1, ← List.range'_append_1]
        refine List.Perm.append hp ?_
        have e4 : List.range' (k - 1 + L') (1 + w.length) = (L' + k - 1) :: List.range' (L' + k) w.length := by
          rw [Nat.add_comm 1, List.range'_succ]
          congr 2 <;> omega
        rw [e4]
        exact List.Perm.cons _ (List.reverse_perm _)

theorem fill_append (xs ys : List Bytes) (s : St) :
    fill (xs ++ ys) s = (match fill xs s with | .error e => .error e | .ok s' => fill ys s') := by
  induction xs generalizing s with
  | nil => simp [fill]
  | cons w rest ih =>
    simp only [List.cons_append, fill]
    split
    · rfl
    · split
      · rfl
      · split
        · split
          · rfl
          · exact ih _
        · exact ih _

/-- **offset 0 is stored to only while the LAST visited word (the first word of the utterance) is placed**, when that word
is not empty (the dictionary refuses empty words, `dict_add_word`): after all other words `xs`, `c` stands at `strlen w`,
the first `strlen w` bytes are still the zeros of `calloc`, no store so far touched an offset below `strlen w`, and the rest
of pass 2 is the placement of `w` alone. -/
theorem C01_hyp_block_start_written_with_last_word_only (xs : List Bytes) (hne : xs ≠ []) (w : Bytes) :
    ∃ buf log, fill xs ⟨List.replicate (lenSum (xs ++ [w])) 0, lenSum (xs ++ [w]) - 1, []⟩ = .ok ⟨buf, w.length, log⟩ ∧
      buf.take w.length = List.replicate w.length 0 ∧ (∀ i ∈ log, w.length ≤ i) ∧
      fill (xs ++ [w]) ⟨List.replicate (lenSum (xs ++ [w])) 0, lenSum (xs ++ [w]) - 1, []⟩ = fill [w] ⟨buf, w.length, log⟩ := by
  obtain ⟨lg, hf, hp⟩ := fill_prefix xs hne (w.length + 1) (by omega) [0] []
  have e1 : lenSum (xs ++ [w]) = lenSum xs + (w.length + 1) := by simp [lenSum_append, lenSum]
  have e2 : List.replicate (lenSum xs + (w.length + 1)) (0 : UInt8) = List.replicate (lenSum xs + (w.length + 1) - 1) 0 ++ [0] := by
    conv => lhs; rw [show lenSum xs + (w.length + 1) = (lenSum xs + (w.length + 1) - 1) + 1 by omega, List.replicate_succ']
  rw [e1, e2]
  simp only [Nat.add_sub_cancel, List.append_nil] at hf
  refine ⟨_, _, hf, ?_, ?_, ?_⟩
  · simp
  · intro i hi
    have := (hp.mem_iff).1 hi
    simp only [Nat.add_sub_cancel, List.mem_range'_1] at this
    exact this.1
  · rw [fill_append, hf]

/-- the state between the two words of "a b": `b` and its space are placed, offset 0 untouched, `c` at 1 -/
example : fill [[0x62]] ⟨List.replicate 4 0, 3, []⟩ = .ok ⟨[0, 0x20, 0x62, 0], 1, [1, 2]⟩ := rfl
example : ∃ buf log, fill [[0x62]] ⟨List.replicate 4 0, 3, []⟩ = .ok ⟨buf, 1, log⟩ ∧ buf.take 1 = [0] ∧ (∀ i ∈ log, 1 ≤ i) ∧
    fill [[0x62], [0x61]] ⟨List.replicate 4 0, 3, []⟩ = fill [[0x61]] ⟨buf, 1, log⟩ :=
  C01_hyp_block_start_written_with_last_word_only [[0x62]] (by simp) [0x61]
end SSVerif.HypBuf

/-! ### partial results -/

namespace SSVerif.HypBuf
open SSVerif.Hist SSVerif.Nfa

/-- **C01, composed down to the returned C string, any query (partial or final).**  Whenever `fsg_search_hyp` returns a
string, it is `" ".join` of the spellings of a word sequence that labels a path of the grammar as loaded leaving its start
state; the string occupies its allocation exactly. -/
theorem C01_returned_c_string_labels_path_of_loaded_grammar {g : Fsg} {h : Hist} {cur : Int}
    (wf : WFHist g h cur) (base : Nat → Nat) (str : Nat → Bytes) (hstr : ∀ w, ∀ b ∈ str w, b ≠ (0 : UInt8)) {G : Nfa}
    (hp : projB g.toNfa G (proj g base) = true) (final : Bool) :
    (hypRet (fun w => str (base w)) g h cur final).1 = .null ∨
    ∃ ws len buf c log, (∃ r, Reach G G.start ws r) ∧ (hypRet (fun w => str (base w)) g h cur final).1 = .ok len buf c log ∧
      buf.length = len ∧ cstr buf = join1 (ws.map str) ∧ (cstr buf).length + 1 = len := by
  obtain ⟨hn, hs⟩ := C01_hyp_string_of_word_list base str g h cur final
  cases hw : (hyp base g h cur final).1 with
  | none => exact .inl (hn hw)
  | some ws =>
    right
    obtain ⟨log, hb, _, hl, hc⟩ := hs ws hw
    have hacc := C01_partial_in_loaded_grammar wf base hp final ws hw
    have hnn : NoNul (ws.map str) := by
      intro w hw' b hb'
      obtain ⟨i, _, rfl⟩ := List.mem_map.1 hw'
      exact hstr i b hb'
    have hpos : 0 < lenSum (ws.map str) := lenSum_pos (by simpa using hyp_some_ne_nil base g h cur final ws hw)
    refine ⟨ws, _, _, _, log, hacc, hb, ?_, hc hnn, ?_⟩
    · simp [hl]; omega
    · rw [hc hnn, hl]; omega
end SSVerif.HypBuf
