import SSVerif.Model.MmioFds
/-!
# C17 — the descriptor ledger of the mapping routine

"A rejected load leaves the process as it was" includes the OS-level resources that no sanitizer sees: file
descriptors.  `C17_open_is_closed`: on EVERY exit of `mmio_file_read` (open fails, fstat fails, mmap fails — which is
what happens for every zero-length file —, success) the number of open descriptors is what it was before the call,
a mapping exists iff the routine returned one, and it has the length of the file.  The tie is the harness
(`fds=<before>:<after>` around every load attempt, `fdsend=` per child, both stages; zero-length files through the
mapping route for every mapped model file are part of the fault enumeration and their presence is an obligation).
-/
namespace SSVerif.S3file

/-- every open is closed on every exit of `mmio_file_read`; a mapping is left iff one is returned -/
theorem C17_open_is_closed (e : MmioEnv) (n : Nat) :
    fdsAfter (mmioRead e).1 n = some n ∧
    (mapsIn (mmioRead e).1 = if (mmioRead e).2 then 1 else 0) ∧
    ((mmioRead e).2 = true → (mmioRead e).1 = [.openFd, .map e.size, .closeFd] ∧ e.size ≠ 0) ∧
    (e.size = 0 → (mmioRead e).2 = false) := by
  unfold mmioRead
  cases ho : e.openOk <;> cases hs : e.statOk <;> cases hm : e.maps <;>
    simp [fdsAfter, mapsIn]
  all_goals
    first
      | (intro h0; simp [MmioEnv.maps, h0] at hm)
      | (refine ⟨?_, ?_⟩
         · intro h0; simp [MmioEnv.maps, h0] at hm
         · intro h0; simp [MmioEnv.maps, h0] at hm)
      | skip

/-- non-vacuity: the zero-length file, every kernel answer -/
example : (mmioRead ⟨true, true, 0, true⟩) = ([.openFd, .closeFd], false) := by decide
example : (mmioRead ⟨true, true, 4096, true⟩) = ([.openFd, .map 4096, .closeFd], true) := by decide
/-- the ledger is not trivially satisfied: an exit that forgets `close` is refused by it -/
example : fdsAfter [.openFd] 3 ≠ some 3 := by decide

end SSVerif.S3file
