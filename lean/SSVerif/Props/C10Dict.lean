import SSVerif.Proofs.DictLoad
/-!
# C10 ↔ C16 — what the dictionary text reader accepts IS a dictionary satisfying C16's invariant

Audit item B7 (second half).  `DictLoad.loadDict` (`Model/DictLoad.lean`) is `dict_init_s3file`
assembled from C10's byte-level tokeniser model (lines, comment test, words, copies — every buffer
read carries its bound proof) and C16's `dict_add_word` model (hash map, base-word lookup of
`word(n)` alternates, alt-chain linking, growth).  The theorems below hold for **all** byte strings
(main and filler file, present or absent), all phone sets and both case modes.

The check (`tools/props/c10.py`) runs the real `dict_init_s3file` under ASan/UBSan on every generated
dictionary text and diffs the resulting dictionary (every word in id order with phones, base id, alt
pointer, filler range, and `dict_wordid` of every word) and the counts of the refusal messages
against `loadDict` evaluated by the driver on the same bytes.
-/
namespace SSVerif.DictLoad
open SSVerif.HashTable (Key)
open SSVerif.Dict
open SSVerif.TextIn (Buf Span allLines lineWords slice isDictComment)

/-- **C10 feeds C16.** Whatever bytes `dict_init_s3file` is given as main and filler dictionary
(either may be absent), with any phone set and case mode: when it returns a dictionary, that
dictionary satisfies C16's invariant `WF` (hash map = index of the word table, base ids, one
duplicate-free alternate chain per base word), and keeps satisfying it after any later history of
run-time additions and lookups.  So every C16 theorem that assumes `WF d` applies to a dictionary
that came out of the text reader. -/
theorem C10_dict_feeds_C16 (m : Mdef) (nocase : Bool) (main fdict : Option Buf) {r : Loaded}
    (h : loadDict m nocase main fdict = .ok r) (ops : List Op) :
    WF r.dict ∧ WF (run m r.dict ops).1 := by
  obtain ⟨_, _, _, _, hf, _, _⟩ := loadDict_ok h
  have w := (finish_spec (wf_afterFiller (wf_afterMain m nocase main fdict) m fdict) hf).1
  exact ⟨w, wf_run w m ops⟩

/-- **Every intermediate state is well-formed, for all bytes.** Reading any byte string as a
dictionary file into any well-formed dictionary (the empty one for the main file, the non-empty one
for the filler pass) gives a well-formed dictionary — also when `dict_init_s3file` later refuses. -/
theorem C10_dict_read_preserves_wf {d : Dict} (h : WF d) (m : Mdef) (buf : Buf) :
    WF (loadFile m buf d).1 ∧ Ext d (loadFile m buf d).1 :=
  ⟨wf_loadLines h m buf _, ext_loadLines h m buf _⟩

/-- the two passes of `dict_init_s3file` on arbitrary bytes, before the final tests -/
theorem C10_dict_passes_wf (m : Mdef) (nocase : Bool) (main fdict : Option Buf) :
    WF (afterMain m nocase main fdict).1 ∧
    WF (afterFiller m fdict (afterMain m nocase main fdict).1).1 :=
  ⟨wf_afterMain m nocase main fdict, wf_afterFiller (wf_afterMain m nocase main fdict) m fdict⟩

/-- **Loaded words are found.** Every line the reader reports as loaded — in the main or in the
filler file — with word id `i`, spelling `w` and phone ids `p`: in the returned dictionary
`dict_wordid(w) = i`, entry `i` carries exactly `w` and `p`, `p` is non-empty and consists of phone
ids of the acoustic model.  (Later lines, the filler pass and the special words never disturb it.) -/
theorem C10_dict_loaded_found (m : Mdef) (nocase : Bool) (main fdict : Option Buf) {r : Loaded}
    (h : loadDict m nocase main fdict = .ok r) {i : Nat} {w : Key} {p : List Nat}
    (hl : LineRes.loaded i w p ∈ r.mainRep ++ r.fillerRep) :
    r.dict.wordid w = some i ∧ (∃ e, r.dict.words[i]? = some e ∧ e.word = w ∧ e.pron = p) ∧
    p ≠ [] ∧ (∀ x ∈ p, x < m.ciphones.length) ∧
    (LineRes.loaded i w p ∈ r.fillerRep → r.dict.fillerStart ≤ i) := by
  obtain ⟨_, _, _, _, hf, e1, e2⟩ := loadDict_ok h
  have w1 := wf_afterMain m nocase main fdict
  have w2 := wf_afterFiller w1 m fdict
  obtain ⟨_, x3, hfs, _⟩ := finish_spec w2 hf
  have x2 : Ext (afterMain m nocase main fdict).1 (afterFiller m fdict (afterMain m nocase main fdict).1).1 :=
    (Ext.of_eq rfl rfl rfl).trans
      (ext_loadOpt (d := { (afterMain m nocase main fdict).1 with
        fillerStart := (afterMain m nocase main fdict).1.words.length }) (wf_congr w1 rfl rfl rfl) m fdict)
  have hfill : LineRes.loaded i w p ∈ r.fillerRep →
      Found r.dict i w p ∧ p ≠ [] ∧ (∀ x ∈ p, x < m.ciphones.length) ∧ r.dict.fillerStart ≤ i := by
    intro hl
    rw [e2] at hl
    obtain ⟨a, b, c, dd⟩ := loadOpt_loaded (d := { (afterMain m nocase main fdict).1 with
        fillerStart := (afterMain m nocase main fdict).1.words.length }) (wf_congr w1 rfl rfl rfl) m fdict hl
    refine ⟨a.ext x3, b, c, ?_⟩
    rw [hfs]
    have : (afterFiller m fdict (afterMain m nocase main fdict).1).1.fillerStart
        = (afterMain m nocase main fdict).1.words.length := by
      unfold afterFiller
      cases fdict with
      | none => rfl
      | some buf =>
        have : ∀ (ls : List (Span buf.size)) (d : Dict), (loadLines m buf d ls).1.fillerStart = d.fillerStart := by
          intro ls
          induction ls with
          | nil => intro d; rfl
          | cons l ls ih =>
            intro d
            simp only [loadLines]
            rw [ih]
            rcases loadLineR_cases m buf d l with ⟨e, _⟩ | ⟨w, ids, _, _, e, _⟩
            · rw [e]
            · rw [e]; exact (dictAddWord_fields d w ids).2.1
        exact this _ _
    rw [this]; exact dd
  rcases List.mem_append.1 hl with hm | hm
  · rw [e1] at hm
    obtain ⟨a, b, c, _⟩ := loadOpt_loaded (wf_initial nocase main fdict) m main hm
    have f := (a.ext x2).ext x3
    exact ⟨f.1, f.2, b, c, fun hh => (hfill hh).2.2.2⟩
  · obtain ⟨f, b, c, dd⟩ := hfill hm
    exact ⟨f.1, f.2, b, c, fun _ => dd⟩

/-- **A refused line is a no-op.** A line that is not reported as loaded — comment, blank, word
without pronunciation, unknown phone, or `dict_add_word` refusing — leaves every field of the dictionary as it was (word table with alt
pointers, hash map, filler bookkeeping) except possibly the capacity `max_words`; and a refusal by
`dict_add_word` is reported with its true reason: "missing base word" exactly for a `b(...)` spelling
whose base `b` is unknown, otherwise the spelling is already in the dictionary (or empty). -/
theorem C10_dict_refused_is_noop {d : Dict} (h : WF d) (m : Mdef) (buf : Buf) (l : Span buf.size)
    (hl : (loadLineR m buf d l).2.isLoaded = false) :
    (loadLineR m buf d l).1 = { d with maxWords := (loadLineR m buf d l).1.maxWords } ∧
    (∀ w nb, (loadLineR m buf d l).2 = .refused w nb →
      (nb = true → ∃ b, word2basestr w = some b ∧ d.wordid b = none) ∧
      (nb = false → w = [] ∨ ∃ i, d.wordid w = some i)) := by
  rcases loadLineR_cases m buf d l with ⟨e, e2⟩ | ⟨w, ids, _, _, e, ⟨hn, e2⟩ | ⟨i, _, e2⟩⟩
  · rw [e]
    refine ⟨rfl, fun w nb hw => ?_⟩
    rcases e2 with e2 | e2 | e2 | e2 <;> (rw [e2] at hw; cases hw)
  · rw [e]
    refine ⟨((C16_reject_is_noop h w ids).2 hn).1, fun w' nb hw => ?_⟩
    rw [e2] at hw; cases hw
    constructor
    · intro hnb
      exact findBase_eq_none_iff.1 (by simpa using hnb)
    · intro hnb
      rcases (C16_reject_is_noop h w ids).1.1 hn with h0 | h1 | h2
      · exact Or.inl h0
      · exact Or.inr h1
      · rw [findBase_eq_none_iff.2 h2] at hnb; simp at hnb
  · rw [e2] at hl; cases hl

/-- **A loaded line appends exactly one entry.** It gets the next word id, the spelling was unknown
before, and lookup finds it with its phones at once. -/
theorem C10_dict_loaded_appends {d : Dict} (h : WF d) (m : Mdef) (buf : Buf) (l : Span buf.size)
    {i : Nat} {w : Key} {p : List Nat} (hl : (loadLineR m buf d l).2 = .loaded i w p) :
    i = d.words.length ∧ (loadLineR m buf d l).1.words.length = i + 1 ∧ d.wordid w = none ∧
    (loadLineR m buf d l).1.wordid w = some i ∧
    (∃ e, (loadLineR m buf d l).1.words[i]? = some e ∧ e.word = w ∧ e.pron = p) ∧
    Ext d (loadLineR m buf d l).1 := by
  obtain ⟨a1, a2, a3, _, _, a6⟩ := loadLineR_loaded h m buf l hl
  exact ⟨a1, a2, a6, a3.1, a3.2, ext_loadLineR h m buf l⟩

/-- **Alternates point to an existing base word.** In the returned dictionary every entry whose
spelling has the form `b(...)` has as base id the id under which `b` is registered; that word exists,
precedes the alternate, carries a spelling equal to `b` (up to the case mode), and when it is itself a
base word the alternate is on its alternate chain (which `C16_alt_chain` shows duplicate-free and
terminating). -/
theorem C10_dict_alt_has_base (m : Mdef) (nocase : Bool) (main fdict : Option Buf) {r : Loaded}
    (h : loadDict m nocase main fdict = .ok r) {j : Nat} {e : Entry} {b : Key}
    (he : r.dict.words[j]? = some e) (hb : word2basestr e.word = some b) :
    r.dict.wordid b = some e.basewid ∧ e.basewid < j ∧
    (∃ s, r.dict.basestr j = some s ∧ norm r.dict.nocase s = norm r.dict.nocase b) ∧
    (r.dict.isBase e.basewid = true → j ∈ r.dict.altChain e.basewid) :=
  C16_alt_basestr (C10_dict_feeds_C16 m nocase main fdict h []).1 he hb

/-- **Special words and filler range.** In the returned dictionary `<s>`, `</s>`, `<sil>` are
present with the ids stored in `startwid`/`finishwid`/`silwid`, none of them was in the main file,
the filler range `[filler_start, filler_end]` is non-empty, ends at the last word, and `<sil>` is a
filler word. -/
theorem C10_dict_special_words (m : Mdef) (nocase : Bool) (main fdict : Option Buf) {r : Loaded}
    (h : loadDict m nocase main fdict = .ok r) :
    r.dict.startwid = r.dict.wordid Generated.s3StartWord ∧
    r.dict.finishwid = r.dict.wordid Generated.s3FinishWord ∧
    r.dict.silwid = r.dict.wordid Generated.s3SilenceWord ∧
    r.dict.fillerEnd = r.dict.words.length - 1 ∧ r.dict.fillerStart ≤ r.dict.fillerEnd ∧
    (∃ s, r.dict.silwid = some s ∧ r.dict.isFiller s = true) ∧
    (afterMain m nocase main fdict).1.wordid Generated.s3SilenceWord = none := by
  obtain ⟨_, _, _, h3, hf, _, _⟩ := loadDict_ok h
  obtain ⟨_, _, _, a, b, c, d, e, f⟩ :=
    finish_spec (wf_afterFiller (wf_afterMain m nocase main fdict) m fdict) hf
  exact ⟨a, b, c, d, e, f, h3⟩

/-! ## non-vacuity: a concrete file with every kind of line -/

def exMdef : Mdef := { ciphones := ["AH", "B", "F", "SIL", "UW"].map (·.toUTF8.data.toList), sil := 3 }
def exMain : Buf := "##c\nfoo F UW\nbar\n\nbaz XX\nfoo(2) F AH\nfoo(2) F UW\nfoo(3) B\nqux(2) B\n#".toUTF8.data
def exFill : Buf := "<sil> SIL\n[noise] SIL\n".toUTF8.data
def kk (s : String) : Key := s.toUTF8.data.toList

def repOf (r : Except LoadErr Loaded) : List LineRes × List LineRes :=
  match r with | .ok r => (r.mainRep, r.fillerRep) | .error _ => ([], [])
def wordsOf (r : Except LoadErr Loaded) : List Entry :=
  match r with | .ok r => r.dict.words | .error _ => []
def errOf (r : Except LoadErr Loaded) : Option LoadErr :=
  match r with | .ok _ => none | .error e => some e

-- comment, loaded, no pronunciation, blank, unknown phone, alternate, duplicate alternate, second
-- alternate, alternate without base word, `#` as last byte
example : repOf (loadDict exMdef false (some exMain) (some exFill)) =
    ([.comment, .loaded 0 (kk "foo") [2, 4], .noPron, .blank, .badPhone, .loaded 1 (kk "foo(2)") [2, 0],
      .refused (kk "foo(2)") false, .loaded 2 (kk "foo(3)") [1], .refused (kk "qux(2)") true, .noPron],
     [.loaded 3 (kk "<sil>") [3], .loaded 4 (kk "[noise]") [3]]) := by decide +kernel

-- the alternates hang on `foo`: foo → foo(3) → foo(2); `<s>` and `</s>` are appended at the end
example : (wordsOf (loadDict exMdef false (some exMain) (some exFill))).map (fun e => (e.basewid, e.alt)) =
    [(0, some 2), (0, none), (0, some 1), (3, none), (4, none), (5, none), (6, none)] := by decide +kernel

example : errOf (loadDict exMdef false (some "foo F UW\n<sil> SIL\n".toUTF8.data) none) = some .silInMain := by
  decide +kernel

end SSVerif.DictLoad
