import SSVerif.Props.C03
/-!
# C03 — where the segmentation ends

`SegsTile F ss` (Props/C03.lean) constrains a *prefix* of the utterance: word/filler segments are contiguous from
frame 0 and every end frame is `< F`; it does not say that the last segment reaches frame `F − 1`
(`segsTileB 12 [⟨0,0,4,…⟩] = true`).  That is deliberate, because the code does not guarantee it:
`fsg_search_find_exit` (fsg_search.c:858-928) is called with `frame_idx = fsgs->frame`, scans the history table
backwards for the last entry with `frame ≤ frame_idx` — the last entry of the table — and chooses the best exit **in
that entry's frame**, for partial and for final results alike.  When no word exit (or null transition) was recorded in
the last frames searched — all paths were pruned, or the last word's exit did not survive the word beam — the result,
final or not, ends earlier.  Measured on the real decoder by the C03 check (`evidence/C03.json`,
`end_of_the_last_segment_vs_last_frame_searched`): e.g. grammar `public <top> = [ go ];` with beams 1e-6/1e-6/1e-3,
50 frames searched, FINAL result: last segment ends at frame 45.

What is proved is therefore the exact position of the end: the end of the last word/filler segment is the frame of
the last entry of the history table.
-/
namespace SSVerif.Hist

variable {g : Fsg} {h : Hist} {cur : Int}

/-- the exit `find_exit` chooses for `hyp` / `seg_iter` lies in the frame of the last entry of the table -/
theorem findExit_frame (wf : WFHist g h cur) {final : Bool} (hpos : 0 < (findExit g h cur cur final).bp) :
    ∃ j : Nat, (findExit g h cur cur final).bp = (j : Int) ∧ j < h.size ∧
      (ent h j).frame = (ent h (h.size - 1)).frame := by
  have hcur : 0 ≤ cur := by have := wf.below 0 wf.nonempty; rw [wf.root.2.1] at this; omega
  have hf : (if cur = -1 then cur - 1 else cur) = cur := by rw [if_neg (by omega)]
  rw [findExit_eq] at hpos ⊢
  rw [hf] at hpos ⊢
  have hne : ¬ h.size = 0 := by have := wf.nonempty; omega
  -- the backward scan stops at once: every entry lies below `cur`
  have hk : scanBack h cur (h.size - 1) = h.size - 1 := by
    cases hm : h.size - 1 with
    | zero => rfl
    | succ m =>
      apply scanBack_hit
      have := wf.below (m + 1) (by omega)
      omega
  rw [hk] at hpos ⊢
  have hg := exitLoop_good (g := g) (h := h) (final := final) (lastFrm := (ent h (h.size - 1)).frame) (top := h.size - 1)
    (h.size - 1) ⟨intMin, -1⟩ (Nat.le_refl _) (Or.inl rfl)
  generalize exitLoop g h final (ent h (h.size - 1)).frame (h.size - 1) ⟨intMin, -1⟩ = b at hpos hg ⊢
  by_cases h2 : h.size - 1 = 0
  · simp [hne, h2] at hpos
  · by_cases h3 : b.hist = -1
    · simp [hne, h2, h3] at hpos
    · simp only [hne, h2, h3, if_false] at hpos ⊢
      rcases hg with hg | ⟨j, hj, hjle, hfr, _⟩
      · exact absurd hg h3
      · exact ⟨j, hj, by omega, hfr⟩

/-- **C03: where the segmentation ends.**  For every result (partial or final) of a well-formed history table: the
end of the last word/filler segment (`tileEnd (-1) ss`; −1 when the result consists of markers only) is the frame of
the **last entry of the history table** — the last frame in which a word exit or null transition was recorded — and
that frame is `< cur`, the number of frames searched.  So the segmentation reaches the last frame searched exactly
when the table has an entry in that frame; nothing in `fsg_search_find_exit` forces this, for final results either
(see the module comment for a measured witness on the real decoder). -/
theorem C03_segmentation_ends_at_last_exit_frame (wf : WFHist g h cur) (shift : Nat) (final : Bool) {ss : List Seg}
    (hs : segs shift g h cur final = some ss) :
    tileEnd (-1) ss = (ent h (h.size - 1)).frame ∧ (ent h (h.size - 1)).frame < cur ∧
    (tileEnd (-1) ss = cur - 1 ↔ (ent h (h.size - 1)).frame = cur - 1) := by
  obtain ⟨hx, rfl⟩ := segs_some hs
  obtain ⟨j, hj, hlt, hfr⟩ := findExit_frame wf hx
  have hb := wf.below (h.size - 1) (by have := wf.nonempty; omega)
  have ht := (isChain_tile wf shift (chain_isChain wf hlt) hlt).2
  have he : tileEnd (-1) (segsAt shift g h (findExit g h cur cur final).bp) = (ent h (h.size - 1)).frame := by
    rw [hj, ← hfr]; exact ht
  exact ⟨he, hb, by rw [he]⟩

/-- every word/filler segment ends at or before the frame of the last table entry -/
theorem tileEnd_ge : ∀ (l : List Seg) (p F : Int), tileFrom F p l → p ≤ tileEnd p l ∧
    ∀ s ∈ l, ¬ s.wid < 0 → s.ef ≤ tileEnd p l := by
  intro l
  induction l with
  | nil => intro p F _; exact ⟨Int.le_refl _, fun s hs => by cases hs⟩
  | cons a rest ih =>
    intro p F ht
    unfold tileFrom at ht
    unfold tileEnd
    by_cases ha : a.wid < 0
    · simp only [ha, if_true] at ht ⊢
      obtain ⟨i1, i2⟩ := ih p F ht.2
      refine ⟨i1, fun s hs hw => ?_⟩
      rcases List.mem_cons.1 hs with h1 | h1
      · subst h1; exact absurd ha hw
      · exact i2 s h1 hw
    · simp only [ha, if_false] at ht ⊢
      obtain ⟨i1, i2⟩ := ih a.ef F ht.2
      refine ⟨by omega, fun s hs hw => ?_⟩
      rcases List.mem_cons.1 hs with h1 | h1
      · subst h1; exact i1
      · exact i2 s h1 hw

/-- consequence in terms of the segments themselves: no word/filler segment ends after the frame of the last table
entry, and (when there is a word/filler segment at all) one ends exactly there -/
theorem C03_word_segments_end_by_last_exit_frame (wf : WFHist g h cur) (shift : Nat) (final : Bool) {ss : List Seg}
    (hs : segs shift g h cur final = some ss) :
    ∀ s ∈ ss, ¬ s.wid < 0 → s.ef ≤ (ent h (h.size - 1)).frame := by
  obtain ⟨he, _, _⟩ := C03_segmentation_ends_at_last_exit_frame wf shift final hs
  have ht := C03_segs_tile wf shift final hs
  intro s hm hw
  have := (tileEnd_ge ss (-1) cur ht).2 s hm hw
  omega

/-! ### non-vacuity: a well-formed table whose FINAL result ends 8 frames before the last frame searched -/

/-- the example table of Props/C03.lean (last entry in frame 11) after 20 frames searched: well-formed, the final
result exists, passes the tiling checker for 20 frames, and ends at frame 11, not 19 -/
example : wfHistB exG3 exH3 20 = true ∧ segsTileB 20 ((segs 10 exG3 exH3 20 true).getD []) = true ∧
    tileEnd (-1) ((segs 10 exG3 exH3 20 true).getD []) = 11 ∧ (ent exH3 (exH3.size - 1)).frame = 11 := by decide

/-- with 12 frames searched the same result reaches the last frame -/
example : tileEnd (-1) ((segs 10 exG3 exH3 12 true).getD []) = 12 - 1 := by decide

end SSVerif.Hist
