import SSVerif.Proofs.FsgFile
import SSVerif.Proofs.FsgBest
import SSVerif.Proofs.FsgRead
/-!
# C13 — Grammar transformations and FSG files preserve the grammar

Property theorems only (model: `SSVerif/Model/Fsg.lean`, mirroring `src/fsg_model.c` and
`src/fsg_search.c:83-169`).

* `F` says which word ids are fillers, `B` maps a word id to the id of its base word; both are
  arbitrary functions — in the decoder they come from the dictionary.
* `acceptsReal F B g rs`: `g` accepts some word sequence whose projection (drop fillers, map
  alternates to base words) is `rs`.  `IsBestReal F B g rs v`: `v` is the highest log-probability
  of an accepting path whose labels project to `rs`.
* `NullWF g` is the invariant of the C representation of null transitions (log-probability `≤ 0`
  — otherwise `E_FATAL` —, no self-loop, one link per pair of states); every grammar built through
  the API has it (`C13_nullWF_api`).  Nothing else is assumed: any number of states, null chains
  and cycles, duplicate word arcs, word self-loops, unreachable states, states outside the range.
-/
namespace SSVerif.Fsg

/-! ## null-transition closure

The closure adds two log-probabilities in 64 bits and saturates the sum at the grammar's log-zero
`g.logZero` (`logmath_get_zero`, `-2^29`; fix D51).  `ClosureWF g`: `NullWF g`, no null link below
`g.logZero`, `g.logZero ≤ 0`.  `NoSat z g`: no *simple* null path of `g` weighs less than `z` —
then saturation never touches a link that matters; a decidable sufficient condition is that all
null log-probabilities together sum to at least `z` (`C13_noSat_of_total`). -/

/-- **Closure preserves the language.**  For every grammar whatsoever (and every saturation
point) the closed grammar accepts exactly the same word sequences, also over real words; this
holds after any number of passes of the loop. -/
theorem C13_closure_preserves_lang (g : Fsg) (ws : List Nat) : accepts (closure g) ws ↔ accepts g ws :=
  (closure_lext g).accepts_iff ws

/-- the same over real words (fillers dropped, alternates mapped to base words) -/
theorem C13_closure_preserves_real (F : Nat → Bool) (B : Nat → Nat) (g : Fsg) (rs : List Nat) :
    acceptsReal F B (closure g) rs ↔ acceptsReal F B g rs := by
  rw [acceptsReal_iff_project, acceptsReal_iff_project]
  exact ((closure_lext g).project F B).accepts_iff rs

/-- **Closure preserves the best probability** of every word sequence (and of every real-word
sequence), provided no simple null path is below log-zero.  Without that proviso the closure can
only raise a best probability, and only by replacing a null path less probable than log-zero
(probability zero for `logmath`) by a link at log-zero. -/
theorem C13_closure_preserves_best (g : Fsg) (h : ClosureWF g) (hn : NoSat g.logZero g) :
    (∀ ws v, IsBest (closure g) ws v ↔ IsBest g ws v) ∧
    (∀ F B rs v, IsBestReal F B (closure g) rs v ↔ IsBestReal F B g rs v) := by
  have e := closure_ext h hn
  exact ⟨fun ws v => e.isBest_iff ws v,
         fun F B rs v => by rw [isBestReal_iff_project, isBestReal_iff_project]; exact (e.project F B).isBest_iff rs v⟩

/-- unconditionally the closure never lowers anything: every path of `g` has a path of `closure g`
on the same words that is at least as probable -/
theorem C13_closure_never_lowers (g : Fsg) (ws : List Nat) (v : Int) (r : Run g g.start ws v g.final) :
    ∃ v', v ≤ v' ∧ Run (closure g) (closure g).start ws v' (closure g).final := by
  have l := closure_lext g
  rw [l.start, l.final]
  exact r.dom l.dom

/-- `NoSat` holds when the null log-probabilities of the grammar sum to at least `z` -/
theorem C13_noSat_of_total (z : Int) (g : Fsg) (h0 : NullLe0 g) (hz : z ≤ ((nullLinks g).map (·.logp)).sum) :
    NoSat z g :=
  noSat_of_total h0 hz

/-- **The closure loop terminates**: the `do … while (updated)` loop of
`fsg_model_null_trans_closure` makes at most `closureFuel g` = (number of null links) + 1 passes —
the model's fuel is never exhausted — and what it returns is a fixpoint (`NullClosed`: relaxing
any two consecutive null links, with saturation, changes nothing), whatever the chains and cycles,
saturating or not. -/
theorem C13_closure_terminates (g : Fsg) (h : ClosureWF g) :
    (closureRun g).2.2 = true ∧ NullClosed (closure g) ∧ ClosureWF (closure g) :=
  ⟨(closureRun_converges h).1, closure_closed h, closureWF_closure h⟩

/-- **Closing twice changes nothing further**, and more generally a closed grammar is returned as
it is (same links in the same order, same everything). -/
theorem C13_closure_idempotent (g : Fsg) (h : ClosureWF g) :
    closure (closure g) = closure g ∧ ∀ g', NullClosed g' → closure g' = g' :=
  ⟨closure_idem h, fun _ hc => closure_of_closed hc⟩

/-- **What the closure computes, independently of the iteration order.**  The closed grammar has
a null link `a → c` with log-probability `v` exactly when `a ≠ c`, a null path from `a` to `c`
exists in the input and `v` is the best weight of such a path floored at log-zero
(`IsSatBestNull`, which determines `v`: `C13_satBest_unique`); its non-null links and all other
fields are the input's.  Under `NoSat` the floor plays no role and `v` is the best weight itself.
(The C code iterates hash tables in an order the model does not reproduce; by this theorem the
result is the same set of arcs for every order.) -/
theorem C13_closure_unique (g : Fsg) (h : ClosureWF g) :
    (∀ a c v, nullLookup (closure g) a c = some v ↔ a ≠ c ∧ IsSatBestNull g.logZero g a c v) ∧
    (NoSat g.logZero g → ∀ a c v, nullLookup (closure g) a c = some v ↔ a ≠ c ∧ IsBestNull g a c v) ∧
    (nullKeys (closure g)).Nodup ∧ SameButNulls g (closure g) :=
  ⟨closure_lookup_iff h, fun hn => closure_lookup_iff_noSat h hn, (nullWF_closure h).uniq, closure_same g⟩

theorem C13_satBest_unique (z : Int) (g : Fsg) (a c : Nat) (v v' : Int)
    (h : IsSatBestNull z g a c v) (h' : IsSatBestNull z g a c v') : v = v' := h.unique h'

/-! ## silence / filler self-loops and alternates -/

/-- **Adding silence / filler self-loops preserves the real-word language and its best
probabilities.**  `word` is a filler (`F` of its id), its log-probability is `≤ 0` (a probability
`≤ 1`: the configured filler penalty is never part of a best path).  One state or all states,
whether or not the word or such loops already exist. -/
theorem C13_addSilence_preserves_real (F : Nat → Bool) (B : Nat → Nat) (g : Fsg) (word : String)
    (state : Option Nat) (lp : Int) (hF : F (wordAdd g word).2 = true) (hlp : lp ≤ 0) (rs : List Nat) :
    (acceptsReal F B (addSilence g word state lp).1 rs ↔ acceptsReal F B g rs) ∧
    ∀ v, IsBestReal F B (addSilence g word state lp).1 rs v ↔ IsBestReal F B g rs v := by
  have e := addSilence_ext_project (F := F) (B := B) g word state lp hF hlp
  exact ⟨by rw [acceptsReal_iff_project, acceptsReal_iff_project]; exact e.accepts_iff rs,
         fun v => by rw [isBestReal_iff_project, isBestReal_iff_project]; exact e.isBest_iff rs v⟩

/-- **Adding silence twice changes nothing further**: the second call returns the very same
grammar (links, vocabulary, filler bits). -/
theorem C13_addSilence_idempotent (g : Fsg) (word : String) (state : Option Nat) (lp : Int) :
    (addSilence (addSilence g word state lp).1 word state lp).1 = (addSilence g word state lp).1 :=
  addSilence_idem g word state lp

/-- **Adding alternate-pronunciation arcs preserves the language over base words and its best
probabilities**, when the alternate has the same base word and filler status as the word it is an
alternate of (when the base word is not in the vocabulary nothing is added). -/
theorem C13_addAlt_preserves_base (F : Nat → Bool) (B : Nat → Nat) (g : Fsg) (base altw : String)
    (h : ∀ bw, wordId g base = some bw → F (wordAdd g altw).2 = F bw ∧ B (wordAdd g altw).2 = B bw)
    (rs : List Nat) :
    (acceptsReal F B (addAlt g base altw).1 rs ↔ acceptsReal F B g rs) ∧
    ∀ v, IsBestReal F B (addAlt g base altw).1 rs v ↔ IsBestReal F B g rs v := by
  have e := addAlt_ext_project (F := F) (B := B) g base altw h
  exact ⟨by rw [acceptsReal_iff_project, acceptsReal_iff_project]; exact e.accepts_iff rs,
         fun v => by rw [isBestReal_iff_project, isBestReal_iff_project]; exact e.isBest_iff rs v⟩

/-- every operation of the API keeps the invariants `NullWF` and `NullGe z` (no null link below
`z`), and the empty grammar has them -/
theorem C13_nullWF_api (z : Int) :
    (∀ name n s f z', NullWF (Fsg.init name n s f z') ∧ NullGe z (Fsg.init name n s f z')) ∧
    (∀ g a c lp w, NullWF g → NullWF (transAdd g a c lp w)) ∧ (∀ g a c lp w, NullGe z g → NullGe z (transAdd g a c lp w)) ∧
    (∀ g a c lp, NullWF g → lp ≤ 0 → NullWF (nullAdd g a c lp).1) ∧
    (∀ g a c lp, NullGe z g → z ≤ lp → NullGe z (nullAdd g a c lp).1) ∧
    (∀ g, ClosureWF g → ClosureWF (closure g)) ∧
    (∀ g word st lp, NullWF g → NullWF (addSilence g word st lp).1) ∧
    (∀ g word st lp, NullGe z g → NullGe z (addSilence g word st lp).1) ∧
    (∀ g b a, NullWF g → NullWF (addAlt g b a).1) ∧ (∀ g b a, NullGe z g → NullGe z (addAlt g b a).1) :=
  ⟨fun name n s f z' => ⟨nullWF_init name n s f z', fun _ h => (by cases h)⟩,
   fun _ a c lp w h => nullWF_transAdd h a c lp w, fun _ a c lp w h => nullGe_transAdd h a c lp w,
   fun _ a c _ h hl => nullWF_nullAdd h a c hl, fun _ a c _ h hl => nullGe_nullAdd h a c hl,
   fun _ h => closureWF_closure h, fun _ w st lp h => nullWF_addSilence h w st lp,
   fun _ w st lp h => nullGe_addSilence h w st lp, fun _ b a h => nullWF_addAlt h b a, fun _ b a h => nullGe_addAlt h b a⟩

/-! ## FSG text files -/

/-- **Write → read round trip (token level).**  `C` holds libc's four conversions; assumed of them
(`CodecLaw`): the state numbers that occur survive `%d`/`strtol`, and the probability of every arc
is accepted on read-back, coming back as `q logp` (`q = parseP ∘ printP`: "equal to the printed
precision").  For a grammar whose states are in range and whose words are non-empty tokens
(`FileWF`), reading what was written succeeds and yields `closure g'` where `g'` has the same
number of states, start and final state, and the same labelled arcs — labels compared as word
strings, word ids are renumbered in order of appearance —: every arc of `g'` is an arc of `g`
with probability `q logp`, every arc of `g` (from a state in range, null self-loops excepted) is
in `g'` with probability `q logp` or, when `g` had several arcs with that label between the same
states, the highest of them.  The closure the reader applies does not change language or best
probabilities beyond what `C13_closure_preserves_lang` / `_best` state. -/
theorem C13_write_read_roundtrip (C : Codec) (q : Int → Int) (g : Fsg) (law : CodecLaw C q g) (wf : FileWF g) :
    ∃ g', read C (write C g) = .ok (closure g') ∧
      g'.nState = g.nState ∧ g'.start = g.start ∧ g'.final = g.final ∧
      (∀ l' ∈ g'.links, ∃ l ∈ g.links, l.src = l'.src ∧ l.dst = l'.dst ∧ lbl g l = lbl g' l' ∧ l'.logp = q l.logp) ∧
      (∀ l ∈ g.links, l.src < g.nState → (l.wid = none → l.src ≠ l.dst) →
        ∃ l' ∈ g'.links, l'.src = l.src ∧ l'.dst = l.dst ∧ lbl g' l' = lbl g l ∧ q l.logp ≤ l'.logp) := by
  refine ⟨rebuild q g, read_write law wf, (rebuild_fields q g).1, (rebuild_fields q g).2.1, (rebuild_fields q g).2.2,
    (rebuild_inv q g).back, fun l hl hs hc => ?_⟩
  exact (rebuild_inv q g).fwd l (by rw [List.mem_reverse]; exact mem_written.2 ⟨hl, hs⟩) hc

/-- **A closed grammar is read back closed**: when the probabilities survive exactly (`q` is the
identity on the arcs of `g`), `g` is well-formed and null-closed, the reader's closure adds
nothing — the grammar read is exactly the `g'` of `C13_write_read_roundtrip`, with the same null
links as `g`. -/
theorem C13_write_read_closed (C : Codec) (q : Int → Int) (g : Fsg) (law : CodecLaw C q g) (wf : FileWF g)
    (hwf : NullWF g) (hc : NullClosed g) (hsrc : ∀ l ∈ g.links, l.src < g.nState)
    (hq : ∀ l ∈ g.links, q l.logp = l.logp) :
    read C (write C g) = .ok (rebuild q g) ∧ ∀ a c, nullLookup (rebuild q g) a c = nullLookup g a c := by
  refine ⟨?_, rebuild_lookup hwf hsrc hq⟩
  rw [read_write law wf, closure_of_closed (rebuild_closed hwf hc hsrc hq)]

/-- **Every token file is either refused or read into a well-formed grammar.**  `read` is total
(13 error kinds: missing/malformed `FSG_BEGIN`, `NUM_STATES`, `START_STATE`, `FINAL_STATE`,
from/to state, probability).  When it returns a grammar: start, final state and both ends of every
arc — also of the null links the reader's closure added — are inside `0 … nState-1`, word ids are
inside the vocabulary, the vocabulary has no duplicate, no filler/alternate bit is set, log-zero is
the reader's; and when the probability parser only yields values in `[log-zero, 0]` (`ReadLaw`,
observed on every token the harness parses) the null links are well-formed and closed.  Keywords
may be abbreviated: a token matches a keyword iff it is a prefix of it (`strncmp` over the token's
length), so `T`, `TRANS`, `N`, `S`, `F`, `FSG_E` … are accepted as the C reader accepts them. -/
theorem C13_read_wf (C : Codec) (lines : List (List String)) :
    (∃ err, read C lines = .error err) ∨
    (∃ g, read C lines = .ok g ∧ g.start < g.nState ∧ g.final < g.nState ∧ InRange g ∧ VocOK g ∧ g.vocab.Nodup ∧
      g.logZero = C.zero ∧ g.sil = [] ∧ g.alt = [] ∧ (ReadLaw C → ClosureWF g ∧ NullClosed g)) := by
  cases h : read C lines with
  | error err => exact .inl ⟨err, rfl⟩
  | ok g => exact .inr ⟨g, rfl, read_wf h⟩

theorem C13_kwMatch_iff (tok kw : String) : kwMatch tok kw = true ↔ tok.toList <+: kw.toList := kwMatch_iff tok kw

/-- `fsg_model_word_add`: the returned id names the word, it is inside the (possibly grown)
vocabulary, the old vocabulary is a prefix of the new one (ids are stable), links and states are
untouched, and a second call returns the same id without growing anything -/
theorem C13_wordAdd_spec (g : Fsg) (s : String) :
    wordStr (wordAdd g s).1 (wordAdd g s).2 = s ∧ (wordAdd g s).2 < (wordAdd g s).1.vocab.length ∧
    (∃ ext, (wordAdd g s).1.vocab = g.vocab ++ ext) ∧ (wordAdd g s).1.links = g.links ∧
    wordAdd (wordAdd g s).1 s = ((wordAdd g s).1, (wordAdd g s).2) := by
  obtain ⟨a, b, c, d, _⟩ := wordAdd_spec g s
  refine ⟨a, b, c, d, ?_⟩
  have := wordId_wordAdd g s
  unfold wordAdd at this ⊢
  cases h : wordId g s with
  | some i => simp only [h] at this ⊢
  | none => simp only [h] at this ⊢; rw [this]

/-- `fsg_model_arcs` / the writer's order: the arcs of state `i` are its word arcs followed by its
null arcs, and together they are exactly the links leaving `i` -/
theorem C13_arcsOf_spec (g : Fsg) (i : Nat) :
    (∃ ws ns, arcsOf g i = ws ++ ns ∧ (∀ l ∈ ws, l.wid ≠ none) ∧ (∀ l ∈ ns, l.wid = none)) ∧
    (∀ l, l ∈ arcsOf g i ↔ l ∈ g.links ∧ l.src = i) := by
  refine ⟨⟨_, _, rfl, fun l hl => ?_, fun l hl => ?_⟩, fun l => ?_⟩
  · have := (List.mem_filter.1 hl).2
    simp [Link.isNull] at this
    intro e; rw [e] at this; simp at this
  · have := (List.mem_filter.1 hl).2
    simp [Link.isNull, Option.isNone_iff_eq_none] at this
    exact this.1
  · unfold arcsOf
    simp only [List.mem_append, List.mem_filter]
    constructor
    · rintro (⟨h, c⟩ | ⟨h, c⟩)
      · exact ⟨h, by simp at c; exact c.2⟩
      · exact ⟨h, by simp at c; exact c.2⟩
    · rintro ⟨h, rfl⟩
      by_cases hn : l.isNull = true
      · exact .inr ⟨h, by simp [hn]⟩
      · exact .inl ⟨h, by simp [hn]⟩

/-- the grammar's language is the language of the ε-NFA handed to the verified equivalence oracle
(`SSVerif.Nfa.nfaEquiv_sound`), also after projection to real words -/
theorem C13_accepts_iff_nfa (F : Nat → Bool) (B : Nat → Nat) (g : Fsg) (ws : List Nat) :
    (accepts g ws ↔ SSVerif.Nfa.Accepts g.toNfa ws) ∧
    (acceptsReal F B g ws ↔ SSVerif.Nfa.Accepts (project F B g).toNfa ws) :=
  ⟨accepts_iff_nfa g ws, by rw [acceptsReal_iff_project]; exact accepts_iff_nfa _ ws⟩

/-! ## the executable best-path oracle -/

/-- **The executable best-path function the driver runs is exact**, for every grammar: when
`bestLogProb?` answers (`some r`), `r` is the best log-probability of an accepting path for `ws`
(`some v ↔ IsBest g ws v`) or says that `ws` is not accepted (`none ↔ ¬ accepts g ws`).  So the
best-probability comparison between what the C code returned before and after a transformation
is decided by a verified function. -/
theorem C13_bestLogProb_sound (g : Fsg) (ws : List Nat) (r : Option Int) (h : bestLogProb? g ws = some r) :
    (∀ v, r = some v ↔ IsBest g ws v) ∧ (r = none ↔ ¬ accepts g ws) :=
  bestLogProb_sound g ws r h

/-- … and it always answers when null log-probabilities are `≤ 0` (null cycles included): the
fixpoint of each closure is reached within the fuel `closeFuel g` -/
theorem C13_bestLogProb_total (g : Fsg) (h0 : NullLe0 g) (ws : List Nat) : ∃ r, bestLogProb? g ws = some r :=
  bestLogProb_total g h0 ws

/-- both: `bestLogProb g ws = some v ↔ IsBest g ws v` and `= none ↔ ¬ accepts g ws` -/
theorem C13_bestLogProb_iff (g : Fsg) (h0 : NullLe0 g) (ws : List Nat) :
    (∀ v, bestLogProb g ws = some v ↔ IsBest g ws v) ∧ (bestLogProb g ws = none ↔ ¬ accepts g ws) :=
  bestLogProb_iff g h0 ws

/-! ## non-vacuity: concrete grammars meeting the hypotheses -/

/-- 4 states; null chain 0 → 1 → 2 closed into a cycle by 2 → 0, a null shortcut 0 → 2 worse than
the chain, words 0 (`go`) and 1 (`stop`), a duplicate-label arc, a word self-loop, state 3
unreachable by nulls -/
def ex1 : Fsg :=
  { nState := 4, start := 0, final := 3, vocab := ["go", "stop"],
    links := [⟨2, 3, -7, some 0⟩, ⟨2, 2, -1, some 1⟩, ⟨0, 2, -9, none⟩, ⟨2, 0, -1, none⟩, ⟨1, 2, -3, none⟩,
              ⟨0, 1, -2, none⟩] }

private theorem ex1_wf : ClosureWF ex1 := ⟨⟨by unfold NullLe0; decide, by decide, by decide⟩, by unfold NullGe; decide, by decide⟩

-- nothing saturates in ex1: its null log-probabilities sum to -15 ≥ -2^29
private theorem ex1_noSat : NoSat ex1.logZero ex1 := C13_noSat_of_total _ ex1 (by unfold NullLe0; decide) (by decide)

-- the closure raises 0 → 2 from -9 to -5 (through 1) and adds 1 → 0, 2 → 1 in two passes + a quiet one
example : closureRun ex1 =
    ({ ex1 with links := [⟨1, 0, -4, none⟩, ⟨2, 1, -3, none⟩, ⟨2, 3, -7, some 0⟩, ⟨2, 2, -1, some 1⟩, ⟨0, 2, -5, none⟩,
                          ⟨2, 0, -1, none⟩, ⟨1, 2, -3, none⟩, ⟨0, 1, -2, none⟩] },
     [(1, 0), (2, 1), (0, 2), (2, 0), (1, 2), (0, 1)], true) := by decide

/-- saturation (D51): with log-zero at -10 the chain 0 → 1 → 2 of weight -12 becomes a link at -10 -/
def ex2 : Fsg :=
  { nState := 3, start := 0, final := 2, logZero := -10, links := [⟨1, 2, -6, none⟩, ⟨0, 1, -6, none⟩] }

example : ClosureWF ex2 := ⟨⟨by unfold NullLe0; decide, by decide, by decide⟩, by unfold NullGe; decide, by decide⟩
example : (closure ex2).links = [⟨0, 2, -10, none⟩, ⟨1, 2, -6, none⟩, ⟨0, 1, -6, none⟩] := by decide
-- ... which the uniqueness theorem describes: -10 is the best weight (-12) floored at -10
example : nullLookup (closure ex2) 0 2 = some (-10) := by decide

-- "stop go" is accepted with best log-probability -5 + -1 + -7 after the closure, -2 + -3 + -1 + -7 before
example : IsBest ex1 [1, 0] (-13) ↔ IsBest (closure ex1) [1, 0] (-13) := ((C13_closure_preserves_best ex1 ex1_wf ex1_noSat).1 [1, 0] (-13)).symm

-- the executable oracle on ex1 (null cycle 0 → 1 → 2 → 0): -13 for "stop go", rejection of "go stop"
example : bestLogProb? ex1 [1, 0] = some (some (-13)) ∧ bestLogProb? ex1 [0, 1] = some none ∧
    bestLogProb? (closure ex1) [1, 0] = some (some (-13)) := by decide

example : IsBest ex1 [1, 0] (-13) := ((C13_bestLogProb_sound ex1 [1, 0] _ (by decide)).1 (-13)).1 rfl

example : accepts ex1 [1, 0] :=
  ⟨_, .eps (l := ⟨0, 1, -2, none⟩) (by decide) rfl (.eps (l := ⟨1, 2, -3, none⟩) (by decide) rfl
    (.sym (l := ⟨2, 2, -1, some 1⟩) (by decide) rfl (.sym (l := ⟨2, 3, -7, some 0⟩) (by decide) rfl .nil)))⟩

-- silence: word 2 = "<sil>" is new, a filler; every state gets a loop; the second call is the identity
example : (addSilence ex1 "<sil>" none (-52985)).1.links.length = 10 ∧ (wordAdd ex1 "<sil>").2 = 2 ∧
    (addSilence (addSilence ex1 "<sil>" none (-52985)).1 "<sil>" none (-52985)).1 = (addSilence ex1 "<sil>" none (-52985)).1 := by
  decide

example (rs : List Nat) : acceptsReal (· == 2) id (addSilence ex1 "<sil>" none (-52985)).1 rs ↔ acceptsReal (· == 2) id ex1 rs :=
  (C13_addSilence_preserves_real (· == 2) id ex1 "<sil>" none (-52985) (by decide) (by decide) rs).1

-- alternates: "go(2)" becomes word 2 with base 0; the arc 2 → 3 is copied
example : (addAlt ex1 "go" "go(2)").2 = 1 ∧ (addAlt ex1 "nosuchword" "x(2)").2 = -1 ∧
    (addAlt ex1 "go" "go(2)").1.links.head? = some ⟨2, 3, -7, some 2⟩ := by decide

example (rs : List Nat) :
    acceptsReal (fun _ => false) (fun w => if w = 2 then 0 else w) (addAlt ex1 "go" "go(2)").1 rs ↔
    acceptsReal (fun _ => false) (fun w => if w = 2 then 0 else w) ex1 rs :=
  (C13_addAlt_preserves_base _ _ ex1 "go" "go(2)" (by decide) rs).1

/-- a codec with decidable laws for the examples: decimal integers; a probability is printed as
the log-probability itself -/
def exParseInt (s : String) : Option Int :=
  let cs := s.toList
  let neg := cs.head? == some '-'
  let ds := if neg then cs.drop 1 else cs
  if ds.isEmpty || !ds.all Char.isDigit then none else
  let n : Nat := ds.foldl (fun a c => 10 * a + (c.toNat - '0'.toNat)) 0
  some (if neg then -(n : Int) else n)

def exCodec : Codec := { showN := toString, parseN := exParseInt, printP := toString, parseP := exParseInt }

example : CodecLaw exCodec id ex1 ∧ FileWF ex1 :=
  ⟨⟨by decide, by decide, by decide⟩, ⟨by decide, by decide, by decide, by decide⟩⟩

-- the file of ex1 and what is read back (closed, since ex1 is not): 6 arcs written, 8 after the reader's closure
example : (write exCodec ex1).length = 11 ∧
    (read exCodec (write exCodec ex1)).toOption.map (fun g => (g.nState, g.start, g.final, g.links.length, g.vocab)) =
      some (4, 0, 3, 8, ["go", "stop"]) := by decide

-- the closed grammar is read back closed, with the same null links
example : NullClosed (closure ex1) := (C13_closure_terminates ex1 ex1_wf).2.1

-- D21 (repaired in the writer): an unnamed grammar is written with the name `unknown` and is readable
example : (write exCodec ex1).head? = some ["FSG_BEGIN", "unknown"] := by decide

-- the reader refuses a probability the codec refuses (what `%f` did to probabilities < 5e-7 before the repair)
example : (match read { exCodec with parseP := fun _ => none } (write { exCodec with printP := fun _ => "0.000000" } ex1) with
    | .error e => some e | .ok _ => none) = some .probMalformed := by decide

end SSVerif.Fsg
