import SSVerif.Proofs.LatticePruneIdem
import SSVerif.Proofs.LatticePruneLoop
import SSVerif.Props.C12
/-!
# C12 on pruned lattices — `lattice_posterior_prune` (`src/ps_lattice.c`)

Property theorems only, over the model `SSVerif/Model/LatticePrune.lean` (`posteriorPrune`, `prunedLat`, `nPruned`,
`keepOrder`, `keptLinks`, `renumLink`) of `lattice_posterior_prune` + `lattice_delete_unreachable` as they are in the
current tree (repairs D58, D69, D99).  `post l` is the value `link->alpha + link->beta - dag->norm` the C code compares
with the beam; the theorems hold for EVERY such function (no assumption on how alpha/beta were computed), every beam
and every lattice satisfying the C11 predicate `LatticeOK`.

* `C12_prune_return_value` — the returned count is the number of links with `post < beam` (strict).
* `C12_prune_result_exact` — which nodes and links are left, in which order, with which new numbers.
* `C12_prune_keeps_wellformed` — the clauses of `LatticeOK` that the pruned lattice keeps whatever is pruned
  (endpoints, distinct links, markers, node times, link times, real-start clause, grammar clauses, acyclicity, nothing
  enters the start / leaves the end), and the clauses it keeps exactly when a start→end path survives (every other
  node has an entry and an exit, every node lies on a start→end path, synthetic-start clause).
  `C12_prune_endmark_not_kept`: the remaining clause (`EndMarkOK`: the synthetic end is entered from EVERY word node
  that ends at the last exit frame) is NOT kept — Lean counterexample.
* `C12_prune_latticeOK_iff` — with a surviving path the pruned lattice satisfies the whole C11 predicate iff `EndMarkOK`
  holds on it.
* `C12_prune_traversal_and_bestpath` — the traversal and best-path theorems of C12 hold on the pruned lattice.
* `C12_prune_paths_are_original_paths` — every path of the pruned lattice from its start node is the renumbered image
  of a path of the original lattice over links not below the beam, with the same score and the same word sequence,
  which is a grammar path.
* `C12_prune_bestpath_preserved` — if no link of a best path is below the beam, the path is still there and
  `lattice_bestpath` on the pruned lattice returns the same score.
* `C12_prune_all_paths_cut` — when no start→end path survives, what is left is the start node and the end node
  (in their original order) and no link; `lattice_bestpath` returns NULL.
* `C12_prune_unlink_loop_is_closed_form` — the exit list that the unlink loop of the code leaves, run step by step
  (`exitsLoop`: one list rebuild — a reversal — per pruned exit), is the closed form used in `prunedLat`
  (`exitsCut`: what is not below the beam, reversed iff an odd number of exits was pruned).
* `C12_prune_idempotent` — pruning the pruned lattice again with the same beam (posteriors of the remaining links
  unchanged) returns 0 and leaves exactly the same lattice (same node list, same link list in the same order).
* `Props/C12PruneInt.lean`: `C12_prune_path_above_beam_survives` — with the integer posteriors of the model
  (`alphaInt + betaInt − normInt`), every start→end path whose own posterior `joint − norm` is not below the beam
  survives; in particular the best path, whenever the beam is at most what `lattice_posterior` returned.
-/
namespace SSVerif.Lattice
open SSVerif.Nfa Prune

variable {G : Nfa} {L : Lat}

/-- **C12 prune, return value.** `lattice_posterior_prune` returns the number of links whose posterior is strictly
below the beam (every link is visited exactly once by the traversal that prunes). -/
theorem C12_prune_return_value (ok : LatticeOK G L) (post : Link → Int) (beam : Int) :
    (posteriorPrune L post beam).2 = (L.links.filter fun l => decide (post l < beam)).length :=
  nPruned_eq ok

/-- **C12 prune, what is left.** The surviving nodes are, in their old order, the start node, the end node and the
nodes lying on a start→end path all of whose links are not below the beam; they are renumbered 0,1,2,… in that
order; the links left are exactly the (renumbered) links not below the beam between surviving nodes. -/
theorem C12_prune_result_exact (ok : LatticeOK G L) (post : Link → Int) (beam : Int) :
    let S := survivors L post beam
    let order := keepOrder L post beam
    let LP := (posteriorPrune L post beam).1
    (∀ l, l ∈ S ↔ l ∈ L.links ∧ beam ≤ post l) ∧
    (∀ v, v ∈ order ↔ v < L.n ∧ (v = L.start ∨ v = L.final ∨
        ((∃ p, Path (L.withLinks S) L.start p v) ∧ ∃ q, Path (L.withLinks S) v q L.final))) ∧
    order.Pairwise (· < ·) ∧
    LP.nodes = order.map L.node ∧ LP.nframes = L.nframes ∧
    LP.start = order.idxOf L.start ∧ LP.final = order.idxOf L.final ∧
    (∀ v ∈ order, order.idxOf v < LP.n ∧ LP.node (order.idxOf v) = L.node v) ∧
    (∀ l', l' ∈ LP.links ↔ ∃ l ∈ L.links, beam ≤ post l ∧ l.src ∈ order ∧ l.dst ∈ order ∧ l' = renumLink order l) := by
  refine ⟨fun l => mem_survivors ok, fun v => mem_ord ok, ?_, rfl, rfl, rfl, rfl, ?_, ?_⟩
  · unfold keepOrder
    exact List.Pairwise.filter _ List.pairwise_lt_range
  · intro v hv
    exact ⟨by rw [show (posteriorPrune L post beam).1 = prunedLat L post beam from rfl, n_eq]; exact idx_lt hv,
      node_idx hv⟩
  · intro l'
    rw [show (posteriorPrune L post beam).1 = prunedLat L post beam from rfl, mem_links ok]
    constructor
    · rintro ⟨l, ⟨h1, h2, h3, h4⟩, rfl⟩; exact ⟨l, h1, h2, h3, h4, rfl⟩
    · rintro ⟨l, h1, h2, h3, h4, rfl⟩; exact ⟨l, ⟨h1, h2, h3, h4⟩, rfl⟩

theorem Prune.path_rank' {L : Lat} {rank : Nat → Nat} (dg : DagOK L rank) {u v : Nat} {p : List Link}
    (h : Path L u p v) : rank u + p.length ≤ rank v := by
  induction h with
  | nil => simp
  | cons hm hs _ ih =>
    have := dg.rank_lt _ hm
    subst hs
    simp only [List.length_cons]; omega

/-- **C12 prune, the clauses of the C11 predicate that survive.**  Whatever is pruned: start/end/link ends in range,
one link per ordered node pair, synthetic nodes only as start or end, node times, time consistency of every link, the
real-start clause, the grammar clauses, every link increases the rank (so no cycle), nothing enters the start node or
leaves the end node.  When at least one start→end path survives also: every node but the start has an entry, every
node but the end an exit, every node lies on a start→end path of the pruned lattice, and a synthetic start is linked
to every word node starting at frame 0. -/
theorem C12_prune_keeps_wellformed (ok : LatticeOK G L) (post : Link → Int) (beam : Int) :
    let LP := (posteriorPrune L post beam).1
    EndpointsOK LP ∧ LinksDistinct LP ∧ MarkersOK LP ∧ NodeTimesOK LP ∧ (∀ l ∈ LP.links, LinkTimeOK LP l) ∧
    RealStartOK LP ∧ (∀ l ∈ LP.links, LinkGrammarOK G LP l) ∧ StartGrammarOK G LP ∧
    (∀ l ∈ LP.links, LP.rank l.src < LP.rank l.dst) ∧ (∀ u p, Path LP u p u → p = []) ∧
    (∀ l ∈ LP.links, l.dst ≠ LP.start ∧ l.src ≠ LP.final) ∧
    ((∃ p, Path (L.withLinks (survivors L post beam)) L.start p L.final) →
      StartEndOK LP ∧ StartMarkOK LP ∧
      ∀ i, i < LP.n → ∃ p q, Path LP LP.start p i ∧ Path LP i q LP.final) := by
  have dg := dagOK (post := post) (beam := beam) ok
  refine ⟨endpoints ok, distinct ok, markers ok, nodeTimes ok, linkTimes ok, realStart ok, linkGrammar ok,
    startGrammar ok, dg.rank_lt, ?_, fun l hl => ⟨dg.no_entry_start l hl, dg.no_exit_final l hl⟩, ?_⟩
  · intro u p h
    have := Prune.path_rank' dg h
    exact List.length_eq_zero_iff.1 (by omega)
  · intro hP
    exact ⟨startEnd ok hP, startMark ok hP, fun i hi => all_on_path ok hP hi⟩

/-- **C12 prune, the whole C11 predicate.**  When a start→end path survives, the pruned lattice satisfies the whole
C11 predicate `LatticeOK` (so every C11/C12 theorem applies to it again) exactly when the one clause pruning can
break, `EndMarkOK`, holds on it — a decidable clause the driver evaluates on every pruned lattice of the check. -/
theorem C12_prune_latticeOK_iff (ok : LatticeOK G L) (post : Link → Int) (beam : Int)
    (hP : ∃ p, Path (L.withLinks (survivors L post beam)) L.start p L.final) :
    LatticeOK G (posteriorPrune L post beam).1 ↔ EndMarkOK (posteriorPrune L post beam).1 := by
  constructor
  · intro h; exact h.markerLinks.2.2
  · intro h
    exact { endpoints := endpoints ok, distinct := distinct ok, startEnd := startEnd ok hP, markers := markers ok,
            nodeTimes := nodeTimes ok, linkTimes := linkTimes ok,
            markerLinks := ⟨realStart ok, startMark ok hP, h⟩,
            linkGrammar := linkGrammar ok, startGrammar := startGrammar ok }

/-- **C12 prune, traversal and best path on the pruned lattice.**  `lattice_traverse_edges` on the pruned lattice
hands out every remaining link exactly once, each after all links into its source node (this is what D99 repaired),
and `lattice_bestpath` returns the best remaining start→end path (NULL only when none remains). -/
theorem C12_prune_traversal_and_bestpath (ok : LatticeOK G L) (post : Link → Int) (beam : Int) :
    let LP := (posteriorPrune L post beam).1
    ((traverseEdges LP).Perm LP.links ∧
      ∀ pre l post', traverseEdges LP = pre ++ l :: post' → ∀ l' ∈ LP.links, l'.dst = l.src → l' ∈ pre) ∧
    (match bestpath LP with
      | some (x, s, _) =>
        x ∈ LP.links ∧ x.dst = LP.final ∧
        (∃ p, Path LP LP.start p LP.final ∧ p.getLast? = some x ∧ score p = s) ∧
        (∀ p, Path LP LP.start p LP.final → p ≠ [] → score p ≤ s)
      | none => ∀ p, Path LP LP.start p LP.final → p = []) :=
  ⟨traverse_topological (dagOK ok), bestpath_is_max (dagOK ok)⟩

theorem Prune.tailWords_map {post : Link → Int} {beam : Int} {p : List Link} (h : ∀ l ∈ p, Kept L post beam l) :
    tailWords (prunedLat L post beam) (p.map (renumLink (keepOrder L post beam))) = tailWords L p := by
  induction p with
  | nil => rfl
  | cons l ls ih =>
    have e := node_dst (h l List.mem_cons_self)
    have ih' := ih (fun x hx => h x (List.mem_cons_of_mem _ hx))
    unfold tailWords at ih' ⊢
    simp only [List.map_cons, List.filterMap_cons, e, ih']

/-- **C12 prune, paths.**  Every path of the pruned lattice from its start node is the renumbered image of a path of
the original lattice from the start node, none of whose links is below the beam; it has the same score and spells the
same word sequence, which is the label sequence of a grammar path from the grammar's start state. -/
theorem C12_prune_paths_are_original_paths (ok : LatticeOK G L) (post : Link → Int) (beam : Int)
    (p' : List Link) (j : Nat) (h : Path (posteriorPrune L post beam).1 (posteriorPrune L post beam).1.start p' j) :
    ∃ p w, w ∈ keepOrder L post beam ∧ j = (keepOrder L post beam).idxOf w ∧
      p' = p.map (renumLink (keepOrder L post beam)) ∧ Path L L.start p w ∧ (∀ l ∈ p, beam ≤ post l) ∧
      score p' = score p ∧
      sentence (posteriorPrune L post beam).1 (posteriorPrune L post beam).1.start p' = sentence L L.start p ∧
      ∃ q, Reach G G.start (sentence (posteriorPrune L post beam).1 (posteriorPrune L post beam).1.start p') q := by
  obtain ⟨p, w, hw, ej, ep, hp, hall⟩ := path_preimage ok h L.start (start_ord ok) rfl
  have hpl := path_of_S (surv_sub ok) hp
  have hsent : sentence (posteriorPrune L post beam).1 (posteriorPrune L post beam).1.start p' = sentence L L.start p := by
    subst ep
    show sentence (prunedLat L post beam) (prunedLat L post beam).start _ = _
    unfold sentence
    rw [Prune.tailWords_map hall, start_eq, node_idx (start_ord ok)]
  refine ⟨p, w, hw, ej, ep, hpl, fun l hl => (hall l hl).2.1, by rw [ep]; exact score_map p, hsent, ?_⟩
  obtain ⟨q, hq, _⟩ := C11_paths_are_grammar_paths ok p w hpl
  exact ⟨q, hsent ▸ hq⟩

/-- **C12 prune, the best path survives.**  If `lattice_bestpath` returned score `s` before pruning and some
start→end path with that score has no link below the beam, then that path (renumbered) is a path of the pruned
lattice and `lattice_bestpath` on the pruned lattice returns the same score. -/
theorem C12_prune_bestpath_preserved (ok : LatticeOK G L) (post : Link → Int) (beam : Int)
    {x : Link} {s : Int} {c : List Link} (hbest : bestpath L = some (x, s, c))
    {p : List Link} (hp : Path L L.start p L.final) (hs : score p = s) (hb : ∀ l ∈ p, beam ≤ post l) :
    let LP := (posteriorPrune L post beam).1
    Path LP LP.start (p.map (renumLink (keepOrder L post beam))) LP.final ∧
    ∃ x' c', bestpath LP = some (x', s, c') := by
  have hm := C12_bestpath_is_max ok
  rw [hbest] at hm
  obtain ⟨hx, hxd, _, hle⟩ := hm
  have hsf : L.start ≠ L.final := fun e => (ok.startEnd.1 x hx).1 (by rw [hxd, e])
  have hne : p ≠ [] := by
    rintro rfl
    exact hsf hp.eq_of_nil
  have hmax : ∀ q, Path L L.start q L.final → score q ≤ score p := by
    intro q hq
    rw [hs]
    apply hle q hq
    rintro rfl
    exact hsf hq.eq_of_nil
  have := bestpath_after (post := post) (beam := beam) ok hp hne hb hmax
  rw [hs] at this
  exact this

/-- **C12 prune, everything cut.**  When no start→end path survives (in particular for every beam above all link
posteriors) the pruned lattice consists of the start node and the end node, in their original order, without any
link, and `lattice_bestpath` returns NULL. -/
theorem C12_prune_all_paths_cut (ok : LatticeOK G L) (post : Link → Int) (beam : Int)
    (hno : ¬ ∃ p, Path (L.withLinks (survivors L post beam)) L.start p L.final) :
    let LP := (posteriorPrune L post beam).1
    LP.links = [] ∧
    LP.nodes = ((List.range L.n).filter fun v => v == L.start || v == L.final).map L.node ∧
    bestpath LP = none := by
  obtain ⟨h1, h2⟩ := all_cut ok hno
  refine ⟨h1, ?_, ?_⟩
  · show (keepOrder L post beam).map L.node = _
    rw [h2]
  · have hm := bestpath_is_max (dagOK (post := post) (beam := beam) ok)
    cases hbp : bestpath (prunedLat L post beam) with
    | none => exact hbp
    | some r =>
      obtain ⟨x, s, c⟩ := r
      rw [hbp] at hm
      have := hm.1
      rw [h1] at this
      cases this

/-- **C12 prune, the unlink loop.**  Carrying the exit list of a node through the traversal the way the code does —
for every visited link out of the node that is below the beam the list is rebuilt by pushing the other elements on
a new list — leaves the links not below the beam, in the original order reversed once per pruned exit. -/
theorem C12_prune_unlink_loop_is_closed_form (ok : LatticeOK G L) (post : Link → Int) (beam : Int) (v : Nat) :
    exitsLoop L post beam v = exitsCut L post beam v ∧
    (∀ l, l ∈ exitsCut L post beam v ↔ l ∈ L.links ∧ l.src = v ∧ beam ≤ post l) := by
  refine ⟨exitsLoop_eq ok v, fun l => ?_⟩
  rw [mem_exitsCut, mem_survivors ok]
  constructor
  · rintro ⟨⟨h1, h2⟩, h3⟩; exact ⟨h1, h3, h2⟩
  · rintro ⟨h1, h3, h2⟩; exact ⟨⟨h1, h2⟩, h3⟩

/-- **C12 prune, idempotence.**  Pruning the pruned lattice a second time with the same beam — the `alpha`/`beta`
fields of the remaining links and `dag->norm` being unchanged, i.e. the posterior `post'` of a renumbered link is the
posterior of the link it came from — prunes nothing: the return value is 0 and the lattice is exactly the same
(node list, link list and its order, start, end). -/
theorem C12_prune_idempotent (ok : LatticeOK G L) (post : Link → Int) (beam : Int) (post' : Link → Int)
    (h : ∀ l ∈ L.links, beam ≤ post l → post' (renumLink (keepOrder L post beam) l) = post l) :
    posteriorPrune (posteriorPrune L post beam).1 post' beam = ((posteriorPrune L post beam).1, 0) := by
  refine idempotent (post := post) (beam := beam) ok ?_
  intro l' hl'
  obtain ⟨l, hk, rfl⟩ := (mem_links ok).1 hl'
  rw [h l hk.1 hk.2.1]
  exact hk.2.1

/-! ### non-vacuity and the clause that is not kept -/

/-- posteriors for the C11 example lattice `exL`: the links into and out of `ford@4` and out of `sil@0` are weak -/
def exPost : Link → Int := fun l =>
  if l.dst = 3 ∨ l.src = 3 then -90 else if l.src = 6 ∨ l.dst = 6 then -60 else if l.src = 5 then -55 else -1

-- beam −50: 6 links cut; `ford@4`, `go@2`, `sil@0` go; the nodes left are `</s>`, `<s>`, `forward@4`, `go@0`, renumbered
example : let r := posteriorPrune exL exPost (-50)
    (r.1.nframes, r.1.start, r.1.final, r.1.nodes, r.1.links, r.2) =
    (10, 1, 0, [⟨9, 10, 10, 10, none⟩, ⟨8, 0, 0, 0, none⟩, ⟨2, 4, 9, 9, some 2⟩, ⟨1, 0, 3, 3, some 1⟩],
       [⟨1, 3, 0, 0⟩, ⟨2, 0, 10, -40⟩, ⟨3, 2, 3, -20⟩], 6) := by decide +kernel

-- the exact comparison: a link whose posterior EQUALS the beam stays (beam −55 keeps `go@2 → forward@4`, −54 cuts it)
example : (posteriorPrune exL exPost (-55)).2 = 5 ∧ (posteriorPrune exL exPost (-54)).2 = 6 := by decide +kernel

-- the best path of `exL` (score −60 through `go@0`, `forward@4`) survives beam −50 with its score
example : (bestpath exL).map (·.2.1) = some (-60) ∧
    (bestpath (posteriorPrune exL exPost (-50)).1).map (·.2.1) = some (-60) := by decide +kernel

-- pruning the result again (posteriors carried over through the renumbering 4 ↦ 3) changes nothing
example : let r := posteriorPrune exL exPost (-50)
    let r2 := posteriorPrune r.1 (fun _ => -1) (-50)
    (r2.1.nframes, r2.1.start, r2.1.final, r2.1.nodes, r2.1.links, r2.2) =
      (r.1.nframes, r.1.start, r.1.final, r.1.nodes, r.1.links, 0) := by decide +kernel

-- everything cut: start and end node in their old order, no link, return value = number of links
example : let r := posteriorPrune exL exPost 0
    (r.1.nframes, r.1.start, r.1.final, r.1.nodes, r.1.links, r.2) =
    (10, 1, 0, [⟨9, 10, 10, 10, none⟩, ⟨8, 0, 0, 0, none⟩], [], 9) := by
  decide +kernel

-- an odd number of pruned exits reverses what is left of an exit list (second example: `go@0` with three exits loses one)
example : (keptLinks exL (fun l => if l = ⟨4, 2, 3, -20⟩ then -99 else 0) (-50)).map (fun l => (l.src, l.dst)) =
    [(1, 4), (1, 6), (2, 0), (3, 0), (4, 3), (5, 2), (5, 3), (6, 5)] := by decide +kernel
example : (exitsLoop { exL with links := exL.links ++ [⟨4, 0, 3, -1⟩] }
      (fun l => if l = ⟨4, 2, 3, -20⟩ then -99 else 0) (-50) 4).map (fun l => (l.src, l.dst)) = [(4, 0), (4, 3)] := by
  decide +kernel
example : (exitsCut { exL with links := exL.links ++ [⟨4, 0, 3, -1⟩] }
      (fun l => if l = ⟨4, 2, 3, -20⟩ then -99 else 0) (-50) 4).map (fun l => (l.src, l.dst)) = [(4, 0), (4, 3)] := by
  decide +kernel

/-- grammar `a b?`; lattice: node 0 = `</s>`, 1 = `a@0` (end frames 3…9, real start), 2 = `b@4` -/
def exG2 : Nfa where
  start := 0
  final := 2
  arcs := [(0, some 1, 1), (1, some 2, 2)]

def exL2 : Lat where
  nframes := 10
  start := 1
  final := 0
  nodes := [⟨9, 10, 10, 10, none⟩, ⟨1, 0, 3, 9, some 1⟩, ⟨2, 4, 9, 9, some 2⟩]
  links := [⟨1, 0, 10, -5⟩, ⟨1, 2, 3, -3⟩, ⟨2, 0, 10, -4⟩]

/-- **C12 prune, the clause that is not kept.**  `EndMarkOK` — the synthetic end node is entered from every word node
whose last end frame is the last exit frame — can be lost: on the well-formed lattice `exL2` pruning the direct link
`a → </s>` keeps `a` (it still reaches the end through `b`), which then ends at the last exit frame without a link
into `</s>`.  Every other clause holds on the pruned lattice (a start→end path survives). -/
theorem C12_prune_endmark_not_kept :
    LatticeOK exG2 exL2 ∧
    (let LP := (posteriorPrune exL2 (fun l => if l = ⟨1, 0, 10, -5⟩ then -70 else -1) (-50)).1
     ¬ EndMarkOK LP ∧ LP.nodes.length = 3 ∧ LP.links.length = 2 ∧
      (clauseResults exG2 LP).map (·.2) = [true, true, true, true, true, true, false, true, true]) :=
  ⟨(C11_latticeOKB_iff exG2 exL2).1 (by decide +kernel), by decide +kernel⟩

end SSVerif.Lattice
