import SSVerif.Props.C11
import SSVerif.Proofs.LatticeBuildLinks
import SSVerif.Proofs.LatticeBuildShape
import SSVerif.Proofs.LatticeBuildEnds
import SSVerif.Proofs.LatticeBuildReach
import SSVerif.Proofs.LatticeBuildPrune
import SSVerif.Proofs.LatticeBuildTotal
import SSVerif.Proofs.LatticeChainHist
import SSVerif.Proofs.LatticeChainPath
import SSVerif.Proofs.LatticeHistBridge
import SSVerif.Proofs.LatticeChainSearch
import SSVerif.Proofs.LatticeSearchExtra
import SSVerif.Props.C01Search
/-!
# C11 (construction) — `fsg_search_lattice` builds a well-formed lattice from every well-formed history table

Property theorems only.  `buildLattice` (Model/Lattice) is the executable mirror of `fsg_search_lattice`
(`src/fsg_search.c` l.1340-1524 with `new_node`, `find_node`, `find_start_node`, `find_end_node`,
`mark_reachable`) and of `lattice_link` / `lattice_delete_unreachable` (`src/ps_lattice.c`); the check compares
its output exactly with the lattice of the real decoder on every request.  `Props/C11` proves what `LatticeOK`
implies for all paths; here the missing half: **`buildLattice` yields `LatticeOK` for every history table that
satisfies the decidable predicate `HistWF`** (Model/LatticeHist — word arcs are arcs of the search grammar,
`1 ≤ frame < n_frames`, the predecessor is the root or an earlier entry with an earlier frame whose arc ends
where this one starts, at most one null entry in between).  `HistWF` is evaluated by the driver (`histWFB`) on
every history table dumped from the implementation (obligation of `tools/props/c11.py`).

Stages (one lemma file each under `Proofs/LatticeBuild*`): `buildNodes` ⇒ `NodesOK`; `buildLinks` ⇒ `MidOK`;
`findStartEnd` ⇒ `EndsShape` ⇒ `PreOK`; `markReachable` ⇒ `KeepSpec` (least predecessor-closed set containing
the end, fuel `n_nodes + 1` suffices); pruning and renumbering ⇒ the nine clauses of `LatticeOK`.

Further: the lattice exists iff the table has a word entry (`LatticeBuildTotal`); every complete backtrace ending in
the last word-exit frame — in particular the one `find_exit`/`fsg_search_seg_iter` report (`LatticeChainSearch`) — is
a start→end path with exactly its segmentation (`LatticeChainHist`, `LatticeChainPath`); `HistWF` follows from the
search invariant `WFHist` of C01 plus `extraB` (`LatticeHistBridge`), half of which (`noNullChain`) is proved for the
modelled search and the other half (`wordFrameB`) shown NOT to follow from the relation `StepRel` as it stands
(`LatticeSearchExtra`).
-/
namespace SSVerif.Lattice
open SSVerif.Nfa

/-- **C11, the construction is correct for all inputs.**  For every search grammar `G`, every history table `h`
that is well-formed (`HistWF`, a decidable table-level predicate evaluated on every dumped table), every frame
count and every choice of marker word ids and filler penalties: when `fsg_search_lattice` (model `buildLattice`)
returns a lattice, that lattice satisfies every clause of the C11 predicate `LatticeOK` — valid endpoints, one
link per node pair, a single start and end with every other node entered and left, synthetic nodes only as
start/end, node times inside the utterance, time-consistent links (`ef + 1 = sf` of the target …), the
`<s>`/`</s>` marker links, and every link a step of the grammar. -/
theorem C11_build_latticeOK (G : Nfa) (h : Array HEntry) (frame wS wE : Nat)
    (isFiller : Nat → Bool) (silWord : Nat) (silpen fillpen : Int)
    (hwf : HistWF G h frame) (L : Lat)
    (hb : buildLattice G h frame wS wE isFiller silWord silpen fillpen = some L) : LatticeOK G L := by
  rw [buildLattice_eq] at hb
  have hm : MidOK G frame (buildLinks G h (buildNodes h)) :=
    buildLinks_midOK G h frame _ hwf (buildNodes_nodesOK G h frame hwf)
  cases hfs : findStartEnd (buildLinks G h (buildNodes h)) frame wS wE with
  | none => rw [hfs] at hb; cases hb
  | some R =>
    rw [hfs] at hb
    simp only [Option.map_some, Option.some.injEq] at hb
    subst hb
    obtain ⟨lastEf, sc, ec, b1, hs⟩ := findStartEnd_shape _ frame wS wE R
      (fun l hl => ⟨(hm.link l hl).1, (hm.link l hl).2.1⟩) hfs
    have hp := preOK_of_shape G frame wS wE _ R lastEf sc ec b1 hm hs
    exact pruneLat_latticeOK G frame R.b R.start R.final isFiller silWord silpen fillpen hp
      (markReachable_spec R.b R.final hp.fLt (fun l hl => (hp.linkLt l hl).1))

/-- **C11, construction, as the driver evaluates it.**  When the Boolean hypothesis check `histWFB` printed by
the driver for a dumped history table is `true`, the verified lattice checker accepts the model's lattice — so
the `ok=1` the driver reports for the built lattice is a theorem, not an observation, and by the exact
correspondence `buildLattice = fsg_search_lattice` it is the lattice of the implementation. -/
theorem C11_build_checked (G : Nfa) (h : Array HEntry) (frame wS wE : Nat)
    (isFiller : Nat → Bool) (silWord : Nat) (silpen fillpen : Int)
    (hwf : histWFB G h frame = true) (L : Lat)
    (hb : buildLattice G h frame wS wE isFiller silWord silpen fillpen = some L) : latticeOKB G L = true :=
  (C11_latticeOKB_iff G L).2
    (C11_build_latticeOK G h frame wS wE isFiller silWord silpen fillpen ((histWFB_iff G h frame).1 hwf) L hb)

/-- **C11, the hypothesis check is exact.** -/
theorem C11_build_histWFB_iff (G : Nfa) (h : Array HEntry) (frame : Nat) :
    histWFB G h frame = true ↔ HistWF G h frame := histWFB_iff G h frame

/-- **C11 for all histories, all paths.**  Composition with the graph theorems of `Props/C11`: for every
well-formed history table the lattice that is built has no cycle (every link increases the time rank; a path
has at most `n_frames + 1` links), every node lies on a path from the start node to the end node, and the
words along every path from the start node are the labels of a path of the search grammar from its start
state. -/
theorem C11_build_all_paths (G : Nfa) (h : Array HEntry) (frame wS wE : Nat)
    (isFiller : Nat → Bool) (silWord : Nat) (silpen fillpen : Int)
    (hwf : HistWF G h frame) (L : Lat)
    (hb : buildLattice G h frame wS wE isFiller silWord silpen fillpen = some L) :
    (∀ l ∈ L.links, L.rank l.src < L.rank l.dst) ∧
    (∀ u p, Path L u p u → p = []) ∧
    (∀ u v p, u < L.n → Path L u p v → p.length ≤ L.nframes + 1) ∧
    (∀ v, v < L.n → ∃ p q, Path L L.start p v ∧ Path L v q L.final) ∧
    (∀ p v, Path L L.start p v → ∃ q, Reach G G.start (sentence L L.start p) q ∧
      ((L.node v).real = true → (L.node v).state = some q)) := by
  have ok := C11_build_latticeOK G h frame wS wE isFiller silWord silpen fillpen hwf L hb
  obtain ⟨h1, h2, h3⟩ := C11_lattice_acyclic ok
  exact ⟨h1, h2, h3, fun v hv => C11_all_on_start_end_path ok v hv,
    fun p v hp => C11_paths_are_grammar_paths ok p v hp⟩

/-- **C11, reachability marking.**  `mark_reachable` (fixpoint over the entry lists with the model's fuel
`n_nodes + 1`) computes exactly the least set of nodes that contains the end node and is closed under link
predecessors — the nodes from which the end node can be reached; nothing else survives
`lattice_delete_unreachable`. -/
theorem C11_build_mark_reachable (b : Build) (f : Nat) (hf : f < b.nodes.size)
    (hl : ∀ l ∈ b.links.toList, l.src < b.nodes.size) :
    f ∈ markReachable b f ∧ (∀ l ∈ b.links.toList, l.dst ∈ markReachable b f → l.src ∈ markReachable b f) ∧
    ∀ P : Nat → Prop, P f → (∀ l ∈ b.links.toList, P l.dst → P l.src) → ∀ v ∈ markReachable b f, P v :=
  let k := markReachable_spec b f hf hl
  ⟨k.final, k.closed, k.induct⟩

/-- **C11, when a lattice exists.**  For a well-formed history table `fsg_search_lattice` returns a lattice
exactly when the table has at least one word entry (with a word node there is always an end-node candidate, so
`find_end_node` cannot fail; without one there is no node at all and the fallback finds nothing) — so
`decoder_lattice` returning `NULL` means "no word exit yet", never a failed construction. -/
theorem C11_build_lattice_iff_word_entry (G : Nfa) (h : Array HEntry) (frame wS wE : Nat)
    (isFiller : Nat → Bool) (silWord : Nat) (silpen fillpen : Int) (hwf : HistWF G h frame) :
    (buildLattice G h frame wS wE isFiller silWord silpen fillpen).isSome = true ↔
      ∃ i f w t, i < h.size ∧ (hent h i).arc = some (f, some w, t) :=
  buildLattice_isSome_iff G h frame wS wE isFiller silWord silpen fillpen hwf

/-- **C11, the first-best clause for all histories.**  Let `c` be a complete backtrace of a well-formed
history table — word entries in time order, each the preceding word entry of the next (`prevWord`: the
predecessor, or the predecessor of a null entry in between), the first hanging below the root — whose last
word ends in the last word-exit frame of the table (`chainOKB`, decidable; the driver finds the chain of the
implementation's first-best segmentation and evaluates `chainOKB` and `segsOf h c = segmentation` on every
request with a dumped table).  Then the segmentation `segsOf h c` — `(word, start frame, end frame)` per word
entry, as `fsg_search_seg_iter` reports it — is the instance sequence of a path from the start node to the end
node of the lattice that `fsg_search_lattice` builds: no start/end selection, no link de-duplication and no
pruning ever drops the first-best path (what the defect D40 violated). -/
theorem C11_build_first_best (G : Nfa) (h : Array HEntry) (frame wS wE : Nat)
    (isFiller : Nat → Bool) (silWord : Nat) (silpen fillpen : Int)
    (hwf : HistWF G h frame) (c : List Nat) (hc : chainOKB h c = true) (L : Lat)
    (hb : buildLattice G h frame wS wE isFiller silWord silpen fillpen = some L) :
    FirstBestInLattice L (segsOf h c) := by
  rw [buildLattice_eq] at hb
  have hm : MidOK G frame (buildLinks G h (buildNodes h)) :=
    buildLinks_midOK G h frame _ hwf (buildNodes_nodesOK G h frame hwf)
  cases hfs : findStartEnd (buildLinks G h (buildNodes h)) frame wS wE with
  | none => rw [hfs] at hb; cases hb
  | some R =>
    rw [hfs] at hb
    simp only [Option.map_some, Option.some.injEq] at hb
    subst hb
    obtain ⟨vs, hch, h0⟩ := chainMid_of_hist G h frame hwf c hc
    exact firstBest_of_chainMid G frame wS wE _ R isFiller silWord silpen fillpen hm vs _ hch h0 hfs

/-- **C11, the hypothesis from the search invariant.**  `HistWF` of the table as the lattice construction reads
it (`toH`: arcs by value) follows from `WFHist` — the invariant of the history table that C01 *proves* for every
reachable state of the modelled search — plus two facts `WFHist` does not record (`extraB`, evaluated on every
dumped table): word exits are not recorded in frame 0, and the predecessor of a null entry is the root or a word
entry. -/
theorem C11_build_histWF_of_search_invariant (g : SSVerif.Hist.Fsg) (h : SSVerif.Hist.Hist) (cur : Int)
    (wf : SSVerif.Hist.WFHist g h cur) (ex : extraB (HistBridge.toH g h) = true) :
    HistWF g.toNfa (HistBridge.toH g h) cur.toNat :=
  histWF_of_WFHist g h cur wf (HistBridge.extra_of_extraB g h ex)

/-- **C11 over the modelled search.**  In every state the modelled token-passing search can reach (any
lextree satisfying `LexTreeOK`, any number of frames and utterances — `Reachable`, Props/C01Search) the lattice
built from the history table is well-formed, given only that no word exit is recorded in frame 0 (`wordFrameB`, a
Boolean on the table evaluated by the driver on every dumped table).  Everything else in `HistWF` is a theorem
about the search: `WFHist` (C01) and "null entries do not chain" (`reachable_noNullChain`). -/
theorem C11_build_reachable_search {shift : Nat} {lt : SSVerif.Search.LexTree} {g : SSVerif.Hist.Fsg}
    {s : SSVerif.Search.SState} (lok : SSVerif.Search.LexTreeOK lt g) (hr : SSVerif.Search.Reachable shift lt g s)
    (hw : wordFrameB (HistBridge.toH g s.hist) = true)
    (wS wE : Nat) (isFiller : Nat → Bool) (silWord : Nat) (silpen fillpen : Int) (L : Lat)
    (hb : buildLattice g.toNfa (HistBridge.toH g s.hist) s.frame.toNat wS wE isFiller silWord silpen fillpen = some L) :
    LatticeOK g.toNfa L :=
  C11_build_latticeOK _ _ _ wS wE isFiller silWord silpen fillpen
    (reachable_histWF_of_wordFrame lok hr (HistBridge.wordFrame_of_wordFrameB g s.hist hw)) L hb

/-- **The search model M10 admits no word exit in frame 0** (round 3; until then the opposite was a theorem,
`C11_build_search_model_admits_frame0_exit`).  The exit clause `EvalOut` of the step relation (Model/Search.lean) now
carries the topology fact of `hmm_vit_eval`: the exit state of a 3-state HMM is fed from the states 1, 2 only, that
of a 5-state HMM from 3, 4 only (`OutFrom`) — never from state 0, which `hmm_enter` has just made live.  So in every
state the modelled search over 3- or 5-state HMMs (`LaterTopo lt.nst`; 3 in every shipped model, evaluated on every
dumped lextree by the C01 check) can reach, every word entry of the table has frame `≥ 1`.  The new clause is
part of `stepRelB`, which the C01 check evaluates on every frame of the real search. -/
theorem C11_build_search_model_no_frame0_exit {shift : Nat} {lt : SSVerif.Search.LexTree} {g : SSVerif.Hist.Fsg}
    {s : SSVerif.Search.SState} (lok : SSVerif.Search.LexTreeOK lt g) (hn : SSVerif.Search.LaterTopo lt.nst)
    (hr : SSVerif.Search.Reachable shift lt g s) : SearchExtra.WordFrame g s.hist :=
  reachable_wordFrame lok hn hr

/-- the statement that used to be `C11_build_search_model_admits_frame0_exit` is now refuted for the topologies the
search is used with -/
theorem C11_build_search_model_admits_frame0_exit_false :
    ¬ ∃ (shift : Nat) (lt : SSVerif.Search.LexTree) (g : SSVerif.Hist.Fsg) (s : SSVerif.Search.SState),
      SSVerif.Search.LexTreeOK lt g ∧ SSVerif.Search.Reachable shift lt g s ∧ SSVerif.Search.LaterTopo lt.nst ∧
      ¬ SearchExtra.WordFrame g s.hist :=
  fun ⟨_, _, _, _, lok, hr, hn, hw⟩ => hw (reachable_wordFrame lok hn hr)

/-- the topology hypothesis is needed, and is a fact about the C code: an HMM with another number of emitting
states is evaluated by `hmm_vit_eval_anytopo`, which does take the exit score from state 0 when the transition
matrix has that arc — a reachable state with a frame-0 word entry over 2-state HMMs -/
theorem C11_build_frame0_exit_needs_topology :
    ∃ (shift : Nat) (lt : SSVerif.Search.LexTree) (g : SSVerif.Hist.Fsg) (s : SSVerif.Search.SState),
      SSVerif.Search.LexTreeOK lt g ∧ SSVerif.Search.Reachable shift lt g s ∧ 2 ≤ lt.nst ∧
      ¬ SearchExtra.WordFrame g s.hist :=
  wordFrame_needs_topology

/-- **C11 over the modelled search, no observation on the table.**  In every state the modelled token-passing
search over 3- or 5-state HMMs can reach (any lextree satisfying `LexTreeOK`, any number of frames and utterances —
`Reachable`, Props/C01Search) the hypothesis `HistWF` of `C11_build_latticeOK` holds outright — `WFHist` (C01),
"null entries do not chain" (`reachable_noNullChain`) and "no word exit in frame 0" (`reachable_wordFrame`) are all
theorems about the search — and the lattice built from the history table is well-formed.  Hypotheses: `LexTreeOK`
and `LaterTopo lt.nst`, both decided by the C01 check on every dumped lextree; `Reachable` is tied to the real
search by `stepRelB`/`startRelB` on every frame (C01 check). -/
theorem C11_build_reachableL_search {shift : Nat} {lt : SSVerif.Search.LexTree} {g : SSVerif.Hist.Fsg}
    {s : SSVerif.Search.SState} (lok : SSVerif.Search.LexTreeOK lt g) (hn : SSVerif.Search.LaterTopo lt.nst)
    (hr : SSVerif.Search.Reachable shift lt g s)
    (wS wE : Nat) (isFiller : Nat → Bool) (silWord : Nat) (silpen fillpen : Int) (L : Lat)
    (hb : buildLattice g.toNfa (HistBridge.toH g s.hist) s.frame.toNat wS wE isFiller silWord silpen fillpen = some L) :
    LatticeOK g.toNfa L :=
  C11_build_latticeOK _ _ _ wS wE isFiller silWord silpen fillpen (reachable_histWF lok hn hr) L hb

/-- the same over `ReachableL` (the form of round 2, any topology, `OutLaterStep` given for the frame-0 step) -/
theorem C11_build_reachableL_search_of_outLater {shift : Nat} {lt : SSVerif.Search.LexTree} {g : SSVerif.Hist.Fsg}
    {s : SSVerif.Search.SState} (lok : SSVerif.Search.LexTreeOK lt g) (hr : SearchExtra.ReachableL shift lt g s)
    (wS wE : Nat) (isFiller : Nat → Bool) (silWord : Nat) (silpen fillpen : Int) (L : Lat)
    (hb : buildLattice g.toNfa (HistBridge.toH g s.hist) s.frame.toNat wS wE isFiller silWord silpen fillpen = some L) :
    LatticeOK g.toNfa L :=
  C11_build_latticeOK _ _ _ wS wE isFiller silWord silpen fillpen (reachableL_histWF lok hr) L hb

/-- **C11, the first-best clause over the modelled backtrace.**  Let the history table (in the form of M8)
satisfy the search invariant `WFHist` and the two extra facts, and let `fsg_search_seg_iter` (model `Hist.segs`:
`find_exit` + backtrace + `fsg_seg_bp2itor`, final or partial query) report the segmentation `ss` with at least one
word segment.  Then the word segments of `ss` — `(word, start frame, end frame)` — are the instance sequence of a
start→end path of the lattice `fsg_search_lattice` builds from the same table: the chain hypothesis of
`C11_build_first_best` is *proved* for the backtrace of `find_exit` (`chainOKB_of_findExit`: `find_exit` scans the
last frame that has entries, so the last word ends in the last word-exit frame), and its segmentation is the one
the iterator reports (`segsOf_wordChain`). -/
theorem C11_build_first_best_of_seg_iter (g : SSVerif.Hist.Fsg) (h : SSVerif.Hist.Hist) (cur : Int) (final : Bool)
    (shift : Nat) (wf : SSVerif.Hist.WFHist g h cur) (ex : extraB (HistBridge.toH g h) = true)
    (ss : List SSVerif.Hist.Seg) (hseg : SSVerif.Hist.segs shift g h cur final = some ss) (hne : wordSegs ss ≠ [])
    (wS wE : Nat) (isFiller : Nat → Bool) (silWord : Nat) (silpen fillpen : Int) (L : Lat)
    (hb : buildLattice g.toNfa (HistBridge.toH g h) cur.toNat wS wE isFiller silWord silpen fillpen = some L) :
    FirstBestInLattice L (wordSegs ss) := by
  unfold SSVerif.Hist.segs at hseg
  simp only at hseg
  by_cases hbp : (SSVerif.Hist.findExit g h cur cur final).bp ≤ 0
  · rw [if_pos hbp] at hseg; cases hseg
  rw [if_neg hbp] at hseg
  have hpos : 0 < (SSVerif.Hist.findExit g h cur cur final).bp := by omega
  split at hseg
  · cases hseg
  simp only [Option.some.injEq] at hseg
  obtain ⟨j, hj, _, hjlt, _⟩ := SSVerif.Hist.findExit_pos hpos
  have hT2 := segsOf_wordChain g h cur shift j wf ex hjlt
  rw [← hj, hseg] at hT2
  have hne' : wordChain g h (SSVerif.Hist.findExit g h cur cur final).bp ≠ [] := by
    intro h0
    rw [h0] at hT2
    exact hne hT2.symm
  have hc := chainOKB_of_findExit g h cur final wf ex hpos hne'
  have hwf := histWF_of_WFHist g h cur wf (HistBridge.extra_of_extraB g h ex)
  have := C11_build_first_best g.toNfa (HistBridge.toH g h) cur.toNat wS wE isFiller silWord silpen fillpen hwf _ hc L hb
  rw [hT2] at this
  exact this

/-- **C11 over the modelled search, first-best.**  The same in every state the modelled search can reach, given
only `wordFrameB` of the table. -/
theorem C11_build_reachable_first_best {sh : Nat} {lt : SSVerif.Search.LexTree} {g : SSVerif.Hist.Fsg}
    {s : SSVerif.Search.SState} (lok : SSVerif.Search.LexTreeOK lt g) (hr : SSVerif.Search.Reachable sh lt g s)
    (hw : wordFrameB (HistBridge.toH g s.hist) = true) (final : Bool) (shift : Nat)
    (ss : List SSVerif.Hist.Seg) (hseg : SSVerif.Hist.segs shift g s.hist s.frame final = some ss)
    (hne : wordSegs ss ≠ [])
    (wS wE : Nat) (isFiller : Nat → Bool) (silWord : Nat) (silpen fillpen : Int) (L : Lat)
    (hb : buildLattice g.toNfa (HistBridge.toH g s.hist) s.frame.toNat wS wE isFiller silWord silpen fillpen = some L) :
    FirstBestInLattice L (wordSegs ss) :=
  have wf := (SSVerif.Search.C01_reachable_WFHist lok hr).1
  C11_build_first_best_of_seg_iter g s.hist s.frame final shift wf
    (HistBridge.extraB_of_extra g s.hist s.frame wf
      (reachable_extra_of_wordFrame lok hr (HistBridge.wordFrame_of_wordFrameB g s.hist hw)))
    ss hseg hne wS wE isFiller silWord silpen fillpen L hb

/-- **C11 over the modelled search, first-best, no observation on the table.**  As
`C11_build_reachable_first_best`, with `wordFrameB` proved from the search model (3- or 5-state HMMs). -/
theorem C11_build_reachable_first_best_full {sh : Nat} {lt : SSVerif.Search.LexTree} {g : SSVerif.Hist.Fsg}
    {s : SSVerif.Search.SState} (lok : SSVerif.Search.LexTreeOK lt g) (hn : SSVerif.Search.LaterTopo lt.nst)
    (hr : SSVerif.Search.Reachable sh lt g s) (final : Bool) (shift : Nat)
    (ss : List SSVerif.Hist.Seg) (hseg : SSVerif.Hist.segs shift g s.hist s.frame final = some ss)
    (hne : wordSegs ss ≠ [])
    (wS wE : Nat) (isFiller : Nat → Bool) (silWord : Nat) (silpen fillpen : Int) (L : Lat)
    (hb : buildLattice g.toNfa (HistBridge.toH g s.hist) s.frame.toNat wS wE isFiller silWord silpen fillpen = some L) :
    FirstBestInLattice L (wordSegs ss) :=
  have wf := (SSVerif.Search.C01_reachable_WFHist lok hr).1
  C11_build_first_best_of_seg_iter g s.hist s.frame final shift wf
    (HistBridge.extraB_of_extra g s.hist s.frame wf (reachable_extra lok hn hr))
    ss hseg hne wS wE isFiller silWord silpen fillpen L hb

/-! ### non-vacuity -/

/-- history over the grammar `exG` of `Props/C11` (`sil* go sil* (forward | ford) sil*`): root, `sil` 0–1,
`go` 0–3, `go` 2–3 after the silence, `forward` 4–9 after the second `go`, `ford` 4–9 after the first -/
def exH : Array HEntry :=
  #[⟨none, -1, 0, -1⟩, ⟨some (0, some 0, 0), 1, -5, 0⟩, ⟨some (0, some 1, 1), 3, -20, 0⟩,
    ⟨some (0, some 1, 1), 3, -15, 1⟩, ⟨some (1, some 2, 2), 9, -40, 3⟩, ⟨some (1, some 3, 2), 9, -45, 2⟩]

example : HistWF exG exH 10 := (histWFB_iff _ _ _).1 (by decide +kernel)

-- the hypothesis is met and a lattice with five word nodes and both markers is built …
example : ((buildLattice exG exH 10 8 9 (fun w => w == 0) 0 (-3) (-7)).map fun L =>
    ((L.nodes.filter Node.real).length, L.nodes.length, L.links.length)) = some (5, 7, 9) := by decide +kernel

-- … so the theorem applies (its conclusion, evaluated independently, is indeed true here)
example : ∃ L, buildLattice exG exH 10 8 9 (fun w => w == 0) 0 (-3) (-7) = some L ∧ LatticeOK exG L := by
  cases hb : buildLattice exG exH 10 8 9 (fun w => w == 0) 0 (-3) (-7) with
  | none => exact absurd hb (by decide +kernel)
  | some L =>
    exact ⟨L, rfl, C11_build_latticeOK exG exH 10 8 9 _ 0 (-3) (-7) ((histWFB_iff _ _ _).1 (by decide +kernel)) L hb⟩

-- the backtrace root → sil → go → forward of `exH` is a complete chain; its segmentation is a path of the lattice
example : chainOKB exH [1, 3, 4] = true ∧ segsOf exH [1, 3, 4] = [⟨0, 0, 1⟩, ⟨1, 2, 3⟩, ⟨2, 4, 9⟩] ∧
    findChain exH [⟨0, 0, 1⟩, ⟨1, 2, 3⟩, ⟨2, 4, 9⟩] = some [1, 3, 4] := by decide +kernel
example : ∃ L, buildLattice exG exH 10 8 9 (fun w => w == 0) 0 (-3) (-7) = some L ∧
    FirstBestInLattice L [⟨0, 0, 1⟩, ⟨1, 2, 3⟩, ⟨2, 4, 9⟩] := by
  cases hb : buildLattice exG exH 10 8 9 (fun w => w == 0) 0 (-3) (-7) with
  | none => exact absurd hb (by decide +kernel)
  | some L =>
    have h := C11_build_first_best exG exH 10 8 9 _ 0 (-3) (-7) ((histWFB_iff _ _ _).1 (by decide +kernel))
      [1, 3, 4] (by decide +kernel) L hb
    have hs : segsOf exH [1, 3, 4] = [⟨0, 0, 1⟩, ⟨1, 2, 3⟩, ⟨2, 4, 9⟩] := by decide +kernel
    exact ⟨L, rfl, hs ▸ h⟩
-- a backtrace that stops before the last exit frame, or skips a word, is not a complete chain
example : chainOKB exH [1, 3] = false ∧ chainOKB exH [1, 4] = false ∧ chainOKB exH [3, 4] = false := by decide +kernel

/-- the search grammar and history table of the non-vacuity section of `Props/C01` (M8 form): `<sil>` 0–1, `go` 2–3,
a null transition, `forward`/`forward(2)` 4–5; six frames searched -/
def exSG : SSVerif.Hist.Fsg :=
  { links := #[⟨0, 1, 0, 0⟩, ⟨1, 2, -7, -1⟩, ⟨2, 3, 0, 1⟩, ⟨2, 3, 0, 2⟩,
               ⟨0, 0, -337, 3⟩, ⟨1, 1, -337, 3⟩, ⟨2, 2, -337, 3⟩, ⟨3, 3, -337, 3⟩],
    start := 0, final := 3, filler := [3] }
def exSH : SSVerif.Hist.Hist :=
  #[SSVerif.Hist.dummy, ⟨some 4, 1, -10, 0, 0, []⟩, ⟨some 0, 3, -30, 1, 0, []⟩, ⟨some 1, 3, -31, 2, 0, []⟩,
    ⟨some 3, 5, -60, 3, 0, []⟩, ⟨some 2, 5, -70, 3, 0, []⟩]

-- the hypotheses of `C11_build_first_best_of_seg_iter` are met: the iterator reports `<sil> go forward(2)` …
example : SSVerif.Hist.wfHistB exSG exSH 6 = true ∧ extraB (HistBridge.toH exSG exSH) = true ∧
    (SSVerif.Hist.segs 10 exSG exSH 6 true).map wordSegs = some [⟨3, 0, 1⟩, ⟨0, 2, 3⟩, ⟨2, 4, 5⟩] := by decide +kernel
-- … and the theorem puts that segmentation on a path of the lattice (4 word nodes and `</s>`)
example : ∃ L, buildLattice exSG.toNfa (HistBridge.toH exSG exSH) 6 8 9 (fun w => w == 3) 3 (-3) (-7) = some L ∧
    FirstBestInLattice L [⟨3, 0, 1⟩, ⟨0, 2, 3⟩, ⟨2, 4, 5⟩] := by
  cases hb : buildLattice exSG.toNfa (HistBridge.toH exSG exSH) 6 8 9 (fun w => w == 3) 3 (-3) (-7) with
  | none => exact absurd hb (by decide +kernel)
  | some L =>
    cases hs : SSVerif.Hist.segs 10 exSG exSH 6 true with
    | none => exact absurd hs (by decide +kernel)
    | some ss =>
      have hw : wordSegs ss = [⟨3, 0, 1⟩, ⟨0, 2, 3⟩, ⟨2, 4, 5⟩] := by
        have : (SSVerif.Hist.segs 10 exSG exSH 6 true).map wordSegs = some [⟨3, 0, 1⟩, ⟨0, 2, 3⟩, ⟨2, 4, 5⟩] := by
          decide +kernel
        rw [hs] at this
        simpa using this
      have h := C11_build_first_best_of_seg_iter exSG exSH 6 true 10
        ((SSVerif.Hist.wfHistB_iff _ _ _).1 (by decide +kernel)) (by decide +kernel) ss hs (by rw [hw]; simp)
        8 9 _ 3 (-3) (-7) L hb
      exact ⟨L, rfl, hw ▸ h⟩

/-- a grammar with null transitions (below the root and after a word) and a history that uses them -/
def exG2 : Nfa := { start := 0, final := 3, arcs := [(0, some 1, 1), (1, none, 2), (2, some 2, 3), (0, none, 4), (4, some 5, 1)] }
def exH2 : Array HEntry :=
  #[⟨none, -1, 0, -1⟩, ⟨some (0, none, 4), -1, 0, 0⟩, ⟨some (0, some 1, 1), 3, -20, 0⟩, ⟨some (4, some 5, 1), 4, -22, 1⟩,
    ⟨some (1, none, 2), 3, -21, 2⟩, ⟨some (1, none, 2), 4, -23, 3⟩, ⟨some (2, some 2, 3), 8, -40, 4⟩,
    ⟨some (2, some 2, 3), 8, -41, 5⟩]

example : histWFB exG2 exH2 9 = true ∧
    ((buildLattice exG2 exH2 9 8 9 (fun _ => false) 0 0 0).map fun L => (L.nodes.length, L.links.length, latticeOKB exG2 L)) =
      some (6, 6, true) := by decide +kernel

-- across a null entry
example : chainOKB exH2 [2, 6] = true ∧ chainOKB exH2 [3, 7] = true ∧ chainOKB exH2 [2, 7] = false := by decide +kernel

-- the two extra facts hold of the examples; a word exit in frame 0 and a null entry below a null entry are rejected
example : extraB exH = true ∧ extraB exH2 = true ∧ wordFrameB exH = true ∧
    extraB (exH.set! 1 ⟨some (0, some 0, 0), 0, -5, 0⟩) = false ∧
    extraB (exH2.set! 4 ⟨some (1, none, 2), 3, -21, 1⟩) = false := by decide +kernel

-- no word entry (only the root and a null transition): no lattice
example : buildLattice exG2 #[⟨none, -1, 0, -1⟩, ⟨some (0, none, 4), -1, 0, 0⟩] 5 8 9 (fun _ => false) 0 0 0 = none := by
  decide +kernel

-- the hypothesis rejects: a predecessor later in the table, a word arc that is not in the grammar, a frame
-- beyond the utterance, a null entry below another null entry
example : histWFB exG (exH.set! 3 ⟨some (0, some 1, 1), 3, -15, 4⟩) 10 = false := by decide +kernel
example : histWFB exG (exH.set! 4 ⟨some (1, some 1, 2), 9, -40, 3⟩) 10 = false := by decide +kernel
example : histWFB exG exH 9 = false := by decide +kernel
example : histWFB exG2 (exH2.set! 4 ⟨some (1, none, 2), 3, -21, 1⟩) 9 = false := by decide +kernel

/-- **Why `1 ≤ frame` is in the hypothesis.**  A table with two word exits in frame 0 (impossible for the real
search: a word HMM has at least three emitting states) makes `find_end_node` take the synthetic `<s>` node
(`lef = 0 = last_ef`, `node == dag->start`) for an end candidate and link `<s>` directly to `</s>`: the
lattice that is built violates the link-time clause.  The clause `1 ≤ frame` of `HistWF` is therefore needed,
and it is evaluated on every dumped table. -/
def exG3 : Nfa := { start := 0, final := 1, arcs := [(0, some 1, 1), (0, some 2, 1)] }
def exH3 : Array HEntry := #[⟨none, -1, 0, -1⟩, ⟨some (0, some 1, 1), 0, -2, 0⟩, ⟨some (0, some 2, 1), 0, -3, 0⟩]

example : histWFB exG3 exH3 1 = false ∧
    ((buildLattice exG3 exH3 1 8 9 (fun _ => false) 0 0 0).map fun L =>
      (latticeOKB exG3 L, decide (∀ l ∈ L.links, LinkTimeOK L l), L.links.contains ⟨L.start, L.final, 1, 0⟩)) =
      some (false, false, true) := by decide +kernel

end SSVerif.Lattice
