import SSVerif.Props.C18Xlate2
/-!
# C18 — the translated `hmm_vit_eval_anytopo` ITERATED: the no-wrap invariant for every utterance length, about the C text

`Props/C18Xlate2.lean` ties one call of the function translated from `src/hmm.c` to one `Ranges.anytopoStep`.  Here
the translated function is run frame after frame on the memory it left behind (between two frames the search may enter
the HMM — `hmm_enter`: `score[0]`, `history[0]` — and the acoustic model fills `senscore[]` with the next frame's
scores), and `C18_anytopo_invariant_floored` is restated about that run: for ANY number of frames every call is a
defined C execution (no `int32` overflow in any of the AST's signed operations) and the memory after the last frame
shows exactly the model's HMM after `anytopoRun` — in particular all scores stay in `[WORST_SCORE - 255, 0]`.
-/
set_option linter.unusedSimpArgs false

namespace SSVerif
open SSVerif.Translated SSVerif.Translated.HmmAny SSVerif.Ranges SSVerif.Generated.Ranges

/-- the part of the `hmm_t` (and of the context's scratch array) the evaluator writes -/
structure XMem where
  bs : Int
  stsen : Int → Int
  hist : Int → Int
  oh : Int
  os : Int
  score : Int → Int
  senid : Int → Int

/-- what changes between two calls: an optional `hmm_enter(score, history)` and the frame's `senscore[]` -/
structure XFrame where
  enter : Option (Int × Int)
  senscore : Int → Int

/-- the model HMM a memory shows -/
def XMem.view (n : Nat) (M : XMem) : HA := xlHA n M.score M.hist M.senid M.os M.oh M.bs

/-- between two frames: nothing, or the TRANSLATED `hmm_enter(h, score, histid, frame)` (`h->frame` is not read by
the evaluator and not part of `XMem`) -/
def xlEnter (M : XMem) : Option (Int × Int) → XMem
  | none => M
  | some (s, hi) => { M with score := (hmm_enter 0 M.hist M.score s hi 0).2.2, hist := (hmm_enter 0 M.hist M.score s hi 0).2.1 }

/-- one frame on the memory: enter (if any), then the translated C function; second component: its definedness flag -/
def xlEval (fuel : Nat) (undef : Nat → Int) (sseq : Int → Int → Int) (tpm : Int → Int → Int → Int) (mpx : Int) (n : Nat)
    (tmatid : Int) (M : XMem) (f : XFrame) : XMem × Bool :=
  let M' := xlEnter M f.enter
  let r := hmm_vit_eval_anytopo fuel undef M'.bs f.senscore sseq M'.stsen tpm M'.hist mpx (n : Int) M'.oh M'.os M'.score
    M'.senid tmatid
  ({ bs := r.2.1, stsen := r.2.2.1, hist := r.2.2.2.1, oh := r.2.2.2.2.1, os := r.2.2.2.2.2.1,
     score := r.2.2.2.2.2.2.1, senid := r.2.2.2.2.2.2.2 },
   hmm_vit_eval_anytopo_ok fuel undef M'.bs f.senscore sseq M'.stsen tpm M'.hist mpx (n : Int) M'.oh M'.os M'.score
    M'.senid tmatid)

/-- the translated function frame after frame; the flag is the conjunction of all calls' definedness flags -/
def xlRun (fuel : Nat) (undef : Nat → Int) (sseq : Int → Int → Int) (tpm : Int → Int → Int → Int) (mpx : Int) (n : Nat)
    (tmatid : Int) : XMem → List XFrame → XMem × Bool
  | M, [] => (M, true)
  | M, f :: fs =>
    let r := xlEval fuel undef sseq tpm mpx n tmatid M f
    let r' := xlRun fuel undef sseq tpm mpx n tmatid r.1 fs
    (r'.1, r.2 && r'.2)

/-- the model's frame for a memory frame -/
def XFrame.toA (mpx : Int) (sseq : Int → Int → Int) (f : XFrame) : FrameA :=
  { enter := f.enter, c := xlC mpx f.senscore sseq }

theorem HA_eq (a b : HA) (h1 : a.sc = b.sc) (h2 : a.hist = b.hist) (h3 : a.out = b.out) (h4 : a.hout = b.hout)
    (h5 : a.ids = b.ids) (h6 : a.best = b.best) : a = b := by
  cases a; cases b; simp_all

theorem map_range_eq {n : Nat} (f : Nat → Int) (l : List Int) (hl : l.length = n)
    (h : ∀ j, j < n → f j = l.getD j 0) : (List.range n).map f = l := by
  apply List.ext_getElem (by simp [hl])
  intro i h1 h2
  have hi : i < n := by simpa using h1
  have := h i hi
  simp only [List.getElem_map, List.getElem_range]
  rw [this, List.getD_eq_getElem?_getD, List.getElem?_eq_getElem h2]
  rfl

theorem view_enter (n : Nat) (M : XMem) (s hi : Int) :
    (xlEnter M (some (s, hi))).view n = (M.view n).enter s hi := by
  apply HA_eq <;> simp only [xlEnter, hmm_enter, XMem.view, xlHA, HA.enter]
  · apply map_range_eq _ _ (by simp)
    intro j hj
    rw [List.getD_eq_getElem?_getD, List.getElem?_set]
    by_cases h0 : j = 0
    · subst h0; simp [hj]
    · have : (j : Int) ≠ 0 := by omega
      simp [upd1_apply, this, hj, Ne.symm h0]
      intro hh; exact absurd hh h0
  · apply map_range_eq _ _ (by simp)
    intro j hj
    rw [List.getD_eq_getElem?_getD, List.getElem?_set]
    by_cases h0 : j = 0
    · subst h0; simp [hj]
    · have : (j : Int) ≠ 0 := by omega
      simp [upd1_apply, this, hj, Ne.symm h0]
      intro hh; exact absurd hh h0

theorem anytopoStep_lengths (clamp0 mpx : Bool) (tp : Nat → Nat → Nat) (c : Int → Nat → Int) (h : HA) :
    (anytopoStep clamp0 mpx tp c h).1.sc.length = h.sc.length ∧
    (anytopoStep clamp0 mpx tp c h).1.hist.length = h.sc.length ∧
    (anytopoStep clamp0 mpx tp c h).1.ids.length = h.sc.length := by
  simp [anytopoStep]

/-- one frame: the memory after the translated call shows the model's HMM after `FrameA.apply` -/
theorem view_eval (fuel : Nat) (undef : Nat → Int) (sseq : Int → Int → Int) (tpm : Int → Int → Int → Int) (mpx : Int)
    (n : Nat) (tmatid : Int) (tp : Nat → Nat → Nat)
    (htp : ∀ i j : Nat, i < n → j ≤ n → tpm tmatid (i : Int) (j : Int) = ((tp i j : Nat) : Int))
    (hfuel : n + 2 ≤ fuel) (M : XMem) (f : XFrame) :
    (xlEval fuel undef sseq tpm mpx n tmatid M f).1.view n
      = ((f.toA mpx sseq).apply true (decide (mpx ≠ 0)) tp (M.view n)).1 := by
  have key : ∀ M' : XMem,
      (XMem.view n
        { bs := (hmm_vit_eval_anytopo fuel undef M'.bs f.senscore sseq M'.stsen tpm M'.hist mpx (n : Int) M'.oh M'.os
            M'.score M'.senid tmatid).2.1,
          stsen := (hmm_vit_eval_anytopo fuel undef M'.bs f.senscore sseq M'.stsen tpm M'.hist mpx (n : Int) M'.oh M'.os
            M'.score M'.senid tmatid).2.2.1,
          hist := (hmm_vit_eval_anytopo fuel undef M'.bs f.senscore sseq M'.stsen tpm M'.hist mpx (n : Int) M'.oh M'.os
            M'.score M'.senid tmatid).2.2.2.1,
          oh := (hmm_vit_eval_anytopo fuel undef M'.bs f.senscore sseq M'.stsen tpm M'.hist mpx (n : Int) M'.oh M'.os
            M'.score M'.senid tmatid).2.2.2.2.1,
          os := (hmm_vit_eval_anytopo fuel undef M'.bs f.senscore sseq M'.stsen tpm M'.hist mpx (n : Int) M'.oh M'.os
            M'.score M'.senid tmatid).2.2.2.2.2.1,
          score := (hmm_vit_eval_anytopo fuel undef M'.bs f.senscore sseq M'.stsen tpm M'.hist mpx (n : Int) M'.oh M'.os
            M'.score M'.senid tmatid).2.2.2.2.2.2.1,
          senid := (hmm_vit_eval_anytopo fuel undef M'.bs f.senscore sseq M'.stsen tpm M'.hist mpx (n : Int) M'.oh M'.os
            M'.score M'.senid tmatid).2.2.2.2.2.2.2 })
      = (anytopoStep true (decide (mpx ≠ 0)) tp (xlC mpx f.senscore sseq) (M'.view n)).1 := by
    intro M'
    obtain ⟨r1, r2, _, r4, _, r6, r7, r8, _, r10, _⟩ :=
      C18_xlate_anytopo_refines fuel undef M'.bs f.senscore sseq M'.stsen tpm M'.hist mpx n M'.oh M'.os M'.score M'.senid
        tmatid tp htp hfuel
    have hl := anytopoStep_lengths true (decide (mpx ≠ 0)) tp (xlC mpx f.senscore sseq) (M'.view n)
    have hn : (M'.view n).sc.length = n := by simp [XMem.view, xlHA]
    rw [hn] at hl
    apply HA_eq
    · exact map_range_eq _ _ hl.1 r8
    · exact map_range_eq _ _ hl.2.1 r4
    · exact r7
    · exact r6
    · exact map_range_eq _ _ hl.2.2 r10
    · exact r2
  cases hfe : f.enter with
  | none => simp only [xlEval, XFrame.toA, FrameA.apply, hfe, xlEnter]; exact key M
  | some p =>
    obtain ⟨s, hi⟩ := p
    simp only [xlEval, XFrame.toA, FrameA.apply, hfe]
    rw [← view_enter]
    exact key _

/-- **C18, any topology: the invariant for EVERY utterance length, about the translated C text.**
`C18_anytopo_invariant_floored` restated.  The memory shows an HMM with `1 … 255` emitting states in
`AnyBd (WORST_SCORE - 255)` (e.g. after `hmm_clear`), byte transition entries; every frame's `hmm_senscr` values are in
`[WORST_SCORE, 0]` and an entering score is in `[WORST_SCORE, 0]` (`FrameA.Ok`).  Then for ANY list of frames every call
of the translated `hmm_vit_eval_anytopo` is defined (flag `true`: no signed overflow, loops end), the memory after the
run shows the model's HMM after `anytopoRun`, and that HMM is again in `AnyBd (WORST_SCORE - 255)`. -/
theorem C18_xlate_anytopo_run_invariant (fuel : Nat) (undef : Nat → Int) (sseq : Int → Int → Int)
    (tpm : Int → Int → Int → Int) (mpx : Int) (n : Nat) (tmatid : Int) (tp : Nat → Nat → Nat)
    (htpm : ∀ i j : Nat, i < n → j ≤ n → tpm tmatid (i : Int) (j : Int) = ((tp i j : Nat) : Int))
    (htp : ∀ i j, tp i j ≤ 255) (hn1 : 1 ≤ n) (hn : n ≤ 255) (hfuel : n + 2 ≤ fuel) :
    ∀ (fs : List XFrame) (M : XMem), (∀ f ∈ fs, (f.toA mpx sseq).Ok (-WORST)) → AnyBd (WORST - 255) (M.view n) →
      (xlRun fuel undef sseq tpm mpx n tmatid M fs).2 = true ∧
      (xlRun fuel undef sseq tpm mpx n tmatid M fs).1.view n
        = (anytopoRun true (decide (mpx ≠ 0)) tp (M.view n) (fs.map (XFrame.toA mpx sseq))).1 ∧
      AnyBd (WORST - 255) ((xlRun fuel undef sseq tpm mpx n tmatid M fs).1.view n)
  | [], M, _, hb => ⟨rfl, rfl, hb⟩
  | f :: fs, M, hf, hb => by
    obtain ⟨hc0, hci, he⟩ := hf f (by simp)
    have hW0 := worst_le_zero
    have hW3 := worst_room3
    -- the memory after `hmm_enter`
    have hb' : AnyBd (WORST - 255) ((xlEnter M f.enter).view n) := by
      cases hfe : f.enter with
      | none => exact hb
      | some p =>
        obtain ⟨s, hi⟩ := p
        have := he s hi hfe
        rw [view_enter]
        exact hb.enter ⟨by omega, this.2⟩ (by omega)
    -- this call is defined
    have hok : (xlEval fuel undef sseq tpm mpx n tmatid M f).2 = true := by
      have := (C18_xlate_anytopo_no_wrap fuel undef (xlEnter M f.enter).bs f.senscore sseq (xlEnter M f.enter).stsen tpm
        (xlEnter M f.enter).hist mpx n (xlEnter M f.enter).oh (xlEnter M f.enter).os (xlEnter M f.enter).score
        (xlEnter M f.enter).senid tmatid tp htpm htp (S := -WORST) (B := WORST - 255) (by omega) hc0 hci
        (by rw [const_facts.1]; omega) (Int.le_refl _) hb' hn1 hn hfuel).1
      exact this
    -- the memory after the call shows the model's next HMM, which satisfies the invariant again
    have hv := view_eval fuel undef sseq tpm mpx n tmatid tp htpm hfuel M f
    have st := anytopoStep_core htp true (decide (mpx ≠ 0)) (c := xlC mpx f.senscore sseq) (S := -WORST)
      (B := WORST - 255) (by omega) hc0 hci (by omega) (Int.le_refl _) hb'
    have hnb : nextB true (WORST - 255) (-WORST) = WORST - 255 := by simp [nextB]
    rw [hnb] at st
    have hstep : ((f.toA mpx sseq).apply true (decide (mpx ≠ 0)) tp (M.view n)).1
        = (anytopoStep true (decide (mpx ≠ 0)) tp (xlC mpx f.senscore sseq) ((xlEnter M f.enter).view n)).1 := by
      cases hfe : f.enter with
      | none => simp only [XFrame.toA, FrameA.apply, hfe, xlEnter]
      | some p =>
        obtain ⟨s, hi⟩ := p
        simp only [XFrame.toA, FrameA.apply, hfe]
        rw [← view_enter]
    have hb2 : AnyBd (WORST - 255) ((xlEval fuel undef sseq tpm mpx n tmatid M f).1.view n) := by
      rw [hv, hstep]; exact st.2.1
    have ih := C18_xlate_anytopo_run_invariant fuel undef sseq tpm mpx n tmatid tp htpm htp hn1 hn hfuel fs
      (xlEval fuel undef sseq tpm mpx n tmatid M f).1 (fun g hg => hf g (by simp [hg])) hb2
    simp only [xlRun, List.map_cons, anytopoRun]
    refine ⟨by rw [hok, ih.1]; rfl, ?_, ih.2.2⟩
    rw [ih.2.1, hv]

/-! ## `hmm_clear` (translated): the start state -/

theorem xlC18_clear_loop (n : Nat) : ∀ (d fuel k : Nat) (H S : Int → Int), n ≤ k + d → d < fuel →
    hmm_clear_loop1 (n : Int) fuel (k : Int) H S
      = ((if k ≤ n then (n : Int) else (k : Int)), (fun j => if (k : Int) ≤ j ∧ j < (n : Int) then -1 else H j),
          fun j => if (k : Int) ≤ j ∧ j < (n : Int) then -536870912 else S j) := by
  intro d
  induction d with
  | zero =>
    intro fuel k H S h hf
    obtain ⟨f, rfl⟩ : ∃ f, fuel = f + 1 := ⟨fuel - 1, by omega⟩
    unfold hmm_clear_loop1
    rw [if_neg (by omega)]
    refine Prod.ext (by dsimp only; split <;> omega) (Prod.ext ?_ ?_) <;> funext j <;>
      (have : ¬ ((k : Int) ≤ j ∧ j < (n : Int)) := by omega) <;> simp only [this, if_false]
  | succ d ih =>
    intro fuel k H S h hf
    obtain ⟨f, rfl⟩ : ∃ f, fuel = f + 1 := ⟨fuel - 1, by omega⟩
    unfold hmm_clear_loop1
    by_cases hkn : (k : Int) < (n : Int)
    · rw [if_pos hkn]
      simp only []
      have hk : (k : Int) + 1 = ((k + 1 : Nat) : Int) := by omega
      rw [hk, ih f (k + 1) _ _ (by omega) (by omega)]
      refine Prod.ext (by dsimp only; split <;> split <;> omega) (Prod.ext ?_ ?_) <;> funext j <;> dsimp only <;>
        simp only [upd1_apply] <;>
        by_cases h1 : j = (k : Int) <;> by_cases h2 : ((k : Int) ≤ j ∧ j < (n : Int)) <;>
        by_cases h3 : (((k + 1 : Nat) : Int) ≤ j ∧ j < (n : Int)) <;>
        simp only [h1, h2, h3, if_true, if_false] <;> omega
    · rw [if_neg hkn]
      refine Prod.ext (by dsimp only; split <;> omega) (Prod.ext ?_ ?_) <;> funext j <;>
        (have : ¬ ((k : Int) ≤ j ∧ j < (n : Int)) := by omega) <;> simp only [this, if_false]

theorem xlC18_clear_ok_loop (n : Nat) : ∀ (d fuel k : Nat) (ok : Bool) (H S : Int → Int), n ≤ k + d → d < fuel →
    k + d ≤ 1000 → (hmm_clear_ok_loop1 (n : Int) fuel ok (k : Int) H S).1 = ok := by
  intro d
  induction d with
  | zero =>
    intro fuel k ok H S h hf _
    obtain ⟨f, rfl⟩ : ∃ f, fuel = f + 1 := ⟨fuel - 1, by omega⟩
    unfold hmm_clear_ok_loop1
    rw [if_neg (by omega)]
  | succ d ih =>
    intro fuel k ok H S h hf hk
    obtain ⟨f, rfl⟩ : ∃ f, fuel = f + 1 := ⟨fuel - 1, by omega⟩
    unfold hmm_clear_ok_loop1
    by_cases hkn : (k : Int) < (n : Int)
    · rw [if_pos hkn]
      simp only []
      have hk1 : (k : Int) + 1 = ((k + 1 : Nat) : Int) := by omega
      rw [hk1, ih f (k + 1) _ _ _ (by omega) (by omega) (by omega)]
      cases ok
      · rfl
      · simp only [Bool.true_and, decide_eq_true_eq]; omega
    · rw [if_neg hkn]

/-- **C18, `hmm_clear` as translated from the C text leaves the model's `HA.clear`** (any `n ≥ 1` emitting states; the
senone ids are not touched), and is a defined C execution -/
theorem C18_xlate_clear_refines (fuel : Nat) (undef : Nat → Int) (bs fr : Int) (hist : Int → Int) (n : Nat) (oh os : Int)
    (score senid : Int → Int) (hn1 : 1 ≤ n) (hn : n ≤ 255) (hfuel : n + 1 ≤ fuel) :
    let r := hmm_clear fuel undef bs fr hist (n : Int) oh os score
    xlHA n r.2.2.2.2.2 r.2.2.1 senid r.2.2.2.2.1 r.2.2.2.1 r.1 = HA.clear n ((List.range n).map fun (i : Nat) => senid (i : Int)) ∧
    hmm_clear_ok fuel undef bs fr hist (n : Int) oh os score = true := by
  intro r
  have hl : ∀ H S, hmm_clear_loop1 (n : Int) fuel 1 H S
      = ((if 1 ≤ n then (n : Int) else ((1 : Nat) : Int)), (fun j => if ((1 : Nat) : Int) ≤ j ∧ j < (n : Int) then -1 else H j),
          fun j => if ((1 : Nat) : Int) ≤ j ∧ j < (n : Int) then -536870912 else S j) :=
    fun H S => xlC18_clear_loop n n fuel 1 H S (by omega) (by omega)
  have hlo : ∀ ok H S, (hmm_clear_ok_loop1 (n : Int) fuel ok 1 H S).1 = ok :=
    fun ok H S => xlC18_clear_ok_loop n n fuel 1 ok H S (by omega) (by omega) (by omega)
  have hrep : ∀ (v : Int) (j : Nat), j < n → (List.replicate n v).getD j 0 = v := by
    intro v j hj
    simp [List.getD_eq_getElem?_getD, List.getElem?_replicate, hj]
  refine ⟨?_, ?_⟩
  · simp only [r, hmm_clear]
    rw [hl]
    apply HA_eq <;> simp only [xlHA, HA.clear]
    · apply map_range_eq _ _ (by simp)
      intro j hj
      rw [hrep _ j hj]
      by_cases h1 : ((1 : Nat) : Int) ≤ (j : Int) ∧ (j : Int) < (n : Int)
      · rw [if_pos h1]; rfl
      · rw [if_neg h1]
        have : j = 0 := by omega
        subst this
        simp [upd1_apply]; rfl
    · apply map_range_eq _ _ (by simp)
      intro j hj
      rw [hrep _ j hj]
      by_cases h1 : ((1 : Nat) : Int) ≤ (j : Int) ∧ (j : Int) < (n : Int)
      · rw [if_pos h1]
      · rw [if_neg h1]
        have : j = 0 := by omega
        subst this
        simp [upd1_apply]
    · rfl
    · rfl
  · simp only [hmm_clear_ok]
    rw [hlo]

/-- **C18, from `hmm_clear` through any number of frames, all about the translated C text.**  Whatever the `hmm_t`
held: after the translated `hmm_clear`, any list of frames satisfying `FrameA.Ok` is evaluated by the translated
`hmm_vit_eval_anytopo` (with the translated `hmm_enter` in between) without any undefined operation, and the scores stay
in `[WORST_SCORE - 255, 0]`. -/
theorem C18_xlate_anytopo_run_from_clear (fuel : Nat) (undef : Nat → Int) (sseq : Int → Int → Int)
    (tpm : Int → Int → Int → Int) (mpx : Int) (n : Nat) (tmatid : Int) (tp : Nat → Nat → Nat)
    (htpm : ∀ i j : Nat, i < n → j ≤ n → tpm tmatid (i : Int) (j : Int) = ((tp i j : Nat) : Int))
    (htp : ∀ i j, tp i j ≤ 255) (hn1 : 1 ≤ n) (hn : n ≤ 255) (hfuel : n + 2 ≤ fuel)
    (M : XMem) (fr : Int) (fs : List XFrame) (hfs : ∀ f ∈ fs, (f.toA mpx sseq).Ok (-WORST)) :
    let c := hmm_clear fuel undef M.bs fr M.hist (n : Int) M.oh M.os M.score
    let M0 : XMem := { M with bs := c.1, hist := c.2.2.1, oh := c.2.2.2.1, os := c.2.2.2.2.1, score := c.2.2.2.2.2 }
    hmm_clear_ok fuel undef M.bs fr M.hist (n : Int) M.oh M.os M.score = true ∧
    (xlRun fuel undef sseq tpm mpx n tmatid M0 fs).2 = true ∧
    AnyBd (WORST - 255) ((xlRun fuel undef sseq tpm mpx n tmatid M0 fs).1.view n) := by
  intro c M0
  have hc := C18_xlate_clear_refines fuel undef M.bs fr M.hist n M.oh M.os M.score M.senid hn1 hn (by omega)
  have hb : AnyBd (WORST - 255) (M0.view n) := by
    show AnyBd (WORST - 255) (xlHA n c.2.2.2.2.2 c.2.2.1 M.senid c.2.2.2.2.1 c.2.2.2.1 c.1)
    rw [hc.1]
    exact C18_anytopo_clear_ok n _
  have R := C18_xlate_anytopo_run_invariant fuel undef sseq tpm mpx n tmatid tp htpm htp hn1 hn hfuel fs M0 hfs hb
  exact ⟨hc.2, R.1, R.2.2⟩

/-- non-vacuity: `hmm_clear` for any number of states satisfies the start hypothesis -/
example (n : Nat) (ids : List Int) : AnyBd (WORST - 255) (HA.clear n ids) := C18_anytopo_clear_ok n ids

end SSVerif
