import SSVerif.Proofs.AcmodFe
import SSVerif.Props.C06
/-!
# C07 on samples — the acoustic-model ring fed by the real front end (M5 ∘ M4)

The theorems of `Props/C07.lean` take the answers of the front end as given (`FeResp` lists) and need the contract
"`fe_end` returns a frame whenever frames were delivered" as a hypothesis (`hfe`).  Here the front end is c06's model
(`Model/FeBuf.lean`, theorems `Proofs/FeBuf.lean`) *inside* `acmod_process_raw` / `acmod_end_utt`
(`Model/AcmodFe.lean`): the room handed to each `fe_process_*` call is the room the cepstrum ring really has at that
moment, the room handed to `fe_end` is `n_mfc_alloc - inptr`, and the chunks are arbitrary partitions of the stream
`[0, N)` — down to one sample per call, with `no_search` or not, with queries and partial alignments in between.

* `C07_runUttS_eq_runUtt` — the acoustic-model state is the state M5 computes on the responses the front end really
  gave, and these responses satisfy every hypothesis of the theorems of `Props/C07.lean` (`hcmn`, `hfe`, `hstream`):
  the `fe_end` contract is a theorem, not an assumption.
* `C07_nextId_eq_frameCount` — for every partition of `N` samples into calls the number of cepstral frames numbered
  into the ring, the number of search steps and `output_frame` are `frameCount size shift N` (c06's closed form).
* `C07_samples_to_windows_canonical` — the front end has computed exactly the canonical frames of the whole signal
  (`canonical size shift N`: frame `k` is the window `[k·shift, k·shift+size)`, the last one the short rest), no read
  left its buffers, and the search was handed, in order and each exactly once, the canonical dynamic-feature windows
  `canon win M k` over these `M` frames.  Cepstral frame id `k` *is* the `k`-th frame the front end emitted: ids are
  assigned in emission order and the invariant `nextId = number of frames emitted` holds at every call boundary
  (`FeInv … (c + a) …` in `Proofs/AcmodFe.lean`), none clamped away (`a = offered rs`).
* `C07_samples_chunking_independent` — two partitions of the same number of samples give the same search input.

Hypotheses: `0 < shift < size` (`fe_init` enforces `shift ≤ size`; with `shift = size` an utterance that ends exactly
on a window boundary has no `fe_end` frame and `acmod_end_utt` then never flushes the end padding — outside the
configurations `config.c` can produce with the default 25.6 ms / 10 ms, recorded in `evidence/C07.json`), the D25-repaired
front end (`fixed = true`), the structural well-formedness `WF0`, `3·win+2 ≤ livebuf`, and the live-CMN frame budget
expressed in samples: `cmnFrames + frameCount N ≤ cmnWinHwm`.
-/
namespace SSVerif.AcmodFe

open SSVerif.AcmodBuf SSVerif.FeBuf SSVerif.Generated List

theorem frameCount_rest {size shift k o : Nat} (hs : 0 < shift) (hlt : o < size) (hge : k = 0 ∨ size ≤ o + shift) :
    frameCount size shift (k * shift + o) = k + (if 0 < o then 1 else 0) := by
  unfold frameCount
  rw [fullCount_eq hs hlt hge]
  by_cases ho : 0 < o
  · rw [if_pos (by omega), if_pos ho]
  · rw [if_neg (by omega), if_neg ho]

theorem fullCount_le_frameCount (size shift N : Nat) : FeBuf.fullCount size shift N ≤ frameCount size shift N :=
  Nat.le_add_right _ _

/-- everything about a whole run on samples -/
theorem runUttS_main (size shift win : Nat) (skip : Nat → Bool) (s0 : St) (ops : List OpS) (post : List Op)
    (hs : 0 < shift) (hlt : shift < size) (hwf : WF0 s0) (hw : 3 * win + 2 ≤ livebuf)
    (hcmn : s0.cmnFrames + frameCount size shift (samplesOf ops) ≤ cmnWinHwm)
    (hpost : ∀ op, op ∈ post → op.isProcess = false) :
    ∃ (ops' : List Op) (tail : Bool),
      (runUttS ⟨size, shift, true⟩ true win skip s0 ops post).st = runUtt true win skip s0 ops' tail post ∧
      s0.cmnFrames + offeredOps ops' + (if tail then 1 else 0) ≤ cmnWinHwm ∧
      (tail = true ∨ (runOps true win skip (startUtt s0) ops').nextId = 0) ∧
      (∀ op, op ∈ ops' → op.isFull = false) ∧
      offeredOps ops' + (if tail then 1 else 0) = frameCount size shift (samplesOf ops) ∧
      (runUttS ⟨size, shift, true⟩ true win skip s0 ops post).st.nextId = frameCount size shift (samplesOf ops) ∧
      (runUttS ⟨size, shift, true⟩ true win skip s0 ops post).fe.out = canonical size shift (samplesOf ops) ∧
      (runUttS ⟨size, shift, true⟩ true win skip s0 ops post).feBad = false ∧
      Closed win (runUttS ⟨size, shift, true⟩ true win skip s0 ops post).st := by
  have hsl : (Cfg.mk size shift true).slack = 1 := rfl
  have hss : shift ≤ size := Nat.le_of_lt hlt
  have h0 := startS_open ⟨size, shift, true⟩ hs hss win s0 hwf
  have hfc := fullCount_le_frameCount size shift (samplesOf ops)
  obtain ⟨o1, u1, u2, u3, u4, u5⟩ := runOpsS_spec ⟨size, shift, true⟩ hs hss hsl win skip (by omega) s0.cmnFrames ops
    (startS s0) 0 h0 (by show _ + FeBuf.fullCount size shift (0 + samplesOf ops) ≤ _; rw [Nat.zero_add]; omega)
  generalize hR : runOpsS ⟨size, shift, true⟩ true win skip (startS s0) ops = R at u1 u2 u3 u4 u5
  have hN : samplesOf ops = R.1.st.nextId * shift + o1 := by
    have := u1.pos; have h2 : R.1.pos = 0 + samplesOf ops := u2
    show _ = R.1.st.nextId * (Cfg.mk size shift true).shift + o1
    omega
  have hle := u1.fe.rest.le
  rw [hsl] at hle
  have hle' : o1 < size := by show o1 < (Cfg.mk size shift true).size; omega
  have hfr := frameCount_rest (k := R.1.st.nextId) hs hle' u1.fe.rest.ge
  rw [← hN] at hfr
  have u3' : offeredOps R.2 = R.1.st.nextId := by
    have : (startS s0).st.nextId = 0 := rfl
    rw [this] at u3; omega
  obtain ⟨fe', cl, d1, d2, d3, d4, d5⟩ := decEndS_spec ⟨size, shift, true⟩ hs hlt win skip hw s0.cmnFrames R.1 o1 u1
    (by omega)
  have hF : runUttS ⟨size, shift, true⟩ true win skip s0 ops post =
      { R.1 with fe := fe', st := runOps true win skip (decEnd true win skip R.1.st (decide (0 < o1))) post, calls := cl } := by
    simp only [runUttS, hR, d1]
  have hite : (if decide (0 < o1) = true then 1 else 0) = if 0 < o1 then 1 else 0 := by
    by_cases ho : 0 < o1
    · simp [ho]
    · simp [ho]
  have u4' : runOps true win skip (startUtt s0) R.2 = R.1.st := u4
  rw [hF]
  simp only []
  refine ⟨R.2, decide (0 < o1), ?_, ?_, ?_, u5, ?_, ?_, ?_, u1.fe.ok, runOps_closed win skip post _ d3 hpost⟩
  · unfold runUtt; rw [u4']
  · rw [hite, u3']; omega
  · rw [u4']; exact d5
  · rw [hite, u3', hfr]
  · rw [runOps_closed_next win skip post _ d3 hpost, d4, hfr]
  · rw [d2, hN]
    exact (canonical_eq hs hle' u1.fe.rest.ge).symm

/-- **the response lists are not an assumption.**  The acoustic-model state of a run on samples is the state M5
    (`runUtt`) computes on the responses the front end really gives for the room the ring really has, and these
    responses meet the hypotheses `hcmn`, `hfe`, `hstream` of every theorem of `Props/C07.lean`. -/
theorem C07_runUttS_eq_runUtt (size shift win : Nat) (skip : Nat → Bool) (s0 : St) (ops : List OpS) (post : List Op)
    (hs : 0 < shift) (hlt : shift < size) (hwf : WF0 s0) (hw : 3 * win + 2 ≤ livebuf)
    (hcmn : s0.cmnFrames + frameCount size shift (samplesOf ops) ≤ cmnWinHwm)
    (hpost : ∀ op, op ∈ post → op.isProcess = false) :
    ∃ (ops' : List Op) (tail : Bool),
      (runUttS ⟨size, shift, true⟩ true win skip s0 ops post).st = runUtt true win skip s0 ops' tail post ∧
      s0.cmnFrames + offeredOps ops' + (if tail then 1 else 0) ≤ cmnWinHwm ∧
      (tail = true ∨ (runOps true win skip (startUtt s0) ops').nextId = 0) ∧
      (∀ op, op ∈ ops' → op.isFull = false) ∧
      offeredOps ops' + (if tail then 1 else 0) = frameCount size shift (samplesOf ops) := by
  obtain ⟨ops', tail, h1, h2, h3, h4, h5, _⟩ := runUttS_main size shift win skip s0 ops post hs hlt hwf hw hcmn hpost
  exact ⟨ops', tail, h1, h2, h3, h4, h5⟩

/-- **frame count.**  For every partition of `N` samples into `decoder_process_*` calls (any chunk lengths, `no_search`
    or not, queries and partial alignments in between, any history before the utterance) the number of cepstral frames
    numbered into the ring, the number of search steps and `output_frame` are `frameCount size shift N`, and nothing is
    left in the feature queue. -/
theorem C07_nextId_eq_frameCount (size shift win : Nat) (skip : Nat → Bool) (s0 : St) (ops : List OpS) (post : List Op)
    (hs : 0 < shift) (hlt : shift < size) (hwf : WF0 s0) (hw : 3 * win + 2 ≤ livebuf)
    (hcmn : s0.cmnFrames + frameCount size shift (samplesOf ops) ≤ cmnWinHwm)
    (hpost : ∀ op, op ∈ post → op.isProcess = false) :
    let sf := (runUttS ⟨size, shift, true⟩ true win skip s0 ops post).st
    sf.nextId = frameCount size shift (samplesOf ops) ∧ sf.searched.length = frameCount size shift (samplesOf ops) ∧
      sf.outputFrame = frameCount size shift (samplesOf ops) ∧ sf.nFeatFrame = 0 := by
  intro sf
  obtain ⟨_, _, _, _, _, _, _, h6, _, _, h9⟩ := runUttS_main size shift win skip s0 ops post hs hlt hwf hw hcmn hpost
  have hc := h9.core.cnt
  have hn := h9.nff
  have hl := congrArg List.length h9.searched_eq
  simp only [length_map, length_range] at hl
  refine ⟨h6, ?_, ?_, hn⟩ <;> (simp only [sf]; omega)

/-- **samples to windows, end to end.**  For every partition of the signal `[0, N)` into calls: no front-end read leaves
    its buffers, the front end computes exactly the canonical frames of the whole signal, and the search receives, in
    order and each exactly once, the canonical dynamic-feature windows over these `M = frameCount size shift N` frames
    (cepstral frame id `k` is the `k`-th of them); every alignment pass is a prefix of the same sequence. -/
theorem C07_samples_to_windows_canonical (size shift win : Nat) (skip : Nat → Bool) (s0 : St) (ops : List OpS)
    (post : List Op) (hs : 0 < shift) (hlt : shift < size) (hwf : WF0 s0) (hw : 3 * win + 2 ≤ livebuf)
    (hcmn : s0.cmnFrames + frameCount size shift (samplesOf ops) ≤ cmnWinHwm)
    (hpost : ∀ op, op ∈ post → op.isProcess = false) :
    let F := runUttS ⟨size, shift, true⟩ true win skip s0 ops post
    let M := frameCount size shift (samplesOf ops)
    F.feBad = false ∧ F.st.fault = none ∧ F.fe.out = canonical size shift (samplesOf ops) ∧ F.fe.out.length = M ∧
      F.st.searched = (List.range M).map (fun k => (k, some (canon win M k))) ∧
      (∀ l, l ∈ F.st.aligned → ∃ p, p ≤ M ∧ l = (List.range p).map fun k => (k, some (canon win M k))) := by
  intro F M
  obtain ⟨_, _, _, _, _, _, _, h6, h7, h8, h9⟩ := runUttS_main size shift win skip s0 ops post hs hlt hwf hw hcmn hpost
  have h6' : F.st.nextId = M := h6
  have hs1 := h9.searched_eq
  have ha1 := h9.aligned_eq
  rw [h6] at hs1 ha1
  exact ⟨h8, h9.core.nofault, h7, by rw [h7, canonical_length], hs1, ha1⟩

/-- **chunking independence on samples.**  Two arbitrary partitions of the same number of samples — any two call
    patterns, any two histories before the utterance — hand the search the same sequence of feature windows. -/
theorem C07_samples_chunking_independent (size shift win : Nat) (skip skip' : Nat → Bool) (s0 s0' : St)
    (ops ops' : List OpS) (post post' : List Op) (hs : 0 < shift) (hlt : shift < size) (hwf : WF0 s0) (hwf' : WF0 s0')
    (hw : 3 * win + 2 ≤ livebuf) (hN : samplesOf ops = samplesOf ops')
    (hcmn : s0.cmnFrames + frameCount size shift (samplesOf ops) ≤ cmnWinHwm)
    (hcmn' : s0'.cmnFrames + frameCount size shift (samplesOf ops') ≤ cmnWinHwm)
    (hpost : ∀ op, op ∈ post → op.isProcess = false) (hpost' : ∀ op, op ∈ post' → op.isProcess = false) :
    (runUttS ⟨size, shift, true⟩ true win skip s0 ops post).st.searched =
      (runUttS ⟨size, shift, true⟩ true win skip' s0' ops' post').st.searched ∧
    (runUttS ⟨size, shift, true⟩ true win skip s0 ops post).fe.out =
      (runUttS ⟨size, shift, true⟩ true win skip' s0' ops' post').fe.out := by
  obtain ⟨_, _, a3, _, a5, _⟩ := C07_samples_to_windows_canonical size shift win skip s0 ops post hs hlt hwf hw hcmn hpost
  obtain ⟨_, _, b3, _, b5, _⟩ := C07_samples_to_windows_canonical size shift win skip' s0' ops' post' hs hlt hwf' hw hcmn' hpost'
  exact ⟨by rw [a5, b5, hN], by rw [a3, b3, hN]⟩

/-! ## non-vacuity: concrete runs of the composed model -/

/-- 23 samples, windows of 5 with shift 2 (`frameCount 5 2 23 = 11`), fed as 3 + 1 (buffered) + 0 + 12 + 7 samples with a
    query and a partial alignment in between -/
def exOpsS : List OpS :=
  [.process false 3, .process true 1, .query, .process false 0, .process false 12, .align (some 2), .process false 7]

example : samplesOf exOpsS = 23 ∧ frameCount 5 2 23 = 11 := by decide

example : (runUttS ⟨5, 2, true⟩ true 3 (fun _ => false) (St.init 500) exOpsS [.align (some 11)]).st.nextId = 11 ∧
    (runUttS ⟨5, 2, true⟩ true 3 (fun _ => false) (St.init 500) exOpsS [.align (some 11)]).st.searched.length = 11 ∧
    (runUttS ⟨5, 2, true⟩ true 3 (fun _ => false) (St.init 500) exOpsS [.align (some 11)]).feBad = false ∧
    (runUttS ⟨5, 2, true⟩ true 3 (fun _ => false) (St.init 500) exOpsS [.align (some 11)]).st.fault = none := by
  decide +kernel

/-- one sample per call gives the same search input -/
example : (runUttS ⟨5, 2, true⟩ true 3 (fun _ => false) (St.init 500) ((List.range 23).map fun _ => .process false 1) []).st.searched =
    (runUttS ⟨5, 2, true⟩ true 3 (fun _ => false) (St.init 500) exOpsS []).st.searched := by decide +kernel

/-- a ring of 4 cepstral frames: the calls are limited by the room of the ring and wrap (`inptr + ncep > n_mfc_alloc`),
    53 samples in one call give 25 frames all the same -/
def tinyRing : St := { St.init 500 with mfcBuf := List.replicate 4 none, nMfcAlloc := 4 }

example : (runUttS ⟨5, 2, true⟩ true 3 (fun _ => false) tinyRing [.process false 3, .process false 50] []).st.searched.length =
      frameCount 5 2 53 ∧
    (runUttS ⟨5, 2, true⟩ true 3 (fun _ => false) tinyRing [.process false 3, .process false 50] []).st.fault = none := by
  decide +kernel

end SSVerif.AcmodFe
