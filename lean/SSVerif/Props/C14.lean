import SSVerif.Proofs.JsonExact
import SSVerif.Proofs.JsonUtf8
set_option linter.unusedSimpArgs false
/-!
# C14 — The JSON result is well-formed and says what the iterators say

Property theorems only.  The model (`SSVerif/Model/Json.lean`) is `decoder_result_json` of src/decoder.c **with the
repairs D13 and D14** (fixes/): `resultJson fmt r level` runs the sizing pass, allocates, runs the writing pass and
returns the allocated size and the block; `fmt : Fmt` is `snprintf`'s rendering of the `%.3f` arguments, about which
only `fmt.numLen a = (fmt.num a).length` is assumed (it is a field of `Fmt`).  `r : Result` is everything the function
reads through `decoder_hyp`, `decoder_prob`, `decoder_n_frames`, `decoder_seg_iter`, `decoder_alignment` and the
`frate` configuration value; it is universally quantified, so empty, filler-only, partial and final results, every
frame rate (also 0 or negative), every word spelling (any byte string) and every level are covered.
`write`/`measure` are `resultJson` projected to the C string in the block / the size passed to the allocator.
-/
namespace SSVerif.Json

/-- **C14, the two passes agree.**  Whenever the function returns a line: the sizing pass raised no flag; the writing
pass stored nothing outside the block it allocated and every `assert` (`maxlen > 6`, `maxlen > 0`, `maxlen == 3`)
held; the block is exactly `alloc` bytes; it consists of a line, one terminating NUL, and nothing else — so the text
is exactly as long as the buffer allocated for it minus the terminator; and the line ends in `}` newline. -/
theorem C14_two_pass_agree (fmt : Fmt) (r : Result) (level : Int) (o : Out) (h : resultJson fmt r level = some o) :
    o.dryOk = true ∧ o.mem.ok = true ∧ (o.mem.bytes.length : Int) = o.alloc ∧
    ∃ body, o.mem.bytes = body ++ [125, 10] ++ [0] ∧ ((body ++ [125, 10]).length : Int) + 1 = o.alloc := by
  rw [resultJson_exact] at h
  split at h
  · cases h
  · cases h
    have hw : ∃ body, printV (tree fmt r level) = body ++ [125] := by
      rw [tree, printV_obj_entry_w]; exact ⟨_, by rw [show ([93, 125] : Bytes) = [93] ++ [125] from rfl, ← List.append_assoc]⟩
    obtain ⟨body, hb⟩ := hw
    refine ⟨rfl, rfl, by simp, body, ?_, ?_⟩
    · simp [hb]
    · simp [hb]; omega

/-- the function returns `NULL` exactly when an alignment level is requested and `decoder_alignment` gives none -/
theorem C14_null_iff (fmt : Fmt) (r : Result) (level : Int) :
    resultJson fmt r level = none ↔ (level ≠ 0 ∧ r.align = none) := by
  rw [resultJson_exact]
  by_cases h : level ≠ 0 ∧ r.align = none
  · simp [h]
  · simp only [if_neg h]; simp [h]

/-- **C14, `strlen + 1` is the allocation** (`(write r).length + 1 = measure r`): when the number renderings contain
no NUL (implied by `NumOK`), the C string the caller reads is the whole line. -/
theorem C14_strlen_is_alloc (fmt : Fmt) (hn : NumOK fmt) (r : Result) (level : Int) (w : Bytes) (n : Int)
    (hw : write fmt r level = some w) (hm : measure fmt r level = some n) :
    (w.length : Int) + 1 = n ∧ w = printV (tree fmt r level) ++ [10] := by
  unfold write at hw; unfold measure at hm
  rw [resultJson_exact] at hw hm
  by_cases h : level ≠ 0 ∧ r.align = none
  · rw [if_pos h] at hw; cases hw
  · rw [if_neg h] at hw hm
    simp only [Option.map_some, Option.some.injEq] at hw hm
    have hz : NZ (printV (tree fmt r level) ++ [10]) :=
      NZ.append (noNulV _ (wf_tree fmt hn r level)) (NZ.cons (by decide) NZ.nil)
    have : cstr (printV (tree fmt r level) ++ [10, 0]) = printV (tree fmt r level) ++ [10] := by
      have := takeWhile_nz _ hz
      rw [List.append_assoc] at this
      exact this
    rw [this] at hw
    subst hw; subst hm
    exact ⟨by simp; omega, rfl⟩

/-- **C14, validity and content.**  If `%.3f` renders JSON numbers, the line the caller reads is accepted by the
recogniser `parseLine` (RFC 8259 syntax, exactly one object followed by exactly one newline) **for every word
spelling** — quotes, backslashes, control bytes, bytes ≥ 0x80 — and the value it denotes is `tree fmt r level`:
the strings are the *unescaped* spellings, the numbers are the renderings of the argument expressions recorded in
`Num`. -/
theorem C14_json_valid (fmt : Fmt) (hn : NumOK fmt) (r : Result) (level : Int) (w : Bytes)
    (hw : write fmt r level = some w) : parseLine w = some (tree fmt r level) := by
  obtain ⟨n, hm⟩ : ∃ n, measure fmt r level = some n := by
    unfold write at hw; unfold measure
    cases hr : resultJson fmt r level with
    | none => rw [hr] at hw; cases hw
    | some o => exact ⟨_, rfl⟩
  obtain ⟨_, rfl⟩ := C14_strlen_is_alloc fmt hn r level w n hw hm
  have := wf_tree fmt hn r level
  rw [tree] at this ⊢
  exact parseLine_print _ this

/-- **C14, the line says what the iterators say.**  The parsed object has exactly the members `b, d, p, t, w` with
`b` = rendering of `start`, `d` = rendering of `n_frames / frate`, `p` = rendering of `exp(decoder_prob)`,
`t` = the hypothesis string (empty when `NULL`); at level 0 `w` lists, in order, one object per segment with
`b` = rendering of `start + sf/frate`, `d` = rendering of `(ef + 1 − sf)/frate`, `p` = rendering of `exp(prob)`,
`t` = the word; at level ≠ 0 `w` lists one object per alignment word with `b` = `start + start_frame/frate`,
`d` = `duration/frate`, `p` = `exp(score)`, `t` = the name and a nested `w` of its phones, each of which carries a
nested `w` of its states exactly when level > 1.  (`entryFields fmt b d p t` abbreviates the four members.) -/
theorem C14_json_says_iterators (fmt : Fmt) (hn : NumOK fmt) (r : Result) (level : Int) (w : Bytes)
    (hw : write fmt r level = some w) :
    ∃ ws : List JV,
      parseLine w = some (.obj (entryFields fmt .start (.ratio r.nframes r.frate) (.prob r.prob) r.hyp ++ [([119], .arr ws)])) ∧
      (level = 0 → ws = r.segs.map fun s =>
        .obj (entryFields fmt (.time s.sf r.frate) (.ratio (s.ef + 1 - s.sf) r.frate) (.prob s.prob) s.word)) ∧
      (level ≠ 0 → ∃ al, r.align = some al ∧ ws = al.map fun wd =>
        .obj (entryFields fmt (.time wd.e.start r.frate) (.ratio wd.e.dur r.frate) (.prob wd.e.score) wd.e.name ++
          [([119], .arr (wd.phones.map fun p =>
            .obj (entryFields fmt (.time p.e.start r.frate) (.ratio p.e.dur r.frate) (.prob p.e.score) p.e.name ++
              if level > 1 then
                [([119], .arr (p.states.map fun e =>
                  .obj (entryFields fmt (.time e.start r.frate) (.ratio e.dur r.frate) (.prob e.score) e.name)))]
              else [])))])) := by
  refine ⟨items fmt r level, ?_, ?_, ?_⟩
  · rw [C14_json_valid fmt hn r level w hw, tree]
  · intro hl
    simp only [items, hl, ne_eq, not_true_eq_false, if_false]
    rfl
  · intro hl
    have hnone : ¬ (level ≠ 0 ∧ r.align = none) := by
      intro hc
      have := (C14_null_iff fmt r level).mpr hc
      unfold write at hw; rw [this] at hw; cases hw
    cases ha : r.align with
    | none => exact absurd ⟨hl, ha⟩ hnone
    | some al =>
      refine ⟨al, rfl, ?_⟩
      simp only [items, hl, ne_eq, not_false_eq_true, if_true, ha, Option.getD_some]
      apply List.map_congr_left
      intro wd _
      by_cases h1 : level > 1
      · simp only [h1, decide_true, if_true]; rfl
      · simp only [h1, decide_false, if_false]
        show wordTree fmt r.frate false wd = _
        simp only [wordTree, aentFields]
        congr 4
        first
          | done
          | (apply List.map_congr_left
             intro p _
             simp [phoneTree, aentFields])

/-- **C14, `json_escape` fits its buffer** (repair D13): the counting loop and the writing loop of `json_escape`
agree, so the `len + 1` bytes it allocates hold the escaped string and its NUL exactly. -/
theorem C14_escape_fits (w : Bytes) : escLen w = (jsonEscape w).length := by
  induction w with
  | nil => rfl
  | cons c t ih =>
    simp only [escLen, jsonEscape, List.length_append, ih, escByte]
    by_cases h1 : c = 34 ∨ c = 92
    · simp [h1]
    · by_cases h2 : c < 32 <;> simp [h1, h2]

/-- **C14, escaping is transparent and safe**: every spelling, once escaped and quoted, is read back by the
recogniser as exactly that spelling; bytes ≥ 0x80 (and every other byte ≥ 0x20 except `"` and `\`) are copied
unchanged. -/
theorem C14_escape_roundtrip (s rest : Bytes) :
    parseStr (jsonEscape s ++ 34 :: rest) = some (s, rest) ∧
    (∀ b : UInt8, 32 ≤ b → b ≠ 34 → b ≠ 92 → jsonEscape [b] = [b]) := by
  refine ⟨by rw [jsonEscape_eq]; exact parseStr_print s rest, ?_⟩
  intro b h1 h2 h3
  have : ¬ b < 32 := by
    intro h; exact absurd (UInt8.le_iff_toNat_le.mp h1) (by have := UInt8.lt_iff_toNat_lt.mp h; simp at *; omega)
  simp [jsonEscape, escByte, h2, h3, this]

/-- **C14, non-ASCII bytes.**  Bytes ≥ 0x80 are copied verbatim, and escaping is transparent to a UTF-8 decoder:
the escaped spelling is well-formed UTF-8 (lead/continuation byte shape) exactly when the spelling is.  So the line
is syntactically valid JSON for *every* spelling (`C14_json_valid`), and its strings are valid UTF-8 exactly when the
dictionary spellings are. -/
theorem C14_escape_utf8 (w : Bytes) : isUtf8 (jsonEscape w) = isUtf8 w := by
  unfold isUtf8; rw [utf8Run_jsonEscape]

/-! ### non-vacuity -/

/-- a rendering stand-in: every number prints as `0.5` -/
def fmtHalf : Fmt := { num := fun _ => [48, 46, 53], numLen := fun _ => 3, numLen_eq := fun _ => rfl }

theorem fmtHalf_ok : NumOK fmtHalf := fun _ => by show isJsonNumber [48, 46, 53] = true; decide

/-- a final result with a quote, a backslash, a control byte and a non-ASCII byte in its words, two segments, and a
two-word alignment with phones and states -/
def exResult : Result where
  hyp := some [103, 111, 32, 34, 92, 1, 195, 169]          -- go "\<01>é
  prob := -12
  nframes := 10
  frate := 100
  segs := [⟨some [103, 111], 0, 3, -5⟩, ⟨some [34, 92, 1, 195, 169], 4, 9, -7⟩]
  align := some [⟨⟨some [103, 111], 0, 4, -3⟩, [⟨⟨some [71], 0, 2, -1⟩, [⟨some [49, 50], 0, 1, 0⟩, ⟨some [49, 51], 1, 1, 0⟩]⟩,
                                                ⟨⟨some [79, 87], 2, 2, -1⟩, []⟩]⟩,
                 ⟨⟨some [34, 92, 1, 195, 169], 4, 6, -3⟩, []⟩]

-- the hypotheses of the theorems are met by concrete non-trivial instances, at all three levels, and the
-- conclusions are observable: sizes, flags, and acceptance by the recogniser
example : (resultJson fmtHalf exResult 0).map (fun o => (o.alloc, o.mem.ok, o.dryOk, o.mem.bytes.length,
    (parseLine (cstr o.mem.bytes)).isSome)) = some (135, true, true, 135, true) := by decide +kernel
example : (resultJson fmtHalf exResult 1).map (fun o => (o.alloc, o.mem.ok, o.dryOk, (parseLine (cstr o.mem.bytes)).isSome))
    = some (217, true, true, true) := by decide +kernel
example : (resultJson fmtHalf exResult 2).map (fun o => (o.alloc, o.mem.ok, o.dryOk, (parseLine (cstr o.mem.bytes)).isSome))
    = some (300, true, true, true) := by decide +kernel
-- empty results: no segments (level 0), an alignment with no words (levels 1, 2: the D14 case), no alignment
example : (resultJson fmtHalf { exResult with hyp := none, segs := [], align := some [] } 0).map
    (fun o => (o.alloc, o.mem.ok, cstr o.mem.bytes)) =
    some (41, true, [123, 34, 98, 34, 58, 48, 46, 53, 44, 34, 100, 34, 58, 48, 46, 53, 44, 34, 112, 34, 58, 48, 46, 53,
                     44, 34, 116, 34, 58, 34, 34, 44, 34, 119, 34, 58, 91, 93, 125, 10]) := by decide +kernel
example : (resultJson fmtHalf { exResult with hyp := none, segs := [], align := some [] } 2).map
    (fun o => (o.alloc, o.mem.ok, (parseLine (cstr o.mem.bytes)).isSome)) = some (41, true, true) := by decide +kernel
example : resultJson fmtHalf { exResult with align := none } 1 = none := by decide +kernel
-- D13: the line the unrepaired code produced for the word `say"hi\` (no escaping) is rejected by the recogniser,
-- the repaired one is accepted
example : parseLine [123, 34, 116, 34, 58, 34, 115, 97, 121, 34, 104, 105, 92, 34, 125, 10] = none := by decide +kernel
example : (parseLine [123, 34, 116, 34, 58, 34, 115, 97, 121, 92, 34, 104, 105, 92, 92, 34, 125, 10]).isSome = true := by decide +kernel
-- UTF-8: `é"` stays well-formed after escaping, a lone 0xE9 stays ill-formed
example : isUtf8 (jsonEscape [195, 169, 34]) = true ∧ isUtf8 (jsonEscape [233, 34]) = false := by decide +kernel

end SSVerif.Json
