import SSVerif.Props.C04
import SSVerif.Proofs.AlignDead
/-!
# C04 — a dead final state gives no alignment (audit item B6(a))

`state_align_search_finish` only tests `hmm_out_history(final_phone) == -1` before it walks the token stack; the exit
*score* is never looked at.  These theorems say that this is enough: for the second pass of the model (`Step.run`, the
same symbol the driver runs on the senone scores the real pass saw) the backtrace returns an alignment **exactly when**
the final out-score is alive (`> WORST_SCORE`).  Together with `C04_model_run_hierarchy` (alive ⇒ an alignment that
satisfies the hierarchy) this closes the case distinction: a returned alignment is never read off a dead search.

Hypotheses are those of `C04_alignStep_WFTokens` (in-range senone scores and transition costs, skip-free matrices — all
evaluated by the driver on the dumped data: `FrameOK` / `frameOKB`; first window starts at 0, `ef` monotone, the last
phone's window reaches the end — consequences of `Contig words 0 T`, proved in `populated_windows_ok`; `T ≤ 16 140`).
-/
namespace SSVerif.Align

/-- **C04, a dead final state yields no alignment.**  Constrained Viterbi over `T` frames (`T·33022 ≤ 533 000 000`)
with in-range data and skip-free matrices, window starts `sf` (first `≤ 0`), monotone window ends `ef` with the last
phone's window open to frame `T`: if the final out-score `hmm_out_score(final_phone)` is **not** alive
(`≤ WORST_SCORE`), `state_align_search_finish` returns -1 — either at the `last.id == -1` test or inside the backtrace
loop at a token with history `-1` — for every alignment object handed to it.  (The exit history of a dead search is in
general **not** `-1`: `record_transitions` relabels dead states of active HMMs too; the proof follows the chain of dead
tokens down to a `-1`.) -/
theorem C04_dead_final_no_alignment (tps : Array (Array Int)) (sf ef : Array Int) (frames : List (Array Int))
    (hok : ∀ sen ∈ frames, Step.FrameOK tps sen) (hsf : sf.getD 0 0 ≤ 0)
    (hmono : ∀ i, i + 1 < sf.size → ef.getD i 0 ≤ ef.getD (i + 1) 0)
    (hT : (frames.length : Int) * 33022 ≤ 533000000)
    (hend : (frames.length : Int) ≤ ef.getD (sf.size - 1) 0)
    (hdead : ¬ (Step.run tps sf ef frames).2.1.score > Step.worst) (a : Alignment) :
    finish (Step.run tps sf ef frames).1 frames.length (Step.run tps sf ef frames).2.1 a = none := by
  have h := Step.run_dead tps sf ef frames hok hsf hmono hT hend (by omega)
  have hb : backtrace (Step.run tps sf ef frames).1 frames.length (Step.run tps sf ef frames).2.1 a.states = none := by
    unfold backtrace
    rcases h with e | e
    · rw [if_pos e]
    · by_cases c : (Step.run tps sf ef frames).2.1.id = -1
      · rw [if_pos c]
      · rw [if_neg c, e _ rfl]
  unfold finish
  rw [hb]

/-- **C04, converse: a returned alignment implies an alive final state.**  Under the same hypotheses, whenever
`state_align_search_finish` succeeds on the token stack of the model's second pass, the final out-score is alive. -/
theorem C04_alignment_implies_final_alive (tps : Array (Array Int)) (sf ef : Array Int) (frames : List (Array Int))
    (hok : ∀ sen ∈ frames, Step.FrameOK tps sen) (hsf : sf.getD 0 0 ≤ 0)
    (hmono : ∀ i, i + 1 < sf.size → ef.getD i 0 ≤ ef.getD (i + 1) 0)
    (hT : (frames.length : Int) * 33022 ≤ 533000000)
    (hend : (frames.length : Int) ≤ ef.getD (sf.size - 1) 0) (a a' : Alignment)
    (hfin : finish (Step.run tps sf ef frames).1 frames.length (Step.run tps sf ef frames).2.1 a = some a') :
    (Step.run tps sf ef frames).2.1.score > Step.worst := by
  by_cases c : (Step.run tps sf ef frames).2.1.score > Step.worst
  · exact c
  · rw [C04_dead_final_no_alignment tps sf ef frames hok hsf hmono hT hend c a] at hfin
    cases hfin

/-- **C04, the second pass of the model returns an alignment exactly when its final state is alive.**  For every
dictionary with three emitting states per phone, first-pass words with non-empty pronunciations that tile `[0,T)`,
`T ≤ 16 140` frames of in-range senone scores and skip-free matrices: `finish` on the token stack of `Step.run` over the
windows of `populate D words` yields an alignment iff the final out-score is alive; and then (by
`C04_model_run_hierarchy`) the alignment lists the first-pass words with their start frames and durations and every
level tiles `[0,T)`. -/
theorem C04_model_run_alignment_iff_alive (D : Dict) (words : List Entry) (tps : Array (Array Int))
    (frames : List (Array Int))
    (h3 : D.nEmit = 3) (hP : ∀ w ∈ words, D.pron w.id ≠ []) (hfp : Contig words 0 frames.length)
    (hok : ∀ sen ∈ frames, Step.FrameOK tps sen) (hT : (frames.length : Int) * 33022 ≤ 533000000) :
    let r := Step.run tps ((populate D words).phones.map sfOf).toArray ((populate D words).phones.map efOf).toArray frames
    ((∃ a', finish r.1 frames.length r.2.1 (populate D words) = some a') ↔ r.2.1.score > Step.worst) ∧
    (∀ a', finish r.1 frames.length r.2.1 (populate D words) = some a' →
      a'.words.map (fun e => (e.id, e.start, e.duration)) = words.map (fun e => (e.id, e.start, e.duration)) ∧
      Contig a'.states 0 frames.length ∧ Contig a'.phones 0 frames.length ∧ Contig a'.words 0 frames.length) := by
  intro r
  obtain ⟨_, _, _, _, _, p6, _, _, _, _, _⟩ := C04_populate_structure D words
  have hposW : ∀ n ∈ words.map (plen D), 0 < n := by
    intro n hn
    obtain ⟨w, hw, rfl⟩ := List.mem_map.1 hn
    exact List.length_pos_iff.2 (hP w hw)
  obtain ⟨w1, w2, w3⟩ := populated_windows_ok words (words.map (plen D)) (populate D words).phones frames.length hfp
    (by simp) hposW p6
  have hsz : ((populate D words).phones.map sfOf).toArray.size = (populate D words).phones.length := by simp
  have halive_of : ∀ a', finish r.1 frames.length r.2.1 (populate D words) = some a' → r.2.1.score > Step.worst :=
    fun a' hf => C04_alignment_implies_final_alive tps _ _ frames hok w1 (by rw [hsz]; exact w2) hT
      (by rw [hsz]; exact w3) (populate D words) a' hf
  refine ⟨⟨fun ⟨a', hf⟩ => halive_of a' hf, fun hal => ?_⟩, fun a' hf => ?_⟩
  · obtain ⟨a', f1, _⟩ := C04_model_run_hierarchy D words tps frames h3 hP hfp hok hT hal
    exact ⟨a', f1⟩
  · obtain ⟨a1, f1, c1, c2, c3, _, _, i1, i2, _⟩ :=
      C04_model_run_hierarchy D words tps frames h3 hP hfp hok hT (halive_of a' hf)
    have e : a1 = a' := by
      have : finish r.1 frames.length r.2.1 (populate D words) = some a1 := f1
      rw [hf] at this; exact (Option.some.inj this).symm
    subst e
    refine ⟨?_, c1, c2, c3⟩
    have hz : ∀ (l1 l2 : List Entry), l1.map (·.id) = l2.map (·.id) →
        l1.map (fun e => (e.start, e.duration)) = l2.map (fun e => (e.start, e.duration)) →
        l1.map (fun e => (e.id, e.start, e.duration)) = l2.map (fun e => (e.id, e.start, e.duration)) := by
      intro l1
      induction l1 with
      | nil => intro l2 h1 _; cases l2 with
        | nil => rfl
        | cons _ _ => simp at h1
      | cons x l1 ih => intro l2 h1 h2; cases l2 with
        | nil => simp at h1
        | cons y l2 =>
          simp only [List.map_cons, List.cons.injEq, Prod.mk.injEq] at h1 h2 ⊢
          exact ⟨⟨h1.1, h2.1.1, h2.1.2⟩, ih l2 h1.2 h2.2⟩
    exact hz _ _ i1 i2

/-! ### non-vacuity -/

/-- a dead second pass inside the hypotheses: two phones (six states) whose windows are open over all four frames —
four frames cannot reach the sixth state; the exit score is `WORST_SCORE`, the exit history is `-1`, no alignment -/
example :
    let r := Step.run #[exTp, exTp] #[0, 0] #[4, 4] (List.replicate 4 #[5, 6, 7, 8, 9, 10])
    r.2.1.score = Step.worst ∧ finish r.1 4 r.2.1 (populate exDict3 [mkWord 0 0 4]) = none := by
  decide

/-- a dead second pass whose exit history is NOT `-1`: the last phone's state 1 is alive (so the exit state is
evaluated) but its state 2 is dead; `finish` passes the `last.id == -1` test and fails inside the loop -/
example :
    let r := Step.run #[exTp, exTp] #[0, 0] #[5, 5] (List.replicate 5 #[5, 6, 7, 8, 9, 10])
    r.2.1 = ⟨5, Step.worst⟩ ∧ finish r.1 5 r.2.1 (populate exDict3 [mkWord 0 0 5]) = none := by
  decide

/-- the alive counterpart (seven frames, windows `[0,3)`, `[3,7)`): alive and an alignment -/
example :
    let r := Step.run #[exTp, exTp] #[0, 3] #[3, 7] (List.replicate 7 #[5, 6, 7, 8, 9, 10])
    r.2.1.score > Step.worst ∧ (finish r.1 7 r.2.1 (populate exDict3 exWords3)).isSome = true := by
  decide

/-- outside `hend` the statement is false, which is why the hypothesis is there: windows `[0,3)`, `[3,6)` but nine
frames leave a stale alive exit score in the expired last phone and no alignment -/
example :
    let r := Step.run #[exTp, exTp] #[0, 3] #[3, 6] (List.replicate 9 #[5, 6, 7, 8, 9, 10])
    r.2.1.score > Step.worst ∧ finish r.1 9 r.2.1 (populate exDict3 [mkWord 0 0 3, mkWord 1 3 3]) = none := by
  decide

end SSVerif.Align
