import SSVerif.Proofs.Dict
import SSVerif.Proofs.Dict2pid
import SSVerif.Proofs.HashTableModes
/-!
# C16 — Dictionary additions take effect and never disturb existing entries

Property theorems only.  The model (`SSVerif/Model/Dict.lean`) is `dict_add_word` /
`dict_word2basestr` / `decoder_add_word`'s phone parser / `decoder_lookup_word` /
`dict2pid_add_word`'s fill pattern **with the repairs D03, D04, D05**; `d->ht` is the finite map
that C20 proves `hash_table.c` to be.  `WF` is the invariant of every dictionary reachable from the
empty one (`C16_wf_reachable`, `C16_wf_init`), so every theorem below that assumes `WF d` holds after
any history of additions, rejected additions and lookups, of any length, with any capacity.
-/
namespace SSVerif.Dict
open SSVerif.HashTable (Key upper)

/-- **Reachability.** After any history of operations on the empty dictionary (any case mode, any
preallocated capacity) the invariant holds: the map from spellings to ids is exactly the index of
the word table, base ids point at the earlier word carrying the base spelling, and the `alt`
pointers form one duplicate-free chain per base word. -/
theorem C16_wf_reachable (m : Mdef) (nocase : Bool) (cap : Nat) (ops : List Op) :
    WF (run m (Dict.empty nocase cap) ops).1 :=
  wf_run (wf_empty nocase cap) m ops

/-- the same after `dict_init_s3file` on any pair of dictionary files followed by any history -/
theorem C16_wf_init {m : Mdef} {nocase : Bool} {lines flines : List (Key × Key)} {d : Dict}
    (h : dictInit m nocase lines flines = some d) (ops : List Op) : WF (run m d ops).1 :=
  wf_run (wf_dictInit h) m ops

/-- **add_then_lookup (dictionary level).** A successful `dict_add_word(word, pron)` returns the
old `n_word`, appends exactly one entry carrying `word` and `pron`, and `dict_wordid(word)` finds it. -/
theorem C16_add_then_lookup {d d' : Dict} (h : WF d) {w : Key} {p : List Nat} {i : Nat}
    (hr : dictAddWord d w p = (d', some i)) :
    i = d.words.length ∧ d'.words.length = i + 1 ∧ d'.wordid w = some i ∧
    ∃ e, d'.words[i]? = some e ∧ e.word = w ∧ e.pron = p := by
  rcases dictAddWord_spec h w p with ⟨_, e⟩ | ⟨_, _, e⟩ | ⟨_, _, e⟩ | ⟨_, _, bw, _, e⟩
  · rw [e] at hr; cases hr
  · rw [e] at hr; cases hr
  · rw [e] at hr; cases hr
  · rw [e] at hr
    cases hr
    have hidx : (grow d).words.length = d.words.length := by simp
    refine ⟨rfl, by simp, by simp [post_wordid],
      { word := w, pron := p, basewid := bw.getD (grow d).words.length, alt := bw.bind (grow d).altOf },
      ?_, rfl, rfl⟩
    rw [← hidx]
    exact la_get_new (grow d) w p bw _

/-- **add_then_lookup (API level).** When `decoder_add_word(word, phones)` succeeds, every
whitespace-separated token of `phones` is a phone of the model, there is at least one, and
`decoder_lookup_word(word)` returns those tokens joined by single spaces. -/
theorem C16_add_then_lookup_decoder {m : Mdef} {d d' : Dict} (h : WF d) {w ph : Key} {i : Nat}
    (hr : decoderAddWord m d w ph = (d', some i)) :
    tokens ph ≠ [] ∧ (∀ t ∈ tokens ph, t ∈ m.ciphones) ∧
    d'.wordid w = some i ∧ decoderLookup m d' w = some (joinSp (tokens ph)) := by
  rcases decoderAddWord_cases m d w ph with e | ⟨pron, hp, hne, e⟩
  · rw [e] at hr; cases hr
  · rw [e] at hr
    obtain ⟨_, _, hid, en, hen, _, hpr⟩ := C16_add_then_lookup h hr
    obtain ⟨hnames, hlt⟩ := mapIds_names hp
    refine ⟨?_, ?_, hid, ?_⟩
    · intro ht; rw [ht] at hnames; exact hne (by simpa using hnames)
    · intro t ht
      rw [← hnames] at ht
      obtain ⟨j, hj, rfl⟩ := List.mem_map.1 ht
      have := hlt j hj
      unfold Mdef.name
      rw [List.getD_eq_getElem?_getD, List.getElem?_eq_getElem this]
      simp
    · simp [decoderLookup, hid, hen, hpr, hnames]

/-- **others_unchanged (one addition).** Whatever `dict_add_word` returns: every existing entry
keeps its index, spelling, pronunciation and base id; every spelling that was known keeps its id;
spellings other than the added one resolve exactly as before; case mode and filler bookkeeping are
untouched. -/
theorem C16_others_unchanged {d : Dict} (h : WF d) (w : Key) (p : List Nat) :
    (∀ (i : Nat) (e : Entry), d.words[i]? = some e →
      ∃ e', (dictAddWord d w p).1.words[i]? = some e' ∧ e'.word = e.word ∧ e'.pron = e.pron ∧
        e'.basewid = e.basewid) ∧
    (∀ (k : Key) (i : Nat), d.wordid k = some i → (dictAddWord d w p).1.wordid k = some i) ∧
    (∀ k : Key, norm d.nocase k ≠ norm d.nocase w → (dictAddWord d w p).1.wordid k = d.wordid k) ∧
    ((dictAddWord d w p).1.nocase = d.nocase ∧ (dictAddWord d w p).1.fillerStart = d.fillerStart ∧
      (dictAddWord d w p).1.fillerEnd = d.fillerEnd ∧ (dictAddWord d w p).1.startwid = d.startwid ∧
      (dictAddWord d w p).1.finishwid = d.finishwid ∧ (dictAddWord d w p).1.silwid = d.silwid) :=
  ⟨fun _ _ he => dictAddWord_old_entry h w p he, fun _ _ hk => dictAddWord_old_id h w p hk,
   fun _ hk => dictAddWord_other_key h w p hk, dictAddWord_fields d w p⟩

/-- **others_unchanged (histories).** A word known at some point keeps its id, spelling,
pronunciation and base id through every later history of additions (successful or rejected, through
either entry point) and lookups, and `decoder_lookup_word` keeps returning the same phone string. -/
theorem C16_known_words_persist {d : Dict} (h : WF d) (m : Mdef) (ops : List Op) {k : Key} {i : Nat}
    {e : Entry} (hk : d.wordid k = some i) (he : d.words[i]? = some e) :
    (run m d ops).1.wordid k = some i ∧
    (∃ e', (run m d ops).1.words[i]? = some e' ∧ e'.word = e.word ∧ e'.pron = e.pron ∧
      e'.basewid = e.basewid) ∧
    decoderLookup m (run m d ops).1 k = decoderLookup m d k := by
  have h1 := run_old_id h m ops hk
  obtain ⟨e', h2, a1, a2, a3⟩ := run_old_entry h m ops he
  exact ⟨h1, ⟨e', h2, a1, a2, a3⟩, by simp [decoderLookup, h1, hk, h2, he, a2]⟩

/-- **reject_is_noop (dictionary level).** `dict_add_word` fails exactly for the empty word, a
spelling already present (modulo the table's case mode) and an alternate `base(...)` whose base
spelling is unknown; a failed call leaves every field of the dictionary as it was — word table with
its `alt` pointers, map, filler bookkeeping — except possibly the capacity `max_words`
(the growth step precedes the tests in the C code; see `C16_grow_transparent`). -/
theorem C16_reject_is_noop {d : Dict} (h : WF d) (w : Key) (p : List Nat) :
    ((dictAddWord d w p).2 = none ↔
      (w = [] ∨ (∃ i, d.wordid w = some i) ∨ ∃ b, word2basestr w = some b ∧ d.wordid b = none)) ∧
    ((dictAddWord d w p).2 = none →
      (dictAddWord d w p).1 = { d with maxWords := (dictAddWord d w p).1.maxWords } ∧
      ((dictAddWord d w p).1.maxWords = d.maxWords ∨
        (dictAddWord d w p).1.maxWords = d.maxWords + Generated.s3dictIncSz)) := by
  rcases dictAddWord_spec h w p with ⟨h0, e⟩ | ⟨h0, hf, e⟩ | ⟨h0, hdup, e⟩ | ⟨h0, hnew, bw, hfb, e⟩
  · rw [e]; exact ⟨⟨fun _ => Or.inl h0, fun _ => rfl⟩, fun _ => ⟨rfl, Or.inl rfl⟩⟩
  · rw [e]
    exact ⟨⟨fun _ => Or.inr (Or.inr (findBase_eq_none_iff.1 hf)), fun _ => rfl⟩,
           fun _ => ⟨grow_eq d, grow_maxWords d⟩⟩
  · rw [e]
    exact ⟨⟨fun _ => Or.inr (Or.inl hdup), fun _ => rfl⟩, fun _ => ⟨grow_eq d, grow_maxWords d⟩⟩
  · rw [e]
    refine ⟨⟨fun hh => by simp at hh, ?_⟩, fun hh => by simp at hh⟩
    rintro (hh | ⟨i, hh⟩ | hh)
    · exact absurd hh h0
    · rw [hnew] at hh; cases hh
    · rw [findBase_eq_none_iff.2 hh] at hfb; cases hfb

/-- **reject_is_noop (API level).** `decoder_add_word(word, phones)` fails exactly when some token
of `phones` is not a phone of the model, `phones` has no token, or `dict_add_word` fails for one of
its three reasons; then the dictionary is unchanged up to the capacity. -/
theorem C16_reject_is_noop_decoder {d : Dict} (h : WF d) (m : Mdef) (w ph : Key) :
    ((decoderAddWord m d w ph).2 = none ↔
      ((∃ t ∈ tokens ph, m.ciphoneId t = none) ∨ tokens ph = [] ∨ w = [] ∨
        (∃ i, d.wordid w = some i) ∨ ∃ b, word2basestr w = some b ∧ d.wordid b = none)) ∧
    ((decoderAddWord m d w ph).2 = none →
      (decoderAddWord m d w ph).1 = { d with maxWords := (decoderAddWord m d w ph).1.maxWords }) := by
  cases hp : mapIds m.ciphoneId (tokens ph) with
  | none =>
    have e : decoderAddWord m d w ph = (d, none) := by simp [decoderAddWord, parsePhones, hp]
    rw [e]
    exact ⟨⟨fun _ => Or.inl (mapIds_none hp), fun _ => rfl⟩, fun _ => rfl⟩
  | some pron =>
    have hall := mapIds_some_all hp
    by_cases hnil : pron = []
    · subst hnil
      have e : decoderAddWord m d w ph = (d, none) := by simp [decoderAddWord, parsePhones, hp]
      rw [e]
      exact ⟨⟨fun _ => Or.inr (Or.inl (mapIds_nil_iff hp)), fun _ => rfl⟩, fun _ => rfl⟩
    · have e : decoderAddWord m d w ph = dictAddWord d w pron := by
        simp [decoderAddWord, parsePhones, hp, hnil]
      rw [e]
      obtain ⟨r1, r2⟩ := C16_reject_is_noop h w pron
      refine ⟨⟨fun hh => Or.inr (Or.inr (r1.1 hh)), ?_⟩, fun hh => (r2 hh).1⟩
      rintro (⟨t, ht, hn⟩ | hh | hh)
      · exact absurd hn (hall t ht)
      · rw [hh] at hp; simp only [mapIds] at hp; exact absurd (Option.some.inj hp).symm hnil
      · exact r1.2 hh

/-- **grow_transparent.** The capacity `max_words` (hence whether and when the table is reallocated)
influences nothing observable: started from two dictionaries that differ only in capacity, any
history yields the same results (ids, failures, phone strings) and final dictionaries that again
differ only in capacity. -/
theorem C16_grow_transparent (mdef : Mdef) (d : Dict) (cap : Nat) (ops : List Op) :
    ∃ cap', run mdef { d with maxWords := cap } ops =
      ({ (run mdef d ops).1 with maxWords := cap' }, (run mdef d ops).2) :=
  run_setMax mdef d cap ops

/-- the slot `d->word[n_word]` written by `dict_add_word` lies inside the (re)allocated table, and
`n_word ≤ max_words` is maintained -/
theorem C16_grow_room {d : Dict} (hcap : d.words.length ≤ d.maxWords) (w : Key) (p : List Nat) :
    d.words.length < (grow d).maxWords ∧
    (dictAddWord d w p).1.words.length ≤ (dictAddWord d w p).1.maxWords :=
  room_dictAddWord hcap w p

/-- **alt_chain.** In every reachable dictionary, for every base word `r` (a word not of the form
`x(...)`): following `dict_nextalt` from `r` terminates within `n_word` steps, visits no word twice,
visits only alternates (never a base word), and visits the word `j` **iff** `j` is an alternate whose
base id is `r` or is itself on the chain (alternates of alternates, `x(2)(3)`, hang on the chain of
`x`).  Chains of different base words are disjoint and every alternate is on the chain of some base
word. -/
theorem C16_alt_chain {d : Dict} (h : WF d) {r : Nat} (hr : d.isBase r = true) :
    (d.altChain r).Nodup ∧
    (∀ j ∈ d.altChain r, j < d.words.length ∧ d.isBase j = false) ∧
    (∀ (j : Nat) (e : Entry), d.words[j]? = some e → d.isBase j = false →
      (j ∈ d.altChain r ↔ e.basewid = r ∨ e.basewid ∈ d.altChain r)) ∧
    (∀ r' : Nat, d.isBase r' = true → r' ≠ r → ∀ j ∈ d.altChain r, j ∉ d.altChain r') ∧
    (∀ j : Nat, j < d.words.length → d.isBase j = false → ∃ r', d.isBase r' = true ∧ j ∈ d.altChain r') := by
  obtain ⟨L, c⟩ := h.chains
  rw [altChain_eq c hr]
  refine ⟨c.nodup r hr, fun j hj => ⟨chain_mem_lt c hr hj, chain_not_base c hr hj⟩, ?_, ?_, ?_⟩
  · intro j e he hjb
    constructor
    · intro hj
      obtain ⟨_, e', he', hm⟩ := c.mem r hr j hj
      rw [he] at he'; cases he'
      exact List.mem_cons.1 hm
    · intro hm
      have hjlt : j < d.words.length := by
        rcases List.getElem?_eq_some_iff.1 he with ⟨hh, _⟩; exact hh
      obtain ⟨r', hr', hj'⟩ := c.cover j hjlt hjb
      obtain ⟨_, e', he', hm'⟩ := c.mem r' hr' j hj'
      rw [he] at he'; cases he'
      have : r = r' := chain_unique c hr hr' (List.mem_cons.2 hm) hm'
      subst this; exact hj'
  · intro r' hr' hne j hj hj'
    rw [altChain_eq c hr'] at hj'
    exact hne (c.disj r r' j hr hr' hj hj').symm
  · intro j hj hjb
    obtain ⟨r', hr', hm⟩ := c.cover j hj hjb
    exact ⟨r', hr', by rw [altChain_eq c hr']; exact hm⟩

/-- **alternates and their base spelling.** For an entry `j` whose spelling has the form `b(...)`
(`dict_word2basestr` = `b`): its base id is the id under which `b` is registered, that word precedes
`j`, `dict_basestr(j)` is a spelling equal to `b` up to the table's case mode, and if that word is a
base word then `j` is on its alternate chain. -/
theorem C16_alt_basestr {d : Dict} (h : WF d) {j : Nat} {e : Entry} {b : Key}
    (he : d.words[j]? = some e) (hb : word2basestr e.word = some b) :
    d.wordid b = some e.basewid ∧ e.basewid < j ∧
    (∃ s, d.basestr j = some s ∧ norm d.nocase s = norm d.nocase b) ∧
    (d.isBase e.basewid = true → j ∈ d.altChain e.basewid) := by
  obtain ⟨h1, h2⟩ := h.base_alt j e b he hb
  obtain ⟨eb, heb, hn⟩ := h.ht_sound _ _ h1
  refine ⟨h1, h2, ⟨eb.word, by simp [Dict.basestr, he, heb], hn⟩, fun hr => ?_⟩
  have hjb : d.isBase j = false := by rw [isBase_of_get he, hb]; rfl
  exact ((C16_alt_chain h hr).2.2.1 j e he hjb).2 (Or.inl rfl)

/-- **base spelling.** `dict_word2basestr(w)` strips `(...)` exactly when `w` is a non-empty base
spelling `b`, an opening parenthesis, any bytes without `(`, and a closing parenthesis at the very end;
the result is `b`.  (`"(2)"`, `")"`, `"a("`, `"a(2)x"` are base words; `"a(2)(3)"` has base `"a(2)"`.) -/
theorem C16_basestr_spec (w b : Key) :
    word2basestr w = some b ↔ ∃ s, w = b ++ 40 :: s ++ [41] ∧ b ≠ [] ∧ (40 : UInt8) ∉ s := by
  constructor
  · exact word2basestr_decompose
  · rintro ⟨s, rfl, hb, hs⟩
    exact word2basestr_of_shape b s hb hs

/-- **chains persist.** A later addition (successful or not) never unlinks an alternate from the
chain of its base word. -/
theorem C16_chain_persists {d : Dict} (h : WF d) (w : Key) (p : List Nat) {r j : Nat}
    (hr : d.isBase r = true) (hj : j ∈ d.altChain r) : j ∈ (dictAddWord d w p).1.altChain r :=
  dictAddWord_chain_mono h w p hr hj

/-- **usable immediately (boundary tables).** `dict2pid_build` fills the rows needed by every word,
and `decoder_add_word` keeps that true: after any sequence of API-level additions every word of the
dictionary has its word-initial row `ldiph_lc[first][second]`, its word-final row
`rssid[last][second-last]`, or for one-phone words its `lrdiph_rc[phone]` block filled. -/
theorem C16_d2p_covers (m : Mdef) (d : Dict) (h : WF d) (adds : List (Key × Key)) :
    let s := adds.foldl (fun s a => (decoderAddWord2 m s a.1 a.2).1) (d, D2P.build m.sil d)
    Cov s.2 s.1 := by
  intro s
  suffices H : ∀ (adds : List (Key × Key)) (s0 : Dict × D2P), WF s0.1 → Cov s0.2 s0.1 →
      Cov (adds.foldl (fun s a => (decoderAddWord2 m s a.1 a.2).1) s0).2
          (adds.foldl (fun s a => (decoderAddWord2 m s a.1 a.2).1) s0).1 from
    H adds _ h (cov_build m.sil d)
  intro adds
  induction adds with
  | nil => intro s0 _ hc; exact hc
  | cons a as ih =>
    intro s0 hw hc
    refine ih _ ?_ ?_
    · unfold decoderAddWord2
      simp only
      split <;> exact wf_decoderAddWord hw m a.1 a.2
    · unfold decoderAddWord2
      simp only
      split
      · next hnone =>
        rcases decoderAddWord_cases m s0.1 a.1 a.2 with e | ⟨pron, _, _, e⟩
        · simp only [e]; exact hc
        · rw [e] at hnone
          have := (C16_reject_is_noop hw a.1 pron).2 hnone
          intro en hen
          rw [e, this.1] at hen
          exact hc en hen
      · next i hsome =>
        rcases decoderAddWord_cases m s0.1 a.1 a.2 with e | ⟨pron, _, _, e⟩
        · rw [e] at hsome; cases hsome
        · have hr : dictAddWord s0.1 a.1 pron = ((dictAddWord s0.1 a.1 pron).1, some i) := by
            rw [e] at hsome; exact Prod.ext rfl hsome
          obtain ⟨hi, hlen, _, en, hen, _, hpr⟩ := C16_add_then_lookup hw hr
          simp only [e, hen, Option.map_some, Option.getD_some, hpr]
          intro e' he'
          obtain ⟨j, hj⟩ := List.mem_iff_getElem?.1 he'
          by_cases hjn : j = i
          · subst hjn
            rw [hen] at hj; cases hj
            rw [hpr]; exact covers_addPron_self _ _ _
          · have hjlt : j < s0.1.words.length := by
              have : j < (dictAddWord s0.1 a.1 pron).1.words.length := by
                rcases List.getElem?_eq_some_iff.1 hj with ⟨hh, _⟩; exact hh
              omega
            have h0 : s0.1.words[j]? = some s0.1.words[j] := by simp [hjlt]
            obtain ⟨e'', he'', _, hp'', _⟩ := dictAddWord_old_entry hw a.1 pron h0
            rw [hj] at he''; cases he''
            rw [hp'']
            exact covers_addPron_mono _ _ _ _ (hc _ (List.mem_iff_getElem?.2 ⟨j, h0⟩))

/-! ### contents of the word-boundary tables (`dict2pid.c` over `bin_mdef_phone_id_nearest`)

`BinMdef` is the raw `cd_tree` / filler flags / `phone[].ssid` of the acoustic model (dumped from the real model for
the correspondence run); `nearest` and `BinMdef.ssidOf` are `bin_mdef_phone_id_nearest` and its composition with
`bin_mdef_pid2ssid` — the lookup C02's flat network performs directly.  The theorems hold for **every** such model. -/

open SSVerif.Dict2pid in
/-- **compression is lossless.** For every uncompressed row and every context `rc` whose cell is a real id:
`ssid[cimap[rc]]` is that cell, `cimap` has one entry per context and `cimap[rc]` indexes inside the `n_ssid` stored
ids (so the read stays inside the arrays `compress_table`'s callers allocate). -/
theorem C16_compress_lossless (row : List Nat) (rc x : Nat) (h : row[rc]? = some x) (hx : x ≠ bad) :
    (compressTable row).get rc = x ∧ (compressTable row).cimap.length = row.length ∧
    (compressTable row).cimap.getD rc (compressTable row).ssid.length < (compressTable row).ssid.length ∧
    (compressTable row).ssid.length ≤ row.length := by
  refine ⟨compress_get h hx, (compress_sizes row).1, (compress_sizes row).2 rc x h hx, ?_⟩
  -- every stored id is a cell of the row, first occurrences only: at most one per cell
  suffices H : ∀ (r : List Nat) (s : List Nat × List Nat), (r.foldl compressStep s).1.length ≤ s.1.length + r.length by
    have := H row ([], []); simpa [compressTable] using this
  intro r
  induction r with
  | nil => intro s; simp
  | cons y ys ih =>
    intro s
    have h1 := ih (compressStep s y)
    have h2 : (compressStep s y).1.length ≤ s.1.length + 1 := by
      unfold compressStep; split
      · simp
      · simp only; split <;> simp
    simp only [List.foldl_cons, List.length_cons]; omega

open SSVerif.Dict2pid in
/-- **the tables are the direct lookup (all histories).** Start from any well-formed dictionary, build the tables
(`dict2pid_build`) and perform any sequence of `decoder_add_word` calls (accepted or rejected).  Then for every word
of the resulting dictionary, every entry a search reads for it through `dict2pid_lrdiph_rc` (one-phone words, all
left and right contexts), `dict2pid_ldiph_lc` (first phone, all left contexts) and `dict2pid_rssid`
(`ssid[cimap[rc]]`, last phone, all right contexts) equals `pid2ssid(phone_id_nearest(base, lc, rc, position))` for the
same base phone, contexts and word position (single / begin / end).  While the source's `populate_lrdiph` still
stores into the silence rows (constants regenerated from dict2pid.c; defect D61) the statement excludes the first
phone of a word whose second phone is the silence phone, resp. the last phone of a word whose second-last phone is. -/
theorem C16_d2p_tables_exact (md : Mdef) (m : BinMdef) (d : Dict) (h : WF d) (adds : List (Key × Key)) :
    let s := adds.foldl (fun s a => (decoderAddWordT md m s a.1 a.2).1) (d, build m d)
    ∀ e ∈ s.1.words, ReadsExact m s.2 e.pron ∧ ReadsShape m s.2 e.pron := by
  intro s
  suffices H : ∀ (adds : List (Key × Key)) (s0 : Dict × Tabs), WF s0.1 → TabsOK m s0.2 →
      (∀ e ∈ s0.1.words, CovT s0.2 e.pron) →
      let s1 := adds.foldl (fun s a => (decoderAddWordT md m s a.1 a.2).1) s0
      TabsOK m s1.2 ∧ ∀ e ∈ s1.1.words, CovT s1.2 e.pron by
    obtain ⟨b1, b2⟩ := build_spec m d
    obtain ⟨h1, h2⟩ := H adds (d, build m d) h b1 b2
    exact fun e he => ⟨reads_exact h1 (h2 e he), reads_shape h1 (h2 e he)⟩
  intro adds
  induction adds with
  | nil => intro s0 _ ht hc; exact ⟨ht, hc⟩
  | cons a as ih =>
    intro s0 hw ht hc
    simp only [List.foldl_cons]
    refine ih _ ?_ ?_ ?_
    · unfold decoderAddWordT
      simp only
      split <;> exact wf_decoderAddWord hw md a.1 a.2
    · unfold decoderAddWordT
      simp only
      split
      · exact ht
      · exact (addWord_spec ht _).1
    · unfold decoderAddWordT
      simp only
      split
      · next hnone =>
        have := (C16_reject_is_noop_decoder hw md a.1 a.2).2 hnone
        intro en hen
        rw [this] at hen
        exact hc en hen
      · next i hsome =>
        rcases decoderAddWord_cases md s0.1 a.1 a.2 with e | ⟨pron, _, _, e⟩
        · rw [e] at hsome; cases hsome
        · have hr : dictAddWord s0.1 a.1 pron = ((dictAddWord s0.1 a.1 pron).1, some i) := by
            rw [e] at hsome; exact Prod.ext rfl hsome
          obtain ⟨hi, hlen, _, en, hen, _, hpr⟩ := C16_add_then_lookup hw hr
          simp only [e, hen, Option.map_some, Option.getD_some, hpr]
          obtain ⟨_, g, cnew⟩ := addWord_spec ht pron
          intro e' he'
          obtain ⟨j, hj⟩ := List.mem_iff_getElem?.1 he'
          by_cases hjn : j = i
          · subst hjn
            rw [hen] at hj; cases hj
            rw [hpr]; exact cnew
          · have hjlt : j < s0.1.words.length := by
              have : j < (dictAddWord s0.1 a.1 pron).1.words.length := by
                rcases List.getElem?_eq_some_iff.1 hj with ⟨hh, _⟩; exact hh
              omega
            have h0 : s0.1.words[j]? = some s0.1.words[j] := by simp [hjlt]
            obtain ⟨e'', he'', _, hp'', _⟩ := dictAddWord_old_entry hw a.1 pron h0
            rw [hj] at he''; cases he''
            rw [hp'']
            exact covT_grows g (hc _ (List.mem_iff_getElem?.2 ⟨j, h0⟩))

open SSVerif.Dict2pid in
/-- word-internal phones are not tabulated: `dict2pid_internal` *is* the direct lookup at `WORD_POSN_INTERNAL` -/
theorem C16_d2p_internal_exact (m : BinMdef) (p : List Nat) (pos : Nat) :
    internal m p pos = m.pid2ssid (nearest m (p.getD pos 0) (p.getD (pos - 1) 0) (p.getD (pos + 1) 0) posInternal) := rfl

open SSVerif.Dict2pid in
/-- **back-off of `bin_mdef_phone_id_nearest`.** An exact triphone wins; otherwise the result is a triphone of the
same base phone found in the tree (other word position and/or silence contexts) or, last, the CI phone itself. -/
theorem C16_nearest_backoff (m : BinMdef) (b l r pos : Nat) :
    (∀ p, phoneId m b l r pos = some p → nearest m b l r pos = p) ∧
    (nearest m b l r pos = b ∨ ∃ l' r' pos', phoneId m b l' r' pos' = some (nearest m b l r pos)) := by
  have tp : ∀ (l r p : Nat), tryPos m b l r pos = some p → ∃ pos', phoneId m b l r pos' = some p := by
    intro l r p hp
    unfold tryPos at hp
    split at hp
    · next q hq => cases hp; exact ⟨pos, hq⟩
    · unfold otherPos at hp
      obtain ⟨a, _, ha⟩ := List.exists_of_findSome?_eq_some hp
      exact ⟨a, ha⟩
  constructor
  · intro p hp; simp [nearest, tryPos, hp]
  · unfold nearest
    split
    · next p hp => obtain ⟨pos', h'⟩ := tp l r p hp; exact Or.inr ⟨l, r, pos', h'⟩
    · split
      · simp only
        split
        · cases hq : tryPos m b (silCtx m l r pos).1 (silCtx m l r pos).2 pos with
          | none => exact Or.inl rfl
          | some q => obtain ⟨pos', h'⟩ := tp _ _ q hq; exact Or.inr ⟨_, _, pos', h'⟩
        · exact Or.inl rfl
      · exact Or.inl rfl

/-- the key equality of the abstract map is the one C20 proves for `hash_table.c`'s two string modes -/
theorem C16_key_equality (nocase : Bool) (a b : Key) :
    norm nocase a = norm nocase b ↔ SSVerif.HashTable.keycmp nocase a b = true := by
  cases nocase with
  | false => simpa [norm] using (SSVerif.HashTable.keycmp_false_iff a b).symm
  | true => simpa [norm] using (SSVerif.HashTable.keycmp_true_iff a b).symm

/-! ### non-vacuity: concrete histories (phones `A`,`B`; words `f` = 102, `(`=40, `2`=50, `)`=41) -/

private def m0 : Mdef := { ciphones := [[65], [66]], sil := 0 }
private def foo : Key := [102]
private def foo2 : Key := [102, 40, 50, 41]
private def bar : Key := [98]

-- the D5 history: `foo`, `foo(2)`, `foo(2)` again (rejected), `bar`; the chain of `foo` is `[foo(2)]`
example :
    let r := run m0 (Dict.empty false 2)
      [.add foo [65, 32, 66], .add foo2 [66], .add foo2 [66], .add bar [32, 65, 32], .lookup foo2, .wid bar]
    r.2 = [.id (some 0), .id (some 1), .id none, .id (some 2), .phones (some [66]), .id (some 2)] ∧
    r.1.altChain 0 = [1] ∧ r.1.altChain 2 = [] ∧ r.1.basestr 1 = some foo ∧ r.1.maxWords = 2 + Generated.s3dictIncSz := by
  decide

-- every rejection reason, each leaving the dictionary as it was
example :
    let d := (run m0 (Dict.empty false 8) [.add foo [65]]).1
    (decoderAddWord m0 d bar [67]).2 = none ∧ (decoderAddWord m0 d bar [32]).2 = none ∧
    (decoderAddWord m0 d [] [65]).2 = none ∧ (decoderAddWord m0 d foo [66]).2 = none ∧
    (decoderAddWord m0 d [98, 40, 50, 41] [66]).2 = none ∧
    (decoderAddWord m0 d bar [67]).1.words = d.words ∧ (decoderAddWord m0 d foo [66]).1.ht = d.ht := by
  decide

-- an alternate of an alternate hangs on the chain of the base word; case-insensitive base lookup
example :
    let r := run m0 (Dict.empty true 8)
      [.add foo [65], .add [70, 40, 50, 41] [66], .add [102, 40, 50, 41, 40, 51, 41] [65, 32, 65], .add [70, 40, 52, 41] [66]]
    r.2 = [.id (some 0), .id (some 1), .id (some 2), .id (some 3)] ∧ r.1.altChain 0 = [3, 1, 2] ∧
    r.1.isBase 0 = true ∧ r.1.isBase 2 = false := by
  decide


/-! ### non-vacuity for the table theorems: a two-phone model (0 = SIL, a filler; 1 = A) in which the triphone
A(SIL,SIL) exists word-initially (pid 2, ssid 12) and as a single-phone word (pid 3, ssid 13) -/

open SSVerif.Dict2pid in
private def tiny : BinMdef :=
  { nCi := 2, sil := 0, filler := #[true, false],
    tree := #[⟨0, 0, -1⟩, ⟨1, 1, 4⟩, ⟨2, 0, -1⟩, ⟨3, 1, 7⟩,
              ⟨1, 1, 5⟩, ⟨0, 1, 6⟩, ⟨0, 0, 2⟩,
              ⟨1, 1, 8⟩, ⟨0, 1, 9⟩, ⟨0, 0, 3⟩],
    ssid := #[10, 11, 12, 13] }

-- exact match; exact match at SINGLE; silence back-off (lc A → SIL at a single-phone word); CI fall-back twice
open SSVerif.Dict2pid in
example : nearest tiny 1 0 0 posBegin = 2 ∧ nearest tiny 1 0 0 posSingle = 3 ∧ nearest tiny 1 1 0 posSingle = 3 ∧
    nearest tiny 1 1 1 posEnd = 1 ∧ nearest tiny 0 1 1 posInternal = 0 ∧ nearest tiny 1 0 0 posEnd = 2 := by decide

private def dictAB : Dict := (run ⟨[[83], [65]], 0⟩ (Dict.empty false 4) [.dadd [97] [1], .dadd [98] [1, 0, 1]]).1
private def dictBA : Dict := (run ⟨[[83], [65]], 0⟩ (Dict.empty false 4) [.dadd [98] [1, 0, 1], .dadd [97] [1]]).1

-- **D61 decided with the model.** The same two words — `a` = A and `b` = A SIL A — in the two possible orders:
-- with the one-phone word first the word-initial entry of `b` for left context SIL is the BEGIN triphone (ssid 12);
-- with it last, `populate_lrdiph` of the pinned tree overwrites the row with the single-phone-word id (ssid 13).
-- The right-hand side follows the constant regenerated from the current dict2pid.c.
open SSVerif.Dict2pid in
example : (build tiny dictAB).ldiphLc 1 0 0 = 12 ∧
    (build tiny dictBA).ldiphLc 1 0 0 = (if Generated.d2pPopulateWritesLdiphSil then 13 else 12) ∧
    tiny.ssidOf 1 0 0 posBegin = 12 := by decide

-- the same through `decoder_add_word`: `b` added after `a` finds the row already written by `populate_lrdiph`
open SSVerif.Dict2pid in
example :
    let d0 := (run ⟨[[83], [65]], 0⟩ (Dict.empty false 4) [.dadd [97] [1]]).1
    let s := (decoderAddWordT ⟨[[83], [65]], 0⟩ tiny (d0, build tiny d0) [98] [65, 32, 83, 32, 65]).1
    s.2.ldiphLc 1 0 0 = (if Generated.d2pPopulateWritesLdiphSil then 13 else 12) ∧
    (s.2.rssidAt 1 0).get 0 = (if Generated.d2pPopulateWritesRdiphSil then 13 else 12) ∧ s.2.lrdiphRc 1 1 0 = 13 := by
  decide

-- compression: three contexts, two distinct ids
open SSVerif.Dict2pid in
example : compressTable [7, 9, 7] = { ssid := [7, 9], cimap := [0, 1, 0] } ∧ (compressTable [7, 9, 7]).get 2 = 7 := by decide

end SSVerif.Dict
