import SSVerif.Proofs.TextSvspecRT
/-!
# C10 (more of the input surface inside the model) — the sub-vector specification `svspec`

`parse_subvecs` and `feat_set_subvecs` (`src/feat.c`) are hand-written byte-level code behind the
configuration (`{"svspec": "0-12/13-25/26-38"}`): a `sscanf("%d%n")`/pointer walk over the string,
range expansion with a duplicate test, and an acceptance test before `feat_subvec_project` indexes
every feature frame with the listed numbers.  Model: `Model/TextSvspec.lean` (behaviour of the
code with `fixes/D90`, `D95`, `D95b`).  Tie: `tools/props/c10.py`, case kind `svspec` — the real
`parse_subvecs` / `feat_set_subvecs` / `feat_s2mfc2feat_live` under ASan/UBSan/LSan against
`parseSubvecs` / `svSet` / `svProject` on generated and mutated strings: accept/refuse, the parsed
structure, the acceptance result and the projected frame are compared exactly.

**Partial** as all of C10: the theorems are about the model; that the C code does not read outside
the string or the frame is observed by the sanitizers on the compared cases, not proved.
-/
namespace SSVerif.TextIn

/-- **C10, the loop bounds of the `svspec` model are never observed.** The two loops of
`parse_subvecs` are modelled with an iteration budget of `length + 1` (every iteration consumes at
least one byte — `C10_svspec_pointer_in_string`); any larger budget gives the same answer, for
the sub-vector loop from every duplicate-free list of dimensions: an answer (in particular the
`badDelim` a spent budget would return) is never produced by the budget.  (That each function
returns `ok _` or `error _` is true by typing and is not claimed as a theorem.) -/
theorem C10_svspec_fuel_never_observed (s : List UInt8) :
    (∀ fuel acc, s.length < fuel → svAllF fuel acc s = svAllF (s.length + 1) acc s) ∧
    (∀ fuel dims, s.length < fuel → DimsOK dims → svVecF fuel dims s = svVecF (s.length + 1) dims s) ∧
    (∀ fuel, s.length < fuel → svAllF fuel [] s = parseSubvecs s) := by
  refine ⟨?_, ?_, ?_⟩
  · intro fuel acc hf
    exact svAllF_fuel fuel (s.length + 1) acc s hf (Nat.lt_succ_self _)
  · intro fuel dims hf hd
    exact svVecF_fuel fuel (s.length + 1) dims s hf (Nat.lt_succ_self _) hd
  · intro fuel hf
    exact svAllF_fuel fuel (s.length + 1) [] s hf (Nat.lt_succ_self _)

/-- **C10, the scan pointer of `parse_subvecs` stays inside the string.** Every successful
`sscanf(strp, "%d%n", &n, &l)` leaves `strp + l` strictly after `strp` and not after the
terminator (the rest is a proper suffix), the stored number is an `int`; an item (`n` or `n-n2`)
and a whole sub-vector likewise, and after a sub-vector the pointer is at the terminator or at
a `/` — the only two bytes for which the C code goes on (`assert(*strp == '/')`). -/
theorem C10_svspec_pointer_in_string (s : List UInt8) :
    (∀ v r, scanfInt s = some (v, r) → ProperSuffix r s ∧ -2147483648 ≤ v ∧ v ≤ 2147483647) ∧
    (∀ dims d r, DimsOK dims → svItem dims s = .ok (d, r) → ProperSuffix r s) ∧
    (∀ d r, svVec s = .ok (d, r) → ProperSuffix r s ∧ (r = [] ∨ ∃ r', r = 47 :: r')) := by
  refine ⟨fun v r h => scanfInt_ok s v r h, ?_, ?_⟩
  · intro dims d r hd h
    exact (svItem_ok dims s d r h hd).1
  · intro d r h
    obtain ⟨hp, _, _, hr⟩ := svVec_ok s d r h
    exact ⟨hp, hr⟩

/-- **C10, an accepted `svspec` is well-formed.** What `parse_subvecs` returns has at least one
sub-vector; every sub-vector has at least one dimension, no dimension twice, and every dimension
is a non-negative `int` (so the `-1` sentinel of the C arrays cannot occur inside). -/
theorem C10_svspec_wf (s : List UInt8) (vs : List (List Nat)) (h : parseSubvecs s = .ok vs) :
    vs ≠ [] ∧ ∀ v ∈ vs, v ≠ [] ∧ v.Nodup ∧ ∀ x ∈ v, x ≤ 2147483647 :=
  parseSubvecs_wf s vs h

/-- **C10, the accepted `svspec` objects are exactly the well-formed ones.** Conversely to
`C10_svspec_wf`: every specification with at least one sub-vector, whose sub-vectors are non-empty,
duplicate-free lists of non-negative `int`s, is what `parse_subvecs` returns for its canonical text
(`renderSv`: decimal numbers separated by `,`, sub-vectors by `/`) — the parser reads the whole
text, refuses nothing that is well-formed and returns it unchanged.  So the well-formedness
predicate is not merely implied by acceptance, it characterises the set of results. -/
theorem C10_svspec_accepts_exactly_wf (vs : List (List Nat)) :
    (vs ≠ [] ∧ ∀ v ∈ vs, v ≠ [] ∧ v.Nodup ∧ ∀ x ∈ v, x ≤ 2147483647) ↔ ∃ s, parseSubvecs s = .ok vs :=
  ⟨fun h => ⟨renderSv vs, parseSubvecs_render vs h⟩, fun ⟨s, h⟩ => parseSubvecs_wf s vs h⟩

/-- **C10, the duplicate test of `parse_subvecs` is exact.** Expanding a range `n … n+cnt-1` onto
a duplicate-free list is refused only if one of its numbers is already listed (in the list, or
earlier in the same range), and when it is accepted the list is extended by exactly the range
and stays duplicate-free. -/
theorem C10_svspec_range_expansion (dims : List Nat) (n cnt : Nat) (hd : dims.Nodup) :
    (∀ d, addRange dims n cnt = some d → d = dims ++ List.range' n cnt ∧ d.Nodup) ∧
    (addRange dims n cnt = none → ∃ x, n ≤ x ∧ x < n + cnt ∧ x ∈ dims ++ List.range' n (x - n)) :=
  ⟨fun d h => ⟨addRange_eq cnt dims n d h, addRange_nodup cnt dims n d h hd⟩, addRange_none cnt dims n⟩

/-- **C10, what `feat_set_subvecs` accepts is projected inside the frame.** When the acceptance
test succeeds for a feature of `dim` components, every listed dimension is an index of the
frame (`< dim`) — the hypothesis that `svProject`, the model of `feat_subvec_project`, needs for
each of its reads — and the projected vector (`sv_dim` numbers) fits back into the frame it is
copied over. -/
theorem C10_svspec_projection_in_bounds (nStream dim : Nat) (vs : List (List Nat)) (nsv svdim : Nat)
    (h : svSet nStream dim vs = .ok (nsv, svdim)) :
    nStream = 1 ∧ (∀ v ∈ vs, ∀ d ∈ v, d < dim) ∧ nsv = vs.length ∧
      svdim = (vs.map List.length).sum ∧ svdim ≤ dim :=
  svSet_ok nStream dim vs nsv svdim h

/-! ## non-vacuity: the specification of `tests/test_subvq.c`, every error kind, the repaired cases -/

def exOk {ε α : Type} : Except ε α → Option α | .ok a => some a | .error _ => none
def exErr {ε α : Type} : Except ε α → Option ε | .ok _ => none | .error e => some e

example : exOk (parseSubvecs "1-12/14-25/0,13,26/27-38".toUTF8.data.toList) =
    some [List.range' 1 12, List.range' 14 12, [0, 13, 26], List.range' 27 12] := by decide +kernel
example : renderSv [[3, 5, 6], [7]] = "3,5,6/7".toUTF8.data.toList := by decide +kernel
example : exOk (parseSubvecs " 3, 5-6/ +7".toUTF8.data.toList) = some [[3, 5, 6], [7]] := by decide +kernel
example : exErr (parseSubvecs "0-12/13-25/26-3x".toUTF8.data.toList) = some .badRange := by decide +kernel
example : exErr (parseSubvecs "0-12/13-25/26-38x".toUTF8.data.toList) = some .badDelim := by decide +kernel
example : exErr (parseSubvecs "1,1".toUTF8.data.toList) = some .dup := by decide +kernel
example : exErr (parseSubvecs "0-3,2".toUTF8.data.toList) = some .dup := by decide +kernel
example : exErr (parseSubvecs "5-".toUTF8.data.toList) = some .noInt := by decide +kernel
example : exErr (parseSubvecs "0/".toUTF8.data.toList) = some .noInt := by decide +kernel
example : exErr (parseSubvecs "".toUTF8.data.toList) = some .noInt := by decide +kernel
example : exErr (parseSubvecs "3-1".toUTF8.data.toList) = some .badRange := by decide +kernel
example : exErr (parseSubvecs "-1".toUTF8.data.toList) = some .badRange := by decide +kernel
example : exErr (parseSubvecs "1 ,2".toUTF8.data.toList) = some .badDelim := by decide +kernel
-- a number beyond `long` is clamped by `strtol` and truncated by the `int` store: 99999999999999999999 reads as -1
example : exErr (parseSubvecs "99999999999999999999".toUTF8.data.toList) = some .badRange := by decide +kernel
-- 4294967297 is stored as 1
example : exOk (parseSubvecs "4294967297".toUTF8.data.toList) = some [[1]] := by decide +kernel
example : exOk (svSet 1 39 [List.range' 0 13, List.range' 13 13, List.range' 26 13]) = some (3, 39) := by decide +kernel
example : exErr (svSet 1 39 [[39]]) = some .dimOutside := by decide +kernel      -- D95b: accepted by the pinned tree
example : exErr (svSet 1 39 [List.range' 0 39, [0]]) = some .tooMany := by decide +kernel
example : exErr (svSet 4 51 [[0]]) = some .multiStream := by decide +kernel
example : svProject #[10, 11, 12, 13] [[3, 0], [2]] (by decide) = [13, 10, 12] := by decide +kernel

end SSVerif.TextIn
