import SSVerif.Proofs.Search
import SSVerif.Proofs.SearchHmm
import SSVerif.Proofs.SearchLex
import SSVerif.Proofs.SearchLexEnd
/-!
# C01, growth stage (M10) — the token-passing search always produces a well-formed history table

Property theorems only.  `lt` is the lextree (`fsgs->lextree`), `g` the search FSG, `s`/`s'` the state of the
search between two frames (`fsgs->frame`, the history table, the HMM of every pnode, `pnode_active`);
`shift = SENSCR_SHIFT`.  `StepRel shift lt g s s'` says what `fsg_search_step` may do in one frame and
`StartRel shift lt g s0 s` what `fsg_search_start` does (Model/Search.lean); both leave every score
comparison and beam decision open, so the theorems hold for every beam setting and every audio.  What the
relations keep of the scores is liveness (`> WORST_SCORE`): a state's history index is only constrained
while its score is live, and a word exit / phone transition fires only from a live exit score.

`SearchInv lt g s` = `WFHist g s.hist s.frame` (the precondition of every theorem of Props/C01.lean and
Props/C03.lean) ∧ every live HMM state of a pnode that belongs to the lextree of FSG state `d` holds the
index of a table entry that ends in `d` and was made in an earlier frame ∧ an HMM that is not on the active
list is in the cleared state ∧ an HMM on the active list carries the current frame stamp.

The tie: `ssdriver c01s` evaluates `LexTreeOK`, `startRelB`, `stepRelB`, `searchInvB` (sound by
`C01_search_checkers_sound`) on the lextree and on every consecutive pair of states that
`harness/h_c01s.c` dumps from the real decoder, and compares `evalHist3` (the exact mirror of
`hmm_vit_eval_3st_lr` with history indices, `C01_hmm_eval_3st_refines`) with every evaluated HMM.
-/
namespace SSVerif.Search
open SSVerif.Hist
open SSVerif.Generated.Search (worstScore tmatWorstScore)

variable {shift : Nat} {lt : LexTree} {g : Fsg} {s0 s s' : SState}

/-- **C01, growth: a word exit produced by token passing meets `EntryOK`.**  The entry
`fsg_search_pnode_exit` adds in the frame `s → s'` (link = the leaf's `fsglink`, frame = the current frame,
pred = `hmm_out_history(hmm)`) records a word arc of the FSG (`wid ≥ 0`) that leaves the destination state
of its predecessor, and the predecessor is an entry of an earlier frame — so appending it keeps the table
well-formed (`C01_append_preserves_WFHist`). -/
theorem C01_word_exit_meets_EntryOK (lok : LexTreeOK lt g) (inv : SearchInv lt g s) (st : HmmsStep lt g s s')
    {e : Entry} (he : ExitOK lt s s' e) :
    EntryOK g s.hist (s.frame + 1) e ∧
    ∃ lid, e.link = some lid ∧ 0 ≤ (g.link lid).wid ∧ (g.link lid).src = dest g (ent s.hist e.pred.toNat) ∧
      (ent s.hist e.pred.toNat).frame < e.frame := by
  obtain ⟨lid, a1, a2, a3, a4, a5, a6, a7, a8⟩ := exit_entry_ok lok inv.hmms st he
  have hlast := inv.wf.below (s.hist.size - 1) (by have := inv.wf.nonempty; omega)
  have hnw : ¬ (g.link lid).wid < 0 := by omega
  refine ⟨⟨lid, a1, a2, a4, a5, a6, ?_, by omega, by omega⟩, lid, a1, a3, a6, by omega⟩
  simp only [hnw, if_false]; omega

/-- **C01, growth: the token-passing step preserves the invariant**, for any lextree satisfying
`LexTreeOK` — in particular the history table after the frame is well-formed. -/
theorem C01_step_preserves_WFHist (lok : LexTreeOK lt g) (inv : SearchInv lt g s) (st : StepRel shift lt g s s') :
    SearchInv lt g s' ∧ WFHist g s'.hist s'.frame :=
  have h := step_preserves lok inv st
  ⟨h, h.wf⟩

/-- **C01, growth: `fsg_search_start` establishes the invariant** from the all-cleared state. -/
theorem C01_start_establishes_SearchInv (lok : LexTreeOK lt g) (h0 : AllCleared lt s0)
    (st : StartRel shift lt g s0 s) : SearchInv lt g s ∧ WFHist g s.hist s.frame :=
  have h := start_establishes lok h0 st
  ⟨h, h.wf⟩

/-- **C01, growth: after any number of frames of any number of utterances the history table is
well-formed** (`Reachable`: start from the all-cleared state, steps, finish + start of the next utterance),
every live HMM state holds a good history index, the `assert(hmm_frame(hmm) == fsgs->frame)` of
`fsg_search_hmm_eval` / `fsg_search_sen_active` holds for every active pnode, and the active list is never
longer than the lextree has pnodes (the `E_FATAL("PANIC! … #HMM evaluated > #PNodes")` of
`fsg_search_hmm_eval` is unreachable). -/
theorem C01_reachable_WFHist (lok : LexTreeOK lt g) (hr : Reachable shift lt g s) :
    WFHist g s.hist s.frame ∧ SearchInv lt g s ∧ (∀ p ∈ s.active, (s.hmm p).frame = s.frame) ∧
    s.active.length ≤ lt.nodes.size :=
  have h := reachable_inv lok hr
  ⟨h.wf, h, fun p hp => (h.hmms.2.1 p hp).2, active_length_le h.hmms⟩

/-- **C01/C08 `finish_clears_search`.**  In every reachable state the HMMs that are not in the cleared state
are on the active list; so `fsg_search_finish` leaves every HMM cleared and the active list empty — what
`fsg_search_start` asserts and relies on — after any history (including utterances without hypothesis);
table and frame counter are untouched, so a query after `finish` sees the same well-formed table. -/
theorem C01_finish_clears_search (lok : LexTreeOK lt g) (hr : Reachable shift lt g s) :
    (∀ p, p < lt.nodes.size → s.hmm p ≠ Hmm.clear lt.nst → p ∈ s.active) ∧
    AllCleared lt (finish lt s) ∧ (finish lt s).hist = s.hist ∧ (finish lt s).frame = s.frame := by
  have h := reachable_inv lok hr
  refine ⟨fun p hp hne => ?_, finish_allCleared h.hmms, rfl, rfl⟩
  rcases Decidable.em (p ∈ s.active) with h1 | h1
  · exact h1
  · exact absurd ((h.hmms.2.2 p hp).2 h1) hne

/-- **C01, growth: the exact 3-state evaluation is covered.**  `evalHist3` mirrors `hmm_vit_eval_3st_lr`
statement by statement with the history assignments; for emission scores `≤ 0` and a transition matrix that
has the skip `0→2` whenever it has the skip `1→3` it is a behaviour of the evaluation relation the step uses
(state 0 keeps its history and liveness is inherited; `EvalState` for states 1, 2; `EvalOut` for the exit). -/
theorem C01_hmm_eval_3st_refines (tp : List Nat) (e : Nat → Int) (h : Hmm) (he : ∀ k, e k ≤ 0)
    (hskip : SSVerif.Hmm.tprob tp 1 3 > tmatWorstScore → SSVerif.Hmm.tprob tp 0 2 > tmatWorstScore) :
    ((evalHist3 tp e h).hi 0 = h.hi 0 ∧ (live ((evalHist3 tp e h).sc 0) → live (h.sc 0))) ∧
    EvalState h (evalHist3 tp e h) 1 ∧ EvalState h (evalHist3 tp e h) 2 ∧ EvalOut 3 h (evalHist3 tp e h) ∧
    (evalHist3 tp e h).frame = h.frame :=
  evalHist3_refines tp e h he hskip

/-- **C01, growth: the checkers the driver runs on the dumps of the real decoder are sound.** -/
theorem C01_search_checkers_sound :
    (decide (LexTreeOK lt g) = true → LexTreeOK lt g) ∧
    (searchInvB lt g s = true ↔ SearchInv lt g s) ∧
    (startRelB shift lt g s0 s = true → StartRel shift lt g s0 s) ∧
    (stepRelB shift lt g s s' = true → StepRel shift lt g s s') ∧
    (decide (AllCleared lt s) = true → AllCleared lt s) :=
  ⟨of_decide_eq_true, searchInvB_iff lt g s, startRelB_sound, stepRelB_sound, of_decide_eq_true⟩

/-- **C01, growth: the lextree the code constructs satisfies `LexTreeOK`.**  `buildLexTree li g` mirrors
`fsg_lextree_init` (`fsg_lextree_lc_rc`, `fsg_psubtree_init` per FSG state, `psubtree_add_trans` per word arc:
single-phone words, word-initial roots per distinct left-context ssid, the shared `(ci, rc)` root sets of
`curglist`, the shared internal chain, word-final leaves per distinct right-context ssid, the sibling/succ
wiring including "link to the end of the sibling chain … once") from the FSG, the pronunciations and the
senone-sequence lookups as **arbitrary functions**.  For every such input (the silence phone being a CI phone):
roots of `root[d]` are pnodes of state `d`, children belong to the state of their parent, a leaf carries a
word arc (`wid ≥ 0`) leaving the state it belongs to. -/
theorem C01_build_lexTreeOK (li : LexIn) (g : Fsg) (hsil : li.sil < li.nCi) : LexTreeOK (buildLexTree li g) g :=
  build_lexTreeOK li g hsil

/-- **C01, growth: every sibling chain of the constructed lextree ends.**  The root chain of every state and the
child chain of every non-leaf pnode reach NULL within the number of pnodes: the loops
`for (root = root[d]; root; root = root->sibling)` of `fsg_search_word_trans` and
`for (child = succ; child; child = child->sibling)` of `fsg_search_pnode_trans` terminate, and the model's
`roots`/`children` (which carry that number as fuel) are the complete loops.  (Proof: a rank that strictly
decreases along `sibling` is maintained through every allocation and every "link to the end of the sibling
chain"; distinct ranks + pigeonhole bound the length.) -/
theorem C01_build_chains_end (li : LexIn) (g : Fsg) (hsil : li.sil < li.nCi) : (buildLexTree li g).chainsEndB = true :=
  build_chainsEnd li g hsil

/-- **C01, growth, composed: over the lextree the code builds, every reachable state of the search has a
well-formed history table** — no per-lextree check left in the chain of theorems. -/
theorem C01_reachable_WFHist_built (li : LexIn) (g : Fsg) (hsil : li.sil < li.nCi)
    (hr : Reachable shift (buildLexTree li g) g s) :
    WFHist g s.hist s.frame ∧ SearchInv (buildLexTree li g) g s :=
  have h := C01_reachable_WFHist (C01_build_lexTreeOK li g hsil) hr
  ⟨h.1, h.2.1⟩

/-! ### non-vacuity: a concrete lextree and three consecutive states

FSG: `0 —w0→ 1 —ε→ 2 —w1→ 3`, a filler loop `0 —w2→ 0`.  Lextree of state 0: root pnode 0 (non-leaf) with
the leaf child pnode 1 (arc 0), and the single-phone root/leaf pnode 3 (arc 3, sibling of pnode 0); lextree
of state 2: root/leaf pnode 2 (arc 2). -/

def exG : Fsg :=
  { links := #[⟨0, 1, 0, 0⟩, ⟨1, 2, -7, -1⟩, ⟨2, 3, 0, 1⟩, ⟨0, 0, -337, 2⟩], start := 0, final := 3, filler := [2] }

def exLt : LexTree :=
  { nst := 3,
    nodes := #[{ owner := 0, leaf := false, succ := some 1, sibling := some 3, ciExt := 7 },
               { owner := 0, leaf := true, link := 0, ciExt := 9 },
               { owner := 2, leaf := true, link := 2, ciExt := 4 },
               { owner := 0, leaf := true, link := 3, ciExt := 1 }],
    root := #[some 0, none, some 2, none] }

def W : Int := worstScore

/-- before `fsg_search_start` -/
def exPre : SState := { frame := -1, hist := #[], hmms := Array.replicate 4 (Hmm.clear 3), active := [] }

def exRoot : Entry := { link := none, frame := -1, score := 0, pred := -1, lc := 1, rc := [4294967295] }

/-- after `fsg_search_start`: both roots of state 0 entered from the root entry -/
def exS0 : SState :=
  { frame := 0, hist := #[exRoot],
    hmms := #[⟨0, [-3, W, W], [0, -1, -1], W, -1⟩, Hmm.clear 3, Hmm.clear 3, ⟨0, [-9, W, W], [0, -1, -1], W, -1⟩],
    active := [3, 0] }

/-- some frames later (five searched): pnode 0 and its leaf child 1 are under way, the filler pnode 3 too -/
def exS : SState :=
  { frame := 5, hist := #[exRoot],
    hmms := #[⟨5, [-10, -12, -14], [0, 0, 0], -13, 0⟩, ⟨5, [-20, -22, -24], [0, 0, 0], -30, 0⟩, Hmm.clear 3,
              ⟨5, [-50, -52, W], [0, 0, -1], W, -1⟩],
    active := [3, 1, 0] }

/-- one frame later: pnode 0 evaluated and kept, it entered its child 1 (state 0 of pnode 1 overwritten);
pnode 1 evaluated, its exit fired (entry 1: arc 0, frame 5, pred 0); the null arc 1→2 gave entry 2; the
root of state 2 (pnode 2) was entered from entry 2; pnode 3 fell out of the beam and was cleared -/
def exS' : SState :=
  { frame := 6,
    hist := #[exRoot, ⟨some 0, 5, -33, 0, 9, [1]⟩, ⟨some 1, 5, -34, 1, 9, [1]⟩],
    hmms := #[⟨6, [-11, -13, -15], [0, 0, 0], -16, 0⟩, ⟨6, [-16, -23, -25], [0, 0, 0], -33, 0⟩,
              ⟨6, [-40, W, W], [2, -1, -1], W, -1⟩, Hmm.clear 3],
    active := [2, 1, 0] }

example : LexTreeOK exLt exG := by decide
example : exLt.chainsEndB = true := by decide
example : exLt.roots 0 = [0, 3] ∧ exLt.children 0 = [1] ∧ exLt.roots 2 = [2] := by decide
example : AllCleared exLt exPre := by decide
example : startRelB 10 exLt exG exPre exS0 = true := by decide
example : searchInvB exLt exG exS = true := by decide
example : stepRelB 10 exLt exG exS exS' = true := by decide
/-- the theorem applied: the successor state satisfies the invariant, its table is well-formed -/
example : WFHist exG exS'.hist 6 :=
  (C01_step_preserves_WFHist (shift := 10) (lt := exLt) (s := exS) (s' := exS') (by decide)
    ((searchInvB_iff _ _ _).1 (by decide)) (stepRelB_sound (by decide))).2
example : searchInvB exLt exG exS' = true := by decide
example : SearchInv exLt exG exS0 :=
  (C01_start_establishes_SearchInv (shift := 10) (s0 := exPre) (by decide) (by decide) (startRelB_sound (by decide))).1
example : AllCleared exLt (finish exLt exS') := by decide
/-- the relation is not trivially true: a child entered with the history of the parent's *entry* state
instead of its exit state, roots of the arc's source state, an exit whose predecessor is not what the leaf
holds, an exit from a dead exit state -/
example : stepRelB 10 exLt exG exS { exS' with hmms := exS'.hmms.set! 1 ⟨6, [-16, -23, -25], [7, 0, 0], -33, 0⟩ } = false := by decide
example : stepRelB 10 exLt exG exS { exS' with hmms := exS'.hmms.set! 2 ⟨6, [-40, W, W], [1, -1, -1], W, -1⟩ } = false := by decide
example : stepRelB 10 exLt exG exS { exS' with hist := exS'.hist.set! 1 ⟨some 0, 5, -33, 2, 9, [1]⟩ } = false := by decide
example : stepRelB 10 exLt exG exS { exS' with hmms := exS'.hmms.set! 1 ⟨6, [-16, -23, -25], [0, 0, 0], W, 0⟩ } = false := by decide
/-- `evalHist3` on pnode 0 of `exS` (no skip transitions, emission scores 0) -/
example : evalHist3 [1, 2, 255, 255, 255, 1, 2, 255, 255, 255, 1, 2] (fun _ => 0) (exS.hmm 0) =
    ⟨5, [-11, -12, -14], [0, 0, 0], -16, 0⟩ := by decide

/-! ### non-vacuity of the construction: a three-state FSG, four words

arcs: `0 —w0→ 1`, `0 —w1→ 1`, `0 —w3→ 1`, `0 —ε→ 2`, `1 —w2→ 1` (filler loop), `1 —w0→ 2`; words: `w0 = [1, 2]`,
`w1 = [3]` (single phone), `w2 = [0]` (filler), `w3 = [1, 2, 4]` (shares the root set and the first phones of
`w0`); five CI phones, silence = 0; the ssid lookups are arbitrary functions that merge some contexts. -/

def bG : Fsg :=
  { links := #[⟨0, 1, -10, 0⟩, ⟨0, 1, -2048, 1⟩, ⟨0, 1, 0, 3⟩, ⟨0, 2, -5, -1⟩, ⟨1, 1, -3000, 2⟩, ⟨1, 2, 0, 0⟩],
    start := 0, final := 2, filler := [2] }

def bIn : LexIn :=
  { nCi := 5, sil := 0, wip := -3, pip := -1, shift := 10, nst := 3, nState := 3,
    word := fun w => match w with
      | 0 => { pron := [1, 2], dictWid := 10 }
      | 1 => { pron := [3], dictWid := 11 }
      | 2 => { pron := [0], fsgFiller := true, dictFiller := true, dictWid := 12 }
      | _ => { pron := [1, 2, 4], dictWid := 13 },
    lrdiph := fun _ lc => 100 + lc / 2, ldiph := fun _ _ lc => 200 + lc % 2, internal := fun _ p => 300 + p,
    rcMap := fun _ _ rc => rc % 2, rcSsid := fun _ _ j => 400 + j, ciSsid := fun ci => ci, tmat := fun ci => ci }

/-- left contexts of state 1: silence and the last phones of `w0`, `w1`, `w3`; right contexts of state 0: silence, the
first phones of the words leaving it, and (through the null arc) those of state 2 -/
example : ctxFlags bIn bG = (#[1, 29, 5], #[11, 3, 1]) := by decide
example : (buildLexTree bIn bG).root = #[some 3, some 9, none] := by decide
/-- (owner, leaf, link, succ, sibling, ssid): state 0 — root 0 for `(1, 2)` shared by `w0` and `w3`, leaves 1, 2 of
`w0`, single-phone leaf/root 3, internal node 4 (prepended to the child chain 4 → 2 → 1 → 6 → 5), leaves 5, 6 of `w3`
under node 4; state 1 — filler leaf/root 7, two roots 8, 9 (two distinct left-context ssids) sharing the leaf 10 -/
example : (buildLexTree bIn bG).nodes.toList.map (fun n => (n.owner, n.leaf, n.link, n.succ, n.sibling, n.ssid)) =
    [(0, false, 0, some 4, none, 200), (0, true, 0, none, none, 400), (0, true, 0, none, some 1, 401),
     (0, true, 1, none, some 0, 100), (0, false, 0, some 6, some 2, 301), (0, true, 2, none, none, 400),
     (0, true, 2, none, some 5, 401), (1, true, 4, none, none, 0), (1, false, 0, some 10, some 7, 200),
     (1, false, 0, some 10, some 8, 201), (1, true, 5, none, none, 400)] := by decide
example : (buildLexTree bIn bG).chainsEndB = true := by decide
example : LexTreeOK (buildLexTree bIn bG) bG := C01_build_lexTreeOK bIn bG (by decide)

end SSVerif.Search
