import SSVerif.Model.AlignWrap
/-!
# C04 — alignment requests that are legitimately REFUSED (closer, class of seeded change C04-em2)

`decoder_alignment` (decoder.c l.741-830) looks for a hypothesis FIRST: `decoder_seg_iter` returning NULL (no hypothesis
yet — early in a streamed utterance frames have been searched but no word exit exists), a hypothesis that has only
non-dictionary segments (`alignment_n_words == 0`), are answered with NULL *before* `acmod_rewind` is reached and before
`d->align` is touched.  In the wrapper model (`Wrap.requestFresh`, Model/AlignWrap) these are the branches that return
`(.null, d)`.  The theorems say what the callers of a streaming decoder rely on: such a request is a no-op on the decoder —
the acoustic front end stays at the frame the first pass stopped at (`Dec.outFrame`), no aligner is left behind — so
whatever is fed and requested afterwards behaves as if the refused request had never been made.

Tie: the harness prints `OFA` = `acmod->output_frame` right after every `decoder_alignment` call; the check compares it with
the model's `Dec.outFrame` after `Wrap.request` for every request, refused ones included (tools/props/c04.py `judge_wrap`),
and the early-polling family (`gen_poll_case`) asks after 0, 1, 2, 3 … frames searched.
-/
namespace SSVerif.Align.Wrap
open SSVerif.Align

/-- the hypotheses under which `decoder_alignment` refuses before it rewinds: no segmentation at all, or a contiguous
segmentation without a dictionary word -/
def Refused (segs : Option (List FSeg)) : Prop :=
  ∀ l, segs = some l → (scan (-1) l).isSome = true ∧ (wordsOf l).isEmpty = true

instance (segs : Option (List FSeg)) : Decidable (Refused segs) := by
  unfold Refused
  cases segs with
  | none => exact isTrue (fun l h => by cases h)
  | some l0 =>
    exact decidable_of_iff ((scan (-1) l0).isSome = true ∧ (wordsOf l0).isEmpty = true)
      ⟨fun h l hl => by cases hl; exact h, fun h => h l0 rfl⟩

/-- **C04, a refused request is a no-op (below the reuse shortcut).** No hypothesis, or no dictionary word in it:
`decoder_alignment` returns NULL and the decoder — `acmod->output_frame`, `d->align`, the feature buffer size, the count of
alignment objects — is exactly what it was. -/
theorem C04_wrapper_refused_request_is_noop (pass2 : List Entry → Nat → Option Alignment) (d : Dec)
    (segs : Option (List FSeg)) (h : Refused segs) :
    requestFresh pass2 d segs = (.null, d) := by
  cases segs with
  | none => rfl
  | some l =>
    obtain ⟨hs, hw⟩ := h l rfl
    unfold requestFresh
    cases hsc : scan (-1) l with
    | none => rw [hsc] at hs; cases hs
    | some pe => simp [hw, hsc]

/-- **C04, refused requests in a streamed utterance.** Inside an utterance in which no request has been answered yet
(`d.align = none`: `decoder_start_utt` disposes of the aligner), any number of refused requests — made after any number of
frames searched — leave the decoder unchanged: the first pass goes on at `outFrame`, and the next request that IS answered
gets exactly the answer it would have got without them. -/
theorem C04_wrapper_refused_requests_then_later_request (pass2 : List Entry → Nat → Option Alignment) (d : Dec)
    (hal : d.align = none) (early : List (Option (List FSeg))) (hall : ∀ s ∈ early, Refused s)
    (outFrame nAlloc : Nat) (segs : Option (List FSeg)) :
    (early.foldl (fun e s => (request pass2 e s).2) d) = d ∧
    (∀ s ∈ early, request pass2 d s = (.null, d)) ∧
    request pass2 (advance (early.foldl (fun e s => (request pass2 e s).2) d) outFrame nAlloc) segs =
      request pass2 (advance d outFrame nAlloc) segs := by
  have one : ∀ s, Refused s → request pass2 d s = (.null, d) := by
    intro s hs
    unfold request
    rw [hal]
    exact C04_wrapper_refused_request_is_noop pass2 d s hs
  have fold : ∀ l : List (Option (List FSeg)), (∀ s ∈ l, Refused s) →
      l.foldl (fun e s => (request pass2 e s).2) d = d := by
    intro l
    induction l with
    | nil => intro _; rfl
    | cons s r ih =>
      intro hl
      simp only [List.foldl_cons]
      rw [one s (hl s (by simp))]
      exact ih (fun s' hs' => hl s' (by simp [hs']))
  refine ⟨fold early hall, fun s hs => one s (hall s hs), ?_⟩
  rw [fold early hall]

/-! ### non-vacuity -/

-- no hypothesis after 3 frames searched, then a hypothesis of only a non-dictionary segment after 7: both refused, decoder unchanged
example :
    let d : Dec := advance (startUtt {}) 3 128
    (Refused none, Refused (some [⟨-1, 0, 6⟩]),
     request (fun _ _ => none) d none, (request (fun _ _ => none) (advance d 7 128) (some [⟨-1, 0, 6⟩])).2.outFrame) =
    (True, True, (Res.null, d), 7) := by
  refine Prod.ext ?_ (Prod.ext ?_ (Prod.ext rfl rfl))
  · exact propext ⟨fun _ => trivial, fun _ => by decide⟩
  · exact propext ⟨fun _ => trivial, fun _ => by decide⟩

-- a request that is NOT refused (a dictionary word) does move on: it leaves an aligner behind
example : (request (fun _ _ => none) (advance (startUtt {}) 9 128) (some [⟨5, 0, 8⟩])).2.align.isSome = true := by decide

end SSVerif.Align.Wrap
