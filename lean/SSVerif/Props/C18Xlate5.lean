import SSVerif.Props.C18Xlate2
import SSVerif.Props.C18Xlate3
/-!
# C18 — the dispatcher `hmm_vit_eval` as translated from the C text

`hmm_vit_eval` (hmm.c) selects one of five evaluators from `hmm->mpx` and `hmm->n_emit_state`.  The C18 theorems are
stated per evaluator; this file ties the selection itself to the C text: which translated evaluator the translated
dispatcher runs (value and definedness flag) for every memory content (`C18_xlate_vit_eval_dispatch_*`), and the
composite statements "`hmm_vit_eval` is a defined C execution" for the cases whose evaluator is tied
(`C18_xlate_vit_eval_no_wrap_any`: every state count other than 3 and 5; `…_no_wrap_3`: three states, multiplex or
not).  The 5-state evaluators are selected as proved here, but their own definedness is tied for the non-multiplex one
in `Props/C02Xlate.lean` (`C02_xlate_hmm5_defined`) only.
-/
set_option linter.unusedSimpArgs false

namespace SSVerif
open SSVerif.Translated SSVerif.Translated.HmmAny SSVerif.Ranges SSVerif.Generated.Ranges

/-- **C18, dispatcher: any state count other than 3 and 5 runs `hmm_vit_eval_anytopo`** (multiplex or not), value and
definedness flag, for every memory content -/
theorem C18_xlate_vit_eval_dispatch_any (fuel : Nat) (undef : Nat → Int) (bs : Int) (senscore : Int → Int)
    (sseq : Int → Int → Int) (stsen : Int → Int) (tpm : Int → Int → Int → Int) (hist : Int → Int) (mpx n : Int)
    (oh os : Int) (score senid : Int → Int) (tmatid : Int) (h3 : n ≠ 3) (h5 : n ≠ 5) :
    hmm_vit_eval fuel undef bs senscore sseq stsen tpm hist mpx n oh os score senid tmatid
      = hmm_vit_eval_anytopo fuel undef bs senscore sseq stsen tpm hist mpx n oh os score senid tmatid ∧
    hmm_vit_eval_ok fuel undef bs senscore sseq stsen tpm hist mpx n oh os score senid tmatid
      = hmm_vit_eval_anytopo_ok fuel undef bs senscore sseq stsen tpm hist mpx n oh os score senid tmatid := by
  refine ⟨?_, ?_⟩
  · simp only [hmm_vit_eval, h3, h5, if_false]
    split <;> rfl
  · simp only [hmm_vit_eval_ok, h3, h5, if_false, Bool.true_and]
    split <;> rfl

/-- **C18, dispatcher: three states.**  Non-multiplex → `hmm_vit_eval_3st_lr`, multiplex → `hmm_vit_eval_3st_lr_mpx`;
the scratch array `st_sen_scr` is untouched; definedness flag = the evaluator's -/
theorem C18_xlate_vit_eval_dispatch_3 (fuel : Nat) (undef : Nat → Int) (bs : Int) (senscore : Int → Int)
    (sseq : Int → Int → Int) (stsen : Int → Int) (tpm : Int → Int → Int → Int) (hist : Int → Int) (mpx : Int)
    (oh os : Int) (score senid : Int → Int) (tmatid : Int) :
    (mpx = 0 →
      hmm_vit_eval fuel undef bs senscore sseq stsen tpm hist mpx 3 oh os score senid tmatid
        = (let r := hmm_vit_eval_3st_lr undef bs senscore tpm hist oh os score senid tmatid
           (r.1, r.2.1, stsen, r.2.2.1, r.2.2.2.1, r.2.2.2.2.1, r.2.2.2.2.2, senid)) ∧
      hmm_vit_eval_ok fuel undef bs senscore sseq stsen tpm hist mpx 3 oh os score senid tmatid
        = hmm_vit_eval_3st_lr_ok undef bs senscore tpm hist oh os score senid tmatid) ∧
    (mpx ≠ 0 →
      hmm_vit_eval fuel undef bs senscore sseq stsen tpm hist mpx 3 oh os score senid tmatid
        = (let r := hmm_vit_eval_3st_lr_mpx undef bs senscore sseq tpm hist oh os score senid tmatid
           (r.1, r.2.1, stsen, r.2.2.1, r.2.2.2.1, r.2.2.2.2.1, r.2.2.2.2.2.1, r.2.2.2.2.2.2)) ∧
      hmm_vit_eval_ok fuel undef bs senscore sseq stsen tpm hist mpx 3 oh os score senid tmatid
        = hmm_vit_eval_3st_lr_mpx_ok undef bs senscore sseq tpm hist oh os score senid tmatid) := by
  refine ⟨fun h => ⟨?_, ?_⟩, fun h => ⟨?_, ?_⟩⟩
  · simp only [hmm_vit_eval, h, ne_eq, not_true_eq_false, if_false, Int.reduceEq, if_true]
  · simp only [hmm_vit_eval_ok, h, ne_eq, not_true_eq_false, if_false, Int.reduceEq, if_true, Bool.true_and]
  · simp only [hmm_vit_eval, h, ne_eq, not_false_eq_true, if_true, Int.reduceEq, if_false]
  · simp only [hmm_vit_eval_ok, h, ne_eq, not_false_eq_true, if_true, Int.reduceEq, if_false, Bool.true_and]

/-- **C18, dispatcher: five states.**  Non-multiplex → `hmm_vit_eval_5st_lr`, multiplex → `hmm_vit_eval_5st_lr_mpx` -/
theorem C18_xlate_vit_eval_dispatch_5 (fuel : Nat) (undef : Nat → Int) (bs : Int) (senscore : Int → Int)
    (sseq : Int → Int → Int) (stsen : Int → Int) (tpm : Int → Int → Int → Int) (hist : Int → Int) (mpx : Int)
    (oh os : Int) (score senid : Int → Int) (tmatid : Int) :
    (mpx = 0 →
      hmm_vit_eval fuel undef bs senscore sseq stsen tpm hist mpx 5 oh os score senid tmatid
        = (let r := hmm_vit_eval_5st_lr undef bs senscore tpm hist oh os score senid tmatid
           (r.1, r.2.1, stsen, r.2.2.1, r.2.2.2.1, r.2.2.2.2.1, r.2.2.2.2.2, senid)) ∧
      hmm_vit_eval_ok fuel undef bs senscore sseq stsen tpm hist mpx 5 oh os score senid tmatid
        = hmm_vit_eval_5st_lr_ok undef bs senscore tpm hist oh os score senid tmatid) ∧
    (mpx ≠ 0 →
      hmm_vit_eval fuel undef bs senscore sseq stsen tpm hist mpx 5 oh os score senid tmatid
        = (let r := hmm_vit_eval_5st_lr_mpx undef bs senscore sseq tpm hist oh os score senid tmatid
           (r.1, r.2.1, stsen, r.2.2.1, r.2.2.2.1, r.2.2.2.2.1, r.2.2.2.2.2.1, r.2.2.2.2.2.2)) ∧
      hmm_vit_eval_ok fuel undef bs senscore sseq stsen tpm hist mpx 5 oh os score senid tmatid
        = hmm_vit_eval_5st_lr_mpx_ok undef bs senscore sseq tpm hist oh os score senid tmatid) := by
  refine ⟨fun h => ⟨?_, ?_⟩, fun h => ⟨?_, ?_⟩⟩
  · simp only [hmm_vit_eval, h, ne_eq, not_true_eq_false, if_false, if_true]
  · simp only [hmm_vit_eval_ok, h, ne_eq, not_true_eq_false, if_false, if_true, Bool.true_and]
  · simp only [hmm_vit_eval, h, ne_eq, not_false_eq_true, if_true]
  · simp only [hmm_vit_eval_ok, h, ne_eq, not_false_eq_true, if_true, Bool.true_and]

/-- the 3-state evaluator of this unit is, text for text, the one of `Translated/Hmm.lean` (which the C02/C01/C04/C18
ties are about) -/
theorem xlC18_hmm3_same :
    @hmm_vit_eval_3st_lr_ok = @SSVerif.Translated.Hmm.hmm_vit_eval_3st_lr_ok ∧
    @hmm_vit_eval_3st_lr = @SSVerif.Translated.Hmm.hmm_vit_eval_3st_lr := ⟨rfl, rfl⟩

/-- **C18, `hmm_vit_eval` on an HMM with any state count other than 3 and 5 is a defined C execution** under the
hypotheses of `C18_anytopo_no_wrap`, and returns a best score in `[WORST_SCORE, 0]` -/
theorem C18_xlate_vit_eval_no_wrap_any (fuel : Nat) (undef : Nat → Int) (bs : Int) (senscore : Int → Int)
    (sseq : Int → Int → Int) (stsen : Int → Int) (tpm : Int → Int → Int → Int) (hist : Int → Int) (mpx : Int) (n : Nat)
    (oh os : Int) (score senid : Int → Int) (tmatid : Int) (tp : Nat → Nat → Nat)
    (htpm : ∀ i j : Nat, i < n → j ≤ n → tpm tmatid (i : Int) (j : Int) = ((tp i j : Nat) : Int))
    (htp : ∀ i j, tp i j ≤ 255) {S B : Int} (hS : 0 ≤ S)
    (hc0 : ∀ id, -S ≤ xlC mpx senscore sseq id 0 ∧ xlC mpx senscore sseq id 0 ≤ 0)
    (hci : ∀ id st, WORST ≤ xlC mpx senscore sseq id st ∧ xlC mpx senscore sseq id st ≤ 0)
    (hB : int32Min + 255 ≤ B - S) (hBW : B ≤ WORST - 255) (hb : AnyBd B (xlHA n score hist senid os oh bs))
    (hn1 : 1 ≤ n) (hn : n ≤ 255) (h3 : n ≠ 3) (h5 : n ≠ 5) (hfuel : n + 2 ≤ fuel) :
    hmm_vit_eval_ok fuel undef bs senscore sseq stsen tpm hist mpx (n : Int) oh os score senid tmatid = true ∧
    WORST ≤ (hmm_vit_eval fuel undef bs senscore sseq stsen tpm hist mpx (n : Int) oh os score senid tmatid).1 ∧
    (hmm_vit_eval fuel undef bs senscore sseq stsen tpm hist mpx (n : Int) oh os score senid tmatid).1 ≤ 0 := by
  obtain ⟨e1, e2⟩ := C18_xlate_vit_eval_dispatch_any fuel undef bs senscore sseq stsen tpm hist mpx (n : Int) oh os score
    senid tmatid (by omega) (by omega)
  rw [e1, e2]
  exact C18_xlate_anytopo_no_wrap fuel undef bs senscore sseq stsen tpm hist mpx n oh os score senid tmatid tp htpm htp
    hS hc0 hci hB hBW hb hn1 hn hfuel

/-- **C18, `hmm_vit_eval` on a 3-state HMM (multiplex or not) is a defined C execution** under the hypotheses of
`C18_hmm_no_wrap` / `C18_hmm3mpx_no_wrap`: scores in `[WORST_SCORE, U]`, `int16` senone scores, byte transitions -/
theorem C18_xlate_vit_eval_no_wrap_3 (fuel : Nat) (undef : Nat → Int) (bs : Int) (senscore : Int → Int)
    (sseq : Int → Int → Int) (stsen : Int → Int) (tpm : Int → Int → Int → Int) (hist : Int → Int) (mpx : Int)
    (oh os : Int) (score senid : Int → Int) (tmatid : Int) (tp : Nat → Nat → Nat)
    (htpm : ∀ i j : Nat, i < 3 → j < 4 → tpm tmatid 0 ((i * 4 + j : Nat) : Int) = ((tp i j : Nat) : Int))
    (htp : ∀ i j, tp i j ≤ 255) {U : Int} (hsen : ∀ x : Int, I16 (senscore x))
    (hU : U + 32768 ≤ int32Max) (hWU : WORST ≤ U) (hb : Bd3 WORST U (xlH3 score hist os oh bs)) :
    hmm_vit_eval_ok fuel undef bs senscore sseq stsen tpm hist mpx 3 oh os score senid tmatid = true := by
  have D := C18_xlate_vit_eval_dispatch_3 fuel undef bs senscore sseq stsen tpm hist mpx oh os score senid tmatid
  by_cases hm : mpx = 0
  · rw [(D.1 hm).2, xlC18_hmm3_same.1]
    exact C18_xlate_hmm3_no_wrap undef bs senscore tpm hist oh os score senid tmatid tp htpm htp (hsen _) (hsen _)
      (hsen _) hU hWU hb
  · rw [(D.2 hm).2]
    exact C18_xlate_hmm3mpx_no_wrap undef bs senscore sseq tpm hist oh os score senid tmatid tp htpm htp
      (fun id st => hsen _) hU hWU hb

/-- non-vacuity: the dispatcher really distinguishes — with 4 states it runs the any-topology evaluator (result of the
2-state example of `C18Xlate2` extended), with `n = 3` and `mpx = 0` it leaves `st_sen_scr` alone -/
example :
    let tpm : Int → Int → Int → Int := fun _ i j => if i ≤ j then 10 else 255
    (hmm_vit_eval 8 (fun _ => 0) 0 (fun _ => 100) (fun _ _ => 0) (fun _ => 7) tpm (fun i => 40 + i) 0 4
      (-7) 0 (fun i => if i = 0 then -1000 else -536870912) (fun i => i) 0).2.2.1 1 = -536870912 ∧
    (hmm_vit_eval 8 (fun _ => 0) 0 (fun _ => 100) (fun _ _ => 0) (fun _ => 7) tpm (fun i => 40 + i) 0 3
      (-7) 0 (fun i => if i = 0 then -1000 else -536870912) (fun i => i) 0).2.2.1 1 = 7 := by
  decide

end SSVerif
