import SSVerif.Model.CmnRepr
/-! C18 (CMN state import / export): theorems about the exact-rational accumulator model `Model/CmnRepr.lean`
(`cmn_set_repr`, `cmn_live_update`, `cmn_live`, batch `cmn()`).  Floats are outside the model: every statement is about
exact rationals (what the C code computes up to float32 rounding).  Core Lean only. -/
namespace SSVerif.CmnRepr

/-- facts about the REGENERATED window constants that the theorems below rest on; a `cmn.h` whose `CMN_WIN` is 0 or
exceeds `CMN_WIN_HWM` (an import would then be decayed/re-averaged by the next update) breaks this `decide`, hence
the build. -/
theorem const_facts :
    (0 : Int) < (cmnWin : Int) ∧ ¬ ((cmnWin : Int) > (cmnWinHwm : Int)) ∧ (cmnWin : Int) ≤ (cmnWinHwm : Int) ∧ winR ≠ 0 := by
  decide +kernel

/-! ### shape lemmas -/

theorem clear_length (n : Nat) : (clear n).length = n := by simp [clear]

theorem pad_length (n : Nat) (vals : List Rat) : (pad n vals).length = n := by
  simp only [pad, List.length_append, List.length_take, List.length_replicate]; omega

/-- clear over `n`, then overwrite the prefix with the (at most `n`) parsed values = the padded scratch vector -/
theorem overwrite_clear (n : Nat) (vals : List Rat) : overwrite (clear n) (vals.take n) = pad n vals := by
  simp only [overwrite, clear, pad, List.drop_replicate, List.length_take]
  congr 2; omega

theorem overwrite_clear_map (n : Nat) (vals : List Rat) (f : Rat → Rat) (hf : f 0 = 0) :
    overwrite (clear n) ((vals.take n).map f) = (pad n vals).map f := by
  simp only [overwrite, clear, pad, List.drop_replicate, List.length_take, List.length_map, List.map_append,
    List.map_replicate, hf]
  congr 2; omega

/-- closed form of the import: ALL `veclen` entries of `cmn_mean` and of `sum` are rewritten (to the padded values and
to `CMN_WIN` times them), `nframe = CMN_WIN`. -/
theorem setRepr_eq (s : St) (vals : List Rat) :
    setRepr s vals =
      { mean := pad s.mean.length vals, sum := (pad s.mean.length vals).map (· * winR), nframe := cmnWin } := by
  simp only [setRepr, St.veclen, overwrite_clear]
  rw [overwrite_clear_map _ _ (· * winR) (by simp [Rat.zero_mul])]

theorem map_mul_div_cancel (l : List Rat) (w : Rat) (hw : w ≠ 0) : (l.map (· * w)).map (· / w) = l := by
  induction l with
  | nil => rfl
  | cons a t ih =>
    simp only [List.map_cons, List.map_map] at ih ⊢
    rw [ih, Rat.mul_div_cancel hw]

/-! ### property theorems -/

/-- Importing a mean vector and exporting it straight away gives the imported values (cut/padded with zeros to the
feature vector length): `cmn_set_repr` then `cmn_update_repr`, from ANY previous state. -/
theorem C18_cmn_import_export (s : St) (vals : List Rat) :
    «export» (setRepr s vals) = pad s.mean.length vals := by
  rw [setRepr_eq]; rfl

/-- The live update right after an import changes NOTHING of the state (mean, sums, frame count): `sum/nframe` is
`vals·CMN_WIN/CMN_WIN = vals` and `CMN_WIN ≤ CMN_WIN_HWM` so no decay happens.  For any previous state/history. -/
theorem C18_cmn_update_after_import_noop (s : St) (vals : List Rat) :
    update (setRepr s vals) = setRepr s vals := by
  obtain ⟨hpos, hle, _, hw⟩ := const_facts
  rw [setRepr_eq]
  have h1 : ¬ ((cmnWin : Int) ≤ 0) := by omega
  simp only [update, h1, hle, if_false]
  have : (((cmnWin : Nat) : Int) : Rat) = winR := rfl
  rw [this, map_mul_div_cancel _ _ hw]

/-- Import, live update, export: the exported values are the imported ones, whatever audio was processed before the
import (`cmn_set_repr; cmn_live_update; cmn_update_repr`). -/
theorem C18_cmn_import_update_export (s : St) (vals : List Rat) :
    «export» (update (setRepr s vals)) = pad s.mean.length vals := by
  rw [C18_cmn_update_after_import_noop, C18_cmn_import_export]

/-- The imported state does not depend on the audio processed before (nor on earlier imports): two decoders with
the same vector length are in the SAME accumulator state after the same import. -/
theorem C18_cmn_import_forgets_history (s s' : St) (h : s.mean.length = s'.mean.length) (vals : List Rat) :
    setRepr s vals = setRepr s' vals := by
  rw [setRepr_eq, setRepr_eq, h]

/-- ... and so does everything computed from it afterwards: any continuation `k` (further frames, updates, exports)
sees no trace of the history before the import. -/
theorem C18_cmn_import_forgets_history_cont {α : Type} (k : St → α) (s s' : St)
    (h : s.mean.length = s'.mean.length) (vals : List Rat) :
    k (setRepr s vals) = k (setRepr s' vals) := by
  rw [C18_cmn_import_forgets_history s s' h]

/-- Two live updates with no audio in between give the same mean (two consecutive exports agree): after a decay
`nframe = CMN_WIN` and `sum' = sum·CMN_WIN/nframe`, so `sum'/CMN_WIN = sum/nframe`.  For every state. -/
theorem C18_cmn_update_idempotent (s : St) : (update (update s)).mean = (update s).mean := by
  obtain ⟨hpos, hle, _, hw⟩ := const_facts
  by_cases h0 : s.nframe ≤ 0
  · simp [update, h0]
  · by_cases h1 : s.nframe > (cmnWinHwm : Int)
    · have h2 : ¬ ((cmnWin : Int) ≤ 0) := by omega
      have hn : (s.nframe : Rat) ≠ 0 := by
        intro hc
        have : s.nframe = 0 := by exact_mod_cast hc
        omega
      simp only [update, h0, h1, h2, hle, if_false, if_true, List.map_map]
      apply List.map_congr_left
      intro x _
      have : (((cmnWin : Nat) : Int) : Rat) = winR := rfl
      simp only [Function.comp, this]
      grind
    · simp [update, h0, h1]

/-- the whole state, not only the mean, is a fixed point of the second update -/
theorem C18_cmn_update_idempotent_state (s : St) : update (update s) = update s := by
  obtain ⟨hpos, hle, _, hw⟩ := const_facts
  by_cases h0 : s.nframe ≤ 0
  · simp [update, h0]
  · by_cases h1 : s.nframe > (cmnWinHwm : Int)
    · have hm := C18_cmn_update_idempotent s
      have h2 : ¬ ((cmnWin : Int) ≤ 0) := by omega
      simp only [update, h0, h1, h2, hle, if_false, if_true] at hm ⊢
      rw [hm]
    · simp [update, h0, h1]

/-- Round trip: export from one decoder, import into another (of the same vector length, in any state), optionally
update, export again: the same values. -/
theorem C18_cmn_roundtrip (s t : St) (h : t.mean.length = s.mean.length) :
    «export» (update (setRepr s («export» t))) = «export» t := by
  rw [C18_cmn_import_update_export]
  simp only [«export», pad, ← h, List.take_length, Nat.sub_self, List.replicate_zero, List.append_nil]

/-- round trip without the update in between -/
theorem C18_cmn_roundtrip_direct (s t : St) (h : t.mean.length = s.mean.length) :
    «export» (setRepr s («export» t)) = «export» t := by
  rw [C18_cmn_import_export]
  simp only [«export», pad, ← h, List.take_length, Nat.sub_self, List.replicate_zero, List.append_nil]

theorem shiftwin_lengths (s : St) (h : WF s) :
    (shiftwin s).mean.length = s.mean.length ∧ (shiftwin s).sum.length = s.mean.length := by
  unfold WF at h
  unfold shiftwin
  split <;> simp [h]

/-- Lengths: `cmn_mean` and `sum` keep their `veclen` entries under import (from ANY state, even an ill-formed one),
live update, and a `cmn_live` frame of `veclen` values; the frame count after an import is `CMN_WIN`. -/
theorem C18_cmn_import_lengths (s : St) (vals x : List Rat) :
    ((setRepr s vals).mean.length = s.mean.length ∧ (setRepr s vals).sum.length = s.mean.length
      ∧ (setRepr s vals).nframe = cmnWin ∧ WF (setRepr s vals))
    ∧ (WF s → (update s).mean.length = s.mean.length ∧ (update s).sum.length = s.mean.length)
    ∧ (WF s → x.length = s.mean.length →
        (accFrame s x).mean.length = s.mean.length ∧ (accFrame s x).sum.length = s.mean.length) := by
  refine ⟨?_, ?_, ?_⟩
  · rw [setRepr_eq]; simp [WF, pad_length]
  · intro h
    unfold WF at h
    unfold update
    split
    · exact ⟨rfl, h⟩
    · split <;> simp [h]
  · intro h hx
    unfold accFrame
    split
    · exact ⟨rfl, h⟩
    · have hwf : WF { s with sum := List.zipWith (· + ·) s.sum x, nframe := s.nframe + 1 } := by
        unfold WF at h ⊢
        simp [h, hx]
      dsimp only
      split
      · exact shiftwin_lengths _ hwf
      · unfold WF at h
        simp [h, hx]

/-- batch `cmn()` also keeps the lengths when every frame has `veclen` values -/
theorem batchSum_length (n : Nat) (used : List (List Rat)) (h : ∀ x ∈ used, x.length = n) :
    (batchSum n used).length = n := by
  unfold batchSum
  suffices ∀ acc : List Rat, acc.length = n →
      (used.foldl (fun acc x => List.zipWith (· + ·) acc x) acc).length = n from this _ (clear_length n)
  induction used with
  | nil => intro acc ha; simpa using ha
  | cons y t ih =>
    intro acc ha
    simp only [List.foldl_cons]
    apply ih (fun x hx => h x (List.mem_cons_of_mem _ hx))
    simp [ha, h y (List.mem_cons_self)]

theorem C18_cmn_batch_lengths (s : St) (frames : List (List Rat)) (hw : WF s)
    (h : ∀ x ∈ frames, x.length = s.mean.length) :
    (batch s frames).mean.length = s.mean.length ∧ (batch s frames).sum.length = s.mean.length := by
  unfold batch
  split
  · exact ⟨rfl, hw⟩
  · have hl : (batchSum s.veclen (frames.filter fun x => !skipped x)).length = s.mean.length :=
      batchSum_length _ _ (fun x hx => h x (List.mem_filter.mp hx).1)
    refine ⟨?_, hl⟩
    simp only
    split
    · simp [hl]
    · simp [clear, St.veclen]

/-- An import wipes a batch result as well: after batch `cmn()` over any frames, import + update + export is again the
imported vector (the batch `nframe`, which may be 0 or anything, is replaced by `CMN_WIN`). -/
theorem C18_cmn_import_after_batch (s : St) (frames : List (List Rat)) (vals : List Rat) :
    «export» (update (setRepr (batch s frames) vals)) = pad (batch s frames).mean.length vals :=
  C18_cmn_import_update_export _ _

/-- A skipped frame (c0 < 0) leaves the accumulators alone; an accumulated one below the high-water mark adds the
frame to the sums, counts it, and does NOT move the mean (the mean only moves in shiftwin/update). -/
theorem C18_cmn_frame_effect (s : St) (x : List Rat) :
    (skipped x = true → accFrame s x = s)
    ∧ (skipped x = false → ¬ (s.nframe + 1 > (cmnWinHwm : Int)) →
        accFrame s x = { s with sum := List.zipWith (· + ·) s.sum x, nframe := s.nframe + 1 }) := by
  constructor
  · intro h; simp [accFrame, h]
  · intro h h1; simp [accFrame, h, h1]

/-! ### non-vacuity: concrete instances (veclen 13, import of 3 values after a non-zero history) -/

/-- a history: two frames accumulated and a live update on a fresh 13-dimensional state -/
def exHist : St := update (accFrame (accFrame (init 13) [4, 2, 1, 0, 0, 0, 0, 0, 0, 0, 0, 0, 5]) [8, 2, 1, 0, 0, 0, 0, 0, 0, 0, 0, 0, 7])

example : exHist.mean = [6, 2, 1, 0, 0, 0, 0, 0, 0, 0, 0, 0, 6] ∧ exHist.nframe = 2 := by decide +kernel
example : «export» (setRepr exHist [40, 3, -1]) = [40, 3, -1, 0, 0, 0, 0, 0, 0, 0, 0, 0, 0] := by decide +kernel
example : (setRepr exHist [40, 3, -1]).sum = [20000, 1500, -500, 0, 0, 0, 0, 0, 0, 0, 0, 0, 0] := by decide +kernel
example : «export» (update (setRepr exHist [40, 3, -1])) = [40, 3, -1, 0, 0, 0, 0, 0, 0, 0, 0, 0, 0] := by decide +kernel
example : setRepr exHist [40, 3, -1] = setRepr (init 13) [40, 3, -1] := by decide +kernel
example : setRepr exHist [40, 3, -1] ≠ exHist := by decide +kernel
/-- over-long import: the 4th and 5th value are ignored -/
example : «export» (setRepr (init 3) [1, 2, 3, 4, 5]) = [1, 2, 3] := by decide +kernel
/-- non-integral values survive exactly (rationals) -/
example : «export» (update (setRepr exHist [(-3 : Rat) / 2, 1 / 3])) = [(-3 : Rat) / 2, 1 / 3, 0, 0, 0, 0, 0, 0, 0, 0, 0, 0, 0] := by decide +kernel
/-- the decay branch of update is reachable and the second update is a no-op there -/
example : let s : St := { mean := [0], sum := [1802], nframe := 901 }
    (update s) = { mean := [2], sum := [1000], nframe := 500 } ∧ update (update s) = update s := by decide +kernel
/-- a skipped frame, an accumulated frame -/
example : accFrame exHist [-1, 9, 9, 0, 0, 0, 0, 0, 0, 0, 0, 0, 0] = exHist := by decide +kernel
example : (accFrame exHist [1, 9, 9, 0, 0, 0, 0, 0, 0, 0, 0, 0, 0]).nframe = 3 := by decide +kernel
/-- batch: one of three frames skipped; all skipped -/
example : batch (init 2) [[2, 4], [-1, 100], [4, 0]] = { mean := [3, 2], sum := [6, 4], nframe := 2 } := by decide +kernel
example : batch exHist [[-1, 100]] = { mean := clear 13, sum := clear 13, nframe := 0 } := by decide +kernel
/-- the hypotheses of the length theorems hold of real states -/
example : WF exHist ∧ WF (init 13) := by decide +kernel

end SSVerif.CmnRepr
