import SSVerif.Proofs.Jsgf
import SSVerif.Proofs.JsgfDesugar
import SSVerif.Proofs.JsgfExpand
import SSVerif.Proofs.JsgfExpandSound
import SSVerif.Proofs.JsgfExpandComplete
import SSVerif.Proofs.JsgfRoundTrip
/-!
# C05 — JSGF compilation preserves the language of the grammar

Property theorems only.  `Lang g r` is the JSGF denotation of rule `<r>` of the surface grammar
`g` (`Sem`, Model/Jsgf.lean); `Der R α` is the denotation of a sentential form over a desugared
rule table; `Run R α` is the leftmost-rewriting machine; `explore` turns the machine into a
finite ε-NFA; `nfaEquiv` (Model/Nfa.lean) is the verified language comparison that the check
runs between the FSG dumped from the real compiler and that ε-NFA.
-/
namespace SSVerif.Jsgf
open SSVerif.Nfa

/-- **C05, machine = denotation.** For every rule table (no restriction on recursion), every
sentential form and every sentence: the leftmost-rewriting machine started on the form accepts
the sentence iff the form denotes it. -/
theorem C05_run_iff_der (R : Rules) (α : List Atom) (ws : List Nat) : Run R α ws ↔ Der R α ws :=
  run_iff_der R α ws

/-- **C05, explored automaton.** Whenever `explore` returns an automaton (its set of forms was
checked to contain `[]`, the start form, and to be closed under the machine's moves), that
automaton accepts exactly the sentences rule `top` denotes — for every rule table and fuel. -/
theorem C05_explore_sound {R : Rules} {top : RName} {fuel : Nat} {A : Nfa}
    (h : explore R top fuel = some A) (ws : List Nat) : Accepts A ws ↔ Der R [.ref top] ws :=
  explore_sound h ws

/-- **C05, desugaring check.** If `tableMatches T g` evaluates to `true` (every user rule of the
surface grammar is represented, alternative by alternative and atom by atom, by the table's rule
of that name, groups/optionals/Kleene closures by internal rules of the shape `jsgf_define_rule`,
`jsgf_optional_new`, `jsgf_kleene_new` build; no other user rule in the table), then every user
rule has in the table exactly its JSGF denotation — star is star, plus is plus, optional is
optional, `<NULL>` is ε, `<VOID>` and undefined rules are empty, tags and weights are ignored. -/
theorem C05_table_represents {T : Table} {g : Grammar} (h : tableMatches T g = true)
    (r : Nat) (ws : List Nat) : Der T.rules [.ref (.user r)] ws ↔ Lang g r ws :=
  matches_lang (tableMatches_spec h) r ws

/-- **C05, desugaring preserves the language.** For every surface grammar (a repeated rule name
keeps its first definition, in `Lang` as in `hash_table_enter`), the model of the parser actions (`desugar`: `jsgf_define_rule` numbering, groups,
`jsgf_optional_new`, `jsgf_kleene_new`, alternatives chained in reverse) yields a table in which
every user rule has exactly its JSGF denotation.  (The check additionally ties `desugar g` to the
table the real scanner and parser build, for every generated grammar.) -/
theorem C05_desugar_preserves (g : Grammar) (r : Nat) (ws : List Nat) :
    Der (desugar g).rules [.ref (.user r)] ws ↔ Lang g r ws :=
  C05_table_represents (desugar_matches g) r ws

/-- **C05, what a passing comparison means.** `F` is any automaton (the check passes the FSG dumped
from the real compiler), `T` a table representing `g`.  If the exploration of `T` from rule `<r>`
returned `A` and the verified comparison of `F` with `A` answered "equal", then `F` accepts exactly
the sentences rule `<r>` denotes under JSGF semantics; if it answered with a word, that word is
accepted by exactly one of `F` and the JSGF rule. -/
theorem C05_comparison_decides {T : Table} {g : Grammar} {r fuel n : Nat} {A F : Nfa}
    (hT : tableMatches T g = true) (hA : explore T.rules (.user r) fuel = some A) :
    (nfaEquiv F A n = .ok none → ∀ ws, Accepts F ws ↔ Lang g r ws) ∧
    (∀ w, nfaEquiv F A n = .ok (some w) → ¬ (Accepts F w ↔ Lang g r w)) := by
  have key : ∀ ws, Accepts A ws ↔ Lang g r ws := fun ws =>
    (explore_sound hA ws).trans (C05_table_represents hT r ws)
  constructor
  · intro h ws
    exact ((nfaEquiv_sound (A := F) (B := A) (n := n)).1 h ws).trans (key ws)
  · intro w h hc
    exact (nfaEquiv_sound (A := F) (B := A) (n := n)).2 w h (hc.trans (key w).symm)

/-- **C05, end to end for the model's table.** For every grammar: if the
exploration of `desugar g` from rule `<r>` returned `A` and the verified comparison of an automaton
`F` (the dumped real FSG) with `A` answered "equal", then `F` accepts exactly the JSGF language of
`<r>`; a returned word is a real difference. -/
theorem C05_compiled_language (g : Grammar) {r fuel n : Nat} {A F : Nfa}
    (hA : explore (desugar g).rules (.user r) fuel = some A) :
    (nfaEquiv F A n = .ok none → ∀ ws, Accepts F ws ↔ Lang g r ws) ∧
    (∀ w, nfaEquiv F A n = .ok (some w) → ¬ (Accepts F w ↔ Lang g r w)) :=
  C05_comparison_decides (desugar_matches g) hA

/-- **C05, the expansion is correct.** `expandTop` mirrors `expand_rule` / `expand_rhs` (repaired:
`<VOID>` continues from an unreachable state, errors propagate, right recursion is accepted only
when every reference on the chain back to the stacked rule is in last position) state by state
and link by link; the check compares its states and links with the raw FSG of the real compiler
exactly, for every generated grammar.  For **every** rule table and top rule:
* it refuses (returns `none`) exactly when `representable` is false — an undefined rule is
  reached, or a rule on the stack is referenced from a position that is not last along the whole
  chain back to it (left recursion, embedded recursion, also hidden behind tail references);
* when it does not refuse, the automaton of the produced links (start = entry of the top rule,
  final = its exit) accepts exactly the sentences the top rule denotes. -/
theorem C05_expand_correct (T : Table) (top : RName) :
    ((expandTop T top).isSome = representable T top) ∧
    (∀ st, expandTop T top = some st → ∀ ws, Accepts st.toNfa ws ↔ Der T.rules [.ref top] ws) :=
  ⟨expandTop_isSome T top, fun _ h ws => ⟨expandTop_sound h ws, expandTop_complete h ws⟩⟩

/-- **C05, compiler model end to end.** For every surface grammar and every
rule `<r>`: parser actions followed by the expansion either refuse (exactly when the desugared
grammar is not representable from `<r>`) or produce an automaton that accepts exactly the JSGF
language of `<r>`. -/
theorem C05_compile_correct (g : Grammar) (r : Nat) :
    ((expandTop (desugar g) (.user r)).isSome = representable (desugar g) (.user r)) ∧
    (∀ st, expandTop (desugar g) (.user r) = some st → ∀ ws, Accepts st.toNfa ws ↔ Lang g r ws) := by
  refine ⟨expandTop_isSome _ _, fun st h ws => ?_⟩
  exact ((C05_expand_correct (desugar g) (.user r)).2 st h ws).trans (C05_desugar_preserves g r ws)

/-- **C05, weights (rule level).** Over ℚ: after `expand_rule`'s normalisation the weights of the first
atoms of a rule's alternatives sum to one (when their sum is not 0; when it is 0 nothing changes), and
normalising again changes nothing (the C code normalises in place on every expansion of the
rule).  This is a statement about the rule's `firstWeights`, NOT about the outgoing arcs of an FSG
state: an alternative that starts with `<VOID>` gets no arc and a lone rule reference may become a
null self-loop that `fsg_model` drops, so the arc probabilities of a choice point are only bounded by
one in general; the check evaluates the arc sums on the real FSG (exactly one where no mass can
vanish, at most one otherwise) and compares every arc probability with the model's. -/
theorem C05_weights_normalised (rl : Rule) :
    (sumRat (firstWeights rl) ≠ 0 → sumRat (firstWeights (normaliseRule rl)) = 1) ∧
    (sumRat (firstWeights rl) = 0 → normaliseRule rl = rl) ∧
    normaliseRule (normaliseRule rl) = normaliseRule rl :=
  ⟨normalise_sum, normalise_zero, normalise_idem rl⟩

/-! ### the text front end (`jsgf_scanner.l`, `jsgf_parser.y`) -/

/-! Totality of the front end is by construction, not a theorem: `parseText` (scanner model `lexGo`
with its four start conditions, then the pushdown parser `pstep`) is defined by structural recursion on
the byte string and on the token list — no fuel, no `partial` — so Lean's termination checker has
accepted that it answers on every byte string (a syntax tree or a rejection).  A statement of the form
"`parseText cs` is `some _` or `none`" would be true of every value of the type and is deliberately not
listed as a property theorem (audit A3). -/

open SSVerif.JsgfText in
/-- **C05, print–parse round trip.** For every text-level syntax tree `g` — any nesting of groups,
optionals, `*`/`+`, weights (decimal literals) in front of any item, any number of tags, header
tokens, imports, public flags — whose spellings satisfy the printer's side conditions `g.ok`
(plain tokens without special characters and not starting with `"`, or `"…"` without inner quote
and without a backslash before the closing quote; rule names `<…>` without `<`/`>` inside; tags
`{…}` without `}` inside and without a backslash before the closing brace; at most three header
tokens; imports only together with a rule): the front end reads the printed text back as exactly
`g`.  The scanner part (`lex_unlex`) and the parser part (`parseToks_toksG`) are proved separately. -/
theorem C05_parse_print (g : TGrammar) (h : g.ok = true) : parseText (printG g) = some g :=
  parse_print g h

open SSVerif.JsgfText in
/-- **C05, from text to language.** For every syntax tree (in particular the one `parseText` returns
for a byte string the front end accepts — the check runs `parseText` and `resolve` on every text), with the
surface grammar `resolve` builds from the syntax tree (names qualified as `jsgf_fullname` /
`jsgf_fullname_from_rule` do, a repeated rule name keeping its first definition) and every rule `r`:
the compiler model builds (`buildRaw`, i.e. the expansion is not refused and no null transition
would get a probability above one) only automata that accept exactly the JSGF language of `r`. -/
theorem C05_text_compile_correct (tg : TGrammar) (r : Nat)
    (st : XSt) (hb : buildRaw (desugar (resolve tg).1) (.user r) = some st) (ws : List Nat) :
    Accepts st.toNfa ws ↔ Lang (resolve tg).1 r ws := by
  unfold buildRaw at hb
  cases he : expandTop (desugar (resolve tg).1) (.user r) with
  | none => simp [he] at hb
  | some st' =>
    simp only [he, Option.bind_some] at hb
    split at hb
    · simp only [Option.some.injEq] at hb
      subst hb
      exact (C05_compile_correct (resolve tg).1 r).2 st' he ws
    · cases hb

/-! ### non-vacuity -/

/-- `public <0> = (x | y)* z+ [w];`  (x=0 y=1 z=2 w=3) -/
def exG1 : Grammar := [{ name := 0, pub := true, body := (Alts.one
  (.cons 1 0 (.star (.group (.cons (.one 1 0 (.tok 0)) (.one (.one 1 0 (.tok 1))))))
  (.cons 1 0 (.plus (.tok 2)) (.one 1 0 (.opt (.one (.one 1 0 (.tok 3)))))))) }]

/-- `<0> = x <1> y | z;  <1> = w <0>;` — non-tail recursion hidden behind a tail reference -/
def exG2 : Grammar :=
  [{ name := 0, pub := true, body := (Alts.cons (.cons 1 0 (.tok 0) (.cons 1 0 (.ref 1) (.one 1 0 (.tok 1))))
      (.one (.one 1 0 (.tok 2)))) },
   { name := 1, pub := false, body := (Alts.one (.cons 1 0 (.tok 3) (.one 1 0 (.ref 0)))) }]

/-- `<0> = x <0> | <VOID> y | <NULL>;` — tail recursion, `<VOID>`, `<NULL>` -/
def exG3 : Grammar :=
  [{ name := 0, pub := true, body := (Alts.cons (.cons 1 0 (.tok 0) (.one 1 0 (.ref 0)))
      (.cons (.cons 1 0 .void (.one 1 0 (.tok 1))) (.one (.one 1 0 .null)))) }]

example : namesDistinct exG1 = true ∧ namesDistinct exG2 = true ∧ namesDistinct exG3 = true := by decide +kernel
example : tableMatches (desugar exG1) exG1 = true := by decide +kernel
example : (desugar exG1).length = 5 := by decide +kernel
example : (explore (desugar exG1).rules (.user 0) 100).isSome = true := by decide +kernel
example : representable (desugar exG1) (.user 0) = true := by decide +kernel
example : tableMatches (desugar exG2) exG2 = true := by decide +kernel
example : representable (desugar exG2) (.user 0) = false := by decide +kernel
example : representable (desugar exG2) (.user 1) = false := by decide +kernel
example : (explore (desugar exG2).rules (.user 0) 60).isSome = false := by decide +kernel
example : representable (desugar exG3) (.user 0) = true := by decide +kernel
example : ((expandTop (desugar exG3) (.user 0)).map (·.nstate)) = some 6 := by decide +kernel
example : (expandTop (desugar exG2) (.user 0)).isSome = false := by decide +kernel
example : (explore (desugar exG3).rules (.user 0) 100).isSome = true := by decide +kernel
/-- the denotation is inhabited and not everything: `z` and `x y z z w` are in, `w` is not -/
example : Lang exG1 0 [2] := by
  refine .ref (body := (Alts.one
    (.cons 1 0 (.star (.group (.cons (.one 1 0 (.tok 0)) (.one (.one 1 0 (.tok 1))))))
    (.cons 1 0 (.plus (.tok 2)) (.one 1 0 (.opt (.one (.one 1 0 (.tok 3))))))))) rfl (.altOne ?_)
  have h1 : Sem exG1 (.e (.star (.group (.cons (.one 1 0 (.tok 0)) (.one (.one 1 0 (.tok 1))))))) [] := .starNil
  have h2 : Sem exG1 (.e (.plus (.tok 2))) [2] := .plusOne .tok
  have h3 : Sem exG1 (.e (.opt (.one (.one 1 0 (.tok 3))))) [] := .optNone
  exact .seqCons (w1 := []) h1 (.seqCons (w1 := [2]) h2 (.seqOne h3))
example : ¬ Lang exG3 1 [0] := by
  intro h
  cases h with
  | ref hl _ => cases hl
/-- weights 2, 3, 0 are normalised to 2/5, 3/5, 0 -/
def exRule : Rule :=
  { name := .user 0, pub := true, alts := [[⟨.tok 0, 2, 0⟩], [⟨.tok 1, 3, 0⟩, ⟨.tok 5, 7, 0⟩], [⟨.tok 2, 0, 0⟩]] }
example : firstWeights (normaliseRule exRule) = [2/5, 3/5, 0] := by decide +kernel

/-- the front end accepts a text with comments, quoting, tags, weights, a qualified reference,
and rejects a tag before a `*` -/
example : (SSVerif.JsgfText.parseText
    "#JSGF V1.0; grammar g; /* c */ public <a> = /2/ x* {t} | \"q r\" <g.b>+ [ y ] // d\n ; <b> = z;".toList).isSome = true := by
  decide +kernel
example : (SSVerif.JsgfText.parseText "#JSGF V1.0; grammar g; public <a> = x {t} * ;".toList).isSome = false := by
  decide +kernel
def exTG : SSVerif.JsgfText.TGrammar :=
  { headerToks := ["V1.0".toList], name := "g".toList, imports := [],
    rules := [{ name := "<a>".toList, pub := true,
                body := (SSVerif.JsgfText.TAlts.one (.cons (some ⟨25, 1⟩) ["{t}".toList] (.star (.tok "x".toList))
                  (.one none [] (.opt (.one (.one none [] (.rule "<b>".toList))))))) }] }
example : exTG.ok = true := by decide +kernel
example : String.ofList (SSVerif.JsgfText.printG exTG) = "#JSGF V1.0 ; grammar g ; public <a> = /2.5/ x * {t} [ <b> ] ; " := by
  decide +kernel

end SSVerif.Jsgf
