import SSVerif.Proofs.RangesSen
/-!
# C18 — Features and scores stay finite and within range for any audio (INTEGER side)

Property theorems only, over `Model/Ranges.lean`.  What they cover of the property text:
"acoustic scores stay within their 16-bit range with the best score per frame normalised to zero, and
path scores never wrap around".  The float side (finiteness of cepstra / dynamic features / CMN state,
CMN text round trip) is NOT proved here — it is observed on the implementation by `harness/h_c18.c`
(see tools/props/c18.py); Lean's kernel knows nothing about IEEE arithmetic.

Vocabulary: `I32 x` / `I16 x` — `x` fits an `int32` / `int16`; `WORST` = `WORST_SCORE`;
`Bd3 lo hi h` — the three state scores and the exit score of a 3-state HMM are in `[lo, hi]`
(`Bd5` likewise); the second component of `hmm3Step` / `hmm3Run` is the list of EVERY value the C code
stores in an `int32` variable while evaluating.  `Shape F K cbt` — a codebook has at most `F` streams with
at most `K` top-N entries; `Scores01 cbt` — its top-N scores are in `[0, MAX_NEG_ASCR]`;
`Inv F K active t` — every codebook has that shape and the ACTIVE ones hold normalised scores.
-/
namespace SSVerif.Ranges
open SSVerif.Generated.Ranges

/-! ## hmm_no_wrap -/

/-- **C18, hmm_no_wrap (one frame, 3 states).**  If the state scores are `≥ WORST_SCORE` (and `≤ U` with
`U + 32768` still an int32), the senone scores are ANY `int16` values and the transition entries are
bytes, then every intermediate of `hmm_vit_eval_3st_lr` fits an int32 and the new state scores, exit
score and best score are again `≥ WORST_SCORE` (and `≤ U + 32768`). -/
theorem C18_hmm_no_wrap {tp : Nat → Nat → Nat} (htp : ∀ i j, tp i j ≤ 255) {U c0 c1 c2 : Int} {h : H3}
    (hc0 : I16 c0) (hc1 : I16 c1) (hc2 : I16 c2) (hU : U + 32768 ≤ int32Max) (hWU : WORST ≤ U)
    (hb : Bd3 WORST U h) :
    (∀ x ∈ (hmm3Step tp c0 c1 c2 h).2, I32 x) ∧ Bd3 WORST (U + 32768) (hmm3Step tp c0 c1 c2 h).1 ∧
    WORST ≤ (hmm3Step tp c0 c1 c2 h).1.best ∧ (hmm3Step tp c0 c1 c2 h).1.best ≤ U + 32768 := by
  rw [i16_iff] at hc0 hc1 hc2
  rw [const_facts.2.1] at hU
  exact hmm3Step_core htp (cl := -32768) (ch := 32767) (by omega) (by omega) hU (by omega) (by omega) hWU
    hc0 hc1 hc2 hb

/-- **C18, hmm_no_wrap (one frame, 5 states)** — the same for `hmm_vit_eval_5st_lr`. -/
theorem C18_hmm5_no_wrap {tp : Nat → Nat → Nat} (htp : ∀ i j, tp i j ≤ 255) {U c0 c1 c2 c3 c4 : Int} {h : H5}
    (hc0 : I16 c0) (hc1 : I16 c1) (hc2 : I16 c2) (hc3 : I16 c3) (hc4 : I16 c4)
    (hU : U + 32768 ≤ int32Max) (hWU : WORST ≤ U) (hb : Bd5 WORST U h) :
    (∀ x ∈ (hmm5Step tp c0 c1 c2 c3 c4 h).2, I32 x) ∧ Bd5 WORST (U + 32768) (hmm5Step tp c0 c1 c2 c3 c4 h).1 ∧
    WORST ≤ (hmm5Step tp c0 c1 c2 c3 c4 h).1.best ∧ (hmm5Step tp c0 c1 c2 c3 c4 h).1.best ≤ U + 32768 := by
  rw [i16_iff] at hc0 hc1 hc2 hc3 hc4
  rw [const_facts.2.1] at hU
  exact hmm5Step_core htp (cl := -32768) (ch := 32767) (by omega) (by omega) hU (by omega) (by omega) hWU
    hc0 hc1 hc2 hc3 hc4 hb

/-- a frame whose senone scores are normalised (`0 ≤ c ≤ 32767`, what `C18_senscr_range` provides for
the active senones) and whose entering score, if any, is in `[WORST_SCORE, 0]` -/
def Frame3.Ok (f : Frame3) : Prop :=
  (0 ≤ f.c0 ∧ f.c0 ≤ 32767) ∧ (0 ≤ f.c1 ∧ f.c1 ≤ 32767) ∧ (0 ≤ f.c2 ∧ f.c2 ≤ 32767) ∧
  ∀ s hi, f.enter = some (s, hi) → WORST ≤ s ∧ s ≤ 0

def Frame5.Ok (f : Frame5) : Prop :=
  (0 ≤ f.c0 ∧ f.c0 ≤ 32767) ∧ (0 ≤ f.c1 ∧ f.c1 ≤ 32767) ∧ (0 ≤ f.c2 ∧ f.c2 ≤ 32767) ∧
  (0 ≤ f.c3 ∧ f.c3 ≤ 32767) ∧ (0 ≤ f.c4 ∧ f.c4 ≤ 32767) ∧
  ∀ s hi, f.enter = some (s, hi) → WORST ≤ s ∧ s ≤ 0

/-- **C18, hmm_no_wrap as an invariant for EVERY utterance length (3 states).**  Starting from scores in
`[WORST_SCORE, 0]` (e.g. `hmm_clear`), for ANY number of frames with normalised senone scores and
entering scores in `[WORST_SCORE, 0]`: every int32 intermediate of every frame fits, and the scores stay
in `[WORST_SCORE, 0]`.  No bound on the number of frames: the clamps make `[WORST_SCORE, 0]` invariant. -/
theorem C18_hmm_invariant {tp : Nat → Nat → Nat} (htp : ∀ i j, tp i j ≤ 255) :
    ∀ (fs : List Frame3) (h : H3), (∀ f ∈ fs, f.Ok) → Bd3 WORST 0 h →
      (∀ x ∈ (hmm3Run tp h fs).2, I32 x) ∧ Bd3 WORST 0 (hmm3Run tp h fs).1
  | [], h, _, hb => ⟨(by intro x hx; cases hx), hb⟩
  | f :: fs, h, hf, hb => by
    obtain ⟨b0, b1, b2, he⟩ := hf f (by simp)
    have hb' : Bd3 WORST 0 (match f.enter with | some (s, hi) => h.enter s hi | none => h) := by
      cases hfe : f.enter with
      | none => exact hb
      | some p =>
        obtain ⟨s, hi⟩ := p
        have := he s hi hfe
        exact ⟨this, hb.s1, hb.s2, hb.out⟩
    have st := hmm3Step_core htp (cl := 0) (ch := 32767) (U := 0) (V := 0) (by omega) (by omega) (by omega)
      (by omega) (by omega) worst_le_zero b0 b1 b2 hb'
    have ih := C18_hmm_invariant htp fs (f.apply tp h).1 (fun g hg => hf g (by simp [hg])) st.2.1
    simp only [hmm3Run]
    refine ⟨?_, ih.2⟩
    intro x hx
    rcases List.mem_append.1 hx with hx | hx
    · exact st.1 x hx
    · exact ih.1 x hx

/-- **C18, hmm_no_wrap as an invariant for every utterance length (5 states).** -/
theorem C18_hmm5_invariant {tp : Nat → Nat → Nat} (htp : ∀ i j, tp i j ≤ 255) :
    ∀ (fs : List Frame5) (h : H5), (∀ f ∈ fs, f.Ok) → Bd5 WORST 0 h →
      (∀ x ∈ (hmm5Run tp h fs).2, I32 x) ∧ Bd5 WORST 0 (hmm5Run tp h fs).1
  | [], h, _, hb => ⟨(by intro x hx; cases hx), hb⟩
  | f :: fs, h, hf, hb => by
    obtain ⟨b0, b1, b2, b3, b4, he⟩ := hf f (by simp)
    have hb' : Bd5 WORST 0 (match f.enter with | some (s, hi) => h.enter s hi | none => h) := by
      cases hfe : f.enter with
      | none => exact hb
      | some p =>
        obtain ⟨s, hi⟩ := p
        have := he s hi hfe
        exact ⟨this, hb.s1, hb.s2, hb.s3, hb.s4, hb.out⟩
    have st := hmm5Step_core htp (cl := 0) (ch := 32767) (U := 0) (V := 0) (by omega) (by omega) (by omega)
      (by omega) (by omega) worst_le_zero b0 b1 b2 b3 b4 hb'
    have ih := C18_hmm5_invariant htp fs (f.apply tp h).1 (fun g hg => hf g (by simp [hg])) st.2.1
    simp only [hmm5Run]
    refine ⟨?_, ih.2⟩
    intro x hx
    rcases List.mem_append.1 hx with hx | hx
    · exact st.1 x hx
    · exact ih.1 x hx

/-- the state `hmm_clear` leaves behind satisfies the invariant -/
theorem C18_clear_ok : Bd3 WORST 0 H3.clear ∧ Bd5 WORST 0 H5.clear := by
  have := worst_le_zero
  exact ⟨⟨⟨Int.le_refl _, this⟩, ⟨Int.le_refl _, this⟩, ⟨Int.le_refl _, this⟩, ⟨Int.le_refl _, this⟩⟩,
    ⟨⟨Int.le_refl _, this⟩, ⟨Int.le_refl _, this⟩, ⟨Int.le_refl _, this⟩, ⟨Int.le_refl _, this⟩,
     ⟨Int.le_refl _, this⟩, ⟨Int.le_refl _, this⟩⟩⟩

/-! ## senscr_range -/

theorem shr_mono {x y : Int} (h : x ≤ y) : shr x ≤ shr y := by
  rw [shr_eq, shr_eq]; omega

/-- **C18, top-N normalisation (`ptm_mgau_codebook_norm`).**  If the table has one activity flag per
codebook, every codebook has at most `F` streams of at most `K` entries, and in every top-N list the
first entry is the largest (the insertion sorts of `eval_topn` / `eval_cb` keep the lists sorted), then
after normalisation every ACTIVE codebook holds scores in `[0, MAX_NEG_ASCR]` — the invariant `Inv` that
`C18_senscr_range` needs. -/
theorem C18_topn_norm_range {F K : Nat} (active : List Bool) (t : TopTab)
    (hshape : ∀ cb, Shape F K (t.getD cb []))
    (hsorted : ∀ cbt ∈ t, ∀ l ∈ cbt, ∀ e ∈ l, e.score ≤ headScore l) :
    Inv F K active (ptmNorm active t) := by
  intro cb
  unfold ptmNorm
  rw [List.getD_eq_getElem?_getD, List.getElem?_map]
  cases hz : (active.zip t)[cb]? with
  | none => exact ⟨shape_nil F K, fun _ => scores01_nil⟩
  | some p =>
    obtain ⟨ha, ht⟩ := List.getElem?_zip_eq_some.1 hz
    have hsh := hshape cb
    rw [List.getD_eq_getElem?_getD, ht] at hsh
    simp only [Option.getD_some] at hsh
    simp only [Option.map_some, Option.getD_some]
    by_cases hp : p.1 = true
    · rw [if_pos hp]
      refine ⟨⟨by rw [List.length_mapIdx]; exact hsh.1, ?_⟩, fun _ => ?_⟩
      · intro l hl
        obtain ⟨j, hj, rfl⟩ := List.mem_mapIdx.1 hl
        rw [List.length_map]; exact hsh.2 _ (List.getElem_mem hj)
      · intro l hl e he
        obtain ⟨j, hj, rfl⟩ := List.mem_mapIdx.1 hl
        obtain ⟨e0, he0, rfl⟩ := List.mem_map.1 he
        have hmem : p ∈ active.zip t := List.mem_of_getElem? hz
        have hn := (ptmNormOf_ge active t j).2 p hmem hp
        have hget : p.2.getD j [] = p.2[j] := by
          rw [List.getD_eq_getElem?_getD, List.getElem?_eq_getElem hj]; rfl
        rw [hget] at hn
        have hs := hsorted p.2 (List.mem_of_getElem? ht) p.2[j] (List.getElem_mem hj) e0 he0
        exact normScore_range (Int.le_trans (shr_mono hs) hn)
    · rw [if_neg hp]
      refine ⟨hsh, fun hact => ?_⟩
      rw [List.getD_eq_getElem?_getD, ha] at hact
      exact absurd hact hp

/-- **C18, the top-N lists stay sorted.**  Whatever the new densities are, `eval_topn` (re-score every entry,
`insertion_sort_topn`) leaves a list sorted best-first, `insertion_sort_cb` keeps a sorted list sorted for ANY new
entry, hence so does `eval_cb`; and in a sorted list no entry scores more than the first.  This discharges the
`hsorted` hypothesis of `C18_topn_norm_range` for the lists the code actually builds. -/
theorem C18_topn_sorted (score dens : Nat → Int) (nden : Nat) (l : List TopN) :
    SortedDesc (evalTopn score l) ∧
    (∀ e l', SortedDesc l' → SortedDesc (insertCb e l')) ∧
    SortedDesc (evalCb dens nden (evalTopn score l)) ∧
    ∀ e ∈ evalCb dens nden (evalTopn score l), e.score ≤ headScore (evalCb dens nden (evalTopn score l)) :=
  ⟨evalTopn_sorted score l, fun e _ h => insertCb_sorted e h, evalCb_sorted dens nden (evalTopn_sorted score l),
   head_is_max (evalCb_sorted dens nden (evalTopn_sorted score l))⟩

/-- **C18, a whole PTM frame: evaluation, normalisation.**  Every codebook/stream list is first re-scored and
extended by the real maintenance code (`eval_topn`, `eval_cb` — densities arbitrary), then
`ptm_mgau_codebook_norm` runs: the result satisfies `Inv`, i.e. all normalised scores of active codebooks are in
`[0, MAX_NEG_ASCR]`, with no assumption on the densities. -/
theorem C18_frame_norm_range {F K : Nat} (active : List Bool) (t : TopTab)
    (score dens : Nat → Nat → Nat → Int) (nden : Nat)
    (hshape : ∀ cb, Shape F K
      ((t.mapIdx fun cb cbt => cbt.mapIdx fun f l => evalCb (dens cb f) nden (evalTopn (score cb f) l)).getD cb [])) :
    Inv F K active (ptmNorm active
      (t.mapIdx fun cb cbt => cbt.mapIdx fun f l => evalCb (dens cb f) nden (evalTopn (score cb f) l))) := by
  apply C18_topn_norm_range active _ hshape
  intro cbt hcbt l hl
  obtain ⟨cb, hcb, rfl⟩ := List.mem_mapIdx.1 hcbt
  obtain ⟨f, hf, rfl⟩ := List.mem_mapIdx.1 hl
  exact (C18_topn_sorted (score cb f) (dens cb f) nden _).2.2.2

/-- **C18, top-N normalisation: the best density is normalised to zero and nothing overflows.**  The
normaliser of stream `j` is `WORST_SCORE` (no active codebook — the C code asserts this away) or the
shifted top-1 density of an active codebook, whose normalised score is then exactly `0`; and for every
int32 density `s` the three intermediate values of `score >>= SHIFT; score -= norm; score = -score` fit
an int32 (heads are int32 values). -/
theorem C18_topn_norm_best_zero (active : List Bool) (t : TopTab) (j : Nat)
    (hI32 : ∀ p ∈ active.zip t, I32 (headScore (p.2.getD j []))) :
    (ptmNormOf active t j = WORST ∨
      ∃ p ∈ active.zip t, p.1 = true ∧
        normScore (ptmNormOf active t j) (headScore (p.2.getD j [])) = 0) ∧
    ∀ s, I32 s → I32 (shr s) ∧ I32 (shr s - ptmNormOf active t j) ∧ I32 (-(shr s - ptmNormOf active t j)) := by
  have hmem := foldl_norm_mem (fun p => shr (headScore (p.2.getD j []))) (active.zip t) WORST
  have hge := (ptmNormOf_ge active t j).1
  have hup : ptmNormOf active t j ≤ 2097151 := by
    unfold ptmNormOf
    rcases hmem with h | ⟨p, hp, _, h⟩
    · rw [h]; have := worst_le_zero; omega
    · rw [← h]
      have := hI32 p hp
      rw [i32_iff] at this
      simp only [shr_eq]; omega
  refine ⟨?_, fun s hs => normScore_no_wrap hs ⟨hge, hup⟩⟩
  unfold ptmNormOf
  rcases hmem with h | ⟨p, hp, hp1, h⟩
  · left; exact h
  · right; exact ⟨p, hp, hp1, normScore_zero h⟩

/-- **C18, senscr_range (`ptm_mgau_senone_eval`).**  Let the add table hold bytes, the mixture weights
lie in `[0, M]`, the codebooks satisfy `Inv F K` (active ones normalised, `C18_topn_norm_range`), and let
`LO = -255·(K-1)·F`, `HI = (M + MAX_NEG_ASCR)·F` with `LO ≥ -32768`, `HI ≤ 32767`, `HI - LO ≤ 32767`.
If the decoded active list is duplicate-free, inside the senone array and non-empty, then
* every evaluated senone ends with a score `v` with `0 ≤ v ≤ HI - LO` (so no `int16` store truncated),
* at least one evaluated senone ends with exactly `0` (the best score of the frame is normalised to zero),
* `bestscore` is in `[LO, HI]` (an int32, far from `MAX_INT32`).
Senones that were NOT evaluated end up at `wrap16 (-bestscore)` (the C code subtracts `bestscore` from all
`n_sen` entries): they are outside this statement, the search never reads them. -/
theorem C18_senscr_range {tab : Nat → Nat} (htab : ∀ d, tab d ≤ 255)
    {m : Mixw} {M : Int} (hm : ∀ f cw s, 0 ≤ m.get true f cw s ∧ m.get true f cw s ≤ M)
    {F K : Nat} (hK1 : 1 ≤ K)
    (sen2cb : List Nat) (active : List Bool) (t : TopTab) (compall : Bool) (deltas : List Nat)
    (hI : Inv F K active t)
    (hlo : -32768 ≤ (-(255 * ((K : Int) - 1))) * F) (hhi : (M + maxNegAscr) * F ≤ 32767)
    (hfit : (M + maxNegAscr) * F - (-(255 * ((K : Int) - 1))) * F ≤ 32767)
    (hnd : (decodeActive compall sen2cb.length deltas).Nodup)
    (hlt : ∀ sen ∈ decodeActive compall sen2cb.length deltas, sen < sen2cb.length)
    (hne : decodeActive compall sen2cb.length deltas ≠ []) :
    (∀ sen ∈ decodeActive compall sen2cb.length deltas,
      ∃ v, (ptmSenoneEval tab m sen2cb active t compall deltas).scores[sen]? = some v ∧
        0 ≤ v ∧ v ≤ (M + maxNegAscr) * F - (-(255 * ((K : Int) - 1))) * F) ∧
    (∃ sen ∈ decodeActive compall sen2cb.length deltas,
      (ptmSenoneEval tab m sen2cb active t compall deltas).scores[sen]? = some 0) ∧
    (-(255 * ((K : Int) - 1))) * F ≤ (ptmSenoneEval tab m sen2cb active t compall deltas).best ∧
    (ptmSenoneEval tab m sen2cb active t compall deltas).best ≤ (M + maxNegAscr) * F := by
  generalize hsens : decodeActive compall sen2cb.length deltas = sens at *
  have E := evalSeq_spec htab hm hK1 sen2cb active sens t hI
  generalize hps : (evalSeq tab m sen2cb active t sens).2 = ps at E
  have hfst := E.1
  have hnd' : (ps.map Prod.fst).Nodup := by rw [hfst]; exact hnd
  have hlt' : ∀ p ∈ ps, p.1 < (List.replicate sen2cb.length (0 : Int)).length := by
    intro p hp
    rw [List.length_replicate]
    exact hlt p.1 (by rw [← hfst]; exact List.mem_map.2 ⟨p, hp, rfl⟩)
  have Wr := writeAll_spec hlo hhi ps (List.replicate sen2cb.length 0) int32Max hnd' hlt' E.2.1
  -- the minimum is attained (the list is not empty, and every ascore is below MAX_INT32)
  have hps_ne : ps ≠ [] := by
    intro h; rw [h] at hfst; exact hne hfst.symm
  obtain ⟨p0, hp0⟩ := List.exists_mem_of_ne_nil ps hps_ne
  have hbest_le : (writeAll (List.replicate sen2cb.length 0) int32Max ps).2 ≤ p0.2 := Wr.2.2.1 p0 hp0
  have hmin : ∃ p ∈ ps, p.2 = (writeAll (List.replicate sen2cb.length 0) int32Max ps).2 := by
    rcases Wr.2.2.2 with h | h
    · exfalso
      have := (E.2.1 p0 hp0).2
      rw [h, const_facts.2.1] at hbest_le
      omega
    · exact h
  have hscore : ∀ p ∈ ps, (ptmSenoneEval tab m sen2cb active t compall deltas).scores[p.1]? =
      some (p.2 - (writeAll (List.replicate sen2cb.length 0) int32Max ps).2) := by
    intro p hp
    unfold ptmSenoneEval
    simp only [hsens, hps]
    rw [List.getElem?_map, Wr.1 p hp]
    simp only [Option.map_some]
    have h1 := E.2.1 p hp
    have h2 := Wr.2.2.1 p hp
    obtain ⟨q, hq, hq2⟩ := hmin
    have h3 := E.2.1 q hq
    rw [wrap16_id (by omega)]
  have hbest : (ptmSenoneEval tab m sen2cb active t compall deltas).best =
      (writeAll (List.replicate sen2cb.length 0) int32Max ps).2 := by
    unfold ptmSenoneEval; simp only [hsens, hps]
  refine ⟨?_, ?_, ?_, ?_⟩
  · intro sen hsen
    rw [← hfst] at hsen
    obtain ⟨p, hp, rfl⟩ := List.mem_map.1 hsen
    refine ⟨_, hscore p hp, ?_, ?_⟩
    · have := Wr.2.2.1 p hp; omega
    · obtain ⟨q, hq, hq2⟩ := hmin
      have h1 := E.2.1 p hp
      have h3 := E.2.1 q hq
      omega
  · obtain ⟨q, hq, hq2⟩ := hmin
    refine ⟨q.1, by rw [← hfst]; exact List.mem_map.2 ⟨q, hq, rfl⟩, ?_⟩
    rw [hscore q hq, hq2]; simp
  · obtain ⟨q, hq, hq2⟩ := hmin
    rw [hbest, ← hq2]; exact (E.2.1 q hq).1
  · obtain ⟨q, hq, hq2⟩ := hmin
    rw [hbest, ← hq2]; exact (E.2.1 q hq).2

/-! ## path_score_bound and the score expressions of the search -/

/-- **C18, path_score_bound.**  For a path of `T` frames whose per-frame senone score is in `[0, Smax]`,
transition byte in `[0, 255]` and insertion penalty in `[-pen, pen]` (`pen = |pip| + |wip|`):
`-(T·(Smax + 255 + pen) + Σ|link|) ≤ score ≤ T·pen + Σ|link|`. -/
theorem C18_path_score_bound (Smax pen : Int) :
    ∀ ps : List PStep,
      (∀ p ∈ ps, (0 ≤ p.sen ∧ p.sen ≤ Smax) ∧ (0 ≤ p.tp ∧ p.tp ≤ 255) ∧ (-pen ≤ p.pen ∧ p.pen ≤ pen)) →
      -((ps.length : Int) * (Smax + 255 + pen) + sumAbsLink ps) ≤ pathScore ps ∧
      pathScore ps ≤ (ps.length : Int) * pen + sumAbsLink ps
  | [], _ => by simp [pathScore, sumAbsLink]
  | p :: ps, h => by
    have ih := C18_path_score_bound Smax pen ps (fun q hq => h q (by simp [hq]))
    obtain ⟨⟨s0, s1⟩, ⟨t0, t1⟩, ⟨p0, p1⟩⟩ := h p (by simp)
    simp only [pathScore, sumAbsLink, List.length_cons]
    have e1 : ((ps.length + 1 : Nat) : Int) * (Smax + 255 + pen) =
        (ps.length : Int) * (Smax + 255 + pen) + (Smax + 255 + pen) := by
      push_cast; rw [Int.add_mul]; omega
    have e2 : ((ps.length + 1 : Nat) : Int) * pen = (ps.length : Int) * pen + pen := by
      push_cast; rw [Int.add_mul]; omega
    rw [e1, e2]
    omega

/-- **C18, no wrap below the computed frame count.**  If `T·(Smax + 255 + pen) + Σ|link| ≤ -WORST_SCORE`
(and `pen ≥ 0`), the exact score of the path and of every suffix of it lies in `[WORST_SCORE, -WORST_SCORE]`:
the int32 accumulation neither wraps nor reaches the clamp, so it IS the exact sum. -/
theorem C18_path_no_wrap (Smax pen : Int) (hS : 0 ≤ Smax) (_hpen : 0 ≤ pen) (ps : List PStep)
    (h : ∀ p ∈ ps, (0 ≤ p.sen ∧ p.sen ≤ Smax) ∧ (0 ≤ p.tp ∧ p.tp ≤ 255) ∧ (-pen ≤ p.pen ∧ p.pen ≤ pen))
    (hT : (ps.length : Int) * (Smax + 255 + pen) + sumAbsLink ps ≤ -WORST) :
    WORST ≤ pathScore ps ∧ pathScore ps ≤ -WORST ∧ I32 (pathScore ps) := by
  have b := C18_path_score_bound Smax pen ps h
  have hW := worst_room
  have hle : (ps.length : Int) * pen ≤ (ps.length : Int) * (Smax + 255 + pen) :=
    Int.mul_le_mul_of_nonneg_left (by omega) (by omega)
  rw [i32_iff]
  omega

/-- **C18, entering an HMM (`fsg_search_pnode_trans` / `_word_trans`).**  With the source score, the
child's in-score and the frame's best score in `[WORST_SCORE, 0]`, a beam in `[-2^30, 0]` and a transition
score `lp ∈ [-2^30, 0]`, the stored intermediates (`thresh`, `newscore`) fit an int32 and the child's
in-score stays in `[WORST_SCORE, 0]` — the entering hypothesis of `C18_hmm_invariant`. -/
theorem C18_enter_no_wrap {src lp best beam childIn : Int}
    (hs : WORST ≤ src ∧ src ≤ 0) (hc : WORST ≤ childIn ∧ childIn ≤ 0) (hb : WORST ≤ best ∧ best ≤ 0)
    (hlp : -1073741824 ≤ lp ∧ lp ≤ 0) (hbeam : -1073741824 ≤ beam ∧ beam ≤ 0) :
    (∀ x ∈ (enterScore src lp best beam childIn).2, I32 x) ∧
    WORST ≤ (enterScore src lp best beam childIn).1 ∧ (enterScore src lp best beam childIn).1 ≤ 0 := by
  have hW := worst_room2
  have hW1 : -1073741824 ≤ WORST := by
    have h : (-1073741824 : Int) ≤ worstScore := by decide
    exact h
  unfold enterScore
  simp only
  refine ⟨?_, ?_, ?_⟩
  · intro x hx
    simp only [List.mem_cons, List.mem_nil_iff, or_false] at hx
    rw [i32_iff]
    rcases hx with rfl | rfl <;> omega
  · split <;> omega
  · split <;> omega

/-- **C18, null transitions and segment scores (`fsg_search_null_prop`, `fsg_seg_bp2itor`).**  With history
scores in `[WORST_SCORE + wbeam, 0]`-style ranges (here: `[-2^30, 0]`), link scores that are int32 values and
non-positive, every stored intermediate fits an int32. -/
theorem C18_null_seg_no_wrap {hist pred lp best wbeam : Int}
    (hh : -1073741824 ≤ hist ∧ hist ≤ 0) (hp : -1073741824 ≤ pred ∧ pred ≤ 0)
    (hb : WORST ≤ best ∧ best ≤ 0) (hlp : I32 lp ∧ lp ≤ 0) (hbeam : -1073741824 ≤ wbeam ∧ wbeam ≤ 0) :
    (∀ x ∈ (nullScore hist lp best wbeam).2, I32 x) ∧ (∀ x ∈ (segAscr hist pred lp).2.2.2, I32 x) := by
  have hW := worst_room2
  have hW1 : -1073741824 ≤ WORST := by
    have h : (-1073741824 : Int) ≤ worstScore := by decide
    exact h
  have hlp1 := (i32_iff lp).1 hlp.1
  unfold nullScore segAscr
  simp only
  constructor
  · intro x hx
    simp only [List.mem_cons, List.mem_nil_iff, or_false] at hx
    rw [i32_iff]
    rcases hx with rfl | rfl | rfl <;> (try simp only [shr_eq]) <;> omega
  · intro x hx
    simp only [List.mem_cons, List.mem_nil_iff, or_false] at hx
    rw [i32_iff]
    rcases hx with rfl | rfl | rfl | rfl <;> (try simp only [shr_eq]) <;> omega

/-! ## non-vacuity -/

/-- a usual 3-state left-to-right topology without skips (`255 = TMAT_WORST_SCORE` = absent) -/
def exTp : Nat → Nat → Nat := fun i j =>
  if j = i then 20 else if j = i + 1 then 60 else 255

/-- three frames of a freshly entered HMM: the hypotheses of `C18_hmm_invariant` hold and the result is a
genuine (not clamped) score -/
example :
    (hmm3Run exTp H3.clear [⟨some (0, 7), 12, 30, 40⟩, ⟨none, 0, 9, 20⟩, ⟨none, 5, 5, 0⟩]).1.s2 = -157 ∧
    (hmm3Run exTp H3.clear [⟨some (0, 7), 12, 30, 40⟩, ⟨none, 0, 9, 20⟩, ⟨none, 5, 5, 0⟩]).1.out = -201 ∧
    (hmm3Run exTp H3.clear [⟨some (0, 7), 12, 30, 40⟩, ⟨none, 0, 9, 20⟩, ⟨none, 5, 5, 0⟩]).1.h2 = 7 := by
  decide

example : ∀ f ∈ [(⟨some (0, 7), 12, 30, 40⟩ : Frame3), ⟨none, 0, 9, 20⟩, ⟨none, 5, 5, 0⟩], f.Ok := by
  have := worst_le_zero
  intro f hf
  simp only [List.mem_cons, List.mem_nil_iff, or_false] at hf
  rcases hf with rfl | rfl | rfl <;>
    refine ⟨by decide, by decide, by decide, ?_⟩ <;> intro s hi h <;> simp at h
  obtain ⟨rfl, -⟩ := h
  exact ⟨this, Int.le_refl _⟩

/-- the clamp is really reached: a state 10 above WORST_SCORE with the worst senone score ends AT
WORST_SCORE (and the intermediate `WORST_SCORE + 10 - 32767 - 20` is below it, still an int32) -/
example :
    (hmm3Step exTp 32767 32767 32767
      { s0 := WORST + 10, s1 := WORST, s2 := WORST, out := WORST, h0 := 1, h1 := -1, h2 := -1, hout := -1, best := 0 }).1.s0
      = WORST ∧
    (WORST + 10 + -32767 + tprob exTp 0 0) ∈
      (hmm3Step exTp 32767 32767 32767
        { s0 := WORST + 10, s1 := WORST, s2 := WORST, out := WORST, h0 := 1, h1 := -1, h2 := -1, hout := -1, best := 0 }).2 := by
  decide

/-- a small PTM frame: 2 codebooks (the second inactive), 1 stream, top-2, 3 senones, all computed -/
def exTab : Nat → Nat := fun d => [7, 6, 6, 5, 5, 5, 4, 4, 4, 3].getD d 0
def exTop : TopTab := [[[⟨0, -3000000⟩, ⟨1, -3009000⟩]], [[⟨1, -3100000⟩, ⟨0, -3200000⟩]]]
def exMix : Mixw := { cb := none, w := [[[10, 40, 7], [90, 3, 159]]] }

example :
    (ptmSenoneEval exTab exMix [0, 0, 1] [true, false] (ptmNorm [true, false] exTop) true []).scores = [0, 2, 93] ∧
    (ptmNorm [true, false] exTop) = [[[⟨0, 0⟩, ⟨1, 9⟩]], [[⟨1, -3100000⟩, ⟨0, -3200000⟩]]] := by
  decide

/-- top-N maintenance on a concrete list: re-scoring reorders, a better codeword pushes the worst out -/
example :
    evalTopn (fun cw => [-50, -10, -30].getD cw 0) [⟨0, -5⟩, ⟨1, -7⟩, ⟨2, -9⟩] = [⟨1, -10⟩, ⟨2, -30⟩, ⟨0, -50⟩] ∧
    evalCb (fun cw => [-50, -10, -30, -20, -99].getD cw 0) 5 [⟨1, -10⟩, ⟨2, -30⟩, ⟨0, -50⟩]
      = [⟨1, -10⟩, ⟨3, -20⟩, ⟨2, -30⟩] := by
  decide

/-- the fit hypotheses of `C18_senscr_range` for the bundled models: 3 streams, top-4, byte weights -/
example : (-32768 : Int) ≤ (-(255 * ((4 : Nat) - 1 : Int))) * (3 : Nat) ∧
    ((255 : Int) + maxNegAscr) * (3 : Nat) ≤ 32767 ∧
    ((255 : Int) + maxNegAscr) * (3 : Nat) - (-(255 * ((4 : Nat) - 1 : Int))) * (3 : Nat) ≤ 32767 := by decide

/-- frame count below which a path cannot even reach the clamp: with the bound `3348` on a normalised
senone score of the bundled models (`C18_senscr_range`: 3·(255+96+255·3)) and `pen = 28`
(`wip = 0.65`, `lw = 6.5`, `pip = 1`): 147 000 frames = 24.5 minutes at 100 frames/s -/
example : (147000 : Int) * (3348 + 255 + 28) ≤ -WORST := by decide

end SSVerif.Ranges
