import SSVerif.Proofs.Hist
import SSVerif.Props.C01Search
/-!
# C01 — Recognition results are sentences of the active grammar

Property theorems only.  `g` is the search FSG (`fsgs->fsg`, with filler loops and alternate
pronunciations added), `h` the history table, `cur = fsgs->frame`; `WFHist g h cur` is the invariant
of the table (checked with `wfHistB`, proved equivalent, on every table dumped from the real decoder).
`findExit`/`hyp`/`segs` mirror `fsg_search_find_exit`/`fsg_search_hyp`/`fsg_search_seg_iter`.
`G` is the grammar as the user loaded it, read as an ε-NFA over base-form word ids; `projB g.toNfa G π`
(a verified Boolean check run on the two dumped grammars) says that every arc of the search grammar is
an arc of `G` after dropping fillers and mapping alternates to their base form.
-/
namespace SSVerif.Hist
open SSVerif.Nfa

variable {β : Type} {g : Fsg} {h : Hist} {cur : Int}

/-- word labels (ε dropped) of the arcs on the backtrace from exit `bp` -/
def pathLabels (g : Fsg) (h : Hist) (bp : Int) : List Nat := labelsOf g h (chain h bp)

/-- what the hypothesis keeps of a word label: fillers are dropped, the rest is reported by base form -/
def proj (g : Fsg) (base : Nat → β) (w : Nat) : Option β := if g.filler.contains w then none else some (base w)

/-- the hypothesis words are the projection of the labels of the backtrace -/
theorem hypWords_eq_proj (base : Nat → β) (g : Fsg) (h : Hist) (bp : Int) :
    hypWords base g h bp = (pathLabels g h bp).filterMap (proj g base) := by
  unfold hypWords pathLabels labelsOf
  rw [List.filterMap_filterMap]
  congr 1
  funext i
  unfold Link.label proj Fsg.isFiller
  by_cases hw : (linkOf g (ent h i)).wid < 0
  · simp [hw]
  · simp [hw]

/-- **C01, final results.**  Whenever `find_exit` with the final-state constraint returns an entry
(`bp > 0`), the arcs on its backtrace form a path of the search grammar from the start state to the
final state, and the reported words are exactly the non-filler labels of that path in base form. -/
theorem C01_hyp_is_sentence (wf : WFHist g h cur) (frm : Int) (base : Nat → β)
    (hx : 0 < (findExit g h cur frm true).bp) :
    Accepts g.toNfa (pathLabels g h (findExit g h cur frm true).bp) ∧
    hypWords base g h (findExit g h cur frm true).bp =
      (pathLabels g h (findExit g h cur frm true).bp).filterMap (proj g base) := by
  refine ⟨?_, hypWords_eq_proj base g h _⟩
  obtain ⟨j, hj, _, hlt, _, lid, hl, hfin⟩ := findExit_pos hx
  rw [hj]
  have hp := isChain_path wf (chain_isChain wf hlt) hlt
  have hd : dest g (ent h j) = g.final := by unfold dest; rw [hl]; exact hfin rfl
  rw [hd] at hp
  exact hp

/-- **C01, partial results.**  With or without the final-state constraint, a returned entry's
backtrace is a path of the search grammar leaving the start state (ending in the destination state
of the entry), and the reported words are its non-filler labels in base form. -/
theorem C01_partial_is_prefix_path (wf : WFHist g h cur) (frm : Int) (final : Bool) (base : Nat → β)
    (hx : 0 < (findExit g h cur frm final).bp) :
    Reach g.toNfa g.start (pathLabels g h (findExit g h cur frm final).bp)
      (dest g (ent h (findExit g h cur frm final).bp.toNat)) ∧
    hypWords base g h (findExit g h cur frm final).bp =
      (pathLabels g h (findExit g h cur frm final).bp).filterMap (proj g base) := by
  refine ⟨?_, hypWords_eq_proj base g h _⟩
  obtain ⟨j, hj, _, hlt, _⟩ := findExit_pos hx
  rw [hj]
  exact isChain_path wf (chain_isChain wf hlt) hlt

/-- **C01, no surviving path.**  If no entry of the last frame that has word exits ends in the final
state, a final query returns no hypothesis and no segmentation (rather than a non-sentence). -/
theorem C01_no_path_no_hyp (wf : WFHist g h cur) (shift : Nat) (base : Nat → β)
    (hno : ∀ j, 0 < j → j < h.size → (ent h j).frame = (ent h (h.size - 1)).frame → dest g (ent h j) ≠ g.final) :
    (hyp base g h cur true).1 = none ∧ segs shift g h cur true = none := by
  have hcur : cur ≠ -1 := by have := wf.below 0 wf.nonempty; rw [wf.root.2.1] at this; omega
  have hk : (ent h (scanBack h (if cur = -1 then cur - 1 else cur) (h.size - 1))).frame = (ent h (h.size - 1)).frame := by
    simp only [hcur, if_false]
    cases hs : h.size - 1 with
    | zero => simp [scanBack]
    | succ k =>
      have := wf.below (k + 1) (by omega)
      rw [scanBack_hit h cur (by omega)]
  have hle : (findExit g h cur cur true).bp ≤ 0 := by
    apply findExit_none
    intro j lid hf hl
    rw [hk] at hf
    have hj0 : 0 < j := by
      rcases Nat.eq_zero_or_pos j with h0 | h0
      · subst h0; rw [wf.root.1] at hl; cases hl
      · exact h0
    have hjs : j < h.size := by
      rcases Nat.lt_or_ge j h.size with h1 | h1
      · exact h1
      · have : ent h j = dummy := by unfold ent; simp [Array.getD, Nat.not_lt.2 h1]
        rw [this] at hl; cases hl
    have := hno j hj0 hjs hf
    unfold dest at this; rw [hl] at this; exact this
  constructor
  · unfold hyp; simp [hle]
  · unfold segs; simp [hle]

/-- **C01, projection onto the loaded grammar.**  A path of the search grammar projects — fillers
dropped, alternates mapped to base forms — to a path of the grammar as loaded. -/
theorem C01_search_grammar_projects {S G : Nfa} {π : Nat → Option Nat} (hp : projB S G π = true) :
    (∀ p ws r, Reach S p ws r → Reach G p (ws.filterMap π) r) ∧ (∀ ws, Accepts S ws → Accepts G (ws.filterMap π)) :=
  ⟨fun _ _ _ hr => proj_reach hp hr, fun _ ha => proj_accepts hp ha⟩

/-- **C01, composed.**  What `fsg_search_hyp` returns after the utterance ended is a sentence of the
grammar as loaded; so is the word sequence of the segmentation (the empty sentence when only fillers
and markers were traversed). -/
theorem C01_reported_sentence_in_loaded_grammar (wf : WFHist g h cur) (shift : Nat) (base : Nat → Nat) {G : Nfa}
    (hp : projB g.toNfa G (proj g base) = true) :
    (∀ ws, (hyp base g h cur true).1 = some ws → Accepts G ws) ∧
    (∀ ss, segs shift g h cur true = some ss → Accepts G (segWords base g ss)) := by
  have key : 0 < (findExit g h cur cur true).bp → Accepts G (hypWords base g h (findExit g h cur cur true).bp) := by
    intro hx
    obtain ⟨ha, he⟩ := C01_hyp_is_sentence wf cur base hx
    rw [he]; exact proj_accepts hp ha
  constructor
  · intro ws hws
    unfold hyp at hws
    simp only at hws
    split at hws
    · cases hws
    · rename_i hx
      split at hws
      · cases hws
      · cases hws; exact key (by omega)
  · intro ss hss
    unfold segs at hss
    simp only at hss
    split at hss
    · cases hss
    · rename_i hx
      split at hss
      · cases hss
      · cases hss
        have : segWords base g (segsAt shift g h (findExit g h cur cur true).bp) =
            hypWords base g h (findExit g h cur cur true).bp := by
          unfold segWords segsAt hypWords
          rw [List.filterMap_map]
          rfl
        rw [this]; exact key (by omega)

/-- **C01, composed, partial.**  A partial result labels a path of the loaded grammar that leaves its
start state. -/
theorem C01_partial_in_loaded_grammar (wf : WFHist g h cur) (base : Nat → Nat) {G : Nfa}
    (hp : projB g.toNfa G (proj g base) = true) (final : Bool) :
    ∀ ws, (hyp base g h cur final).1 = some ws → ∃ r, Reach G G.start ws r := by
  intro ws hws
  unfold hyp at hws
  simp only at hws
  split at hws
  · cases hws
  · rename_i hx
    split at hws
    · cases hws
    · cases hws
      obtain ⟨hr, he⟩ := C01_partial_is_prefix_path wf cur final base (by omega)
      rw [he]
      have h2 := hp
      unfold projB at h2
      simp only [Bool.and_eq_true, beq_iff_eq] at h2
      have hs : g.start = G.start := h2.1.1
      exact ⟨_, hs ▸ proj_reach hp hr⟩

/-! ### growth of the table (first part of the growth stage of DESIGN §4/C01)

`WFHist` is a checked precondition of the theorems above.  What is proved about its *production*:
the table `fsg_search_start` builds is well-formed; `fsg_search_null_prop` preserves well-formedness;
appending any entry that meets the local condition `EntryOK` preserves it (this is the obligation of
`fsg_search_pnode_exit`, whose discharge needs the lextree model: the leaf's link leaves the state
whose roots the predecessor entered, and an HMM takes at least one frame); `++fsgs->frame` preserves it. -/

/-- candidates of `fsg_search_null_prop` (fsg_search.c:543-591) for the entries `[start, h.size)`:
one per null arc leaving the entry's destination state; frame, `lc`, `rc` are inherited, the score adds
`logs2prob >> SENSCR_SHIFT`, the predecessor is the entry -/
def nullCandidates (shift : Nat) (g : Fsg) (h : Hist) (start : Nat) : List Entry :=
  (List.range h.size).flatMap fun bp =>
    if bp < start then [] else
    (List.range g.links.size).filterMap fun lid =>
      let l := g.link lid
      if l.wid < 0 ∧ l.src = dest g (ent h bp) then
        some { link := some lid, frame := (ent h bp).frame, score := (ent h bp).score + (l.logp >>> shift),
               pred := (bp : Int), lc := (ent h bp).lc, rc := (ent h bp).rc }
      else none

/-- **C01, growth: null propagation.**  Whatever subset of the candidates survives the score threshold
and the right-context domination of `fsg_history_entry_add`, and in whatever order
`fsg_history_end_frame` transfers them, the table stays well-formed — provided the entries
`[start, size)` are the entries of the last frame (they are: `bpidx_start` marks the frame). -/
theorem C01_null_prop_preserves_WFHist (wf : WFHist g h cur) (shift start : Nat)
    (hfr : ∀ bp, start ≤ bp → bp < h.size → (ent h bp).frame = (ent h (h.size - 1)).frame)
    (es : List Entry) (hes : ∀ e ∈ es, e ∈ nullCandidates shift g h start) :
    WFHist g (es.foldl Array.push h) cur := by
  apply wf_append_nulls es h h.size (ent h (h.size - 1)).frame wf (Nat.le_refl _) rfl
  intro e he
  have hm := hes e he
  unfold nullCandidates at hm
  simp only [List.mem_flatMap, List.mem_range] at hm
  obtain ⟨bp, hbp, hm⟩ := hm
  by_cases hs : bp < start
  · simp [hs] at hm
  · simp only [hs, if_false, List.mem_filterMap, List.mem_range] at hm
    obtain ⟨lid, hlid, hm⟩ := hm
    by_cases hc : (g.link lid).wid < 0 ∧ (g.link lid).src = dest g (ent h bp)
    · simp only [hc, and_self, if_true, Option.some.injEq] at hm
      subst hm
      refine ⟨lid, rfl, hlid, hc.1, by simp, by simpa using hbp, by simpa using hc.2, by simp, ?_⟩
      simpa using hfr bp (by omega) hbp
    · simp [hc] at hm

/-- **C01, growth: start.**  The table `fsg_search_start` leaves behind — the dummy root plus any
selection of the null arcs leaving the start state, all at frame −1 — is well-formed with 0 frames
searched. -/
theorem C01_start_establishes_WFHist (g : Fsg) (shift : Nat) (es : List Entry)
    (hes : ∀ e ∈ es, e ∈ nullCandidates shift g #[dummy] 0) : WFHist g (es.foldl Array.push #[dummy]) 0 :=
  C01_null_prop_preserves_WFHist (wf_start g) shift 0 (fun bp _ hbp => by
    have : bp = 0 := by simp at hbp; omega
    subst this; rfl) es hes

/-- **C01, growth: any other append, and the frame counter.**  An entry meeting `EntryOK` (a real arc
leaving the destination state of an earlier entry, frame kept by a null arc / strictly advanced by a
word arc, not before the last entry's frame, below `cur`) keeps the table well-formed; so does
increasing `cur`. -/
theorem C01_append_preserves_WFHist (wf : WFHist g h cur) :
    (∀ e, EntryOK g h cur e → WFHist g (h.push e) cur) ∧ (∀ cur', cur ≤ cur' → WFHist g h cur') :=
  ⟨fun _ he => wf.push he, fun _ hc => wf.advance hc⟩

/-! ### non-vacuity: a concrete search grammar and history table -/

/-- states 0..3, start 0, final 3; word ids: 0 "go", 1 "forward", 2 "forward(2)", 3 "<sil>" -/
def exG : Fsg :=
  { links := #[⟨0, 1, 0, 0⟩, ⟨1, 2, -7, -1⟩, ⟨2, 3, 0, 1⟩, ⟨2, 3, 0, 2⟩,
               ⟨0, 0, -337, 3⟩, ⟨1, 1, -337, 3⟩, ⟨2, 2, -337, 3⟩, ⟨3, 3, -337, 3⟩],
    start := 0, final := 3, filler := [3] }

/-- `<sil>`(0→0) → go → ε → {forward(2), forward}; six frames searched -/
def exH : Hist :=
  #[dummy, ⟨some 4, 1, -10, 0, 0, []⟩, ⟨some 0, 3, -30, 1, 0, []⟩, ⟨some 1, 3, -31, 2, 0, []⟩,
    ⟨some 3, 5, -60, 3, 0, []⟩, ⟨some 2, 5, -70, 3, 0, []⟩]

def exBase (w : Nat) : Nat := if w = 2 then 1 else w

/-- the loaded grammar: go ε forward -/
def exLoaded : Nfa := { start := 0, final := 3, arcs := [(0, some 0, 1), (1, none, 2), (2, some 1, 3)] }

example : wfHistB exG exH 6 = true := by decide
example : WFHist exG exH 6 := (wfHistB_iff _ _ _).1 (by decide)
example : findExit exG exH 6 6 true = ⟨4, -60⟩ := by decide
example : hyp exBase exG exH 6 true = (some [0, 1], -60) := by decide
example : pathLabels exG exH 4 = [3, 0, 2] := by decide
example : projB exG.toNfa exLoaded (proj exG exBase) = true := by decide
example : Accepts exLoaded [0, 1] :=
  (C01_reported_sentence_in_loaded_grammar (g := exG) (h := exH) (cur := 6) ((wfHistB_iff _ _ _).1 (by decide)) 10 exBase
    (by decide)).1 [0, 1] (by decide)
/-- a table whose last frame has no exit into the final state: no hypothesis -/
def exHdead : Hist := #[dummy, ⟨some 4, 1, -10, 0, 0, []⟩, ⟨some 0, 3, -30, 1, 0, []⟩, ⟨some 1, 3, -31, 2, 0, []⟩]
example : wfHistB exG exHdead 4 = true := by decide
/-- null propagation from entry 2 (go, ending in state 1): the ε arc 1→2, score −30 + (−7 >> 10) -/
example : nullCandidates 10 exG (exHdead.pop) 2 = [⟨some 1, 3, -31, 2, 0, []⟩] := by decide
example : hyp exBase exG exHdead 4 true = (none, 0) := by decide
example : (hyp exBase exG exHdead 4 false).1 = some [0] := by decide

/-! ### growth stage (M10): `WFHist` is no longer only a checked precondition

`Props/C01Search.lean` proves that the token-passing search (`fsg_search_start`, any number of
`fsg_search_step`s, `fsg_search_finish` + the next utterance — `SSVerif.Search.Reachable`) over any lextree
satisfying `LexTreeOK` only produces well-formed tables (`C01_step_preserves_WFHist`,
`C01_reachable_WFHist`, `C01_word_exit_meets_EntryOK`, `C01_finish_clears_search`).  Composed with the
theorems above: -/

/-- **C01, composed with the growth stage.**  In every state the modelled search can reach — and after
`fsg_search_finish`, which leaves table and frame counter alone — what `fsg_search_hyp` /
`fsg_search_seg_iter` report for a final query is a sentence of the grammar as loaded, and a partial query
reports the labels of a path leaving its start state. -/
theorem C01_reachable_result_in_loaded_grammar {sh : Nat} {lt : SSVerif.Search.LexTree} {s : SSVerif.Search.SState}
    (lok : SSVerif.Search.LexTreeOK lt g) (hr : SSVerif.Search.Reachable sh lt g s) (shift : Nat) (base : Nat → Nat)
    {G : Nfa} (hp : projB g.toNfa G (proj g base) = true) :
    (∀ ws, (hyp base g (SSVerif.Search.finish lt s).hist (SSVerif.Search.finish lt s).frame true).1 = some ws → Accepts G ws) ∧
    (∀ ss, segs shift g s.hist s.frame true = some ss → Accepts G (segWords base g ss)) ∧
    (∀ final ws, (hyp base g s.hist s.frame final).1 = some ws → ∃ r, Reach G G.start ws r) :=
  have wf := (SSVerif.Search.C01_reachable_WFHist lok hr).1
  ⟨(C01_reported_sentence_in_loaded_grammar wf shift base hp).1,
   (C01_reported_sentence_in_loaded_grammar wf shift base hp).2,
   fun final => C01_partial_in_loaded_grammar wf base hp final⟩

end SSVerif.Hist
