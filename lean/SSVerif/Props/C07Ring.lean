import SSVerif.Proofs.AcmodBuf
/-!
# C07 — the live feature ring at EVERY write position (round 3, wave 5)

`feat_s2mfc2feat_live` (feat.c) keeps the cepstral frames of the running utterance in a ring of
`LIVEBUFBLOCKSIZE` slots whose read and write positions (`curpos`, `bufpos`) are never reset: an utterance
starts to write where the previous one stopped reading.  Which slot the end-of-utterance padding copies
(`tpos`, "the last input frame") and which slots the last dynamic-feature windows read therefore depend on
a residue mod `LIVEBUFBLOCKSIZE` that only the whole history of the decoder fixes.

The streaming theorems of `Props/C07.lean` carry an existential virtual address through the proof and so
hold for every position; the statements below isolate the index arithmetic itself, position by position,
with NO exception (in particular positions 0, 1 and `LIVEBUFBLOCKSIZE - 1`, where the source index, the
padding or the window wrap around the end of the ring).  They are about the very expressions the model
function `liveIn` executes (`lastSlot_eq` is `rfl`), and `liveIn` is what the correspondence run of the
check replays (`bp`, `cp` after every call, window identity of every search step) at utterance ends
drawn at every residue (family "ring-residue sweep" of tools/props/c07.py).
-/
namespace SSVerif.AcmodBuf
open SSVerif.Generated

/-- feat.c, end-of-utterance branch: `if (bufpos == 0) tpos = LIVEBUFBLOCKSIZE - 1; else tpos = bufpos - 1;` -/
def lastSlot (bufpos : Nat) : Nat := if bufpos = 0 then livebuf - 1 else bufpos - 1

/-- `lastSlot` is literally the expression `liveIn` passes to `repLast`. -/
theorem lastSlot_eq (s : St) : lastSlot s.bufpos = (if s.bufpos = 0 then livebuf - 1 else s.bufpos - 1) := rfl

/-- The index the padding is copied from is, for EVERY write position of the ring, the slot written last:
    it lies inside the ring and the write position is its successor going around the end of the ring. -/
theorem C07_ring_last_slot (p : Nat) (hp : p < livebuf) :
    lastSlot p < livebuf ∧ (lastSlot p + 1) % livebuf = p := by
  unfold lastSlot
  simp only [livebuf] at *
  split <;> omega

/-- conversely: after one frame has been pushed at position `p`, the "last input frame" index is `p`,
    whatever `p` is (`p = LIVEBUFBLOCKSIZE - 1` makes the write position wrap to 0, `p = 0` makes it 1) -/
theorem C07_ring_last_slot_after_push (p : Nat) (hp : p < livebuf) : lastSlot ((p + 1) % livebuf) = p := by
  unfold lastSlot
  simp only [livebuf] at *
  split <;> omega

/-- End-of-utterance padding (feat.c: `memcpy(cepbuf[bufpos++], cepbuf[tpos])`, `win` times), at every write
    position of the ring: the `win` slots from the write position on (going around the end of the ring) receive
    the content of the slot written last, the write position advances by `win`, nothing else changes. -/
theorem C07_ring_end_padding (win : Nat) (s : St) (hl : s.cepbuf.length = livebuf) (hb : s.bufpos < livebuf)
    (hw : win < livebuf) :
    ∃ cb, repLast win (lastSlot s.bufpos) s = { s with cepbuf := cb, bufpos := (s.bufpos + win) % livebuf } ∧
      cb.length = livebuf ∧
      (∀ j, j < win → cb.getD ((s.bufpos + j) % livebuf) none = s.cepbuf.getD (lastSlot s.bufpos) none) ∧
      (∀ q, (∀ j, j < win → q ≠ (s.bufpos + j) % livebuf) → cb.getD q none = s.cepbuf.getD q none) := by
  obtain ⟨ht, hsucc⟩ := C07_ring_last_slot s.bufpos hb
  have hne : ∀ i, i < win → lastSlot s.bufpos ≠ (s.bufpos + i) % livebuf := by
    intro i hi
    generalize lastSlot s.bufpos = t at ht hsucc
    simp only [livebuf] at *
    omega
  rw [repLast_eq win (lastSlot s.bufpos) s hl hb ht hne, pushMany_eq _ s hl hb]
  obtain ⟨g1, g2⟩ := ringWrite_get (List.replicate win (s.cepbuf.getD (lastSlot s.bufpos) none)) s.cepbuf s.bufpos hl hb
    (by simp only [List.length_replicate]; omega)
  refine ⟨ringWrite s.cepbuf s.bufpos (List.replicate win (s.cepbuf.getD (lastSlot s.bufpos) none)), ?_, ?_, ?_, ?_⟩
  · simp only [List.length_replicate]
  · rw [ringWrite_length]; exact hl
  · intro j hj
    rw [g1 j (by simpa using hj)]
    simp [List.getD_eq_getElem?_getD, hj]
  · intro q hq
    exact g2 q (by intro i hi; exact hq i (by simpa using hi))

/-- The clause of the property, as index arithmetic: for EVERY write position `p` of the ring, when the last
    cepstral frame `x` of the utterance is copied into the ring and the end-of-utterance padding follows (the two
    steps `liveIn` performs with `ncep = 1`, `endutt = true`), slot `p` and the `win` slots after it hold `x`,
    every other slot is untouched, and the write position is `p + 1 + win` around the ring. -/
theorem C07_ring_last_frame_padded (win : Nat) (s : St) (x : Option Cep) (hl : s.cepbuf.length = livebuf)
    (hb : s.bufpos < livebuf) (hw : win + 1 < livebuf) :
    ∃ cb, repLast win (if (pushCep s x).bufpos = 0 then livebuf - 1 else (pushCep s x).bufpos - 1) (pushCep s x)
        = { s with cepbuf := cb, bufpos := (s.bufpos + 1 + win) % livebuf } ∧
      cb.length = livebuf ∧
      (∀ j, j ≤ win → cb.getD ((s.bufpos + j) % livebuf) none = x) ∧
      (∀ q, (∀ j, j ≤ win → q ≠ (s.bufpos + j) % livebuf) → cb.getD q none = s.cepbuf.getD q none) := by
  have h1 : pushCep s x = { s with cepbuf := s.cepbuf.set s.bufpos x, bufpos := (s.bufpos + 1) % livebuf } := by
    simp [pushCep, hl, hb]
  have hlt : (s.bufpos + 1) % livebuf < livebuf := Nat.mod_lt _ (by decide)
  obtain ⟨cb, e, hcl, p1, p2⟩ := C07_ring_end_padding win (pushCep s x) (by rw [h1]; simpa using hl)
    (by rw [h1]; exact hlt) (by omega)
  rw [← lastSlot_eq, e]
  have hls : lastSlot (pushCep s x).bufpos = s.bufpos := by
    rw [h1]; exact C07_ring_last_slot_after_push s.bufpos hb
  have hsrc : (pushCep s x).cepbuf.getD (lastSlot (pushCep s x).bufpos) none = x := by
    rw [hls, h1]; exact getD_set_eq _ _ _ _ (by omega)
  refine ⟨cb, ?_, hcl, ?_, ?_⟩
  · rw [h1]
    have : ((s.bufpos + 1) % livebuf + win) % livebuf = (s.bufpos + 1 + win) % livebuf := by
      simp only [livebuf]; omega
    simp only [this]
  · intro j hj
    cases j with
    | zero =>
      rw [Nat.add_zero, Nat.mod_eq_of_lt hb, p2 s.bufpos]
      · rw [h1]; exact getD_set_eq _ _ _ _ (by omega)
      · intro i hi
        rw [h1]
        simp only [livebuf] at *
        omega
    | succ j =>
      have := p1 j (by omega)
      rw [hsrc] at this
      rw [← this, h1]
      congr 1
      simp only [livebuf]
      omega
  · intro q hq
    rw [p2 q]
    · rw [h1]
      have : s.bufpos ≠ q := by
        have := hq 0 (by omega)
        rw [Nat.add_zero, Nat.mod_eq_of_lt hb] at this
        exact Ne.symm this
      exact getD_set_ne _ _ _ _ _ this
    · intro i hi
      have := hq (i + 1) (by omega)
      rw [h1]
      intro h
      apply this
      rw [h]
      simp only [livebuf]
      omega

/-- entry `j` of the window `compute_feat` reads at read position `cp`: slot `cp + j - win` around the ring,
    in both branches of the C code (pointer array through `tmpcepbuf` when the window wraps, direct otherwise) -/
theorem winAt_getD (win : Nat) (cb : List (Option Cep)) (cp j : Nat) (hcp : cp < livebuf) (hj : j < 2 * win + 1)
    (hw : 2 * win + 1 ≤ livebuf) :
    (winAt win cb cp).getD j none = cb.getD ((cp + livebuf + j - win) % livebuf) none := by
  unfold winAt
  split
  · simp only [List.getD_eq_getElem?_getD, List.getElem?_map, List.getElem?_range hj, Option.map_some,
      Option.getD_some]
    congr 2
    simp only [livebuf]
    omega
  · rename_i hn
    simp only [List.getD_eq_getElem?_getD, List.getElem?_map, List.getElem?_range hj, Option.map_some,
      Option.getD_some]
    congr 2
    simp only [livebuf] at *
    omega

/-- The last dynamic-feature window of an utterance, at EVERY ring position: with the last frame `x` in slot `p`
    and the padding behind it, the window read at `curpos = p` has `x` at its centre and in all `win` entries of
    right context (entries `win … 2·win`), and its left context are the `win` slots before `p` around the ring. -/
theorem C07_ring_last_window (win : Nat) (s : St) (x : Option Cep) (hl : s.cepbuf.length = livebuf)
    (hb : s.bufpos < livebuf) (hw : 2 * win + 1 ≤ livebuf) (hw1 : win + 1 < livebuf) :
    ∃ cb, repLast win (if (pushCep s x).bufpos = 0 then livebuf - 1 else (pushCep s x).bufpos - 1) (pushCep s x)
        = { s with cepbuf := cb, bufpos := (s.bufpos + 1 + win) % livebuf } ∧
      (∀ j, win ≤ j → j ≤ 2 * win → (winAt win cb s.bufpos).getD j none = x) ∧
      (∀ j, j < win → (winAt win cb s.bufpos).getD j none
          = s.cepbuf.getD ((s.bufpos + livebuf + j - win) % livebuf) none) := by
  obtain ⟨cb, e, _, p1, p2⟩ := C07_ring_last_frame_padded win s x hl hb hw1
  refine ⟨cb, e, ?_, ?_⟩
  · intro j h1 h2
    rw [winAt_getD win cb s.bufpos j hb (by omega) hw]
    have := p1 (j - win) (by omega)
    rw [← this]
    congr 1
    simp only [livebuf] at *
    omega
  · intro j hj
    rw [winAt_getD win cb s.bufpos j hb (by omega) hw]
    apply p2
    intro i hi
    simp only [livebuf] at *
    omega

/-! ### non-vacuity: the three positions where something wraps, evaluated on the model's own functions -/

private def ringOf (p : Nat) : St :=
  { St.init 0 with cepbuf := (List.range livebuf).map fun i => some ⟨i, 1, false⟩, bufpos := p, curpos := p }

/-- write position 0 before the last frame: the frame goes to slot 0, `tpos` = 0, padding in slots 1..3 -/
example : let s := repLast 3 (lastSlot (pushCep (ringOf 0) (some ⟨999, 1, false⟩)).bufpos) (pushCep (ringOf 0) (some ⟨999, 1, false⟩))
    (s.bufpos, (winAt 3 s.cepbuf 0).map fun c => c.map (·.id)) =
      (4, [some 253, some 254, some 255, some 999, some 999, some 999, some 999]) := by decide +kernel

/-- write position 255: the frame goes to slot 255, the write position wraps to 0 (`tpos = LIVEBUFBLOCKSIZE - 1`) -/
example : let s := repLast 3 (lastSlot (pushCep (ringOf 255) (some ⟨999, 1, false⟩)).bufpos) (pushCep (ringOf 255) (some ⟨999, 1, false⟩))
    (s.bufpos, (winAt 3 s.cepbuf 255).map fun c => c.map (·.id)) =
      (3, [some 252, some 253, some 254, some 999, some 999, some 999, some 999]) := by decide +kernel

/-- write position 254: the padding itself wraps around the end of the ring -/
example : let s := repLast 3 (lastSlot (pushCep (ringOf 254) (some ⟨999, 1, false⟩)).bufpos) (pushCep (ringOf 254) (some ⟨999, 1, false⟩))
    (s.bufpos, (winAt 3 s.cepbuf 254).map fun c => c.map (·.id)) =
      (2, [some 251, some 252, some 253, some 999, some 999, some 999, some 999]) := by decide +kernel

end SSVerif.AcmodBuf
