import SSVerif.Generated.SegWidths
/-!
# C03 — the integers that carry a frame number to the segment iterator are wide enough

The history/segment model (`Model/Hist`) keeps frame numbers as unbounded integers: a segment is
`(sf, ef) = (frame of the predecessor entry + 1, frame of the entry)`.  The C code stores a frame number in the
history-table entry (`fsg_hist_entry_t.frame`), compares it with the search's frame counter (`fsg_search_t.frame`),
copies it into the iterator (`seg_iter_t.sf/ef`) and returns frame counts from the processing calls.
`Generated/SegWidths.lean` is regenerated on every run from the current headers (compiled `sizeof`/signedness); the
theorem below says that each of these carriers holds every value of the search's frame counter unchanged, so an
utterance of any length the search can count (`MAX_N_FRAMES = MAX_INT32`) is segmented with the frame numbers the
model computes.  A narrowed carrier (frames ≥ 2^15 wrap negative, segments come out as `[0,0]` / out of order) makes
the `decide` fail.  The check also decodes one utterance beyond frame 2^15 in every run (and beyond 2^16 in the
thorough tier) and evaluates the tiling on what the iterator returned (tools/props/c03.py, long_utterance_family).
-/
namespace SSVerif.SegW
open SSVerif.Generated.SegWidths

/-- C conversion of an integer to a signed two's-complement type of `bits` bits -/
def cconvS (bits : Nat) (x : Int) : Int :=
  (x + ((2 ^ (bits - 1) : Nat) : Int)) % ((2 ^ bits : Nat) : Int) - ((2 ^ (bits - 1) : Nat) : Int)

/-- C conversion of an integer to an unsigned type of `bits` bits -/
def cconvU (bits : Nat) (x : Int) : Int := x % ((2 ^ bits : Nat) : Int)

/-- width and signedness of a field / returned value in the current sources -/
def widthOf (name : String) : Option (Nat × Bool) := (widths.find? (·.1 = name)).map (·.2)

/-- the reference: the frame counter of the search, `fsg_search_t.frame` -/
def frameRef : String := "fsg_search_t.frame"

/-- signed carriers of a frame number / frame count (and of the marker `-1` of the entries made before the first frame) -/
def frameCarriers : List String :=
  ["fsg_hist_entry_t.frame", "fsg_hist_entry_frame()", "seg_iter_t.sf", "seg_iter_t.ef", "acmod_t.output_frame", "hmm_t.frame",
   "decoder_n_frames()", "decoder_process_int16()", "decoder_process_float32()", "decoder_end_utt()"]

/-- counters that only ever hold a non-negative number of frames (may be unsigned) -/
def frameCounters : List String := ["decoder_t.n_frame"]

/-- the reference is a signed type and every carrier is a signed type at least as wide -/
def carriersOK (ref : String) (cs : List String) : Bool :=
  match widthOf ref with
  | some (rb, true) => decide (1 ≤ rb) && cs.all fun c =>
      match widthOf c with
      | some (b, true) => decide (rb ≤ b)
      | _ => false
  | _ => false

/-- the reference is a signed type and every counter holds its non-negative half -/
def countersOK (ref : String) (cs : List String) : Bool :=
  match widthOf ref with
  | some (rb, true) => decide (1 ≤ rb) && cs.all fun c =>
      match widthOf c with
      | some (b, true) => decide (rb ≤ b)
      | some (b, false) => decide (rb ≤ b + 1)
      | none => false
  | _ => false

theorem cconvS_id (b rb : Nat) (h1 : 1 ≤ rb) (h2 : rb ≤ b) (q : Int)
    (lo : -((2 ^ (rb - 1) : Nat) : Int) ≤ q) (hi : q < ((2 ^ (rb - 1) : Nat) : Int)) : cconvS b q = q := by
  unfold cconvS
  have hle : 2 ^ (rb - 1) ≤ 2 ^ (b - 1) := Nat.pow_le_pow_right (by decide) (by omega)
  have hb : 2 ^ b = 2 * 2 ^ (b - 1) := by
    have : b = (b - 1) + 1 := by omega
    rw [this, Nat.pow_succ]; simp; omega
  rw [hb]
  generalize 2 ^ (b - 1) = P at *
  generalize 2 ^ (rb - 1) = R at *
  have : (q + (P : Int)) % ((2 * P : Nat) : Int) = q + P := by
    apply Int.emod_eq_of_lt <;> omega
  rw [this]; omega

theorem cconvU_id (b rb : Nat) (h2 : rb ≤ b + 1) (q : Int)
    (lo : 0 ≤ q) (hi : q < ((2 ^ (rb - 1) : Nat) : Int)) : cconvU b q = q := by
  unfold cconvU
  have hle : 2 ^ (rb - 1) ≤ 2 ^ b := Nat.pow_le_pow_right (by decide) (by omega)
  generalize 2 ^ b = P at *
  generalize 2 ^ (rb - 1) = R at *
  apply Int.emod_eq_of_lt <;> omega

theorem carriersOK_sound {ref : String} {cs : List String} (h : carriersOK ref cs = true) :
    ∃ rb, widthOf ref = some (rb, true) ∧ ∀ c ∈ cs, ∃ b, widthOf c = some (b, true) ∧
      ∀ q : Int, -((2 ^ (rb - 1) : Nat) : Int) ≤ q → q < ((2 ^ (rb - 1) : Nat) : Int) → cconvS b q = q := by
  unfold carriersOK at h
  cases hr : widthOf ref with
  | none => rw [hr] at h; cases h
  | some p =>
    obtain ⟨rb, sg⟩ := p
    cases sg with
    | false => rw [hr] at h; cases h
    | true =>
      rw [hr] at h
      simp only [Bool.and_eq_true, decide_eq_true_eq, List.all_eq_true] at h
      refine ⟨rb, rfl, fun c hc => ?_⟩
      have hcs := h.2 c hc
      cases hw : widthOf c with
      | none => rw [hw] at hcs; cases hcs
      | some p2 =>
        obtain ⟨b, sg2⟩ := p2
        cases sg2 with
        | false => rw [hw] at hcs; cases hcs
        | true =>
          rw [hw] at hcs
          exact ⟨b, rfl, fun q lo hi => cconvS_id b rb h.1 (by simpa using hcs) q lo hi⟩

theorem countersOK_sound {ref : String} {cs : List String} (h : countersOK ref cs = true) :
    ∃ rb, widthOf ref = some (rb, true) ∧ ∀ c ∈ cs, ∃ b sg, widthOf c = some (b, sg) ∧
      ∀ q : Int, 0 ≤ q → q < ((2 ^ (rb - 1) : Nat) : Int) → (if sg then cconvS b q else cconvU b q) = q := by
  unfold countersOK at h
  cases hr : widthOf ref with
  | none => rw [hr] at h; cases h
  | some p =>
    obtain ⟨rb, sg⟩ := p
    cases sg with
    | false => rw [hr] at h; cases h
    | true =>
      rw [hr] at h
      simp only [Bool.and_eq_true, decide_eq_true_eq, List.all_eq_true] at h
      refine ⟨rb, rfl, fun c hc => ?_⟩
      have hcs := h.2 c hc
      cases hw : widthOf c with
      | none => rw [hw] at hcs; cases hcs
      | some p2 =>
        obtain ⟨b, sg2⟩ := p2
        cases sg2 with
        | false =>
          rw [hw] at hcs
          refine ⟨b, false, rfl, fun q lo hi => ?_⟩
          simp only [Bool.false_eq_true, if_false]
          exact cconvU_id b rb (by simpa using hcs) q lo hi
        | true =>
          rw [hw] at hcs
          refine ⟨b, true, rfl, fun q lo hi => ?_⟩
          simp only [if_true]
          exact cconvS_id b rb h.1 (by simpa using hcs) q (by omega) hi

/-- **C03, integer widths on the path of a frame number (tie to the current sources).** Every field through which
a frame number travels from the search to the segment iterator (`fsg_hist_entry_t.frame` and its accessor,
`seg_iter_t.sf/ef`, `acmod_t.output_frame`, `hmm_t.frame`) and every value the processing calls and
`decoder_n_frames` return holds every value of the search's frame counter `fsg_search_t.frame` unchanged (and the
marker `-1`); the counter `decoder_t.n_frame` holds every non-negative one.  This is a statement about the LISTED
carriers only (the list is written by hand in tools/gen_segwidths.py and its completeness is trusted: locals, casts,
return types of static functions and function parameters such as the `int32 frame` of `fsg_history_entry_add` are not
enumerated; `fsg_seg_t.n_hist` / `cur`, which count history ENTRIES of one backtrace, are `int16` and outside the
table: a result of more than 32 767 segments is outside what is shown here).  For the listed carriers a frame number
of any utterance the search can count is stored unchanged, as in the model (unbounded integers).  The widths are
regenerated from the current headers on every run. -/
theorem C03_frame_integer_widths :
    (∃ rb, widthOf frameRef = some (rb, true) ∧ ∀ c ∈ frameCarriers, ∃ b, widthOf c = some (b, true) ∧
      ∀ q : Int, -((2 ^ (rb - 1) : Nat) : Int) ≤ q → q < ((2 ^ (rb - 1) : Nat) : Int) → cconvS b q = q) ∧
    (∃ rb, widthOf frameRef = some (rb, true) ∧ ∀ c ∈ frameCounters, ∃ b sg, widthOf c = some (b, sg) ∧
      ∀ q : Int, 0 ≤ q → q < ((2 ^ (rb - 1) : Nat) : Int) → (if sg then cconvS b q else cconvU b q) = q) :=
  ⟨carriersOK_sound (by decide), countersOK_sound (by decide)⟩

/-- the frame counter itself counts at least to 2^31 - 1 (`MAX_N_FRAMES = MAX_INT32`): the reference is not vacuous -/
theorem C03_frame_counter_is_32_bit : ∃ rb, widthOf frameRef = some (rb, true) ∧ 32 ≤ rb := ⟨32, by decide, by decide⟩

/-! ### non-vacuity: what a narrowed carrier does -/

-- a 16-bit frame field turns the word exit at frame 32768 into -32768 and the one at 32751 + 278 into a negative
-- frame; a 32-bit one keeps them
example : cconvS 16 32768 = -32768 ∧ cconvS 16 33029 = -32507 ∧ cconvS 32 33029 = 33029 ∧ cconvS 32 (-1) = -1 := by decide
example : cconvU 32 2147483647 = 2147483647 ∧ cconvU 16 65537 = 1 := by decide
-- every carrier is listed with its width in the generated table
example : (frameCarriers ++ frameCounters).all (fun c => (widthOf c).isSome) = true := by decide

end SSVerif.SegW
