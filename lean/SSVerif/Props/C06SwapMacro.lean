import SSVerif.Generated.FeSwaps
/-!
# C06, byte order — `SWAP_INT16` reverses the two bytes of an int16 (two's complement reading)

`Props/C06Swap.lean` treats `SWAP_INT16` / `SWAP_FLOAT32` as "reverse the bytes"; for `SWAP_FLOAT32`
the statements of the macro body are interpreted there (`C06_swap_macro_float32_reverses`).
`SWAP_INT16(x)` is the expression `*(x) = ((0x00ff & (*(x)) >> 8) | (0xff00 & (*(x)) << 8))` (text
pinned below).  Read by hand with C's precedences (`>>`,`<<` before `&` before `|`), the operand
promoted to a 32-bit `int`, and gcc/clang's two's-complement semantics for `>>` and `<<` of negative
values (`<<` of a negative value is undefined in ISO C; the framework builds with
`-fno-sanitize=shift`) and for the conversion of the result back to `int16`: on the 32-bit pattern
`w` of the promoted value the result is `(0xff & (w >> 8)) | (0xff00 & (w << 8))`.  The theorem
checks all 65 536 operands.  Separate file because the exhaustive kernel evaluation takes ~30 s.
-/
namespace SSVerif.FeSwap

/-- `SWAP_INT16` on the int16 with bit pattern `u` (`u < 65536`), as a 16-bit pattern -/
def swapInt16 (u : Nat) : Nat :=
  let w : Nat := if u < 32768 then u else u + (2 ^ 32 - 65536)   -- sign extension to 32 bits
  (0x00ff &&& (w >>> 8)) ||| (0xff00 &&& ((w <<< 8) % 2 ^ 32))

def swapInt16OK (u : Nat) : Bool := decide (swapInt16 u = (u % 256) * 256 + u / 256)

/-- **`SWAP_INT16` reverses the two bytes**: for the pinned macro text, under the reading above, the
result for every 16-bit pattern `u = hi·256 + lo` is `lo·256 + hi` (already a 16-bit pattern, so
the store back into the `int16` keeps it). -/
theorem C06_swap_macro_int16_reverses :
    SSVerif.Generated.feSwapMacros.lookup "SWAP_INT16" = some "*(x)=((0x00ff&(*(x))>>8)|(0xff00&(*(x))<<8))" ∧
    ∀ u, u < 65536 → swapInt16 u = (u % 256) * 256 + u / 256 := by
  refine ⟨by decide +kernel, ?_⟩
  have h : (List.range 65536).all swapInt16OK = true := by decide +kernel
  intro u hu
  have := List.all_eq_true.mp h u (List.mem_range.mpr hu)
  simpa [swapInt16OK] using this

end SSVerif.FeSwap
