import SSVerif.Model.Api
import SSVerif.Proofs.Isolation
import SSVerif.Proofs.TopN
/-!
# C08 — utterances and decoder instances are isolated; decoding is deterministic

Property theorems over the dataflow system `SSVerif.Api.decoderSys` (cells = groups of the fields of the
*generated* inventory, operations = the public calls split by what they do to the buffers, phases =
`acmod->state`).  All theorems hold for **every** history / operation list, every value type `Val`,
every assignment `K` of canonical constants and every semantics `sem` of the operations — the actual
floating-point and search arithmetic is an uninterpreted parameter.

What is *not* proved here and is labelled partial in the MANIFEST: that the declared read / write /
dependency sets are those of the C code.  Write sets are compared with byte-level snapshots per call,
reset values are read back, dead and tainted cells are poisoned / perturbed and the k-th utterance of
random histories is compared with a fresh decoder by `tools/props/c08.py` on the real code.
-/
namespace SSVerif.Api
open SSVerif.Generated SSVerif.Isolation

/-! ## the classification covers exactly the generated inventory -/

set_option maxRecDepth 8000 in
/-- The generated list `allFields` enumerates the whole generated type `Field` (so a statement over
`allFields` is a statement about every inventoried field). -/
theorem C08_inventory_exhaustive : ∀ f : Field, f ∈ allFields := by
  intro f; cases f <;> decide

set_option maxRecDepth 8000 in
/-- Every field of every state-carrying struct that the current headers declare is classified.
A field added to (or renamed in) the C code adds a constructor to the generated `Field`, and this
stops checking; a removed field makes `classTable` ill-typed. -/
theorem C08_classification_total : ∀ f ∈ allFields, (classify? f).isSome = true := by decide

set_option maxRecDepth 8000 in
/-- No field is classified twice. -/
theorem C08_classification_unique : (classTable.map Prod.fst).Nodup := by decide

/-- Every writable global that `nm` finds in the freshly built library is classified … -/
theorem C08_globals_total : ∀ g ∈ allGlobals, (classifyGlobal? g).isSome = true := by decide

set_option maxRecDepth 8000 in
/-- … as a global kind, no struct field is, and every cell with a canonical start value is of kind reset. -/
theorem C08_kinds_consistent :
    (∀ e ∈ globalTable, e.2.kind = .global) ∧ (∀ e ∈ classTable, e.2.kind ≠ .global) ∧
    (∀ e ∈ canonTable, (classify e.1).kind = .reset) := by decide

/-! ## layer 1: definedness -/

/-- the tables satisfy the three definedness conditions (reads ⊆ guaranteed, only dead cells are
killed, what a phase guarantees is written or kept) -/
theorem decoderSys_wf : WF decoderSys := by
  constructor
  · intro ph op ph' ht
    cases ph <;> cases op <;> first | (cases ht; done) | (cases ht; decide)
  · intro ph op
    cases ph <;> cases op <;> decide
  · intro ph op ph' ht
    cases ph <;> cases op <;> first | (cases ht; done) | (cases ht; decide)

/-- a freshly initialised decoder: everything that is not dead-on-start scratch holds a value -/
def InitOK {Val : Type} (s₀ : State Group Val) : Prop := ∀ g, always g = true → (s₀ g).isSome = true

theorem inv_of_initOK {Val : Type} (s₀ : State Group Val) (h : InitOK s₀) : Inv decoderSys .idle s₀ := by
  intro c hc
  cases hc with
  | inl ha => exact h c ha
  | inr hd => cases hd

/-- **no_stale_read.**  `decoder_start_utt` kills (sets to `none`, in the model only) every cell the C code
does not re-initialise: the front-end scratch, the noise tracker, the cepstral ring, the feature ring,
the live dynamic-feature window and the scoring scratch.  For every history of protocol-conforming
calls from a fresh decoder — any number of whole utterances (streaming, batch, buffered, empty, with
or without hypothesis), grammar and CMN changes in between, then `startUtt` and any prefix of the next
utterance — no operation ever reads a cell that holds `none`: nothing the decoder computes in
utterance k can depend on bytes left in those buffers by utterances < k.  (A history is either refused
by the protocol automaton or runs to completion; the `stale` error is unreachable.) -/
theorem C08_no_stale_read {Val Inp : Type} (K : Group → Val)
    (sem : Op → Inp → Group → List (Option Val) → Val) (s₀ : State Group Val) (h0 : InitOK s₀)
    (ops : List (Op × Inp)) (c : Group) :
    run decoderSys K sem (.idle, s₀) ops ≠ .error (.stale c) :=
  run_never_stale decoderSys decoderSys_wf K sem ops .idle s₀ (inv_of_initOK s₀ h0) c

theorem decoderSys_restOK : RestOK decoderSys Phase.between restCells := by
  intro ph op ph' ht hb
  cases ph <;> cases op <;> first | (cases ht; done) | (cases ht; first | (cases hb; done) | decide)

/-- **finish_clears_search.**  Whenever the decoder is between utterances (never started, or ended — with
or without audio, with or without hypothesis), after any history, the HMM state of the search (state
scores, history indices, active frame of every lextree node; the two active lists) is at its canonical
"everything cleared" value: `fsg_search_finish` and lextree construction are the only writers that
lead there and both write the constant.  This is what `fsg_search_start` assumes
(`assert(pnode_active == NULL)`, `hmm_frame < 0`, `in_score == WORST_SCORE`). -/
theorem C08_finish_clears_search {Val Inp : Type} (K : Group → Val)
    (sem : Op → Inp → Group → List (Option Val) → Val) (s₀ : State Group Val)
    (h0 : s₀ .hmm = some (K .hmm)) (ops : List (Op × Inp)) (ph : Phase) (s : State Group Val)
    (hr : run decoderSys K sem (.idle, s₀) ops = .ok (ph, s)) (hb : ph.between = true) :
    s .hmm = some (K .hmm) := by
  have := run_rest decoderSys K sem Phase.between restCells decoderSys_restOK ops .idle s₀ ph s
    (by intro _ c hc; simp [restCells] at hc; subst hc; exact h0) hr hb
  exact this .hmm (by simp [restCells])

/-! ## the only carry -/

/-- operations of an utterance (everything except the deliberate changes of grammar and CMN state) -/
def uttOps : List Op :=
  [.startUtt, .processNoFrame, .processFirst, .processMore, .processFull, .processFullLive, .endUtt,
   .endUttEmpty, .query, .queryAlign, .getCmn]

/-- some in-protocol utterance operation writes the cell -/
def writtenInUtt (g : Group) : Bool :=
  allPhases.any fun ph => uttOps.any fun op =>
    (trans ph op).isSome && ((spec ph op).writes.lookup g).isSome

/-- `startUtt` re-initialises the cell: kills it, writes its constant, or computes it from persistent
components and cells that rest at their canonical value -/
def resetAtStart (g : Group) : Bool :=
  g ∈ (spec .idle .startUtt).kills ||
  match (spec .idle .startUtt).writes.lookup g with
  | some .const => true
  | some (.fn deps) => deps.all lowRestNoCmn
  | none => false

/-- **cmn_is_the_only_carry.**  A cell that is written during an utterance, is not re-initialised by
`decoder_start_utt`, and may reach a result (is not of a tainted kind) is the CMN state — at group level
and, through the classification, at the level of the generated fields: `cmn_t.cmn_mean`, `cmn_t.sum`,
`cmn_t.nframe` and the text `cmn_t.repr`, which is what `decoder_get_cmn` / `decoder_set_cmn` expose.
(The tainted carries — ring capacities and phases, the top-N codeword history, log counters — are
listed by `C08_tainted_carries`.) -/
theorem C08_cmn_is_the_only_carry :
    (∀ g ∈ allGroups, writtenInUtt g = true → resetAtStart g = false → data g = true → g = .cmn) ∧
    (∀ f ∈ allFields, writtenInUtt (classify f) = true → resetAtStart (classify f) = false →
      data (classify f) = true →
      f ∈ [Field.cmn_t__cmn_mean, Field.cmn_t__sum, Field.cmn_t__nframe, Field.cmn_t__repr]) := by
  constructor
  · decide
  · set_option maxRecDepth 8000 in decide

set_option maxRecDepth 8000 in
/-- the carried cells that are declared result-neutral (validated by perturbation, not proved) -/
theorem C08_tainted_carries :
    allFields.filter (fun f => writtenInUtt (classify f) && !resetAtStart (classify f) && !data (classify f)) =
      [Field.decoder_s__uttno, Field.decoder_s__perf, Field.decoder_s__n_frame,
       Field.fsg_search_s__perf, Field.fsg_search_s__n_tot_frame,
       Field.acmod_s__grow_feat, Field.acmod_s__n_mfc_alloc, Field.acmod_s__n_feat_alloc,
       Field.s2_semi_mgau_s__topn_hist, Field.s2_semi_mgau_s__topn_hist_n,
       Field.feat_s__bufpos, Field.feat_s__curpos] := by decide

/-- no utterance operation writes a persistent component (configuration, models, dictionary, grammar,
`feat_s.cmn`, …) or a global; `setGrammar` is the only writer of the grammar group -/
theorem C08_persistent_not_written :
    ∀ g ∈ allGroups, (g.kind = .persistent ∨ g.kind = .global) → writtenInUtt g = false := by decide

/-! ## layer 2: non-interference -/

theorem decoderSys_flowClosed : FlowClosed decoderSys data := by
  intro ph op ph' ht
  cases ph <;> cases op <;> first | (cases ht; done) | (intro c; cases c <;> decide)

theorem start_spec_same (ph₁ ph₂ : Phase) : spec ph₁ .startUtt = spec ph₂ .startUtt := by
  cases ph₁ <;> cases ph₂ <;> rfl

theorem start_trans (ph : Phase) (h : ph.between = true) : decoderSys.trans ph .startUtt = some .started := by
  cases ph <;> first | rfl | cases h

theorem start_flow : FlowOK lowRest data (decoderSys.spec .idle .startUtt) := by
  intro c; cases c <;> decide

theorem start_flow_noCmn : FlowOK lowRestNoCmn dataNoCmn (decoderSys.spec .idle .startUtt) := by
  intro c; cases c <;> decide

theorem full_flow_noCmn : FlowOK dataNoCmn data (decoderSys.spec .started .processFull) := by
  intro c; cases c <;> decide

/-- **start_resets.**  Two decoders between utterances (in whatever between-utterance phase, after whatever
histories) that agree on the persistent components, the globals, the CMN state and the resting HMM
state agree on *every* result-relevant cell after `decoder_start_utt`. -/
theorem C08_start_resets {Val Inp : Type} (K : Group → Val)
    (sem : Op → Inp → Group → List (Option Val) → Val) (ph₁ ph₂ : Phase) (i : Inp)
    (s₁ s₂ : State Group Val) (hag : Agree lowRest s₁ s₂) :
    Agree data (applySpec K (sem .startUtt i) (decoderSys.spec ph₁ .startUtt) s₁)
               (applySpec K (sem .startUtt i) (decoderSys.spec ph₂ .startUtt) s₂) := by
  have e1 : decoderSys.spec ph₁ .startUtt = decoderSys.spec .idle .startUtt := start_spec_same ph₁ .idle
  have e2 : decoderSys.spec ph₂ .startUtt = decoderSys.spec .idle .startUtt := start_spec_same ph₂ .idle
  rw [e1, e2]
  exact applySpec_agree K _ _ lowRest data start_flow hag

/-- one utterance from two between-utterance configurations that satisfy the definedness invariant and
agree on `lowRest` -/
theorem utterance_from_rest {Val Inp : Type} (K : Group → Val)
    (sem : Op → Inp → Group → List (Option Val) → Val) (ph₁ ph₂ : Phase)
    (hb₁ : ph₁.between = true) (hb₂ : ph₂.between = true) (s₁ s₂ : State Group Val)
    (hi₁ : Inv decoderSys ph₁ s₁) (hi₂ : Inv decoderSys ph₂ s₂) (hag : Agree lowRest s₁ s₂)
    (i₀ : Inp) (ops : List (Op × Inp)) :
    SameOutcome data (run decoderSys K sem (ph₁, s₁) ((.startUtt, i₀) :: ops))
                     (run decoderSys K sem (ph₂, s₂) ((.startUtt, i₀) :: ops)) := by
  have hf : FlowOK lowRest data (decoderSys.spec ph₁ .startUtt) := by
    have : decoderSys.spec ph₁ .startUtt = decoderSys.spec .idle .startUtt := start_spec_same ph₁ .idle
    rw [this]; exact start_flow
  exact run_cons_sameOutcome decoderSys decoderSys_wf K sem data lowRest data .startUtt i₀ ph₁ ph₂ .started
    (start_trans ph₁ hb₁) (start_trans ph₂ hb₂) (start_spec_same ph₁ ph₂) hf s₁ s₂ hi₁ hi₂ hag ops
    (fun t₁ t₂ h1 h2 ha => run_sameOutcome decoderSys decoderSys_wf K sem data decoderSys_flowClosed ops .started t₁ t₂ h1 h2 ha)

/-- agreement on `low` plus canonical rest cells is agreement on `lowRest` -/
theorem agree_lowRest {Val : Type} (K : Group → Val) (s₁ s₂ : State Group Val) (hag : Agree low s₁ s₂)
    (h₁ : s₁ .hmm = some (K .hmm)) (h₂ : s₂ .hmm = some (K .hmm)) : Agree lowRest s₁ s₂ := by
  intro c hc
  by_cases hl : low c = true
  · exact hag c hl
  · cases c <;> first | (rw [h₁, h₂]) | (exfalso; revert hc hl; decide)

/-- **utterance_function.**  Take two decoders with *arbitrary* prefix histories `h₁`, `h₂` from fresh
states (other audio, other grammars switched back and forth, utterances with or without hypothesis,
streaming or batch; `h₂ = []`/just `setGrammar; setCmn` is the fresh decoder), both now between
utterances and agreeing on the persistent components (configuration, models, dictionary, active
grammar), the globals and the CMN state.  Then for every next utterance `startUtt :: ops` (same calls,
same audio): either both are refused by the protocol at the same call, or both succeed, end in the
same phase, and agree on every cell that is not of a tainted kind — in particular on the history table
and the cached result (`hist`, `res`: hypothesis, segmentation, scores, lattice) and on the CMN state
afterwards.  The result record is a function of (persistent components, CMN state at start, audio). -/
theorem C08_utterance_function {Val Inp : Type} (K : Group → Val)
    (sem : Op → Inp → Group → List (Option Val) → Val)
    (a₀ b₀ : State Group Val) (ha₀ : InitOK a₀) (hb₀ : InitOK b₀)
    (hah : a₀ .hmm = some (K .hmm)) (hbh : b₀ .hmm = some (K .hmm))
    (h₁ h₂ : List (Op × Inp)) (ph₁ ph₂ : Phase) (s₁ s₂ : State Group Val)
    (hr₁ : run decoderSys K sem (.idle, a₀) h₁ = .ok (ph₁, s₁))
    (hr₂ : run decoderSys K sem (.idle, b₀) h₂ = .ok (ph₂, s₂))
    (hb₁ : ph₁.between = true) (hb₂ : ph₂.between = true)
    (hag : Agree low s₁ s₂) (i₀ : Inp) (ops : List (Op × Inp)) :
    SameOutcome data (run decoderSys K sem (ph₁, s₁) ((.startUtt, i₀) :: ops))
                     (run decoderSys K sem (ph₂, s₂) ((.startUtt, i₀) :: ops)) := by
  have i1 := run_inv decoderSys decoderSys_wf K sem h₁ .idle a₀ ph₁ s₁ (inv_of_initOK a₀ ha₀) hr₁
  have i2 := run_inv decoderSys decoderSys_wf K sem h₂ .idle b₀ ph₂ s₂ (inv_of_initOK b₀ hb₀) hr₂
  have c1 := C08_finish_clears_search K sem a₀ hah h₁ ph₁ s₁ hr₁ hb₁
  have c2 := C08_finish_clears_search K sem b₀ hbh h₂ ph₂ s₂ hr₂ hb₂
  exact utterance_from_rest K sem ph₁ ph₂ hb₁ hb₂ s₁ s₂ i1 i2 (agree_lowRest K s₁ s₂ hag c1 c2) i₀ ops

theorem agree_lowRestNoCmn {Val : Type} (K : Group → Val) (s₁ s₂ : State Group Val)
    (hag : Agree lowNoCmn s₁ s₂) (h₁ : s₁ .hmm = some (K .hmm)) (h₂ : s₂ .hmm = some (K .hmm)) :
    Agree lowRestNoCmn s₁ s₂ := by
  intro c hc
  by_cases hl : lowNoCmn c = true
  · exact hag c hl
  · cases c <;> first | (rw [h₁, h₂]) | (exfalso; revert hc hl; decide)

/-- **batch_no_reset.**  With batch CMN configured, a full-utterance call makes the result independent of
the CMN state: two decoders with arbitrary histories that agree on the persistent components and the
globals — **not** necessarily on the CMN state — agree after `startUtt; processFull; …` on every
result-relevant cell, including the CMN state itself (batch CMN overwrites mean and sum before using
them). -/
theorem C08_batch_no_reset {Val Inp : Type} (K : Group → Val)
    (sem : Op → Inp → Group → List (Option Val) → Val)
    (a₀ b₀ : State Group Val) (ha₀ : InitOK a₀) (hb₀ : InitOK b₀)
    (hah : a₀ .hmm = some (K .hmm)) (hbh : b₀ .hmm = some (K .hmm))
    (h₁ h₂ : List (Op × Inp)) (ph₁ ph₂ : Phase) (s₁ s₂ : State Group Val)
    (hr₁ : run decoderSys K sem (.idle, a₀) h₁ = .ok (ph₁, s₁))
    (hr₂ : run decoderSys K sem (.idle, b₀) h₂ = .ok (ph₂, s₂))
    (hb₁ : ph₁.between = true) (hb₂ : ph₂.between = true)
    (hag : Agree lowNoCmn s₁ s₂) (i₀ i₁ : Inp) (ops : List (Op × Inp)) :
    SameOutcome data
      (run decoderSys K sem (ph₁, s₁) ((.startUtt, i₀) :: (.processFull, i₁) :: ops))
      (run decoderSys K sem (ph₂, s₂) ((.startUtt, i₀) :: (.processFull, i₁) :: ops)) := by
  have i1 := run_inv decoderSys decoderSys_wf K sem h₁ .idle a₀ ph₁ s₁ (inv_of_initOK a₀ ha₀) hr₁
  have i2 := run_inv decoderSys decoderSys_wf K sem h₂ .idle b₀ ph₂ s₂ (inv_of_initOK b₀ hb₀) hr₂
  have c1 := C08_finish_clears_search K sem a₀ hah h₁ ph₁ s₁ hr₁ hb₁
  have c2 := C08_finish_clears_search K sem b₀ hbh h₂ ph₂ s₂ hr₂ hb₂
  have hf : FlowOK lowRestNoCmn dataNoCmn (decoderSys.spec ph₁ .startUtt) := by
    have : decoderSys.spec ph₁ .startUtt = decoderSys.spec .idle .startUtt := start_spec_same ph₁ .idle
    rw [this]; exact start_flow_noCmn
  refine run_cons_sameOutcome decoderSys decoderSys_wf K sem data lowRestNoCmn dataNoCmn .startUtt i₀ ph₁ ph₂ .started
    (start_trans ph₁ hb₁) (start_trans ph₂ hb₂) (start_spec_same ph₁ ph₂) hf s₁ s₂ i1 i2
    (agree_lowRestNoCmn K s₁ s₂ hag c1 c2) _ ?_
  intro t₁ t₂ j1 j2 hag'
  exact run_cons_sameOutcome decoderSys decoderSys_wf K sem data dataNoCmn data .processFull i₁ .started .started .batched
    rfl rfl rfl full_flow_noCmn t₁ t₂ j1 j2 hag' ops
    (fun u₁ u₂ k1 k2 ha => run_sameOutcome decoderSys decoderSys_wf K sem data decoderSys_flowClosed ops .batched u₁ u₂ k1 k2 ha)

/-! ## several decoders in one process -/

/-- every operation except `initFe` leaves every global alone -/
theorem decoderSys_noGlobalWrite (op : Op) (h : op ≠ .initFe) : OpNoGlobalWrite decoderSys isGlobal op := by
  intro ph c hg
  cases op <;> first | (exact absurd rfl h) | (cases c <;> first | (cases hg; done) | (cases ph <;> decide))

/-- **instances_disjoint.**  Any number of decoder instances alive in one process, sharing the writable
globals of the library: in every interleaving of their operations that runs to completion **and
contains no `initFe`** (decoders are created / re-initialised one at a time, not concurrently with
other calls — `fe_init` writes the process-wide warp statics of `fe_warp_*.c`), each instance goes
through exactly what its own operations produce when run alone (same final phase, same final content
of every one of its cells and of every global) — operations on decoder A commute with operations on
decoder B.  Rests on the table fact `decoderSys_noGlobalWrite`; the globals of kind `gexcl` (error
callback, log level, dither PRNG) are excluded by configuration.  What creation itself does to the
shared statics is the subject of `C08_creation_order_irrelevant`. -/
theorem C08_instances_disjoint {I Val Inp : Type} [DecidableEq I] (K : Group → Val)
    (sem : Op → Inp → Group → List (Option Val) → Val) (i : I)
    (l : List (I × Op × Inp)) (hq : ∀ x ∈ l, x.2.1 ≠ .initFe) (ms ms' : MState I Group Phase Val)
    (h : runI decoderSys K sem isGlobal ms l = .ok ms') :
    run decoderSys K sem (ms.phase i, view isGlobal ms i) (opsOf i l) =
      .ok (ms'.phase i, view isGlobal ms' i) :=
  runI_project decoderSys K sem isGlobal i l ms ms'
    (fun x hx => decoderSys_noGlobalWrite x.2.1 (hq x hx)) h

/-- the cells a written value may depend on -/
def depsOf : WriteKind Group → List Group
  | .const => []
  | .fn deps => deps

/-- the warp statics are in no read set and in no dependency set: write-only scratch -/
theorem warp_statics_never_read :
    ∀ ph ∈ allPhases, ∀ op ∈ allOps, Group.ginit ∉ (spec ph op).reads ∧
      ∀ e ∈ (spec ph op).writes, Group.ginit ∉ depsOf e.2 := by
  decide

theorem decoderSys_flowClosed_noInit : FlowClosed decoderSys dataNoInit := by
  intro ph op ph' ht
  cases ph <;> cases op <;> first | (cases ht; done) | (intro c; cases c <;> decide)

/-- **creation_order_irrelevant.**  The process-wide frequency-warp statics are the one piece of state
that creating a decoder shares with every other decoder of the process.  Two configurations in the
same phase that agree on everything result-relevant **except** those statics — e.g. a fresh process
versus a process in which other decoders with other `warp_type` / `warp_params` (or none) were created,
freed or re-initialised before — have the same outcome for every operation list, in particular for
`initFe :: …` (create the decoder, then use it): same protocol acceptance, same final phase, agreement
on every result-relevant cell.  A decoder equals its solo fresh-process run whatever was created
before it.  (Holds for the repaired code, where `fe_warp_*_set_parameters` always parses its argument;
the pinned tree skipped the parse for a repeated string and kept a stale `is_neutral`, D68.) -/
theorem C08_creation_order_irrelevant {Val Inp : Type} (K : Group → Val)
    (sem : Op → Inp → Group → List (Option Val) → Val) (ph : Phase) (s₁ s₂ : State Group Val)
    (hi₁ : Inv decoderSys ph s₁) (hi₂ : Inv decoderSys ph s₂) (hag : Agree dataNoInit s₁ s₂)
    (ops : List (Op × Inp)) :
    SameOutcome dataNoInit (run decoderSys K sem (ph, s₁) ops) (run decoderSys K sem (ph, s₂) ops) :=
  run_sameOutcome decoderSys decoderSys_wf K sem dataNoInit decoderSys_flowClosed_noInit ops ph s₁ s₂ hi₁ hi₂ hag

/-! ## the Gaussian-selection history of the PTM scorer -/

/-- **topn_rescan_independent.**  `ptm_mgau_frame_eval` seeds every frame's top-N list with the previous
frame's.  In the model of `eval_topn` + `eval_cb` (`SSVerif.Model.TopN`: the carried codewords re-scored
for the current frame and sorted, then a scan of all `n` codewords of the codebook, each one replacing
the worst entry when it is not yet present and does not score below it), the list after the scan does
not depend on which `N` distinct codewords were carried in, provided the current frame's scores are
pairwise different: two valid start lists give the same final list (same codewords, same scores, same
order).  So a codebook that is scanned forgets every carried identity — which is why, on the pinned
tree, the history of the previous utterance was invisible with `ds = 1` and leaked with frame
down-sampling (`ds > 1`: odd frames skip the scan; D54, repaired by resetting the history when frame 0
is scored, after which the cell is dead-on-start scratch in `decoderSys`).  Not covered: score ties, and
the C code's comparison of a float score with the integer-truncated worst score, which can treat scores
less than one unit apart as tied (probed on the implementation at the level of per-frame senone scores
by the thorough tier). -/
theorem C08_topn_rescan_independent (sc : Nat → Int) (n N : Nat)
    (hinj : ∀ x y, x < n → y < n → sc x = sc y → x = y)
    (a b : List TopN.Entry) (ga : TopN.Good sc n N 0 a) (gb : TopN.Good sc n N 0 b) :
    TopN.scan sc n a = TopN.scan sc n b :=
  TopN.good_unique sc n N hinj _ _
    (TopN.scan_good sc n N a ga n (Nat.le_refl n)) (TopN.scan_good sc n N b gb n (Nat.le_refl n))

section topnExamples
/-- eight codewords with different scores, top-3 -/
def exScore (c : Nat) : Int := [(-50 : Int), -7, -300, -12, -90, -3, -41, -8].getD c (-1000)
/-- two start lists (worst first) carried from "different histories": codewords {2,4,0} and {6,3,1} -/
def exStartA : List TopN.Entry := [(2, -300), (4, -90), (0, -50)]
def exStartB : List TopN.Entry := [(6, -41), (3, -12), (1, -7)]
example : TopN.scan exScore 8 exStartA = [(7, -8), (1, -7), (5, -3)] := by decide
example : TopN.scan exScore 8 exStartB = [(7, -8), (1, -7), (5, -3)] := by decide
end topnExamples

/-! ## non-vacuity -/

section examples
/-- a concrete semantics: every written value is a hash of the operation, the input and what was read -/
def exSem (op : Op) (inp : Nat) (g : Group) (vs : List (Option Nat)) : Nat :=
  vs.foldl (fun h v => (h * 31 + v.getD 7) % 1000003) (op.ctorIdx * 1009 + inp * 17 + g.ctorIdx)
def exK (g : Group) : Nat := 1000 + g.ctorIdx
def exInit : State Group Nat := fun g => if always g then some (exK g) else none

def phaseOf : Except (Err Group) (Phase × State Group Nat) → Option Phase
  | .ok (ph, _) => some ph
  | .error _ => none

/-- two utterances (streaming with a sub-window first chunk, then batch), a grammar switch, queries and
an alignment: accepted, ends in `ended` -/
def exHistory : List (Op × Nat) :=
  [(.setGrammar, 1), (.setCmn, 2), (.startUtt, 0), (.processNoFrame, 3), (.processFirst, 4), (.query, 0),
   (.processMore, 5), (.endUtt, 0), (.query, 0), (.queryAlign, 0), (.getCmn, 0), (.setGrammar, 6),
   (.startUtt, 0), (.processFull, 7), (.endUtt, 0), (.query, 0), (.startUtt, 0), (.endUttEmpty, 0), (.query, 0),
   (.startUtt, 0), (.processNoFrame, 8), (.endUtt, 0), (.queryAlign, 0)]

example : InitOK exInit := by intro g hg; simp [exInit, hg]
example : phaseOf (run decoderSys exK exSem (.idle, exInit) exHistory) = some .ended := by decide

/-- the accessor really fails: the *unrepaired* `acmod_process_cep` moves STARTED → PROCESSING on a call
that completes no analysis window (D8).  With that transition the very next streaming call reads the
live window (`cep`), the noise tracker and the rings although nothing was written to them in this
utterance — a stale read, found by the model. -/
def d8Sys : Sys Group Phase Op :=
  { decoderSys with
    trans := fun ph op => if ph = .started ∧ op = .processNoFrame then some .processing else trans ph op }

example : (match run d8Sys exK exSem (.idle, exInit) [(.setGrammar, 1), (.startUtt, 0), (.processNoFrame, 3), (.processMore, 4)] with
           | .error (.stale c) => some c | _ => none) = some Group.noi := by decide
/-- the same calls on the repaired system are refused by the protocol (the harness maps the second call to
`processFirst`, which primes the window) -/
example : phaseOf (run decoderSys exK exSem (.idle, exInit) [(.setGrammar, 1), (.startUtt, 0), (.processNoFrame, 3), (.processFirst, 4)])
    = some .processing := by decide

/-- a result cell after the second utterance does not depend on the first: histories with different
audio (inputs 4/5 vs 40/50) and an extra utterance, same grammar and CMN text before the target -/
example :
    (match run decoderSys exK exSem (.idle, exInit)
        [(.setGrammar, 1), (.startUtt, 0), (.processFirst, 4), (.processMore, 5), (.endUtt, 0), (.setCmn, 2),
         (.startUtt, 0), (.processFirst, 9), (.endUtt, 0), (.query, 0)] with
     | .ok (_, s) => s .res | _ => none) =
    (match run decoderSys exK exSem (.idle, exInit)
        [(.setGrammar, 1), (.setCmn, 2), (.startUtt, 0), (.processFirst, 9), (.endUtt, 0), (.query, 0)] with
     | .ok (_, s) => s .res | _ => none) := by decide

/-- … and the model is not trivial: without the CMN reset the results differ (the carry is real) -/
example :
    (match run decoderSys exK exSem (.idle, exInit)
        [(.setGrammar, 1), (.setCmn, 2), (.startUtt, 0), (.processFirst, 4), (.processMore, 5), (.endUtt, 0),
         (.startUtt, 0), (.processFirst, 9), (.endUtt, 0), (.query, 0)] with
     | .ok (_, s) => s .res | _ => none) ≠
    (match run decoderSys exK exSem (.idle, exInit)
        [(.setGrammar, 1), (.setCmn, 2), (.startUtt, 0), (.processFirst, 9), (.endUtt, 0), (.query, 0)] with
     | .ok (_, s) => s .res | _ => none) := by decide

/-- … while a batch utterance does not need it -/
example :
    (match run decoderSys exK exSem (.idle, exInit)
        [(.setGrammar, 1), (.setCmn, 2), (.startUtt, 0), (.processFirst, 4), (.processMore, 5), (.endUtt, 0),
         (.startUtt, 0), (.processFull, 9), (.endUtt, 0), (.query, 0)] with
     | .ok (_, s) => (s .res, s .cmn) | _ => (none, none)) =
    (match run decoderSys exK exSem (.idle, exInit)
        [(.setGrammar, 1), (.setCmn, 33), (.startUtt, 0), (.processFull, 9), (.endUtt, 0), (.query, 0)] with
     | .ok (_, s) => (s .res, s .cmn) | _ => (none, none)) := by decide
end examples

end SSVerif.Api
