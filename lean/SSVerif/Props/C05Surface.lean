import SSVerif.Props.C05Graph
/-!
# C05 — the graph predicate read on the surface grammar (one direction)

`Representable'` (Model/JsgfGraph.lean) lives on the desugared table, where groups, optionals and Kleene operators
are internal rules.  `SRepresentable g root` is the same condition on the user rules alone, with "tail reference"
defined structurally through the nesting.  Proved here, for every table that represents the grammar
(`tableMatches`, in particular `desugar g`): every surface reference is a path of the table's graph, and a
surface reference that is not a tail reference is a path through a table reference that is not last.  Hence
**whatever the compiler accepts satisfies the surface condition** (`C05_surface_graph_partial`): an undefined
rule reachable through user-rule references, or a reference that is not a tail reference (left, middle, under a
Kleene operator, in a group that is not last, followed by `<NULL>`) on a cycle of user rules, is always refused.

Full statement (NOT proved; the converse is only observed: the check compares `representableGB (desugar g)` with a
second implementation of `SRepresentable` on every generated grammar and top rule):
  `Representable' (desugar g) (.user root) ↔ SRepresentable g root`.
Missing for the converse: every cycle of the table's graph through a reference that is not last passes through a
user rule (internal rules only loop on themselves, in last position), and every reachable internal rule belongs to
the body of a reachable user rule.
-/
namespace SSVerif.Jsgf

theorem Reach.head {T : Table} {a b c : RName} {l : Bool} (e : Edge T a b l) (h : Reach T b c) : Reach T a c :=
  (Reach.snoc .refl e).trans h

/-- some path from `x` to `z` passes through a reference that is not last -/
def Broken (T : Table) (x z : RName) : Prop := ∃ u v, Reach T x u ∧ Edge T u v false ∧ Reach T v z

/-- `z` can be reached from `x`; when `b = false`, through a reference that is not last -/
def Conn (T : Table) (x z : RName) (b : Bool) : Prop := Reach T x z ∧ (b = false → Broken T x z)

theorem Conn.step {T : Table} {x y z : RName} {l0 l : Bool} (e : Edge T x y l0) (h : Conn T y z l) :
    Conn T x z (l0 && l) := by
  refine ⟨Reach.head e h.1, fun hb => ?_⟩
  cases l0 with
  | false => exact ⟨x, y, .refl, e, h.1⟩
  | true =>
    obtain ⟨u, v, hu, huv, hv⟩ := h.2 (by simpa using hb)
    exact ⟨u, v, Reach.head e hu, huv, hv⟩

theorem Conn.edge {T : Table} {x z : RName} {l0 : Bool} (e : Edge T x z l0) : Conn T x z l0 := by
  refine ⟨.snoc .refl e, fun hb => ?_⟩
  subst hb
  exact ⟨x, z, .refl, e, .refl⟩

theorem mem_andFlag {l0 : Bool} {xs : List (Nat × Bool)} {s : Nat} {l : Bool} (h : (s, l) ∈ andFlag l0 xs) :
    ∃ l', (s, l') ∈ xs ∧ l = (l0 && l') := by
  simp only [andFlag, List.mem_map] at h
  obtain ⟨⟨s', l'⟩, hm, heq⟩ := h
  simp only [Prod.mk.injEq] at heq
  obtain ⟨rfl, rfl⟩ := heq
  exact ⟨l', hm, rfl⟩

theorem mem_altRefs_mid (y : RName) (post : List Atom) :
    ∀ pre : List Atom, (y, post.isEmpty) ∈ altRefs (pre ++ .ref y :: post)
  | [] => by simp [altRefs]
  | a :: pre => by
    have ih := mem_altRefs_mid y post pre
    cases a with
    | ref z => simp only [List.cons_append, altRefs]; exact List.mem_cons_of_mem _ ih
    | tok w => simp only [List.cons_append, altRefs]; exact ih
    | null => simp only [List.cons_append, altRefs]; exact ih
    | void => simp only [List.cons_append, altRefs]; exact ih

theorem edge_of_alt {T : Table} {x y : RName} {pre post : List Atom} (h : pre ++ .ref y :: post ∈ T.rules x) :
    Edge T x y post.isEmpty :=
  List.mem_flatMap.mpr ⟨_, h, mem_altRefs_mid y post pre⟩

theorem repS_ne_nil {R : Rules} : ∀ (s : Seq) (alt : List Atom), repS R alt s = true → alt ≠ []
  | .one _ _ _, [], h => by simp [repS] at h
  | .cons _ _ _ _, [], h => by simp [repS] at h
  | _, _ :: _, _ => by simp

mutual
  theorem connE (T : Table) : ∀ (e : Exp) (a : Atom), repE T.rules a e = true → ∀ (x : RName) (l0 : Bool),
      (∀ y, a = .ref y → Edge T x y l0) → ∀ s l, (s, l) ∈ sRefsE e → Conn T x (.user s) (l0 && l)
    | .tok w, a, _, x, l0, _, s, l, hm => by simp [sRefsE] at hm
    | .null, a, _, x, l0, _, s, l, hm => by simp [sRefsE] at hm
    | .void, a, _, x, l0, _, s, l, hm => by simp [sRefsE] at hm
    | .ref r, a, ha, x, l0, hedge, s, l, hm => by
      simp only [sRefsE, List.mem_singleton, Prod.mk.injEq] at hm
      obtain ⟨rfl, rfl⟩ := hm
      cases a with
      | ref rn =>
        cases rn with
        | user n =>
          simp only [repE, beq_iff_eq] at ha
          subst ha
          simpa using Conn.edge (hedge _ rfl)
        | gen k => simp [repE] at ha
      | _ => simp [repE] at ha
    | .group body, a, ha, x, l0, hedge, s, l, hm => by
      cases a with
      | ref rn =>
        cases rn with
        | user n => simp [repE] at ha
        | gen k =>
          simp only [repE] at ha
          simp only [sRefsE] at hm
          exact Conn.step (hedge _ rfl)
            (connA T body _ ha (.gen k) (fun alt halt => List.mem_reverse.mp halt) s l hm)
      | _ => simp [repE] at ha
    | .opt body, a, ha, x, l0, hedge, s, l, hm => by
      cases a with
      | ref rn =>
        cases rn with
        | user n => simp [repE] at ha
        | gen k =>
          simp only [repE] at ha
          simp only [sRefsE] at hm
          split at ha
          · rename_i rest heq
            refine Conn.step (hedge _ rfl) (connA T body _ ha (.gen k) (fun alt halt => ?_) s l hm)
            rw [heq]
            exact List.mem_cons_of_mem _ (List.mem_reverse.mp halt)
          · cases ha
      | _ => simp [repE] at ha
    | .star e, a, ha, x, l0, hedge, s, l, hm => by
      cases a with
      | ref rn =>
        cases rn with
        | user n => simp [repE] at ha
        | gen k =>
          simp only [repE] at ha
          simp only [sRefsE] at hm
          obtain ⟨l', hm', rfl⟩ := mem_andFlag hm
          split at ha
          · rename_i a0 k' heq
            simp only [Bool.and_eq_true] at ha
            have hedge' : ∀ y, a0 = .ref y → Edge T (.gen k) y false := by
              intro y hy
              subst hy
              exact edge_of_alt (pre := []) (post := [.ref (.gen k')]) (by rw [heq]; simp)
            exact Conn.step (hedge _ rfl) (connE T e a0 ha.2 (.gen k) false hedge' s l' hm')
          · cases ha
      | _ => simp [repE] at ha
    | .plus e, a, ha, x, l0, hedge, s, l, hm => by
      cases a with
      | ref rn =>
        cases rn with
        | user n => simp [repE] at ha
        | gen k =>
          simp only [repE] at ha
          simp only [sRefsE] at hm
          obtain ⟨l', hm', rfl⟩ := mem_andFlag hm
          split at ha
          · rename_i a' a0 k' heq
            simp only [Bool.and_eq_true] at ha
            have hedge' : ∀ y, a0 = .ref y → Edge T (.gen k) y false := by
              intro y hy
              subst hy
              exact edge_of_alt (pre := []) (post := [.ref (.gen k')]) (by rw [heq]; simp)
            exact Conn.step (hedge _ rfl) (connE T e a0 ha.2 (.gen k) false hedge' s l' hm')
          · cases ha
      | _ => simp [repE] at ha
  theorem connS (T : Table) : ∀ (sq : Seq) (alt : List Atom), repS T.rules alt sq = true →
      ∀ (x : RName) (pre : List Atom), pre ++ alt ∈ T.rules x → ∀ s l, (s, l) ∈ sRefsS sq → Conn T x (.user s) l
    | .one _ _ e, alt, hs, x, pre, hmem, s, l, hm => by
      match alt, hs, hmem with
      | [a], hs, hmem =>
        simp only [repS] at hs
        simp only [sRefsS] at hm
        have hedge : ∀ y, a = .ref y → Edge T x y true := by
          intro y hy
          subst hy
          exact edge_of_alt (post := []) hmem
        simpa using connE T e a hs x true hedge s l hm
      | [], hs, _ => simp [repS] at hs
      | _ :: _ :: _, hs, _ => simp [repS] at hs
    | .cons _ _ e sq', alt, hs, x, pre, hmem, s, l, hm => by
      match alt, hs, hmem with
      | a :: rest, hs, hmem =>
        simp only [repS, Bool.and_eq_true] at hs
        simp only [sRefsS, List.mem_append] at hm
        rcases hm with hm | hm
        · obtain ⟨l', hm', rfl⟩ := mem_andFlag hm
          have hne := repS_ne_nil sq' rest hs.2
          have hedge : ∀ y, a = .ref y → Edge T x y false := by
            intro y hy
            subst hy
            have := edge_of_alt (post := rest) hmem
            cases rest with
            | nil => exact absurd rfl hne
            | cons b r => exact this
          exact connE T e a hs.1 x false hedge s l' hm'
        · exact connS T sq' rest hs.2 x (pre ++ [a]) (by simpa using hmem) s l hm
      | [], hs, _ => simp [repS] at hs
  theorem connA (T : Table) : ∀ (b : Alts) (alts : List (List Atom)), repA T.rules alts b = true →
      ∀ (x : RName), (∀ alt ∈ alts, alt ∈ T.rules x) → ∀ s l, (s, l) ∈ sRefsA b → Conn T x (.user s) l
    | .one sq, alts, hb, x, hsub, s, l, hm => by
      match alts, hb, hsub with
      | [alt], hb, hsub =>
        simp only [repA] at hb
        simp only [sRefsA] at hm
        exact connS T sq alt hb x [] (by simpa using hsub alt (List.mem_cons_self ..)) s l hm
      | [], hb, _ => simp [repA] at hb
      | _ :: _ :: _, hb, _ => simp [repA] at hb
    | .cons sq b, alts, hb, x, hsub, s, l, hm => by
      match alts, hb, hsub with
      | alt :: rest, hb, hsub =>
        simp only [repA, Bool.and_eq_true] at hb
        simp only [sRefsA, List.mem_append] at hm
        rcases hm with hm | hm
        · exact connS T sq alt hb.1 x [] (by simpa using hsub alt (List.mem_cons_self ..)) s l hm
        · exact connA T b rest hb.2 x (fun alt' h' => hsub alt' (List.mem_cons_of_mem _ h')) s l hm
      | [], hb, _ => simp [repA] at hb
end

/-- a surface reference is a path of the table's graph (through a reference that is not last when it is not a
tail reference) -/
theorem conn_of_sedge {T : Table} {g : Grammar} (M : Matches T.rules g) {r s : Nat} {l : Bool}
    (h : SEdge g r s l) : Conn T (.user r) (.user s) l := by
  obtain ⟨body, hl, hm⟩ := h
  exact connA T body _ (M.defd r body hl) (.user r) (fun alt halt => List.mem_reverse.mp halt) s l hm

theorem reach_of_sreach {T : Table} {g : Grammar} (M : Matches T.rules g) {a b : Nat} (h : SReach g a b) :
    Reach T (.user a) (.user b) := by
  induction h with
  | refl => exact .refl
  | snoc _ e ih => exact ih.trans (conn_of_sedge M e).1

theorem lookup_of_defined {T : Table} {g : Grammar} (h : tableMatches T g = true) {n : Nat}
    (hd : T.defined (.user n) = true) : (g.lookup n).isSome = true := by
  simp only [tableMatches, Bool.and_eq_true, List.all_eq_true] at h
  simp only [Table.defined, Table.find, Option.isSome_iff_exists] at hd
  obtain ⟨rl, hrl⟩ := hd
  have hm := List.mem_of_find?_eq_some hrl
  have hp := List.find?_some hrl
  simp only [beq_iff_eq] at hp
  have := h.2 rl hm
  rw [hp] at this
  exact this

/-- **C05, what the compiler accepts satisfies the graph condition on the surface grammar (partial: one
direction).**  For every table that represents the surface grammar `g` (`tableMatches`, evaluated by the driver on
every generated grammar; proved for `desugar g`) and every user rule `root`: if the table's reference graph
satisfies `Representable'` from `root` — equivalently (`C05_representable_iff_graph`) the compiler's refusal test
passes — then on the surface grammar every user rule reachable from `root` through rule references (at any depth of
groups, optionals, Kleene operators) is defined, and no reference that is not a tail reference lies on a cycle of
user rules reachable from `root`. -/
theorem C05_surface_graph_partial (T : Table) (g : Grammar) (h : tableMatches T g = true) (root : Nat)
    (hG : Representable' T (.user root)) : SRepresentable g root := by
  have M := tableMatches_spec h
  constructor
  · intro r hr
    exact lookup_of_defined h (hG.1 _ (reach_of_sreach M hr))
  · intro r s hr e hback
    obtain ⟨u, v, hu, huv, hv⟩ := (conn_of_sedge M e).2 rfl
    exact hG.2 u v ((reach_of_sreach M hr).trans hu) huv (hv.trans ((reach_of_sreach M hback).trans hu))

/-- **C05, surface-bad grammars are refused.** For every surface grammar and rule `<r>`: when the mirror of the
compiler builds an automaton for `<r>` of `desugar g`, the surface grammar satisfies `SRepresentable` from `<r>`
(contrapositive: an undefined rule reachable from `<r>`, or left / middle / Kleene-nested recursion through user
rules reachable from `<r>`, is refused). -/
theorem C05_compile_needs_surface_graph (g : Grammar) (r : Nat)
    (h : (expandTop (desugar g) (.user r)).isSome = true) : SRepresentable g r :=
  C05_surface_graph_partial (desugar g) g (desugar_matches g) r ((C05_compile_iff_graph g r).1.mp h)

/-! ### non-vacuity -/

/-- `<0> = x [ y <0> ]` has the tail reference `<0> → <0>`; `<0> = x <0>*` has it as a non-tail reference -/
example : sRefsA (.one (.cons 1 0 (.tok 1) (.one 1 0 (.opt (.one (.cons 1 0 (.tok 2) (.one 1 0 (.ref 0)))))))) = [(0, true)] := by
  decide +kernel
example : sRefsA (.one (.cons 1 0 (.tok 1) (.one 1 0 (.star (.ref 0))))) = [(0, false)] := by decide +kernel
/-- the hypothesis and the conclusion hold together for a recursive grammar -/
example : SRepresentable exMutual 0 :=
  C05_compile_needs_surface_graph exMutual 0 (by decide +kernel)
/-- and the conclusion fails for left recursion: `<0> = <0> x | y` is not `SRepresentable` -/
example : ¬ SRepresentable exLeft 0 := fun h =>
  h.2 0 0 .refl ⟨_, rfl, by decide +kernel⟩ .refl

end SSVerif.Jsgf
