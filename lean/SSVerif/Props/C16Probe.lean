import SSVerif.Props.C16
/-!
# C16 — queries are observations: asking about a word never changes what a later query answers

`decoder_lookup_word`, `dict_wordid` (and through it `decoder_set_align_text`, the grammar check, the
lextree builder) only *read* the dictionary.  In the model (`Model/Dict.lean`) `step` returns the
dictionary unchanged for `.lookup` / `.wid`; the theorems below lift that to whole histories: the
answers given after a history are those of the dictionary built by the *additions alone*, whatever
was asked in between, and in particular "is it known? – no – add it – look it up" finds the word.
The correspondence check replays exactly these shapes on the real code (families
`around_add_*` of `tools/props/c16.py`): an implementation that remembers an earlier (negative)
answer across an addition differs from `run` on a concrete history.
-/
namespace SSVerif.Dict
open SSVerif.HashTable (Key)

/-- the read-only operations of a history -/
def Op.isQuery : Op → Bool
  | .lookup _ => true
  | .wid _ => true
  | _ => false

theorem step_query_state (m : Mdef) (d : Dict) {q : Op} (hq : q.isQuery = true) : (step m d q).1 = d := by
  cases q <;> simp_all [Op.isQuery, step]

theorem run_append (m : Mdef) (d : Dict) (a b : List Op) :
    run m d (a ++ b) = ((run m (run m d a).1 b).1, (run m d a).2 ++ (run m (run m d a).1 b).2) := by
  induction a generalizing d with
  | nil => simp [run]
  | cons op a ih => simp [run, ih]

/-- **Queries are transparent.** The dictionary after a history is the dictionary after its additions
(accepted or rejected) alone: dropping every lookup / word-id query from the history changes nothing. -/
theorem C16_queries_transparent (m : Mdef) (d : Dict) (ops : List Op) :
    (run m d ops).1 = (run m d (ops.filter fun o => !o.isQuery)).1 := by
  induction ops generalizing d with
  | nil => rfl
  | cons op ops ih =>
    cases hq : op.isQuery
    · simp only [List.filter_cons, hq, Bool.not_false, if_true, run]
      exact ih _
    · simp only [List.filter_cons, hq, Bool.not_true, run, step_query_state m d hq]
      exact ih d

/-- **The answer to a query does not depend on earlier queries.** The last answer of `ops ++ [q]` is
`q` evaluated in the dictionary built by the additions of `ops` alone — for every history, in
particular when the same word was asked for (and not found) right before it was added. -/
theorem C16_answer_ignores_queries (m : Mdef) (d : Dict) (ops : List Op) (q : Op) :
    (run m d (ops ++ [q])).2 =
      (run m d ops).2 ++ [(step m (run m d (ops.filter fun o => !o.isQuery)).1 q).2] := by
  rw [run_append, ← C16_queries_transparent]
  simp [run]

/-- **miss → add → lookup (API level).** Whatever `decoder_lookup_word(w)` answered before, once
`decoder_add_word(w, ph)` succeeds the next `decoder_lookup_word(w)` returns the phones of `ph` joined
by single spaces and `dict_wordid(w)` the id the addition returned. -/
theorem C16_lookup_add_lookup {m : Mdef} {d : Dict} (h : WF d) (w ph : Key) {i : Nat} {r0 r2 r3 : Res}
    (hr : (run m d [.lookup w, .add w ph, .lookup w, .wid w]).2 = [r0, .id (some i), r2, r3]) :
    r0 = .phones (decoderLookup m d w) ∧ r2 = .phones (some (joinSp (tokens ph))) ∧ r3 = .id (some i) := by
  simp only [run, step, List.cons.injEq, Res.id.injEq, and_true] at hr
  obtain ⟨h0, hi, h2, h3⟩ := hr
  have hadd : decoderAddWord m d w ph = ((decoderAddWord m d w ph).1, some i) := by
    rw [← hi]
  obtain ⟨_, _, hid, hl⟩ := C16_add_then_lookup_decoder h hadd
  exact ⟨h0.symm, by rw [← h2, hl], by rw [← h3, hid]⟩

/-- **miss → add → lookup (dictionary level)**, the same for `dict_wordid` around `dict_add_word`;
`d.wordid w = none` is what the first query answered (a duplicate is rejected, `C16_reject_is_noop`). -/
theorem C16_wid_dadd_wid {m : Mdef} {d : Dict} (h : WF d) (w : Key) (p : List Nat) {i : Nat} {r0 r2 : Res}
    (hr : (run m d [.wid w, .dadd w p, .wid w]).2 = [r0, .id (some i), r2]) :
    r0 = .id (d.wordid w) ∧ r2 = .id (some i) ∧ i = d.words.length := by
  simp only [run, step, List.cons.injEq, Res.id.injEq, and_true] at hr
  obtain ⟨h0, hi, h2⟩ := hr
  have hadd : dictAddWord d w p = ((dictAddWord d w p).1, some i) := by
    rw [← hi]
  obtain ⟨hlen, _, hid, _⟩ := C16_add_then_lookup h hadd
  exact ⟨h0.symm, by rw [← h2, hid], hlen⟩

/-! ### non-vacuity: the shapes the check replays, on a two-phone model -/

private def m0 : Mdef := { ciphones := [[65], [66]], sil := 0 }
private def foo : Key := [102]
private def foo2 : Key := [102, 40, 50, 41]

-- "is it known? no: add it, look it up", for a base word and then for its alternate; the hypothesis of
-- `C16_lookup_add_lookup` is met with `i = 0` and the conclusion is what the run shows
example :
    (run m0 (Dict.empty false 4) [.lookup foo, .add foo [65, 32, 66], .lookup foo, .wid foo]).2 =
      [.phones none, .id (some 0), .phones (some [65, 32, 66]), .id (some 0)] ∧
    (run m0 (Dict.empty false 4) [.add foo [65], .lookup foo2, .wid foo2, .add foo2 [66, 9, 65], .lookup foo2, .wid foo2]).2 =
      [.id (some 0), .phones none, .id none, .id (some 1), .phones (some [66, 32, 65]), .id (some 1)] := by
  decide

-- a query that hits, a rejected duplicate, the same query again: same answer; dictionary level too
example :
    (run m0 (Dict.empty true 4) [.dadd foo [1], .wid [70], .dadd [70] [0], .wid [70], .wid foo2, .dadd foo2 [0], .wid foo2]).2 =
      [.id (some 0), .id (some 0), .id none, .id (some 0), .id none, .id (some 1), .id (some 1)] := by
  decide

-- dropping the queries of a history leaves the additions' dictionary (both sides computed)
example :
    let ops : List Op := [.lookup foo, .add foo [65], .wid foo2, .add foo2 [66], .lookup foo2]
    (ops.filter fun o => !o.isQuery).length = 2 ∧
    (run m0 (Dict.empty false 4) ops).1.words = (run m0 (Dict.empty false 4) (ops.filter fun o => !o.isQuery)).1.words := by
  decide

end SSVerif.Dict
