import SSVerif.Proofs.LatticeGraph
/-!
# C11 — The word lattice is a well-formed, time-consistent graph of grammar paths

Property theorems only.  `L : Lat` is a lattice as `decoder_lattice` hands it out (dumped through
the iterator API by `harness/h_c11.c`, or built by the model's `buildLattice`), `G` the search
grammar (`fsg_search_t.fsg`, with filler loops and alternate pronunciations) as an ε-NFA.

`LatticeOK G L` is the *local* reading of the property: finitely many conditions on single nodes
and links (valid endpoints, one link per node pair, nothing enters the start / leaves the end and
every other node has an entry and an exit, synthetic nodes only as start/end, node and link times,
how the `<s>`/`</s>` markers are linked, every link a grammar step).  `latticeOKB` decides it and is
run by the driver on every lattice the C code returns.  The theorems below lift the local predicate
to the universally quantified statements of the property: no cycle and a bound on the length of
*every* path, *every* node on a start→end path, the words along *every* path from the start a path
of the grammar.

That the model `buildLattice` yields `LatticeOK` (and contains the first-best segmentation) for every
well-formed history table is proved in `Props/C11Build.lean` (`C11_build_latticeOK`, `C11_build_first_best`).
-/
namespace SSVerif.Lattice
open SSVerif.Nfa

variable {G : Nfa} {L : Lat}

/-- **C11, verified checker.** The Boolean checker run on the implementation's lattices decides
exactly the predicate `LatticeOK`. -/
theorem C11_latticeOKB_iff (G : Nfa) (L : Lat) : latticeOKB G L = true ↔ LatticeOK G L := by
  unfold latticeOKB clauseResults
  simp only [List.all_cons, List.all_nil, Bool.and_true, Bool.and_eq_true, decide_eq_true_eq]
  constructor
  · rintro ⟨h1, h2, h3, h4, h5, h6, h7, h8, h9⟩
    exact ⟨h1, h2, h3, h4, h5, h6, h7, h8, h9⟩
  · rintro ⟨h1, h2, h3, h4, h5, h6, h7, h8, h9⟩
    exact ⟨h1, h2, h3, h4, h5, h6, h7, h8, h9⟩

/-- **C11, acyclic.** Every link strictly increases the rank (0 for the synthetic start, start frame
+ 1 otherwise — so every link between word nodes strictly increases the start frame); hence no path
returns to its first node, and every path has at most `n_frames + 1` links. -/
theorem C11_lattice_acyclic (ok : LatticeOK G L) :
    (∀ l ∈ L.links, L.rank l.src < L.rank l.dst) ∧
    (∀ u p, Path L u p u → p = []) ∧
    (∀ u v p, u < L.n → Path L u p v → p.length ≤ L.nframes + 1) :=
  ⟨fun _ hl => rank_lt ok hl, fun _ _ h => acyclic ok h, fun _ _ _ hu h => path_length_le ok h hu⟩

/-- **C11, single start and end.** The start node is the only node without an entering link, the
end node the only node without a leaving link. -/
theorem C11_single_start_end (ok : LatticeOK G L) (v : Nat) (hv : v < L.n) :
    ((∀ l ∈ L.links, l.dst ≠ v) ↔ v = L.start) ∧ ((∀ l ∈ L.links, l.src ≠ v) ↔ v = L.final) := by
  constructor
  · constructor
    · intro h
      apply Classical.byContradiction
      intro hne
      obtain ⟨l, hl, hd⟩ := ok.startEnd.2.1 v hv hne
      exact h l hl hd
    · rintro rfl l hl; exact (ok.startEnd.1 l hl).1
  · constructor
    · intro h
      apply Classical.byContradiction
      intro hne
      obtain ⟨l, hl, hd⟩ := ok.startEnd.2.2 v hv hne
      exact h l hl hd
    · rintro rfl l hl; exact (ok.startEnd.1 l hl).2

/-- **C11, every node lies on a start→end path.** -/
theorem C11_all_on_start_end_path (ok : LatticeOK G L) (v : Nat) (hv : v < L.n) :
    ∃ p q, Path L L.start p v ∧ Path L v q L.final := by
  obtain ⟨p, hp⟩ := reach_from_start ok _ v rfl hv
  obtain ⟨q, hq⟩ := reach_final ok _ v rfl hv
  exact ⟨p, q, hp, hq⟩

/-- **C11, time consistency.** A link between two word nodes joins a word instance of the source
node — it starts at the node's start frame and ends at the link's end frame `t`, which is one of the
node's end frames — to a word node that starts at frame `t + 1`, inside the utterance.  The markers:
the synthetic start sits at frame 0 and is linked (with `ef = 0`) exactly to word nodes starting at
frame 0; links into the synthetic end carry `ef = n_frames` and leave word nodes whose last end frame
is the last exit frame of the utterance. -/
theorem C11_links_time_consistent (ok : LatticeOK G L) (l : Link) (hl : l ∈ L.links) :
    ((L.node l.src).real = true → (L.node l.dst).real = true →
      (L.node l.src).sf ≤ l.ef ∧ (L.node l.src).fef ≤ l.ef ∧ l.ef ≤ (L.node l.src).lef ∧
      (L.node l.dst).sf = l.ef + 1 ∧ (L.node l.dst).sf < L.nframes) ∧
    ((L.node l.src).real = false → l.src = L.start ∧ (L.node l.src).sf = 0 ∧ l.ef = 0 ∧
      (L.node l.dst).real = true ∧ (L.node l.dst).sf = 0) ∧
    ((L.node l.dst).real = false → l.dst = L.final ∧ (L.node l.dst).sf = L.nframes ∧ l.ef = L.nframes ∧
      (L.node l.src).real = true ∧ (L.node l.src).lef = L.maxLef ∧ L.maxLef < L.nframes) := by
  have ht := ok.linkTimes l hl
  have hep := ok.endpoints.2.2 l hl
  refine ⟨?_, ?_, ?_⟩
  · intro hs hd
    obtain ⟨h1, h2, h3, h4⟩ := ht.1 hs hd
    have := (ok.nodeTimes l.dst hep.2).1 hd
    exact ⟨h1, h2, h3, h4.symm, by omega⟩
  · intro hs
    obtain ⟨h1, h2, h3, h4⟩ := ht.2.2 hs
    have := ((ok.nodeTimes l.src hep.1).2 hs).1 h1
    exact ⟨h1, this, h2, h3, h4⟩
  · intro hd
    cases hs : (L.node l.src).real with
    | false =>
      have := (ht.2.2 hs).2.2.1
      rw [hd] at this; cases this
    | true =>
      obtain ⟨h1, h2, h3⟩ := ht.2.1 hs hd
      have hne := (ok.startEnd.1 l hl).1
      have h4 := ((ok.nodeTimes l.dst hep.2).2 hd).2.1 hne
      have h5 := (ok.nodeTimes l.src hep.1).1 hs
      exact ⟨h1, h4, h2, rfl, h3, by omega⟩

/-- **C11, grammar paths.** For every path from the start node, the words of the word nodes along
it (`sentence`) are the label sequence of a path of the grammar from its start state; that grammar
path ends in the grammar state stored with the last word node. -/
theorem C11_paths_are_grammar_paths (ok : LatticeOK G L) (p : List Link) (v : Nat) (h : Path L L.start p v) :
    ∃ q, Reach G G.start (sentence L L.start p) q ∧ ((L.node v).real = true → (L.node v).state = some q) :=
  paths_grammar ok h

/-- **C11, first-best in the lattice (verified validation).** When the driver's check of a witness
path succeeds, the first-best segmentation — the list of `(word, start frame, end frame)` of its word
segments — is the instance sequence of a start→end path of the lattice: consecutive word instances
are joined by a link whose end frame is the first one's end frame, the first instance belongs to the
start node (or a successor of the synthetic start), the last one ends at its node's last end frame
and that node is the end node (or linked to the synthetic end). -/
theorem C11_first_best_in_lattice {segs : List Seg} {ls : List Link} (h : checkFirstBest L segs ls = true) :
    ∃ ls, Path L L.start ls L.final ∧ instances L L.start ls = segs :=
  checkFirstBest_sound h

/-- **C11, first-best in the lattice (decision).** On a well-formed lattice the search the driver runs
decides the clause: it finds a path exactly when the segmentation is the instance sequence of some
start→end path — so a "not found" verdict on the implementation's lattice is a proof that the first-best
segmentation is not in the lattice. -/
theorem C11_first_best_decided (ok : LatticeOK G L) (segs : List Seg) :
    firstBestB L segs = true ↔ FirstBestInLattice L segs := by
  unfold firstBestB
  constructor
  · intro h
    obtain ⟨ls, hls⟩ := Option.isSome_iff_exists.1 h
    exact ⟨ls, findSegPath_sound _ _ _ _ hls⟩
  · rintro ⟨ls, hp, hi⟩
    exact findSegPath_complete ls L.start segs _ hp hi
      (by have := path_length_le ok hp ok.endpoints.1; omega)

/-- **C11, cache.** A lattice request that returned an object, repeated at the same frame count
(no new audio), returns the same object and leaves the cache unchanged. -/
theorem C11_cache_same_object (c : Cache) (frame : Nat) (b b' : Bool) (id : Nat)
    (h : (c.request frame b).2 = some id) :
    ((c.request frame b).1.request frame b').2 = some id ∧
    ((c.request frame b).1.request frame b').1 = (c.request frame b).1 :=
  cache_same c frame b b' id h

/-- **C11, cache across utterances.** After `decoder_start_utt` the first lattice request of the new utterance
never hands out an object of an earlier utterance — whatever its frame count, also the frame count of the lattice
cached before: it returns nothing (no lattice yet) or a freshly built object (`nextId`, an identity not handed out
before), and within the new utterance the same-frame rule applies again. -/
theorem C11_cache_new_utterance (c : Cache) (frame : Nat) (b : Bool) :
    (c.startUtt.request frame b).2 = (if b then some c.nextId else none) ∧
    ∀ b' id, (c.startUtt.request frame b).2 = some id →
      ((c.startUtt.request frame b).1.request frame b').2 = some id := by
  constructor
  · cases b <;> simp [Cache.startUtt, Cache.request]
  · intro b' id h
    exact (cache_same c.startUtt frame b b' id h).1

/-! ### non-vacuity: a lattice with both markers, two start candidates and two end candidates -/

/-- grammar: `sil* go sil* (forward | ford) sil*` with states 0,1,2; word ids sil=0 go=1 forward=2 ford=3 -/
def exG : Nfa where
  start := 0
  final := 2
  arcs := [(0, some 1, 1), (1, some 2, 2), (1, some 3, 2), (0, some 0, 0), (1, some 0, 1), (2, some 0, 2)]

/-- 10 frames; node 0 = `</s>`, 1 = `<s>`, 2 = forward@4, 3 = ford@4, 4 = go@0, 5 = go@2, 6 = sil@0 -/
def exL : Lat where
  nframes := 10
  start := 1
  final := 0
  nodes := [⟨9, 10, 10, 10, none⟩, ⟨8, 0, 0, 0, none⟩, ⟨2, 4, 9, 9, some 2⟩, ⟨3, 4, 9, 9, some 2⟩,
            ⟨1, 0, 3, 3, some 1⟩, ⟨1, 2, 3, 3, some 1⟩, ⟨0, 0, 1, 1, some 0⟩]
  links := [⟨1, 4, 0, 0⟩, ⟨1, 6, 0, -5⟩, ⟨2, 0, 10, -40⟩, ⟨3, 0, 10, -41⟩, ⟨4, 2, 3, -20⟩, ⟨4, 3, 3, -30⟩,
            ⟨5, 2, 3, -7⟩, ⟨5, 3, 3, -8⟩, ⟨6, 5, 1, -10⟩]

theorem exL_ok : LatticeOK exG exL := (C11_latticeOKB_iff exG exL).1 (by decide +kernel)

-- the path <s> → sil@0 → go@2 → ford@4 → </s> is a grammar path `sil go ford`
example : ∃ q, Reach exG exG.start [0, 1, 3] q :=
  have h := C11_paths_are_grammar_paths exL_ok [⟨1, 6, 0, -5⟩, ⟨6, 5, 1, -10⟩, ⟨5, 3, 3, -8⟩, ⟨3, 0, 10, -41⟩] 0
    ((pathB_iff _ _ _).1 (by decide +kernel))
  h.imp fun _ hq => by
    have : sentence exL exL.start [⟨1, 6, 0, -5⟩, ⟨6, 5, 1, -10⟩, ⟨5, 3, 3, -8⟩, ⟨3, 0, 10, -41⟩] = [0, 1, 3] := by
      decide +kernel
    rw [← this]; exact hq.1

-- a first-best segmentation on a path, and one that is not accepted (wrong boundary)
example : checkFirstBest exL [⟨0, 0, 1⟩, ⟨1, 2, 3⟩, ⟨2, 4, 9⟩]
    [⟨1, 6, 0, -5⟩, ⟨6, 5, 1, -10⟩, ⟨5, 2, 3, -7⟩, ⟨2, 0, 10, -40⟩] = true := by decide +kernel
example : firstBestB exL [⟨0, 0, 1⟩, ⟨1, 2, 3⟩, ⟨2, 4, 9⟩] = true ∧ firstBestB exL [⟨0, 0, 1⟩, ⟨1, 2, 3⟩, ⟨2, 4, 8⟩] = false := by
  decide +kernel

-- a cycle, a dangling node and a time gap are rejected
example : latticeOKB exG { exL with links := exL.links ++ [⟨2, 5, 9, -1⟩] } = false := by decide +kernel
example : latticeOKB exG { exL with nodes := exL.nodes ++ [⟨1, 3, 4, 4, some 1⟩] } = false := by decide +kernel
example : latticeOKB exG { exL with links := exL.links.map fun l => if l = ⟨6, 5, 1, -10⟩ then ⟨6, 5, 0, -10⟩ else l } = false := by
  decide

-- the cache hands out the same object until the frame count changes
-- a second utterance of the same frame count gets a new object, not the cached one
example : let c0 : Cache := { dag := none, nextId := 0 }
    let r1 := c0.request 279 true
    let r2 := r1.1.startUtt.request 279 true
    (r1.2, r2.2) = (some 0, some 1) := by decide

example : let c0 : Cache := { dag := none, nextId := 0 }
    let r1 := c0.request 120 true
    let r2 := r1.1.request 120 true
    let r3 := r2.1.request 278 true
    (r1.2, r2.2, r3.2) = (some 0, some 0, some 1) := by decide +kernel

end SSVerif.Lattice
