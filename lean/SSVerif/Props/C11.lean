import SSVerif.Model.Lattice
/-! # C11 (work in progress) -/
namespace SSVerif.Lattice
open SSVerif.Nfa

/-- the checker decides the predicate -/
theorem C11_latticeOKB_iff (G : Nfa) (L : Lat) : latticeOKB G L = true ↔ LatticeOK G L := by
  unfold latticeOKB clauseResults
  simp only [List.all_cons, List.all_nil, Bool.and_true, Bool.and_eq_true, decide_eq_true_eq]
  constructor
  · rintro ⟨h1, h2, h3, h4, h5, h6, h7, h8, h9⟩
    exact ⟨h1, h2, h3, h4, h5, h6, h7, h8, h9⟩
  · rintro ⟨h1, h2, h3, h4, h5, h6, h7, h8, h9⟩
    exact ⟨h1, h2, h3, h4, h5, h6, h7, h8, h9⟩

end SSVerif.Lattice
