import SSVerif.Proofs.ProtocolBorrow
import SSVerif.Proofs.ProtocolApiTotal
/-!
# C09 at the level of the exported API — totality of the quantifier over the functions that exist, borrowed pointers,
owned strings, created decoders (model `Model/ProtocolApi.lean`)

The property quantifies over "every finite interleaving of decoder_*, seg_iter_*, hyp_iter_*, alignment_*, lattice_* and
config_* calls".  `Generated/ApiSurface.lean` is regenerated from the current public headers on every run; the theorems
of the first section say that the model's operations and that list cover each other.
-/
namespace SSVerif.Protocol
open SSVerif.Generated.ApiSurface

/-! ## the model's operations cover the exported API -/

/-- handle types the protocol model tracks (plus the plain-data structs `anytype_t`, `config_param_t`,
`alignment_entry_t`, `config_val_t` that some accessors take or return) -/
def modelTypes : List String :=
  ["decoder_t", "config_t", "lattice_t", "alignment_t", "seg_iter_t", "hyp_iter_t", "alignment_iter_t", "latnode_iter_t",
   "latlink_iter_t", "latnode_t", "latlink_t", "mllr_t", "fsg_model_t", "dict2pid_t", "logmath_t", "fe_t", "feat_t",
   "anytype_t", "config_param_t", "alignment_entry_t", "config_val_t"]

def pkindOk : PKind → Bool
  | .obj t => modelTypes.contains t
  | .objOut t => modelTypes.contains t
  | .fnptr => false
  | _ => true

/-- **C09, the quantifier is total over the API that exists.**  Every function the current public headers export
under the prefixes of the property (the generated enumeration `ApiName`, complete by the first clause) is either
(a) executed by an operation of the protocol model — `executes k` names it for some kind `k` of call, and then it is
not in the exclusion list — or (b) in the explicit exclusion list `excluded` with its reason, and then no operation
claims it.  A function that is added to, renamed in or removed from the headers changes the generated enumeration:
`executes` / `excluded` (total matches) stop compiling or this statement becomes false. -/
theorem C09_api_total :
    (∀ f : ApiName, f ∈ ApiName.all) ∧
    (∀ f ∈ ApiName.all, (covered f = true ∧ excluded f = none) ∨ (covered f = false ∧ (excluded f).isSome = true)) := by
  constructor
  · intro f; cases f <;> decide
  · decide +kernel

/-- **C09, converse.**  Every kind of call of the model is in the list `OpKind.all`; every function an operation claims
to execute is an exported function of the current headers (by typing) that is not excluded; and every kind that
stands for a library call at all names at least one — the kinds that do not (`touch`: a decoder call without effect
on the protocol state, kept for the base theorems; `subUse` / `subFree` / `mllrRead` / `mllrFree`: calls on
`logmath_t` / `fe_t` / `feat_t` / `mllr_t` objects whose functions are outside the prefixes of the property;
`borrowUse` / `strUse` / `strFree`: reading and releasing memory the API handed out) are listed. -/
theorem C09_api_ops_exist :
    (∀ k : OpKind, k ∈ OpKind.all) ∧
    (∀ k ∈ OpKind.all, ∀ f ∈ executes k, excluded f = none) ∧
    (∀ k ∈ OpKind.all, executes k = [] →
      k ∈ [OpKind.touch, .subUse, .subFree, .mllrRead, .mllrFree, .borrowUse, .strUse, .strFree]) := by
  refine ⟨?_, ?_, ?_⟩
  · intro k; cases k <;> decide
  · decide +kernel
  · decide +kernel

/-- **C09, signatures.**  Every function executed by the model takes and returns only handles of types the model
tracks, strings, scalars and scalar buffers — no function pointer, no `FILE *`, no object of a type the histories
cannot produce; in particular each is callable with "valid object pointers" in the sense of the property. -/
theorem C09_api_signatures :
    ∀ f ∈ ApiName.all, covered f = true → pkindOk (sig f).ret = true ∧ (sig f).params.all pkindOk = true := by
  decide +kernel

/-- the (a) / (b) split of the current headers -/
example : (ApiName.all.filter covered).length = 114 ∧ (ApiName.all.filter fun f => (excluded f).isSome).length = 14
    ∧ ApiName.all.length = 128 := by decide +kernel

/-! ## the widened operation set: well-formedness, ledger, error calls -/

/-- every API-level history (base calls on two decoders and held objects, `decoder_create`, borrowed and owned strings,
the remaining `config_*` / `alignment_*` calls) keeps both decoder automata well-formed, so every single-decoder
theorem of `Props/C09.lean` applies to each instance along it -/
theorem C09_api_reachable_wf (cs : List XCall) : SysWF (xRun x0 cs).sys := by
  suffices h : ∀ (cs : List XCall) (x : XState), SysWF x.sys → SysWF (xRun x cs).sys from h cs x0 sysWF_sys0
  intro cs
  induction cs with
  | nil => intro x h; exact h
  | cons c cs ih => intro x h; exact ih _ (xStep_wf x c h)

/-- a well-formed, closed system state owns nothing -/
theorem closed_ledger_empty (s : Sys) (hw : SysWF s) (hc : SysClosed s) : sysLedger s = [] := by
  obtain ⟨ca, cb, h1, h2, h3⟩ := hc
  have closedEmpty : ∀ x : ApiState, WF x → Closed x → ledger x = [] := by
    intro x wx cx
    obtain ⟨h0, hi, hl, ha⟩ := cx
    obtain ⟨d1, d2, d3, d4, d5, d6⟩ := wx.dead h0
    have hdag := (wx.noSearch d1).1
    have hact : x.active = false := by
      cases hx : x.active
      · rfl
      · have := wx.activeIff.mp hx
        rw [d2] at this; cases this
    simp [ledger, h0, hi, hl, ha, d1, d3, d4, d5, d6, hdag, hact]
  simp [sysLedger, closedEmpty _ hw.1 ca, closedEmpty _ hw.2 cb, h1, h2, h3]

/-- **C09, ledger balance for the widened operation set.**  For every API-level history, once every decoder reference,
iterator, lattice / alignment / configuration / sub-object / transform reference and every string returned by
`decoder_lookup_word` has been released, the ledger of everything the API hands out is empty.  (Borrowed pointers —
`decoder_hyp`, `decoder_result_json`, `decoder_get_cmn`, `hyp_iter_hyp` — are not owned and need no release.) -/
theorem C09_api_ledger_balanced (cs : List XCall) (hc : XClosed (xRun x0 cs)) : xLedger (xRun x0 cs) = [] := by
  obtain ⟨h1, h2⟩ := hc
  simp [xLedger, closed_ledger_empty _ (C09_api_reachable_wf cs) h1, h2]

/-- **C09, releasing all live handles empties the ledger (`all_released_empty`).**  Take ANY API-level history `cs` —
legal calls, listed out-of-order calls, decoders only created, freed in the middle of an utterance, iterators
abandoned half-way, strings and references outliving their decoder.  Follow it by `releaseAll`: free every outstanding
iterator, every retained lattice and held alignment, every decoder reference, every held configuration, sub-object and
transform, every owned string (at most `held` calls, computed from the state).  Then every one of these releasing calls
is a call of the protocol (none is classified out-of-protocol: a live handle can always be released, also on a decoder
that was only created), the state is closed and the ledger is empty. -/
theorem C09_all_released_empty (cs : List XCall) :
    let x := xRun x0 cs
    XClosed (xRun x (releaseAll x)) ∧ xLedger (xRun x (releaseAll x)) = [] ∧
      ∀ r ∈ xRets x (releaseAll x), r ≠ .oop := by
  intro x
  obtain ⟨h1, h2⟩ := drain_closed (held x) x (Nat.le_refl _)
  change XClosed (xRun x (releaseAll x)) at h1
  change ∀ r ∈ xRets x (releaseAll x), r ≠ .oop at h2
  have hrun : ∀ (l : List XCall) (y : XState), SysWF y.sys → SysWF (xRun y l).sys := by
    intro l
    induction l with
    | nil => intro y h; exact h
    | cons c l ih => intro y h; exact ih _ (xStep_wf y c h)
  have hw : SysWF (xRun x (releaseAll x)).sys := hrun _ _ (C09_api_reachable_wf cs)
  refine ⟨h1, ?_, h2⟩
  obtain ⟨c1, c2⟩ := h1
  simp [xLedger, closed_ledger_empty _ hw c1, c2]

/-- **C09, a call classified out-of-protocol changes nothing.**  The correspondence run cuts a generated history before
a call the model classifies out-of-protocol and never counts such a call for or against the property; that is sound
only if the classification itself has no effect on the model: it has none — the whole API-level state (both decoder
automata, all tables, borrows, strings, flags) is the same afterwards, for every call in every state. -/
theorem C09_api_oop_changes_nothing (x : XState) (c : XCall) (h : (xStep x c).2 = .oop) : (xStep x c).1 = x :=
  xStep_oop x c h

/-- **C09, totality at the API level.**  Every API-level call in every state returns a value of its documented class
or is classified out-of-protocol: a decoder call returns exactly what the base automaton returns (hence a documented
class by `C09_step_total`), each of the sixteen new calls one of the classes `docClassX` lists for it —
`decoder_create` a decoder, `alignment_propagate` 0, `config_validate` 0 or −1, `config_expand` / `config_log_*` nothing,
the pointer-keeping queries and `config_parse_json(NULL, …)` / `config_set` a pointer or NULL, reads and releases nothing.
(Total by construction of the model; the content lies in WHICH class is returned when: `C09_predicted_returns`,
`C09_error_is_noop`, `C09_out_of_order_is_noop`.) -/
theorem C09_api_step_total (x : XState) (c : XCall) :
    (xStep x c).2 = .oop ∨
    (match c with
     | .base (.dec i dc) _ => (xStep x c).2 = (step (x.sys.inst i) dc).2 ∧ isDoc dc (xStep x c).2
     | .base _ _ => True
     | c => (xStep x c).2 ∈ docClassX c) := by
  cases c with
  | base sc cons =>
    cases sc with
    | dec i dc =>
      rcases xStep_dec_ret x i dc cons with h | h
      · exact .inl h
      · rcases C09_step_total (x.sys.inst i) dc with hd | ⟨ho, _⟩
        · right; exact ⟨h, by rw [h]; exact hd⟩
        · left; rw [h]; exact ho
    | _ => right; trivial
  | _ =>
    refine Or.symm (xStep_doc x _ ?_)
    intro sc cons h
    cases h

/-- **C09, error calls change nothing (`error_is_noop`).**  A listed out-of-order call on an initialised decoder —
audio before start or after end, start twice, end without start, a query (also one whose result pointer would be kept)
with no search selected — returns its documented error value and leaves the WHOLE API-level state as it was: protocol
state of both decoders, every table of handles, the borrowed pointers (nothing they point to is freed: the call is
rejected at entry) and the owned strings. -/
theorem C09_error_is_noop (x : XState) (c : XCall) (h : outOfOrderX x c) : xStep x c = (x, errorValueX c) :=
  error_is_noop x c h

/-- **C09, no released object behind a pointer the model calls readable, one call.**  `BorrowsLive x`: every borrowed
pointer in the table (a `decoder_hyp` / `decoder_result_json` / `decoder_get_cmn` / `hyp_iter_hyp` string the model still
lets the history read) points into an object the ledger holds — the decoder's search, its JSON buffer, the decoder
itself, the hypothesis iterator.  EVERY API-level call, in every state and for every outcome, preserves it: the borrows
it does not drop (`survive`, i.e. the white lists `keepsHyp` / `keepsJson` / `keepsCmn`) still point into existing
objects afterwards — no call outside `decoder_free` / `decoder_reinit` / `decoder_init` (and `decoder_start_utt` for the
JSON buffer) releases them (`step_keeps`, by cases over all calls) — and a pointer newly put into the table points
into an object that exists (a hypothesis string only with a search, a JSON string only when the call returned one, …). -/
theorem C09_borrows_live_step (x : XState) (c : XCall) (h : BorrowsLive x) : BorrowsLive (xStep x c).1 :=
  xStep_live x c h

/-- **C09, no use of a released handle is classified as legal (borrowed pointers; iterators: `C09_used_iterators_are_live`).**
Along every API-level history, every borrowed pointer the model still lets the history read points into an object the
ledger holds; in particular a read (`borrowUse k`) that the model does not classify out-of-protocol finds slot `k` in
the table with a live source object.  What this does NOT say: that the white lists are right about the *buffers* (a
buffer may be reallocated while its owner lives — `search->hyp_str` by the next `decoder_hyp`); the protocol state has
no component for that, the lists are conservative by construction and are tested: the harness really reads every borrow
the model calls readable, under ASan. -/
theorem C09_borrows_live (cs : List XCall) : BorrowsLive (xRun x0 cs) := by
  suffices h : ∀ (cs : List XCall) (x : XState), BorrowsLive x → BorrowsLive (xRun x cs) from
    h cs x0 (by intro p hp; cases hp)
  intro cs
  induction cs with
  | nil => intro x h; exact h
  | cons c cs ih => intro x h; exact ih _ (xStep_live x c h)

/-- **C09, two decoders: borrowed strings are isolated.**  A call made on decoder `i` (any base-level call, any outcome)
drops no hypothesis / JSON / CMN string borrowed from the OTHER decoder from the table of readable pointers: what one
decoder hands out stays readable whatever is done to the other (the harness reads them across the other decoder's
`decoder_free`, `decoder_reinit`, utterances). -/
theorem C09_borrows_isolated (x : XState) (sc : SysCall) (cons : Bool) (i : Inst) (p : Nat × BSrc)
    (hi : instOf sc = some i) (hj : p.2.inst ≠ i) (hn : ∀ j id, p.2 ≠ .iterStr j id) (hp : p ∈ x.borrows) :
    p ∈ (baseStep x sc cons).1.borrows := other_instance_borrows_survive x sc cons i p hi hj hn hp

/-- reading a borrow is a call of the protocol exactly when it is in the table -/
theorem C09_borrow_read_legal_iff (x : XState) (k : Nat) :
    (xStep x (.borrowUse k)).2 ≠ .oop ↔ ∃ b, (k, b) ∈ x.borrows := by
  simp only [xStep, blocked, instOfX, xCore]
  constructor
  · intro h
    by_cases hk : x.borrows.any (·.1 == k) = true
    · obtain ⟨p, hp, he⟩ := List.any_eq_true.mp hk
      exact ⟨p.2, by have : p.1 = k := by simpa using he
                     rw [← this]; exact hp⟩
    · simp [hk] at h
  · rintro ⟨b, hb⟩
    have : x.borrows.any (·.1 == k) = true := List.any_eq_true.mpr ⟨(k, b), hb, by simp⟩
    simp [this]

/-- a legal read along any history reads a pointer whose source object is alive -/
theorem C09_read_borrows_are_live (cs : List XCall) (k : Nat) (h : (xStep (xRun x0 cs) (.borrowUse k)).2 ≠ .oop) :
    ∃ b, (k, b) ∈ (xRun x0 cs).borrows ∧ liveB (xRun x0 cs).sys b := by
  obtain ⟨b, hb⟩ := (C09_borrow_read_legal_iff _ k).mp h
  exact ⟨b, hb, C09_borrows_live cs (k, b) hb⟩

/-- **C09, `ACMOD_STARTED` and `ACMOD_PROCESSING` cannot be told apart through the API.**  The API-level model keeps
the two states of an utterance in progress apart (`phase`; the harness shows which one the acoustic model is in after
every call, and the model must agree).  Two API-level states that differ in nothing but these flags return the same
value for every call along every history and stay equal up to the flags: no public call's return class, no table of
handles, no borrowed pointer and no ledger entry depends on the distinction — which is what justifies the base
automaton's merged state `inUtt` (Model/Protocol.lean `Utt`), where no entry check of decoder.c tells them apart. -/
theorem C09_started_processing_unobservable (x y : XState) (h : PhaseEq x y) (cs : List XCall) :
    xRets x cs = xRets y cs ∧ PhaseEq (xRun x cs) (xRun y cs) := by
  induction cs generalizing x y with
  | nil => exact ⟨rfl, h⟩
  | cons c cs ih =>
    obtain ⟨h1, h2⟩ := xStep_phase h c
    obtain ⟨i1, i2⟩ := ih _ _ h2
    exact ⟨by simp [xRets, h1, i1], by simpa [xRun] using i2⟩

/-! ## what the model predicts (not echoes) -/

/-- **C09, returns the protocol state determines.**  The data-dependent part of an outcome is a parameter of the call
(fed from the implementation in the correspondence run); in the following states the model does NOT use it — it
predicts the return class from its own state, for every value of the flags, and the per-call diff against the real
library checks the prediction: with a live decoder, every result query (`decoder_hyp`, `decoder_seg_iter`,
`decoder_lattice`, `decoder_nbest`, `lattice_retain(decoder_lattice)`) returns NULL while the search has never been
started (`search ≠ used`: no search selected, or a grammar loaded / re-initialised and not started since);
`decoder_lattice` returns the existing lattice while it covers the current frame count; `decoder_alignment` returns NULL
without a started search unless a reusable aligner exists; `decoder_prob` returns −1 exactly without a search; the
listed out-of-order calls return their error value (`C09_out_of_order_is_noop`). -/
theorem C09_predicted_returns (s : ApiState) (h0 : s.refs ≠ 0) :
    (s.search ≠ .used → ∀ e, (step s (.hyp e)).2 = .null) ∧
    (s.search ≠ .used → ∀ id e, findIter s.iters id = none → (step s (.seg id e)).2 = .null) ∧
    (s.search ≠ .used → s.dag = false → ∀ e, (step s (.lattice e)).2 = .null) ∧
    (s.search ≠ .used → s.dag = false → ∀ id e e', findIter s.iters id = none → (step s (.nbest id e e')).2 = .null) ∧
    (s.search ≠ .none → s.dag = true → s.dagFresh = true → ∀ e, (step s (.lattice e)).2 = .ptr) ∧
    (s.search ≠ .used → (s.align && s.alFresh) = false → ∀ ru r a, (step s (.align ru r a)).2 = .null) ∧
    ((step s .prob).2 = .err ↔ s.search = .none) := by
  refine ⟨?_, ?_, ?_, ?_, ?_, ?_, ?_⟩
  · intro h e; simp [step, h0, ptrIf, h]
  · intro h id e hf; simp [step, h0, hf, h]
  · intro h hd e
    by_cases hs : s.search = .none <;> simp [step, h0, latticeStep, ptrIf, hs, hd, h]
  · intro h hd id e e' hf
    by_cases hs : s.search = .none <;> simp [step, h0, latticeStep, hf, hs, hd, h]
  · intro hs hd hf e; simp [step, h0, latticeStep, ptrIf, hs, hd, hf]
  · intro h ha ru r a
    have ha' : ¬ (s.align = true ∧ s.alFresh = true) := by
      intro ⟨h1, h2⟩; simp [h1, h2] at ha
    simp [step, h0, alignStep, ptrIf, h, ha']
  · by_cases hs : s.search = .none <;> simp [step, h0, hs]

/-- **C09, predicted, not echoed.**  Where the model has seen enough of the history (`Seen`), the correspondence run
steps the model's own prediction: the NULL / non-NULL outcome the implementation reports for `decoder_hyp` /
`decoder_seg_iter` is ignored (two reports give the same model call), a hypothesis string seen implies the prediction
"segmentation exists", no segmentation implies "no hypothesis string", and the frame counter after an audio block is the
known counter plus the count the block returned whatever the implementation shows (`fed`), 1 after
`decoder_start_utt`, unchanged by a pure query.  (The per-call diff then compares prediction and implementation.) -/
theorem C09_predicted_not_echoed (m : Seen) (i : Inst) (cons : Bool) :
    (m.hyp.isSome = true → ∀ e e', m.predict .echo .echo (.base (.dec i (.hyp e)) cons) = m.predict .echo .echo (.base (.dec i (.hyp e')) cons)) ∧
    (m.seg.isSome = true → ∀ id e e', m.predict .echo .echo (.base (.dec i (.seg id e)) cons) = m.predict .echo .echo (.base (.dec i (.seg id e')) cons)) ∧
    (∀ e nret fed, (m.update (.base (.dec i (.hyp e)) cons) .ptr false nret fed).seg = some true) ∧
    (∀ id e nret fed, (m.update (.base (.dec i (.seg id e)) cons) .null false nret fed).hyp = some false) ∧
    (∀ f, m.frames = some f → ∀ full adv nret fed,
        (m.update (.base (.dec i (.proc full adv)) cons) .count false nret fed).frames = some (f + nret)) ∧
    (∀ nret fed, (m.update (.base (.dec i .start) cons) .ok false nret fed).frames = some 1) ∧
    (∀ f, m.frames = some f → ∀ nret fed, (m.update (.base (.dec i .nframes) cons) .count false nret fed).frames = some f) := by
  refine ⟨?_, ?_, ?_, ?_, ?_, ?_, ?_⟩
  · intro h e e'
    cases hh : m.hyp <;> simp_all [Seen.predict]
  · intro h id e e'
    cases hh : m.seg <;> simp_all [Seen.predict]
  · intro e nret fed; simp [Seen.update]
  · intro id e nret fed; simp [Seen.update]
  · intro f hf full adv nret fed; simp [Seen.update, hf]
  · intro nret fed; simp [Seen.update]
  · intro f hf nret fed; simp [Seen.update, hf, pureQuery, XCall.kind, SysCall.kind, Call.kind]

/-- **C09, dictionary outcomes are predicted.**  Whether `decoder_add_word` accepts and `decoder_lookup_word` finds a word
is computed by the model from the history (the words accepted since the dictionary was last loaded), not taken from the
implementation: once a fresh spelling was accepted, adding it again is predicted to be refused and looking it up to
succeed; an alternative pronunciation `w(2)` is predicted to be accepted exactly when `w` was added and `w(2)` was not;
invalid phones, a word every dictionary has, an empty word and an alternative of a missing base are predicted to be
refused; loading the dictionary anew (`decoder_reinit`) forgets the added words. -/
theorem C09_dictionary_predicted (m : Seen) (id : String) (i : Inst) (u c : Bool) (nret fed : Nat) :
    let m' := m.update (.base (.dec i (.addWord u true)) c) .count false nret fed (.fresh id)
    m'.addPred (.fresh id) .valid = some false ∧ m'.lookupPred (.fresh id) = some true ∧
    m'.addPred (.altOf id (id ++ "(2)")) .valid = some (!m.added.contains (id ++ "(2)")) ∧
    (∀ w, m.addPred w .invalid = some false) ∧ (∀ p, m.addPred .present p = some false) ∧
    (∀ p, m.addPred .absent p = some false) ∧
    (m'.update (.base (.reinitKeep i) c) .ok false nret fed).added = [] := by
  refine ⟨?_, ?_, ?_, ?_, ?_, ?_, ?_⟩
  · simp [Seen.update, Seen.addPred, WordInfo.id]
  · simp [Seen.update, Seen.lookupPred, WordInfo.id]
  · have : id ++ "(2)" ≠ id := by
      intro h
      have := congrArg String.length h
      simp [String.length_append] at this
    simp [Seen.update, Seen.addPred, WordInfo.id, this]
  · intro w; cases w <;> simp [Seen.addPred]
  · intro p; cases p <;> simp [Seen.addPred]
  · intro p; cases p <;> simp [Seen.addPred]
  · simp [Seen.update, pureQuery, reloadsDict, XCall.kind, SysCall.kind]

/-! ## non-vacuity -/

/-- a history over the widened operation set: a decoder that is only created, initialised later, a hypothesis string
read while audio is processed, a JSON string read after the utterance ended, an owned string that outlives the
decoder -/
def exApi : List XCall :=
  [.createNew .a true .good, .cfgValidate (.dec .a) true, .base (.dec .a .start) false,
   .base (.reinitKeep .a) false, .base (.dec .a .start) false, .base (.dec .a (.proc false true)) true,
   .hypHold .a 0 true, .base (.dec .a (.proc false true)) true, .borrowUse 0, .jsonHold .a 1 0 false false false,
   .base (.dec .a (.endUtt true)) false, .borrowUse 1, .lookupHold .a 0 true, .base (.dec .a (.nbest 100 true true)) false,
   .iterHold .a 100 2 true, .base (.dec .a .free) false, .borrowUse 2, .borrowUse 1, .strUse 0]

example : xRets x0 exApi = [.ptr, .ok, .oop, .ok, .ok, .count, .ptr, .count, .void, .ptr, .ok, .void, .ptr, .ptr, .ptr,
      .rc 0, .void, .oop, .void] ∧
    releaseAll (xRun x0 exApi) = [.base (.dec .a (.hypFree 100)) false, .strFree 0] ∧
    XClosed (xRun (xRun x0 exApi) (releaseAll (xRun x0 exApi))) := by decide

/-- the hypotheses of `C09_error_is_noop` are met by reachable states: start twice, audio after end, a kept query
without a search -/
example : outOfOrderX (xRun x0 (exApi.take 5)) (.base (.dec .a .start) false) ∧
    outOfOrderX (xRun x0 (exApi.take 11)) (.base (.dec .a (.proc false true)) true) ∧
    outOfOrderX (xRun x0 [.base (.initNew .a true .none false) false]) (.hypHold .a 0 true) := by decide

/-- the acoustic-model phase: STARTED after start, PROCESSING once a streaming block consumed a frame, a full-utterance
block leaves it STARTED -/
example : (xRun x0 (exApi.take 5)).prA = false ∧ (xRun x0 (exApi.take 6)).prA = true ∧
    (xRun x0 [.base (.initNew .a true .good false) false, .base (.dec .a .start) false,
              .base (.dec .a (.proc true true)) false]).prA = false := by decide

/-- two decoders: a hypothesis string borrowed from decoder a stays readable across an utterance, a re-initialisation and
the release of decoder b (hypotheses of `C09_borrows_isolated`), and is dropped by decoder a's own `decoder_result_json` -/
def exTwoBorrow : List XCall :=
  [.base (.initNew .a true .good false) false, .base (.initNew .b false .good false) false, .base (.dec .a .start) false,
   .base (.dec .a (.proc false true)) true, .hypHold .a 0 true, .base (.dec .b .start) false,
   .base (.dec .b (.proc true true)) false, .base (.dec .b (.endUtt false)) false, .base (.reinitKeep .b) false,
   .base (.dec .b .free) false, .borrowUse 0, .base (.dec .a (.json 0 false false false)) false, .borrowUse 0]

example : xRets x0 exTwoBorrow = [.ptr, .ptr, .ok, .count, .ptr, .ok, .count, .ok, .ok, .rc 0, .void, .ptr, .oop] ∧
    (0, BSrc.hypStr .a) ∈ (xRun x0 (exTwoBorrow.take 10)).borrows := by decide

/-- states that differ only in the phase flag exist among the reachable ones (hypothesis of
`C09_started_processing_unobservable`): after a streaming block the model is in PROCESSING; erasing the flag gives a
different state with the same future -/
example : PhaseEq (xRun x0 (exApi.take 6)) ((xRun x0 (exApi.take 6)).setProc .a false) ∧
    xRun x0 (exApi.take 6) ≠ (xRun x0 (exApi.take 6)).setProc .a false := by
  refine ⟨phaseEq_setProcR ⟨rfl, rfl, rfl, rfl, rfl, rfl, rfl⟩ _ _, by decide⟩

end SSVerif.Protocol
