import SSVerif.Props.C03Frames
import SSVerif.Model.DecRet
/-!
# C03, frame accounting — the values the processing calls *return*

`Props/C03Frames.lean` reads "the return value of a call" off the search log (`ret` is *defined* as the growth of
`searched.length`, so `returns_sum` telescopes whatever the code does).  Here the return value is what the model of
the C counters computes (`Model/DecRet.lean`: `nfr` of `search_module_forward`, the accumulator `n_searchfr` of
`decoder_process_int16/float32`, `d->n_frame`), and the statements have content:

* `C03_forward_returns_steps` — from the loop of `search_module_forward` alone (no invariant): the state is M5's
  `searchForward`, the counter equals the number of entries the loop appended to the search log, and the return
  value is that counter unless a step failed (then `-1` and the state carries a fault);
* `C03_process_returns_n_frame_growth`, `C03_process_full_returns_n_frame_growth`, `C03_returns_sum_is_n_frame_growth`
  — from the accumulators alone, for EVERY state, length and CMN state (no invariant, no bound): the value a processing
  call returns is the number of search steps it made (growth of `d->n_frame`) or `-1`, and over any call sequence
  without an error return Σ values returned = growth of `d->n_frame`;
* `C03_process_returns_frames_searched` / `C03_process_full_returns_frames_searched` / `C03_end_utt_frames_searched`
  — per call, on every well-formed open utterance: the state is M5's, the value returned is `≥ 0` and is exactly the
  number of frames this call searched (the accumulation over the passes of the `while (n_samples)` loop);
  `decoder_end_utt` returns 0 and advances `d->n_frame` by the frames it searched;
* `C03_returns_add_up_partial` (streaming) and `C03_returns_add_up_full` (batch) — over a whole utterance: Σ of the
  values returned + the frames searched inside `decoder_end_utt` = growth of `d->n_frame` = `M` = the frames the
  front end delivered, `decoder_n_frames = M + offset`; `C03_returns_equal_frameCount_partial` composes with c06:
  `M = frameCount size shift N` for the `N` samples supplied, whatever the chunking.

**Bound (why `_partial`).**  The streaming theorems inherit from C07's invariants the hypothesis
`s0.cmnFrames + (frames of the utterance) ≤ cmnWinHwm` (`cmnWinHwm` = 800 in the pinned tree: `CMN_WIN_HWM`): C07's
invariant carries the *contents* of the cepstrum windows ("no frame was normalised with a moved mean"), and the live
CMN window shifts once more than `cmnWinHwm` frames have been accumulated.  The counters do not depend on that (the
shift touches `cmn->nframe` and the mean only), but the count part of the invariant has not been separated from the
content part, so for longer utterances (more than 8 s, less when earlier utterances left frames in the CMN window) there
is no theorem; the C07 correspondence run (every counter and every return value compared with the implementation, call
by call) keeps its utterances inside the bound as well (it obliges `cmn->nframe ≤ CMN_WIN_HWM` on every reference
record, which is where `hcmn` is evaluated on the real decoder), so beyond the bound only the implementation-side sums
of the C03 check (`tools/props/c01.py`: Σ real return values + frames searched in `decoder_end_utt` = front-end frames,
on schedules of any length) speak.  The batch theorem with batch CMN (`cmnBatch`, the default `cmn = batch`) has no
such bound.

Hypotheses and where they come from: `Open` / `BInv` are proved (`startUtt_open` from `WF0`, preserved by every call:
C07); `hcmn` see above; `hfe` (`fe_end` yields a frame iff audio was fed) and `r.more = false` are read off the
front-end calls the harness logs and checked per utterance in `tools/props/c07.py`; `hw` is `C07_consts_ok`
(regenerated constants).
-/
namespace SSVerif.C03Ret
open SSVerif.AcmodBuf SSVerif.DecRet SSVerif.Generated SSVerif.C03Frames

/-! ### `search_module_forward`: from the loop alone -/

theorem fail_fault (msg : String) (s : St) : (fail msg s).fault ≠ none := by
  unfold fail; cases s.fault <;> simp

theorem advance_nFeat (s : St) (h : 0 < s.nFeatFrame) : (advance s).nFeatFrame = s.nFeatFrame - 1 := by
  unfold advance; rw [if_neg (by omega)]

theorem fwdLoop_st : ∀ (n : Nat) (s : St) (c : Nat), s.nFeatFrame = n → (fwdLoop n s c).st = searchN n s := by
  intro n
  induction n with
  | zero => intro s c _; rfl
  | succ n ih =>
    intro s c h
    have hp : s.nFeatFrame > 0 := by omega
    rw [fwdLoop, searchN, if_pos hp]
    cases hsr : scoreRead s with
    | none => rfl
    | some e =>
      simp only []
      apply ih
      have := advance_nFeat { s with searched := s.searched ++ [e] } hp
      rw [this]; show s.nFeatFrame - 1 = n; omega

theorem fwdLoop_cnt : ∀ (n : Nat) (s : St) (c : Nat),
    (fwdLoop n s c).cnt + s.searched.length = c + (fwdLoop n s c).st.searched.length ∧ c ≤ (fwdLoop n s c).cnt ∧
    ((fwdLoop n s c).rv = ((fwdLoop n s c).cnt : Int) ∨ ((fwdLoop n s c).rv = -1 ∧ (fwdLoop n s c).st.fault ≠ none)) := by
  intro n
  induction n with
  | zero => intro s c; exact ⟨rfl, Nat.le_refl _, Or.inl rfl⟩
  | succ n ih =>
    intro s c
    rw [fwdLoop]
    split
    · split
      · rename_i e _
        obtain ⟨i1, i2, i3⟩ := ih (advance { s with searched := s.searched ++ [e] }) (c + 1)
        rw [advance_searched] at i1
        simp only [List.length_append, List.length_singleton] at i1
        exact ⟨by omega, by omega, i3⟩
      · exact ⟨rfl, Nat.le_refl _, Or.inr ⟨rfl, fail_fault _ _⟩⟩
    · exact ⟨rfl, Nat.le_refl _, Or.inl rfl⟩

/-- **`search_module_forward` returns the number of search steps it made** — read off the loop
(decoder.c:973-984), no invariant: the acoustic-model state is the one M5's `searchForward` computes; the counter
(`nfr`, and the increment of `d->n_frame`) is the number of entries appended to the search log; the value returned is
that counter, or `-1` with a fault raised when a step failed. -/
theorem C03_forward_returns_steps (s : St) :
    (searchForwardRv s).st = searchForward s ∧
    (searchForward s).searched.length = s.searched.length + (searchForwardRv s).cnt ∧
    ((searchForwardRv s).rv = ((searchForwardRv s).cnt : Int) ∨
      ((searchForwardRv s).rv = -1 ∧ (searchForward s).fault ≠ none)) := by
  have h1 : (searchForwardRv s).st = searchForward s := fwdLoop_st s.nFeatFrame s 0 rfl
  obtain ⟨c1, _, c3⟩ := fwdLoop_cnt s.nFeatFrame s 0
  refine ⟨h1, ?_, ?_⟩
  · rw [← h1]; unfold searchForwardRv; omega
  · rw [← h1]; exact c3

/-- when the search raises no fault: the return value is the count -/
theorem searchForwardRv_ok (s : St) (h : (searchForward s).fault = none) :
    (searchForwardRv s).st = searchForward s ∧
    (searchForward s).searched.length = s.searched.length + (searchForwardRv s).cnt ∧
    (searchForwardRv s).rv = ((searchForwardRv s).cnt : Int) := by
  obtain ⟨a, b, c⟩ := C03_forward_returns_steps s
  refine ⟨a, b, ?_⟩
  rcases c with c | ⟨_, c⟩
  · exact c
  · exact absurd h c

theorem Open.nofault {win} {s : St} (h : Open win s) : s.fault = none := by
  obtain ⟨c, hc, _⟩ := h.core
  exact hc.nofault

/-! ### the accumulators, for every state and every length (no invariant, no bound) -/

theorem decLoopRv_acc (fixD8 : Bool) (win : Nat) (skip : Nat → Bool) (ns : Bool) :
    ∀ (fuel : Nat) (s : St) (rs : List FeResp) (cnt : Nat) (acc : Int),
    cnt ≤ (decLoopRv fixD8 win skip ns fuel s rs cnt acc).cnt ∧
    ((decLoopRv fixD8 win skip ns fuel s rs cnt acc).rv + (cnt : Int) =
        acc + ((decLoopRv fixD8 win skip ns fuel s rs cnt acc).cnt : Int) ∨
      ((decLoopRv fixD8 win skip ns fuel s rs cnt acc).rv = -1 ∧
        (decLoopRv fixD8 win skip ns fuel s rs cnt acc).st.fault ≠ none)) := by
  intro fuel
  induction fuel with
  | zero => intro s rs cnt acc; exact ⟨Nat.le_refl _, Or.inl rfl⟩
  | succ fuel ih =>
    intro s rs cnt acc
    cases ns with
    | true =>
      simp only [decLoopRv, if_true]
      split
      · exact ih _ _ cnt acc
      · exact ⟨Nat.le_refl _, Or.inl rfl⟩
    | false =>
      obtain ⟨f1, _, f3⟩ := C03_forward_returns_steps (processRaw fixD8 win skip s rs).st
      simp only [decLoopRv, Bool.false_eq_true, if_false]
      split
      · rename_i hneg
        refine ⟨Nat.le_add_right _ _, Or.inr ?_⟩
        rcases f3 with f3 | ⟨f3, f4⟩
        · rw [f3] at hneg; omega
        · exact ⟨f3, by rw [f1]; exact f4⟩
      · rename_i hnn
        have hrv : (searchForwardRv (processRaw fixD8 win skip s rs).st).rv =
            ((searchForwardRv (processRaw fixD8 win skip s rs).st).cnt : Int) := by
          rcases f3 with f3 | ⟨f3, _⟩
          · exact f3
          · rw [f3] at hnn; omega
        split
        · obtain ⟨i1, i2⟩ := ih (searchForwardRv (processRaw fixD8 win skip s rs).st).st (processRaw fixD8 win skip s rs).rest
            (cnt + (searchForwardRv (processRaw fixD8 win skip s rs).st).cnt)
            (acc + (searchForwardRv (processRaw fixD8 win skip s rs).st).rv)
          refine ⟨by omega, ?_⟩
          rcases i2 with i2 | i2
          · left; push_cast at i2; omega
          · exact Or.inr i2
        · exact ⟨Nat.le_add_right _ _, Or.inl (by simp only []; rw [hrv]; push_cast; omega)⟩

/-- **the value a streaming `decoder_process_*` call returns is the number of search steps it made** (the growth of
`d->n_frame`) — for EVERY decoder state, every front-end response pattern, every length and every CMN state (no
invariant, no bound; both settings of the D8 repair): read off the loops alone, the accumulator `n_searchfr` sums the
counts of all passes.  The only other outcome is `-1`: no utterance open, or a search step failed (a fault of M5). -/
theorem C03_process_returns_n_frame_growth (fixD8 : Bool) (win : Nat) (skip : Nat → Bool) (s : St) (ns : Bool)
    (rs : List FeResp) :
    (decProcessRv fixD8 win skip s ns rs).rv = ((decProcessRv fixD8 win skip s ns rs).cnt : Int) ∨
    ((decProcessRv fixD8 win skip s ns rs).rv = -1 ∧
      (s.state = .idle ∨ (decProcessRv fixD8 win skip s ns rs).st.fault ≠ none)) := by
  unfold decProcessRv
  split
  · rename_i hi; exact Or.inr ⟨rfl, Or.inl hi⟩
  · simp only []
    split
    · exact Or.inl rfl
    · obtain ⟨_, h⟩ := decLoopRv_acc fixD8 win skip ns (rs.length + 1) (if ns then setGrow s true else s) rs 0 0
      rcases h with h | ⟨h1, h2⟩
      · left; push_cast at h; omega
      · exact Or.inr ⟨h1, Or.inr h2⟩

theorem decFullRv_acc (win : Nat) (skip : Nat → Bool) (ns : Bool) :
    ∀ (rs : List FullResp) (s : St) (cnt : Nat) (acc : Int),
    cnt ≤ (decFullRv win skip ns s rs cnt acc).cnt ∧
    ((decFullRv win skip ns s rs cnt acc).rv + (cnt : Int) = acc + ((decFullRv win skip ns s rs cnt acc).cnt : Int) ∨
      ((decFullRv win skip ns s rs cnt acc).rv = -1 ∧ (decFullRv win skip ns s rs cnt acc).st.fault ≠ none)) := by
  intro rs
  induction rs with
  | nil => intro s cnt acc; exact ⟨Nat.le_refl _, Or.inl rfl⟩
  | cons r rs ih =>
    intro s cnt acc
    cases ns with
    | true =>
      simp only [decFullRv, if_true]
      split
      · exact ih _ cnt acc
      · exact ⟨Nat.le_refl _, Or.inl rfl⟩
    | false =>
      obtain ⟨f1, _, f3⟩ := C03_forward_returns_steps (fullRaw win skip s r)
      simp only [decFullRv, Bool.false_eq_true, if_false]
      split
      · rename_i hneg
        refine ⟨Nat.le_add_right _ _, Or.inr ?_⟩
        rcases f3 with f3 | ⟨f3, f4⟩
        · rw [f3] at hneg; omega
        · exact ⟨f3, by rw [f1]; exact f4⟩
      · rename_i hnn
        have hrv : (searchForwardRv (fullRaw win skip s r)).rv = ((searchForwardRv (fullRaw win skip s r)).cnt : Int) := by
          rcases f3 with f3 | ⟨f3, _⟩
          · exact f3
          · rw [f3] at hnn; omega
        split
        · obtain ⟨i1, i2⟩ := ih (searchForwardRv (fullRaw win skip s r)).st
            (cnt + (searchForwardRv (fullRaw win skip s r)).cnt) (acc + (searchForwardRv (fullRaw win skip s r)).rv)
          refine ⟨by omega, ?_⟩
          rcases i2 with i2 | i2
          · left; push_cast at i2; omega
          · exact Or.inr i2
        · exact ⟨Nat.le_add_right _ _, Or.inl (by simp only []; rw [hrv]; push_cast; omega)⟩

/-- the same for the batch call (`full_utt = 1`, any number of passes) -/
theorem C03_process_full_returns_n_frame_growth (win : Nat) (skip : Nat → Bool) (s : St) (ns : Bool) (rs : List FullResp) :
    (decProcessFullRv win skip s ns rs).rv = ((decProcessFullRv win skip s ns rs).cnt : Int) ∨
    ((decProcessFullRv win skip s ns rs).rv = -1 ∧
      (s.state = .idle ∨ (decProcessFullRv win skip s ns rs).st.fault ≠ none)) := by
  unfold decProcessFullRv
  split
  · rename_i hi; exact Or.inr ⟨rfl, Or.inl hi⟩
  · simp only []
    obtain ⟨_, h⟩ := decFullRv_acc win skip ns rs (if ns then setGrow s true else s) 0 0
    rcases h with h | ⟨h1, h2⟩
    · left; push_cast at h; omega
    · exact Or.inr ⟨h1, Or.inr h2⟩

/-- one API call, any state: a value returned is the growth of `d->n_frame` or `-1`; a call that returns no frame
count leaves `d->n_frame` alone -/
theorem stepRv_rv (fixD8 : Bool) (win : Nat) (skip : Nat → Bool) (s : St) (op : Op) :
    match (stepRv fixD8 win skip s op).2.2 with
    | none => (stepRv fixD8 win skip s op).2.1 = 0
    | some rv => rv = ((stepRv fixD8 win skip s op).2.1 : Int) ∨ rv = -1 := by
  cases op with
  | process ns rs =>
    by_cases hst : s.state = .ended
    · simp only [stepRv, hst, if_true]; exact Or.inr trivial
    · simp only [stepRv, hst, if_false]
      rcases C03_process_returns_n_frame_growth fixD8 win skip s ns rs with h | ⟨h, _⟩
      · exact Or.inl h
      · exact Or.inr h
  | processFull ns rs =>
    by_cases hst : s.state = .ended
    · simp only [stepRv, hst, if_true]; exact Or.inr trivial
    · simp only [stepRv, hst, if_false]
      rcases C03_process_full_returns_n_frame_growth win skip s ns rs with h | ⟨h, _⟩
      · exact Or.inl h
      · exact Or.inr h
  | query => rfl
  | align steps => rfl

/-- **Σ of the values returned = growth of `d->n_frame`, for every call sequence on every decoder state** — any
utterance length, any CMN state, any interleaving of streaming and batch calls, queries and alignment passes, both
settings of the D8 repair; no invariant and no bound.  The one premise is that no call reported an error (every value
returned is `≥ 0`), which the checks evaluate on the implementation for every call.  (That the search steps counted
are all the frames the front end produced is the part that needs C07's invariants: `C03_returns_add_up_partial`.) -/
theorem C03_returns_sum_is_n_frame_growth (fixD8 : Bool) (win : Nat) (skip : Nat → Bool) : ∀ (ops : List Op) (s : St),
    (∀ x ∈ returnsRv fixD8 win skip s ops, 0 ≤ x) →
    (returnsRv fixD8 win skip s ops).sum = (countRv fixD8 win skip s ops : Int) := by
  intro ops
  induction ops with
  | nil => intro _ _; rfl
  | cons op ops ih =>
    intro s h
    have hs := stepRv_rv fixD8 win skip s op
    simp only [returnsRv, countRv] at h ⊢
    have i := ih (stepRv fixD8 win skip s op).1 (fun x hx => h x (List.mem_append_right _ hx))
    cases hrv : (stepRv fixD8 win skip s op).2.2 with
    | none =>
      rw [hrv] at hs
      simp only [] at hs
      simp only [List.nil_append, i, hs]; push_cast; omega
    | some rv =>
      rw [hrv] at hs h
      simp only [] at hs
      have h0 : 0 ≤ rv := h rv (List.mem_append_left _ (List.mem_singleton.2 rfl))
      rcases hs with hs | hs
      · simp only [List.sum_append, List.sum_cons, List.sum_nil, i, hs]; push_cast; omega
      · omega

/-! ### `decoder_process_int16/float32`, streaming -/

theorem decLoopRv_open (win : Nat) (skip : Nat → Bool) (ns : Bool) (hw : 3 * win + 1 ≤ livebuf) :
    ∀ (fuel : Nat) (s : St) (rs : List FeResp) (cnt : Nat) (acc : Int), Open win s →
    s.cmnFrames + offered rs ≤ cmnWinHwm → rs.length < fuel →
    (decLoopRv true win skip ns fuel s rs cnt acc).st = decLoop true win skip ns fuel s rs ∧
    (decLoopRv true win skip ns fuel s rs cnt acc).cnt + s.searched.length =
      cnt + (decLoop true win skip ns fuel s rs).searched.length ∧
    (decLoopRv true win skip ns fuel s rs cnt acc).rv + (cnt : Int) =
      acc + ((decLoopRv true win skip ns fuel s rs cnt acc).cnt : Int) := by
  intro fuel
  induction fuel with
  | zero => intro s rs _ _ _ _ hf; omega
  | succ fuel ih =>
    intro s rs cnt acc h hb hf
    obtain ⟨p1, p2, p3⟩ := processRaw_open win skip s rs h hb hw
    have p4 := processRaw_outFrame win skip s rs h hb hw
    have hkeep : (processRaw true win skip s rs).st.searched.length = s.searched.length := by
      rw [p1.searched_len, h.searched_len, p4]
    have hlen : (processRaw true win skip s rs).more = true → (processRaw true win skip s rs).rest.length < fuel := by
      intro hmore
      rcases p3 with h1 | ⟨_, h2⟩
      · omega
      · rw [h2] at hmore; exact absurd hmore (by decide)
    cases ns with
    | true =>
      simp only [decLoopRv, decLoop, if_true]
      by_cases hmore : (processRaw true win skip s rs).more = true
      · rw [if_pos hmore, if_pos hmore]
        obtain ⟨i1, i2, i3⟩ := ih _ (processRaw true win skip s rs).rest cnt acc p1 (by omega) (hlen hmore)
        exact ⟨i1, by omega, i3⟩
      · rw [if_neg hmore, if_neg hmore]
        exact ⟨rfl, by simp only []; omega, by first | omega | simp⟩
    | false =>
      obtain ⟨o1, o2⟩ := search_open win _ p1
      obtain ⟨f1, f2, f3⟩ := searchForwardRv_ok (processRaw true win skip s rs).st (Open.nofault o1)
      have hnn : ¬ (searchForwardRv (processRaw true win skip s rs).st).rv < 0 := by rw [f3]; omega
      simp only [decLoopRv, decLoop, Bool.false_eq_true, if_false]
      rw [if_neg hnn]
      by_cases hmore : (processRaw true win skip s rs).more = true
      · rw [if_pos hmore, if_pos hmore, f1]
        obtain ⟨i1, i2, i3⟩ := ih _ (processRaw true win skip s rs).rest
          (cnt + (searchForwardRv (processRaw true win skip s rs).st).cnt)
          (acc + (searchForwardRv (processRaw true win skip s rs).st).rv) o1 (by rw [o2]; omega) (hlen hmore)
        refine ⟨i1, by omega, ?_⟩
        rw [f3] at i3 ⊢
        push_cast at i3
        omega
      · rw [if_neg hmore, if_neg hmore]
        refine ⟨f1, by simp only []; omega, ?_⟩
        simp only []
        rw [f3]; push_cast; omega

theorem setGrow_searched (s : St) (g : Bool) : (setGrow s g).searched = s.searched := by
  unfold setGrow; simp only []; split <;> rfl

/-- **`decoder_process_int16/float32` (streaming) returns the number of frames it searched.**  On every open
utterance (`Open`: the invariant C07 proves between API calls), for every front-end response pattern of the call and
with or without `no_search`: the model of the C counters ends in the state M5's `decProcess` computes, the value
returned is `n_searchfr` accumulated over all passes of the `while (n_samples)` loop, it equals the growth of
`d->n_frame`, and both are exactly the number of frames this call handed to the search (growth of the search log). -/
theorem C03_process_returns_frames_searched (win : Nat) (skip : Nat → Bool) (s : St) (ns : Bool) (rs : List FeResp)
    (h : Open win s) (hb : s.cmnFrames + offered rs ≤ cmnWinHwm) (hw : 3 * win + 1 ≤ livebuf) :
    (decProcessRv true win skip s ns rs).st = decProcess true win skip s ns rs ∧
    (decProcess true win skip s ns rs).searched.length = s.searched.length + (decProcessRv true win skip s ns rs).cnt ∧
    (decProcessRv true win skip s ns rs).rv = ((decProcessRv true win skip s ns rs).cnt : Int) := by
  have hst : ¬ s.state = .idle := by
    rcases h.state with e | e <;> rw [e] <;> decide
  have hg : Open win (if ns then setGrow s true else s) ∧ (if ns then setGrow s true else s).cmnFrames = s.cmnFrames ∧
      (if ns then setGrow s true else s).searched = s.searched := by
    cases ns with
    | true => exact ⟨(setGrow_open h).1, (setGrow_open h).2, setGrow_searched s true⟩
    | false => exact ⟨h, rfl, rfl⟩
  unfold decProcessRv decProcess
  rw [if_neg hst, if_neg hst]
  simp only []
  by_cases he : rs.isEmpty = true
  · rw [if_pos he, if_pos he]
    exact ⟨rfl, by simp only []; rw [hg.2.2]; rfl, rfl⟩
  · rw [if_neg he, if_neg he]
    obtain ⟨i1, i2, i3⟩ := decLoopRv_open win skip ns hw (rs.length + 1) _ rs 0 0 hg.1 (by rw [hg.2.1]; exact hb) (by omega)
    rw [hg.2.2] at i2
    exact ⟨i1, by omega, by omega⟩

/-! ### `decoder_end_utt` -/

/-- `acmod_end_utt` performs no search step -/
theorem acmodEndUtt_searched_len (win : Nat) (skip : Nat → Bool) (s : St) (tail : Bool) (h : Open win s)
    (hfe : tail = true ∨ s.nextId = 0) (hb : s.cmnFrames + (if tail then 1 else 0) ≤ cmnWinHwm)
    (hw : 3 * win + 2 ≤ livebuf) :
    (acmodEndUtt true win skip s tail).searched = s.searched := by
  rcases h.inv with hs | ⟨c, hp⟩
  · have hws : decide (s.state = UState.started) = true := by simp [hs.st]
    obtain ⟨mb, e, hm⟩ := endFe_spec { s with state := .ended } 0 tail (hs.mfc.setState _) h.mfc0
    cases tail with
    | false =>
      have hs' : acmodEndUtt true win skip s false = { s with state := .ended, mfcBuf := mb, nextId := 0, nMfcFrame := 0 } := by
        simp only [acmodEndUtt, e]
        simp
      rw [hs']
    | true =>
      simp only [if_true] at e hm hb
      have hsi : SInv win { s with state := .started, mfcBuf := mb, nextId := 0 + 1, nMfcFrame := 1 } :=
        ⟨(hs.core.setFe mb (0 + 1) 1).setState _, rfl, ⟨hm.len, hm.out, hm.cnt, hm.next, hm.frames⟩, hs.out0⟩
      obtain ⟨p1, p2, p3⟩ := processMfcbuf_start win skip _ hsi (by simp) (by simp only []; omega) (by omega)
      generalize hA : processMfcbuf true win skip { s with state := .started, mfcBuf := mb, nextId := 0 + 1, nMfcFrame := 1 } = A
        at p1 p2 p3
      obtain ⟨B, hB⟩ : ∃ B : St, B = { A.st with state := .ended } := ⟨_, rfl⟩
      have hBn : B.nMfcFrame = 0 := by rw [hB]; exact p2
      have hBc : FCore win B 1 := by rw [hB]; exact p1.core.setState _
      have hBl : LiveInv win B 1 := by rw [hB]; exact p1.live.of_eq rfl rfl rfl
      have hBm : MfcInv B 1 := by rw [hB]; exact p1.mfc.setState _
      have hBs : B.state = .ended := by rw [hB]
      have hBk := p3.cmnHi
      have hBcf : B.cmnFrames = A.st.cmnFrames := by rw [hB]
      simp only [] at hBk
      obtain ⟨q1, q2, q3, q4, q5⟩ := processMfcbuf_end win skip B 1 hBc hBl (Nat.le_refl _) hBs hBm
        (by rw [hBn]; have := hBm.out; omega) (by rw [hBn, hBcf]; omega) (by rw [hBn]; omega)
      have hs' : acmodEndUtt true win skip s true = (processMfcbuf true win skip B).st := by
        simp only [acmodEndUtt, e, hws, Bool.true_and, if_true, endHead]
        rw [if_pos (by decide), hB, ← hA]
      rw [hs', q3.searched, hB]
      exact p3.searched
  · have hc1 := hp.c1
    have hnext := hp.mfc.next
    have htail : tail = true := by
      rcases hfe with h1 | h1
      · exact h1
      · have := h.mfc0; omega
    subst htail
    have hws : decide (s.state = UState.started) = false := by simp [hp.st]
    obtain ⟨mb, e, hm⟩ := endFe_spec { s with state := .ended } c true (hp.mfc.setState _) h.mfc0
    simp only [if_true] at e hm hb
    obtain ⟨q1, q2, q3, q4, q5⟩ := processMfcbuf_end win skip
      { s with state := .ended, mfcBuf := mb, nextId := c + 1, nMfcFrame := 1 } c
      ((hp.core.setFe mb (c + 1) 1).setState _) (hp.live.of_eq rfl rfl rfl) hc1 rfl
      ⟨hm.len, hm.out, hm.cnt, hm.next, hm.frames⟩ (by have := hm.out; simp only [] at this ⊢; omega)
      (by simp only []; omega) (by simp only []; omega)
    have hs' : acmodEndUtt true win skip s true =
        (processMfcbuf true win skip { s with state := .ended, mfcBuf := mb, nextId := c + 1, nMfcFrame := 1 }).st := by
      simp only [acmodEndUtt, e, hws, Bool.and_false, if_false, Bool.false_eq_true]
      rw [if_pos (by decide)]
    rw [hs', q3.searched]

/-- **`decoder_end_utt` searches the remaining frames and returns 0.**  On an open utterance: the state is M5's
`decEnd`, the value returned is 0 (`search_module_finish`), and `d->n_frame` advances by exactly the frames searched
inside the call (the frames `search_module_forward` counts but `decoder_end_utt` does not return). -/
theorem C03_end_utt_frames_searched (win : Nat) (skip : Nat → Bool) (s : St) (tail : Bool) (h : Open win s)
    (hfe : tail = true ∨ s.nextId = 0) (hb : s.cmnFrames + (if tail then 1 else 0) ≤ cmnWinHwm)
    (hw : 3 * win + 2 ≤ livebuf) :
    (decEndRv true win skip s tail).st = decEnd true win skip s tail ∧
    (decEnd true win skip s tail).searched.length = s.searched.length + (decEndRv true win skip s tail).cnt ∧
    (decEndRv true win skip s tail).rv = 0 := by
  have hst : ¬ (s.state = .ended ∨ s.state = .idle) := by
    rcases h.state with e | e <;> rw [e] <;> decide
  have hcl := decEnd_closed win skip s tail h hfe hb hw
  have hk := acmodEndUtt_searched_len win skip s tail h hfe hb hw
  have hde : decEnd true win skip s tail = searchForward (acmodEndUtt true win skip s tail) := by
    unfold decEnd; rw [if_neg hst]
  obtain ⟨f1, f2, f3⟩ := searchForwardRv_ok (acmodEndUtt true win skip s tail) (by rw [← hde]; exact hcl.core.nofault)
  have hnn : ¬ (searchForwardRv (acmodEndUtt true win skip s tail)).rv < 0 := by rw [f3]; omega
  unfold decEndRv
  rw [if_neg hst]
  simp only []
  rw [if_neg hnn, hde]
  exact ⟨f1, by rw [f2, hk], rfl⟩

/-! ### one API call, a call sequence -/

/-- a call that is not a processing call returns no frame count, searches nothing and leaves `d->n_frame` alone -/
theorem stepRv_nonprocess (win : Nat) (skip : Nat → Bool) (s : St) (op : Op) (h : op.isProcess = false) :
    stepRv true win skip s op = (step true win skip s op, 0, none) := by
  cases op with
  | process _ _ => simp [Op.isProcess] at h
  | processFull _ _ => simp [Op.isProcess] at h
  | query => rfl
  | align steps => rfl

theorem stepRv_open (win : Nat) (skip : Nat → Bool) (s : St) (op : Op) (h : Open win s) (hnf : op.isFull = false)
    (hb : s.cmnFrames + offeredOps [op] ≤ cmnWinHwm) (hw : 3 * win + 1 ≤ livebuf) :
    (stepRv true win skip s op).1 = step true win skip s op ∧
    (step true win skip s op).searched.length = s.searched.length + (stepRv true win skip s op).2.1 ∧
    (stepRv true win skip s op).2.2 = if op.isProcess then some ((stepRv true win skip s op).2.1 : Int) else none := by
  cases op with
  | process ns rs =>
    have hst : ¬ s.state = .ended := by
      rcases h.state with e | e <;> rw [e] <;> decide
    simp only [offeredOps, Nat.add_zero] at hb
    obtain ⟨a, b, c⟩ := C03_process_returns_frames_searched win skip s ns rs h hb hw
    simp only [stepRv, step, hst, if_false, Op.isProcess, if_true]
    exact ⟨a, b, by rw [c]⟩
  | processFull ns rs => simp [Op.isFull] at hnf
  | query => exact ⟨rfl, rfl, rfl⟩
  | align steps =>
    rw [stepRv_nonprocess win skip s _ rfl]
    exact ⟨rfl, by rw [step_nonprocess_searched win skip s _ rfl]; rfl, rfl⟩

theorem returnsRv_nonprocess (win : Nat) (skip : Nat → Bool) : ∀ (ops : List Op) (s : St),
    (∀ op, op ∈ ops → op.isProcess = false) →
    returnsRv true win skip s ops = [] ∧ countRv true win skip s ops = 0 := by
  intro ops
  induction ops with
  | nil => intro _ _; exact ⟨rfl, rfl⟩
  | cons op ops ih =>
    intro s h
    have hp := h op (List.mem_cons_self ..)
    obtain ⟨i1, i2⟩ := ih (step true win skip s op) (fun o ho => h o (List.mem_cons_of_mem _ ho))
    simp [returnsRv, countRv, stepRv_nonprocess win skip s op hp, i1, i2]

/-- over a sequence of calls on an open utterance: the values returned are counts (`≥ 0`), their sum is the growth of
`d->n_frame`, and that is the number of frames handed to the search -/
theorem returnsRv_open (win : Nat) (skip : Nat → Bool) (hw : 3 * win + 1 ≤ livebuf) : ∀ (ops : List Op) (s : St), Open win s →
    (∀ op, op ∈ ops → op.isFull = false) → s.cmnFrames + offeredOps ops ≤ cmnWinHwm →
    (returnsRv true win skip s ops).sum = (countRv true win skip s ops : Int) ∧
    (runOps true win skip s ops).searched.length = s.searched.length + countRv true win skip s ops ∧
    (∀ x ∈ returnsRv true win skip s ops, 0 ≤ x) := by
  intro ops
  induction ops with
  | nil => intro s _ _ _; exact ⟨rfl, rfl, fun x hx => by simp [returnsRv] at hx⟩
  | cons op ops ih =>
    intro s ho hnf hb
    rw [offeredOps_cons] at hb
    have hnf1 := hnf op (List.mem_cons_self ..)
    obtain ⟨o1, o2⟩ := step_open win skip s op ho hnf1 (by omega) hw
    obtain ⟨a, b, c⟩ := stepRv_open win skip s op ho hnf1 (by omega) hw
    obtain ⟨i1, i2, i3⟩ := ih _ o1 (fun o h => hnf o (List.mem_cons_of_mem _ h)) (by omega)
    simp only [returnsRv, countRv, runOps, List.foldl_cons, a, c] at i1 i2 i3 ⊢
    refine ⟨?_, by omega, ?_⟩
    · by_cases hp : op.isProcess = true
      · simp only [hp, if_true, List.sum_append, List.sum_cons, List.sum_nil, i1]; push_cast; omega
      · have hp' : op.isProcess = false := by simpa using hp
        have h0 : (stepRv true win skip s op).2.1 = 0 := by rw [stepRv_nonprocess win skip s op hp']
        simp only [hp', Bool.false_eq_true, if_false, List.sum_append, List.sum_nil, i1, h0]; push_cast; omega
    · intro x hx
      simp only [List.mem_append] at hx
      rcases hx with hx | hx
      · by_cases hp : op.isProcess = true
        · simp only [hp, if_true, List.mem_singleton] at hx
          rw [hx]; omega
        · have hp' : op.isProcess = false := by simpa using hp
          simp [hp'] at hx
      · exact i3 x hx

/-- **the modelled return values are the log growths** that `Props/C03Frames.lean` used as its notation for "the value
returned": on an open utterance the list of values the processing calls return (`returnsRv`, computed by the counter
model) is the list of growths of the search log (`C03Frames.returns`) -/
theorem returnsRv_eq_returns (win : Nat) (skip : Nat → Bool) (hw : 3 * win + 1 ≤ livebuf) : ∀ (ops : List Op) (s : St),
    Open win s → (∀ op, op ∈ ops → op.isFull = false) → s.cmnFrames + offeredOps ops ≤ cmnWinHwm →
    returnsRv true win skip s ops = returns win skip s ops := by
  intro ops
  induction ops with
  | nil => intro _ _ _ _; rfl
  | cons op ops ih =>
    intro s ho hnf hb
    rw [offeredOps_cons] at hb
    have hnf1 := hnf op (List.mem_cons_self ..)
    obtain ⟨o1, o2⟩ := step_open win skip s op ho hnf1 (by omega) hw
    obtain ⟨a, b, c⟩ := stepRv_open win skip s op ho hnf1 (by omega) hw
    have i := ih _ o1 (fun o h => hnf o (List.mem_cons_of_mem _ h)) (by omega)
    simp only [returnsRv, returns, a, c, i]
    by_cases hp : op.isProcess = true
    · simp only [hp, if_true, ret]
      rw [b]; push_cast
      congr 2; omega
    · have hp' : op.isProcess = false := by simpa using hp
      simp only [hp', Bool.false_eq_true, if_false]

/-! ### whole utterances -/

variable (win : Nat) (skip : Nat → Bool)

/-- **C03, the values returned add up (streaming regime).**  For every call history of an utterance — processing
calls with any front-end response pattern, searching or only buffering (`no_search`), queries and alignment passes in
between (`ops`) and on the final result (`post`) — on a decoder in any well-formed state: every value a processing
call returns (the accumulator `n_searchfr` of the modelled C loop, not a quantity read off the log) is `≥ 0`; their
sum plus the frames `decoder_end_utt` searches (which it does not return: it returns 0) is `M`, the number of frames
the front end delivered; `d->n_frame` grows by exactly `M` over the utterance; no later call returns a frame count;
`decoder_n_frames = M + offset`.

`_partial`: holds under `hcmn`, i.e. for utterances of at most `cmnWinHwm − s0.cmnFrames` frames (`cmnWinHwm` = 800 =
8 s in the pinned tree); see the module comment.  Full statement: the same without `hcmn`. -/
theorem C03_returns_add_up_partial (s0 : St) (ops post : List Op) (tail : Bool) (hwf : WF0 s0)
    (hw : 3 * win + 2 ≤ livebuf)
    (hcmn : s0.cmnFrames + offeredOps ops + (if tail then 1 else 0) ≤ cmnWinHwm)
    (hfe : tail = true ∨ (runOps true win skip (startUtt s0) ops).nextId = 0)
    (hstream : ∀ op, op ∈ ops → op.isFull = false) (hpost : ∀ op, op ∈ post → op.isProcess = false) :
    let s1 := runOps true win skip (startUtt s0) ops
    let e := decEndRv true win skip s1 tail
    let sf := runUtt true win skip s0 ops tail post
    (returnsRv true win skip (startUtt s0) ops).sum + (e.cnt : Int) = (sf.nextId : Int) ∧
    (∀ x ∈ returnsRv true win skip (startUtt s0) ops, 0 ≤ x) ∧
    e.rv = 0 ∧ e.st = decEnd true win skip s1 tail ∧
    returnsRv true win skip e.st post = [] ∧
    countRv true win skip (startUtt s0) ops + e.cnt + countRv true win skip e.st post = sf.nextId ∧
    nFrames sf = (sf.nextId : Int) + nFramesOffset := by
  intro s1 e sf
  obtain ⟨h1, h2, _⟩ := C07_frames_searched_const win skip s0 ops post tail hwf hw hcmn hfe hstream hpost
  have hopen := startUtt_open win s0 hwf
  obtain ⟨o1, o2⟩ := runOps_open win skip (by omega) ops (startUtt s0) hopen hstream (by show s0.cmnFrames + _ ≤ _; omega)
  have o2' : s1.cmnFrames ≤ s0.cmnFrames + offeredOps ops := o2
  obtain ⟨r1, r2, r3⟩ := returnsRv_open win skip (by omega) ops (startUtt s0) hopen hstream (by show s0.cmnFrames + _ ≤ _; omega)
  obtain ⟨e1, e2, e3⟩ := C03_end_utt_frames_searched win skip s1 tail o1 hfe (by omega) hw
  obtain ⟨p1, p2⟩ := returnsRv_nonprocess win skip post e.st hpost
  have hsf : sf.searched = (decEnd true win skip s1 tail).searched := runOps_nonprocess_searched win skip post _ hpost
  have h0 : (startUtt s0).searched.length = 0 := rfl
  have hlen : sf.searched.length = sf.nextId := h1
  have r2' : s1.searched.length = (startUtt s0).searched.length + countRv true win skip (startUtt s0) ops := r2
  have e2' : (decEnd true win skip s1 tail).searched.length = s1.searched.length + e.cnt := e2
  rw [hsf] at hlen
  refine ⟨by rw [r1]; omega, r3, e3, e1, p1, by rw [p2]; omega, by unfold nFrames; rw [h2]⟩

/-- **C03, the values returned add up to the frames of the audio supplied.**  With c07's sample-level decoder model
(c06's front end called inside `acmod_process_raw` / `acmod_end_utt`): for every partition `ops` of the audio into
`decoder_process_*` calls, the run is a response-level call history `ops'` whose returned values (all `≥ 0`) plus the
frames searched inside `decoder_end_utt` sum to `frameCount size shift N` for the `N = samplesOf ops` samples
supplied — a function of the number of samples only — and `decoder_n_frames` is that plus the offset.

`_partial`: for `s0.cmnFrames + frameCount … ≤ cmnWinHwm` (see the module comment). -/
theorem C03_returns_equal_frameCount_partial (size shift : Nat) (s0 : St) (ops : List SSVerif.AcmodFe.OpS) (post : List Op)
    (hs : 0 < shift) (hlt : shift < size) (hwf : WF0 s0) (hw : 3 * win + 2 ≤ livebuf)
    (hcmn : s0.cmnFrames + SSVerif.FeBuf.frameCount size shift (SSVerif.AcmodFe.samplesOf ops) ≤ cmnWinHwm)
    (hpost : ∀ op, op ∈ post → op.isProcess = false) :
    ∃ (ops' : List Op) (tail : Bool),
      (SSVerif.AcmodFe.runUttS ⟨size, shift, true⟩ true win skip s0 ops post).st = runUtt true win skip s0 ops' tail post ∧
      (returnsRv true win skip (startUtt s0) ops').sum +
          ((decEndRv true win skip (runOps true win skip (startUtt s0) ops') tail).cnt : Int) =
        (SSVerif.FeBuf.frameCount size shift (SSVerif.AcmodFe.samplesOf ops) : Int) ∧
      (∀ x ∈ returnsRv true win skip (startUtt s0) ops', 0 ≤ x) ∧
      nFrames (SSVerif.AcmodFe.runUttS ⟨size, shift, true⟩ true win skip s0 ops post).st =
        (SSVerif.FeBuf.frameCount size shift (SSVerif.AcmodFe.samplesOf ops) : Int) + nFramesOffset := by
  obtain ⟨ops', tail, h1, h2, h3, h4, _⟩ :=
    SSVerif.AcmodFe.C07_runUttS_eq_runUtt size shift win skip s0 ops post hs hlt hwf hw hcmn hpost
  obtain ⟨n1, _, _, _⟩ := SSVerif.AcmodFe.C07_nextId_eq_frameCount size shift win skip s0 ops post hs hlt hwf hw hcmn hpost
  obtain ⟨a1, a2, _, _, _, _, a7⟩ := C03_returns_add_up_partial win skip s0 ops' post tail hwf hw h2 h3 h4 hpost
  have hM : (runUtt true win skip s0 ops' tail post).nextId =
      SSVerif.FeBuf.frameCount size shift (SSVerif.AcmodFe.samplesOf ops) := by rw [← h1]; exact n1
  exact ⟨ops', tail, h1, by rw [a1, hM], a2, by rw [h1, a7, hM]⟩

/-! ### the batch regime (`full_utt = 1`) -/

/-- `acmod_process_full_*` performs no search step -/
theorem fullRaw_searched (s : St) (r : FullResp) (h : BInv win s 0) (hm : s.cmnMoved = false)
    (hM : 1 ≤ fullCount r) (hw : 2 * win ≤ livebuf)
    (hc : s.cmnBatch = true ∨ s.cmnFrames + fullCount r ≤ cmnWinHwm) :
    (fullRaw win skip s r).searched = s.searched := by
  have hcnt := h.cnt
  have hof : s.outputFrame = 0 := by omega
  have hnf : s.nFeatFrame = 0 := by omega
  have hfo : s.featOutidx = 0 := by rw [h.outIdx, hof, Nat.zero_mod]
  obtain ⟨mb3, a1, eF, hl3, hM', ha1', hat⟩ := fullFe_spec s r h.mfcLen h.mfcAlloc1
  obtain ⟨fb1, a2, fo1, e4, hl4, ha2, ha2', hfo1⟩ : ∃ fb1 a2 fo1, fullFeatBuf (fullFe s r) (fullCount r) =
        { s with mfcBuf := mb3, nMfcAlloc := a1, nMfcFrame := 0, mfcOutidx := 0, nextId := fullCount r,
                 featBuf := fb1, nFeatAlloc := a2, nFeatFrame := 0, featOutidx := fo1 } ∧
      fb1.length = a2 ∧ fullCount r ≤ a2 ∧ 1 ≤ a2 ∧ fo1 = 0 := by
    rw [eF]
    unfold fullFeatBuf
    by_cases hlt : s.nFeatAlloc < fullCount r
    · exact ⟨_, _, 0, by rw [if_pos hlt], by simp, Nat.le_refl _, hM, rfl⟩
    · refine ⟨s.featBuf, s.nFeatAlloc, s.featOutidx, ?_, h.fbLen, by omega, h.alloc1, hfo⟩
      rw [if_neg hlt, ← hnf]
  obtain ⟨b1, b2, cb, fb, mb, cf, cm, e5, hcbl, hfbl, hmbl, hfe⟩ := blockUtt_spec win skip
    { s with mfcBuf := mb3, nMfcAlloc := a1, nMfcFrame := 0, mfcOutidx := 0, nextId := fullCount r,
             featBuf := fb1, nFeatAlloc := a2, nFeatFrame := 0, featOutidx := fo1 } 0 (fullCount r) 0 hM
    (by simp only []; omega) hat (by simp only []; rw [h.cepLen]; exact hw) (by simp only []; omega) hm hc
  have hdec : decide (fullCount r > 0) = true := by simp; omega
  have hE : fullRaw win skip s r =
      { s with mfcBuf := mb, nMfcAlloc := a1, nMfcFrame := 0, mfcOutidx := 0, nextId := fullCount r,
               featBuf := fb, nFeatAlloc := a2, nFeatFrame := fullCount r, featOutidx := fo1, cepbuf := cb,
               cmnFrames := cf, cmnMoved := cm } := by
    simp only [fullRaw, fullCep, e4, featLive, Bool.true_and, hdec, if_true, b2, e5]
    rw [if_pos ha2]
  rw [hE]

theorem BInv_searched_len {win M} {s : St} (h : BInv win s M) : s.searched.length = s.outputFrame := by
  rw [h.srch]; simp

/-- **`decoder_process_*(…, full_utt = 1)` returns the number of frames it searched**: on the batch call of an
utterance (one pass, `r.more = false`) the state is M5's, the value returned equals the growth of `d->n_frame` and of
the search log: all `M = fullCount r` frames of the utterance when searching, 0 with `no_search`. -/
theorem C03_process_full_returns_frames_searched (s : St) (ns : Bool) (r : FullResp) (h : BInv win s 0)
    (hst : s.state = .started) (hm : s.cmnMoved = false) (hmore : r.more = false) (hM : 1 ≤ fullCount r)
    (hw : 2 * win ≤ livebuf) (hc : s.cmnBatch = true ∨ s.cmnFrames + fullCount r ≤ cmnWinHwm) :
    (decProcessFullRv win skip s ns [r]).st = decProcessFull win skip s ns [r] ∧
    (decProcessFull win skip s ns [r]).searched.length = s.searched.length + (decProcessFullRv win skip s ns [r]).cnt ∧
    (decProcessFullRv win skip s ns [r]).rv = ((decProcessFullRv win skip s ns [r]).cnt : Int) ∧
    (decProcessFullRv win skip s ns [r]).cnt = if ns then 0 else fullCount r := by
  have hni : ¬ s.state = .idle := by rw [hst]; decide
  have hcnt := h.cnt
  have hs0 : s.searched.length = 0 := by rw [BInv_searched_len h]; omega
  cases ns with
  | true =>
    obtain ⟨g1, g2⟩ := setGrow_B h
    have hk := fullRaw_searched win skip (setGrow s true) r g1 (by rw [g2.moved]; exact hm) hM hw
      (by rw [g2.batch, g2.frames]; exact hc)
    unfold decProcessFullRv decProcessFull
    rw [if_neg hni, if_neg hni]
    simp only [decFullRv, decFull, hmore, Bool.false_eq_true, if_false, if_true]
    refine ⟨?_, ?_, ?_, ?_⟩
    · trivial
    · rw [hk, setGrow_searched]; rfl
    · trivial
    · trivial
  | false =>
    obtain ⟨f1, f2⟩ := fullRaw_spec win skip s r h hm hM hw hc
    have hk := fullRaw_searched win skip s r h hm hM hw hc
    obtain ⟨s1, s2, _⟩ := f1.search
    obtain ⟨a, b, c⟩ := searchForwardRv_ok (fullRaw win skip s r) s1.nofault
    have hnn : ¬ (searchForwardRv (fullRaw win skip s r)).rv < 0 := by rw [c]; omega
    have hend : (searchForward (fullRaw win skip s r)).searched.length = fullCount r := by
      rw [BInv_searched_len s1]; have := s1.cnt; omega
    unfold decProcessFullRv decProcessFull
    rw [if_neg hni, if_neg hni]
    simp only [decFullRv, decFull, hmore, Bool.false_eq_true, if_false]
    rw [if_neg hnn]
    rw [hk] at b
    refine ⟨a, by simp only []; omega, by simp only []; rw [c]; push_cast; omega, by simp only []; omega⟩

/-- `decoder_end_utt` after the batch call -/
theorem decEndRv_B (s : St) {M : Nat} (h : BInv win s M) (hst : s.state = .started) :
    (decEndRv true win skip s false).st = decEnd true win skip s false ∧
    (decEnd true win skip s false).searched.length = s.searched.length + (decEndRv true win skip s false).cnt ∧
    (decEndRv true win skip s false).rv = 0 := by
  have hne : ¬ (s.state = .ended ∨ s.state = .idle) := by rw [hst]; decide
  have hlt : s.nMfcFrame < s.nMfcAlloc := by rw [h.mfc0]; exact h.mfcAlloc1
  have e : acmodEndUtt true win skip s false = { s with state := .ended, nMfcFrame := s.nMfcFrame + 0 } := by
    simp only [acmodEndUtt, endFe, hlt, if_true, Bool.false_eq_true, if_false, Nat.zero_min, feWrite]
    rfl
  have hde : decEnd true win skip s false = searchForward (acmodEndUtt true win skip s false) := by
    unfold decEnd; rw [if_neg hne]
  obtain ⟨d1, _, _⟩ := decEnd_B win skip s h hst
  obtain ⟨f1, f2, f3⟩ := searchForwardRv_ok (acmodEndUtt true win skip s false) (by rw [← hde]; exact d1.nofault)
  have hnn : ¬ (searchForwardRv (acmodEndUtt true win skip s false)).rv < 0 := by rw [f3]; omega
  unfold decEndRv
  rw [if_neg hne]
  simp only []
  rw [if_neg hnn, hde]
  refine ⟨f1, ?_, rfl⟩
  rw [f2, e]

/-- **C03, the values returned add up (batch regime, `full_utt = 1`).**  One processing call on the whole utterance
(queries / alignment before, between and after), on a decoder in any state: the call returns `M = fullCount r` (0 with
`no_search`), `decoder_end_utt` returns 0 and searches the rest (nothing, or all `M` frames after a `no_search` call);
value returned + frames searched inside `decoder_end_utt` = growth of `d->n_frame` = `M`, the frames the front end
delivered; `decoder_n_frames = M + offset`.  With batch CMN (`cmnBatch`, the default) there is no bound on the
length of the utterance. -/
theorem C03_returns_add_up_full (s0 : St) (pre mid post : List Op) (ns : Bool) (r : FullResp)
    (hwf : WF0F s0) (hw : 2 * win ≤ livebuf) (hmore : r.more = false) (hM : 1 ≤ fullCount r)
    (hc : s0.cmnBatch = true ∨ s0.cmnFrames + fullCount r ≤ cmnWinHwm)
    (hpre : ∀ op, op ∈ pre → op.isProcess = false) (hmid : ∀ op, op ∈ mid → op.isProcess = false)
    (hpost : ∀ op, op ∈ post → op.isProcess = false) :
    let sa := runOps true win skip (startUtt s0) pre
    let c := stepRv true win skip sa (.processFull ns [r])
    let sb := runOps true win skip c.1 mid
    let e := decEndRv true win skip sb false
    let sf := runUttFull win skip s0 pre ns r mid post
    c.1 = step true win skip sa (.processFull ns [r]) ∧
    c.2.2 = some (if ns then (0 : Int) else (fullCount r : Int)) ∧ c.2.2 = some (c.2.1 : Int) ∧
    e.rv = 0 ∧ runOps true win skip e.st post = sf ∧
    c.2.1 + e.cnt = fullCount r ∧
    sf.nextId = fullCount r ∧ nFrames sf = (fullCount r : Int) + nFramesOffset := by
  intro sa c sb e sf
  obtain ⟨_, h2, _, _, h5⟩ := C07_full_features_canonical win skip s0 pre mid post ns r hwf hw hmore hM hc hpre hmid hpost
  have h0 : BInv win (startUtt s0) 0 := by
    refine ⟨hwf.nofault, hwf.cepLen, hwf.fbLen, hwf.alloc1, hwf.mfcLen, hwf.mfcAlloc1, rfl, rfl, rfl, Nat.zero_le _, ?_, ?_, ?_, ?_⟩
    · show 0 = 0 % s0.nFeatAlloc; rw [Nat.zero_mod]
    · intro k hk; omega
    · show SearchedOK (startUtt s0); unfold SearchedOK startUtt; rfl
    · intro l hl; exact absurd hl (by simp [startUtt])
  obtain ⟨p1, p2⟩ := runOps_B win skip pre _ h0 hpre
  have hst1 : sa.state = .started := by show (runOps true win skip (startUtt s0) pre).state = _; rw [p2.state]; rfl
  have hmv1 : sa.cmnMoved = false := by show (runOps true win skip (startUtt s0) pre).cmnMoved = _; rw [p2.moved]; rfl
  have hc1 : sa.cmnBatch = true ∨ sa.cmnFrames + fullCount r ≤ cmnWinHwm := by
    show (runOps true win skip (startUtt s0) pre).cmnBatch = true ∨ (runOps true win skip (startUtt s0) pre).cmnFrames + _ ≤ _
    rw [p2.batch, p2.frames]; exact hc
  obtain ⟨f1, f2⟩ := decProcessFull_B win skip sa ns r p1 hst1 hmv1 hmore hM hw hc1
  obtain ⟨a1, a2, a3, a4⟩ := C03_process_full_returns_frames_searched win skip sa ns r p1 hst1 hmv1 hmore hM hw hc1
  have hne : ¬ sa.state = .ended := by rw [hst1]; decide
  have hstep : step true win skip sa (.processFull ns [r]) = decProcessFull win skip sa ns [r] := by
    simp only [step]; rw [if_neg hne]
  have hc : c = ((decProcessFullRv win skip sa ns [r]).st, (decProcessFullRv win skip sa ns [r]).cnt,
      some (decProcessFullRv win skip sa ns [r]).rv) := by
    show stepRv true win skip sa (.processFull ns [r]) = _
    simp only [stepRv]; rw [if_neg hne]
  have hc1' : c.1 = decProcessFull win skip sa ns [r] := by rw [hc]; exact a1
  obtain ⟨m1, m2⟩ := runOps_B win skip mid _ f1 hmid
  have hsbB : BInv win sb (fullCount r) := by show BInv win (runOps true win skip c.1 mid) _; rw [hc1']; exact m1
  have hsbst : sb.state = .started := by
    show (runOps true win skip c.1 mid).state = _; rw [hc1', m2.state]; exact f2
  obtain ⟨d1, d2, d3⟩ := decEndRv_B win skip sb hsbB hsbst
  have hsbs : sb.searched.length = (decProcessFull win skip sa ns [r]).searched.length := by
    show (runOps true win skip c.1 mid).searched.length = _
    rw [hc1', runOps_nonprocess_searched win skip mid _ hmid]
  have hsas : sa.searched.length = 0 := by rw [BInv_searched_len p1]; have := p1.cnt; omega
  have hsf : sf = runOps true win skip (decEnd true win skip sb false) post := by
    show runUttFull win skip s0 pre ns r mid post = _
    unfold runUttFull
    show _ = runOps true win skip (decEnd true win skip (runOps true win skip c.1 mid) false) post
    rw [hc1', hstep]
  have hsfl : sf.searched.length = fullCount r := by
    have := h5; have hcl := (runUttFull_inv win skip s0 pre mid post ns r hwf hw hmore hM
      (by assumption) hpre hmid hpost).1
    rw [BInv_searched_len hcl]; exact h5
  have hsfs : sf.searched = (decEnd true win skip sb false).searched := by
    rw [hsf]; exact runOps_nonprocess_searched win skip post _ hpost
  have hcnt : c.2.1 = (decProcessFullRv win skip sa ns [r]).cnt := by rw [hc]
  have hrv : c.2.2 = some (decProcessFullRv win skip sa ns [r]).rv := by rw [hc]
  refine ⟨by rw [hc1', hstep], ?_, by rw [hrv, hcnt, a3], d3, by rw [hsf, d1], ?_, h2, by unfold nFrames; rw [h5]⟩
  · rw [hrv, a3, a4]; cases ns <;> simp
  · rw [hsfs] at hsfl
    have d2' : (decEnd true win skip sb false).searched.length = sb.searched.length + e.cnt := d2
    omega

/-! ### non-vacuity -/

/-- c07's 9-frame example utterance: the calls return 0, 0 (window lag) and 0 (`no_search`); all 9 frames are searched
inside `decoder_end_utt`, which returns 0 -/
example : returnsRv true 3 (fun _ => false) (startUtt (St.init 500)) exOps = [0, 0, 0] ∧
    (decEndRv true 3 (fun _ => false) (runOps true 3 (fun _ => false) (startUtt (St.init 500)) exOps) true).cnt = 9 ∧
    (decEndRv true 3 (fun _ => false) (runOps true 3 (fun _ => false) (startUtt (St.init 500)) exOps) true).rv = 0 := by
  decide +kernel

/-- accumulation over the passes of the `while (n_samples)` loop: a call whose audio takes two passes (8 frames, then
8 more) returns 5 + 8 = 13 (window lag 3 in the first pass), a later call 114; `decoder_end_utt` searches the last 4:
13 + 114 + 4 = 131 = M -/
example : returnsRv true 3 (fun _ => false) (startUtt (St.init 500))
      [.process false [⟨8, true⟩, ⟨8, false⟩], .query, .process false [⟨130, true⟩, ⟨2, false⟩]] = [13, 114] ∧
    (decEndRv true 3 (fun _ => false) (runOps true 3 (fun _ => false) (startUtt (St.init 500))
      [.process false [⟨8, true⟩, ⟨8, false⟩], .query, .process false [⟨130, true⟩, ⟨2, false⟩]]) true).cnt = 4 ∧
    (runUtt true 3 (fun _ => false) (St.init 500)
      [.process false [⟨8, true⟩, ⟨8, false⟩], .query, .process false [⟨130, true⟩, ⟨2, false⟩]] true []).nextId = 131 := by
  decide +kernel

/-- beyond the bound of the `_partial` theorems: the decoder starts with 790 frames in the live-CMN window, so the window
shifts during the utterance (`cmnMoved`), `hcmn` fails (790 + 148 offered > 800) — `C03_returns_sum_is_n_frame_growth`
still applies (no value returned is negative), and the model's own run gives Σ returns = 13 + 114 = 127 = growth of
`d->n_frame`, 4 more frames inside `decoder_end_utt`, no fault -/
example : (St.init 790).cmnFrames + offeredOps
      [.process false [⟨8, true⟩, ⟨8, false⟩], .query, .process false [⟨130, true⟩, ⟨2, false⟩]] > cmnWinHwm ∧
    returnsRv true 3 (fun _ => false) (startUtt (St.init 790))
      [.process false [⟨8, true⟩, ⟨8, false⟩], .query, .process false [⟨130, true⟩, ⟨2, false⟩]] = [13, 114] ∧
    countRv true 3 (fun _ => false) (startUtt (St.init 790))
      [.process false [⟨8, true⟩, ⟨8, false⟩], .query, .process false [⟨130, true⟩, ⟨2, false⟩]] = 127 ∧
    (runOps true 3 (fun _ => false) (startUtt (St.init 790))
      [.process false [⟨8, true⟩, ⟨8, false⟩], .query, .process false [⟨130, true⟩, ⟨2, false⟩]]).cmnMoved = true ∧
    (decEndRv true 3 (fun _ => false) (runOps true 3 (fun _ => false) (startUtt (St.init 790))
      [.process false [⟨8, true⟩, ⟨8, false⟩], .query, .process false [⟨130, true⟩, ⟨2, false⟩]]) true).cnt = 4 := by
  decide +kernel

/-- the error returns: processing or ending without an open utterance returns −1; the batch call returns `M` -/
example : (decProcessRv true 3 (fun _ => false) (St.init 0) false [⟨8, false⟩]).rv = -1 ∧
    (decEndRv true 3 (fun _ => false) (St.init 0) false).rv = -1 ∧
    (stepRv true 3 (fun _ => false) (startUtt (St.init 0)) (.processFull false [⟨10, 9, false, true⟩])).2 = (10, some 10) ∧
    (stepRv true 3 (fun _ => false) (startUtt (St.init 0)) (.processFull true [⟨10, 9, false, true⟩])).2 = (0, some 0) := by
  decide +kernel

end SSVerif.C03Ret
